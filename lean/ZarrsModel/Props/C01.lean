import ZarrsModel.Model.Array
import ZarrsModel.Lemmas.Array
/-
C01 — array reads return exactly what was written, for every history.
C04 — fill-value elision never drops data; absent chunks read as fill (same refinement invariant).

`cfg` is any array configuration whose codec chain is lossless (C03), whose key encoding is injective (C11)
and whose grid is built from a configuration with non-zero chunk sizes and is compatible with the array shape
(C10).  The abstract array `AArr` assigns one element to every index; `absRun ops` is the obvious effect of a
history on it (later writes override earlier ones, erased chunks revert to fill, everything else is fill).
-/
set_option linter.unusedSectionVars false
namespace Zarrs.C01
open Zarrs

variable {α : Type} [DecidableEq α]

/-- the standing assumptions on a configuration -/
structure Ok (cfg : ArrCfg α) (G : Shape) : Prop where
  lossless : cfg.Lossless
  keysInj : cfg.KeysInjective
  gridNew : ∃ gcfg, cfg.grid = Grid.new gcfg
  gridWf : cfg.grid.wf = true
  gridShape : cfg.grid.gridShape cfg.shape = some G
  rank : cfg.shape.length = cfg.grid.length

/-- in-bounds write/erase operations (the quantifier of the property) -/
def opInBounds (cfg : ArrCfg α) (G : Shape) : WriteOp α → Prop
  | .storeChunk c d => inB c G = true ∧ ∃ s, cfg.chunkShape c = some s ∧ d.length = prod s
  | .storeChunks b d => b.wf = true ∧ b.inboundsShape G = true ∧
      ∃ region, cfg.grid.chunksSubset b = some region ∧ d.length = region.numElements
  | .storeChunkSubset c r d => inB c G = true ∧ r.wf = true ∧
      (∃ s, cfg.chunkShape c = some s ∧ r.inboundsShape s = true) ∧ d.length = r.numElements
  | .storeArraySubset r d => r.wf = true ∧ r.inboundsShape cfg.shape = true ∧ d.length = r.numElements
  | .eraseChunk c => inB c G = true
  | .eraseChunks b => b.wf = true ∧ b.inboundsShape G = true

/-! ### the example configuration used by the non-vacuity `example`s -/

/-- unary chunk keys: `[2, 1] ↦ "aa/a/"` (injective on all index lists) -/
def exKey (c : Idx) : Key := c.flatMap (fun n => List.replicate n 'a' ++ ['/'])

theorem exKey_inj : ∀ a b : Idx, exKey a = exKey b → a = b := by
  have hrep : ∀ (n m : Nat) (r r' : Key),
      List.replicate n 'a' ++ '/' :: r = List.replicate m 'a' ++ '/' :: r' → n = m ∧ r = r' := by
    intro n
    induction n with
    | zero =>
      intro m r r' h
      cases m with
      | zero => simpa using h
      | succ m => simp [List.replicate_succ] at h
    | succ n ih =>
      intro m r r' h
      cases m with
      | zero => simp [List.replicate_succ] at h
      | succ m =>
        simp only [List.replicate_succ, List.cons_append, List.cons.injEq, true_and] at h
        obtain ⟨h1, h2⟩ := ih m r r' h
        exact ⟨by omega, h2⟩
  intro a
  induction a with
  | nil =>
    intro b h
    cases b with
    | nil => rfl
    | cons y ys =>
      have := congrArg List.length h
      simp [exKey] at this
  | cons x xs ih =>
    intro b h
    cases b with
    | nil =>
      have := congrArg List.length h
      simp [exKey] at this
    | cons y ys =>
      simp only [exKey, List.flatMap_cons, List.append_assoc, List.singleton_append] at h
      obtain ⟨h1, h2⟩ := hrep x y _ _ h
      rw [h1, ih ys h2]

/-- a 5×7 array of `Nat`, regular 2×3 chunks (grid shape 3×3, the last row and column of chunks overhang),
fill 0, identity codec, elision of all-fill chunks on -/
def exCfg : ArrCfg Nat :=
  { shape := [5, 7], grid := Grid.new [.fixed 2, .fixed 3], fill := 0, keyOf := exKey,
    enc := id, dec := some, storeEmpty := false }

theorem exOk : Ok exCfg [3, 3] where
  lossless := fun _ => rfl
  keysInj := exKey_inj
  gridNew := ⟨_, rfl⟩
  gridWf := by decide
  gridShape := by decide
  rank := rfl

/-- a history exercising every operation; the first write straddles chunks (0,0), (0,1), (1,0), (1,1) -/
def exOps : List (WriteOp Nat) :=
  [ .storeArraySubset ⟨[1, 2], [3, 4]⟩ [0, 1, 2, 3, 4, 5, 6, 7, 8, 9, 10, 11],
    .storeChunk [0, 0] [7, 7, 7, 7, 7, 7],
    .eraseChunk [1, 1],
    .storeChunks ⟨[0, 1], [2, 2]⟩ (List.replicate 24 9),
    .storeChunkSubset [2, 2] ⟨[0, 1], [1, 2]⟩ [5, 6],
    .eraseChunks ⟨[2, 0], [1, 2]⟩ ]

theorem exOps_inBounds : ∀ op ∈ exOps, opInBounds exCfg [3, 3] op := by
  intro op hop
  simp only [exOps, List.mem_cons, List.not_mem_nil, or_false] at hop
  rcases hop with rfl | rfl | rfl | rfl | rfl | rfl
  · exact ⟨by decide, by decide, by decide⟩
  · exact ⟨by decide, [2, 3], by decide, by decide⟩
  · exact (by decide : inB [1, 1] [3, 3] = true)
  · exact ⟨by decide, by decide, ⟨[0, 3], [4, 6]⟩, by decide, by decide⟩
  · exact ⟨by decide, by decide, ⟨[2, 3], by decide, by decide⟩, by decide⟩
  · exact ⟨by decide, by decide⟩

/-- **C01.** After any in-bounds history starting from the empty store, every read route returns, element for
element, the abstract array: the most recently written value, fill where nothing was written or the last write
was erased. -/
theorem read_after_history (cfg : ArrCfg α) (G : Shape) (hok : Ok cfg G)
    (ops : List (WriteOp α)) (hops : ∀ op ∈ ops, opInBounds cfg G op) :
    ∃ st, cfg.run [] ops = some st ∧
      (∀ r : Subset, r.wf = true → r.inboundsShape cfg.shape = true →
        cfg.retrieveArraySubset st r = some (AArr.read (cfg.absRun ops) r)) ∧
      (∀ c, inB c G = true → ∃ cs, cfg.chunkSubset c = some cs ∧
        cfg.retrieveChunk st c = some (AArr.read (cfg.absRun ops) cs)) ∧
      (∀ c r, inB c G = true → r.wf = true →
        (∃ s, cfg.chunkShape c = some s ∧ r.inboundsShape s = true) →
        ∃ cs, cfg.chunkSubset c = some cs ∧
          cfg.retrieveChunkSubset st c r = some (AArr.read (cfg.absRun ops) ⟨addIdx r.start cs.start, r.shape⟩)) ∧
      (∀ b : Subset, b.wf = true → b.inboundsShape G = true →
        ∃ region, cfg.grid.chunksSubset b = some region ∧
          cfg.retrieveChunks st b = some (AArr.read (cfg.absRun ops) region)) := by
  have hok' : cfg.COk G := ⟨hok.lossless, hok.keysInj, hok.gridNew, hok.gridWf, hok.gridShape, hok.rank⟩
  have hops' : ∀ op ∈ ops, cfg.opInB G op := fun op hop => by
    have := hops op hop; cases op <;> exact this
  obtain ⟨st, hrun, hinv⟩ := ArrCfg.run_empty_inv hok' ops hops'
  refine ⟨st, hrun, ?_, ?_, ?_, ?_⟩
  · intro r hr hb
    exact ArrCfg.retrieveArraySubset_read hok' hinv r hr hb
  · intro c hc
    obtain ⟨cs, hcs, _⟩ := hok'.chunk_def c hc
    exact ⟨cs, hcs, hinv.chunks c hc cs hcs⟩
  · rintro c r hc hr ⟨s, hs, hrb⟩
    obtain ⟨cs, hcs, hsh, _⟩ := hok'.chunk_def c hc
    rw [hs] at hsh; cases hsh
    exact ⟨cs, hcs, ArrCfg.retrieveChunkSubset_read hok' hinv hc hcs r hr hrb⟩
  · intro b hb hbi
    exact ArrCfg.retrieveChunks_read hok' hinv b hb hbi

/-- non-vacuity: a 5×7 array of `Nat` over a regular 2×3 grid (edge chunks overhang the array), unary-coded
chunk keys, identity codec, elision on; the history has a write straddling four chunks, whole-chunk and
partial-chunk writes, a multi-chunk write and both kinds of erase -/
example : ∃ (cfg : ArrCfg Nat) (G : Shape) (ops : List (WriteOp Nat)),
    Ok cfg G ∧ (∀ op ∈ ops, opInBounds cfg G op) ∧ ops.length = 6 :=
  ⟨exCfg, [3, 3], exOps, exOk, exOps_inBounds, rfl⟩

/-- the conclusion on the example, checked by evaluation: reading the whole array back after the history -/
example : (exCfg.run [] exOps).bind (fun st => exCfg.retrieveArraySubset st ⟨[0, 0], [5, 7]⟩) =
    some (AArr.read (exCfg.absRun exOps) ⟨[0, 0], [5, 7]⟩) := by decide

/-- the abstract array really is "last write wins, else fill": reading one index -/
theorem abs_last_write (cfg : ArrCfg α) (ops : List (WriteOp α)) (op : WriteOp α) (i : Idx) :
    cfg.absRun (ops ++ [op]) i = cfg.absOp (cfg.absRun ops) op i ∧ cfg.absRun [] i = cfg.fill := by
  simp [ArrCfg.absRun, List.foldl_append]

/-- `abs_last_write` has no hypotheses; on the example: the last write wins at `[1, 3]`, which an earlier
write had set to `1` -/
example : exCfg.absRun exOps [1, 3] = 9 ∧ exCfg.absRun (exOps.take 1) [1, 3] = 1 := by decide

/-- **C04 (elision on).** With `store_empty_chunks` off, after any history a chunk key is present exactly when
the chunk holds at least one non-fill element -/
theorem key_present_iff (cfg : ArrCfg α) (G : Shape) (hok : Ok cfg G) (helide : cfg.storeEmpty = false)
    (ops : List (WriteOp α)) (hops : ∀ op ∈ ops, opInBounds cfg G op) :
    ∃ st, cfg.run [] ops = some st ∧
      ∀ c, inB c G = true → ∃ cs, cfg.chunkSubset c = some cs ∧
        (cfg.keyOf c ∈ st.keys ↔ ∃ i, cs.contains i = true ∧ cfg.absRun ops i ≠ cfg.fill) := by
  have hok' : cfg.COk G := ⟨hok.lossless, hok.keysInj, hok.gridNew, hok.gridWf, hok.gridShape, hok.rank⟩
  have hops' : ∀ op ∈ ops, cfg.opInB G op := fun op hop => by
    have := hops op hop; cases op <;> exact this
  obtain ⟨st, hrun, hinv⟩ := ArrCfg.run_empty_inv hok' ops hops'
  refine ⟨st, hrun, ?_⟩
  intro c hc
  obtain ⟨cs, hcs, _⟩ := hok'.chunk_def c hc
  exact ⟨cs, hcs, hinv.elide helide c hc cs hcs⟩

example : ∃ (cfg : ArrCfg Nat) (G : Shape) (ops : List (WriteOp Nat)),
    Ok cfg G ∧ cfg.storeEmpty = false ∧ (∀ op ∈ ops, opInBounds cfg G op) ∧ ops.length = 6 :=
  ⟨exCfg, [3, 3], exOps, exOk, rfl, exOps_inBounds, rfl⟩

/-- **C04.** no other keys are ever written -/
theorem keys_are_chunk_keys (cfg : ArrCfg α) (G : Shape) (hok : Ok cfg G)
    (ops : List (WriteOp α)) (hops : ∀ op ∈ ops, opInBounds cfg G op) :
    ∃ st, cfg.run [] ops = some st ∧ ∀ k ∈ st.keys, ∃ c, inB c G = true ∧ k = cfg.keyOf c := by
  have hok' : cfg.COk G := ⟨hok.lossless, hok.keysInj, hok.gridNew, hok.gridWf, hok.gridShape, hok.rank⟩
  have hops' : ∀ op ∈ ops, cfg.opInB G op := fun op hop => by
    have := hops op hop; cases op <;> exact this
  obtain ⟨st, hrun, hinv⟩ := ArrCfg.run_empty_inv hok' ops hops'
  exact ⟨st, hrun, hinv.keys⟩

example : ∃ (cfg : ArrCfg Nat) (G : Shape) (ops : List (WriteOp Nat)),
    Ok cfg G ∧ (∀ op ∈ ops, opInBounds cfg G op) ∧ ops.length = 6 :=
  ⟨exCfg, [3, 3], exOps, exOk, exOps_inBounds, rfl⟩

/-- **C04 (elision off).** every chunk written through the whole-chunk write path is physically stored -/
theorem store_empty_stores (cfg : ArrCfg α) (hempty : cfg.storeEmpty = true) (st st' : KV) (c : Idx) (d : List α)
    (h : cfg.storeChunk st c d = some st') : cfg.keyOf c ∈ st'.keys := by
  simp only [ArrCfg.storeChunk, hempty, Bool.not_true, Bool.false_and, Bool.false_eq_true, if_false] at h
  split at h
  · cases h
  · split at h
    · cases h
    · cases h
      rw [KV.mem_keys_iff_get, KV.get_put_same]
      simp

/-- an all-fill chunk written with `store_empty_chunks` on -/
example : ∃ (cfg : ArrCfg Nat) (st st' : KV) (c : Idx) (d : List Nat),
    cfg.storeEmpty = true ∧ cfg.storeChunk st c d = some st' ∧ cfg.isFill d = true :=
  ⟨{ exCfg with storeEmpty := true }, [], _, [1, 2], List.replicate 6 0, rfl, rfl, by decide⟩

/-- **C04.** a chunk is left out only if all its elements equal the fill value -/
theorem elided_only_if_fill (cfg : ArrCfg α) (st st' : KV) (c : Idx) (d : List α)
    (h : cfg.storeChunk st c d = some st') (hk : cfg.keyOf c ∉ st'.keys) : ∀ x ∈ d, x = cfg.fill := by
  simp only [ArrCfg.storeChunk] at h
  split at h
  · cases h
  · split at h
    · cases h
    · split at h
      · rename_i hcond
        simp only [Bool.and_eq_true] at hcond
        exact (ArrCfg.isFill_iff d).mp hcond.2
      · cases h
        exfalso
        apply hk
        rw [KV.mem_keys_iff_get, KV.get_put_same]
        simp

/-- an all-fill chunk overwriting a stored one: the key disappears -/
example : ∃ (cfg : ArrCfg Nat) (st st' : KV) (c : Idx) (d : List Nat),
    cfg.storeChunk st c d = some st' ∧ cfg.keyOf c ∉ st'.keys ∧ cfg.keyOf c ∈ st.keys :=
  ⟨exCfg, [(exKey [1, 2], [1, 2, 3, 4, 5, 6])], [], [1, 2], List.replicate 6 0, by decide, by decide, by decide⟩

/-- **C04.** whatever is left out reads back as fill -/
theorem absent_reads_fill (cfg : ArrCfg α) (st : KV) (c : Idx) (s : Shape)
    (hs : cfg.chunkShape c = some s) (hk : cfg.keyOf c ∉ st.keys) :
    cfg.retrieveChunk st c = some (List.replicate (prod s) cfg.fill) ∧
    cfg.retrieveChunkIfExists st c = some none := by
  have hget : st.get (cfg.keyOf c) = none := by
    cases hg : st.get (cfg.keyOf c) with
    | none => rfl
    | some b => exact absurd ((KV.mem_keys_iff_get st _).mpr (by rw [hg]; simp)) hk
  simp [ArrCfg.retrieveChunk, ArrCfg.retrieveChunkIfExists, hs, hget]

example : ∃ (cfg : ArrCfg Nat) (st : KV) (c : Idx) (s : Shape),
    cfg.chunkShape c = some s ∧ cfg.keyOf c ∉ st.keys ∧ st ≠ [] :=
  ⟨exCfg, [(exKey [1, 2], [1, 2, 3, 4, 5, 6])], [0, 1], [2, 3], by decide, by decide, by decide⟩

/-- the run-based update of the code equals the element-wise scatter specification -/
theorem updateRuns_eq_scatter (sh : Shape) (r : Subset) (xs ys : List α) (hr : r.wf = true)
    (hb : r.inboundsShape sh = true) (hx : xs.length = prod sh) (hy : ys.length = r.numElements) :
    (updateRuns sh r xs ys).map some = scatter sh r xs ys :=
  updateRuns_scatter sh r xs ys hr hb hx hy

/-- a 2×2 region in the interior of a 3×4 array: two runs of two elements -/
example : ∃ (sh : Shape) (r : Subset) (xs ys : List Nat), r.wf = true ∧ r.inboundsShape sh = true ∧
    xs.length = prod sh ∧ ys.length = r.numElements ∧
    updateRuns sh r xs ys = [0, 0, 0, 0, 0, 1, 2, 0, 0, 3, 4, 0] :=
  ⟨[3, 4], ⟨[1, 1], [2, 2]⟩, List.replicate 12 0, [1, 2, 3, 4], by decide⟩

end Zarrs.C01
