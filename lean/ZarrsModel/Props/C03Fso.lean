import ZarrsModel.Model.FixedScaleOffset
import ZarrsModel.Lemmas.Fso
set_option Elab.async false
/-
C03, continued: `numcodecs.fixedscaleoffset` (Model/FixedScaleOffset.lean).

* the SPECIFICATION on exact rationals is within half a quantum, exactly half only at ties, and idempotent
  (`fso_within_tolerance`, `fso_idempotent`);
* the CODE (each `f32`/`f64` step = exact operation followed by `rnd p`) equals the specification whenever the explicit
  predicate `encExact` / `decExact` ("every intermediate is exactly representable and survives the casts") holds
  (`fso_exact_when_representable`); integers below `2^24` / `2^53` are such (`rep_intCast`), which gives the integer
  class a closed form (`fso_int_formula`) and its exact lossless condition (`fso_int_lossless`, `fso_int_lossless_iff`);
  inputs OUTSIDE the predicate (e.g. almost every value under a scale that is not a power of two: `n / 10` is not a
  binary fraction; 64-bit integers above `2^53`) are not covered by a theorem: the driver judges them with
  `0.5 / scale` plus a float slack; infinities, NaN, overflow and subnormal results are outside the model altogether;
* what the codec ADVERTISES for its encoded representation is what encoding produces (`fso_fill_mapping`), and the
  all-fill test may be done on either side exactly when the codec is injective on the chunk's values (`fso_all_fill_iff`).
-/
namespace Zarrs.C03
open Zarrs Zarrs.Fso

/-! ### the specification -/

/-- **the decoded value is within half a quantum of the original**, `|decodeQ (encodeQ x) - x| ≤ 1 / (2 * scale)`, for
every rational `x` and every positive scale, **with equality exactly at the ties** (`(x - offset) * scale` has fractional
part one half) -/
theorem fso_within_tolerance (off sc x : Rat) (hs : 0 < sc) :
    (decodeQ off sc (encodeQ off sc x) - x).abs ≤ 1 / (2 * sc) ∧
    ((decodeQ off sc (encodeQ off sc x) - x).abs = 1 / (2 * sc) ↔ isTie ((x - off) * sc)) := by
  have hn := roundHalfAway_near ((x - off) * sc)
  have ht := roundHalfAway_tie_iff ((x - off) * sc)
  rw [decodeQ_sub off sc x hs]
  unfold encodeQ
  generalize (roundHalfAway ((x - off) * sc) : Rat) - (x - off) * sc = d at *
  have hne : sc ≠ 0 := Rat.ne_of_gt hs
  have hi : 0 < sc⁻¹ := Rat.inv_pos.mpr hs
  have e1 : d / sc = d * sc⁻¹ := Rat.div_def _ _
  have e2 : 1 / (2 * sc) = 1 / 2 * sc⁻¹ := by grind
  have hpos : 0 < 1 / (2 * sc) := by rw [e2]; exact Rat.mul_pos (by grind) hi
  have a1 : -(1/2) * sc⁻¹ ≤ d * sc⁻¹ := Rat.mul_le_mul_of_nonneg_right hn.1 (Rat.le_of_lt hi)
  have a2 : d * sc⁻¹ ≤ 1/2 * sc⁻¹ := Rat.mul_le_mul_of_nonneg_right hn.2 (Rat.le_of_lt hi)
  constructor
  · apply abs_le_of <;> grind
  · rw [abs_eq_iff _ _ hpos, ← ht]
    constructor
    · rintro (h | h)
      · left; have : d = d / sc * sc := (Rat.div_mul_cancel hne).symm
        rw [this, h]; grind
      · right; have : d = d / sc * sc := (Rat.div_mul_cancel hne).symm
        rw [this, h]; grind
    · rintro (h | h)
      · left; rw [h]; grind
      · right; rw [h]; grind

/-- offset -3, scale 10: 11363.2 is an ordinary value (error 0 < 1/20); 11363.25 is a tie (113662.5), rounded AWAY from zero
to 113663, error exactly 1/20; so is -3.25 (a tie at -2.5, rounded to -3) -/
example : encodeQ (-3) 10 (113632 / 10) = 113662 ∧ decodeQ (-3) 10 113662 = 113632 / 10 ∧
    isTie ((11363.25 - (-3)) * 10 : Rat) ∧ encodeQ (-3) 10 11363.25 = 113663 ∧
    (decodeQ (-3) 10 113663 - 11363.25 : Rat).abs = 1 / (2 * 10) ∧
    encodeQ (-3) 10 (-3.25) = -3 ∧ ¬ isTie ((11363.2 - (-3)) * 10 : Rat) := by decide +kernel

/-- ties go away from zero (Rust `f32::round` / `f64::round`, not ties-to-even) -/
theorem fso_tie_away (off sc x : Rat) (h : isTie ((x - off) * sc)) :
    (0 ≤ (x - off) * sc → (encodeQ off sc x : Rat) = (x - off) * sc + 1 / 2) ∧
    ((x - off) * sc < 0 → (encodeQ off sc x : Rat) = (x - off) * sc - 1 / 2) :=
  roundHalfAway_tie_away _ h

example : encodeQ 0 1 (5 / 2) = 3 ∧ encodeQ 0 1 (-5 / 2) = -3 ∧ encodeQ 0 2 (1 / 4) = 1 := by decide +kernel

/-- an encoded value decodes to a value that encodes to it -/
theorem encodeQ_decodeQ (off sc : Rat) (n : Int) (hs : sc ≠ 0) : encodeQ off sc (decodeQ off sc n) = n := by
  unfold encodeQ decodeQ
  have : ((n : Rat) / sc + off - off) * sc = n := by grind
  rw [this, roundHalfAway_intCast]

/-- **encode ∘ decode ∘ encode = encode** -/
theorem fso_idempotent (off sc x : Rat) (hs : sc ≠ 0) :
    encodeQ off sc (decodeQ off sc (encodeQ off sc x)) = encodeQ off sc x :=
  encodeQ_decodeQ off sc _ hs

example : encodeQ 1000 100 (decodeQ 1000 100 (encodeQ 1000 100 (12345678 / 1000))) = 1134568 := by decide +kernel

/-! ### the code equals the specification where every intermediate is exactly representable -/

/-- **under the explicit exactness predicate the floating computation IS the specification**: the encoded element is
`encodeQ x`; the decoded element is `decodeQ (encodeQ x)` passed through the final `as $ty` (the identity for a float
element type, truncation and saturation for an integer one).  `encExact` / `decExact` are decidable and are what the
driver evaluates to decide whether a line is predicted exactly or judged with tolerance. -/
theorem fso_exact_when_representable (c : Cfg) (x : Rat)
    (he : encExact c x = true) (hd : decExact c (encodeQ c.off c.sc x) = true) :
    encodeElem c x = (encodeQ c.off c.sc x : Rat) ∧
    decodeElem c (encodeElem c x) = fromF c.dtype (decodeQ c.off c.sc (encodeQ c.off c.sc x)) := by
  have h1 := encodeElem_exact c x he
  exact ⟨h1, by rw [h1]; exact decodeElem_exact c _ hd⟩

/-- **hence, for a float element type, the code is within the tolerance** (a consequence for this input class, not a
convention), with equality only at ties -/
theorem fso_float_within_tolerance (c : Cfg) (w : Nat) (x : Rat) (hT : c.dtype = .flt w) (hs : 0 < c.sc)
    (he : encExact c x = true) (hd : decExact c (encodeQ c.off c.sc x) = true) :
    (decodeElem c (encodeElem c x) - x).abs ≤ 1 / (2 * c.sc) ∧
    ((decodeElem c (encodeElem c x) - x).abs = 1 / (2 * c.sc) ↔ isTie ((x - c.off) * c.sc)) := by
  have h := (fso_exact_when_representable c x he hd).2
  have hf : fromF c.dtype (decodeQ c.off c.sc (encodeQ c.off c.sc x)) = decodeQ c.off c.sc (encodeQ c.off c.sc x) := by
    rw [hT]; rfl
  rw [h, hf]
  exact fso_within_tolerance c.off c.sc x hs

/-- float64 with offset -3, scale 2, stored as int32: 11363.25 and the tie 0.25 (pre-rounding value 6.5) are inside the
predicate; with scale 10 the ENCODING of 11363.25 is still exact but the decoding is not (113663 / 10 is no binary fraction):
such a line is judged with tolerance -/
example : encExact ⟨-3, 2, .flt 64, some (.int true 32)⟩ 11363.25 = true ∧
    decExact ⟨-3, 2, .flt 64, some (.int true 32)⟩ (encodeQ (-3) 2 11363.25) = true ∧
    encodeElem ⟨-3, 2, .flt 64, some (.int true 32)⟩ 11363.25 = 22733 ∧
    decodeElem ⟨-3, 2, .flt 64, some (.int true 32)⟩ 22733 = 11363.5 ∧
    encodeElem ⟨-3, 2, .flt 64, some (.int true 32)⟩ 0.25 = 7 ∧
    encExact ⟨-3, 10, .flt 64, some (.int true 32)⟩ 11363.25 = true ∧
    decExact ⟨-3, 10, .flt 64, some (.int true 32)⟩ 113663 = false := by decide +kernel

/-- float32 2^24 + 2 behind offset 1: `x - offset` needs 25 bits; the predicate fails and indeed the code does not compute
the specification (16777216 instead of 16777217) -/
example : encExact ⟨1, 1, .flt 32, none⟩ 16777218 = false ∧ encodeElem ⟨1, 1, .flt 32, none⟩ 16777218 = 16777216 ∧
    encodeQ 1 1 16777218 = 16777217 := by decide +kernel

/-- the integer class of the predicate: **a float element type holding integers, integer offset, scale 1, every magnitude
below `2^p`** (`2^24` for float32, `2^53` for float64) **is carried exactly** -/
theorem fso_float_integers_lossless (w : Nat) (o x : Int)
    (hx : -(2 : Int) ^ (Ty.flt w).prec < x ∧ x < (2 : Int) ^ (Ty.flt w).prec)
    (hxo : -(2 : Int) ^ (Ty.flt w).prec < x - o ∧ x - o < (2 : Int) ^ (Ty.flt w).prec) :
    encodeElem ⟨o, 1, .flt w, none⟩ x = ((x - o : Int) : Rat) ∧
    decodeElem ⟨o, 1, .flt w, none⟩ (encodeElem ⟨o, 1, .flt w, none⟩ x) = x := by
  have hq : encodeQ (o : Rat) 1 (x : Rat) = x - o := by
    unfold encodeQ; rw [Rat.mul_one, ← Rat.intCast_sub, roundHalfAway_intCast]
  have r1 : Rep (Ty.flt w).prec ((x : Rat) - (o : Rat)) := by
    rw [← Rat.intCast_sub]; exact rep_intCast _ _ hxo.1 hxo.2
  have he : encExact ⟨o, 1, .flt w, none⟩ (x : Rat) = true := by
    simp only [encExact, Rat.mul_one, Bool.and_eq_true, decide_eq_true_eq]
    exact ⟨⟨⟨⟨trivial, r1⟩, r1⟩, trivial⟩, trivial⟩
  have e1 : ((x - o : Int) : Rat) / 1 = ((x - o : Int) : Rat) := by grind
  have e2 : ((x - o : Int) : Rat) + (o : Rat) = (x : Rat) := by rw [Rat.intCast_sub]; grind
  have hd : decExact ⟨o, 1, .flt w, none⟩ (encodeQ (o : Rat) 1 (x : Rat)) = true := by
    rw [hq]
    simp only [decExact, Bool.and_eq_true, decide_eq_true_eq, e1, e2]
    exact ⟨⟨⟨trivial, trivial⟩, rep_intCast _ _ hxo.1 hxo.2⟩, rep_intCast _ _ hx.1 hx.2⟩
  have h := fso_exact_when_representable ⟨o, 1, .flt w, none⟩ x he hd
  simp only [hq] at h
  refine ⟨h.1, ?_⟩
  rw [h.2]
  simp only [fromF, decodeQ, e1, e2]

example : encodeElem ⟨1000, 1, .flt 32, none⟩ (-16776000) = -16777000 ∧
    decodeElem ⟨1000, 1, .flt 32, none⟩ (-16777000) = -16776000 := by decide +kernel

/-! ### integer element types, scale 1 -/

/-- **closed form of the code on an integer element type with scale 1**: as long as `x`, the offset and `x - offset` are
below `2^p` in magnitude (`p = 24` for the 8/16-bit types, which compute in `f32`; `p = 53` for the 32/64-bit types, which
compute in `f64`), encoding is `x - offset` SATURATED into the element type and then into `astype`; decoding saturates
back into the element type, adds the offset and saturates once more.  (For the 8/16/32-bit types the magnitude condition on
`x` always holds; for int64/uint64 it is a genuine restriction: larger values are rounded to 53 bits by `as f64`.) -/
theorem fso_int_formula (s : Bool) (b : Nat) (A : Option (Bool × Nat)) (o x : Int)
    (hx : -(2 : Int) ^ (Ty.int s b).prec < x ∧ x < (2 : Int) ^ (Ty.int s b).prec)
    (ho : -(2 : Int) ^ (Ty.int s b).prec < o ∧ o < (2 : Int) ^ (Ty.int s b).prec)
    (hxo : -(2 : Int) ^ (Ty.int s b).prec < x - o ∧ x - o < (2 : Int) ^ (Ty.int s b).prec) :
    encodeElem (intCfg s b A o) x = (satA A (satT (.int s b) (x - o)) : Int) ∧
    decodeElem (intCfg s b A o) (encodeElem (intCfg s b A o) x)
      = (satT (.int s b) (satT (.int s b) (satA A (satT (.int s b) (x - o))) + o) : Int) := by
  have hp := prec_le_53 (Ty.int s b)
  have hpow : (2 : Int) ^ (Ty.int s b).prec ≤ (2 : Int) ^ 53 := by
    have h := Nat.pow_le_pow_right (n := 2) (by decide) hp
    have e1 : ((2 ^ (Ty.int s b).prec : Nat) : Int) = (2 : Int) ^ (Ty.int s b).prec := by simp
    have e2 : ((2 ^ 53 : Nat) : Int) = (2 : Int) ^ 53 := by simp
    omega
  have t1 := tow_satT (.int s b) (x - o)
  have t2 := t1.trans (tow_satA A _)
  have t3 := t2.trans (tow_satT (.int s b) _)
  have b1 := t1.bound hxo.1 hxo.2
  have b2 := t2.bound hxo.1 hxo.2
  have b3 := t3.bound hxo.1 hxo.2
  have b4 := t3.bound_add hx ho
  have hs := scaleElem_int_scale1 s b o x hx.1 hx.2 hxo.1 hxo.2
  have he : encodeElem (intCfg s b A o) x = (satA A (satT (.int s b) (x - o)) : Int) := by
    cases A with
    | none => simp only [encodeElem, intCfg, Option.map, hs, satA]
    | some a =>
      simp only [encodeElem, intCfg, Option.map, hs, satA]
      exact castElem_int _ _ _ _ _ (by omega) (by omega)
  refine ⟨he, ?_⟩
  rw [he]
  have hu := unscaleElem_int_scale1 s b o _ b3.1 b3.2 b4.1 b4.2
  cases A with
  | none =>
    simp only [decodeElem, intCfg, Option.map, satA] at *
    have : satT (.int s b) (satT (.int s b) (x - o)) = satT (.int s b) (x - o) := by
      have := clamp_mem (Ty.int s b).lo (Ty.int s b).hi (x - o)
        (by have := Ty.lo_nonpos (Ty.int s b); have := Ty.hi_nonneg (Ty.int s b); omega)
      exact clamp_of_mem _ _ _ this.1 this.2
    rw [this] at hu ⊢
    exact hu
  | some a =>
    simp only [decodeElem, intCfg, Option.map, satA] at *
    rw [castElem_int _ _ _ _ _ (by omega) (by omega)]
    exact hu

/-- **`fso_int_lossless`: with scale 1 and any integer offset, `decode (encode x) = x` for every `x` of the element type
whose shifted value `x - offset` fits BOTH the element type (the scaling macro casts back `as $ty` before `astype` is
applied) and `astype`** (the magnitude conditions are those of `fso_int_formula`) -/
theorem fso_int_lossless (s : Bool) (b : Nat) (A : Option (Bool × Nat)) (o x : Int)
    (hx : -(2 : Int) ^ (Ty.int s b).prec < x ∧ x < (2 : Int) ^ (Ty.int s b).prec)
    (ho : -(2 : Int) ^ (Ty.int s b).prec < o ∧ o < (2 : Int) ^ (Ty.int s b).prec)
    (hxo : -(2 : Int) ^ (Ty.int s b).prec < x - o ∧ x - o < (2 : Int) ^ (Ty.int s b).prec)
    (hT : (Ty.int s b).lo ≤ x ∧ x ≤ (Ty.int s b).hi)
    (hTo : (Ty.int s b).lo ≤ x - o ∧ x - o ≤ (Ty.int s b).hi) (hA : fitsA A (x - o)) :
    encodeElem (intCfg s b A o) x = ((x - o : Int) : Rat) ∧
    decodeElem (intCfg s b A o) (encodeElem (intCfg s b A o) x) = x := by
  have h := fso_int_formula s b A o x hx ho hxo
  have e1 : satT (.int s b) (x - o) = x - o := clamp_of_mem _ _ _ hTo.1 hTo.2
  have e2 : satA A (x - o) = x - o := by
    cases A with
    | none => rfl
    | some a => exact clamp_of_mem _ _ _ hA.1 hA.2
  have e3 : satT (.int s b) x = x := clamp_of_mem _ _ _ hT.1 hT.2
  have e4 : x - o + o = x := by omega
  rw [e1, e2, e1, e4, e3] at h
  exact h

/-- **for the 8-, 16- and 32-bit element types the magnitude conditions are automatic**: `x` of the type and `x - offset`
fitting the type and `astype` is all that is needed (every magnitude is below `2^17` resp. `2^33`, far below `2^24` resp.
`2^53`) -/
theorem fso_int_lossless_le32 (s : Bool) (b : Nat) (hb : b = 8 ∨ b = 16 ∨ b = 32) (A : Option (Bool × Nat)) (o x : Int)
    (hT : (Ty.int s b).lo ≤ x ∧ x ≤ (Ty.int s b).hi)
    (hTo : (Ty.int s b).lo ≤ x - o ∧ x - o ≤ (Ty.int s b).hi) (hA : fitsA A (x - o)) :
    encodeElem (intCfg s b A o) x = ((x - o : Int) : Rat) ∧
    decodeElem (intCfg s b A o) (encodeElem (intCfg s b A o) x) = x := by
  have h24 : (2 : Int) ^ 24 = 16777216 := by decide
  have h53 : (2 : Int) ^ 53 = 9007199254740992 := by decide
  rcases hb with rfl | rfl | rfl <;> cases s
  all_goals
    apply fso_int_lossless _ _ A o x ?_ ?_ ?_ hT hTo hA
  all_goals
    simp only [Ty.lo, Ty.hi, Ty.prec, Nat.reduceLeDiff, reduceIte, Nat.reduceSub, Int.reducePow, Int.reduceNeg,
      Int.reduceSub] at *
    omega

example : decodeElem (intCfg true 16 (some (false, 8)) (-32768)) (encodeElem (intCfg true 16 (some (false, 8)) (-32768)) (-32600)) = -32600 ∧
    encodeElem (intCfg true 16 (some (false, 8)) (-32768)) (-32600) = 168 := by decide +kernel

/-- **and the exact characterisation of when it is NOT lossless**: `decode (encode x) = x` iff `x - offset` fits the
element type and `astype`, or a first saturation is undone by a second one at the very end of the range
(`x` is the smallest / largest value of the type and the decoded sum falls below / above it) -/
theorem fso_int_lossless_iff (s : Bool) (b : Nat) (A : Option (Bool × Nat)) (o x : Int)
    (hx : -(2 : Int) ^ (Ty.int s b).prec < x ∧ x < (2 : Int) ^ (Ty.int s b).prec)
    (ho : -(2 : Int) ^ (Ty.int s b).prec < o ∧ o < (2 : Int) ^ (Ty.int s b).prec)
    (hxo : -(2 : Int) ^ (Ty.int s b).prec < x - o ∧ x - o < (2 : Int) ^ (Ty.int s b).prec)
    (hT : (Ty.int s b).lo ≤ x ∧ x ≤ (Ty.int s b).hi) :
    decodeElem (intCfg s b A o) (encodeElem (intCfg s b A o) x) = x ↔
      (((Ty.int s b).lo ≤ x - o ∧ x - o ≤ (Ty.int s b).hi) ∧ fitsA A (x - o)) ∨
      (x = (Ty.int s b).lo ∧ satT (.int s b) (satA A (satT (.int s b) (x - o))) + o < (Ty.int s b).lo) ∨
      (x = (Ty.int s b).hi ∧ (Ty.int s b).hi < satT (.int s b) (satA A (satT (.int s b) (x - o))) + o) := by
  rw [(fso_int_formula s b A o x hx ho hxo).2, Rat.intCast_inj]
  have hl := Ty.lo_nonpos (Ty.int s b)
  have hh := Ty.hi_nonneg (Ty.int s b)
  cases A with
  | none =>
    simp only [satA, fitsA, satT]
    generalize (Ty.int s b).lo = lo at *
    generalize (Ty.int s b).hi = hi at *
    grind [clamp]
  | some a =>
    have hl' := Ty.lo_nonpos (Ty.int a.1 a.2)
    have hh' := Ty.hi_nonneg (Ty.int a.1 a.2)
    simp only [satA, fitsA, satT]
    generalize (Ty.int s b).lo = lo at *
    generalize (Ty.int s b).hi = hi at *
    generalize (Ty.int a.1 a.2).lo = lo' at *
    generalize (Ty.int a.1 a.2).hi = hi' at *
    grind [clamp]

/-- **the value the code cannot carry: int32 `MIN` behind offset 1** (`x - 1` saturates at `MIN`, decoding gives `MIN + 1`);
every other int32 value round-trips under this configuration (`fso_int_lossless`) -/
theorem fso_int32_min_offset1_not_lossless :
    encodeElem (intCfg true 32 none 1) (-2147483648) = -2147483648 ∧
    decodeElem (intCfg true 32 none 1) (encodeElem (intCfg true 32 none 1) (-2147483648)) = -2147483647 ∧
    ∀ x : Int, -2147483648 < x → x ≤ 2147483647 →
      decodeElem (intCfg true 32 none 1) (encodeElem (intCfg true 32 none 1) (x : Rat)) = x := by
  refine ⟨by decide +kernel, by decide +kernel, ?_⟩
  intro x h1 h2
  have hp : (Ty.int true 32).prec = 53 := by decide
  have hlo : (Ty.int true 32).lo = -2147483648 := by decide
  have hhi : (Ty.int true 32).hi = 2147483647 := by decide
  have h53 : (2 : Int) ^ 53 = 9007199254740992 := by decide
  exact (fso_int_lossless true 32 none 1 x (by rw [hp, h53]; omega) (by rw [hp, h53]; omega) (by rw [hp, h53]; omega)
    (by rw [hlo, hhi]; omega) (by rw [hlo, hhi]; omega) trivial).2

/-- uint8 200 behind offset -100 (shifted value 300 does not fit uint8): saturates, decodes to 155;
uint8 200 behind offset 100 stored as int8 (100 fits): lossless; stored as int8 behind offset 50 (150 > 127): decodes to 177;
uint8 0 behind offset -300: the third disjunct of `fso_int_lossless_iff` (255 - 300 saturates back to 0);
uint16 behind offset 2^24 + 1 is not what the configuration says: the `f32` field holds 2^24 (`cfgOfIntToken`) -/
example : decodeElem (intCfg false 8 none (-100)) (encodeElem (intCfg false 8 none (-100)) 200) = 155 ∧
    decodeElem (intCfg false 8 (some (true, 8)) 100) (encodeElem (intCfg false 8 (some (true, 8)) 100) 200) = 200 ∧
    encodeElem (intCfg false 8 (some (true, 8)) 50) 200 = 127 ∧
    decodeElem (intCfg false 8 (some (true, 8)) 50) 127 = 177 ∧
    decodeElem (intCfg false 8 none (-300)) (encodeElem (intCfg false 8 none (-300)) 0) = 0 ∧
    cfgOfIntToken 16777217 = 16777216 := by decide +kernel

/-- int64: 2^53 + 1 is outside `fso_int_formula` (`as f64` rounds it to 2^53), and indeed does not round-trip with offset 0 -/
example : decodeElem (intCfg true 64 none 0) (encodeElem (intCfg true 64 none 0) 9007199254740993) = 9007199254740992 := by
  decide +kernel

/-! ### what the codec advertises -/

/-- **`fso_fill_mapping`: the representation the codec advertises is the one encoding produces.**  If
`encoded_representation` succeeds: the advertised fill value is the ENCODING of the fill value, the advertised data type is
`astype` (or the unchanged data type), the shape is unchanged and maps back to itself; and every chunk of that
representation encodes (no error) to as many elements, each a value of the advertised data type, a chunk of fill values to
a chunk of advertised fill values. -/
theorem fso_fill_mapping (c : Cfg) (r r' : ChunkRep) (h : encodedRep c r = some r') :
    r'.fill = encodeElem c r.fill ∧ r'.dtype = encodedDataType c r.dtype ∧ r'.shape = r.shape ∧
    decodedShape r'.shape = some r.shape ∧
    ∀ xs : List Rat, ∃ ys, encodeChunk c r.dtype xs = some ys ∧ ys.length = xs.length ∧
      (∀ y ∈ ys, inTy r'.dtype y) ∧
      (∀ n, xs = List.replicate n r.fill → ys = List.replicate n r'.fill) := by
  unfold encodedRep encodedFill encodeChunk at h
  by_cases hu : usable c r.dtype = true
  · simp only [hu, if_true, List.map_cons, List.map_nil, Option.some.injEq] at h
    subst h
    have hd : c.dtype = r.dtype := by
      unfold usable at hu; simp only [Bool.and_eq_true, beq_iff_eq] at hu; exact hu.1.1
    refine ⟨rfl, rfl, rfl, rfl, ?_⟩
    intro xs
    refine ⟨xs.map (encodeElem c), by simp only [encodeChunk, hu, if_true], List.length_map _, ?_, ?_⟩
    · intro y hy
      obtain ⟨x, _, rfl⟩ := List.mem_map.mp hy
      have := encodeElem_inTy c x
      rw [hd] at this
      exact this
    · intro n hn
      rw [hn, List.map_replicate]
  · simp only [hu] at h
    exact absurd h (by simp)

/-- the advertised representation fails exactly when encoding any chunk of that data type fails (wrong data type for the
configuration, or a data type the macros do not list: float16, bfloat16, complex) -/
theorem fso_rep_error_iff (c : Cfg) (r : ChunkRep) :
    encodedRep c r = none ↔ ∀ xs, encodeChunk c r.dtype xs = none := by
  unfold encodedRep encodedFill encodeChunk
  by_cases hu : usable c r.dtype = true
  · simp only [hu, if_true, List.map_cons, List.map_nil]
    constructor
    · intro h; exact absurd h (by simp)
    · intro h; exact absurd (h []) (by simp)
  · simp only [hu]
    simp

/-- uint16 fill 10 behind offset 3, scale 2, stored as int8: advertised fill 14 of type int8, shape unchanged; a chunk
`[10, 10, 60, 70]` encodes to `[14, 14, 114, 127]` (the last one saturated); float16 is refused -/
example : encodedRep ⟨3, 2, .int false 16, some (.int true 8)⟩ ⟨[2, 2], .int false 16, 10⟩ = some ⟨[2, 2], .int true 8, 14⟩ ∧
    encodeChunk ⟨3, 2, .int false 16, some (.int true 8)⟩ (.int false 16) [10, 10, 60, 70] = some [14, 14, 114, 127] ∧
    encodedRep ⟨3, 2, .int false 16, some (.int true 8)⟩ ⟨[2, 2], .int true 16, 10⟩ = none ∧
    encodedRep ⟨0, 1, .unsupported, none⟩ ⟨[4], .unsupported, 0⟩ = none := by decide +kernel

/-- **`fso_all_fill_iff`: a chunk is all fill iff its encoding is all ENCODED fill, provided the codec is injective on the
chunk's values against the fill value** - the hypothesis under which the all-fill test of the default partial encoder
(`array_to_array_partial_encoder_default.rs`: `decoded_value.is_fill_value(decoded_representation.fill_value())`) may be
done on either side, each side against ITS OWN fill value -/
theorem fso_all_fill_iff (c : Cfg) (fill : Rat) (xs : List Rat)
    (hinj : ∀ x ∈ xs, encodeElem c x = encodeElem c fill → x = fill) :
    allFill (encodeElem c fill) (xs.map (encodeElem c)) = allFill fill xs := by
  induction xs with
  | nil => rfl
  | cons x xs ih =>
    have ih' := ih (fun y hy => hinj y (List.mem_cons_of_mem _ hy))
    unfold allFill at *
    simp only [List.map_cons, List.all_cons, ih']
    have := hinj x (List.mem_cons_self)
    have hb : (encodeElem c x == encodeElem c fill) = (x == fill) := by
      by_cases hx : x = fill
      · subst hx; simp
      · have hne : encodeElem c x ≠ encodeElem c fill := fun h => hx (this h)
        rw [beq_eq_false_iff_ne.mpr hx, beq_eq_false_iff_ne.mpr hne]
    rw [hb]

/-- uint8, offset 3, fill 10 (advertised fill 7).
* the decoded chunk compared against the ENCODED fill value (the seeded defect): `[7, 7]` is taken for all-fill although it is
  not (it would be erased), and the genuinely all-fill chunk `[10, 10]` is not recognised;
* the right comparisons agree on both sides: `[10, 10]` ~ `[7, 7]` encoded;
* without injectivity the encoded side may NOT be used: float32 with scale 1, fill 10: `[10.25, 10]` is not all fill, but its
  encoding `[10, 10]` is all encoded fill -/
example : allFill (encodeElem (intCfg false 8 none 3) 10) [7, 7] = true ∧ allFill 10 [7, 7] = false ∧
    allFill (encodeElem (intCfg false 8 none 3) 10) [10, 10] = false ∧ allFill 10 [10, 10] = true ∧
    allFill (encodeElem (intCfg false 8 none 3) 10) ([10, 10].map (encodeElem (intCfg false 8 none 3))) = true ∧
    allFill 10 [10.25, 10] = false ∧
    allFill (encodeElem ⟨0, 1, .flt 32, none⟩ 10) ([10.25, 10].map (encodeElem ⟨0, 1, .flt 32, none⟩)) = true := by
  decide +kernel

end Zarrs.C03
