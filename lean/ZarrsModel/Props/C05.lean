import ZarrsModel.Model.ShardPE
import ZarrsModel.Lemmas.ShardPE
import ZarrsModel.Lemmas.ShardPEFixed
/-
C05 — partial encoding is equivalent to rewriting the whole chunk.
-/
namespace Zarrs.C05
open Zarrs Zarrs.Codec Zarrs.Shard Zarrs.ShardPE

/-- well-formed update list: positions in range, no position twice -/
def updatesOk (c : Cfg) (updates : List (Nat × Option Bytes)) : Prop :=
  (∀ u ∈ updates, u.1 < c.nChunks) ∧ (updates.map (·.1)).Nodup

/-- **sharding partial encoder, from an absent value**: the result is erased (everything fill) or a shard that
decodes to exactly the written inner chunks and passes the independent layout check -/
theorem shard_partial_from_absent_pinned (c : Cfg) (updates : List (Nat × Option Bytes)) (hu : updatesOk c updates)
    (hsmall : ((updates.filterMap (·.2)).map List.length).sum + indexSize c < sentinel) :
    match partialEncodePinned c none updates with
    | some none => ∀ u ∈ updates, u.2 = none
    | some (some v') => decode c true v' = .ok (applyUpdates (List.replicate c.nChunks none) updates) ∧ wellFormed c v' = true
    | none => False := by
  have h := partialEncode_absent c updates hu hsmall
  revert h
  cases partialEncodePinned c none updates with
  | none => exact id
  | some r =>
    cases r with
    | none => exact fun h => h.1
    | some v' => exact fun h => ⟨h.1, h.2.1⟩

/-- the hypotheses are satisfiable (index at the end / at the start; the second list drops a chunk and stores an
empty encoding) -/
example : let c : Cfg := ⟨2, true, false, true⟩
    let updates : List (Nat × Option Bytes) := [(0, some [1, 2, 3, 4]), (1, some [5, 6, 7, 8, 9, 10])]
    updatesOk c updates ∧ ((updates.filterMap (·.2)).map List.length).sum + indexSize c < sentinel := by
  unfold updatesOk; decide
example : let c : Cfg := ⟨3, false, true, false⟩
    let updates : List (Nat × Option Bytes) := [(2, some [1, 2, 3]), (0, none), (1, some [])]
    updatesOk c updates ∧ ((updates.filterMap (·.2)).map List.length).sum + indexSize c < sentinel := by
  unfold updatesOk; decide

/-- **sharding partial encoder, from an existing well-formed tight value** (partial statement: the hypothesis
`hgrow` excludes exactly the known finding — an index at the end whose rewritten suffix would end before the old
value's end): the new value decodes to the updated inner chunks and is again well formed and tight -/
theorem shard_wellformed_partial_pinned (c : Cfg) (v : Bytes) (chunks : List (Option Bytes))
    (hdec : decode c true v = .ok chunks) (hwf : wellFormed c v = true) (ht : tight c v = true)
    (updates : List (Nat × Option Bytes)) (hu : updatesOk c updates)
    (hsmall : v.length + ((updates.filterMap (·.2)).map List.length).sum + indexSize c < sentinel)
    (hgrow : c.indexAtEnd = true →
      ∀ idx, currentIndex c (some v) = some idx →
        liveEnd (updates.foldl (fun ix u => setEntry ix u.1 (sentinel, sentinel)) idx) = liveEnd idx ∨
        (updates.foldl (fun ix u => setEntry ix u.1 (sentinel, sentinel)) idx).all (fun e => !isLive e) = true) :
    match partialEncodePinned c (some v) updates with
    | some none => ∀ ch ∈ applyUpdates chunks updates, ch = none
    | some (some v') => decode c true v' = .ok (applyUpdates chunks updates) ∧ wellFormed c v' = true ∧ tight c v' = true
    | none => False := by
  have hg : Grow c v updates := fun hc idx hidx => Or.inr (by
    have := hgrow hc idx hidx
    rwa [show updates.foldl (fun ix u => setEntry ix u.1 (sentinel, sentinel)) idx = idxDead idx updates from
      fold_step1 updates idx] at this)
  have h := partialEncode_wellformed c v chunks hdec hwf ht updates hu hsmall
  revert h
  cases partialEncodePinned c (some v) updates with
  | none => exact id
  | some r =>
    cases r with
    | none => exact fun h => h.2
    | some v' => exact fun h => ⟨h.1, h.2.1, h.2.2 hg⟩

/-- the value written by `shard_index_end_stale_tail`'s first step (index at the end, two inner chunks) -/
def exEnd : Bytes :=
  [1, 2, 3, 4, 5, 6, 7, 8, 9, 10, 0, 0, 0, 0, 0, 0, 0, 0, 4, 0, 0, 0, 0, 0, 0, 0, 4, 0, 0, 0, 0, 0, 0, 0, 6, 0, 0, 0, 0,
    0, 0, 0, 184, 5, 23, 29]
/-- the same two inner chunks with a big-endian index at the start (no checksum) -/
def exStart : Bytes :=
  [0, 0, 0, 0, 0, 0, 0, 32, 0, 0, 0, 0, 0, 0, 0, 4, 0, 0, 0, 0, 0, 0, 0, 36, 0, 0, 0, 0, 0, 0, 0, 6,
    1, 2, 3, 4, 5, 6, 7, 8, 9, 10]

/-- the hypotheses are satisfiable: index at the end, rewriting the FIRST inner chunk (the end of the live data does
not move, so `hgrow` holds) -/
example : let c : Cfg := ⟨2, true, false, true⟩
    let updates : List (Nat × Option Bytes) := [(0, some [9, 9])]
    decode c true exEnd = .ok [some [1, 2, 3, 4], some [5, 6, 7, 8, 9, 10]] ∧ wellFormed c exEnd = true ∧
    tight c exEnd = true ∧ updatesOk c updates ∧
    exEnd.length + ((updates.filterMap (·.2)).map List.length).sum + indexSize c < sentinel ∧
    (c.indexAtEnd = true → ∀ idx, currentIndex c (some exEnd) = some idx →
      liveEnd (updates.foldl (fun ix u => setEntry ix u.1 (sentinel, sentinel)) idx) = liveEnd idx ∨
      (updates.foldl (fun ix u => setEntry ix u.1 (sentinel, sentinel)) idx).all (fun e => !isLive e) = true) := by
  refine ⟨by decide +kernel, by decide +kernel, by decide +kernel, by unfold updatesOk; decide, by decide, ?_⟩
  intro _ idx hidx
  have : currentIndex ⟨2, true, false, true⟩ (some exEnd) = some [(0, 4), (4, 6)] := by decide +kernel
  rw [this] at hidx
  cases hidx
  decide +kernel
/-- index at the start: `hgrow` is vacuous; the update drops the last inner chunk and rewrites the first -/
example : let c : Cfg := ⟨2, false, true, false⟩
    let updates : List (Nat × Option Bytes) := [(1, none), (0, some [9, 9])]
    decode c true exStart = .ok [some [1, 2, 3, 4], some [5, 6, 7, 8, 9, 10]] ∧ wellFormed c exStart = true ∧
    tight c exStart = true ∧ updatesOk c updates ∧
    exStart.length + ((updates.filterMap (·.2)).map List.length).sum + indexSize c < sentinel ∧
    (c.indexAtEnd = true → ∀ idx, currentIndex c (some exStart) = some idx →
      liveEnd (updates.foldl (fun ix u => setEntry ix u.1 (sentinel, sentinel)) idx) = liveEnd idx ∨
      (updates.foldl (fun ix u => setEntry ix u.1 (sentinel, sentinel)) idx).all (fun e => !isLive e) = true) := by
  refine ⟨by decide +kernel, by decide +kernel, by decide +kernel, by unfold updatesOk; decide, by decide, ?_⟩
  intro h; cases h

/-- **the same, with the exact condition for tightness** (`Grow`: some update stores data, or dropping the touched
inner chunks does not lower the end of the live data, or nothing survives), and the part that needs no such
condition at all: from a well-formed tight value the new value ALWAYS decodes to the updated inner chunks and is well
formed; only its tightness can be lost — and a value that is not tight is what the next partial write corrupts
(`shard_index_end_stale_tail`) -/
theorem shard_wellformed_partial_sharp_pinned (c : Cfg) (v : Bytes) (chunks : List (Option Bytes))
    (hdec : decode c true v = .ok chunks) (hwf : wellFormed c v = true) (ht : tight c v = true)
    (updates : List (Nat × Option Bytes)) (hu : updatesOk c updates)
    (hsmall : v.length + ((updates.filterMap (·.2)).map List.length).sum + indexSize c < sentinel) :
    match partialEncodePinned c (some v) updates with
    | some none => ∀ ch ∈ applyUpdates chunks updates, ch = none
    | some (some v') => decode c true v' = .ok (applyUpdates chunks updates) ∧ wellFormed c v' = true ∧
        (Grow c v updates → tight c v' = true)
    | none => False := by
  have h := partialEncode_wellformed c v chunks hdec hwf ht updates hu hsmall
  revert h
  cases partialEncodePinned c (some v) updates with
  | none => exact id
  | some r =>
    cases r with
    | none => exact fun h => h.2
    | some v' => exact id
/-- `Grow` holds where `hgrow` does not: rewriting the LAST inner chunk of `exEnd` -/
example : Grow ⟨2, true, false, true⟩ exEnd [(1, some [7])] := fun _ _ _ => Or.inl (by decide)

/-- **the full statement is false for the code as it is** (known finding F-C05-K1): index at the end, write two
inner chunks, set the second to fill, write it again smaller — the stored value keeps its old length and its last
`indexSize` bytes are no longer the index -/
theorem shard_index_end_stale_tail :
    ∃ (c : Cfg) (v1 v2 v3 : Bytes),
      c.indexAtEnd = true ∧
      partialEncodePinned c none [(0, some [1, 2, 3, 4]), (1, some [5, 6, 7, 8, 9, 10])] = some (some v1) ∧
      partialEncodePinned c (some v1) [(1, none)] = some (some v2) ∧
      partialEncodePinned c (some v2) [(1, some [7])] = some (some v3) ∧
      decode c true v1 = .ok [some [1, 2, 3, 4], some [5, 6, 7, 8, 9, 10]] ∧
      decode c true v2 = .ok [some [1, 2, 3, 4], none] ∧
      decode c true v3 ≠ .ok [some [1, 2, 3, 4], some [7]] := by
  refine ⟨⟨2, true, false, true⟩, exEnd,
    [1, 2, 3, 4, 5, 6, 7, 8, 9, 10, 0, 0, 0, 0, 0, 0, 0, 0, 4, 0, 0, 0, 0, 0, 0, 0, 255, 255, 255, 255, 255, 255, 255, 255,
      255, 255, 255, 255, 255, 255, 255, 255, 138, 7, 41, 197],
    [1, 2, 3, 4, 7, 0, 0, 0, 0, 0, 0, 0, 0, 4, 0, 0, 0, 0, 0, 0, 0, 4, 0, 0, 0, 0, 0, 0, 0, 1, 0, 0, 0, 0, 0, 0, 0, 188, 0,
      78, 231, 255, 138, 7, 41, 197], ?_⟩
  decide +kernel

/-- **non-sharded values**: after the (repaired) default partial encoder the stored value is exactly the encoding
of the updated chunk, hence decodes to it -/
theorem unsharded_exact (enc : Bytes → Bytes) (dec : Bytes → Option Bytes) (hinv : ∀ b, dec (enc b) = some b)
    (old : Bytes) (update : Bytes → Bytes) (empty : Bytes) :
    defaultPartialEncode enc dec (some (enc old)) update empty = some (some (enc (update old))) ∧
    defaultPartialEncode enc dec none update empty = some (some (enc (update empty))) := by
  simp [defaultPartialEncode, hinv, writeAt, specSetPartial_nil]

/-- the hypothesis is satisfiable: a length-prefix encoding -/
example : ∀ b : Bytes, (fun e : Bytes => some (e.tail.take (e.headD 0))) ((fun b : Bytes => b.length :: b) b) = some b := by
  intro b; simp

/-- the code as found kept the tail of a longer previous encoding -/
theorem unsharded_pinned_stale_tail :
    ∃ (enc : Bytes → Bytes) (dec : Bytes → Option Bytes) (old : Bytes) (update : Bytes → Bytes),
      (∀ b, dec (enc b) = some b) ∧
      defaultPartialEncodePinned enc dec (some (enc old)) update [] ≠ some (some (enc (update old))) := by
  refine ⟨fun b => b.length :: b, fun e => some (e.tail.take (e.headD 0)), [1, 2, 3], fun _ => [9], ?_, ?_⟩
  · intro b; simp
  · decide +kernel

/-- partial writes zero-extend and never truncate (the root cause of both findings) -/
theorem writeAt_never_truncates (v : Bytes) (off : Nat) (b : Bytes) :
    ∃ v', writeAt (some v) off b = some v' ∧ v'.length = max v.length (off + b.length) :=
  ⟨_, rfl, (C08.setPartial_zero_extends v b off).1⟩

/-! ### the repaired encoder (`ShardPE.partialEncode`): the full statement, for every history -/

/-- **from an absent value** -/
theorem shard_partial_from_absent (c : Cfg) (updates : List (Nat × Option Bytes)) (hu : updatesOk c updates)
    (hsmall : ((updates.filterMap (·.2)).map List.length).sum + indexSize c < sentinel) :
    match partialEncode c none updates with
    | some none => ∀ u ∈ updates, u.2 = none
    | some (some v') => decode c true v' = .ok (applyUpdates (List.replicate c.nChunks none) updates) ∧
        wellFormed c v' = true ∧ tight c v' = true
    | none => False := by
  have h := partialEncode_fixed_absent c updates hu hsmall
  revert h
  cases partialEncode c none updates with
  | none => exact id
  | some r =>
    cases r with
    | none => exact fun h => h.1
    | some v' => exact fun h => ⟨h.1, h.2.1, h.2.2 trivial⟩

/-- **from any well-formed tight value, with no further condition**: the new value decodes to exactly the updated
inner chunks, is a legal shard, and is tight again — for either index location (the hypothesis `hgrow` of the
statement about the code as found is gone) -/
theorem shard_partial_encode (c : Cfg) (v : Bytes) (chunks : List (Option Bytes))
    (hdec : decode c true v = .ok chunks) (hwf : wellFormed c v = true) (ht : tight c v = true)
    (updates : List (Nat × Option Bytes)) (hu : updatesOk c updates)
    (hsmall : v.length + ((updates.filterMap (·.2)).map List.length).sum + indexSize c < sentinel) :
    match partialEncode c (some v) updates with
    | some none => ∀ ch ∈ applyUpdates chunks updates, ch = none
    | some (some v') => decode c true v' = .ok (applyUpdates chunks updates) ∧ wellFormed c v' = true ∧ tight c v' = true
    | none => False := by
  have h := partialEncode_fixed_wellformed c v chunks hdec hwf ht updates hu hsmall
  revert h
  cases partialEncode c (some v) updates with
  | none => exact id
  | some r =>
    cases r with
    | none => exact fun h => h.2
    | some v' => exact fun h => ⟨h.1, h.2.1, h.2.2 trivial⟩

/-- the hypotheses are satisfiable, and this instance takes the repair branch: index at the end, the update drops the
LAST inner chunk of `exEnd` and stores nothing, so the end of the live data moves from 10 down to 4 (the statement
about the code as found excludes this update by `hgrow`); the result is the 4 data bytes followed by the index -/
example : let c : Cfg := ⟨2, true, false, true⟩
    let updates : List (Nat × Option Bytes) := [(1, none)]
    decode c true exEnd = .ok [some [1, 2, 3, 4], some [5, 6, 7, 8, 9, 10]] ∧ wellFormed c exEnd = true ∧
    tight c exEnd = true ∧ updatesOk c updates ∧
    exEnd.length + ((updates.filterMap (·.2)).map List.length).sum + indexSize c < sentinel ∧
    partialEncode c (some exEnd) updates = some (some ([1, 2, 3, 4] ++ encodeIndex c [(0, 4), (sentinel, sentinel)])) ∧
    partialEncode c (some exEnd) updates ≠ partialEncodePinned c (some exEnd) updates := by
  refine ⟨by decide +kernel, by decide +kernel, by decide +kernel, by unfold updatesOk; decide, by decide,
    by decide +kernel, by decide +kernel⟩

/-- the history of the pinned witness of F-C05-K1 now ends in a shard that decodes to what was written -/
example : let c : Cfg := ⟨2, true, false, true⟩
    ((partialEncode c none [(0, some [1, 2, 3, 4]), (1, some [5, 6, 7, 8, 9, 10])]).bind (fun v1 =>
      (partialEncode c v1 [(1, none)]).bind (fun v2 => partialEncode c v2 [(1, some [7])]))).map
        (fun v3 => v3.map (decode c true)) = some (some (.ok [some [1, 2, 3, 4], some [7]])) := by
  decide +kernel

/-- run a history of partial encodes -/
def runUpdates (c : Cfg) (v : Option Bytes) : List (List (Nat × Option Bytes)) → Option (Option Bytes)
  | [] => some v
  | u :: rest => (partialEncode c v u).bind (fun v' => runUpdates c v' rest)

/-- **every history**: after any sequence of partial encodes starting from an absent value, the stored value is
absent with every inner chunk fill, or decodes to exactly the inner chunks the updates leave, and is a legal, tight
shard (so the next partial encode starts from the same invariant) -/
theorem shard_history (c : Cfg) (hist : List (List (Nat × Option Bytes))) (hu : ∀ u ∈ hist, updatesOk c u)
    (hsmall : ((hist.map (fun u => ((u.filterMap (·.2)).map List.length).sum + indexSize c)).sum + indexSize c < sentinel)) :
    match runUpdates c none hist with
    | some none => ∀ ch ∈ hist.foldl applyUpdates (List.replicate c.nChunks none), ch = none
    | some (some v) => decode c true v = .ok (hist.foldl applyUpdates (List.replicate c.nChunks none)) ∧
        wellFormed c v = true ∧ tight c v = true
    | none => False := by
  have hrun : ∀ (v : Option Bytes) (h : List (List (Nat × Option Bytes))), runUpdates c v h = runHist c v h := by
    intro v h
    induction h generalizing v with
    | nil => rfl
    | cons u rest ih => simp only [runUpdates, runHist, ih]
  obtain ⟨vo', hr, hst⟩ := history_inv c hist none _ rfl hu (by simpa [histCost] using hsmall)
  rw [hrun, hr]
  cases vo' with
  | none =>
    intro ch hch
    rw [show hist.foldl applyUpdates (List.replicate c.nChunks none) = List.replicate c.nChunks none from hst] at hch
    exact List.eq_of_mem_replicate hch
  | some v => exact hst

/-- the hypotheses are satisfiable: index at the end, four steps — write both inner chunks, remove the LAST inner
chunk (the repair branch: the value is cut back to the 4 remaining data bytes plus the index), write it again smaller,
rewrite the first; the final value decodes to what the history leaves -/
example : let c : Cfg := ⟨2, true, false, true⟩
    let hist : List (List (Nat × Option Bytes)) :=
      [[(0, some [1, 2, 3, 4]), (1, some [5, 6, 7, 8, 9, 10])], [(1, none)], [(1, some [7])], [(0, some [9, 9])]]
    (∀ u ∈ hist, updatesOk c u) ∧
    (hist.map (fun u => ((u.filterMap (·.2)).map List.length).sum + indexSize c)).sum + indexSize c < sentinel ∧
    hist.foldl applyUpdates (List.replicate c.nChunks none) = [some [9, 9], some [7]] ∧
    runUpdates c none (hist.take 2) = some (some ([1, 2, 3, 4] ++ encodeIndex c [(0, 4), (sentinel, sentinel)])) ∧
    (runUpdates c none hist).map (fun r => r.map (decode c true)) = some (some (.ok [some [9, 9], some [7]])) := by
  refine ⟨?_, by decide, by decide, by decide +kernel, by decide +kernel⟩
  intro u hu
  simp only [List.mem_cons, List.not_mem_nil, or_false] at hu
  rcases hu with rfl | rfl | rfl | rfl <;> (unfold updatesOk; decide)

end Zarrs.C05
