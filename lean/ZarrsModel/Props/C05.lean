import ZarrsModel.Model.ShardPE
import ZarrsModel.Lemmas.ShardPE
/-
C05 — partial encoding is equivalent to rewriting the whole chunk.
-/
namespace Zarrs.C05
open Zarrs Zarrs.Codec Zarrs.Shard Zarrs.ShardPE

/-- well-formed update list: positions in range, no position twice -/
def updatesOk (c : Cfg) (updates : List (Nat × Option Bytes)) : Prop :=
  (∀ u ∈ updates, u.1 < c.nChunks) ∧ (updates.map (·.1)).Nodup

/-- **sharding partial encoder, from an absent value**: the result is erased (everything fill) or a shard that
decodes to exactly the written inner chunks and passes the independent layout check -/
theorem shard_partial_from_absent (c : Cfg) (updates : List (Nat × Option Bytes)) (hu : updatesOk c updates)
    (hsmall : ((updates.filterMap (·.2)).map List.length).sum + indexSize c < sentinel) :
    match partialEncode c none updates with
    | some none => ∀ u ∈ updates, u.2 = none
    | some (some v') => decode c true v' = .ok (applyUpdates (List.replicate c.nChunks none) updates) ∧ wellFormed c v' = true
    | none => False := by
  have h := partialEncode_absent c updates hu hsmall
  revert h
  cases partialEncode c none updates with
  | none => exact id
  | some r =>
    cases r with
    | none => exact fun h => h.1
    | some v' => exact fun h => ⟨h.1, h.2.1⟩

/-- the hypotheses are satisfiable (index at the end / at the start; the second list drops a chunk and stores an
empty encoding) -/
example : let c : Cfg := ⟨2, true, false, true⟩
    let updates : List (Nat × Option Bytes) := [(0, some [1, 2, 3, 4]), (1, some [5, 6, 7, 8, 9, 10])]
    updatesOk c updates ∧ ((updates.filterMap (·.2)).map List.length).sum + indexSize c < sentinel := by
  unfold updatesOk; decide
example : let c : Cfg := ⟨3, false, true, false⟩
    let updates : List (Nat × Option Bytes) := [(2, some [1, 2, 3]), (0, none), (1, some [])]
    updatesOk c updates ∧ ((updates.filterMap (·.2)).map List.length).sum + indexSize c < sentinel := by
  unfold updatesOk; decide

/-- **sharding partial encoder, from an existing well-formed tight value** (partial statement: the hypothesis
`hgrow` excludes exactly the known finding — an index at the end whose rewritten suffix would end before the old
value's end): the new value decodes to the updated inner chunks and is again well formed and tight -/
theorem shard_wellformed_partial (c : Cfg) (v : Bytes) (chunks : List (Option Bytes))
    (hdec : decode c true v = .ok chunks) (hwf : wellFormed c v = true) (ht : tight c v = true)
    (updates : List (Nat × Option Bytes)) (hu : updatesOk c updates)
    (hsmall : v.length + ((updates.filterMap (·.2)).map List.length).sum + indexSize c < sentinel)
    (hgrow : c.indexAtEnd = true →
      ∀ idx, currentIndex c (some v) = some idx →
        liveEnd (updates.foldl (fun ix u => setEntry ix u.1 (sentinel, sentinel)) idx) = liveEnd idx ∨
        (updates.foldl (fun ix u => setEntry ix u.1 (sentinel, sentinel)) idx).all (fun e => !isLive e) = true) :
    match partialEncode c (some v) updates with
    | some none => ∀ ch ∈ applyUpdates chunks updates, ch = none
    | some (some v') => decode c true v' = .ok (applyUpdates chunks updates) ∧ wellFormed c v' = true ∧ tight c v' = true
    | none => False := by
  have hg : Grow c v updates := fun hc idx hidx => Or.inr (by
    have := hgrow hc idx hidx
    rwa [show updates.foldl (fun ix u => setEntry ix u.1 (sentinel, sentinel)) idx = idxDead idx updates from
      fold_step1 updates idx] at this)
  have h := partialEncode_wellformed c v chunks hdec hwf ht updates hu hsmall
  revert h
  cases partialEncode c (some v) updates with
  | none => exact id
  | some r =>
    cases r with
    | none => exact fun h => h.2
    | some v' => exact fun h => ⟨h.1, h.2.1, h.2.2 hg⟩

/-- the value written by `shard_index_end_stale_tail`'s first step (index at the end, two inner chunks) -/
def exEnd : Bytes :=
  [1, 2, 3, 4, 5, 6, 7, 8, 9, 10, 0, 0, 0, 0, 0, 0, 0, 0, 4, 0, 0, 0, 0, 0, 0, 0, 4, 0, 0, 0, 0, 0, 0, 0, 6, 0, 0, 0, 0,
    0, 0, 0, 184, 5, 23, 29]
/-- the same two inner chunks with a big-endian index at the start (no checksum) -/
def exStart : Bytes :=
  [0, 0, 0, 0, 0, 0, 0, 32, 0, 0, 0, 0, 0, 0, 0, 4, 0, 0, 0, 0, 0, 0, 0, 36, 0, 0, 0, 0, 0, 0, 0, 6,
    1, 2, 3, 4, 5, 6, 7, 8, 9, 10]

/-- the hypotheses are satisfiable: index at the end, rewriting the FIRST inner chunk (the end of the live data does
not move, so `hgrow` holds) -/
example : let c : Cfg := ⟨2, true, false, true⟩
    let updates : List (Nat × Option Bytes) := [(0, some [9, 9])]
    decode c true exEnd = .ok [some [1, 2, 3, 4], some [5, 6, 7, 8, 9, 10]] ∧ wellFormed c exEnd = true ∧
    tight c exEnd = true ∧ updatesOk c updates ∧
    exEnd.length + ((updates.filterMap (·.2)).map List.length).sum + indexSize c < sentinel ∧
    (c.indexAtEnd = true → ∀ idx, currentIndex c (some exEnd) = some idx →
      liveEnd (updates.foldl (fun ix u => setEntry ix u.1 (sentinel, sentinel)) idx) = liveEnd idx ∨
      (updates.foldl (fun ix u => setEntry ix u.1 (sentinel, sentinel)) idx).all (fun e => !isLive e) = true) := by
  refine ⟨by decide +kernel, by decide +kernel, by decide +kernel, by unfold updatesOk; decide, by decide, ?_⟩
  intro _ idx hidx
  have : currentIndex ⟨2, true, false, true⟩ (some exEnd) = some [(0, 4), (4, 6)] := by decide +kernel
  rw [this] at hidx
  cases hidx
  decide +kernel
/-- index at the start: `hgrow` is vacuous; the update drops the last inner chunk and rewrites the first -/
example : let c : Cfg := ⟨2, false, true, false⟩
    let updates : List (Nat × Option Bytes) := [(1, none), (0, some [9, 9])]
    decode c true exStart = .ok [some [1, 2, 3, 4], some [5, 6, 7, 8, 9, 10]] ∧ wellFormed c exStart = true ∧
    tight c exStart = true ∧ updatesOk c updates ∧
    exStart.length + ((updates.filterMap (·.2)).map List.length).sum + indexSize c < sentinel ∧
    (c.indexAtEnd = true → ∀ idx, currentIndex c (some exStart) = some idx →
      liveEnd (updates.foldl (fun ix u => setEntry ix u.1 (sentinel, sentinel)) idx) = liveEnd idx ∨
      (updates.foldl (fun ix u => setEntry ix u.1 (sentinel, sentinel)) idx).all (fun e => !isLive e) = true) := by
  refine ⟨by decide +kernel, by decide +kernel, by decide +kernel, by unfold updatesOk; decide, by decide, ?_⟩
  intro h; cases h

/-- **the same, with the exact condition for tightness** (`Grow`: some update stores data, or dropping the touched
inner chunks does not lower the end of the live data, or nothing survives), and the part that needs no such
condition at all: from a well-formed tight value the new value ALWAYS decodes to the updated inner chunks and is well
formed; only its tightness can be lost — and a value that is not tight is what the next partial write corrupts
(`shard_index_end_stale_tail`) -/
theorem shard_wellformed_partial_sharp (c : Cfg) (v : Bytes) (chunks : List (Option Bytes))
    (hdec : decode c true v = .ok chunks) (hwf : wellFormed c v = true) (ht : tight c v = true)
    (updates : List (Nat × Option Bytes)) (hu : updatesOk c updates)
    (hsmall : v.length + ((updates.filterMap (·.2)).map List.length).sum + indexSize c < sentinel) :
    match partialEncode c (some v) updates with
    | some none => ∀ ch ∈ applyUpdates chunks updates, ch = none
    | some (some v') => decode c true v' = .ok (applyUpdates chunks updates) ∧ wellFormed c v' = true ∧
        (Grow c v updates → tight c v' = true)
    | none => False := by
  have h := partialEncode_wellformed c v chunks hdec hwf ht updates hu hsmall
  revert h
  cases partialEncode c (some v) updates with
  | none => exact id
  | some r =>
    cases r with
    | none => exact fun h => h.2
    | some v' => exact id
/-- `Grow` holds where `hgrow` does not: rewriting the LAST inner chunk of `exEnd` -/
example : Grow ⟨2, true, false, true⟩ exEnd [(1, some [7])] := fun _ _ _ => Or.inl (by decide)

/-- **the full statement is false for the code as it is** (known finding F-C05-K1): index at the end, write two
inner chunks, set the second to fill, write it again smaller — the stored value keeps its old length and its last
`indexSize` bytes are no longer the index -/
theorem shard_index_end_stale_tail :
    ∃ (c : Cfg) (v1 v2 v3 : Bytes),
      c.indexAtEnd = true ∧
      partialEncode c none [(0, some [1, 2, 3, 4]), (1, some [5, 6, 7, 8, 9, 10])] = some (some v1) ∧
      partialEncode c (some v1) [(1, none)] = some (some v2) ∧
      partialEncode c (some v2) [(1, some [7])] = some (some v3) ∧
      decode c true v1 = .ok [some [1, 2, 3, 4], some [5, 6, 7, 8, 9, 10]] ∧
      decode c true v2 = .ok [some [1, 2, 3, 4], none] ∧
      decode c true v3 ≠ .ok [some [1, 2, 3, 4], some [7]] := by
  refine ⟨⟨2, true, false, true⟩, exEnd,
    [1, 2, 3, 4, 5, 6, 7, 8, 9, 10, 0, 0, 0, 0, 0, 0, 0, 0, 4, 0, 0, 0, 0, 0, 0, 0, 255, 255, 255, 255, 255, 255, 255, 255,
      255, 255, 255, 255, 255, 255, 255, 255, 138, 7, 41, 197],
    [1, 2, 3, 4, 7, 0, 0, 0, 0, 0, 0, 0, 0, 4, 0, 0, 0, 0, 0, 0, 0, 4, 0, 0, 0, 0, 0, 0, 0, 1, 0, 0, 0, 0, 0, 0, 0, 188, 0,
      78, 231, 255, 138, 7, 41, 197], ?_⟩
  decide +kernel

/-- **non-sharded values**: after the (repaired) default partial encoder the stored value is exactly the encoding
of the updated chunk, hence decodes to it -/
theorem unsharded_exact (enc : Bytes → Bytes) (dec : Bytes → Option Bytes) (hinv : ∀ b, dec (enc b) = some b)
    (old : Bytes) (update : Bytes → Bytes) (empty : Bytes) :
    defaultPartialEncode enc dec (some (enc old)) update empty = some (some (enc (update old))) ∧
    defaultPartialEncode enc dec none update empty = some (some (enc (update empty))) := by
  simp [defaultPartialEncode, hinv, writeAt, specSetPartial_nil]

/-- the hypothesis is satisfiable: a length-prefix encoding -/
example : ∀ b : Bytes, (fun e : Bytes => some (e.tail.take (e.headD 0))) ((fun b : Bytes => b.length :: b) b) = some b := by
  intro b; simp

/-- the code as found kept the tail of a longer previous encoding -/
theorem unsharded_pinned_stale_tail :
    ∃ (enc : Bytes → Bytes) (dec : Bytes → Option Bytes) (old : Bytes) (update : Bytes → Bytes),
      (∀ b, dec (enc b) = some b) ∧
      defaultPartialEncodePinned enc dec (some (enc old)) update [] ≠ some (some (enc (update old))) := by
  refine ⟨fun b => b.length :: b, fun e => some (e.tail.take (e.headD 0)), [1, 2, 3], fun _ => [9], ?_, ?_⟩
  · intro b; simp
  · decide +kernel

/-- partial writes zero-extend and never truncate (the root cause of both findings) -/
theorem writeAt_never_truncates (v : Bytes) (off : Nat) (b : Bytes) :
    ∃ v', writeAt (some v) off b = some v' ∧ v'.length = max v.length (off + b.length) :=
  ⟨_, rfl, (C08.setPartial_zero_extends v b off).1⟩

end Zarrs.C05
