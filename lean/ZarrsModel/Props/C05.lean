import ZarrsModel.Model.ShardPE
import ZarrsModel.Lemmas.ShardPE
/-
C05 — partial encoding is equivalent to rewriting the whole chunk.
-/
namespace Zarrs.C05
open Zarrs Zarrs.Codec Zarrs.Shard Zarrs.ShardPE

/-- well-formed update list: positions in range, no position twice -/
def updatesOk (c : Cfg) (updates : List (Nat × Option Bytes)) : Prop :=
  (∀ u ∈ updates, u.1 < c.nChunks) ∧ (updates.map (·.1)).Nodup

/-- **sharding partial encoder, from an absent value**: the result is erased (everything fill) or a shard that
decodes to exactly the written inner chunks and passes the independent layout check -/
theorem shard_partial_from_absent (c : Cfg) (updates : List (Nat × Option Bytes)) (hu : updatesOk c updates)
    (hsmall : ((updates.filterMap (·.2)).map List.length).sum + indexSize c < sentinel) :
    match partialEncode c none updates with
    | some none => ∀ u ∈ updates, u.2 = none
    | some (some v') => decode c true v' = .ok (applyUpdates (List.replicate c.nChunks none) updates) ∧ wellFormed c v' = true
    | none => False := by
  sorry

/-- **sharding partial encoder, from an existing well-formed tight value** (partial statement: the hypothesis
`hgrow` excludes exactly the known finding — an index at the end whose rewritten suffix would end before the old
value's end): the new value decodes to the updated inner chunks and is again well formed and tight -/
theorem shard_wellformed_partial (c : Cfg) (v : Bytes) (chunks : List (Option Bytes))
    (hdec : decode c true v = .ok chunks) (hwf : wellFormed c v = true) (ht : tight c v = true)
    (updates : List (Nat × Option Bytes)) (hu : updatesOk c updates)
    (hsmall : v.length + ((updates.filterMap (·.2)).map List.length).sum + indexSize c < sentinel)
    (hgrow : c.indexAtEnd = true →
      ∀ idx, currentIndex c (some v) = some idx →
        liveEnd (updates.foldl (fun ix u => setEntry ix u.1 (sentinel, sentinel)) idx) = liveEnd idx ∨
        (updates.foldl (fun ix u => setEntry ix u.1 (sentinel, sentinel)) idx).all (fun e => !isLive e) = true) :
    match partialEncode c (some v) updates with
    | some none => ∀ ch ∈ applyUpdates chunks updates, ch = none
    | some (some v') => decode c true v' = .ok (applyUpdates chunks updates) ∧ wellFormed c v' = true ∧ tight c v' = true
    | none => False := by
  sorry

/-- **the full statement is false for the code as it is** (known finding F-C05-K1): index at the end, write two
inner chunks, set the second to fill, write it again smaller — the stored value keeps its old length and its last
`indexSize` bytes are no longer the index -/
theorem shard_index_end_stale_tail :
    ∃ (c : Cfg) (v1 v2 v3 : Bytes),
      c.indexAtEnd = true ∧
      partialEncode c none [(0, some [1, 2, 3, 4]), (1, some [5, 6, 7, 8, 9, 10])] = some (some v1) ∧
      partialEncode c (some v1) [(1, none)] = some (some v2) ∧
      partialEncode c (some v2) [(1, some [7])] = some (some v3) ∧
      decode c true v1 = .ok [some [1, 2, 3, 4], some [5, 6, 7, 8, 9, 10]] ∧
      decode c true v2 = .ok [some [1, 2, 3, 4], none] ∧
      decode c true v3 ≠ .ok [some [1, 2, 3, 4], some [7]] := by
  sorry

/-- **non-sharded values**: after the (repaired) default partial encoder the stored value is exactly the encoding
of the updated chunk, hence decodes to it -/
theorem unsharded_exact (enc : Bytes → Bytes) (dec : Bytes → Option Bytes) (hinv : ∀ b, dec (enc b) = some b)
    (old : Bytes) (update : Bytes → Bytes) (empty : Bytes) :
    defaultPartialEncode enc dec (some (enc old)) update empty = some (some (enc (update old))) ∧
    defaultPartialEncode enc dec none update empty = some (some (enc (update empty))) := by
  sorry

/-- the code as found kept the tail of a longer previous encoding -/
theorem unsharded_pinned_stale_tail :
    ∃ (enc : Bytes → Bytes) (dec : Bytes → Option Bytes) (old : Bytes) (update : Bytes → Bytes),
      (∀ b, dec (enc b) = some b) ∧
      defaultPartialEncodePinned enc dec (some (enc old)) update [] ≠ some (some (enc (update old))) := by
  sorry

/-- partial writes zero-extend and never truncate (the root cause of both findings) -/
theorem writeAt_never_truncates (v : Bytes) (off : Nat) (b : Bytes) :
    ∃ v', writeAt (some v) off b = some v' ∧ v'.length = max v.length (off + b.length) := by
  sorry

end Zarrs.C05
