import ZarrsModel.Model.Grid
import ZarrsModel.Lemmas.Grid
/-
C10 — chunk grids partition the array.  `g` ranges over all grids built from a configuration
(`Grid.new cfg`, every dimension fixed or a list of sizes) with non-zero chunk sizes (`NonZeroU64`).
A regular grid is `Grid.new (cs.map .fixed)`.

Each theorem with hypotheses is followed by an `example` instantiating all of its hypotheses on a
concrete 2-D grid (one fixed dimension with an overhanging edge chunk, one varying dimension), to
document that the statement is not vacuous.
-/
namespace Zarrs.C10
open Zarrs

/-- existence and uniqueness: every in-bounds element of a compatible array lies in exactly one chunk
below the grid shape, and that chunk is the one `chunk_indices` reports -/
theorem partition (cfg : List DimCfg) (arr G : Shape) (hwf : (Grid.new cfg).wf = true)
    (hG : (Grid.new cfg).gridShape arr = some G) (hlen : arr.length = cfg.length)
    (i : Idx) (hi : inB i arr = true) :
    ∃ c sub, (Grid.new cfg).chunkIndices i = some c ∧ inB c G = true ∧
      (Grid.new cfg).subset c = some sub ∧ sub.contains i = true ∧
      ∀ c' sub', inB c' G = true → (Grid.new cfg).subset c' = some sub' → sub'.contains i = true → c' = c := by
  obtain ⟨c, o, s, e, hci, hcG, ho, hs, -, -, -, hmem, huniq⟩ :=
    (gridOK_new cfg arr G hwf hG hlen).locate i hi
  refine ⟨c, ⟨o, s⟩, hci, hcG, Grid.subset_eq_some.mpr ⟨o, s, ho, hs, rfl⟩, hmem, ?_⟩
  intro c' sub' hc' hsub' hcont
  obtain ⟨o', s', ho', hs', rfl⟩ := Grid.subset_eq_some.mp hsub'
  exact huniq c' o' s' hc' ho' hs' hcont

/-- non-vacuity of the hypotheses of `partition` / `queries_consistent` -/
example : ∃ (cfg : List DimCfg) (arr G : Shape) (i : Idx), (Grid.new cfg).wf = true ∧
    (Grid.new cfg).gridShape arr = some G ∧ arr.length = cfg.length ∧ inB i arr = true :=
  ⟨[.fixed 3, .varying [2, 3, 1]], [7, 6], [3, 3], [6, 4], by decide⟩

/-- the queries agree with each other: chunk subset = origin + shape; element-within-chunk = element − origin
of its chunk and lies below the chunk shape -/
theorem queries_consistent (cfg : List DimCfg) (arr G : Shape) (hwf : (Grid.new cfg).wf = true)
    (hG : (Grid.new cfg).gridShape arr = some G) (hlen : arr.length = cfg.length)
    (i : Idx) (hi : inB i arr = true) :
    ∃ c o s e, (Grid.new cfg).chunkIndices i = some c ∧ (Grid.new cfg).chunkOrigin c = some o ∧
      (Grid.new cfg).chunkShape c = some s ∧ (Grid.new cfg).subset c = some ⟨o, s⟩ ∧
      (Grid.new cfg).chunkElementIndices i = some e ∧ addIdx e o = i ∧ inB e s = true := by
  obtain ⟨c, o, s, e, hci, -, ho, hs, hel, hadd, hes, -, -⟩ :=
    (gridOK_new cfg arr G hwf hG hlen).locate i hi
  exact ⟨c, o, s, e, hci, ho, hs, Grid.subset_eq_some.mpr ⟨o, s, ho, hs, rfl⟩, hel, hadd, hes⟩

/-- for an in-bounds non-empty region the reported box of chunks is exactly the set of chunks (below the
grid shape) whose extent meets the region -/
theorem chunks_in_subset_exact (cfg : List DimCfg) (arr G : Shape) (hwf : (Grid.new cfg).wf = true)
    (hG : (Grid.new cfg).gridShape arr = some G) (hlen : arr.length = cfg.length)
    (r : Subset) (hr : r.wf = true) (hb : r.inboundsShape arr = true) (hne : r.isEmpty = false) :
    ∃ box, (Grid.new cfg).chunksInArraySubset r arr = some box ∧
      ∀ c, box.contains c = true ↔
        (inB c G = true ∧ ∃ sub i, (Grid.new cfg).subset c = some sub ∧ sub.contains i = true ∧ r.contains i = true) := by
  obtain ⟨st, sh⟩ := r
  simp only [Subset.wf, beq_iff_eq] at hr
  simp only [Subset.inboundsShape, Subset.rank, Subset.endExc, Bool.and_eq_true, beq_iff_eq] at hb
  simp only [Subset.isEmpty] at hne
  have hglen : (Grid.new cfg).length = cfg.length := by simp [Grid.new]
  obtain ⟨cs, ce, hcs, hce, hiff⟩ := (gridOK_new cfg arr G hwf hG hlen).chunksIn st sh
    (by omega) (by omega) hb.2 hne
  refine ⟨⟨cs, (Subset.zipSub ce cs).map (· + 1)⟩, ?_, ?_⟩
  · simp only [Grid.chunksInArraySubset, Subset.endInc, Subset.isEmpty, hne, Bool.false_eq_true,
      if_false, hce, hcs]
  · intro c
    simp only [Subset.contains]
    rw [hiff c]
    constructor
    · rintro ⟨hc, o, s, i, ho, hs, h1, h2⟩
      exact ⟨hc, ⟨o, s⟩, i, Grid.subset_eq_some.mpr ⟨o, s, ho, hs, rfl⟩, h1, h2⟩
    · rintro ⟨hc, sub, i, hsub, h1, h2⟩
      obtain ⟨o, s, ho, hs, rfl⟩ := Grid.subset_eq_some.mp hsub
      exact ⟨hc, o, s, i, ho, hs, h1, h2⟩

/-- non-vacuity of the hypotheses of `chunks_in_subset_exact` (a region straddling chunk borders) -/
example : ∃ (cfg : List DimCfg) (arr G : Shape) (r : Subset), (Grid.new cfg).wf = true ∧
    (Grid.new cfg).gridShape arr = some G ∧ arr.length = cfg.length ∧ r.wf = true ∧
    r.inboundsShape arr = true ∧ r.isEmpty = false ∧
    (Grid.new cfg).chunksInArraySubset r arr = some ⟨[0, 0], [3, 2]⟩ :=
  ⟨[.fixed 3, .varying [2, 3, 1]], [7, 6], [3, 3], ⟨[2, 1], [5, 3]⟩, by decide⟩

/-- the grid shape is the least number of chunks covering the array: for a fixed dimension
`(G-1)*s < a ≤ G*s` (when `a > 0`), for a varying dimension the sizes sum exactly to the extent -/
theorem grid_shape_least_fixed (s a : Nat) (hs : 0 < s) (ha : 0 < a) :
    ∃ G, (Dim.fixed s).gridShape a = some G ∧ (G - 1) * s < a ∧ a ≤ G * s :=
  ⟨(a + s - 1) / s, rfl, ceil_pred_lt s a hs ha, ceil_le s a hs⟩

example : ∃ s a : Nat, 0 < s ∧ 0 < a ∧ (Dim.fixed s).gridShape a = some 3 := ⟨3, 7, by decide⟩

theorem grid_shape_exact_varying (sizes : List Nat) (a : Nat) :
    (Dim.new (.varying sizes)).gridShape a = (if a = sizes.sum then some sizes.length else none) := by
  simp [Dim.new, Dim.gridShape, lastEnd_scanOffsets_zero, scanOffsets_length]

/-- outside the grid a rectangular dimension answers `None` (never data from elsewhere) -/
theorem out_of_grid_none (sizes : List Nat) (c i : Nat) :
    (sizes.length ≤ c → (Dim.new (.varying sizes)).origin c = none ∧ (Dim.new (.varying sizes)).chunkShape c = none) ∧
    (sizes.sum ≤ i → (Dim.new (.varying sizes)).chunkIndex i = none ∧ (Dim.new (.varying sizes)).elemIndex i = none) := by
  constructor
  · intro h
    have : (scanOffsets 0 sizes)[c]? = none :=
      List.getElem?_eq_none (by rw [scanOffsets_length]; exact h)
    simp [Dim.new, Dim.origin, Dim.chunkShape, this]
  · intro h
    have hci : (Dim.varying (scanOffsets 0 sizes)).chunkIndex i = none := by
      simp only [Dim.chunkIndex, lastEnd_scanOffsets_zero]
      rw [if_neg (by omega)]
    refine ⟨hci, ?_⟩
    simp only [Dim.new, Dim.elemIndex, hci]

example : ∃ (sizes : List Nat) (c i : Nat), sizes.length ≤ c ∧ sizes.sum ≤ i ∧ sizes ≠ [] :=
  ⟨[2, 3, 1], 3, 6, by decide⟩

/-- a regular dimension keeps answering consistently beyond the array -/
theorem regular_beyond (s c : Nat) (hs : 0 < s) :
    (Dim.fixed s).origin c = some (c * s) ∧ (Dim.fixed s).chunkIndex (c * s) = some c ∧
    (Dim.fixed s).chunkShape c = some s := by
  refine ⟨rfl, ?_, rfl⟩
  simp only [Dim.chunkIndex, Nat.mul_div_cancel c hs]

example : ∃ s c : Nat, 0 < s ∧ (Dim.fixed s).gridShape 7 = some 3 ∧ 3 ≤ c := ⟨3, 10, by decide⟩

/-- a grid re-created from its own metadata is the same grid -/
theorem config_roundtrip (cfg : List DimCfg) : (Grid.new cfg).toCfg = cfg ∧ Grid.new ((Grid.new cfg).toCfg) = Grid.new cfg := by
  have h : (Grid.new cfg).toCfg = cfg := by
    induction cfg with
    | nil => rfl
    | cons c cfg ih =>
      simp only [Grid.new, Grid.toCfg, List.map_cons, List.cons.injEq] at ih ⊢
      refine ⟨?_, ih⟩
      cases c with
      | fixed s => rfl
      | varying sizes => simp [Dim.new, Dim.toCfg, scanOffsets_map_snd]
  exact ⟨h, by rw [h]⟩

end Zarrs.C10
