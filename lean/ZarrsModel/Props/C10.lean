import ZarrsModel.Model.Grid
import ZarrsModel.Lemmas.Grid
/-
C10 — chunk grids partition the array.  `g` ranges over all grids built from a configuration
(`Grid.new cfg`, every dimension fixed or a list of sizes) with non-zero chunk sizes (`NonZeroU64`).
A regular grid is `Grid.new (cs.map .fixed)`.
-/
namespace Zarrs.C10
open Zarrs

/-- existence and uniqueness: every in-bounds element of a compatible array lies in exactly one chunk
below the grid shape, and that chunk is the one `chunk_indices` reports -/
theorem partition (cfg : List DimCfg) (arr G : Shape) (hwf : (Grid.new cfg).wf = true)
    (hG : (Grid.new cfg).gridShape arr = some G) (hlen : arr.length = cfg.length)
    (i : Idx) (hi : inB i arr = true) :
    ∃ c sub, (Grid.new cfg).chunkIndices i = some c ∧ inB c G = true ∧
      (Grid.new cfg).subset c = some sub ∧ sub.contains i = true ∧
      ∀ c' sub', inB c' G = true → (Grid.new cfg).subset c' = some sub' → sub'.contains i = true → c' = c := by
  sorry

/-- the queries agree with each other: chunk subset = origin + shape; element-within-chunk = element − origin
of its chunk and lies below the chunk shape -/
theorem queries_consistent (cfg : List DimCfg) (arr G : Shape) (hwf : (Grid.new cfg).wf = true)
    (hG : (Grid.new cfg).gridShape arr = some G) (hlen : arr.length = cfg.length)
    (i : Idx) (hi : inB i arr = true) :
    ∃ c o s e, (Grid.new cfg).chunkIndices i = some c ∧ (Grid.new cfg).chunkOrigin c = some o ∧
      (Grid.new cfg).chunkShape c = some s ∧ (Grid.new cfg).subset c = some ⟨o, s⟩ ∧
      (Grid.new cfg).chunkElementIndices i = some e ∧ addIdx e o = i ∧ inB e s = true := by
  sorry

/-- for an in-bounds non-empty region the reported box of chunks is exactly the set of chunks (below the
grid shape) whose extent meets the region -/
theorem chunks_in_subset_exact (cfg : List DimCfg) (arr G : Shape) (hwf : (Grid.new cfg).wf = true)
    (hG : (Grid.new cfg).gridShape arr = some G) (hlen : arr.length = cfg.length)
    (r : Subset) (hr : r.wf = true) (hb : r.inboundsShape arr = true) (hne : r.isEmpty = false) :
    ∃ box, (Grid.new cfg).chunksInArraySubset r arr = some box ∧
      ∀ c, box.contains c = true ↔
        (inB c G = true ∧ ∃ sub i, (Grid.new cfg).subset c = some sub ∧ sub.contains i = true ∧ r.contains i = true) := by
  sorry

/-- the grid shape is the least number of chunks covering the array: for a fixed dimension
`(G-1)*s < a ≤ G*s` (when `a > 0`), for a varying dimension the sizes sum exactly to the extent -/
theorem grid_shape_least_fixed (s a : Nat) (hs : 0 < s) (ha : 0 < a) :
    ∃ G, (Dim.fixed s).gridShape a = some G ∧ (G - 1) * s < a ∧ a ≤ G * s := by
  sorry

theorem grid_shape_exact_varying (sizes : List Nat) (a : Nat) :
    (Dim.new (.varying sizes)).gridShape a = (if a = sizes.sum then some sizes.length else none) := by
  sorry

/-- outside the grid a rectangular dimension answers `None` (never data from elsewhere) -/
theorem out_of_grid_none (sizes : List Nat) (c i : Nat) :
    (sizes.length ≤ c → (Dim.new (.varying sizes)).origin c = none ∧ (Dim.new (.varying sizes)).chunkShape c = none) ∧
    (sizes.sum ≤ i → (Dim.new (.varying sizes)).chunkIndex i = none ∧ (Dim.new (.varying sizes)).elemIndex i = none) := by
  sorry

/-- a regular dimension keeps answering consistently beyond the array -/
theorem regular_beyond (s c : Nat) (hs : 0 < s) :
    (Dim.fixed s).origin c = some (c * s) ∧ (Dim.fixed s).chunkIndex (c * s) = some c ∧
    (Dim.fixed s).chunkShape c = some s := by
  sorry

/-- a grid re-created from its own metadata is the same grid -/
theorem config_roundtrip (cfg : List DimCfg) : (Grid.new cfg).toCfg = cfg ∧ Grid.new ((Grid.new cfg).toCfg) = Grid.new cfg := by
  sorry

end Zarrs.C10
