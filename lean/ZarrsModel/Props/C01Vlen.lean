import ZarrsModel.Lemmas.VlenArrMerge
import ZarrsModel.Lemmas.VlenArrChain
import ZarrsModel.Props.C01Chain
import ZarrsModel.Lemmas.ArrayDecAgree
set_option Elab.async false
set_option maxRecDepth 8000
/-
C01 / C02 / C04 for VARIABLE-LENGTH arrays (`string`, `bytes`), end to end.

Part 1 — byte ↔ element agreement.  zarrs keeps a decoded variable-length chunk as `ArrayBytes::Variable(bytes,
offsets)` (`VArr`) and the array methods work on it with `update_bytes_vlen` (partial chunk writes),
`merge_chunks_vlen` (multi-chunk reads), `extract_array_subset` (chunk subsets, array caches), `is_fill_value`
(elision of empty chunks) and `transpose_vlen` (the transpose codec).  The array model (`Model/Array.lean`) works on
lists of elements with `updateRuns`, `Subset.extract`, `ArrCfg.isFill`, `transposeEnc/Dec`.  The theorems of part 1 say
that on valid values each byte-level function succeeds, returns a valid value, and has the element-level meaning.

Part 2 — chains `ChainV` (transposes / squeeze / caches, then `vlen_v2` | `zarrs.vlen`, then bytes-to-bytes stages):
the full decoder undoes the encoder and the partial decoder (decode everything, then extract, through every stage's
partial decoder) answers every in-bounds list of regions with exactly the regions of the chunk = full decode followed
by `extract_array_subset`; an absent value reads as fill.

Part 3 — the array theorems C01 (`read_after_history`) and C04 (`key_present_iff`) instantiated for arrays whose
chunks are encoded by any lawful `ChainV`, via `LosslessOn` and `Lemmas/ArrayOn.lean` exactly as `Props/C01Chain.lean`
(`read_after_history_chainV`, `key_present_iff_chainV`: a decoder with a cap on the element length), and then for the
decoder as it is (`read_after_history_vlen`, `key_present_iff_vlen`, via `Lemmas/ArrayDecAgree.lean`).
-/
namespace Zarrs.C01Vlen
open Zarrs Zarrs.Codec Zarrs.Vlen Zarrs.Partial Zarrs.VlenArr Zarrs.C02 ArrCfg

/-! ## Part 1: byte ↔ element agreement -/

/-- the output loop of every helper builds the canonical value of the elements it pushes -/
theorem build_canonical (xs : List Bytes) :
    build xs = VArr.ofElems xs ∧ (build xs).valid xs.length = true ∧ (build xs).elems = xs := by
  rw [build_eq]; exact ⟨rfl, ofElems_valid xs, elems_ofElems xs⟩

example : build [[97], [], [98, 99]] = ⟨[97, 98, 99], [0, 1, 1, 3]⟩ := by decide

/-- the 2×3 string chunk `["a", "", "bc", "", "", "xyz"]` -/
private def exChunk : List Bytes := [[97], [], [98, 99], [], [], [120, 121, 122]]
private def exV : VArr := ⟨[97, 98, 99, 120, 121, 122], [0, 1, 1, 3, 3, 3, 6]⟩
private theorem exV_valid : exV.valid (prod [2, 3]) = true := by decide
private theorem exV_elems : exV.elems = exChunk := by decide

/-- **`extract_array_subset` / `extract_decoded_regions_vlen` = `Subset.extract` on the elements**: for a valid value
and an in-bounds region the extraction succeeds, its result is valid (for the region's element count), canonical,
and holds the elements the element-level extraction selects -/
theorem extractVlen_elems (r : Subset) (sh : Shape) (v : VArr) (hr : r.wf = true) (hb : r.inboundsShape sh = true)
    (hv : v.valid (prod sh) = true) :
    ∃ w, extractVlen r sh v = some w ∧ w.elems = r.extract sh v.elems ∧ w.valid r.numElements = true ∧
      w = VArr.ofElems (r.extract sh v.elems) := by
  refine ⟨_, extractVlen_spec r sh v hr hb hv, elems_ofElems _, ?_, rfl⟩
  exact ofElems_valid' _ _ (extract_spec' r sh v.elems hr hb (elems_length _ v hv)).1

/-- a region that is not inside the shape is an error, never a truncation -/
theorem extractVlen_rejects (r : Subset) (sh : Shape) (v : VArr) (hb : r.inboundsShape sh = false) :
    extractVlen r sh v = none := by
  simp [extractVlen, hb]

example : (⟨[0, 1], [2, 2]⟩ : Subset).wf = true ∧ (⟨[0, 1], [2, 2]⟩ : Subset).inboundsShape [2, 3] = true ∧
    exV.valid (prod [2, 3]) = true := ⟨by decide, by decide, exV_valid⟩
/-- the region rows 0–1 × columns 1–2 of the example: `["", "bc", "", "xyz"]` -/
example : extractVlen ⟨[0, 1], [2, 2]⟩ [2, 3] exV = some ⟨[98, 99, 120, 121, 122], [0, 0, 2, 2, 5]⟩ ∧
    (⟨[0, 1], [2, 2]⟩ : Subset).extract [2, 3] exChunk = [[], [98, 99], [], [120, 121, 122]] := by decide
example : extractVlen ⟨[0, 2], [2, 2]⟩ [2, 3] exV = none := by decide

/-- **`update_bytes_vlen` = `updateRuns` on the elements** (the read–modify–write of
`Array::store_chunk_subset_opt` on a variable-length chunk) -/
theorem updateBytesVlen_elems (v : VArr) (sh : Shape) (u : VArr) (r : Subset) (hr : r.wf = true)
    (hb : r.inboundsShape sh = true) (hv : v.valid (prod sh) = true) (hu : u.valid r.numElements = true) :
    ∃ w, updateBytesVlen v sh u r = some w ∧ w.elems = updateRuns sh r v.elems u.elems ∧
      w.valid (prod sh) = true ∧ w = VArr.ofElems (updateRuns sh r v.elems u.elems) := by
  refine ⟨_, updateBytesVlen_spec v sh u r hr hb hv hu, elems_ofElems _, ?_, rfl⟩
  exact ofElems_valid' _ _ (updateRuns_length sh r v.elems u.elems hr hb (elems_length _ v hv) (elems_length _ u hu))

theorem updateBytesVlen_rejects (v : VArr) (sh : Shape) (u : VArr) (r : Subset) (hb : r.inboundsShape sh = false) :
    updateBytesVlen v sh u r = none := by
  simp [updateBytesVlen, hb]

example : (⟨[1, 1], [2, 2]⟩ : Subset).inboundsShape [2, 3] = false ∧
    updateBytesVlen ⟨[97, 98, 99, 120, 121, 122], [0, 1, 1, 3, 3, 3, 6]⟩ [2, 3] ⟨[81, 82, 83, 84], [0, 1, 1, 3, 4]⟩
      ⟨[1, 1], [2, 2]⟩ = none := by decide

/-- writing `["Q", "", "RS", "T"]` into rows 0–1 × columns 1–2 -/
private def exU : VArr := ⟨[81, 82, 83, 84], [0, 1, 1, 3, 4]⟩
example : (⟨[0, 1], [2, 2]⟩ : Subset).wf = true ∧ (⟨[0, 1], [2, 2]⟩ : Subset).inboundsShape [2, 3] = true ∧
    exV.valid (prod [2, 3]) = true ∧ exU.valid (⟨[0, 1], [2, 2]⟩ : Subset).numElements = true :=
  ⟨by decide, by decide, exV_valid, by decide⟩
example : updateBytesVlen exV [2, 3] exU ⟨[0, 1], [2, 2]⟩ =
      some ⟨[97, 81, 82, 83, 84], [0, 1, 2, 2, 2, 4, 5]⟩ ∧
    updateRuns [2, 3] ⟨[0, 1], [2, 2]⟩ exChunk exU.elems = [[97], [81], [], [], [82, 83], [84]] := by decide

/-- **`is_fill_value` (variable branch) is element-wise**: on a valid value it is true exactly when every element
equals the fill value; it is `ArrCfg.isFill` of the element model -/
theorem isFillVlen_iff (n : Nat) (v : VArr) (hv : v.valid n = true) (fill : Bytes) :
    (isFillVlen v fill = true ↔ ∀ e ∈ v.elems, e = fill) ∧ isFillVlen v fill = v.elems.all (· == fill) := by
  have h := isFillVlen_eq n v hv fill
  refine ⟨?_, h⟩
  rw [h, List.all_eq_true]
  constructor
  · intro hh e he; simpa using hh e he
  · intro hh e he; simpa using hh e he

/-- the case the pinned upstream got wrong: the chunk `["abab", ""]` with fill value `"ab"`: the concatenated bytes ARE
the fill value repeated twice, the elements are not the fill value -/
example : (VArr.ofElems [[97, 98, 97, 98], []]).valid 2 = true ∧
    (VArr.ofElems [[97, 98, 97, 98], []]).data = (List.replicate 2 [97, 98]).flatten ∧
    isFillVlen (VArr.ofElems [[97, 98, 97, 98], []]) [97, 98] = false ∧
    isFillVlen (VArr.ofElems [[97, 98], [97, 98]]) [97, 98] = true := by decide
/-- fill value `""`: only the all-empty chunk is a fill chunk -/
example : isFillVlen exV [] = false ∧ isFillVlen ⟨[], [0, 0, 0, 0, 0, 0, 0]⟩ [] = true := by decide
/-- `new_fill_value` is the canonical all-fill value, and passes the test -/
theorem fillVArr_elems (n : Nat) (fill : Bytes) :
    fillVArr n fill = VArr.ofElems (List.replicate n fill) ∧ (fillVArr n fill).valid n = true ∧
    isFillVlen (fillVArr n fill) fill = true := by
  have hv : (fillVArr n fill).valid n = true := by rw [fillVArr_eq]; exact ofElems_valid' _ _ (by simp)
  refine ⟨fillVArr_eq n fill, hv, ?_⟩
  rw [(isFillVlen_iff n _ hv fill).1, fillVArr_eq, elems_ofElems]
  intro e he
  exact List.eq_of_mem_replicate he
example : fillVArr 3 [97, 98] = ⟨[97, 98, 97, 98, 97, 98], [0, 2, 4, 6]⟩ := by decide

/-- **`transpose_vlen` = `transposeEnc` / `transposeDec` on the elements**: encode direction
(`transpose_vlen(.., shape, order)`) and decode direction (`transpose_vlen(.., permute(shape, order), order_decode)`,
with `order_decode` as the Rust loop computes it) -/
theorem transposeVlen_elems (v : VArr) (sh : Shape) (order : List Nat) (ho : validOrder order sh.length = true)
    (hv : v.valid (prod sh) = true) :
    (∃ w, transposeVlen v sh order = some w ∧ w.elems = transposeEnc order sh v.elems ∧
      w.valid (prod (permute sh order)) = true) ∧
    (∃ w, transposeVlen v (permute sh order) (orderDecode order) = some w ∧ w.elems = transposeDec order sh v.elems ∧
      w.valid (prod sh) = true) ∧
    orderDecode order = inverseOrder order := by
  refine ⟨⟨_, transposeVlen_enc v sh order ho hv, elems_ofElems _, ?_⟩,
    ⟨_, transposeVlen_dec v sh order ho hv, elems_ofElems _, ?_⟩, orderDecode_eq order _ ho⟩
  · exact ofElems_valid' _ _ (transposeEnc_length _ _ _)
  · exact ofElems_valid' _ _ (transposeDec_length _ _ _)

/-- an order that is no permutation of the axes is rejected (`permuted_axes` panics) -/
theorem transposeVlen_rejects (v : VArr) (sh : Shape) (order : List Nat) (ho : validOrder order sh.length = false) :
    transposeVlen v sh order = none := by
  simp [transposeVlen, ho]

example : validOrder [1, 1] [2, 3].length = false ∧ transposeVlen exV [2, 3] [1, 1] = none ∧
    validOrder [0] [2, 3].length = false := by decide
example : validOrder [1, 0] [2, 3].length = true ∧ exV.valid (prod [2, 3]) = true := ⟨by decide, exV_valid⟩
/-- the transposed chunk `["a", "", "", "", "bc", "xyz"]` (shape 3×2) and back -/
example : transposeVlen exV [2, 3] [1, 0] = some ⟨[97, 98, 99, 120, 121, 122], [0, 1, 1, 1, 1, 3, 6]⟩ ∧
    (transposeVlen exV [2, 3] [1, 0]).bind (fun w => transposeVlen w [3, 2] (orderDecode [1, 0])) = some exV ∧
    orderDecode [2, 0, 1] = [1, 2, 0] := by decide

/-- **`merge_chunks_vlen` = the element-level gather of `ArrCfg.retrieveArraySubset`**: for pairwise disjoint in-bounds
chunks, each valid for its subset, the merge succeeds, is valid and canonical, and its elements are the fold of
`updateRuns` over the chunks starting from empty elements; when the chunks cover the output (always the case in
`retrieve_array_subset_opt`: the chunks intersecting the region cover it) the start value is irrelevant, in particular
it may be the fill value the array model starts from -/
theorem mergeChunksVlen_elems (parts : List (VArr × Subset)) (sh : Shape) (hok : ∀ p ∈ parts, PartOk sh p)
    (hd : PartsDisjoint parts) :
    ∃ w, mergeChunksVlen parts sh = some w ∧ w.valid (prod sh) = true ∧
      w.elems = parts.foldl (fun out p => updateRuns sh p.2 out p.1.elems) (List.replicate (prod sh) []) ∧
      ((∀ i, inB i sh = true → ∃ p ∈ parts, p.2.contains i = true) → ∀ fill : Bytes,
        w.elems = parts.foldl (fun out p => updateRuns sh p.2 out p.1.elems) (List.replicate (prod sh) fill)) := by
  have hlen : ∀ (ps : List (VArr × Subset)) (init : List Bytes), (∀ p ∈ ps, PartOk sh p) → init.length = prod sh →
      (ps.foldl (fun out p => updateRuns sh p.2 out p.1.elems) init).length = prod sh := by
    intro ps
    induction ps with
    | nil => intro init _ h; exact h
    | cons p rest ih =>
      intro init hps h
      have hp := hps p (by simp)
      exact ih _ (fun q hq => hps q (by simp [hq]))
        (updateRuns_length sh p.2 init p.1.elems hp.wf hp.inb h (elems_length _ _ hp.valid))
  refine ⟨_, mergeChunksVlen_spec parts sh hok hd, ofElems_valid' _ _ (hlen parts _ hok (by simp)), elems_ofElems _, ?_⟩
  intro hcover fill
  rw [elems_ofElems]
  exact merged_init_irrelevant sh parts hok hd hcover _ _ (by simp) (by simp)

/-- two chunks of a 2×3 output: column 0 (`["1", "22"]`) and columns 1–2 (`["333", "", "4", "5"]`) -/
private def exParts : List (VArr × Subset) :=
  [(⟨[1, 2, 2], [0, 1, 3]⟩, ⟨[0, 0], [2, 1]⟩), (⟨[3, 3, 3, 4, 5], [0, 3, 3, 4, 5]⟩, ⟨[0, 1], [2, 2]⟩)]
example : (∀ p ∈ exParts, PartOk [2, 3] p) ∧ PartsDisjoint exParts := by
  refine ⟨?_, ?_⟩
  · intro p hp
    simp only [exParts, List.mem_cons, List.not_mem_nil, or_false] at hp
    rcases hp with rfl | rfl <;> exact ⟨by decide, by decide, by decide⟩
  · simp only [PartsDisjoint, exParts, List.pairwise_cons, List.mem_singleton, forall_eq, List.not_mem_nil,
      false_imp_iff, implies_true, List.Pairwise.nil, and_true]
    intro i ⟨h1, h2⟩
    match i with
    | [] => simp [Subset.contains, Subset.mem] at h1
    | [_] => simp [Subset.contains, Subset.mem] at h1
    | [a, b] =>
      simp only [Subset.contains, Subset.mem, Bool.and_eq_true, decide_eq_true_eq] at h1 h2
      omega
    | _ :: _ :: _ :: _ => simp [Subset.contains, Subset.mem] at h1
/-- … and they cover the 2×3 output -/
example : ∀ i, inB i [2, 3] = true → ∃ p ∈ exParts, p.2.contains i = true := by
  intro i hi
  match i with
  | [] => simp [inB] at hi
  | [_] => simp [inB] at hi
  | [a, b] =>
    simp only [inB, Bool.and_eq_true, decide_eq_true_eq] at hi
    by_cases hb0 : b = 0
    · refine ⟨_, List.mem_cons_self, ?_⟩
      simp [Subset.contains, Subset.mem]
      omega
    · refine ⟨_, List.mem_cons_of_mem _ List.mem_cons_self, ?_⟩
      simp [Subset.contains, Subset.mem]
      omega
  | _ :: _ :: _ :: _ => simp [inB] at hi
example : mergeChunksVlen exParts [2, 3] = some ⟨[1, 3, 3, 3, 2, 2, 4, 5], [0, 1, 4, 4, 6, 7, 8]⟩ := by decide
/-- overlapping chunks with different element sizes make `copy_from_slice` panic -/
example : mergeChunksVlen [(⟨[1], [0, 1]⟩, ⟨[0], [1]⟩), (⟨[2, 2], [0, 2]⟩, ⟨[0], [1]⟩)] [1] = none := by decide

/-! ## Part 2: chains -/

/-- what a chain needs of the value it encodes (`VCodec.ok`): nothing for `vlen_v2`; for `zarrs.vlen` lawful index and
data chains and bytes / encoding shorter than 2^64 -/
abbrev chainVOk (c : ChainV) (sh : Shape) (v : VArr) : Prop := c.ok sh v

private theorem bStageOk_BDec (st : BStage) (h : bStageOk st) : BDec st := by
  cases st with
  | stripSuffix n sum => exact bStage_dec_checksum n sum
  | decodeAll enc dec => exact h
  | cache => exact bStage_dec_cache

/-- **the full decoder undoes the encoder** for any transposes / squeezes / caches, either codec, any lawful
bytes-to-bytes stages: the decoded value is valid, has the encoded elements, and is the encoded value itself when that
one is canonical (first offset 0 — every value zarrs builds) -/
theorem chainV_dec_enc (c : ChainV) (sh : Shape) (v : VArr) (e : Bytes) (ha : aStagesOk c.a2a sh)
    (hb : ∀ st ∈ c.b2b, bStageOk st) (hok : chainVOk c sh v) (he : c.encode sh v = some e) :
    ∃ v', c.decode sh e = some v' ∧ v'.valid (prod sh) = true ∧ v'.elems = v.elems ∧
      (v.offsets.head? = some 0 → v' = v) := by
  obtain ⟨v', hd, hv, hel, hc⟩ := chainV_dec_enc' c sh v e (aStagesOk_aOk c.a2a sh ha)
    (fun st hst => bStageOk_BDec st (hb st hst)) hok he
  exact ⟨v', hd, hv, hel, fun h => (hc h).1⟩

/-- the encoder accepts exactly valid values (then the codec's own guards apply) -/
theorem chainV_encode_invalid (c : ChainV) (sh : Shape) (v : VArr) (hv : v.valid (prod sh) = false) :
    c.encode sh v = none := by
  simp [ChainV.encode, hv]

example : (⟨[1, 2, 3], [0, 1, 3]⟩ : VArr).valid (prod [2, 3]) = false ∧
    (⟨[], .v2, []⟩ : ChainV).encode [2, 3] ⟨[1, 2, 3], [0, 1, 3]⟩ = none := by decide

/-- **C02 for vlen chains: partial decoding = full decoding followed by `extract_array_subset`.**  For every chain,
every encoded value and every list of in-bounds regions, the chain's partial decoder on the stored encoding
(bytes-to-bytes partial decoders, decode-all vlen partial decoder, array-to-array partial decoders incl. the
variable-length transposition of every answer and the array cache's `extract_array_subset`) returns, region by region,
the canonical value of the region's elements of the encoded chunk — which is what extracting the regions from the fully
decoded chunk returns -/
theorem chainV_partial_eq_full_slice (c : ChainV) (sh : Shape) (fill : Bytes) (v : VArr) (e : Bytes)
    (ha : aStagesOk c.a2a sh) (hb : ∀ st ∈ c.b2b, bStageOk st) (hok : chainVOk c sh v) (he : c.encode sh v = some e)
    (rs : List Subset) (hrs : ∀ r ∈ rs, r.wf = true ∧ r.inboundsShape sh = true) :
    c.partialDecoder sh fill (storeHandle (some e)) rs = some (rs.map (fun r => VArr.ofElems (r.extract sh v.elems))) ∧
    c.partialDecoder sh fill (storeHandle (some e)) rs = (c.decode sh e).bind (extractRegionsVlen rs sh) ∧
    (c.partialDecoder sh fill (storeHandle (some e))).elems rs = some (rs.map (fun r => r.extract sh v.elems)) := by
  have h1 := chainV_partial_ok' c sh fill v e (aStagesOk_aOk c.a2a sh ha)
    (fun st hst b g hg => bStage_ok st (hb st hst) b g hg) hok he rs hrs
  obtain ⟨v', hd, hv, hel, _⟩ := chainV_dec_enc c sh v e ha hb hok he
  refine ⟨h1, ?_, ?_⟩
  · rw [h1, hd, Option.bind_some, extractRegionsVlen_spec rs sh v' hrs hv, hel]
  · simp only [VHandle.elems, h1, Option.map_some, List.map_map, Function.comp_def, elems_ofElems]

/-- … and an absent value reads as fill -/
theorem chainV_partial_absent (c : ChainV) (sh : Shape) (fill : Bytes) (ha : aStagesOk c.a2a sh)
    (rs : List Subset) (hrs : ∀ r ∈ rs, r.wf = true ∧ r.inboundsShape sh = true) :
    c.partialDecoder sh fill (storeHandle none) rs =
      some (rs.map (fun r => VArr.ofElems (List.replicate r.numElements fill))) := by
  rw [chainV_absent' c sh fill (aStagesOk_aOk c.a2a sh ha) rs hrs]
  congr 1
  apply List.map_congr_left
  intro r hr
  rw [extract_replicate r sh fill (hrs r hr).1 (hrs r hr).2]

/-- the example chains: transpose `[1, 0]`, the array cache `CodecChain::new` inserts above a vlen codec, `vlen_v2`
(resp. `zarrs.vlen` with a `uint32` little-endian index and crc32c on the data), crc32c -/
private def exChainV2 : ChainV := ⟨[.transpose [1, 0], .cache], .v2, [.stripSuffix 4 crc32c]⟩
private def exCfg : Vlen.Cfg := ⟨false, false, [], [crc32cCodec]⟩
private def exChainVlen : ChainV := ⟨[.transpose [1, 0], .cache], .vlen exCfg, [.stripSuffix 4 crc32c]⟩
private def exRegions : List Subset := [⟨[0, 1], [2, 2]⟩, ⟨[1, 0], [1, 3]⟩, ⟨[0, 0], [2, 3]⟩, ⟨[1, 1], [0, 1]⟩]

private theorem exA : aStagesOk exChainV2.a2a [2, 3] := ⟨by decide, trivial, trivial⟩
private theorem exB : ∀ st ∈ exChainV2.b2b, bStageOk st := by
  intro st hst
  simp only [exChainV2, List.mem_singleton] at hst
  subst hst; rfl
private theorem exCfg_lawful : C03.vlenLawful exCfg := by
  constructor
  · intro x hx; simp [exCfg] at hx
  · intro x hx
    simp only [exCfg, List.mem_singleton] at hx
    subst hx
    exact C03.crc32c_lawful

private def exEncV2 : Bytes :=
  [6, 0, 0, 0,  1, 0, 0, 0, 97,  0, 0, 0, 0,  0, 0, 0, 0,  0, 0, 0, 0,  2, 0, 0, 0, 98, 99,  3, 0, 0, 0, 120, 121, 122,
   213, 18, 101, 137]
private theorem exEncV2_eq : exChainV2.encode [2, 3] exV = some exEncV2 := by decide +kernel

/-- non-vacuity of `chainV_dec_enc` / `chainV_partial_eq_full_slice` (`vlen_v2`), and the conclusions evaluated -/
example : aStagesOk exChainV2.a2a [2, 3] ∧ (∀ st ∈ exChainV2.b2b, bStageOk st) ∧ chainVOk exChainV2 [2, 3] exV ∧
    exChainV2.encode [2, 3] exV = some exEncV2 ∧ (∀ r ∈ exRegions, r.wf = true ∧ r.inboundsShape [2, 3] = true) :=
  ⟨exA, exB, fun _ _ _ _ => trivial, exEncV2_eq, by decide⟩
example : exChainV2.decode [2, 3] exEncV2 = some exV := by decide +kernel
example : exChainV2.partialDecoder [2, 3] [] (storeHandle (some exEncV2)) exRegions =
    some [⟨[98, 99, 120, 121, 122], [0, 0, 2, 2, 5]⟩, ⟨[120, 121, 122], [0, 0, 0, 3]⟩, exV, ⟨[], [0]⟩] := by
  decide +kernel
example : exRegions.map (fun r => r.extract [2, 3] exChunk) =
    [[[], [98, 99], [], [120, 121, 122]], [[], [], [120, 121, 122]], exChunk, []] := by decide
/-- absent value, fill value `"ab"` -/
example : exChainV2.partialDecoder [2, 3] [97, 98] (storeHandle none) [⟨[0, 1], [2, 1]⟩, ⟨[1, 1], [0, 1]⟩] =
    some [⟨[97, 98, 97, 98], [0, 2, 4]⟩, ⟨[], [0]⟩] := by decide
example : aStagesOk exChainV2.a2a [2, 3] ∧ ∀ r ∈ [(⟨[0, 1], [2, 1]⟩ : Subset), ⟨[1, 1], [0, 1]⟩],
    r.wf = true ∧ r.inboundsShape [2, 3] = true := ⟨exA, by decide⟩

private def exEncVlen : Bytes :=
  [28, 0, 0, 0, 0, 0, 0, 0,  0, 0, 0, 0,  1, 0, 0, 0,  1, 0, 0, 0,  1, 0, 0, 0,  1, 0, 0, 0,  3, 0, 0, 0,  6, 0, 0, 0,
   97, 98, 99, 120, 121, 122,  254, 83, 215, 52,  82, 205, 173, 40]
private theorem exEncVlen_eq : exChainVlen.encode [2, 3] exV = some exEncVlen := by decide +kernel

/-- the `zarrs.vlen` chain: `chainVOk` asks for lawful inner chains and sizes below 2^64 -/
private theorem exVlen_ok : chainVOk exChainVlen [2, 3] exV := by
  intro w e' hw he'
  have h1 : encodeA2AV exChainVlen.a2a [2, 3] exV = some ⟨[97, 98, 99, 120, 121, 122], [0, 1, 1, 1, 1, 3, 6]⟩ := by
    decide
  rw [h1] at hw
  have hw' := (Option.some.inj hw).symm
  subst hw'
  have h2 : exChainVlen.codec.enc (prod (shapesOf exChainVlen.a2a [2, 3]))
      ⟨[97, 98, 99, 120, 121, 122], [0, 1, 1, 1, 1, 3, 6]⟩ = some (exEncVlen.take 46) := by decide +kernel
  rw [h2] at he'
  have he'' := (Option.some.inj he').symm
  subst he''
  exact ⟨exCfg_lawful, by decide, by decide⟩

example : aStagesOk exChainVlen.a2a [2, 3] ∧ (∀ st ∈ exChainVlen.b2b, bStageOk st) ∧ chainVOk exChainVlen [2, 3] exV ∧
    exChainVlen.encode [2, 3] exV = some exEncVlen :=
  ⟨exA, exB, exVlen_ok, exEncVlen_eq⟩
example : exChainVlen.decode [2, 3] exEncVlen = some exV := by decide +kernel
example : exChainVlen.partialDecoder [2, 3] [] (storeHandle (some exEncVlen)) exRegions =
    some [⟨[98, 99, 120, 121, 122], [0, 0, 2, 2, 5]⟩, ⟨[120, 121, 122], [0, 0, 0, 3]⟩, exV, ⟨[], [0]⟩] := by
  decide +kernel

/-! ## Part 3: the array theorems for variable-length arrays -/

/-- `BEq` on elements as in `C01` (from `DecidableEq`; it agrees with the list `==`) -/
local instance (priority := high) instBEqElem : BEq Bytes := instBEqOfDecidableEq

/-- the array configuration whose chunk codec is the chain `c` applied to chunks of shape `sh`; elements are the byte
strings of the `string` / `bytes` values.
`enc` = `Element::into_array_bytes` (the canonical `ArrayBytes::Variable` of the elements) then `CodecChain::encode`
(`[]` stands for an encoder error: `lossless_of_chainV` is about the chunks on which the encoder succeeds);
`dec` = `CodecChain::decode` then the element view.  `L` is a cap on the element length the configuration can hold
(think `isize::MAX`, the longest `Vec<u8>`): a decoded chunk with a longer element is an error.  The cap is what makes
"the decoder only returns well-formed elements" (`OkOn.decGood`, quantified over ALL byte strings) true; in a history
from the empty store every stored value encodes a chunk of elements within the cap, so the test never fails there:
`read_after_history_vlen` / `key_present_iff_vlen` below are the same theorems for the configuration WITHOUT the test
(`arrCfgV`, the decoder as it is), derived from the capped ones. -/
def arrCfgOfChainV (c : ChainV) (sh : Shape) (fill : Bytes) (L : Nat) (shape : Shape) (grid : Grid)
    (keyOf : Idx → Key) (storeEmpty : Bool) : ArrCfg Bytes :=
  { shape := shape, grid := grid, fill := fill, keyOf := keyOf,
    enc := fun xs => (c.encode sh (VArr.ofElems xs)).getD [],
    dec := fun b => (c.decode sh b).bind (fun v =>
      if v.elems.all (fun e => decide (e.length ≤ L)) then some v.elems else none),
    storeEmpty := storeEmpty }

/-- a chunk of shape `sh` of elements of at most `L` bytes -/
def goodChunkV (L : Nat) (sh : Shape) (xs : List Bytes) : Bool :=
  xs.length == prod sh && xs.all (fun e => decide (e.length ≤ L))

/-- the chain can encode every well-formed chunk, within its size conditions -/
def fitsV (c : ChainV) (sh : Shape) (L : Nat) : Prop :=
  ∀ xs, goodChunkV L sh xs = true → (c.encode sh (VArr.ofElems xs)).isSome = true ∧ c.ok sh (VArr.ofElems xs)

/-- the elision test of `store_chunk_opt` on the canonical value of the elements is the element model's `isFill` -/
theorem isFill_agrees (c : ChainV) (sh : Shape) (fill : Bytes) (L : Nat) (shape : Shape) (grid : Grid)
    (keyOf : Idx → Key) (storeEmpty : Bool) (xs : List Bytes) :
    isFillVlen (VArr.ofElems xs) fill = (arrCfgOfChainV c sh fill L shape grid keyOf storeEmpty).isFill xs := by
  apply Bool.eq_iff_iff.mpr
  rw [(isFillVlen_iff xs.length _ (ofElems_valid xs) fill).1, elems_ofElems]
  simp only [ArrCfg.isFill, arrCfgOfChainV, List.all_eq_true, beq_iff_eq]

example : isFillVlen (VArr.ofElems [[97, 98, 97, 98], []]) [97, 98] = false ∧
    isFillVlen (VArr.ofElems [[97, 98], [97, 98]]) [97, 98] = true := by decide

/-- **the chain is lossless on well-formed chunks** (`chainV_dec_enc`) -/
theorem lossless_of_chainV (c : ChainV) (sh : Shape) (fill : Bytes) (L : Nat) (shape : Shape) (grid : Grid)
    (keyOf : Idx → Key) (storeEmpty : Bool) (ha : aStagesOk c.a2a sh) (hb : ∀ st ∈ c.b2b, bStageOk st)
    (hfits : fitsV c sh L) :
    (arrCfgOfChainV c sh fill L shape grid keyOf storeEmpty).LosslessOn (goodChunkV L sh) := by
  intro x hx
  obtain ⟨hsome, hok⟩ := hfits x hx
  obtain ⟨e, he⟩ := Option.isSome_iff_exists.mp hsome
  obtain ⟨v', hd, _, hel, _⟩ := chainV_dec_enc c sh _ e ha hb hok he
  simp only [goodChunkV, Bool.and_eq_true] at hx
  simp only [arrCfgOfChainV, he, Option.getD_some, hd, Option.bind_some, hel, elems_ofElems, hx.2, if_true]

/-- `vlen_v2` chains fit every chunk of fewer than 2^32 elements of fewer than 2^32 bytes each -/
theorem fitsV_v2 (a2a : List AStage) (b2b : List BStage) (sh : Shape) (L : Nat) (ha : aStagesOk a2a sh)
    (hn : prod (shapesOf a2a sh) < 2 ^ 32) (hL : L < 2 ^ 32) : fitsV ⟨a2a, .v2, b2b⟩ sh L := by
  intro xs hx
  simp only [goodChunkV, Bool.and_eq_true, beq_iff_eq, List.all_eq_true, decide_eq_true_eq] at hx
  refine ⟨?_, fun _ _ _ _ => trivial⟩
  have hv := ofElems_valid' xs (prod sh) hx.1
  obtain ⟨w, h1, hv1, he1, _⟩ := encodeA2AV_spec a2a sh _ (aStagesOk_aOk a2a sh ha) hv
  have hmem : ∀ (stages : List AStage) (s : Shape) (ys : List Bytes), aOk stages s → ys.length = prod s →
      ∀ y ∈ aEnc stages s ys, y ∈ ys := by
    intro stages
    induction stages with
    | nil => intro s ys _ _ y hy; exact hy
    | cons st rest ih =>
      intro s ys hao hl y hy
      exact aStage_mem st s ys hao.1 hl y (ih _ _ hao.2 (aStage_length st s ys hao.1 hl) y hy)
  have hg : v2Guard w.elems := by
    refine ⟨by rw [elems_length _ w hv1]; exact hn, ?_⟩
    intro y hy
    rw [he1, elems_ofElems] at hy
    have := hx.2 y (hmem a2a sh xs (aStagesOk_aOk a2a sh ha) hx.1 y hy)
    omega
  simp only [ChainV.encode, hv, Bool.not_true, Bool.false_eq_true, if_false, h1, Option.bind_some, VCodec.enc,
    C03.vlenV2_enc_valid _ w hv1 hg]
  rfl

private theorem flatten_length_le (L : Nat) : ∀ (xs : List Bytes), (∀ x ∈ xs, x.length ≤ L) →
    xs.flatten.length ≤ xs.length * L := by
  intro xs
  induction xs with
  | nil => intro _; simp
  | cons x xs ih =>
    intro h
    have h1 := h x (by simp)
    have h2 := ih (fun y hy => h y (by simp [hy]))
    simp only [List.flatten_cons, List.length_append, List.length_cons, Nat.add_mul, Nat.one_mul]
    omega

private theorem aEnc_mem : ∀ (stages : List AStage) (s : Shape) (ys : List Bytes), aOk stages s → ys.length = prod s →
    ∀ y ∈ aEnc stages s ys, y ∈ ys := by
  intro stages
  induction stages with
  | nil => intro s ys _ _ y hy; exact hy
  | cons st rest ih =>
    intro s ys hao hl y hy
    exact aStage_mem st s ys hao.1 hl y (ih _ _ hao.2 (aStage_length st s ys hao.1 hl) y hy)

/-- `zarrs.vlen` chains without codecs inside the index and data chains (beyond `bytes`) fit every chunk whose index
and data stay below 2^32 bytes (either index type) -/
theorem fitsV_vlen_plain (a2a : List AStage) (b2b : List BStage) (c : Vlen.Cfg) (sh : Shape) (L : Nat)
    (hi : c.idxChain = []) (hd : c.dataChain = []) (ha : aStagesOk a2a sh)
    (hsz : 8 + (prod (shapesOf a2a sh) + 1) * 8 + prod (shapesOf a2a sh) * L < 2 ^ 32) :
    fitsV ⟨a2a, .vlen c, b2b⟩ sh L := by
  intro xs hx
  simp only [goodChunkV, Bool.and_eq_true, beq_iff_eq, List.all_eq_true, decide_eq_true_eq] at hx
  have hv := ofElems_valid' xs (prod sh) hx.1
  have hao := aStagesOk_aOk a2a sh ha
  obtain ⟨w, h1, hv1, he1, hc1⟩ := encodeA2AV_spec a2a sh _ hao hv
  have hcan : w.offsets.head? = some 0 := hc1 (canon_ofElems xs)
  -- the bytes of the transposed value
  have hdata : w.data.length ≤ prod (shapesOf a2a sh) * L := by
    have hf := elems_flatten _ w hv1
    have hh : w.offsets.headD 0 = 0 := by
      cases ho : w.offsets with
      | nil => rfl
      | cons o os => rw [ho] at hcan; simpa using hcan
    rw [hh, List.drop_zero] at hf
    rw [← hf, ← elems_length _ w hv1]
    apply flatten_length_le
    intro y hy
    rw [he1, elems_ofElems] at hy
    exact hx.2 y (aEnc_mem a2a sh xs hao hx.1 y hy)
  have hoffs : w.offsets.any (fun o => decide (o ≥ 2 ^ 32)) = false := by
    rw [List.any_eq_false]
    intro o ho
    have := valid_offsets_le _ w hv1 o ho
    simp only [ge_iff_le, decide_eq_true_eq, Nat.not_le]
    omega
  have henc : ∃ e', vlenEnc c (prod (shapesOf a2a sh)) w = .ok e' := by
    unfold vlenEnc vlenPack
    simp only [hv1, Bool.not_true, Bool.false_eq_true, if_false, hoffs, Bool.and_false, hi, hd]
    simp only [chainEnc, List.foldl_nil]
    by_cases h0 : w.data.length = 0
    · simp only [h0, if_true]; exact ⟨_, rfl⟩
    · simp only [h0, if_false]; exact ⟨_, rfl⟩
  obtain ⟨e', he'⟩ := henc
  have hlen := C03.vlen_size_plain c hi hd _ w e' he'
  have hw8 : c.w ≤ 8 := by unfold Vlen.Cfg.w; split <;> omega
  have hmul : (prod (shapesOf a2a sh) + 1) * c.w ≤ (prod (shapesOf a2a sh) + 1) * 8 := Nat.mul_le_mul_left _ hw8
  refine ⟨?_, ?_⟩
  · simp only [ChainV.encode, hv, Bool.not_true, Bool.false_eq_true, if_false, h1, Option.bind_some, VCodec.enc, he']
    rfl
  · intro w2 e2 hw2 he2
    rw [h1] at hw2
    have := (Option.some.inj hw2).symm
    subst this
    simp only [VCodec.enc, he'] at he2
    have := (Option.some.inj he2).symm
    subst this
    refine ⟨⟨?_, ?_⟩, by omega, by omega⟩
    · rw [hi]; intro x hx; cases hx
    · rw [hd]; intro x hx; cases hx

private theorem okOn_chainV (c : ChainV) (sh : Shape) (fill : Bytes) (L : Nat) (shape : Shape) (grid : Grid)
    (keyOf : Idx → Key) (storeEmpty : Bool) (G : Shape)
    (ha : aStagesOk c.a2a sh) (hb : ∀ st ∈ c.b2b, bStageOk st) (hfits : fitsV c sh L) (hfill : fill.length ≤ L)
    (hreg : ∀ i s, (arrCfgOfChainV c sh fill L shape grid keyOf storeEmpty).chunkShape i = some s → s = sh)
    (hkeys : ∀ a b, keyOf a = keyOf b → a = b) (hgn : ∃ gcfg, grid = Grid.new gcfg) (hgw : grid.wf = true)
    (hgs : grid.gridShape shape = some G) (hrank : shape.length = grid.length) :
    C01Chain.OkOn (goodChunkV L sh) (fun e => decide (e.length ≤ L))
      (arrCfgOfChainV c sh fill L shape grid keyOf storeEmpty) G where
  losslessOn := lossless_of_chainV c sh fill L shape grid keyOf storeEmpty ha hb hfits
  ofElems := by
    intro i s x hs hl he
    rw [hreg i s hs] at hl
    simp only [goodChunkV, Bool.and_eq_true, beq_iff_eq, List.all_eq_true]
    exact ⟨hl, he⟩
  decGood := by
    intro b xs hd e he
    simp only [arrCfgOfChainV] at hd
    cases hdd : c.decode sh b with
    | none => rw [hdd] at hd; simp at hd
    | some v =>
      rw [hdd] at hd
      simp only [Option.bind_some] at hd
      by_cases hall : v.elems.all (fun e => decide (e.length ≤ L)) = true
      · rw [if_pos hall] at hd
        have := Option.some.inj hd
        subst this
        exact List.all_eq_true.mp hall e he
      · rw [if_neg hall] at hd; cases hd
  fillGood := by simpa [arrCfgOfChainV] using hfill
  serial := ⟨serElems, unserElems, unser_ser⟩
  keysInj := hkeys
  gridNew := hgn
  gridWf := hgw
  gridShape := hgs
  rank := hrank

/-- **C01 for variable-length arrays.**  The array whose chunks (all of shape `sh`) are encoded by ANY lawful vlen
chain — transposes / squeezes / caches, `vlen_v2` (= `vlen-utf8`, `vlen-bytes`, `vlen-array`) or `zarrs.vlen`,
checksums / invertible compressors — with any injective key encoding: after any in-bounds history of writes of
strings of at most `L` bytes from the empty store, every read route (`retrieve_array_subset`, `retrieve_chunk`,
`retrieve_chunk_subset`, `retrieve_chunks`) returns the abstract array's elements.  The byte-level steps the real
methods take on `ArrayBytes::Variable` are the element-level steps of the model by Part 1. -/
theorem read_after_history_chainV (c : ChainV) (sh : Shape) (fill : Bytes) (L : Nat) (shape : Shape) (grid : Grid)
    (keyOf : Idx → Key) (storeEmpty : Bool) (G : Shape)
    (ha : aStagesOk c.a2a sh) (hb : ∀ st ∈ c.b2b, bStageOk st) (hfits : fitsV c sh L) (hfill : fill.length ≤ L)
    (hreg : ∀ i s, (arrCfgOfChainV c sh fill L shape grid keyOf storeEmpty).chunkShape i = some s → s = sh)
    (hkeys : ∀ a b, keyOf a = keyOf b → a = b) (hgn : ∃ gcfg, grid = Grid.new gcfg) (hgw : grid.wf = true)
    (hgs : grid.gridShape shape = some G) (hrank : shape.length = grid.length)
    (ops : List (WriteOp Bytes))
    (hops : ∀ op ∈ ops, C01.opInBounds (arrCfgOfChainV c sh fill L shape grid keyOf storeEmpty) G op)
    (hdata : ∀ op ∈ ops, ∀ e ∈ opData op, e.length ≤ L) :
    let cfg := arrCfgOfChainV c sh fill L shape grid keyOf storeEmpty
    ∃ st, cfg.run [] ops = some st ∧
      (∀ r : Subset, r.wf = true → r.inboundsShape cfg.shape = true →
        cfg.retrieveArraySubset st r = some (AArr.read (cfg.absRun ops) r)) ∧
      (∀ i, inB i G = true → ∃ cs, cfg.chunkSubset i = some cs ∧
        cfg.retrieveChunk st i = some (AArr.read (cfg.absRun ops) cs)) ∧
      (∀ i r, inB i G = true → r.wf = true →
        (∃ s, cfg.chunkShape i = some s ∧ r.inboundsShape s = true) →
        ∃ cs, cfg.chunkSubset i = some cs ∧
          cfg.retrieveChunkSubset st i r = some (AArr.read (cfg.absRun ops) ⟨addIdx r.start cs.start, r.shape⟩)) ∧
      (∀ b : Subset, b.wf = true → b.inboundsShape G = true →
        ∃ region, cfg.grid.chunksSubset b = some region ∧
          cfg.retrieveChunks st b = some (AArr.read (cfg.absRun ops) region)) :=
  C01Chain.read_after_history_on _ _ _ G
    (okOn_chainV c sh fill L shape grid keyOf storeEmpty G ha hb hfits hfill hreg hkeys hgn hgw hgs hrank) ops hops
    (fun op hop e he => by simpa using hdata op hop e he)

/-- **C04 (elision on) for variable-length arrays**: a chunk key is present exactly when its chunk holds a non-fill
element (with the element-wise `is_fill_value`: a chunk like `["abab", ""]` under the fill value `"ab"` is stored) -/
theorem key_present_iff_chainV (c : ChainV) (sh : Shape) (fill : Bytes) (L : Nat) (shape : Shape) (grid : Grid)
    (keyOf : Idx → Key) (G : Shape)
    (ha : aStagesOk c.a2a sh) (hb : ∀ st ∈ c.b2b, bStageOk st) (hfits : fitsV c sh L) (hfill : fill.length ≤ L)
    (hreg : ∀ i s, (arrCfgOfChainV c sh fill L shape grid keyOf false).chunkShape i = some s → s = sh)
    (hkeys : ∀ a b, keyOf a = keyOf b → a = b) (hgn : ∃ gcfg, grid = Grid.new gcfg) (hgw : grid.wf = true)
    (hgs : grid.gridShape shape = some G) (hrank : shape.length = grid.length)
    (ops : List (WriteOp Bytes))
    (hops : ∀ op ∈ ops, C01.opInBounds (arrCfgOfChainV c sh fill L shape grid keyOf false) G op)
    (hdata : ∀ op ∈ ops, ∀ e ∈ opData op, e.length ≤ L) :
    let cfg := arrCfgOfChainV c sh fill L shape grid keyOf false
    ∃ st, cfg.run [] ops = some st ∧
      ∀ i, inB i G = true → ∃ cs, cfg.chunkSubset i = some cs ∧
        (cfg.keyOf i ∈ st.keys ↔ ∃ j, cs.contains j = true ∧ cfg.absRun ops j ≠ cfg.fill) :=
  C01Chain.key_present_iff_on _ _ _ G
    (okOn_chainV c sh fill L shape grid keyOf false G ha hb hfits hfill hreg hkeys hgn hgw hgs hrank) rfl ops hops
    (fun op hop e he => by simpa using hdata op hop e he)

/-! ### … and without the cap: the real decoder -/

/-- the array configuration with the decoder as it is: `CodecChain::decode`, then the element view -/
def arrCfgV (c : ChainV) (sh : Shape) (fill : Bytes) (shape : Shape) (grid : Grid) (keyOf : Idx → Key)
    (storeEmpty : Bool) : ArrCfg Bytes :=
  { shape := shape, grid := grid, fill := fill, keyOf := keyOf,
    enc := fun xs => (c.encode sh (VArr.ofElems xs)).getD [],
    dec := fun b => (c.decode sh b).map VArr.elems,
    storeEmpty := storeEmpty }

theorem arrCfgV_eq (c : ChainV) (sh : Shape) (fill : Bytes) (L : Nat) (shape : Shape) (grid : Grid) (keyOf : Idx → Key)
    (storeEmpty : Bool) :
    arrCfgV c sh fill shape grid keyOf storeEmpty =
      (arrCfgOfChainV c sh fill L shape grid keyOf storeEmpty).withDec (fun b => (c.decode sh b).map VArr.elems) := rfl

/-- on encodings of well-formed chunks the capped and the real decoder agree (both return the chunk) -/
theorem decAgree_chainV (c : ChainV) (sh : Shape) (fill : Bytes) (L : Nat) (shape : Shape) (grid : Grid)
    (keyOf : Idx → Key) (storeEmpty : Bool) (ha : aStagesOk c.a2a sh) (hb : ∀ st ∈ c.b2b, bStageOk st)
    (hfits : fitsV c sh L) :
    DecAgree (arrCfgOfChainV c sh fill L shape grid keyOf storeEmpty) (goodChunkV L sh)
      (fun b => (c.decode sh b).map VArr.elems) := by
  intro x hx
  rw [lossless_of_chainV c sh fill L shape grid keyOf storeEmpty ha hb hfits x hx]
  obtain ⟨hsome, hok⟩ := hfits x hx
  obtain ⟨e, he⟩ := Option.isSome_iff_exists.mp hsome
  obtain ⟨v', hd, _, hel, _⟩ := chainV_dec_enc c sh _ e ha hb hok he
  simp only [arrCfgOfChainV, he, Option.getD_some, hd, Option.map_some, hel, elems_ofElems]

/-- **C01 for variable-length arrays, real decoder.**  As `read_after_history_chainV`, for the configuration whose
decoder is `CodecChain::decode` itself: the length bound `L` is a hypothesis on the HISTORY (the strings written and
the fill value have at most `L` bytes, and the chain can encode chunks of such strings), no longer a test in the
decoder.  Proof: the capped configuration and this one run in lock step, because every value a history from the empty
store leaves in the store is the encoding of a well-formed chunk (`Lemmas/ArrayDecAgree.lean`). -/
theorem read_after_history_vlen (c : ChainV) (sh : Shape) (fill : Bytes) (L : Nat) (shape : Shape) (grid : Grid)
    (keyOf : Idx → Key) (storeEmpty : Bool) (G : Shape)
    (ha : aStagesOk c.a2a sh) (hb : ∀ st ∈ c.b2b, bStageOk st) (hfits : fitsV c sh L) (hfill : fill.length ≤ L)
    (hreg : ∀ i s, (arrCfgV c sh fill shape grid keyOf storeEmpty).chunkShape i = some s → s = sh)
    (hkeys : ∀ a b, keyOf a = keyOf b → a = b) (hgn : ∃ gcfg, grid = Grid.new gcfg) (hgw : grid.wf = true)
    (hgs : grid.gridShape shape = some G) (hrank : shape.length = grid.length)
    (ops : List (WriteOp Bytes))
    (hops : ∀ op ∈ ops, C01.opInBounds (arrCfgV c sh fill shape grid keyOf storeEmpty) G op)
    (hdata : ∀ op ∈ ops, ∀ e ∈ opData op, e.length ≤ L) :
    let cfg := arrCfgV c sh fill shape grid keyOf storeEmpty
    ∃ st, cfg.run [] ops = some st ∧
      (∀ r : Subset, r.wf = true → r.inboundsShape cfg.shape = true →
        cfg.retrieveArraySubset st r = some (AArr.read (cfg.absRun ops) r)) ∧
      (∀ i, inB i G = true → ∃ cs, cfg.chunkSubset i = some cs ∧
        cfg.retrieveChunk st i = some (AArr.read (cfg.absRun ops) cs)) ∧
      (∀ i r, inB i G = true → r.wf = true →
        (∃ s, cfg.chunkShape i = some s ∧ r.inboundsShape s = true) →
        ∃ cs, cfg.chunkSubset i = some cs ∧
          cfg.retrieveChunkSubset st i r = some (AArr.read (cfg.absRun ops) ⟨addIdx r.start cs.start, r.shape⟩)) ∧
      (∀ b : Subset, b.wf = true → b.inboundsShape G = true →
        ∃ region, cfg.grid.chunksSubset b = some region ∧
          cfg.retrieveChunks st b = some (AArr.read (cfg.absRun ops) region)) := by
  have hokL := okOn_chainV c sh fill L shape grid keyOf storeEmpty G ha hb hfits hfill hreg hkeys hgn hgw hgs hrank
  have hG : Good (arrCfgOfChainV c sh fill L shape grid keyOf storeEmpty) (goodChunkV L sh)
      (fun e => decide (e.length ≤ L)) := ⟨hokL.ofElems, hokL.decGood, hokL.fillGood⟩
  have hA := decAgree_chainV c sh fill L shape grid keyOf storeEmpty ha hb hfits
  have hd' : ∀ op ∈ ops, ∀ e ∈ opData op, (fun e : Bytes => decide (e.length ≤ L)) e = true :=
    fun op hop e he => by simpa using hdata op hop e he
  obtain ⟨st, hrun, h1, h2, h3, h4⟩ := read_after_history_chainV c sh fill L shape grid keyOf storeEmpty G ha hb hfits
    hfill hreg hkeys hgn hgw hgs hrank ops (fun op hop => by have := hops op hop; cases op <;> exact this) hdata
  obtain ⟨hrunU, hEnc⟩ := wd_run hG hA ops hd' [] encoded_nil
  have hE := hEnc st hrun
  intro cfg
  show ∃ st, ((arrCfgOfChainV c sh fill L shape grid keyOf storeEmpty).withDec _).run [] ops = some st ∧ _
  refine ⟨st, by rw [hrunU]; exact hrun, ?_, ?_, ?_, ?_⟩
  · intro r hr hb'
    show ((arrCfgOfChainV c sh fill L shape grid keyOf storeEmpty).withDec _).retrieveArraySubset st r =
      some (AArr.read (((arrCfgOfChainV c sh fill L shape grid keyOf storeEmpty).withDec _).absRun ops) r)
    rw [wd_retrieveArraySubset hA hE, wd_absRun]
    exact h1 r hr hb'
  · intro i hi
    obtain ⟨cs, hcs, hrd⟩ := h2 i hi
    refine ⟨cs, hcs, ?_⟩
    show ((arrCfgOfChainV c sh fill L shape grid keyOf storeEmpty).withDec _).retrieveChunk st i =
      some (AArr.read (((arrCfgOfChainV c sh fill L shape grid keyOf storeEmpty).withDec _).absRun ops) cs)
    rw [wd_retrieveChunk hA hE, wd_absRun]
    exact hrd
  · intro i r hi hr hs
    obtain ⟨cs, hcs, hrd⟩ := h3 i r hi hr hs
    refine ⟨cs, hcs, ?_⟩
    show ((arrCfgOfChainV c sh fill L shape grid keyOf storeEmpty).withDec _).retrieveChunkSubset st i r =
      some (AArr.read (((arrCfgOfChainV c sh fill L shape grid keyOf storeEmpty).withDec _).absRun ops) _)
    rw [wd_retrieveChunkSubset hA hE, wd_absRun]
    exact hrd
  · intro b hb' hbi
    obtain ⟨region, hreg', hrd⟩ := h4 b hb' hbi
    refine ⟨region, hreg', ?_⟩
    show ((arrCfgOfChainV c sh fill L shape grid keyOf storeEmpty).withDec _).retrieveChunks st b =
      some (AArr.read (((arrCfgOfChainV c sh fill L shape grid keyOf storeEmpty).withDec _).absRun ops) region)
    rw [wd_retrieveChunks hA hE, wd_absRun]
    exact hrd

/-- **C04 (elision on) for variable-length arrays, real decoder** -/
theorem key_present_iff_vlen (c : ChainV) (sh : Shape) (fill : Bytes) (L : Nat) (shape : Shape) (grid : Grid)
    (keyOf : Idx → Key) (G : Shape)
    (ha : aStagesOk c.a2a sh) (hb : ∀ st ∈ c.b2b, bStageOk st) (hfits : fitsV c sh L) (hfill : fill.length ≤ L)
    (hreg : ∀ i s, (arrCfgV c sh fill shape grid keyOf false).chunkShape i = some s → s = sh)
    (hkeys : ∀ a b, keyOf a = keyOf b → a = b) (hgn : ∃ gcfg, grid = Grid.new gcfg) (hgw : grid.wf = true)
    (hgs : grid.gridShape shape = some G) (hrank : shape.length = grid.length)
    (ops : List (WriteOp Bytes))
    (hops : ∀ op ∈ ops, C01.opInBounds (arrCfgV c sh fill shape grid keyOf false) G op)
    (hdata : ∀ op ∈ ops, ∀ e ∈ opData op, e.length ≤ L) :
    let cfg := arrCfgV c sh fill shape grid keyOf false
    ∃ st, cfg.run [] ops = some st ∧
      ∀ i, inB i G = true → ∃ cs, cfg.chunkSubset i = some cs ∧
        (cfg.keyOf i ∈ st.keys ↔ ∃ j, cs.contains j = true ∧ cfg.absRun ops j ≠ cfg.fill) := by
  have hokL := okOn_chainV c sh fill L shape grid keyOf false G ha hb hfits hfill hreg hkeys hgn hgw hgs hrank
  have hG : Good (arrCfgOfChainV c sh fill L shape grid keyOf false) (goodChunkV L sh)
      (fun e => decide (e.length ≤ L)) := ⟨hokL.ofElems, hokL.decGood, hokL.fillGood⟩
  have hA := decAgree_chainV c sh fill L shape grid keyOf false ha hb hfits
  have hd' : ∀ op ∈ ops, ∀ e ∈ opData op, (fun e : Bytes => decide (e.length ≤ L)) e = true :=
    fun op hop e he => by simpa using hdata op hop e he
  obtain ⟨st, hrun, h1⟩ := key_present_iff_chainV c sh fill L shape grid keyOf G ha hb hfits
    hfill hreg hkeys hgn hgw hgs hrank ops (fun op hop => by have := hops op hop; cases op <;> exact this) hdata
  obtain ⟨hrunU, _⟩ := wd_run hG hA ops hd' [] encoded_nil
  intro cfg
  show ∃ st, ((arrCfgOfChainV c sh fill L shape grid keyOf false).withDec _).run [] ops = some st ∧ _
  refine ⟨st, by rw [hrunU]; exact hrun, ?_⟩
  intro i hi
  obtain ⟨cs, hcs, hiff⟩ := h1 i hi
  refine ⟨cs, hcs, ?_⟩
  show _ ↔ ∃ j, cs.contains j = true ∧
    ((arrCfgOfChainV c sh fill L shape grid keyOf false).withDec _).absRun ops j ≠ fill
  rw [wd_absRun]
  exact hiff

/-! ### the running examples: a 4×6 array of strings over the regular 2×3 grid (2×2 chunks), every chunk encoded by
transpose `[1, 0]` + array cache + `vlen_v2` + crc32c, unary chunk keys, elision on -/

/-- fill value `""` -/
private def exArr : ArrCfg Bytes :=
  arrCfgOfChainV exChainV2 [2, 3] [] 1000 [4, 6] (Grid.new ([2, 3].map DimCfg.fixed)) C01.exKey false
/-- fill value `"ab"` -/
private def exArrAb : ArrCfg Bytes :=
  arrCfgOfChainV exChainV2 [2, 3] [97, 98] 1000 [4, 6] (Grid.new ([2, 3].map DimCfg.fixed)) C01.exKey false

/-- the chunk `["a", "", "bc", "", "", "xyz"]`, a write straddling all four chunks (rows 1–2 × columns 2–3, with an
empty string), an all-empty chunk (elided), an erase, a partial-chunk write (read–modify–write through
`update_bytes_vlen`) -/
private def exOps : List (WriteOp Bytes) :=
  [ .storeChunk [0, 0] exChunk,
    .storeArraySubset ⟨[1, 2], [2, 2]⟩ [[80], [], [81, 82], [83, 84, 85]],
    .storeChunk [1, 0] (List.replicate 6 []),
    .eraseChunk [0, 1],
    .storeChunkSubset [1, 1] ⟨[0, 1], [2, 1]⟩ [[90, 90], [91]] ]

/-- fill `"ab"`: the chunk `["abab", "", "ab", "ab", "ab", "ab"]` — its bytes are `"ab"` six times — and an all-fill
chunk -/
private def exOpsAb : List (WriteOp Bytes) :=
  [ .storeChunk [0, 0] [[97, 98, 97, 98], [], [97, 98], [97, 98], [97, 98], [97, 98]],
    .storeChunk [0, 1] (List.replicate 6 [97, 98]),
    .storeArraySubset ⟨[1, 2], [2, 2]⟩ [[80], [], [97, 98], [83, 84, 85]] ]

private theorem exFits : fitsV exChainV2 [2, 3] 1000 := fitsV_v2 _ _ [2, 3] 1000 exA (by decide) (by decide)

/-- non-vacuity of `fitsV_vlen_plain`: transpose + cache, `zarrs.vlen` with a `uint64` big-endian index, crc32c -/
example : (⟨true, true, [], []⟩ : Vlen.Cfg).idxChain = [] ∧ (⟨true, true, [], []⟩ : Vlen.Cfg).dataChain = [] ∧
    aStagesOk [.transpose [1, 0], .cache] [2, 3] ∧
    8 + (prod (shapesOf [.transpose [1, 0], .cache] [2, 3]) + 1) * 8 +
      prod (shapesOf [.transpose [1, 0], .cache] [2, 3]) * 1000 < 2 ^ 32 :=
  ⟨rfl, rfl, exA, by decide⟩

private theorem exOps_inBounds : ∀ op ∈ exOps, C01.opInBounds exArr [2, 2] op := by
  intro op hop
  simp only [exOps, List.mem_cons, List.not_mem_nil, or_false] at hop
  rcases hop with rfl | rfl | rfl | rfl | rfl
  · exact ⟨by decide, [2, 3], by decide, by decide⟩
  · exact ⟨by decide, by decide, by decide⟩
  · exact ⟨by decide, [2, 3], by decide, by decide⟩
  · exact (by decide : inB [0, 1] [2, 2] = true)
  · exact ⟨by decide, by decide, ⟨[2, 3], by decide, by decide⟩, by decide⟩

private theorem exOpsAb_inBounds : ∀ op ∈ exOpsAb, C01.opInBounds exArrAb [2, 2] op := by
  intro op hop
  simp only [exOpsAb, List.mem_cons, List.not_mem_nil, or_false] at hop
  rcases hop with rfl | rfl | rfl
  · exact ⟨by decide, [2, 3], by decide, by decide⟩
  · exact ⟨by decide, [2, 3], by decide, by decide⟩
  · exact ⟨by decide, by decide, by decide⟩

/-- non-vacuity of `read_after_history_chainV` / `key_present_iff_chainV` / `lossless_of_chainV` / `fitsV_v2`: all
hypotheses hold of both examples -/
example : aStagesOk exChainV2.a2a [2, 3] ∧ (∀ st ∈ exChainV2.b2b, bStageOk st) ∧ fitsV exChainV2 [2, 3] 1000 ∧
    ([] : Bytes).length ≤ 1000 ∧ (∀ i s, exArr.chunkShape i = some s → s = [2, 3]) ∧
    (∀ a b, C01.exKey a = C01.exKey b → a = b) ∧ (Grid.new ([2, 3].map DimCfg.fixed)).wf = true ∧
    (Grid.new ([2, 3].map DimCfg.fixed)).gridShape [4, 6] = some [2, 2] ∧
    (∀ op ∈ exOps, C01.opInBounds exArr [2, 2] op) ∧ (∀ op ∈ exOps, ∀ e ∈ opData op, e.length ≤ 1000) ∧
    (∀ op ∈ exOpsAb, C01.opInBounds exArrAb [2, 2] op) ∧ (∀ op ∈ exOpsAb, ∀ e ∈ opData op, e.length ≤ 1000) :=
  ⟨exA, exB, exFits, by decide, fun i s h => arr_regular_chunkShape _ [2, 3] rfl i s h, C01.exKey_inj, by decide,
    by decide, exOps_inBounds, by decide, exOpsAb_inBounds, by decide⟩

/-- the conclusions on the examples, by evaluation: every chunk goes through the byte-level encoder and the full
decoder; reading the whole array back gives the abstract array -/
example : (exArr.run [] exOps).bind (fun st => exArr.retrieveArraySubset st ⟨[0, 0], [4, 6]⟩) =
    some (AArr.read (exArr.absRun exOps) ⟨[0, 0], [4, 6]⟩) := by decide +kernel
/-- a region straddling the four chunks (rows 1–3 × columns 1–4): `"QR"` written by the straddling write was
overwritten by the all-empty chunk, `""` at (1,3) by the erase -/
example : (exArr.run [] exOps).bind (fun st => exArr.retrieveArraySubset st ⟨[1, 1], [3, 4]⟩) =
    some [[], [80], [], [],  [], [], [83, 84, 85], [90, 90],  [], [], [], [91]] := by decide +kernel
/-- keys: chunk (0,0) stored, (0,1) erased, (1,0) all empty hence elided (even though part of it was written by the
straddling write before), (1,1) present -/
example : (exArr.run [] exOps).map (fun st => [[0, 0], [0, 1], [1, 0], [1, 1]].map (fun i => decide (C01.exKey i ∈ st.keys))) =
    some [true, false, false, true] := by decide +kernel
/-- fill `"ab"`: the chunk whose bytes are `"ab"` × 6 but whose elements are not all `"ab"` IS stored and reads back
element by element; the all-fill chunk (0,1) is stored only once the straddling write puts `"P"` into it -/
example : (exArrAb.run [] (exOpsAb.take 2)).map (fun st => [[0, 0], [0, 1], [1, 0], [1, 1]].map (fun i => decide (C01.exKey i ∈ st.keys))) =
    some [true, false, false, false] := by decide +kernel
example : (exArrAb.run [] exOpsAb).bind (fun st => exArrAb.retrieveArraySubset st ⟨[0, 0], [2, 4]⟩) =
    some [[97, 98, 97, 98], [], [97, 98], [97, 98], [97, 98], [97, 98], [80], []] := by decide +kernel
example : (exArrAb.run [] exOpsAb).bind (fun st => exArrAb.retrieveArraySubset st ⟨[0, 0], [4, 6]⟩) =
    some (AArr.read (exArrAb.absRun exOpsAb) ⟨[0, 0], [4, 6]⟩) := by decide +kernel

/-- the same arrays with the real decoder (`arrCfgV`): non-vacuity of `read_after_history_vlen` /
`key_present_iff_vlen` / `decAgree_chainV` (the hypotheses are those of the capped theorems, with `L = 1000` now only
a bound on the strings of the history), and the conclusions by evaluation -/
private def exArrV : ArrCfg Bytes := arrCfgV exChainV2 [2, 3] [] [4, 6] (Grid.new ([2, 3].map DimCfg.fixed)) C01.exKey false
private def exArrVAb : ArrCfg Bytes :=
  arrCfgV exChainV2 [2, 3] [97, 98] [4, 6] (Grid.new ([2, 3].map DimCfg.fixed)) C01.exKey false
example : fitsV exChainV2 [2, 3] 1000 ∧ (∀ i s, exArrV.chunkShape i = some s → s = [2, 3]) ∧
    (∀ op ∈ exOps, C01.opInBounds exArrV [2, 2] op) ∧ (∀ op ∈ exOps, ∀ e ∈ opData op, e.length ≤ 1000) ∧
    (∀ op ∈ exOpsAb, C01.opInBounds exArrVAb [2, 2] op) :=
  ⟨exFits, fun i s h => arr_regular_chunkShape _ [2, 3] rfl i s h,
    fun op hop => by have := exOps_inBounds op hop; cases op <;> exact this, by decide,
    fun op hop => by have := exOpsAb_inBounds op hop; cases op <;> exact this⟩
example : (exArrV.run [] exOps).bind (fun st => exArrV.retrieveArraySubset st ⟨[0, 0], [4, 6]⟩) =
    some (AArr.read (exArrV.absRun exOps) ⟨[0, 0], [4, 6]⟩) := by decide +kernel
example : (exArrV.run [] exOps).map (fun st => [[0, 0], [0, 1], [1, 0], [1, 1]].map (fun i => decide (C01.exKey i ∈ st.keys))) =
    some [true, false, false, true] := by decide +kernel
example : (exArrVAb.run [] exOpsAb).bind (fun st => exArrVAb.retrieveArraySubset st ⟨[0, 0], [2, 4]⟩) =
    some [[97, 98, 97, 98], [], [97, 98], [97, 98], [97, 98], [97, 98], [80], []] := by decide +kernel

end Zarrs.C01Vlen
