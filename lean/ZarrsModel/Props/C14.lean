import ZarrsModel.Model.FillMeta
import ZarrsModel.Lemmas.Json
import ZarrsModel.Lemmas.Float
import ZarrsModel.Lemmas.FillMeta
import ZarrsModel.Lemmas.ExactCodec
/-
C14 — fill values survive the metadata round trip bit-exactly.

The round trip is `bytes → toMeta → print → parse → fromMeta → bytes`.  The decimal text of a finite float is
written and read by `serde_json` (ryu and the `float_roundtrip` reader); that pair is the parameter `nc`, and
`NumCodec.Good` states what is assumed of it: reading what was written gives the same binary64 pattern back, and
what is written is a JSON number token.  `exactCodec` (exact decimal expansion, read by the correctly rounded
`Float.readF64`) is proved to satisfy `Good`, so the assumption is satisfiable inside the model; the
correspondence check compares `Float.readF64` with what `serde_json` produced for every finite float it sees.
-/
namespace Zarrs.C14
open Zarrs Zarrs.Json Zarrs.Float Zarrs.FillMeta

/-- the data types of the property: 1/2/4/8-byte integers, the four float formats, their complex pairs, raw bits,
    byte strings and strings -/
def DT.ok : DT → Prop
  | .bool => True
  | .int n => n = 1 ∨ n = 2 ∨ n = 4 ∨ n = 8
  | .uint n => n = 1 ∨ n = 2 ∨ n = 4 ∨ n = 8
  | .float f => f = f16 ∨ f = bf16 ∨ f = f32 ∨ f = f64
  | .complex f => f = f32 ∨ f = f64
  | .raw _ => True
  | .bytes => True
  | .string => True

/-- what is assumed of `serde_json`'s number writer/reader on finite binary64 patterns -/
structure NumCodec.Good (nc : NumCodec) : Prop where
  roundTrip : ∀ b, b < 2 ^ 64 → f64.isFinite b = true → nc.rd (nc.fmt b) = some b
  token : ∀ b, b < 2 ^ 64 → f64.isFinite b = true → tokOk (nc.fmt b)

/-- digits of the exact decimal expansion of a finite binary64 pattern, read back by the correctly rounded reader -/
def exactFmt (b : Nat) : List Char :=
  let (a, d) := f64.value (f64.mag b)             -- d is a power of two, 2^k: a/2^k = a*5^k / 10^k
  let k := Nat.log2 d
  (if f64.neg b then ['-'] else []) ++ natTok (a * 5 ^ k) ++ ['e', '-'] ++ natTok k
def exactCodec : NumCodec := ⟨exactFmt, readF64⟩

/-! ### JSON text -/

/-- **printing then parsing a document gives the document back** (numbers as their tokens, strings with every
escape, nested arrays and objects in order) -/
theorem json_roundtrip (j : J) (h : j.wf) : parse (print j) = some j :=
  parse_print j h
example : (J.obj [(ascii "a", .arr [.num "-12".toList, .str [34, 10, 0xC3, 0xA9], .null]), (ascii "b", .bool true)]).wf := by
  have hnum : tokOk "-12".toList :=
    NumTok.tokOk_int true ['1', '2'] ⟨by simp, by decide, by decide⟩
  have hs1 : strOk (ascii "a") := ⟨by decide, by decide⟩
  have hs2 : strOk (ascii "b") := ⟨by decide, by decide⟩
  have hs3 : strOk [34, 10, 0xC3, 0xA9] := ⟨by decide, by decide⟩
  simp only [J.wf, wfKVs, wfList, and_true]
  exact ⟨⟨hs1, ⟨hnum, hs3⟩, hs2⟩, by unfold keysDistinct; decide⟩

/-! ### floats -/

/-- **rounding a representable value is the identity**: the correctly rounded conversion returns the pattern whose
exact value it was given -/
theorem round_value (f : Fmt) (hm : 1 ≤ f.mb) (he : 2 ≤ f.eb) (m : Nat) (h : m < f.inf) :
    f.round (f.value m).1 (f.value m).2 = m :=
  Fmt.round_value f hm he m h

/-- **widening to binary64 and narrowing back is the identity** on every finite pattern of the four formats,
whichever way `half` narrows -/
theorem narrow_widen (how : Narrow) (f : Fmt) (hf : f = f16 ∨ f = bf16 ∨ f = f32 ∨ f = f64) (b : Nat)
    (hb : b < 2 ^ f.bits) (hfin : f.isFinite b = true) :
    narrow how f (convertBits f f64 b) = b :=
  FillMeta.narrow_widen how f hf b hb hfin

/-- the assumption on the number codec is satisfiable: the exact decimal expansion read by the correctly rounded
reader -/
theorem exactCodec_good : NumCodec.Good exactCodec :=
  ⟨fun b hb hfin => exactFmt'_read b hb hfin, fun b hb hfin => exactFmt'_tokOk b hb hfin⟩

/-- **every non-finite pattern round-trips through its string form, independent of the number codec**: both
infinities, the canonical NaN, and every other NaN payload and sign (as a hex string) -/
theorem float_nonfinite_roundtrip (nc : NumCodec) (how : Narrow) (f : Fmt)
    (hf : f = f16 ∨ f = bf16 ∨ f = f32 ∨ f = f64) (b : Nat) (hb : b < 2 ^ f.bits) (hnf : f.isFinite b = false) :
    metaToFloat nc how f (floatToMeta nc f b) = some b ∧ ∃ s, floatToMeta nc f b = .str s :=
  float_nonfinite nc how f hf b hb hnf

/-- **every pattern of a float format round-trips through metadata** (finite ones through the number codec) -/
theorem float_roundtrip (nc : NumCodec) (hnc : NumCodec.Good nc) (how : Narrow) (f : Fmt)
    (hf : f = f16 ∨ f = bf16 ∨ f = f32 ∨ f = f64) (b : Nat) (hb : b < 2 ^ f.bits) :
    metaToFloat nc how f (floatToMeta nc f b) = some b :=
  float_roundtrip' nc ⟨hnc.roundTrip, hnc.token⟩ how f hf b hb

/-! ### the property -/

/-- **C14, round trip**: for every data type and every fill value the metadata conversion accepts, converting to
metadata, serialising, parsing and converting back yields the identical bytes -/
theorem fill_roundtrip (nc : NumCodec) (hnc : NumCodec.Good nc) (how : Narrow) (dt : DT) (hdt : DT.ok dt)
    (bs : List Nat) (hbytes : ∀ b ∈ bs, b < 256) (j : J) (hj : toMeta nc dt bs = some j) :
    roundTrip nc how dt bs = some bs := by
  obtain ⟨hwf, hinv⟩ := toMeta_inverse nc ⟨hnc.roundTrip, hnc.token⟩ how dt (by cases dt <;> exact hdt)
    bs hbytes j hj
  simp only [roundTrip, hj, Option.bind_some, json_roundtrip j hwf, hinv]
example : toMeta exactCodec (.float f32) [0x01, 0x00, 0xC0, 0xFF] = some (.str (ascii "0xffc00001")) := by
  rfl

/-- the same without any assumption on the number codec, for the data types that never use it -/
theorem fill_roundtrip_nonfloat (nc : NumCodec) (how : Narrow) (dt : DT) (hdt : DT.ok dt)
    (hnf : ∀ f, dt ≠ .float f ∧ dt ≠ .complex f)
    (bs : List Nat) (hbytes : ∀ b ∈ bs, b < 256) (j : J) (hj : toMeta nc dt bs = some j) :
    roundTrip nc how dt bs = some bs := by
  obtain ⟨hwf, hinv⟩ := toMeta_inverse_nonfloat nc how dt (by cases dt <;> exact hdt) hnf bs hbytes j hj
  simp only [roundTrip, hj, Option.bind_some, json_roundtrip j hwf, hinv]

/-- **which fill values have a metadata form**: every byte string of the data type's size (any length for
`bytes`), except a `bool` byte other than 0/1 and a `string` that is not UTF-8 -/
theorem toMeta_defined (nc : NumCodec) (dt : DT) (hdt : DT.ok dt) (bs : List Nat) :
    (toMeta nc dt bs).isSome = true ↔
      match dt with
      | .bool => bs = [0] ∨ bs = [1]
      | .int n => bs.length = n
      | .uint n => bs.length = n
      | .float f => bs.length = f.bits / 8
      | .complex f => bs.length = 2 * (f.bits / 8)
      | .raw n => bs.length = n
      | .bytes => True
      | .string => validUtf8 bs = true := by
  cases dt with
  | bool =>
    constructor
    · intro h
      cases hj : toMeta nc .bool bs with
      | none => simp [hj] at h
      | some j => rcases toMeta_bool nc bs j hj with ⟨h1, -⟩ | ⟨h1, -⟩ <;> simp [h1]
    · rintro (rfl | rfl) <;> rfl
  | complex f => simp [toMeta]
  | _ => simp [toMeta]

/-- **C14, rejection by kind**: metadata that is accepted has the JSON kind of the data type — a boolean for
`bool`, a number for integers, a number or string for floats, a two-element array for complex numbers, an array
for raw bits and byte strings, a string for `string` — so `null`, objects and every other kind are rejected -/
theorem fromMeta_kind (nc : NumCodec) (how : Narrow) (dt : DT) (j : J) (bs : List Nat)
    (h : fromMeta nc how dt j = some bs) :
    match dt with
    | .bool => ∃ b, j = .bool b
    | .int _ => ∃ t, j = .num t
    | .uint _ => ∃ t, j = .num t
    | .float _ => (∃ t, j = .num t) ∨ (∃ s, j = .str s)
    | .complex _ => ∃ re im, j = .arr [re, im] ∧ ((∃ t, re = .num t) ∨ (∃ s, re = .str s)) ∧ ((∃ t, im = .num t) ∨ (∃ s, im = .str s))
    | .raw _ => ∃ xs, j = .arr xs ∧ ∀ x ∈ xs, ∃ t, x = .num t
    | .bytes => ∃ xs, j = .arr xs ∧ ∀ x ∈ xs, ∃ t, x = .num t
    | .string => ∃ s, j = .str s := by
  cases dt with
  | bool => cases j <;> simp [fromMeta] at h ⊢
  | int n => cases j <;> simp [fromMeta] at h ⊢
  | uint n => cases j <;> simp [fromMeta] at h ⊢
  | float f => cases j <;> simp [fromMeta, metaToFloat] at h ⊢
  | complex f => exact fromMeta_complex_kind nc how f j bs h
  | raw n =>
    simp only [fromMeta] at h
    cases hm : metaToBytes j with
    | none => simp [hm] at h
    | some bs' =>
      obtain ⟨xs, h1, h2, -⟩ := metaToBytes_some j bs' hm
      exact ⟨xs, h1, h2⟩
  | bytes =>
    obtain ⟨xs, h1, h2, -⟩ := metaToBytes_some j bs h
    exact ⟨xs, h1, h2⟩
  | string => cases j <;> simp [fromMeta] at h ⊢

/-- **C14, rejection by range**: an integer token is accepted by an `n`-byte signed type exactly when its value is
in `[-2^(8n-1), 2^(8n-1))`, and then the bytes are its two's complement form -/
theorem int_accept_iff (nc : NumCodec) (how : Narrow) (n : Nat) (hn : n = 1 ∨ n = 2 ∨ n = 4 ∨ n = 8) (i : Int) :
    (fromMeta nc how (.int n) (.num (intTok i))).isSome = true ↔ (-(2 ^ (8 * n - 1) : Int) ≤ i ∧ i < 2 ^ (8 * n - 1)) := by
  simp only [fromMeta, NumTok.asI64_intTok, bind_if_isSome]
  rcases hn with rfl | rfl | rfl | rfl <;>
    simp only [Nat.reduceMul, Nat.reduceSub, Int.reducePow, Int.reduceNeg] <;> omega
theorem uint_accept_iff (nc : NumCodec) (how : Narrow) (n : Nat) (hn : n = 1 ∨ n = 2 ∨ n = 4 ∨ n = 8) (v : Nat) :
    (fromMeta nc how (.uint n) (.num (natTok v))).isSome = true ↔ v < 2 ^ (8 * n) := by
  simp only [fromMeta, NumTok.asU64_natTok, bind_if_isSome]
  rcases hn with rfl | rfl | rfl | rfl <;>
    simp only [Nat.reducePow, Nat.reduceMul] <;> omega
/-- a negative number is never an unsigned fill value, and a number written with a fraction or exponent is never
an integer fill value -/
theorem int_rejects_float_token (nc : NumCodec) (how : Narrow) (n : Nat) (t : List Char)
    (ht : t.any (fun c => c == '.' || c == 'e' || c == 'E') = true) :
    fromMeta nc how (.int n) (.num t) = none ∧ fromMeta nc how (.uint n) (.num t) = none := by
  have h : tokIsInt t = false := by simp [tokIsInt, ht]
  simp only [fromMeta, NumTok.asI64_nonint t h, NumTok.asU64_nonint t h, Option.bind_none, and_self]
theorem uint_rejects_negative (nc : NumCodec) (how : Narrow) (n : Nat) (t : List Char) :
    fromMeta nc how (.uint n) (.num ('-' :: t)) = none := by
  simp only [fromMeta, NumTok.asU64_neg, Option.bind_none]

/-- **accepted metadata has the data type's size**, and byte arrays hold bytes -/
theorem fromMeta_size (nc : NumCodec) (how : Narrow) (dt : DT) (hdt : DT.ok dt) (j : J) (bs : List Nat)
    (h : fromMeta nc how dt j = some bs) :
    match dt with
    | .bool => bs.length = 1
    | .int n => bs.length = n
    | .uint n => bs.length = n
    | .float f => bs.length = f.bits / 8
    | .complex f => bs.length = 2 * (f.bits / 8)
    | .raw n => bs.length = n ∧ ∀ b ∈ bs, b < 256
    | .bytes => ∀ b ∈ bs, b < 256
    | .string => True := by
  have := fromMeta_size' nc how dt j bs h
  cases dt <;> exact this

/-- **hex strings**: a float accepts a string other than the three names only if it is `0x` followed by exactly
`2 * size` hexadecimal digits -/
theorem float_string_accept (nc : NumCodec) (how : Narrow) (f : Fmt) (s : Str) (b : Nat)
    (hs : s ≠ sInfinity ∧ s ≠ sNegInfinity ∧ s ≠ sNaN) (h : metaToFloat nc how f (.str s) = some b) :
    ∃ ds, s = 48 :: 120 :: ds ∧ ds.length = 2 * (f.bits / 8) ∧ ∀ d ∈ ds, (hexVal d).isSome = true :=
  float_string_accept' nc how f s b hs h

/-- **numbers beyond the range of the type are rejected** (repaired code): a JSON number is finite, so one whose
nearest value in the format is infinite is not representable; a number is accepted only with a FINITE result -/
theorem float_number_accept (nc : NumCodec) (how : Narrow) (f : Fmt) (t : List Char) (b : Nat)
    (h : metaToFloat nc how f (.num t) = some b) :
    f.isFinite b = true ∧ ∃ b64, nc.rd t = some b64 ∧ narrow how f b64 = b := by
  simp only [metaToFloat] at h
  cases hr : nc.rd t with
  | none => simp [hr] at h
  | some b64 =>
    simp only [hr, Option.bind_some] at h
    by_cases hfin : f.isFinite (narrow how f b64) = true
    · simp only [hfin, if_true, Option.some.injEq] at h
      exact ⟨h ▸ hfin, b64, rfl, h⟩
    · simp [hfin] at h

theorem float_number_overflow_rejected (nc : NumCodec) (how : Narrow) (f : Fmt) (t : List Char) (b64 : Nat)
    (hr : nc.rd t = some b64) (hover : f.isFinite (narrow how f b64) = false) :
    metaToFloat nc how f (.num t) = none := by
  simp [metaToFloat, hr, hover]

-- `1e39` is a finite binary64 beyond binary32's range: rejected for float32 (it used to read as +Infinity)
set_option exponentiation.threshold 1200 in
example : metaToFloat exactCodec .direct f32 (.num "1e39".toList) = none := by decide +kernel
set_option exponentiation.threshold 1200 in
example : metaToFloat exactCodec .direct f16 (.num "65520".toList) = none := by decide +kernel
set_option exponentiation.threshold 1200 in
example : (metaToFloat exactCodec .direct f16 (.num "65504".toList)).isSome = true := by decide +kernel

end Zarrs.C14
