import ZarrsModel.Model.WriteMapShard
import ZarrsModel.Lemmas.WriteMapShard5
set_option Elab.async false
/-
C17 on the sharded decode routes — every byte of every published buffer is written exactly once.
Property theorems only; helper lemmas live in ZarrsModel/Lemmas/WriteMapShard{,2,3,4,5}.lean; the write maps
(a) `shardDecodeMap`, (a') `decodeIntoMap`, (b) `shardPDMap`, (c) `ArrCfg.shardedSubsetMap`, (d) `ArrCfg.shardedReadMap`
and the per-request publish lists `WChain.{decodePubs, pdPubs}` are defined in ZarrsModel/Model/WriteMapShard.lean.
All statements use the executable verdict `tiles` of Model/WriteMap.lean (`C17.tiles_iff`: the multiset of written
bytes is exactly `[0, len)`).

Each theorem is followed by an `example` instantiating its hypotheses on a concrete non-trivial value: a 4×6 shard with
2×2 inner chunks, the 3×5 region `⟨[1,1],[3,5]⟩` of it (meeting 2×3 inner chunks, ragged on every side), a 5×7 array of
4×6 shards read over a region that reaches beyond the array, and two-level trees.
-/
namespace Zarrs.C17Shard
open Zarrs Zarrs.Partial

/-! ### refinement: views of views -/

/-- **tiling is preserved by refinement**: if the ranges `rs` tile `[0, len)` and every range `r` is replaced by
ranges `f r` that tile `r` (stated with `tiles` on the ranges moved to offset 0, none of them starting before `r`),
the result tiles `[0, len)`.  Applied once per nesting level this gives tiling for any depth of sharding. -/
theorem tiles_refine (len : Nat) (rs : List (Nat × Nat)) (f : Nat × Nat → List (Nat × Nat))
    (h : tiles len rs = true)
    (hf : ∀ r ∈ rs, tiles r.2 ((f r).map (fun x => (x.1 - r.1, x.2))) = true ∧ ∀ x ∈ f r, r.1 ≤ x.1) :
    tiles len (rs.flatMap f) = true :=
  tiles_refine_perm len rs f h (fun r hr => rangeBytes_of_tiles_shifted r.1 r.2 (f r) (hf r hr).1 (hf r hr).2)

/-- non-vacuity: two ranges, each split in two (out of order); a refinement with a gap is rejected by the
hypothesis -/
example : tiles 10 [(4, 6), (0, 4)] = true ∧
    (∀ r ∈ [(4, 6), (0, 4)], tiles r.2 (([(r.1 + 1, r.2 - 1), (r.1, 1)] : List (Nat × Nat)).map (fun x => (x.1 - r.1, x.2))) = true ∧
      ∀ x ∈ ([(r.1 + 1, r.2 - 1), (r.1, 1)] : List (Nat × Nat)), r.1 ≤ x.1) ∧
    tiles 10 ([(4, 6), (0, 4)].flatMap (fun r => [(r.1 + 1, r.2 - 1), (r.1, 1)])) = true ∧
    tiles 6 (([(5, 4), (4, 1)] : List (Nat × Nat)).map (fun x => (x.1 - 4, x.2))) = false := by decide

/-! ### (a) `ShardingCodec::decode` -/

/-- **(a)** for every rank, shard shape and inner chunk shape that tiles it (what `calculate_chunks_per_shard`
demands) and every element size, the inner chunk views of a whole-shard decode write every byte of the published
buffer exactly once -/
theorem shard_decode_tiles (shardShape inner : Shape) (ht : Partial.tiles inner shardShape = true) (es : Nat) :
    ∃ m, shardDecodeMap shardShape inner es = some m ∧ tiles (prod shardShape * es) m = true :=
  shardDecodeMap_tiles ht es

/-- a 4×6 shard of 2×2 inner chunks, 2-byte elements: six views of two runs each -/
example : Partial.tiles [2, 2] [4, 6] = true ∧
    shardDecodeMap [4, 6] [2, 2] 2 = some [(0, 4), (12, 4), (4, 4), (16, 4), (8, 4), (20, 4), (24, 4), (36, 4),
      (28, 4), (40, 4), (32, 4), (44, 4)] ∧
    tiles (prod [4, 6] * 2) [(0, 4), (12, 4), (4, 4), (16, 4), (8, 4), (20, 4), (24, 4), (36, 4),
      (28, 4), (40, 4), (32, 4), (44, 4)] = true := by decide

/-! ### (a') `decode_into`: views of views -/

/-- **(a')** whatever tree of sub-views `CodecChain::decode_into` / `ShardingCodec::decode_into` builds inside a view
(any nesting depth, any mixture of stored and missing inner chunks), the bytes written are exactly the bytes of the
view, each once -/
theorem decode_into_refines (out : Shape) (es : Nat) (t : IntoTree) (sh : Shape) (v : Subset) (ht : t.wf sh)
    (hv : v.wf = true) (hb : v.inboundsShape out = true) (hs : v.shape = sh) :
    ∃ m, decodeIntoMap out es t sh v = some m ∧
      (m.flatMap (fun r => List.range' r.1 r.2)).Perm ((v.byteRanges out es).flatMap (fun r => List.range' r.1 r.2)) :=
  decodeInto_refines out es t sh v ht hv hb hs

/-- a 4×6 chunk decoded into the view `⟨[1,2],[4,6]⟩` of a 6×9 buffer: 2×3 inner chunks, the first missing (one
`fill`), the others sharded again into 1×3 pieces -/
example : ∃ t : IntoTree, t.wf [4, 6] ∧ (Subset.mk [1, 2] [4, 6]).wf = true ∧
    (Subset.mk [1, 2] [4, 6]).inboundsShape [6, 9] = true ∧
    decodeIntoMap [6, 9] 1 t [4, 6] ⟨[1, 2], [4, 6]⟩ =
      some [(11, 3), (20, 3), (14, 3), (23, 3), (29, 3), (38, 3), (32, 3), (41, 3)] :=
  ⟨.shard [2, 3] (fun k => if k == 0 then .fill else .shard [1, 3] (fun _ => .leaf)),
    ⟨by decide, fun k _ => by
      by_cases h : k = 0
      · subst h; exact trivial
      · simp only [beq_iff_eq, h, if_false]; exact ⟨by decide, fun _ _ => trivial⟩⟩,
    by decide, by decide, by decide⟩

/-- the tree of a fitting codec chain is well-formed whatever is stored: `decode_into_refines`, hence
`sharded_read_tiles`, applies to every chain and every store content -/
theorem chain_tree_wf (c : WChain) (sh : Shape) (pres : Presence) (hc : c.wf sh) : (c.intoTree pres).wf sh :=
  intoTree_wf c sh pres hc

example : (WChain.shard [] [2, 3] (.shard [] [1, 3] (.leaf []))).wf [4, 6] :=
  ⟨trivial, by decide, trivial, by decide, trivial⟩

/-! ### (b) `ShardingPartialDecoder::partial_decode` -/

/-- **(b)** for every rank, shard and inner shapes that tile, every in-bounds region and element size, the views
`overlap relative to the region` of one region write every byte of the region's buffer exactly once -/
theorem shard_pd_tiles (shardShape inner : Shape) (ht : Partial.tiles inner shardShape = true) (r : Subset)
    (hr : r.wf = true) (hb : r.inboundsShape shardShape = true) (es : Nat) :
    ∃ m, shardPDMap (zipDiv shardShape inner) inner r es = some m ∧ tiles (r.numElements * es) m = true :=
  shardPDMap_tiles ht r hr hb es

/-- the 3×5 region `⟨[1,1],[3,5]⟩` over the 2×2 inner chunks of a 4×6 shard: six views (1×1, 1×2, 1×2, 2×1, 2×2,
2×2), nine runs -/
example : Partial.tiles [2, 2] [4, 6] = true ∧ (Subset.mk [1, 1] [3, 5]).wf = true ∧
    (Subset.mk [1, 1] [3, 5]).inboundsShape [4, 6] = true ∧
    shardPDMap (zipDiv [4, 6] [2, 2]) [2, 2] ⟨[1, 1], [3, 5]⟩ 2 =
      some [(0, 2), (2, 4), (6, 4), (10, 2), (20, 2), (12, 4), (22, 4), (16, 4), (26, 4)] ∧
    tiles ((Subset.mk [1, 1] [3, 5]).numElements * 2)
      [(0, 2), (2, 4), (6, 4), (10, 2), (20, 2), (12, 4), (22, 4), (16, 4), (26, 4)] = true := by decide

/-- the views alone tile for ANY well-formed region of the right rank (the index lookup of `shardPDMap` is what
needs the region to lie in the shard) -/
theorem shard_pd_views_tile (inner : Shape) (hpos : ∀ k ∈ inner, 0 < k) (r : Subset) (hr : r.wf = true)
    (hrank : inner.length = r.rank) (es : Nat) :
    tiles (r.numElements * es) ((shardPDViews inner r).flatMap (fun v => v.byteRanges r.shape es)) = true :=
  (tiles_iff_perm _ _).mpr (shardPD_perm inner r hr hpos hrank es)

example : (∀ k ∈ [2, 2], 0 < k) ∧ (Subset.mk [3, 5] [4, 3]).wf = true ∧ [2, 2].length = (Subset.mk [3, 5] [4, 3]).rank := by
  decide

/-! ### `shardRegion` writes through the views of (b) -/

/-- **one step of the model decoder writes only its own view**: after `shardStep` for the item `p` of the chunk
iterator, the positions of the view `overlap(region, chunk) relative to the region` hold the decoded piece and every
other position of the region's buffer is unchanged.  (`hparts`: the inner decoder answers a region with as many
elements as the region has — the byte-length test of `copy_from_slice` in the element model.) -/
theorem shardStep_writes_only_its_view (fixed : Option Nat) (es : Nat) (fill : Elem) (inner cps : Shape)
    (entries : List (Nat × Nat)) (innerPD : Shape → Elem → BHandle → AHandle) (h : BHandle) (r : Subset)
    (hr : r.wf = true) (hpos : ∀ k ∈ inner, 0 < k) (hrank : inner.length = r.rank)
    (hparts : ∀ e ov cs part, shardPart fixed fill inner innerPD h e ov cs = some part → part.length = ov.numElements)
    (p : Idx × Subset) (hp : p ∈ r.chunks inner) (out out' : List Elem) (hout : out.length = prod r.shape)
    (hs : shardStep fixed es fill inner cps entries innerPD h r out p = some out') :
    out'.length = prod r.shape ∧ ∀ j, inB j r.shape = true → out'[ravel j r.shape]? =
      if (pdView r p).contains j = true then pdWritten fixed fill inner cps entries innerPD h r p j
      else out[ravel j r.shape]? :=
  shardStep_frame fixed es fill inner cps entries innerPD h r hr hpos hrank hparts p hp out out' hout hs

/-- **`shardRegion_writes_only_its_views`**: the buffer returned by the model decoder `shardRegion`
(Model/ShardPD.lean) has the region's length, and every index of it lies in the view of exactly one item of the chunk
iterator — the views whose byte ranges are `shardPDMap` — and holds the element that item's `copy_from_slice` wrote
there: no position is written through two views, none keeps the initial zero, none is overwritten later.
With `C17.view_writes_region` (element `k` of a view ↔ bytes `[k·es, (k+1)·es)`) this is the byte statement. -/
theorem shardRegion_writes_only_its_views (fixed : Option Nat) (es : Nat) (fill : Elem) (inner cps : Shape)
    (entries : List (Nat × Nat)) (innerPD : Shape → Elem → BHandle → AHandle) (h : BHandle) (r : Subset)
    (hr : r.wf = true) (hpos : ∀ k ∈ inner, 0 < k) (hrank : inner.length = r.rank)
    (hparts : ∀ e ov cs part, shardPart fixed fill inner innerPD h e ov cs = some part → part.length = ov.numElements)
    (out : List Elem) (hs : shardRegion fixed es fill inner cps entries innerPD h r = some out) :
    out.length = r.numElements ∧ ∀ j, inB j r.shape = true →
      ∃ p ∈ r.chunks inner, (pdView r p).contains j = true ∧
        (∀ q ∈ r.chunks inner, (pdView r q).contains j = true → q = p) ∧
        out[ravel j r.shape]? = pdWritten fixed fill inner cps entries innerPD h r p j :=
  shardRegion_frame fixed es fill inner cps entries innerPD h r hr hpos hrank hparts out hs

/-- non-vacuity: a shard of 2×3 inner chunks of shape 2×2, all missing (sentinel entries), the 3×5 region: the
decoder succeeds, `hparts` holds (a sentinel entry yields `numElements` fill elements; the inner decoder is never
asked), the result is all fill -/
example : ∃ (entries : List (Nat × Nat)) (innerPD : Shape → Elem → BHandle → AHandle) (h : BHandle),
    (Subset.mk [1, 1] [3, 5]).wf = true ∧ (∀ k ∈ [2, 2], 0 < k) ∧
    (∀ e ov cs part, shardPart none [7] [2, 2] innerPD h e ov cs = some part → part.length = ov.numElements) ∧
    shardRegion none 1 [7] [2, 2] [2, 3] entries innerPD h ⟨[1, 1], [3, 5]⟩ = some (List.replicate 15 [7]) :=
  ⟨List.replicate 6 (Shard.sentinel, Shard.sentinel), fun _ _ _ _ => some [], fun _ => none, by decide, by decide,
    by
      intro e ov cs part hp
      simp only [shardPart] at hp
      split at hp
      · simp only [Option.some.injEq] at hp; subst hp; simp
      · split at hp
        · cases hp
        · simp at hp,
    by decide⟩

/-! ### (c) `retrieve_array_subset_sharded_opt` -/

/-- **(c)** on a regular chunk grid (the grid of every sharded array read through the sharded extension), for EVERY
well-formed non-empty region of the grid's rank — inside the array, reaching beyond it at a ragged edge as the regions
`retrieve_inner_chunks_opt` builds do, or beyond it altogether — and every element size, the per-shard views of the
output tile it: the code never compares the region with the array shape, and neither does the theorem -/
theorem sharded_subset_tiles {α} (cfg : ArrCfg α) (cs : Shape) (hg : cfg.grid = Grid.regular cs)
    (hpos : ∀ k ∈ cs, 0 < k) (region : Subset) (hr : region.wf = true) (hrank : region.rank = cs.length)
    (hne : region.isEmpty = false) (es : Nat) :
    ∃ m, cfg.shardedSubsetMap region es = some m ∧ tiles (region.numElements * es) m = true := by
  obtain ⟨box, hbox, hchunk, hperm⟩ := regular_pieces cs hpos region hr hrank hne cfg.shape es
  rw [← hg] at hbox hchunk hperm
  refine ⟨_, writeMap_eq_pieces cfg region es box hbox
    (fun c hc => (hchunk c hc).elim fun cs' h => ⟨cs', h.elim fun _ h => h.1⟩), (tiles_iff_perm _ _).mpr hperm⟩

/-- a 5×7 array of 4×6 shards with 2×2 inner chunks: the inner chunks `[1..3) × [2..4)` are the elements
`[2..6) × [4..8)`, a region that overhangs the 5×7 array in both dimensions and meets all four shards -/
example : ∃ (cfg : ArrCfg Nat), cfg.shape = [5, 7] ∧ cfg.grid = Grid.regular [4, 6] ∧ (∀ k ∈ [4, 6], 0 < k) ∧
    (Subset.mk [2, 4] [4, 4]).wf = true ∧ (Subset.mk [2, 4] [4, 4]).isEmpty = false ∧
    (Subset.mk [2, 4] [4, 4]).inboundsShape cfg.shape = false ∧
    cfg.shardedSubsetMap ⟨[2, 4], [4, 4]⟩ 1 = some [(0, 2), (4, 2), (2, 2), (6, 2), (8, 2), (12, 2), (10, 2), (14, 2)] ∧
    tiles 16 [(0, 2), (4, 2), (2, 2), (6, 2), (8, 2), (12, 2), (10, 2), (14, 2)] = true :=
  ⟨⟨[5, 7], Grid.regular [4, 6], 0, fun _ => [], fun _ => [], fun _ => none, false⟩, by decide⟩

/-! ### (d) `retrieve_array_subset_opt`, multi-chunk, views of views -/

/-- **(d)** for every grid built from a configuration, compatible array shape, in-bounds non-empty region, element
size and every assignment of well-formed `decode_into` trees to the chunks (any chain, any nesting depth, any store
content), the leaf writes of the multi-chunk read tile the output -/
theorem sharded_read_tiles {α} (cfg : ArrCfg α) (gcfg : List DimCfg) (G : Shape) (hg : cfg.grid = Grid.new gcfg)
    (hwf : cfg.grid.wf = true) (hG : cfg.grid.gridShape cfg.shape = some G) (hlen : cfg.shape.length = gcfg.length)
    (region : Subset) (hr : region.wf = true) (hb : region.inboundsShape cfg.shape = true)
    (hne : region.isEmpty = false) (es : Nat) (tree : Idx → IntoTree)
    (htree : ∀ c cs, cfg.grid.subset c = some cs → (tree c).wf cs.shape) :
    ∃ m, cfg.shardedReadMap tree region es = some m ∧ tiles (region.numElements * es) m = true := by
  rw [hg] at hwf hG
  obtain ⟨box, hbox, hchunk, hperm⟩ := pieces_facts gcfg cfg.shape G hwf hG hlen region hr hb hne es
  rw [← hg] at hbox hchunk hperm
  obtain ⟨m, hm, hp⟩ := shardedReadMap_of_pieces cfg tree region hr es box hbox hchunk htree
  exact ⟨m, hm, (tiles_iff_perm _ _).mpr (hp.trans hperm)⟩

/-- the same on a regular grid for every non-empty region of the grid's rank, in bounds or not -/
theorem sharded_read_tiles_regular {α} (cfg : ArrCfg α) (cs : Shape) (hg : cfg.grid = Grid.regular cs)
    (hpos : ∀ k ∈ cs, 0 < k) (region : Subset) (hr : region.wf = true) (hrank : region.rank = cs.length)
    (hne : region.isEmpty = false) (es : Nat) (tree : Idx → IntoTree)
    (htree : ∀ c cs', cfg.grid.subset c = some cs' → (tree c).wf cs'.shape) :
    ∃ m, cfg.shardedReadMap tree region es = some m ∧ tiles (region.numElements * es) m = true := by
  obtain ⟨box, hbox, hchunk, hperm⟩ := regular_pieces cs hpos region hr hrank hne cfg.shape es
  rw [← hg] at hbox hchunk hperm
  obtain ⟨m, hm, hp⟩ := shardedReadMap_of_pieces cfg tree region hr es box hbox hchunk htree
  exact ⟨m, hm, (tiles_iff_perm _ _).mpr (hp.trans hperm)⟩

/-- an 8×12 array of 4×6 shards, every shard sharded into 2×2 inner chunks, those with an odd index sharded again
into 1×2 pieces, the others missing: the whole-array read issues 48 leaf ranges that tile the 96 bytes -/
example : ∃ (cfg : ArrCfg Nat) (tree : Idx → IntoTree), cfg.grid = Grid.regular [4, 6] ∧ (∀ k ∈ [4, 6], 0 < k) ∧
    (Subset.mk [0, 0] [8, 12]).wf = true ∧ (Subset.mk [0, 0] [8, 12]).isEmpty = false ∧
    (∀ c cs', cfg.grid.subset c = some cs' → (tree c).wf cs'.shape) ∧
    ((cfg.shardedReadMap tree ⟨[0, 0], [8, 12]⟩ 1).map (fun m => (m.length, tiles 96 m))) = some (48, true) :=
  ⟨⟨[8, 12], Grid.regular [4, 6], 0, fun _ => [], fun _ => [], fun _ => none, false⟩,
    fun c => match c with
      | [_, _] => .shard [2, 2] (fun k => if k % 2 == 0 then .fill else .shard [1, 2] (fun _ => .leaf))
      | _ => .fill,
    rfl, by decide, by decide, by decide,
    by
      intro c cs' hcs
      match c with
      | [] => exact trivial
      | [_] => exact trivial
      | _ :: _ :: _ :: _ => exact trivial
      | [a, b] =>
        simp [Grid.subset, Grid.regular, Grid.chunkOrigin, Grid.chunkShape, zipOpt, Dim.origin, Dim.chunkShape] at hcs
        subst hcs
        refine ⟨show Partial.tiles [2, 2] [4, 6] = true by decide, fun k _ => ?_⟩
        by_cases h : k % 2 = 0
        · simp only [beq_iff_eq, h, if_true]; exact trivial
        · simp only [beq_iff_eq, h, if_false]; exact ⟨by decide, fun _ _ => trivial⟩,
    by decide⟩

/-! ### every published buffer of a request, any nesting depth -/

/-- **whole-chunk decode**: for every chain that fits the chunk shape (array-to-array codecs accepted, inner shapes
tile at every sharding level — any depth) and whatever is stored, `CodecChain::decode` succeeds in the map model and
every buffer it publishes (one per stored shard at every level) is tiled -/
theorem decode_pubs_tile (es : Nat) (c : WChain) (sh : Shape) (pres : Presence) (hc : c.wf sh) :
    ∃ pubs, c.decodePubs es sh pres = some pubs ∧ ∀ pub ∈ pubs, tiles pub.1 pub.2 = true :=
  decodePubs_tile es c sh pres hc

/-- **decode into a view** (`retrieve_chunk_into` on a stored chunk): the buffers published on the way (full decodes
behind array-to-array codecs, at any level) are tiled; the writes into the caller's view are `decode_into_refines` -/
theorem decode_into_pubs_tile (es : Nat) (c : WChain) (sh : Shape) (pres : Presence) (hc : c.wf sh) :
    ∃ pubs, c.decodeIntoPubs es sh pres = some pubs ∧ ∀ pub ∈ pubs, tiles pub.1 pub.2 = true :=
  decodeIntoPubs_tile es c sh pres hc

/-- a 4×6 chunk of 2×3 inner chunks whose inner chain transposes (to 3×2) and shards again into 3×1 pieces: decoding
into a view publishes one 6-byte buffer per stored inner chunk -/
example : ∃ (c : WChain) (pres : Presence), c.wf [4, 6] ∧
    c.decodeIntoPubs 1 [4, 6] pres = some [(6, [(0, 1), (2, 1), (4, 1), (1, 1), (3, 1), (5, 1)]),
      (6, [(0, 1), (2, 1), (4, 1), (1, 1), (3, 1), (5, 1)])] :=
  ⟨.shard [] [2, 3] (.shard [.transpose [1, 0]] [3, 1] (.leaf [])),
    .stored (fun k => if k % 2 == 0 then .stored (fun _ => .stored (fun _ => .missing)) else .missing),
    ⟨trivial, by decide, ⟨by show Codec.validOrder [1, 0] 2 = true; decide, trivial⟩, by decide, trivial⟩,
    by decide⟩

/-- **partial decode**: the same for `partial_decode` of any in-bounds region through the chain's partial decoder
(transposed / squeezed regions included): every buffer published by the (nested) sharding partial decoders is tiled -/
theorem pd_pubs_tile (es : Nat) (c : WChain) (sh : Shape) (pres : Presence) (r : Subset) (hc : c.wf sh)
    (hr : r.wf = true) (hb : r.inboundsShape sh = true) :
    ∃ pubs, c.pdPubs es sh pres r = some pubs ∧ ∀ pub ∈ pubs, tiles pub.1 pub.2 = true :=
  pdPubs_tile es c sh pres r hc hr hb

/-- a 6×4 chunk, transposed to 4×6, sharded into 2×3 inner chunks that are sharded again into 1×3 pieces; the inner
chunks with an even index are stored: the region `⟨[1,0],[4,3]⟩` (transposed: `⟨[0,1],[3,4]⟩`) publishes the nested
buffers of the stored inner chunks it meets and then its own -/
example : ∃ (c : WChain) (pres : Presence), c.wf [6, 4] ∧ (Subset.mk [1, 0] [4, 3]).wf = true ∧
    (Subset.mk [1, 0] [4, 3]).inboundsShape [6, 4] = true ∧
    c.pdPubs 1 [6, 4] pres ⟨[1, 0], [4, 3]⟩ =
      some [(4, [(0, 2), (2, 2)]), (2, [(0, 2)]), (12, [(0, 2), (4, 2), (2, 2), (6, 2), (8, 2), (10, 2)])] :=
  ⟨.shard [.transpose [1, 0]] [2, 3] (.shard [] [1, 3] (.leaf [])),
    .stored (fun k => if k % 2 == 0 then .stored (fun _ => .stored (fun _ => .missing)) else .missing),
    ⟨⟨by show Codec.validOrder [1, 0] 2 = true; decide, trivial⟩, by decide, trivial, by decide, trivial⟩,
    by decide, by decide, by decide⟩

end Zarrs.C17Shard
