import ZarrsModel.Props.C12Deflate
import ZarrsModel.Lemmas.GzipMulti
set_option Elab.async false
/-
C12, read direction, gzip FILES (RFC 1952 §2.2): "A gzip file consists of a series of members (compressed data sets).
… The members simply appear one after another in the file, with no additional information before, between, or after
them."  The reference readers (Python's `gzip` module, hence numcodecs' `GZip`; gzip(1)) return the concatenation of the
members' data, so a conformant writer may store a chunk as several members (e.g. one per appended piece).

`Zarrs.Inflate.gunzipMember` reads one member and returns what follows it; `Zarrs.Inflate.gunzipAll` reads the whole
file.  The theorems: every file of one or more members written by the specification writer (`DeflateSpec.gzipFile`: any
header fields, any conformant DEFLATE stream per member, members with empty data included) is read to the concatenation
of the data; the old one-member reader `gunzip` is the first-member reader and agrees with `gunzipAll` on one member;
anything non-empty after the last member that is not itself a sequence of members makes the file invalid.

The Rust side (`zarrs/src/array/codec/bytes_to_bytes/gzip/gzip_codec.rs`, `GzipCodec::decode`:
`flate2::bufread::GzDecoder`, the ONE-member decoder) is tied to `gunzipAll` by the `c12 zinflate kind=gzip` lines of
`Driver/C12Deflate.lean`, about a fifth of which are files of 2–4 members.
-/
namespace Zarrs.C12
open Zarrs Zarrs.Inflate Zarrs.DeflateSpec

/-- **the old reader is the first-member reader**: `gunzip` accepts exactly when `gunzipMember` does, returns the same
    data, and ignores what follows the trailer -/
theorem gunzip_eq_gunzipMember (bs : Bytes) : gunzip bs = (gunzipMember bs).map (·.1) := gunzip_eq_map bs

example : gunzipMember (gzipWith deflateStored true [5, 6] ++ [9, 9, 9]) = some ([5, 6], [9, 9, 9]) ∧
    gunzip (gzipWith deflateStored true [5, 6] ++ [9, 9, 9]) = some [5, 6] ∧
    gunzipMember [0x1f, 0x8b, 8] = none ∧ gunzip [0x1f, 0x8b, 8] = none := by decide +kernel

/-- **one member written by the specification, followed by ANYTHING**: the member's data and exactly the bytes after
    its trailer (hypotheses as in `gunzip_stream`) -/
theorem gunzipMember_stream (h : GzHeader) (hh : h.ok = true) (bl : List Block) (fill : Bits)
    (stream data rest : Bytes) (he : encodeStream bl fill = some stream) (hr : renderBlocks bl [] = some data) :
    gunzipMember (gzipMember h stream data ++ rest) = some (data, rest) :=
  gunzipMember_gzipMember h hh stream data rest (fun rest => inflate_encodeStream bl fill stream data rest he hr)
    (encodeStream_data_wf bl fill stream data he hr)

example : gunzipMember (gzipMember exGzHeader
    [29, 192, 1, 9, 0, 0, 0, 128, 160, 173, 254, 63, 17, 164, 5] [97, 97, 97, 97, 97, 97] ++ [0x1f, 0x8b, 7]) =
    some ([97, 97, 97, 97, 97, 97], [0x1f, 0x8b, 7]) :=
  gunzipMember_stream _ (by decide) [.dynamic exHeader [.lit 97, .copy 5 1]] [] _ _ _ (by decide +kernel)
    (by decide +kernel)

/-- an accepted member is at least 18 bytes long (10 of header, 8 of trailer): `gunzipAll` always makes progress, its
    fuel is never the reason for a rejection -/
theorem gunzipMember_progress (bs data rest : Bytes) (h : gunzipMember bs = some (data, rest)) :
    rest.length + 18 ≤ bs.length := gunzipMember_length bs data rest h

/-- **what `gunzipAll` is**, without fuel: the first member, and — when anything follows — the rest of the file read
    the same way; an input that does not start with a member (the empty input included) is rejected -/
theorem gunzipAll_unfold (bs : Bytes) :
    gunzipAll bs = match gunzipMember bs with
      | none => none
      | some (data, rest) => if rest.isEmpty then some data else (gunzipAll rest).map (data ++ ·) := by
  cases hm : gunzipMember bs with
  | none => exact gunzipAll_none bs hm
  | some p => exact gunzipAll_step bs p.1 p.2 hm

example : gunzipAll [] = none := by decide

/-- **THE theorem: a file of one or more members written by the specification is read to the concatenation of the
    members' data.**  `ms`: any NON-EMPTY list of (header, stream, data); every header any combination of the optional
    fields, every stream ANY conformant DEFLATE encoding (`encodeStream` of blocks rendering to the data) — members with
    empty data included. -/
theorem gunzipAll_members (ms : List (GzHeader × Bytes × Bytes)) (hne : ms ≠ [])
    (hms : ∀ m ∈ ms, m.1.ok = true ∧
      ∃ bl fill, encodeStream bl fill = some m.2.1 ∧ renderBlocks bl [] = some m.2.2) :
    gunzipAll (gzipFile ms) = some (ms.map (fun m => m.2.2)).flatten :=
  gunzipAll_gzipFile ms hne hms

/-- **on one member `gunzipAll` and the old reader `gunzip` agree** -/
theorem gunzipAll_single (h : GzHeader) (hh : h.ok = true) (bl : List Block) (fill : Bits) (stream data : Bytes)
    (he : encodeStream bl fill = some stream) (hr : renderBlocks bl [] = some data) :
    gunzipAll (gzipMember h stream data) = gunzip (gzipMember h stream data) ∧
    gunzipAll (gzipMember h stream data) = some data := by
  have h1 := gunzipAll_members [(h, stream, data)] (by simp)
    (by intro m hm; simp only [List.mem_singleton] at hm; subst hm; exact ⟨hh, bl, fill, he, hr⟩)
  simp only [gzipFile, List.append_nil, List.map_cons, List.map_nil, List.flatten_cons, List.flatten_nil] at h1
  exact ⟨by rw [h1, gunzip_stream h hh bl fill stream data he hr], h1⟩

/-- the same for ANY input that is exactly one accepted member (written by whomever) -/
theorem gunzipAll_one_member (bs data : Bytes) (h : gunzipMember bs = some (data, [])) :
    gunzipAll bs = some data ∧ gunzip bs = some data := by
  refine ⟨?_, ?_⟩
  · rw [gunzipAll_step bs data [] h]; rfl
  · rw [gunzip_eq_map, h]; rfl

/-- and `gunzip` is always the data of the FIRST member of what `gunzipAll` accepts: when `gunzipAll` accepts, `gunzip`
    accepts too and returns a prefix of the file's data (it silently drops the later members) -/
theorem gunzip_prefix_of_gunzipAll (bs all : Bytes) (h : gunzipAll bs = some all) :
    ∃ first more, gunzip bs = some first ∧ all = first ++ more := by
  rw [gunzipAll_unfold] at h
  cases hm : gunzipMember bs with
  | none => simp [hm] at h
  | some p =>
    obtain ⟨data, rest⟩ := p
    simp only [hm] at h
    refine ⟨data, all.drop data.length, by rw [gunzip_eq_map, hm]; rfl, ?_⟩
    split at h
    · simp only [Option.some.injEq] at h; subst h; simp
    · cases hr : gunzipAll rest with
      | none => simp [hr] at h
      | some more =>
        simp only [hr, Option.map_some, Option.some.injEq] at h
        subst h
        simp

/-- **a written file followed by anything non-empty**: the members are read, and the outcome is decided by what
    follows them (`ms = []` allowed) -/
theorem gunzipAll_then (ms : List (GzHeader × Bytes × Bytes))
    (hms : ∀ m ∈ ms, m.1.ok = true ∧
      ∃ bl fill, encodeStream bl fill = some m.2.1 ∧ renderBlocks bl [] = some m.2.2)
    (g : Bytes) (hg : g ≠ []) :
    gunzipAll (gzipFile ms ++ g) = (gunzipAll g).map ((ms.map (fun m => m.2.2)).flatten ++ ·) :=
  gunzipAll_gzipFile_append ms hms g hg

/-- **trailing garbage is rejected**, general case: a written file followed by a non-empty `g` that does not start
    with a member ("no additional information … after them") -/
theorem gunzipAll_rejects_trailing (ms : List (GzHeader × Bytes × Bytes))
    (hms : ∀ m ∈ ms, m.1.ok = true ∧
      ∃ bl fill, encodeStream bl fill = some m.2.1 ∧ renderBlocks bl [] = some m.2.2)
    (g : Bytes) (hg : g ≠ []) (hn : gunzipMember g = none) : gunzipAll (gzipFile ms ++ g) = none := by
  rw [gunzipAll_then ms hms g hg, gunzipAll_none g hn]
  rfl

/-- in particular bytes whose first is not the magic 0x1f (zero padding included: the reference reader of Python skips
    zero bytes after a member, RFC 1952 has no such allowance and neither has this reader) -/
theorem gunzipAll_rejects_trailing_garbage (ms : List (GzHeader × Bytes × Bytes))
    (hms : ∀ m ∈ ms, m.1.ok = true ∧
      ∃ bl fill, encodeStream bl fill = some m.2.1 ∧ renderBlocks bl [] = some m.2.2)
    (b : Nat) (g : Bytes) (hb : b ≠ 0x1f) : gunzipAll (gzipFile ms ++ b :: g) = none := by
  refine gunzipAll_rejects_trailing ms hms (b :: g) (by simp) ?_
  unfold gunzipMember
  split
  · rename_i heq
    simp only [List.cons.injEq] at heq
    exact absurd heq.1 hb
  · rfl

/-! ### non-vacuity -/

/-- FEXTRA and FNAME -/
def exHdrA : GzHeader := { extra := some [1, 2, 3], name := some [65, 66] }
/-- an empty FCOMMENT, another OS byte -/
def exHdrB : GzHeader := { comment := some [], os := 3 }

/-- three members: (FEXTRA + FNAME, one fixed block with an overlapping copy), (an EMPTY member: one stored block of
    no bytes, non-zero padding bits), (every header field, the dynamic block of `Props/C12Deflate.lean`) -/
def exFile : List (GzHeader × Bytes × Bytes) :=
  [(exHdrA, [99, 60, 1, 130, 0], [1, 200, 1, 200, 1, 200]),
   (exHdrB, [41, 0, 0, 255, 255], []),
   (exGzHeader, [29, 192, 1, 9, 0, 0, 0, 128, 160, 173, 254, 63, 17, 164, 5], [97, 97, 97, 97, 97, 97])]

theorem exFile_conformant : ∀ m ∈ exFile, m.1.ok = true ∧
    ∃ bl fill, encodeStream bl fill = some m.2.1 ∧ renderBlocks bl [] = some m.2.2 := by
  intro m hm
  simp only [exFile, List.mem_cons, List.not_mem_nil, or_false] at hm
  rcases hm with rfl | rfl | rfl
  · exact ⟨by decide, [.fixed [.lit 1, .lit 200, .copy 4 2]], [], by decide +kernel, by decide +kernel⟩
  · exact ⟨by decide, [.stored [true, false, true] []], [], by decide +kernel, by decide +kernel⟩
  · exact ⟨by decide, [.dynamic exHeader [.lit 97, .copy 5 1]], [], by decide +kernel, by decide +kernel⟩

/-- by the theorem -/
example : gunzipAll (gzipFile exFile) = some [1, 200, 1, 200, 1, 200, 97, 97, 97, 97, 97, 97] :=
  gunzipAll_members exFile (by decide) exFile_conformant

/-- the same file as bytes, by evaluation: the whole-file reader returns all twelve bytes, the one-member reader only
    the first six -/
example : gunzipAll
    [31, 139, 8, 12, 0, 0, 0, 0, 0, 255, 3, 0, 1, 2, 3, 65, 66, 0, 99, 60, 1, 130, 0, 66, 10, 95, 8, 6, 0, 0, 0,
     31, 139, 8, 16, 0, 0, 0, 0, 0, 3, 0, 41, 0, 0, 255, 255, 0, 0, 0, 0, 0, 0, 0, 0,
     31, 139, 8, 31, 1, 2, 3, 4, 2, 3, 3, 0, 1, 2, 3, 65, 0, 66, 67, 0, 1, 2,
     29, 192, 1, 9, 0, 0, 0, 128, 160, 173, 254, 63, 17, 164, 5, 248, 25, 228, 90, 6, 0, 0, 0] =
      some [1, 200, 1, 200, 1, 200, 97, 97, 97, 97, 97, 97] ∧
    gunzip (gzipFile exFile) = some [1, 200, 1, 200, 1, 200] := by decide +kernel

example : gzipFile exFile =
    [31, 139, 8, 12, 0, 0, 0, 0, 0, 255, 3, 0, 1, 2, 3, 65, 66, 0, 99, 60, 1, 130, 0, 66, 10, 95, 8, 6, 0, 0, 0,
     31, 139, 8, 16, 0, 0, 0, 0, 0, 3, 0, 41, 0, 0, 255, 255, 0, 0, 0, 0, 0, 0, 0, 0,
     31, 139, 8, 31, 1, 2, 3, 4, 2, 3, 3, 0, 1, 2, 3, 65, 0, 66, 67, 0, 1, 2,
     29, 192, 1, 9, 0, 0, 0, 128, 160, 173, 254, 63, 17, 164, 5, 248, 25, 228, 90, 6, 0, 0, 0] := by decide +kernel

/-- one member: both readers -/
example : gunzipAll (gzipMember exHdrA [99, 60, 1, 130, 0] [1, 200, 1, 200, 1, 200]) =
      gunzip (gzipMember exHdrA [99, 60, 1, 130, 0] [1, 200, 1, 200, 1, 200]) ∧
    gunzipAll (gzipMember exHdrA [99, 60, 1, 130, 0] [1, 200, 1, 200, 1, 200]) = some [1, 200, 1, 200, 1, 200] :=
  gunzipAll_single exHdrA (by decide) [.fixed [.lit 1, .lit 200, .copy 4 2]] [] _ _ (by decide +kernel)
    (by decide +kernel)

/-- garbage after a valid file: rejected, by the theorem and by evaluation; the one-member reader does not notice -/
example : gunzipAll (gzipFile exFile ++ [0x55, 1, 2]) = none :=
  gunzipAll_rejects_trailing_garbage exFile exFile_conformant 0x55 [1, 2] (by decide)
example : gunzipAll (gzipFile exFile ++ [0x55, 1, 2]) = none ∧ gunzipAll (gzipFile exFile ++ [0]) = none ∧
    gunzip (gzipFile exFile ++ [0x55, 1, 2]) = some [1, 200, 1, 200, 1, 200] := by decide +kernel
/-- garbage that starts like a member (magic and CM) but is cut short -/
example : gunzipAll (gzipFile exFile ++ [0x1f, 0x8b, 8, 0]) = none :=
  gunzipAll_rejects_trailing exFile exFile_conformant _ (by decide) (by decide)
/-- a damaged later member (one bit of the CRC-32 of the third) invalidates the whole file -/
example : gunzipAll ((gzipFile exFile).set 93 249) = none ∧
    gunzip ((gzipFile exFile).set 93 249) = some [1, 200, 1, 200, 1, 200] := by decide +kernel
/-- two files one after the other are a file -/
example : gunzipAll (gzipFile exFile ++ gzipFile exFile) =
    some ([1, 200, 1, 200, 1, 200, 97, 97, 97, 97, 97, 97] ++ [1, 200, 1, 200, 1, 200, 97, 97, 97, 97, 97, 97]) := by
  rw [gunzipAll_then exFile exFile_conformant _ (by decide +kernel),
    gunzipAll_members exFile (by decide) exFile_conformant]
  rfl

end Zarrs.C12
