import ZarrsModel.Model.Lossy
import ZarrsModel.Lemmas.Lossy
set_option Elab.async false
/- C03, continued: the value a lossy codec's definition prescribes (`bitround`) -/
namespace Zarrs.C03
open Zarrs Zarrs.Lossy

/-- **the rounded pattern has its low bits cleared** -/
theorem roundBits_multiple (width keep maxbits x : Nat) (hk : keep < maxbits) :
    roundBits width keep maxbits x % 2 ^ (maxbits - keep) = 0 := by
  rw [roundBits_eq_roundQ _ _ _ _ hk]
  exact roundQ_mod _ _ _ _

/-- **and is the nearest such pattern**: within half a quantum of the input (unless the addition saturates) -/
theorem roundBits_near (width keep maxbits x : Nat) (hk : keep < maxbits)
    (hs : x + 2 ^ (maxbits - keep - 1) < 2 ^ width) :
    roundBits width keep maxbits x ≤ x + 2 ^ (maxbits - keep - 1) ∧
    x ≤ roundBits width keep maxbits x + 2 ^ (maxbits - keep - 1) := by
  rw [roundBits_eq_roundQ _ _ _ _ hk]
  exact roundQ_near _ _ _ _ (pow_quantum keep maxbits hk) (Nat.pow_pos (by omega)) (by omega)

/-- **ties go to the even multiple** -/
theorem roundBits_tie_even (width keep maxbits x : Nat) (hk : keep < maxbits)
    (hs : x + 2 ^ (maxbits - keep - 1) < 2 ^ width)
    (htie : x % 2 ^ (maxbits - keep) = 2 ^ (maxbits - keep - 1)) :
    roundBits width keep maxbits x / 2 ^ (maxbits - keep) % 2 = 0 := by
  rw [roundBits_eq_roundQ _ _ _ _ hk]
  exact roundQ_tie_even _ _ _ _ (pow_quantum keep maxbits hk) (Nat.pow_pos (by omega)) (by omega) htie

-- (`hx`, `hm` are not needed: a rounded value is a multiple of the quantum below the saturation bound)
set_option linter.unusedVariables false in
/-- **rounding is idempotent** (decoding is the identity, so re-encoding a decoded chunk changes nothing) -/
theorem roundBits_idem (width keep maxbits x : Nat) (hx : x < 2 ^ width) (hm : maxbits ≤ width) :
    roundBits width keep maxbits (roundBits width keep maxbits x) = roundBits width keep maxbits x := by
  by_cases hk : keep < maxbits
  · rw [roundBits_eq_roundQ _ _ _ _ hk, roundBits_eq_roundQ _ _ _ _ hk]
    exact roundQ_idem _ _ _ _ (pow_quantum keep maxbits hk) (Nat.pow_pos (by omega))
  · simp only [roundBits, if_neg hk]

/-- a representable value is unchanged -/
theorem roundBits_fixed (width keep maxbits x : Nat) (hx : x < 2 ^ width) (hk : keep < maxbits)
    (h : x % 2 ^ (maxbits - keep) = 0) : roundBits width keep maxbits x = x := by
  rw [roundBits_eq_roundQ _ _ _ _ hk]
  exact roundQ_fixed _ _ _ _ (pow_quantum keep maxbits hk) (Nat.pow_pos (by omega)) (by omega) h

/-- float32 1.2345678 (0x3f9e0652) with 7 mantissa bits kept is 0x3f9e0000; the ties 0x3f804000 / 0x3f80c000 with 8
kept go to the even neighbours; an 8-bit integer with no bits kept; a bfloat16 tie with 3 of its 7 mantissa bits kept -/
example : bitround 32 23 7 0x3f9e0652 = 0x3f9e0000 ∧ bitround 32 23 8 0x3f804000 = 0x3f800000 ∧
    bitround 32 23 8 0x3f80c000 = 0x3f810000 ∧ bitround 8 0 0 200 = 0 ∧ bitround 16 7 3 0x3fc8 = 0x3fc0 := by
  decide +kernel

end Zarrs.C03
