import ZarrsModel.Model.Array
import ZarrsModel.Props.C01
import ZarrsModel.Lemmas.Fault
import ZarrsModel.Lemmas.Async
import ZarrsModel.Props.C20
/-
C07 — the async API is observationally equivalent to the sync API.

The two APIs are separate copies of the same algorithms.  In the model both are the array operations of C01
(`ArrCfg`); what distinguishes them is (1) the ORDER in which the per-chunk steps of a multi-chunk operation
complete (the async methods run them as concurrent futures), (2) the encoded form of what they write (the
synchronous path may use an optional write strategy, e.g. partial encoding, the asynchronous path does not
implement) and (3) the store behind them.  The theorems say that none of these is observable: any completion
order gives the same store, and two routes that differ in key naming or encoding but share shape, grid and fill
value return the same values for every read after every history.  The correspondence check runs every generated
history through both real APIs and compares each outcome and the final readable contents with each other and with
the model.
-/
namespace Zarrs.C07
open Zarrs

variable {α : Type} [DecidableEq α]

/-- **completion order is unobservable**: the per-chunk steps of a multi-chunk write, run in ANY order (any
permutation of the chunk list — the order in which concurrent futures complete), succeed exactly when the
sequential run does and leave the same store -/
theorem store_any_order (cfg : ArrCfg α) (hK : cfg.KeysInjective) (st stFull : KV) (hs : st.sorted)
    (region : Subset) (data : List α) (chunks : Subset) (hcw : chunks.wf = true)
    (hfull : ArrCfg.foldOpt (cfg.storeArraySubsetChunk region data) st chunks.indices = some stFull)
    (order : List Idx) (hperm : order.Perm chunks.indices) :
    ArrCfg.foldOpt (cfg.storeArraySubsetChunk region data) st order = some stFull := by
  rw [ArrCfg.storeArraySubsetChunk_eq_kvStep] at hfull ⊢
  have hndC := ArrCfg.keys_nodup hK _ (chunks.indices_nodup hcw)
  rw [ArrCfg.foldOpt_kvStep_perm _ _ order chunks.indices hperm hndC st hs]
  exact hfull
/-- hypotheses satisfiable: the four per-chunk steps of the example write of C20 completing in the order
(1,1), (0,0), (1,0), (0,1) instead of (0,0), (0,1), (1,0), (1,1) -/
example : C01.exCfg.KeysInjective ∧ C20.exStore.sorted ∧ C20.exChunks.wf = true ∧
    ArrCfg.foldOpt (C01.exCfg.storeArraySubsetChunk C20.exRegion C20.exData) C20.exStore C20.exChunks.indices =
      some C20.exFull ∧
    ([[1, 1], [0, 0], [1, 0], [0, 1]] : List Idx).Perm C20.exChunks.indices ∧
    ([[1, 1], [0, 0], [1, 0], [0, 1]] : List Idx) ≠ C20.exChunks.indices :=
  ⟨C01.exKey_inj, by unfold KV.sorted; decide, by decide, by decide, by decide, by decide⟩
/-- the conclusion on the example, checked by evaluation -/
example : ArrCfg.foldOpt (C01.exCfg.storeArraySubsetChunk C20.exRegion C20.exData) C20.exStore
    [[1, 1], [0, 0], [1, 0], [0, 1]] = some C20.exFull := by decide

/-- and a failure of the sequential run is a failure of every order -/
theorem store_any_order_fails (cfg : ArrCfg α) (hK : cfg.KeysInjective) (st : KV) (hs : st.sorted)
    (region : Subset) (data : List α) (chunks : Subset) (hcw : chunks.wf = true)
    (hfull : ArrCfg.foldOpt (cfg.storeArraySubsetChunk region data) st chunks.indices = none)
    (order : List Idx) (hperm : order.Perm chunks.indices) :
    ArrCfg.foldOpt (cfg.storeArraySubsetChunk region data) st order = none := by
  rw [ArrCfg.storeArraySubsetChunk_eq_kvStep] at hfull ⊢
  have hndC := ArrCfg.keys_nodup hK _ (chunks.indices_nodup hcw)
  rw [ArrCfg.foldOpt_kvStep_perm _ _ order chunks.indices hperm hndC st hs]
  exact hfull
/-- hypotheses satisfiable: chunk (1,0) holds a value of the wrong length, its step (a partial update, which
decodes the old value) fails; the sequential run fails at the third step, the permuted run at the third step too
but after different chunks were written -/
example : C01.exCfg.KeysInjective ∧ KV.sorted [(C01.exKey [1, 0], [1, 2, 3])] ∧ C20.exChunks.wf = true ∧
    ArrCfg.foldOpt (C01.exCfg.storeArraySubsetChunk C20.exRegion C20.exData) [(C01.exKey [1, 0], [1, 2, 3])]
      C20.exChunks.indices = none ∧
    ([[1, 1], [0, 0], [1, 0], [0, 1]] : List Idx).Perm C20.exChunks.indices ∧
    ArrCfg.foldOpt (C01.exCfg.storeArraySubsetChunk C20.exRegion C20.exData) [(C01.exKey [1, 0], [1, 2, 3])]
      [[1, 1], [0, 0], [1, 0], [0, 1]] = none :=
  ⟨C01.exKey_inj, by unfold KV.sorted; decide, by decide, by decide, by decide, by decide⟩

/-- two routes to the same array: same shape, grid and fill value; keys, codec and elision may differ -/
def SameArray (c1 c2 : ArrCfg α) : Prop := c1.shape = c2.shape ∧ c1.grid = c2.grid ∧ c1.fill = c2.fill

/-- **the encoded form is unobservable**: after the same history two routes hold the same readable contents —
every array-subset, chunk, chunk-subset and multi-chunk read returns the same elements — although the stored keys
and bytes may differ -/
theorem routes_agree (c1 c2 : ArrCfg α) (G : Shape) (h1 : C01.Ok c1 G) (h2 : C01.Ok c2 G) (hsame : SameArray c1 c2)
    (ops : List (WriteOp α)) (hops : ∀ op ∈ ops, C01.opInBounds c1 G op) :
    ∃ st1 st2, c1.run [] ops = some st1 ∧ c2.run [] ops = some st2 ∧
      (∀ r : Subset, r.wf = true → r.inboundsShape c1.shape = true →
        c1.retrieveArraySubset st1 r = c2.retrieveArraySubset st2 r) ∧
      (∀ c, inB c G = true → c1.retrieveChunk st1 c = c2.retrieveChunk st2 c) ∧
      (∀ b : Subset, b.wf = true → b.inboundsShape G = true → c1.retrieveChunks st1 b = c2.retrieveChunks st2 b) := by
  obtain ⟨hsh, hg, hf⟩ := hsame
  have hops2 : ∀ op ∈ ops, C01.opInBounds c2 G op := fun op hop => C01.opInBounds_congr G hsh hg op (hops op hop)
  have habs : c1.absRun ops = c2.absRun ops := ArrCfg.absRun_congr hg hf ops
  have hcs : c1.chunkSubset = c2.chunkSubset := ArrCfg.chunkSubset_congr hg
  obtain ⟨st1, hr1, hA1, hC1, _, hB1⟩ := C01.read_after_history c1 G h1 ops hops
  obtain ⟨st2, hr2, hA2, hC2, _, hB2⟩ := C01.read_after_history c2 G h2 ops hops2
  refine ⟨st1, st2, hr1, hr2, ?_, ?_, ?_⟩
  · intro r hr hb
    rw [hA1 r hr hb, hA2 r hr (hsh ▸ hb), habs]
  · intro c hc
    obtain ⟨cs1, hcs1, e1⟩ := hC1 c hc
    obtain ⟨cs2, hcs2, e2⟩ := hC2 c hc
    rw [hcs, hcs2] at hcs1
    cases hcs1
    rw [e1, e2, habs]
  · intro b hb hbi
    obtain ⟨r1, hr1', e1⟩ := hB1 b hb hbi
    obtain ⟨r2, hr2', e2⟩ := hB2 b hb hbi
    rw [hg, hr2'] at hr1'
    cases hr1'
    rw [e1, e2, habs]
/-- the asynchronous route of the examples: the example array behind another key encoding (`c/` prefix), a codec
that reverses the element order, and `store_empty_chunks` on -/
def exCfg2 : ArrCfg Nat :=
  { C01.exCfg with keyOf := fun c => 'c' :: '/' :: C01.exKey c, enc := List.reverse,
                   dec := fun b => some b.reverse, storeEmpty := true }
theorem exOk2 : C01.Ok exCfg2 [3, 3] where
  lossless := fun x => by simp [exCfg2]
  keysInj := fun a b h => C01.exKey_inj a b (by simpa [exCfg2] using h)
  gridNew := ⟨_, rfl⟩
  gridWf := by decide
  gridShape := by decide
  rank := rfl
/-- hypotheses satisfiable: the six-operation history of C01 through both routes -/
example : C01.Ok C01.exCfg [3, 3] ∧ C01.Ok exCfg2 [3, 3] ∧ SameArray C01.exCfg exCfg2 ∧
    (∀ op ∈ C01.exOps, C01.opInBounds C01.exCfg [3, 3] op) ∧ C01.exOps.length = 6 :=
  ⟨C01.exOk, exOk2, ⟨rfl, rfl, rfl⟩, C01.exOps_inBounds, rfl⟩
/-- the two stores differ (keys, bytes and the elided chunks) although every read agrees -/
example : C01.exCfg.run [] C01.exOps ≠ exCfg2.run [] C01.exOps ∧
    (C01.exCfg.run [] C01.exOps).bind (fun st => C01.exCfg.retrieveArraySubset st ⟨[0, 0], [5, 7]⟩) =
    (exCfg2.run [] C01.exOps).bind (fun st => exCfg2.retrieveArraySubset st ⟨[0, 0], [5, 7]⟩) := by decide

/-- the same holds after every prefix of the history: the two routes never diverge -/
theorem routes_agree_always (c1 c2 : ArrCfg α) (G : Shape) (h1 : C01.Ok c1 G) (h2 : C01.Ok c2 G)
    (hsame : SameArray c1 c2) (ops : List (WriteOp α)) (hops : ∀ op ∈ ops, C01.opInBounds c1 G op) (n : Nat) :
    ∃ st1 st2, c1.run [] (ops.take n) = some st1 ∧ c2.run [] (ops.take n) = some st2 ∧
      ∀ r : Subset, r.wf = true → r.inboundsShape c1.shape = true →
        c1.retrieveArraySubset st1 r = c2.retrieveArraySubset st2 r := by
  obtain ⟨st1, st2, hr1, hr2, hA, _, _⟩ := routes_agree c1 c2 G h1 h2 hsame (ops.take n)
    (fun op hop => hops op (List.mem_of_mem_take hop))
  exact ⟨st1, st2, hr1, hr2, hA⟩
/-- hypotheses satisfiable (same example); after the first three operations -/
example : C01.Ok C01.exCfg [3, 3] ∧ C01.Ok exCfg2 [3, 3] ∧ SameArray C01.exCfg exCfg2 ∧
    (∀ op ∈ C01.exOps, C01.opInBounds C01.exCfg [3, 3] op) ∧ (C01.exOps.take 3).length = 3 :=
  ⟨C01.exOk, exOk2, ⟨rfl, rfl, rfl⟩, C01.exOps_inBounds, rfl⟩
example : (C01.exCfg.run [] (C01.exOps.take 3)).bind (fun st => C01.exCfg.retrieveArraySubset st ⟨[0, 0], [5, 7]⟩) =
    (exCfg2.run [] (C01.exOps.take 3)).bind (fun st => exCfg2.retrieveArraySubset st ⟨[0, 0], [5, 7]⟩) := by decide

/-- **same keys**: with the same key naming and elision setting the two routes store exactly the same set of keys
(the bytes under them may differ) -/
theorem routes_same_keys (c1 c2 : ArrCfg α) (G : Shape) (h1 : C01.Ok c1 G) (h2 : C01.Ok c2 G) (hsame : SameArray c1 c2)
    (hkeys : c1.keyOf = c2.keyOf) (he1 : c1.storeEmpty = false) (he2 : c2.storeEmpty = false)
    (ops : List (WriteOp α)) (hops : ∀ op ∈ ops, C01.opInBounds c1 G op) :
    ∃ st1 st2, c1.run [] ops = some st1 ∧ c2.run [] ops = some st2 ∧ ∀ k, (st1.get k).isSome = (st2.get k).isSome := by
  obtain ⟨hsh, hg, hf⟩ := hsame
  have hops2 : ∀ op ∈ ops, C01.opInBounds c2 G op := fun op hop => C01.opInBounds_congr G hsh hg op (hops op hop)
  have habs : c1.absRun ops = c2.absRun ops := ArrCfg.absRun_congr hg hf ops
  have hcs : c1.chunkSubset = c2.chunkSubset := ArrCfg.chunkSubset_congr hg
  obtain ⟨st1, hr1, hP1⟩ := C01.key_present_iff c1 G h1 he1 ops hops
  obtain ⟨st2, hr2, hP2⟩ := C01.key_present_iff c2 G h2 he2 ops hops2
  obtain ⟨st1', hr1', hK1⟩ := C01.keys_are_chunk_keys c1 G h1 ops hops
  obtain ⟨st2', hr2', hK2⟩ := C01.keys_are_chunk_keys c2 G h2 ops hops2
  rw [hr1] at hr1'; cases hr1'
  rw [hr2] at hr2'; cases hr2'
  -- a chunk key is present in one store iff it is present in the other
  have hchunk : ∀ c, inB c G = true → (c1.keyOf c ∈ st1.keys ↔ c2.keyOf c ∈ st2.keys) := by
    intro c hc
    obtain ⟨cs1, hcs1, e1⟩ := hP1 c hc
    obtain ⟨cs2, hcs2, e2⟩ := hP2 c hc
    rw [hcs, hcs2] at hcs1
    cases hcs1
    rw [e1, e2, habs, hf]
  have hmem : ∀ k, k ∈ st1.keys ↔ k ∈ st2.keys := by
    intro k
    constructor
    · intro hk
      obtain ⟨c, hc, rfl⟩ := hK1 k hk
      have := (hchunk c hc).1 hk
      rwa [← hkeys] at this
    · intro hk
      obtain ⟨c, hc, rfl⟩ := hK2 k hk
      have := (hchunk c hc).2 (hkeys ▸ hk)
      rwa [hkeys] at this
  refine ⟨st1, st2, hr1, hr2, ?_⟩
  intro k
  have h := hmem k
  rw [KV.mem_keys_iff_get, KV.mem_keys_iff_get] at h
  cases e1 : st1.get k <;> cases e2 : st2.get k <;> simp [e1, e2] at h ⊢
/-- the second route of this example: same keys and elision as `C01.exCfg`, another codec (reversed element
order), so the stored bytes differ -/
def exCfg3 : ArrCfg Nat := { C01.exCfg with enc := List.reverse, dec := fun b => some b.reverse }
theorem exOk3 : C01.Ok exCfg3 [3, 3] where
  lossless := fun x => by simp [exCfg3]
  keysInj := C01.exKey_inj
  gridNew := ⟨_, rfl⟩
  gridWf := by decide
  gridShape := by decide
  rank := rfl
/-- hypotheses satisfiable -/
example : C01.Ok C01.exCfg [3, 3] ∧ C01.Ok exCfg3 [3, 3] ∧ SameArray C01.exCfg exCfg3 ∧
    C01.exCfg.keyOf = exCfg3.keyOf ∧ C01.exCfg.storeEmpty = false ∧ exCfg3.storeEmpty = false ∧
    (∀ op ∈ C01.exOps, C01.opInBounds C01.exCfg [3, 3] op) ∧ C01.exOps.length = 6 :=
  ⟨C01.exOk, exOk3, ⟨rfl, rfl, rfl⟩, rfl, rfl, rfl, C01.exOps_inBounds, rfl⟩
/-- on the example: the same keys, different stores -/
example : (C01.exCfg.run [] C01.exOps).map KV.keys = (exCfg3.run [] C01.exOps).map KV.keys ∧
    C01.exCfg.run [] C01.exOps ≠ exCfg3.run [] C01.exOps ∧
    ((C01.exCfg.run [] C01.exOps).map KV.keys).map List.length = some 7 := by decide

end Zarrs.C07
