import ZarrsModel.Props.C01
/-
C04 — fill-value elision never drops data; absent chunks read as fill.
The theorems are consequences of the refinement invariant of C01 (ZarrsModel/Lemmas/ArrayInv.lean, clause
"key present iff some element of the chunk differs from the fill value"); they are restated here under the
property's own name so that its obligations are checked and audited separately.
-/
namespace Zarrs.C04
open Zarrs

variable {α : Type} [DecidableEq α]
set_option linter.unusedSectionVars false

/-- with elision on (the default), after any write history a chunk key is present exactly when that chunk holds
at least one non-fill element -/
theorem key_present_iff (cfg : ArrCfg α) (G : Shape) (hok : C01.Ok cfg G) (helide : cfg.storeEmpty = false)
    (ops : List (WriteOp α)) (hops : ∀ op ∈ ops, C01.opInBounds cfg G op) :
    ∃ st, cfg.run [] ops = some st ∧
      ∀ c, inB c G = true → ∃ cs, cfg.chunkSubset c = some cs ∧
        (cfg.keyOf c ∈ st.keys ↔ ∃ i, cs.contains i = true ∧ cfg.absRun ops i ≠ cfg.fill) :=
  C01.key_present_iff cfg G hok helide ops hops

/-- only chunk keys are ever written -/
theorem keys_are_chunk_keys (cfg : ArrCfg α) (G : Shape) (hok : C01.Ok cfg G)
    (ops : List (WriteOp α)) (hops : ∀ op ∈ ops, C01.opInBounds cfg G op) :
    ∃ st, cfg.run [] ops = some st ∧ ∀ k ∈ st.keys, ∃ c, inB c G = true ∧ k = cfg.keyOf c :=
  C01.keys_are_chunk_keys cfg G hok ops hops

/-- with empty-chunk storing enabled every chunk written through the whole-chunk path is physically stored -/
theorem store_empty_stores (cfg : ArrCfg α) (hempty : cfg.storeEmpty = true) (st st' : KV) (c : Idx) (d : List α)
    (h : cfg.storeChunk st c d = some st') : cfg.keyOf c ∈ st'.keys :=
  C01.store_empty_stores cfg hempty st st' c d h

/-- a chunk is left out of the store only if every element equals the fill value -/
theorem elided_only_if_fill (cfg : ArrCfg α) (st st' : KV) (c : Idx) (d : List α)
    (h : cfg.storeChunk st c d = some st') (hk : cfg.keyOf c ∉ st'.keys) : ∀ x ∈ d, x = cfg.fill :=
  C01.elided_only_if_fill cfg st st' c d h hk

/-- whatever is left out reads back as the fill value -/
theorem absent_reads_fill (cfg : ArrCfg α) (st : KV) (c : Idx) (s : Shape)
    (hs : cfg.chunkShape c = some s) (hk : cfg.keyOf c ∉ st.keys) :
    cfg.retrieveChunk st c = some (List.replicate (prod s) cfg.fill) ∧
    cfg.retrieveChunkIfExists st c = some none :=
  C01.absent_reads_fill cfg st c s hs hk

/-- elision decides on bit-identity of every element (the fixed- and variable-length `is_fill_value`) -/
theorem isFill_iff (cfg : ArrCfg α) (xs : List α) : cfg.isFill xs = true ↔ ∀ x ∈ xs, x = cfg.fill := by
  simp [ArrCfg.isFill, List.all_eq_true]

end Zarrs.C04
