import ZarrsModel.Model.ChainSDec
import ZarrsModel.Lemmas.ChainSDecSize
import ZarrsModel.Props.C02Shard
set_option Elab.async false
set_option maxRecDepth 8000
/-
C03 for codec chains whose array-to-bytes codec is `bytes` or `sharding_indexed`, nested to any depth
(`ChainS`, encoder and partial decoder in Model/ShardPD.lean, FULL decoder `ChainS.decode` in Model/ChainSDec.lean =
`CodecChain::decode` + `ShardingCodec::decode`):

* `chainS_dec_enc`                  — decoding the encoding returns the chunk, at every nesting depth;
* `chainS_decode_legal_layout`      — the decoder accepts ANY legal layout of stored inner chunks that decode to the pieces
                                      of the chunk (any order, gaps, all-fill chunks stored or not), with the same result;
  `chainS_decode_relayout`          — in particular any legal re-layout of the encoder's own inner chunks;
* `chainS_partial_eq_decode_slice`  — C02 against the REAL full decoder: on a served value the partial decoder answers
                                      every in-bounds region list with the regions of what `decode` returns
  (`chainS_decode_eq_partial_whole` — the whole-chunk request returns exactly what `decode` returns);
* `chainS_size`                     — every encoding is within the size `encoded_representation` declares;
* `chainS_decode_valid`             — whatever `decode` accepts is a chunk of the requested shape and element size.
-/
namespace Zarrs.C03Chain
open Zarrs Zarrs.Codec Zarrs.Partial Zarrs.C02 Zarrs.C02S

private theorem bStageOk_BDec (st : BStage) (h : bStageOk st) : BDec st := by
  cases st with
  | stripSuffix n sum => exact bStage_dec_checksum n sum
  | decodeAll e d => exact h
  | cache => exact bStage_dec_cache

private theorem okWith_dec (c : ChainS) (sh : Shape) (fill : Elem) (h : chainSOk c sh fill) :
    c.okWith aOk BDec sh fill :=
  ChainS.okWith_mono (fun l s hl => aStagesOk_aOk l s hl) bStageOk_BDec c sh fill h

/-! ### the running example: two sharding levels under a transpose and over a crc32c (as in `C02Shard`): 4×4 chunks of
2-byte elements, transposed, cut into 2×2 shards-in-the-shard (index at the start, big-endian, no checksum), each cut into
1×2 innermost chunks (index at the end, crc32c) whose chain is transpose + big-endian `bytes` + crc32c.  In the data the
outer inner-chunk 2 is all fill (not stored) and, inside the outer inner-chunk 1, the innermost chunk 0 is all fill -/

private def exFill : Elem := [7, 7]
private def exLeaf : Chain := { a2a := [.transpose [1, 0]], big := true, es := 2, unit := 2, b2b := [.stripSuffix 4 crc32c] }
private def exInnerS : ChainS := .shard [] ⟨0, true, false, true⟩ [1, 2] 2 (.leaf exLeaf []) []
private def exNested : ChainS :=
  .shard [.transpose [1, 0]] ⟨0, false, true, false⟩ [2, 2] 2 exInnerS [.stripSuffix 4 crc32c]
private def exData : List Elem :=
  (List.range 16).map (fun i => if (i % 4 ≥ 2 ∧ i < 8) ∨ (i = 12 ∨ i = 8) then [7, 7] else [i, 100 + i])
/-- the stored chunks of the outer level: encoded 2×2 shards, the third one missing -/
private def exChunks : List (Option Bytes) :=
  shardChunks (exInnerS.encode [2, 2] exFill) exFill [4, 4] [2, 2] (transposeEnc [1, 0] [4, 4] exData)

/-- the pieces of the transposed chunk: the 2×2 blocks in C order of the inner grid -/
private def exPieces : List (List Elem) :=
  splitShard (encodeA2A [.transpose [1, 0]] [4, 4] exData).2 [2, 2] (encodeA2A [.transpose [1, 0]] [4, 4] exData).1
private theorem exPieces_val : exPieces =
    [[[0, 100], [4, 104], [1, 101], [5, 105]], [[7, 7], [7, 7], [9, 109], [13, 113]],
     [[7, 7], [7, 7], [7, 7], [7, 7]], [[10, 110], [14, 114], [11, 111], [15, 115]]] := by decide

private theorem exNested_ok : chainSOk exNested [4, 4] exFill := by
  refine ⟨⟨by decide, trivial⟩, by decide, ?_, by decide, rfl, ⟨trivial, by decide, ?_, by decide, rfl,
    ⟨by decide, by decide, by decide, ⟨by decide, trivial⟩, ?_, ⟨trivial, trivial⟩⟩⟩⟩
  · intro st hst
    simp only [List.mem_singleton] at hst
    subst hst; rfl
  · intro st hst
    cases hst
  · intro st hst
    simp only [exLeaf, List.mem_singleton] at hst
    subst hst; rfl

private theorem exData_ok : chunkOk exNested.es [4, 4] exData := ⟨by decide, by decide⟩

private theorem exNested_fits : exNested.fits [4, 4] exFill exData := by
  simp only [exNested, exInnerS, ChainS.fits]
  decide

private theorem exChunks_val : exChunks =
    [some [100, 0, 104, 4, 249, 64, 212, 149, 101, 1, 105, 5, 75, 99, 25, 12, 0, 0, 0, 0, 0, 0, 0, 0, 8, 0, 0, 0, 0, 0, 0,
       0, 8, 0, 0, 0, 0, 0, 0, 0, 8, 0, 0, 0, 0, 0, 0, 0, 18, 164, 108, 129],
     some [109, 9, 113, 13, 158, 84, 4, 234, 255, 255, 255, 255, 255, 255, 255, 255, 255, 255, 255, 255, 255, 255, 255,
       255, 0, 0, 0, 0, 0, 0, 0, 0, 8, 0, 0, 0, 0, 0, 0, 0, 99, 121, 204, 141],
     none,
     some [110, 10, 114, 14, 185, 70, 191, 69, 111, 11, 115, 15, 11, 101, 114, 220, 0, 0, 0, 0, 0, 0, 0, 0, 8, 0, 0, 0, 0,
       0, 0, 0, 8, 0, 0, 0, 0, 0, 0, 0, 8, 0, 0, 0, 0, 0, 0, 0, 18, 164, 108, 129]] := by decide
/-- the missing innermost chunk inside the second stored shard: its index (at the end, before the crc32c) starts with
a sentinel entry -/
example : shardChunks ((ChainS.leaf exLeaf []).encode [1, 2] exFill) exFill [2, 2] [1, 2]
    ((splitShard [4, 4] [2, 2] (transposeEnc [1, 0] [4, 4] exData)).getD 1 []) =
    [none, some [109, 9, 113, 13, 158, 84, 4, 234]] := by decide

/-- **C03 for (nested) sharded chains: `decode ∘ encode = id`.**  For every well-formed chain (`chainSOk`: lawful
stages at every level, every sharding level tiles the shape it sees, one element size, fill value of that size),
every chunk of the shape and element size, provided every encoded shard is shorter than 2^64 - 1 bytes (`fits`), the
full decoder (`CodecChain::decode` + `ShardingCodec::decode`, checksum validation on) returns the chunk. -/
theorem chainS_dec_enc (c : ChainS) (sh : Shape) (fill : Elem) (xs : List Elem)
    (hok : chainSOk c sh fill) (hx : chunkOk c.es sh xs) (hfits : c.fits sh fill xs) :
    c.decode sh fill (c.encode sh fill xs) = some xs :=
  chainS_dec_enc' c sh fill xs (okWith_dec c sh fill hok) hx.1 hx.2 hfits

example : chainSOk exNested [4, 4] exFill ∧ chunkOk exNested.es [4, 4] exData ∧ exNested.fits [4, 4] exFill exData :=
  ⟨exNested_ok, exData_ok, exNested_fits⟩
/-- the conclusion evaluated: the 216 stored bytes decode to the 16 elements; a flipped payload byte of an innermost chunk,
a flipped index byte, a truncated value are errors -/
example : exNested.decode [4, 4] exFill (exNested.encode [4, 4] exFill exData) = some exData := by decide +kernel
example : (exNested.encode [4, 4] exFill exData).length = 216 := by decide
example : exNested.decode [4, 4] exFill ((exNested.encode [4, 4] exFill exData).set 66 0) = none ∧
    exNested.decode [4, 4] exFill ((exNested.encode [4, 4] exFill exData).set 7 65) = none ∧
    exNested.decode [4, 4] exFill ((exNested.encode [4, 4] exFill exData).take 215) = none := by decide +kernel

/-- **whatever the decoder accepts is a chunk**: `n` elements of `es` bytes — for ANY chain and ANY bytes (the final
`bytes.validate` of `CodecChain::decode`) -/
theorem chainS_decode_valid (c : ChainS) (sh : Shape) (fill : Elem) (b : Bytes) (xs : List Elem)
    (h : c.decode sh fill b = some xs) : chunkOk c.es sh xs :=
  ChainS.decode_valid c sh fill b xs h

example : exNested.decode [4, 4] exFill (exNested.encode [4, 4] exFill exData) = some exData := by decide +kernel
/-- a `bytes`-only chain of 2-byte elements rejects 7 bytes for a chunk of 3 elements (and accepts 6) -/
example : (ChainS.leaf { a2a := [], big := false, es := 2, unit := 2, b2b := [] } []).decode [3] exFill [1, 2, 3, 4, 5, 6, 7] = none ∧
    (ChainS.leaf { a2a := [], big := false, es := 2, unit := 2, b2b := [] } []).decode [3] exFill [1, 2, 3, 4, 5, 6] =
      some [[1, 2], [3, 4], [5, 6]] := by decide

/-! two other legal values holding the same chunk: (1) the encoder's inner chunks in another order with gaps — index,
3 stray bytes, chunk 3, chunk 1, 1 stray byte, chunk 0; (2) the same followed by a STORED encoding of the all-fill chunk 2
that the encoder never writes (a 2×2 shard whose two innermost all-fill chunks are both stored) -/
private def exCfg4 : Shard.Cfg := ⟨4, false, true, false⟩
private def exCh (i : Nat) : Bytes := (exChunks.getD i none).getD []
private def exEntries : List (Nat × Nat) := [(164, 52), (119, 44), (Shard.sentinel, Shard.sentinel), (67, 52)]
private def exRelayout : Bytes := Shard.encodeIndex exCfg4 exEntries ++ [9, 9, 9] ++ exCh 3 ++ exCh 1 ++ [9] ++ exCh 0
private def exStoredFill : Bytes :=
  Shard.encode ⟨2, true, false, true⟩ [some [7, 7, 7, 7, 202, 58, 48, 139], some [7, 7, 7, 7, 202, 58, 48, 139]]
private def exEntries2 : List (Nat × Nat) := [(164, 52), (119, 44), (216, 52), (67, 52)]
private def exChunks2 : List (Option Bytes) := [exChunks.getD 0 none, exChunks.getD 1 none, some exStoredFill, exChunks.getD 3 none]
private def exRelayout2 : Bytes :=
  Shard.encodeIndex exCfg4 exEntries2 ++ [9, 9, 9] ++ exCh 3 ++ exCh 1 ++ [9] ++ exCh 0 ++ exStoredFill

private theorem exChunks2_val : exChunks2 =
    [some [100, 0, 104, 4, 249, 64, 212, 149, 101, 1, 105, 5, 75, 99, 25, 12, 0, 0, 0, 0, 0, 0, 0, 0, 8, 0, 0, 0, 0, 0, 0,
       0, 8, 0, 0, 0, 0, 0, 0, 0, 8, 0, 0, 0, 0, 0, 0, 0, 18, 164, 108, 129],
     some [109, 9, 113, 13, 158, 84, 4, 234, 255, 255, 255, 255, 255, 255, 255, 255, 255, 255, 255, 255, 255, 255, 255,
       255, 0, 0, 0, 0, 0, 0, 0, 0, 8, 0, 0, 0, 0, 0, 0, 0, 99, 121, 204, 141],
     some [7, 7, 7, 7, 202, 58, 48, 139, 7, 7, 7, 7, 202, 58, 48, 139, 0, 0, 0, 0, 0, 0, 0, 0, 8, 0, 0, 0, 0, 0, 0, 0,
       8, 0, 0, 0, 0, 0, 0, 0, 8, 0, 0, 0, 0, 0, 0, 0, 18, 164, 108, 129],
     some [110, 10, 114, 14, 185, 70, 191, 69, 111, 11, 115, 15, 11, 101, 114, 220, 0, 0, 0, 0, 0, 0, 0, 0, 8, 0, 0, 0, 0,
       0, 0, 0, 8, 0, 0, 0, 0, 0, 0, 0, 8, 0, 0, 0, 0, 0, 0, 0, 18, 164, 108, 129]] := by decide

private theorem ok_of_toOption {ε α} {e : Except ε α} {a : α} (h : e.toOption = some a) : e = .ok a := by
  cases e with
  | error _ => cases h
  | ok b => simp only [Except.toOption, Option.some.injEq] at h; rw [h]

private theorem exRelayout_legal : Shard.Legal exCfg4 exRelayout exChunks := by
  refine ⟨by decide, exRelayout.take 64, exEntries, by decide, ok_of_toOption (by decide), by decide, ?_, ?_⟩
  · intro i h hc
    have h4 : i < 4 := h
    have : i = 0 ∨ i = 1 ∨ i = 2 ∨ i = 3 := by omega
    rcases this with rfl | rfl | rfl | rfl <;>
      simp only [exChunks_val, exEntries, List.getElem_cons_zero, List.getElem_cons_succ] <;> decide
  · intro i j hi hj
    have h4 : i < 4 := hi
    have h4' : j < 4 := hj
    have hi' : i = 0 ∨ i = 1 ∨ i = 2 ∨ i = 3 := by omega
    have hj' : j = 0 ∨ j = 1 ∨ j = 2 ∨ j = 3 := by omega
    rcases hi' with rfl | rfl | rfl | rfl <;> rcases hj' with rfl | rfl | rfl | rfl <;>
      simp only [exEntries, List.getElem_cons_zero, List.getElem_cons_succ] <;> decide

private theorem exRelayout2_legal : Shard.Legal exCfg4 exRelayout2 exChunks2 := by
  refine ⟨by decide, exRelayout2.take 64, exEntries2, by decide, ok_of_toOption (by decide), by decide, ?_, ?_⟩
  · intro i h hc
    have h4 : i < 4 := h
    have : i = 0 ∨ i = 1 ∨ i = 2 ∨ i = 3 := by omega
    rcases this with rfl | rfl | rfl | rfl <;>
      simp only [exChunks2_val, exEntries2, List.getElem_cons_zero, List.getElem_cons_succ] <;> decide
  · intro i j hi hj
    have h4 : i < 4 := hi
    have h4' : j < 4 := hj
    have hi' : i = 0 ∨ i = 1 ∨ i = 2 ∨ i = 3 := by omega
    have hj' : j = 0 ∨ j = 1 ∨ j = 2 ∨ j = 3 := by omega
    rcases hi' with rfl | rfl | rfl | rfl <;> rcases hj' with rfl | rfl | rfl | rfl <;>
      simp only [exEntries2, List.getElem_cons_zero, List.getElem_cons_succ] <;> decide

/-- **the decoder accepts ANY legal layout, with the same result.**  A sharding chain `a2a ; sharding(cfg, ish, inner) ; b2b`.
`v` is any legal shard value (`Shard.Legal`: the index at its declared place decodes, live entries lie inside the
value and outside the index, do not overlap, hold their chunk's bytes — any offsets, any order, gaps) holding stored
chunks `chunks`, where a missing chunk stands for an all-fill piece of the (array-to-array encoded) chunk `xs` and a
stored chunk is ANY byte string the inner chain decodes to its piece (not necessarily what the inner encoder would
write: the nested shards may themselves have any legal layout, an all-fill piece may be stored).  Then decoding the
bytes-to-bytes encoding of `v` returns `xs`. -/
theorem chainS_decode_legal_layout (a2a : List AStage) (cfg : Shard.Cfg) (ish : Shape) (es : Nat) (inner : ChainS)
    (b2b : List BStage) (sh : Shape) (fill : Elem) (xs : List Elem) (v : Bytes) (chunks : List (Option Bytes))
    (hok : chainSOk (.shard a2a cfg ish es inner b2b) sh fill) (hx : chunkOk es sh xs)
    (hlegal : Shard.Legal { cfg with nChunks := prod (zipDiv (encodeA2A a2a sh xs).2 ish) } v chunks)
    (hc : ∀ i (h1 : i < chunks.length) (h2 : i < (splitShard (encodeA2A a2a sh xs).2 ish (encodeA2A a2a sh xs).1).length),
      match chunks[i] with
      | none => (splitShard (encodeA2A a2a sh xs).2 ish (encodeA2A a2a sh xs).1)[i] = List.replicate (prod ish) fill
      | some b => inner.decode ish fill b = some (splitShard (encodeA2A a2a sh xs).2 ish (encodeA2A a2a sh xs).1)[i]) :
    (ChainS.shard a2a cfg ish es inner b2b).decode sh fill (b2b.foldl (fun b st => st.enc b) v) = some xs := by
  have hok' := okWith_dec _ sh fill hok
  have hes : 0 < es := ChainS.es_pos aOk BDec _ sh fill hok'
  obtain ⟨ha, ht, hB, hfl, hies, _⟩ := hok'
  rw [encodeA2A_eq] at hlegal hc
  simp only at hlegal hc
  obtain ⟨hyl, hye⟩ := aEnc_chunk es a2a sh xs ha hx.1 hx.2
  apply chainS_shard_decode a2a cfg ish es inner b2b sh fill xs v chunks ha ht hB hes hfl hx.1 hx.2 hlegal
  refine ⟨by rw [hlegal.1, splitShard_length], ?_⟩
  intro i h1 h2
  have := hc i h1 h2
  split
  · rename_i heq; rw [heq] at this; exact this
  · rename_i b heq
    rw [heq] at this
    obtain ⟨hpl, hpm⟩ := splitShard_piece ht _ hyl _ (List.getElem_mem h2)
    exact ⟨this, hpl, fun x hx' => hye x (hpm x hx')⟩

/-- the hypotheses hold of the second value: the stored third chunk is a byte string the encoder never writes, yet the
inner chain decodes it to the all-fill piece -/
example : chainSOk exNested [4, 4] exFill ∧ chunkOk 2 [4, 4] exData ∧
    Shard.Legal { (⟨0, false, true, false⟩ : Shard.Cfg) with nChunks := prod (zipDiv (encodeA2A [.transpose [1, 0]] [4, 4] exData).2 [2, 2]) }
      exRelayout2 exChunks2 ∧
    (∀ i (_ : i < exChunks2.length) (h2 : i < exPieces.length),
      match exChunks2[i] with
      | none => exPieces[i] = List.replicate (prod [2, 2]) exFill
      | some b => exInnerS.decode [2, 2] exFill b = some exPieces[i]) ∧
    exChunks2[2]? ≠ exChunks[2]? := by
  refine ⟨exNested_ok, exData_ok, exRelayout2_legal, ?_, by decide⟩
  intro i h1 h2
  have h4 : i < 4 := h1
  have : i = 0 ∨ i = 1 ∨ i = 2 ∨ i = 3 := by omega
  rcases this with rfl | rfl | rfl | rfl <;>
    simp only [exChunks2_val, exPieces_val, List.getElem_cons_zero, List.getElem_cons_succ] <;> decide +kernel
/-- … and the conclusion evaluated -/
example : exNested.decode [4, 4] exFill (checksumEnc crc32c exRelayout2) = some exData := by decide +kernel
example : exRelayout2.length = 268 ∧ Shard.wellFormed exCfg4 exRelayout2 = true := by decide +kernel

/-- … in particular ANY legal re-layout of the inner chunks the encoder itself produces (inner chunks in any order, with
gaps) decodes to the chunk.  (The order in which `ShardingCodec::encode_bounded` / `encode_unbounded` lay the inner
chunks out depends on the schedule of the parallel loop: `encoded_shard_offset.fetch_add`.) -/
theorem chainS_decode_relayout (a2a : List AStage) (cfg : Shard.Cfg) (ish : Shape) (es : Nat) (inner : ChainS)
    (b2b : List BStage) (sh : Shape) (fill : Elem) (xs : List Elem) (v : Bytes)
    (hok : chainSOk (.shard a2a cfg ish es inner b2b) sh fill) (hx : chunkOk es sh xs)
    (hfits : ∀ p ∈ splitShard (encodeA2A a2a sh xs).2 ish (encodeA2A a2a sh xs).1, inner.fits ish fill p)
    (hlegal : Shard.Legal { cfg with nChunks := prod (zipDiv (encodeA2A a2a sh xs).2 ish) } v
      (shardChunks (inner.encode ish fill) fill (encodeA2A a2a sh xs).2 ish (encodeA2A a2a sh xs).1)) :
    (ChainS.shard a2a cfg ish es inner b2b).decode sh fill (b2b.foldl (fun b st => st.enc b) v) = some xs := by
  have hok' := okWith_dec _ sh fill hok
  have hes : 0 < es := ChainS.es_pos aOk BDec _ sh fill hok'
  obtain ⟨ha, ht, hB, hfl, hies, hiok⟩ := hok'
  rw [encodeA2A_eq] at hlegal hfits
  simp only at hlegal hfits
  obtain ⟨hyl, hye⟩ := aEnc_chunk es a2a sh xs ha hx.1 hx.2
  apply chainS_shard_decode a2a cfg ish es inner b2b sh fill xs v _ ha ht hB hes hfl hx.1 hx.2 hlegal
  apply shardChunks_decode es fill _ ish _ _ _ ht hyl hye
  intro p hp hpl hpe
  exact chainS_dec_enc' inner ish fill p hiok hpl (by rw [hies]; exact hpe) (hfits p hp)

example : chainSOk exNested [4, 4] exFill ∧ chunkOk 2 [4, 4] exData ∧
    (∀ p ∈ splitShard (encodeA2A [.transpose [1, 0]] [4, 4] exData).2 [2, 2] (encodeA2A [.transpose [1, 0]] [4, 4] exData).1,
      exInnerS.fits [2, 2] exFill p) ∧
    Shard.Legal { (⟨0, false, true, false⟩ : Shard.Cfg) with nChunks := prod (zipDiv (encodeA2A [.transpose [1, 0]] [4, 4] exData).2 [2, 2]) }
      exRelayout (shardChunks (exInnerS.encode [2, 2] exFill) exFill (encodeA2A [.transpose [1, 0]] [4, 4] exData).2 [2, 2]
        (encodeA2A [.transpose [1, 0]] [4, 4] exData).1) ∧
    exRelayout ≠ Shard.encode exCfg4 exChunks := by
  refine ⟨exNested_ok, exData_ok, ?_, exRelayout_legal, by decide⟩
  simp only [exInnerS, ChainS.fits]
  decide +kernel
/-- the conclusion evaluated: the re-laid-out value decodes to the same chunk as the encoder's value -/
example : exNested.decode [4, 4] exFill (checksumEnc crc32c exRelayout) = some exData := by decide +kernel
example : exNested.encode [4, 4] exFill exData = checksumEnc crc32c (Shard.encode exCfg4 exChunks) := by decide +kernel

/-- **C02 against the real full decoder.**  On ANY handle serving the chain's encoding of a chunk, the partial decoder
answers every in-bounds list of regions with the regions (`extract`) of what the FULL decoder returns on the stored
bytes (and the full decoder does return a value). -/
theorem chainS_partial_eq_decode_slice (c : ChainS) (sh : Shape) (fill : Elem) (xs : List Elem)
    (hok : chainSOk c sh fill) (hx : chunkOk c.es sh xs) (hfits : c.fits sh fill xs)
    (g : BHandle) (hg : BHandleOk g (c.encode sh fill xs))
    (rs : List Subset) (hrs : ∀ r ∈ rs, r.wf = true ∧ r.inboundsShape sh = true) :
    (c.decode sh fill (c.encode sh fill xs)).isSome = true ∧
    c.partialDecoder sh fill g rs =
      (c.decode sh fill (c.encode sh fill xs)).map (fun ys => rs.map (fun r => r.extract sh ys)) := by
  rw [chainS_dec_enc c sh fill xs hok hx hfits]
  exact ⟨rfl, chainS_partial_eq_full_slice c sh fill xs hok hx hfits g hg rs hrs⟩

example : chainSOk exNested [4, 4] exFill ∧ chunkOk exNested.es [4, 4] exData ∧ exNested.fits [4, 4] exFill exData ∧
    BHandleOk (storeHandle (some (exNested.encode [4, 4] exFill exData))) (exNested.encode [4, 4] exFill exData) ∧
    ∀ r ∈ [Subset.mk [1, 1] [2, 2], ⟨[0, 1], [4, 2]⟩, ⟨[0, 2], [1, 0]⟩], r.wf = true ∧ r.inboundsShape [4, 4] = true :=
  ⟨exNested_ok, exData_ok, exNested_fits, storeHandle_some_ok _, by decide⟩
/-- both sides evaluated -/
example : exNested.partialDecoder [4, 4] exFill (storeHandle (some (exNested.encode [4, 4] exFill exData)))
      [⟨[1, 1], [2, 2]⟩, ⟨[0, 1], [4, 2]⟩, ⟨[0, 2], [1, 0]⟩] =
    some [[[5, 105], [7, 7], [9, 109], [10, 110]],
          [[1, 101], [7, 7], [5, 105], [7, 7], [9, 109], [10, 110], [13, 113], [14, 114]], []] := by decide +kernel
example : (exNested.decode [4, 4] exFill (exNested.encode [4, 4] exFill exData)).map (fun ys =>
      [Subset.mk [1, 1] [2, 2], ⟨[0, 1], [4, 2]⟩, ⟨[0, 2], [1, 0]⟩].map (fun r => r.extract [4, 4] ys)) =
    some [[[5, 105], [7, 7], [9, 109], [10, 110]],
          [[1, 101], [7, 7], [5, 105], [7, 7], [9, 109], [10, 110], [13, 113], [14, 114]], []] := by decide +kernel

/-- … the whole chunk asked of the partial decoder is exactly what `decode` returns -/
theorem chainS_decode_eq_partial_whole (c : ChainS) (sh : Shape) (fill : Elem) (xs : List Elem)
    (hok : chainSOk c sh fill) (hx : chunkOk c.es sh xs) (hfits : c.fits sh fill xs)
    (g : BHandle) (hg : BHandleOk g (c.encode sh fill xs)) :
    c.partialDecoder sh fill g [Subset.ofShape sh] = (c.decode sh fill (c.encode sh fill xs)).map (fun ys => [ys]) := by
  obtain ⟨h1, h2⟩ := ofShape_ok sh
  rw [(chainS_partial_eq_decode_slice c sh fill xs hok hx hfits g hg [Subset.ofShape sh] (by
    intro r hr; rw [List.mem_singleton.mp hr]; exact ⟨h1, h2⟩)).2, chainS_dec_enc c sh fill xs hok hx hfits]
  simp only [Option.map_some, List.map_cons, List.map_nil, extract_full sh xs hx.1]

example : exNested.partialDecoder [4, 4] exFill (storeHandle (some (exNested.encode [4, 4] exFill exData)))
    [Subset.ofShape [4, 4]] = some [exData] := by decide +kernel

/-- **declared size.**  `c.bound sh` is what `CodecChain::encoded_representation` declares as an upper bound
(`FixedSize n` / `BoundedSize n`; for a sharding codec `num_chunks * inner bound + index size`, then `+ 4` per checksum
codec; `none` = `UnboundedSize` or a compressor whose bound the model does not know): every encoding is within it, and
has exactly the declared size when the chain declares a FIXED size. -/
theorem chainS_size (c : ChainS) (sh : Shape) (fill : Elem) (xs : List Elem)
    (hok : chainSOk c sh fill) (hx : chunkOk c.es sh xs) :
    (∀ n, c.bound sh = some n → (c.encode sh fill xs).length ≤ n) ∧
    (∀ n, c.fixedSize sh = some n → (c.encode sh fill xs).length = n) :=
  ⟨fun n hn => chainS_size' c sh fill xs n (okWith_dec c sh fill hok) hx.1 hx.2 hn,
   fun n hn => chainS_encode_fixed_length c sh fill xs n hok hx hn⟩

/-- the nested example: the innermost chain declares 2·2+4 = 8 bytes (fixed), the 2×2 shards 2·8 + (2·16+4) = 52
(bounded), the outer chain 4·52 + 4·16 + 4 = 276; the encoding has 216 bytes (one missing shard, one missing innermost
chunk) -/
example : chainSOk exNested [4, 4] exFill ∧ chunkOk exNested.es [4, 4] exData ∧ exNested.bound [4, 4] = some 276 ∧
    exInnerS.bound [2, 2] = some 52 ∧ (ChainS.leaf exLeaf []).fixedSize [1, 2] = some 8 ∧
    (exNested.encode [4, 4] exFill exData).length = 216 :=
  ⟨exNested_ok, exData_ok, by decide, by decide, by decide, by decide⟩
/-- the bound is attained when nothing is elided -/
example : (exNested.encode [4, 4] exFill ((List.range 16).map (fun i => [i, 100 + i]))).length = 276 := by decide

end Zarrs.C03Chain
