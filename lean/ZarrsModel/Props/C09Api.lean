import ZarrsModel.Model.IterApi
import ZarrsModel.Lemmas.Index
import ZarrsModel.Lemmas.IndexApi
import ZarrsModel.Props.C09
set_option Elab.async false
/-
C09, API-coverage additions — exactness of the public entry points that had no model counterpart before the audit:
explicit index ranges (`Indices::new_with_start_end`, every `RangeBounds` form), the `_unchecked` twins of the checked
operations, the inclusive/exclusive constructors and `to_ranges`/`new_with_ranges`.
Property theorems only; helper lemmas live in ZarrsModel/Lemmas/IndexApi.lean.
-/
namespace Zarrs.C09Api
open Zarrs

/-- EVERY range, of every bound kind and with ends at or beyond the length: the ranged iterator enumerates exactly
the slice `[lo, min(hi, len))` of the C-order enumeration of the subset -/
theorem newBounds_items (s : Subset) (lo hi : Bnd) :
    (Iter.newBounds s lo hi).items = s.indicesRange lo.lo (hi.hi s.numElements) := by
  simp only [Iter.newBounds, Subset.indicesRange]
  exact Iter.items_slice s _ _ (Bnd.hi_le _ hi)

example : (Iter.newBounds ⟨[1, 5], [2, 2]⟩ (.incl 1) (.excl 4)).items = [[1, 6], [2, 5], [2, 6]] := by decide

/-- `a..b` (`Range`): positions `a ≤ k < b` of the enumeration, whatever `b` (beyond the length: to the end) -/
theorem range_excl (s : Subset) (a b : Nat) :
    (Iter.newBounds s (.incl a) (.excl b)).items = (s.indices.take b).drop a := by
  rw [newBounds_items]
  simp only [Subset.indicesRange, Bnd.lo, Bnd.hi, ← s.indices_length]
  exact take_min_drop s.indices a b

example : (Iter.newBounds ⟨[1, 5], [2, 2]⟩ (.incl 1) (.excl 9)).items = [[1, 6], [2, 5], [2, 6]] := by decide

/-- `a..=b` (`RangeInclusive`): positions `a ≤ k ≤ b`; an inclusive end at or beyond the number of elements is
the end of the enumeration — no item past it -/
theorem range_incl (s : Subset) (a b : Nat) :
    (Iter.newBounds s (.incl a) (.incl b)).items = (s.indices.take (b + 1)).drop a := by
  rw [newBounds_items]
  simp only [Subset.indicesRange, Bnd.lo, Bnd.hi, ← s.indices_length]
  exact take_min_drop s.indices a (b + 1)

example : (Iter.newBounds ⟨[1, 5], [2, 2]⟩ (.incl 2) (.incl 4)).items = [[2, 5], [2, 6]] ∧
    (Iter.newBounds ⟨[1, 5], [2, 2]⟩ (.unb) (.incl 0)).items = [[1, 5]] := by decide

/-- `a..` (`RangeFrom`) -/
theorem range_from (s : Subset) (a : Nat) :
    (Iter.newBounds s (.incl a) .unb).items = s.indices.drop a := by
  rw [newBounds_items]
  simp only [Subset.indicesRange, Bnd.lo, Bnd.hi, ← s.indices_length]
  rw [← List.length_drop, List.take_length]

/-- `..` (`RangeFull`): the whole enumeration, i.e. `Indices::new` -/
theorem range_full (s : Subset) : (Iter.newBounds s .unb .unb).items = s.indices ∧
    Iter.newBounds s .unb .unb = Iter.new s := by
  refine ⟨?_, rfl⟩
  rw [newBounds_items]
  simp only [Subset.indicesRange, Bnd.lo, Bnd.hi, ← s.indices_length, List.drop_zero, Nat.sub_zero,
    List.take_length]

/-- `..b` / `..=b` (`RangeTo`, `RangeToInclusive`) -/
theorem range_to (s : Subset) (b : Nat) :
    (Iter.newBounds s .unb (.excl b)).items = s.indices.take b ∧
    (Iter.newBounds s .unb (.incl b)).items = s.indices.take (b + 1) := by
  have h1 := take_min_drop s.indices 0 b
  have h2 := take_min_drop s.indices 0 (b + 1)
  simp only [List.drop_zero, Nat.sub_zero] at h1 h2
  rw [newBounds_items, newBounds_items]
  simp only [Subset.indicesRange, Bnd.lo, Bnd.hi, ← s.indices_length, List.drop_zero, Nat.sub_zero]
  exact ⟨h1, h2⟩

/-- an excluded start (`(Bound::Excluded(a), _)`) is the included start `a + 1` -/
theorem range_excl_start (s : Subset) (a : Nat) (hi : Bnd) :
    Iter.newBounds s (.excl a) hi = Iter.newBounds s (.incl (a + 1)) hi := rfl

/-- the reported `len()` is the exact number of items, for every range; explicitly
`min(end, n) − start` (zero for a reversed or out-of-range range) -/
theorem newBounds_len (s : Subset) (lo hi : Bnd) :
    (Iter.newBounds s lo hi).len = (Iter.newBounds s lo hi).items.length ∧
    (Iter.newBounds s lo hi).len = hi.hi s.numElements - lo.lo ∧
    (Iter.newBounds s lo hi).len ≤ s.numElements := by
  refine ⟨(Iter.items_length _).symm, rfl, ?_⟩
  have := Bnd.hi_le s.numElements hi
  simp only [Iter.len, Iter.newBounds]; omega

example : (Iter.newBounds ⟨[1, 5], [2, 2]⟩ (.incl 5) (.excl 1)).len = 0 ∧
    (Iter.newBounds ⟨[1, 5], [2, 2]⟩ (.incl 1) (.incl 7)).len = 3 := by decide

/-- a ranged iterator visits only elements of the subset, each at most once, in C order -/
theorem newBounds_sound (s : Subset) (h : s.wf = true) (lo hi : Bnd) :
    (Iter.newBounds s lo hi).items.Pairwise (fun a b => lexLt a b = true) ∧
    ∀ i ∈ (Iter.newBounds s lo hi).items, s.contains i = true := by
  rw [newBounds_items]
  refine ⟨pairwise_take_drop (s.indices_pairwise h) _ _, ?_⟩
  intro i hi'
  exact (s.mem_indices h i).mp (mem_take_drop hi')

example : (Subset.mk [1, 5] [2, 2]).wf = true := by decide

/-- consumption in any direction and rayon splitting of a ranged iterator are the generic `Iter` facts of
Props/C09 (`iter_any_direction`, `split_tree`) applied to the slice: fronts ++ rest ++ reversed backs = the slice -/
theorem newBounds_any_direction (s : Subset) (lo hi : Bnd) (dirs : List Bool) :
    let it := Iter.newBounds s lo hi
    (it.run dirs).1 ++ (it.run dirs).2.2.items ++ (it.run dirs).2.1.reverse =
      s.indicesRange lo.lo (hi.hi s.numElements) := by
  intro it
  rw [← newBounds_items]
  exact (C09.iter_any_direction it dirs).1

theorem newBounds_split (s : Subset) (lo hi : Bnd) (t : SplitTree)
    (h : t.fits (Iter.newBounds s lo hi).len = true) :
    (t.leaves (Iter.newBounds s lo hi)).flatMap Iter.items = s.indicesRange lo.lo (hi.hi s.numElements) := by
  rw [← newBounds_items]
  exact C09.split_tree t _ h

example : (SplitTree.node 1 .leaf (.node 1 .leaf .leaf)).fits
    (Iter.newBounds ⟨[1, 5], [2, 2]⟩ (.incl 1) (.incl 9)).len = true := by decide

/-! ### `_unchecked` twins -/

/-- `byte_ranges_unchecked` computes the same list as the body of `byte_ranges`, for every input -/
theorem byteRangesUnchecked_eq (s : Subset) (arr : Shape) (es : Nat) :
    s.byteRangesUnchecked arr es = s.byteRanges arr es := rfl

/-- on an encapsulating array shape the checked function succeeds with exactly the unchecked result (and fails
otherwise) -/
theorem byteRanges_checked_unchecked (s : Subset) (arr : Shape) (es : Nat) :
    s.byteRangesChecked arr es = (if s.inboundsShape arr then some (s.byteRangesUnchecked arr es) else none) := rfl

/-- hence the unchecked byte ranges of an in-bounds subset cover exactly the bytes of its elements, in order, with
the element size as the scale of both offset and length -/
theorem byteRangesUnchecked_exact (s : Subset) (arr : Shape) (es : Nat) (h : s.wf = true)
    (hb : s.inboundsShape arr = true) :
    (s.byteRangesUnchecked arr es).flatMap (fun p => List.range' p.1 p.2) =
    (s.linearised arr).flatMap (fun k => List.range' (k * es) es) := by
  rw [byteRangesUnchecked_eq]; exact C09.byteRanges_exact s arr es h hb

example : (Subset.mk [1, 0, 0] [2, 2, 5]).wf = true ∧
    (Subset.mk [1, 0, 0] [2, 2, 5]).inboundsShape [4, 3, 5] = true ∧
    (Subset.mk [1, 1] [2, 2]).byteRangesUnchecked [4, 4] 3 = [(15, 6), (27, 6)] := by decide

/-- every range has the same length: `contiguous_elements * element_size`, and starts at a multiple of the element size -/
theorem byteRangesUnchecked_shape (s : Subset) (arr : Shape) (es : Nat) :
    ∀ p ∈ s.byteRangesUnchecked arr es, p.2 = (s.contiguous arr).run * es ∧ ∃ k, p.1 = k * es := by
  intro p hp
  simp only [Subset.byteRangesUnchecked, List.map_map, List.mem_map, Function.comp] at hp
  obtain ⟨i, _, rfl⟩ := hp
  exact ⟨rfl, _, rfl⟩

/-- `extract_elements` = guard + `extract_elements_unchecked`, which is the element-by-element gather -/
theorem extractChecked_exact {α} (s : Subset) (arr : Shape) (xs : List α) (h : s.wf = true) :
    (s.extractChecked arr xs).map (·.map some) =
      (if xs.length == prod arr && s.inboundsShape arr then some (s.gather arr xs) else none) := by
  simp only [Subset.extractChecked]
  split
  · rename_i hc
    simp only [Bool.and_eq_true, beq_iff_eq] at hc
    simp only [Option.map_some, C09.extract_exact s arr xs h hc.2 hc.1]
  · rfl

/-! ### constructors -/

/-- `new_with_start_end_inc(start, end)` (when accepted: equal lengths, `start ≤ end`) contains exactly the indices
between `start` and `end`, both inclusive; the exclusive constructor with `end + 1` builds the same subset -/
theorem ofStartEndInc_mem (st e : Idx) (h : Subset.startEndOk st e = true) (i : Idx) :
    ((Subset.ofStartEndInc st e).contains i = true ↔
      (Subset.allLe st i = true ∧ Subset.allLe i e = true ∧ i.length = st.length)) ∧
    Subset.ofStartEndInc st e = Subset.ofStartEndExc st (e.map (· + 1)) := by
  simp only [Subset.startEndOk, Bool.and_eq_true, beq_iff_eq, Bool.not_eq_true'] at h
  have hle := (zipUnderflow_false_iff e st h.1).mp h.2
  refine ⟨mem_ofStartEndInc i st e h.1 hle, ?_⟩
  simp only [Subset.ofStartEndInc, Subset.ofStartEndExc, Subset.mk.injEq, true_and]
  clear h
  induction st generalizing e with
  | nil => cases e <;> simp [Subset.zipSub]
  | cons y ys ih =>
    cases e with
    | nil => simp [Subset.zipSub]
    | cons z zs =>
      simp only [Subset.allLe, Bool.and_eq_true, decide_eq_true_eq] at hle
      simp only [Subset.zipSub, List.map_cons, ih zs hle.2, List.cons.injEq, and_true]
      omega

example : Subset.startEndOk [1, 2] [3, 2] = true ∧
    Subset.ofStartEndInc [1, 2] [3, 2] = ⟨[1, 2], [3, 1]⟩ := by decide

/-- `to_ranges` / `new_with_ranges` round-trip -/
theorem ofRanges_toRanges (s : Subset) (h : s.wf = true) : Subset.ofRanges s.toRanges = s := by
  simp only [Subset.wf, beq_iff_eq] at h
  obtain ⟨st, sh⟩ := s
  have := zip_toRanges st sh h
  simp only [Subset.ofRanges, Subset.toRanges, this.1, this.2]

example : (Subset.mk [1, 2] [3, 0]).wf = true ∧ (Subset.mk [1, 2] [3, 0]).toRanges = [(1, 4), (2, 2)] := by decide

end Zarrs.C09Api
