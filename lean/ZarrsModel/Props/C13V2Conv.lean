import ZarrsModel.Model.MetaV2
import ZarrsModel.Lemmas.MetaV2Conv
/-
C13 (V2 part) — the V2 -> V3 interpretation of array metadata (`array_metadata_v2_to_v3`, modelled by
`MetaV2.v2ToV3`): what the produced V3 document holds.  Theorems only; helper lemmas are in
`Lemmas/MetaV2Conv.lean`.
-/
set_option Elab.async false
namespace Zarrs.C13V2
open Zarrs Zarrs.Json Zarrs.Meta Zarrs.MetaV2

/-! ### concrete documents for the examples -/

/-- `{"zarr_format":2,"shape":[4,6],"chunks":[2,3],"dtype":">i2","compressor":{"id":"zlib","level":1},"fill_value":-1,
     "order":"F","filters":[{"id":"shuffle","elementsize":2}],"dimension_separator":"/","attributes":{"title":"demo"}}` -/
def exV2 : ArrayDocV2 :=
  { shape := [['4'], ['6']], chunks := [['2'], ['3']], dtype := .simple (ascii ">i2"),
    compressor := some ⟨ascii "zlib", [(ascii "level", .num ['1'])]⟩, fill := .num ['-', '1'], order := .F,
    filters := some [⟨ascii "shuffle", [(ascii "elementsize", .num ['2'])]⟩], sep := .slash,
    attrs := [(ascii "title", .str (ascii "demo"))], extra := [] }

/-- the V3 document the conversion gives for `exV2` -/
def exV3 : ArrayDoc :=
  { shape := [['4'], ['6']], dataType := ⟨ascii "int16", none, true⟩,
    chunkGrid := ⟨ascii "regular", some [(ascii "chunk_shape", .arr [.num ['2'], .num ['3']])], true⟩,
    cke := ⟨ascii "v2", some [(ascii "separator", .str (ascii "/"))], true⟩, fill := .num ['-', '1'],
    codecs := [⟨ascii "transpose", some [(ascii "order", .arr [.num ['1'], .num ['0']])], true⟩,
               ⟨ascii "numcodecs.shuffle", some [(ascii "elementsize", .num ['2'])], true⟩,
               ⟨ascii "bytes", some [(ascii "endian", .str (ascii "big"))], true⟩,
               ⟨ascii "numcodecs.zlib", some [(ascii "level", .num ['1'])], true⟩],
    attrs := [(ascii "title", .str (ascii "demo"))], st := [], dimNames := none, extra := [] }

/-- the data type of a document whose conversion succeeded is a simple one with a valid endianness prefix -/
def simpleName (d : ArrayDocV2) : Str := match d.dtype with | .simple s => s | .structured _ => []

/-- the filters as V3 codecs, in order -/
def filterCodecs (d : ArrayDocV2) : List MetaV3 := (d.filters.getD []).map (fun f => (filterToV3 f).1)

/-- some filter or the compressor is an array-to-bytes codec -/
def hasA2B (d : ArrayDocV2) : Bool :=
  (d.filters.getD []).any (fun f => (filterToV3 f).2) || (d.compressor.bind compressorA2B).isSome


/-- endianness named by the prefix of the data type string: `>` big; `<` little; `|` (none) is written as the native
    order, little -/
def docEndian (d : ArrayDocV2) : Endian := match simpleName d with | 62 :: _ => .big | _ => .little

/-- the conversion on the example document -/
theorem v2ToV3_exV2 : (match v2ToV3 exV2 with | .ok v => J.beq v.toJ exV3.toJ | .error _ => false) = true := by
  decide +kernel
/-- the same as an equation between documents -/
theorem v2ToV3_exV2_ok : v2ToV3 exV2 = .ok exV3 := by rfl

/-- **shape and chunk shape are carried over, on a regular grid** -/
theorem v2ToV3_shape_grid (d : ArrayDocV2) (v3 : ArrayDoc) (h : v2ToV3 d = .ok v3) :
    v3.shape = d.shape ∧ v3.chunkGrid = regularMeta d.chunks ∧ v3.chunkGrid.name = ascii "regular" ∧
    (∃ c, v3.chunkGrid.config = some c ∧ lookup c (ascii "chunk_shape") = some (.arr (d.chunks.map .num))) ∧
    regularRank v3.chunkGrid = some d.chunks.length := by
  obtain ⟨s, endian, fill, cs, _, _, _, _, _, rfl⟩ := v2ToV3_inv d v3 h
  refine ⟨rfl, rfl, rfl, ⟨_, rfl, ?_⟩, regularRank_regularMeta _⟩
  exact lookup_cons_eq _ _ _
example : ∃ v3, v2ToV3 exV2 = .ok v3 := ⟨exV3, v2ToV3_exV2_ok⟩

/-- attributes and additional fields are carried over; a V2 array has no storage transformers or dimension names -/
theorem v2ToV3_carried (d : ArrayDocV2) (v3 : ArrayDoc) (h : v2ToV3 d = .ok v3) :
    v3.attrs = d.attrs ∧ v3.extra = d.extra ∧ v3.st = [] ∧ v3.dimNames = none := by
  obtain ⟨s, endian, fill, cs, _, _, _, _, _, rfl⟩ := v2ToV3_inv d v3 h
  exact ⟨rfl, rfl, rfl, rfl⟩
example : ∃ v3, v2ToV3 exV2 = .ok v3 := ⟨exV3, v2ToV3_exV2_ok⟩

/-- **data type**: only a simple data type with a `|`, `<` or `>` prefix converts; the V3 name comes from the alias
    table (unknown names are passed through) and is written as a plain string -/
theorem v2ToV3_dtype (d : ArrayDocV2) (v3 : ArrayDoc) (h : v2ToV3 d = .ok v3) :
    ∃ s, d.dtype = .simple s ∧ (endianOf s).isSome = true ∧ v3.dataType = ⟨dtypeNameV3 s, none, true⟩ := by
  obtain ⟨s, endian, fill, cs, hs, he, _, _, _, rfl⟩ := v2ToV3_inv d v3 h
  exact ⟨s, hs, by simp [he], rfl⟩
example : ∃ v3, v2ToV3 exV2 = .ok v3 := ⟨exV3, v2ToV3_exV2_ok⟩
/-- every entry of the alias table is honoured -/
theorem dtypeNameV3_table : dtypeAliasesV2.all (fun p => dtypeNameV3 p.1 == p.2) = true := by
  decide +kernel
example : dtypeNameV3 (ascii "<f4") = ascii "float32" ∧ dtypeNameV3 (ascii ">u8") = ascii "uint64" ∧
    dtypeNameV3 (ascii "|b1") = ascii "bool" ∧ dtypeNameV3 (ascii "|V12") = ascii "bytes" ∧
    dtypeNameV3 (ascii "|S3") = ascii "|S3" := by decide +kernel

/-- a structured data type is rejected (the endianness test fails first) -/
theorem v2ToV3_structured_rejected (d : ArrayDocV2) (fs : List DField) (h : d.dtype = .structured fs) :
    v2ToV3 d = .error .invalidEndianness := by
  simp [v2ToV3, h]
example : ({ exV2 with dtype := .structured [⟨ascii "a", ascii "<i4", none⟩] } : ArrayDocV2).dtype =
    .structured [⟨ascii "a", ascii "<i4", none⟩] := rfl
/-- a data type string without one of the three prefixes is rejected -/
theorem v2ToV3_bad_prefix (d : ArrayDocV2) (s : Str) (h : d.dtype = .simple s) (hp : endianOf s = none) :
    v2ToV3 d = .error .invalidEndianness := by
  simp [v2ToV3, h, hp]
example : endianOf (ascii "f4") = none := by decide

/-- **the codec chain, in order**: transpose (F order only), the filters, the compressor when it is an array-to-bytes
    codec (`zfpy`, `pcodec`), the `bytes` codec unless a filter or the compressor already is an array-to-bytes codec,
    then the compressor as a bytes-to-bytes codec -/
theorem v2ToV3_codecs_order (d : ArrayDocV2) (v3 : ArrayDoc) (h : v2ToV3 d = .ok v3) :
    ∃ b2b : List MetaV3,
      v3.codecs = (if d.order = .F then [transposeMeta d.shape.length] else []) ++ filterCodecs d ++
        (d.compressor.bind compressorA2B).toList ++ (if hasA2B d then [] else [bytesMeta (docEndian d)]) ++ b2b ∧
      (match d.compressor with
       | none => b2b = []
       | some c => ∃ o, compressorB2B (dtypeNameV3 (simpleName d)) c = .ok o ∧ b2b = o.toList) := by
  obtain ⟨s, endian, b2b, hs, he, hc, hb⟩ := v2ToV3_codecs d v3 h
  have hn : simpleName d = s := by simp [simpleName, hs]
  have hd : docEndian d = endian.getD .little := by rw [endianOf_getD s endian he, docEndian, hn]; rfl
  refine ⟨b2b, ?_, ?_⟩
  · rw [hc, codecsHead_eq, hd]; rfl
  · rw [hn]; exact hb
example : ∃ v3, v2ToV3 exV2 = .ok v3 := ⟨exV3, v2ToV3_exV2_ok⟩

/-- the transpose codec of an F-order array of rank `n`: the order `n-1, …, 0` -/
theorem transposeMeta_order (n : Nat) :
    ∃ xs, (transposeMeta n).config = some [(ascii "order", .arr xs)] ∧ (transposeMeta n).name = ascii "transpose" ∧
      xs.length = n ∧ ∀ i, i < n → xs[i]? = some (natNum (n - 1 - i)) := by
  refine ⟨(List.range n).reverse.map natNum, rfl, rfl, by simp, ?_⟩
  intro i hi
  rw [List.getElem?_map, range_reverse_getElem? n i hi]; rfl

/-- **order**: C order adds no transpose — the chain starts with the filters; F order puts the transpose with the
    reversed order of the array's rank in front of exactly the chain the C-order document gets (and nothing else
    differs); a rank-0 F-order document never converts -/
theorem v2ToV3_order (d : ArrayDocV2) (v3 : ArrayDoc) (h : v2ToV3 d = .ok v3) :
    (d.order = .C → ∃ rest, v3.codecs = filterCodecs d ++ rest ∧
        rest = (d.compressor.bind compressorA2B).toList ++ (if hasA2B d then [] else [bytesMeta (docEndian d)]) ++
          (v3.codecs.drop ((filterCodecs d).length + (d.compressor.bind compressorA2B).toList.length +
            (if hasA2B d then 0 else 1)))) ∧
    (d.order = .F → 1 ≤ d.shape.length ∧
        ∃ v3c, v2ToV3 { d with order := .C } = .ok v3c ∧
          v3 = { v3c with codecs := transposeMeta d.shape.length :: v3c.codecs }) := by
  constructor
  · intro ho
    obtain ⟨s, endian, b2b, hs, he, hc, hb⟩ := v2ToV3_codecs d v3 h
    have hn : simpleName d = s := by simp [simpleName, hs]
    have hd : docEndian d = endian.getD .little := by rw [endianOf_getD s endian he, docEndian, hn]; rfl
    have hlen : (if hasA2B d then ([] : List MetaV3) else [bytesMeta (docEndian d)]).length = (if hasA2B d then 0 else 1) := by
      split <;> rfl
    have hc' : v3.codecs = (filterCodecs d ++ (d.compressor.bind compressorA2B).toList ++
        (if hasA2B d then [] else [bytesMeta (docEndian d)])) ++ b2b := by
      rw [hc, codecsHead_eq, hd, ho]; simp [filterCodecs, hasA2B]
    refine ⟨_, ?_, rfl⟩
    have hdrop : v3.codecs.drop ((filterCodecs d).length + (d.compressor.bind compressorA2B).toList.length +
            (if hasA2B d then 0 else 1)) = b2b := by
      rw [hc', ← hlen, ← List.length_append, ← List.length_append]
      exact List.drop_left
    rw [hdrop, hc']
    simp only [List.append_assoc]
  · intro ho
    obtain ⟨s, endian, fill, cs, hs, he, hf, hof, hc, rfl⟩ := v2ToV3_inv d v3 h
    rw [ho] at hc
    obtain ⟨cs', hc', rfl⟩ := codecsV2ToV3_F _ _ _ _ _ _ hc
    have hr : 1 ≤ d.shape.length := by
      cases hsh : d.shape with
      | nil => simp [ho, hsh] at hof
      | cons a r => simp
    refine ⟨hr, _, v2ToV3_intro { d with order := .C } s endian fill cs' hs he hf (by simp) hc', rfl⟩
example : exV2.order = .F ∧ ∃ v3, v2ToV3 exV2 = .ok v3 := ⟨rfl, exV3, v2ToV3_exV2_ok⟩
example : ({ exV2 with order := .C } : ArrayDocV2).order = .C ∧ ∃ v3, v2ToV3 { exV2 with order := .C } = .ok v3 :=
  ⟨rfl, { exV3 with codecs := exV3.codecs.tail }, by rfl⟩

/-- **separator**: the `v2` chunk key encoding with the document's separator (`.` when the document has none) -/
theorem v2ToV3_separator (d : ArrayDocV2) (v3 : ArrayDoc) (h : v2ToV3 d = .ok v3) :
    v3.cke = v2KeyMeta d.sep ∧ v3.cke.name = ascii "v2" ∧
    (d.sep = .dot → v3.cke.config = some [(ascii "separator", .str (ascii "."))]) ∧
    (d.sep = .slash → v3.cke.config = some [(ascii "separator", .str (ascii "/"))]) := by
  obtain ⟨s, endian, fill, cs, _, _, _, _, _, rfl⟩ := v2ToV3_inv d v3 h
  refine ⟨rfl, rfl, ?_, ?_⟩
  · intro hs; simp only [v2KeyMeta, hs]; rfl
  · intro hs; simp only [v2KeyMeta, hs]; rfl
example : exV2.sep = .slash ∧ ∃ v3, v2ToV3 exV2 = .ok v3 := ⟨rfl, exV3, v2ToV3_exV2_ok⟩

/-- **endianness**: without an array-to-bytes filter/compressor the `bytes` codec follows the filters, big-endian for
    the prefix `>`, little-endian for `<` and for `|` (no endianness: the native order); with one, no `bytes` codec
    is added -/
theorem v2ToV3_endianness (d : ArrayDocV2) (v3 : ArrayDoc) (h : v2ToV3 d = .ok v3) :
    (hasA2B d = false → ∃ post, v3.codecs = (if d.order = .F then [transposeMeta d.shape.length] else []) ++
        filterCodecs d ++ [bytesMeta (docEndian d)] ++ post ∧ post.length ≤ 1) ∧
    (hasA2B d = true → ∃ post, v3.codecs = (if d.order = .F then [transposeMeta d.shape.length] else []) ++
        filterCodecs d ++ (d.compressor.bind compressorA2B).toList ++ post ∧ post.length ≤ 1) ∧
    (∀ r, d.dtype = .simple (62 :: r) → docEndian d = .big) ∧
    (∀ r, d.dtype = .simple (60 :: r) → docEndian d = .little) ∧
    (∀ r, d.dtype = .simple (124 :: r) → docEndian d = .little) ∧
    (bytesMeta .big).config = some [(ascii "endian", .str (ascii "big"))] ∧
    (bytesMeta .little).config = some [(ascii "endian", .str (ascii "little"))] := by
  obtain ⟨s, endian, b2b, hs, he, hc, hb⟩ := v2ToV3_codecs d v3 h
  have hn : simpleName d = s := by simp [simpleName, hs]
  have hd : docEndian d = endian.getD .little := by rw [endianOf_getD s endian he, docEndian, hn]; rfl
  have hl : b2b.length ≤ 1 := b2b_length_le _ _ _ hb
  have hc' : v3.codecs = (if d.order = .F then [transposeMeta d.shape.length] else []) ++ filterCodecs d ++
        (d.compressor.bind compressorA2B).toList ++ (if hasA2B d then [] else [bytesMeta (docEndian d)]) ++ b2b := by
    rw [hc, codecsHead_eq, hd]; rfl
  refine ⟨?_, ?_, ?_, ?_, ?_, rfl, rfl⟩
  · intro ha
    refine ⟨b2b, ?_, hl⟩
    have hnone : d.compressor.bind compressorA2B = none := by
      have := ha
      simp only [hasA2B, Bool.or_eq_false_iff] at this
      simpa using this.2
    rw [hc', ha, hnone]; simp
  · intro ha
    refine ⟨b2b, ?_, hl⟩
    rw [hc', ha]; simp
  · intro r hr; simp [docEndian, simpleName, hr]
  · intro r hr; simp [docEndian, simpleName, hr]
  · intro r hr; simp [docEndian, simpleName, hr]
example : hasA2B exV2 = false ∧ exV2.dtype = .simple (62 :: ascii "i2") ∧ ∃ v3, v2ToV3 exV2 = .ok v3 :=
  ⟨by decide +kernel, by rfl, exV3, v2ToV3_exV2_ok⟩

/-- **fill value**: what the V3 document holds is `fillConv` of the V3 data type name and the V2 fill value -/
theorem v2ToV3_fill (d : ArrayDocV2) (v3 : ArrayDoc) (h : v2ToV3 d = .ok v3) :
    fillConv (dtypeNameV3 (simpleName d)) d.fill = some v3.fill := by
  obtain ⟨s, endian, fill, cs, hs, _, hf, _, _, rfl⟩ := v2ToV3_inv d v3 h
  have hn : simpleName d = s := by simp [simpleName, hs]
  rw [hn]; exact hf
example : ∃ v3, v2ToV3 exV2 = .ok v3 := ⟨exV3, v2ToV3_exV2_ok⟩
/-- the non-finite names stay names, for every data type -/
theorem fillConv_nonfinite (n : Str) :
    fillConv n .nan = some (.str (ascii "NaN")) ∧ fillConv n .inf = some (.str (ascii "Infinity")) ∧
    fillConv n .ninf = some (.str (ascii "-Infinity")) := by
  refine ⟨?_, ?_, ?_⟩ <;>
  · simp only [fillConv, fillV2ToV3, fillAsU64]
    split <;> simp
/-- a number stays the same number token, except for `bool` and `string` -/
theorem fillConv_num (n : Str) (t : List Char) (h1 : n ≠ ascii "bool") (h2 : n ≠ ascii "string") :
    fillConv n (.num t) = some (.num t) := by
  simp [fillConv, fillV2ToV3, h1, h2]
example : ascii "int16" ≠ ascii "bool" ∧ ascii "int16" ≠ ascii "string" := by decide
/-- `bool`: 0 and 1 become `false` and `true`, any other unsigned integer is rejected -/
theorem fillConv_bool (t : List Char) (k : Nat) (h : asU64 t = some k) :
    fillConv (ascii "bool") (.num t) = (if k = 0 then some (.bool false) else if k = 1 then some (.bool true) else none) := by
  simp only [fillConv, fillV2ToV3, fillAsU64, h, beq_self_eq_true, if_true]
  split
  · next h0 => cases h0; rfl
  · next h1 => cases h1; rfl
  · next h0 h1 hk =>
    cases hk
    have a : k ≠ 0 := fun e => h0 (by rw [e])
    have b : k ≠ 1 := fun e => h1 (by rw [e])
    simp [a, b]
  · next hk => cases hk
example : asU64 ['1'] = some 1 := by decide
/-- `null` converts only for `string` (the empty string); for `string` the integer 0 is the empty string as well -/
theorem fillConv_null (n : Str) :
    fillConv n .null = (if n = ascii "string" then some (.str []) else none) := by
  by_cases hn : n = ascii "string"
  · subst hn; rw [if_pos rfl]; rfl
  · simp [fillConv, fillV2ToV3, hn]
theorem fillConv_string_zero (t : List Char) (h : asU64 t = some 0) : fillConv (ascii "string") (.num t) = some (.str []) := by
  have hb : (ascii "string" == ascii "bool") = false := by decide
  simp [fillConv, fillV2ToV3, fillAsU64, h, hb]
example : asU64 ['0'] = some 0 := by decide
/-- a `null` fill value of a non-string array is an unsupported fill value -/
theorem v2ToV3_null_fill (d : ArrayDocV2) (s : Str) (h : d.dtype = .simple s) (hp : (endianOf s).isSome = true)
    (hf : d.fill = .null) (hs : dtypeNameV3 s ≠ ascii "string") : v2ToV3 d = .error .unsupportedFillValue := by
  obtain ⟨e, he⟩ := Option.isSome_iff_exists.mp hp
  have hfc : fillConv (dtypeNameV3 s) d.fill = none := by
    rw [hf]; simp [fillConv, fillV2ToV3, hs]
  simp [v2ToV3, h, he, hfc]
example : (endianOf (ascii ">i2")).isSome = true ∧ dtypeNameV3 (ascii ">i2") ≠ ascii "string" := by decide +kernel

/-- **ranks**: the conversion itself does not compare ranks — the chunk grid it produces has the rank of `chunks`;
    opening (`Array::new_with_metadata`: `InvalidChunkGridDimensionality`, after `validate_metadata`) accepts the
    produced document exactly when `shape` and `chunks` have equal length and no additional field must be understood -/
theorem v2ToV3_rank_consistent (d : ArrayDocV2) (v3 : ArrayDoc) (h : v2ToV3 d = .ok v3) :
    regularRank v3.chunkGrid = some d.chunks.length ∧
    (structOk v3 d.chunks.length = true ↔ ((∀ kv ∈ d.extra, kv.2.mu = false) ∧ d.chunks.length = d.shape.length)) := by
  obtain ⟨s, endian, fill, cs, _, _, _, _, _, rfl⟩ := v2ToV3_inv d v3 h
  refine ⟨regularRank_regularMeta _, ?_⟩
  simp [structOk, List.all_eq_true]
example : ∃ v3, v2ToV3 exV2 = .ok v3 ∧ structOk v3 exV2.chunks.length = true := ⟨exV3, v2ToV3_exV2_ok, by decide⟩
/-- unequal ranks are rejected when the array is opened -/
theorem openOkV2_rank (d : ArrayDocV2) (h : d.shape.length ≠ d.chunks.length) : openOkV2 d = false := by
  cases hv : v2ToV3 d with
  | error e => simp [openOkV2, hv]
  | ok v3 =>
    obtain ⟨s, endian, fill, cs, _, _, _, _, _, rfl⟩ := v2ToV3_inv d v3 hv
    have h' : d.chunks.length ≠ d.shape.length := fun e => h e.symm
    simp [openOkV2, hv, structOk, h']
example : ({ exV2 with chunks := [['2']] } : ArrayDocV2).shape.length ≠ ({ exV2 with chunks := [['2']] } : ArrayDocV2).chunks.length := by decide
/-- what opening demands -/
theorem openOkV2_demands (d : ArrayDocV2) (h : openOkV2 d = true) :
    d.shape.length = d.chunks.length ∧ (∀ kv ∈ d.extra, kv.2.mu = false) ∧ ∃ v3, v2ToV3 d = .ok v3 := by
  cases hv : v2ToV3 d with
  | error e => simp [openOkV2, hv] at h
  | ok v3 =>
    obtain ⟨s, endian, fill, cs, _, _, _, _, _, rfl⟩ := v2ToV3_inv d v3 hv
    simp only [openOkV2, hv, structOk, Bool.and_eq_true, List.all_eq_true, beq_iff_eq, Bool.not_eq_true',
      Bool.and_true] at h
    exact ⟨h.2.2.symm, h.1, _, rfl⟩
example : openOkV2 exV2 = true := by decide +kernel

end Zarrs.C13V2
