import ZarrsModel.Model.ShardPDAsync
import ZarrsModel.Model.WriteMapShard
import ZarrsModel.Lemmas.ShardPDAsync2
import ZarrsModel.Lemmas.ShardPDAsync3
import ZarrsModel.Props.C02Shard
set_option Elab.async false
set_option maxRecDepth 8000
/-
C07 / C17 for the ASYNCHRONOUS sharding partial decoder (`AsyncShardingPartialDecoder`, Model/ShardPDAsync.lean)
against the synchronous one (`ShardingPartialDecoder`, Model/ShardPD.lean).  The two are different algorithms for
fixed-size data types (the async one fetches and decodes WHOLE stored inner chunks, then extracts; stored items first,
not-stored items afterwards, into an uninitialised buffer):

* on every legal shard the two return the same answer (= decode + slice); an absent value is fill for both;
* a live index entry of the wrong size (fixed-size inner chain) or reaching outside the value is an error for both;
* on a TRUNCATED shard they differ (the observation): the sync decoder answers from the bytes it needs, the async one
  fails on the whole inner chunk — such values are outside the agreement theorem (no history of the API produces them);
* the views the async decoder writes tile the region's buffer; the seeded mispairing does not; the seeded
  "validation dropped" variant returns data where the real decoder errs.
Helper lemmas: Lemmas/ShardPDAsync{,2,3}.lean.
-/
namespace Zarrs.C07S
open Zarrs Zarrs.Codec Zarrs.Partial Zarrs.C02

/-! ### the running example: a 4×4 shard of 2×2 inner chunks of 2-byte little-endian elements, inner chunk (0,1)
missing (a NOT-STORED inner chunk precedes stored ones), index at the START, no checksum -/

private def exInner : Chain := { a2a := [], big := false, es := 2, unit := 2, b2b := [] }
private def exCfg : Shard.Cfg := ⟨4, false, false, false⟩
private def exFill : Elem := [7, 7]
private def exShard : List Elem :=
  (List.range 16).map (fun i => if i % 4 ≥ 2 ∧ i < 8 then [7, 7] else [i, 100 + i])
private def exPieces : List (List Elem) := splitShard [4, 4] [2, 2] exShard
private def exChunks : List (Option Bytes) := shardChunks (exInner.encode [2, 2]) exFill [4, 4] [2, 2] exShard
private def exValue : Bytes := Shard.encode exCfg exChunks
private def exRegions : List Subset := [⟨[1, 1], [2, 2]⟩, ⟨[0, 1], [4, 2]⟩, ⟨[0, 2], [1, 0]⟩, ⟨[0, 0], [4, 4]⟩]
private def exEntries : List (Nat × Nat) := [(64, 8), (Shard.sentinel, Shard.sentinel), (72, 8), (80, 8)]

example : exValue.length = 64 + 24 := by decide
example : shardIndexPD exCfg true [4, 4] [2, 2] (storeHandle (some exValue)) = some (some exEntries) := by decide

private def exEncodes (xs : List Elem) (b : Bytes) : Prop := b = exInner.encode [2, 2] xs ∧ chunkOk 2 [2, 2] xs

/-! ### agreement on legal shards -/

/-- **the async decoder agrees with the sync decoder on every legal shard** (hypotheses: those of
`C02S.shardPD_ok`): for every in-bounds region list both return exactly the regions of the assembled shard
(= full decode + slice, `C02S.assemble_eq_full_decode`) -/
theorem asyncShardPD_eq_shardPD (cfg : Shard.Cfg) (validate : Bool) (shard inner : Shape) (es : Nat) (fill : Elem)
    (fixed : Option Nat) (innerPD : Shape → Elem → BHandle → AHandle) (encodes : List Elem → Bytes → Prop)
    (h : BHandle) (v : Bytes) (chunks : List (Option Bytes)) (xss : List (List Elem))
    (ht : Partial.tiles inner shard = true) (hn : cfg.nChunks = prod (zipDiv shard inner)) (hfill : fill.length = es)
    (hh : BHandleOk h v) (hlegal : Shard.Legal cfg v chunks) (hxl : xss.length = cfg.nChunks)
    (hx : ∀ i (h1 : i < chunks.length) (h2 : i < xss.length),
      match chunks[i] with
      | some b => encodes xss[i] b ∧ chunkOk es inner xss[i]
      | none => xss[i] = List.replicate (prod inner) fill)
    (hinner : ∀ g b xs, encodes xs b → BHandleOk g b → AHandleOk (innerPD inner fill g) inner xs)
    (hfixed : ∀ n, fixed = some n → ∀ xs b, encodes xs b → b.length = n)
    (rs : List Subset) (hrs : ∀ r ∈ rs, r.wf = true ∧ r.inboundsShape shard = true) :
    asyncShardPD cfg validate shard inner es fill fixed innerPD h rs =
      shardPD cfg validate shard inner es fill fixed innerPD h rs ∧
    shardPD cfg validate shard inner es fill fixed innerPD h rs =
      some (rs.map (fun r => r.extract shard (assemble shard inner xss))) := by
  have hs := C02S.shardPD_ok cfg validate shard inner es fill fixed innerPD encodes h v chunks xss ht hn hfill hh hlegal
    hxl hx hinner hfixed rs hrs
  have ha := asyncShardPD_ok' cfg validate shard inner es fill fixed innerPD encodes h v chunks xss ht hn hfill hh
    hlegal hxl hx hinner hfixed rs hrs
  exact ⟨ha.trans hs.symm, hs⟩

/-- … as a served array (the form of `C02S.shardPD_ok`) -/
theorem asyncShardPD_ok (cfg : Shard.Cfg) (validate : Bool) (shard inner : Shape) (es : Nat) (fill : Elem)
    (fixed : Option Nat) (innerPD : Shape → Elem → BHandle → AHandle) (encodes : List Elem → Bytes → Prop)
    (h : BHandle) (v : Bytes) (chunks : List (Option Bytes)) (xss : List (List Elem))
    (ht : Partial.tiles inner shard = true) (hn : cfg.nChunks = prod (zipDiv shard inner)) (hfill : fill.length = es)
    (hh : BHandleOk h v) (hlegal : Shard.Legal cfg v chunks) (hxl : xss.length = cfg.nChunks)
    (hx : ∀ i (h1 : i < chunks.length) (h2 : i < xss.length),
      match chunks[i] with
      | some b => encodes xss[i] b ∧ chunkOk es inner xss[i]
      | none => xss[i] = List.replicate (prod inner) fill)
    (hinner : ∀ g b xs, encodes xs b → BHandleOk g b → AHandleOk (innerPD inner fill g) inner xs)
    (hfixed : ∀ n, fixed = some n → ∀ xs b, encodes xs b → b.length = n) :
    AHandleOk (asyncShardPD cfg validate shard inner es fill fixed innerPD h) shard (assemble shard inner xss) :=
  asyncShardPD_ok' cfg validate shard inner es fill fixed innerPD encodes h v chunks xss ht hn hfill hh hlegal hxl hx
    hinner hfixed

/-- the hypotheses hold of the example (index at the start) -/
example : Partial.tiles [2, 2] [4, 4] = true ∧ exCfg.nChunks = prod (zipDiv [4, 4] [2, 2]) ∧ exFill.length = 2 ∧
    BHandleOk (storeHandle (some exValue)) exValue ∧ Shard.Legal exCfg exValue exChunks ∧
    exPieces.length = exCfg.nChunks ∧
    (∀ r ∈ exRegions, r.wf = true ∧ r.inboundsShape [4, 4] = true) :=
  ⟨by decide, by decide, by decide, storeHandle_some_ok _, Shard.shard_legal exCfg exChunks (by decide) (by decide),
    by decide, by decide⟩

/-- … and the conclusion evaluated: both decoders, same answer, the regions of the shard -/
example : asyncShardPD exCfg true [4, 4] [2, 2] 2 exFill (some 8) exInner.partialDecoder (storeHandle (some exValue)) exRegions =
      shardPD exCfg true [4, 4] [2, 2] 2 exFill (some 8) exInner.partialDecoder (storeHandle (some exValue)) exRegions ∧
    asyncShardPD exCfg true [4, 4] [2, 2] 2 exFill (some 8) exInner.partialDecoder (storeHandle (some exValue)) exRegions =
      some (exRegions.map (fun r => r.extract [4, 4] exShard)) := by decide

/-! #### ALL hypotheses of `asyncShardPD_eq_shardPD` / `asyncShardPD_ok` instantiated (also `hx`, `hinner`, `hfixed`)
on the shard with the index at the END (with crc32c): stored inner chunks (0,0), (1,0), (1,1), not-stored (0,1) -/

private theorem exPieces_val : exPieces =
    [[[0, 100], [1, 101], [4, 104], [5, 105]], [[7, 7], [7, 7], [7, 7], [7, 7]],
     [[8, 108], [9, 109], [12, 112], [13, 113]], [[10, 110], [11, 111], [14, 114], [15, 115]]] := by decide
private theorem exChunks_val : exChunks =
    [some [0, 100, 1, 101, 4, 104, 5, 105], none, some [8, 108, 9, 109, 12, 112, 13, 113],
     some [10, 110, 11, 111, 14, 114, 15, 115]] := by decide

/-- `hx`: the stored inner chunks are the encodings of the pieces of the shard, the not-stored one stands for fill -/
private theorem ex_hx : ∀ i (_ : i < exChunks.length) (h2 : i < exPieces.length),
    match exChunks[i] with
    | some b => exEncodes exPieces[i] b ∧ chunkOk 2 [2, 2] exPieces[i]
    | none => exPieces[i] = List.replicate (prod [2, 2]) exFill := by
  intro i _ h2
  have h4 : i < 4 := h2
  have : i = 0 ∨ i = 1 ∨ i = 2 ∨ i = 3 := by omega
  rcases this with rfl | rfl | rfl | rfl <;>
    simp only [exChunks_val, exPieces_val, List.getElem_cons_zero, List.getElem_cons_succ]
  · exact ⟨⟨by decide, by decide, by decide⟩, by decide, by decide⟩
  · decide
  · exact ⟨⟨by decide, by decide, by decide⟩, by decide, by decide⟩
  · exact ⟨⟨by decide, by decide, by decide⟩, by decide, by decide⟩

/-- `hinner`: the inner chain's partial decoder is lawful on every handle serving an encoding (`C02.bytesPD_ok`) -/
private theorem ex_hinner : ∀ g b xs, exEncodes xs b → BHandleOk g b →
    AHandleOk (exInner.partialDecoder [2, 2] exFill g) [2, 2] xs := by
  intro g b xs ⟨hb, hx⟩ hg
  subst hb
  rw [partialDecoder_eq]
  rw [encode_eq] at hg
  exact bytesPD_ok' false 2 2 [2, 2] exFill g xs (by decide) (by decide) (by decide) hx.1 hx.2 hg

/-- `hfixed`: every encoding has the size the inner chain declares (8 bytes) -/
private theorem ex_hfixed : ∀ n, exInner.fixedSize [] [2, 2] = some n → ∀ xs b, exEncodes xs b → b.length = n := by
  intro n hn xs b ⟨hb, hx⟩
  subst hb
  exact chain_encode_length exInner [] [2, 2] xs n (by decide) (by decide) hx.1 hx.2 trivial trivial hn

private def exCfgE : Shard.Cfg := ⟨4, true, false, true⟩
private def exValueE : Bytes := Shard.encode exCfgE exChunks
/-- the first region overlaps the stored inner chunk (0,0) and the NOT-stored (0,1) only; the second meets all four;
then the not-stored chunk alone, and the whole shard -/
private def exRegionsE : List Subset := [⟨[0, 1], [2, 2]⟩, ⟨[1, 1], [2, 2]⟩, ⟨[0, 2], [2, 2]⟩, ⟨[0, 0], [4, 4]⟩]

example : exValueE.length = 24 + 68 := by decide
example : shardIndexPD exCfgE true [4, 4] [2, 2] (storeHandle (some exValueE)) =
    some (some [(0, 8), (Shard.sentinel, Shard.sentinel), (8, 8), (16, 8)]) := by decide
example : exInner.fixedSize [] [2, 2] = some 8 := by decide

/-- the theorem applied: every hypothesis of `asyncShardPD_eq_shardPD` discharged on the index-at-end shard -/
example :
    asyncShardPD exCfgE true [4, 4] [2, 2] 2 exFill (exInner.fixedSize [] [2, 2]) exInner.partialDecoder
        (storeHandle (some exValueE)) exRegionsE =
      shardPD exCfgE true [4, 4] [2, 2] 2 exFill (exInner.fixedSize [] [2, 2]) exInner.partialDecoder
        (storeHandle (some exValueE)) exRegionsE ∧
    shardPD exCfgE true [4, 4] [2, 2] 2 exFill (exInner.fixedSize [] [2, 2]) exInner.partialDecoder
        (storeHandle (some exValueE)) exRegionsE =
      some (exRegionsE.map (fun r => r.extract [4, 4] (assemble [4, 4] [2, 2] exPieces))) :=
  asyncShardPD_eq_shardPD exCfgE true [4, 4] [2, 2] 2 exFill (exInner.fixedSize [] [2, 2]) exInner.partialDecoder
    exEncodes (storeHandle (some exValueE)) exValueE exChunks exPieces (by decide) (by decide) (by decide)
    (storeHandle_some_ok _) (Shard.shard_legal exCfgE exChunks (by decide) (by decide)) (by decide) ex_hx ex_hinner
    ex_hfixed exRegionsE (by decide)

/-- … and evaluated: the assembled pieces are the shard; the answer of both decoders, element by element (the first
region: column 1 of the stored chunk (0,0) beside column 2 — fill — of the not-stored chunk (0,1)) -/
example : assemble [4, 4] [2, 2] exPieces = exShard := by decide
example : asyncShardPD exCfgE true [4, 4] [2, 2] 2 exFill (some 8) exInner.partialDecoder (storeHandle (some exValueE))
      exRegionsE =
    some [[[1, 101], [7, 7], [5, 105], [7, 7]], [[5, 105], [7, 7], [9, 109], [10, 110]],
      [[7, 7], [7, 7], [7, 7], [7, 7]], exShard] ∧
    shardPD exCfgE true [4, 4] [2, 2] 2 exFill (some 8) exInner.partialDecoder (storeHandle (some exValueE))
      exRegionsE =
    some [[[1, 101], [7, 7], [5, 105], [7, 7]], [[5, 105], [7, 7], [9, 109], [10, 110]],
      [[7, 7], [7, 7], [7, 7], [7, 7]], exShard] := by decide

/-- `asyncShardPD_ok` applied to the same shard (all hypotheses discharged): the async decoder over the stored value
is a handle serving the 4×4 array `exShard` -/
example : AHandleOk (asyncShardPD exCfgE true [4, 4] [2, 2] 2 exFill (exInner.fixedSize [] [2, 2])
    exInner.partialDecoder (storeHandle (some exValueE))) [4, 4] exShard := by
  have h := asyncShardPD_ok exCfgE true [4, 4] [2, 2] 2 exFill (exInner.fixedSize [] [2, 2]) exInner.partialDecoder
    exEncodes (storeHandle (some exValueE)) exValueE exChunks exPieces (by decide) (by decide) (by decide)
    (storeHandle_some_ok _) (Shard.shard_legal exCfgE exChunks (by decide) (by decide)) (by decide) ex_hx ex_hinner
    ex_hfixed
  have he : assemble [4, 4] [2, 2] exPieces = exShard := by decide
  rw [he] at h
  exact h

/-- … also of the index-at-start shard of the running example -/
example : AHandleOk (asyncShardPD exCfg true [4, 4] [2, 2] 2 exFill (exInner.fixedSize [] [2, 2])
    exInner.partialDecoder (storeHandle (some exValue))) [4, 4] (assemble [4, 4] [2, 2] exPieces) :=
  asyncShardPD_ok exCfg true [4, 4] [2, 2] 2 exFill (exInner.fixedSize [] [2, 2]) exInner.partialDecoder
    exEncodes (storeHandle (some exValue)) exValue exChunks exPieces (by decide) (by decide) (by decide)
    (storeHandle_some_ok _) (Shard.shard_legal exCfg exChunks (by decide) (by decide)) (by decide) ex_hx ex_hinner
    ex_hfixed

/-- **an absent value reads as fill for both decoders** -/
theorem asyncShardPD_absent_eq (cfg : Shard.Cfg) (validate : Bool) (shard inner : Shape) (es : Nat) (fill : Elem)
    (fixed : Option Nat) (innerPD : Shape → Elem → BHandle → AHandle) (h : BHandle)
    (ht : Partial.tiles inner shard = true) (hh : BHandleAbsent h) (rs : List Subset)
    (hrs : ∀ r ∈ rs, r.wf = true ∧ r.rank = shard.length) :
    asyncShardPD cfg validate shard inner es fill fixed innerPD h rs =
      some (rs.map (fun r => List.replicate r.numElements fill)) ∧
    shardPD cfg validate shard inner es fill fixed innerPD h rs =
      some (rs.map (fun r => List.replicate r.numElements fill)) :=
  ⟨asyncShardPD_absent' cfg validate shard inner es fill fixed innerPD h ht hh rs hrs,
    C02S.shardPD_absent cfg validate shard inner es fill fixed innerPD h ht hh rs hrs⟩

example : Partial.tiles [2, 2] [4, 4] = true ∧ BHandleAbsent (storeHandle none) ∧
    ∀ r ∈ exRegions, r.wf = true ∧ r.rank = [4, 4].length := ⟨by decide, storeHandle_none_absent, by decide⟩
example : asyncShardPD exCfg true [4, 4] [2, 2] 2 exFill (some 8) exInner.partialDecoder (storeHandle none) exRegions =
    some [List.replicate 4 [7, 7], List.replicate 8 [7, 7], [], List.replicate 16 [7, 7]] := by decide
/-- the theorem applied (both decoders, whatever the configuration, the inner chain and the declared size) -/
example : asyncShardPD exCfgE false [4, 4] [2, 2] 2 exFill none exInner.partialDecoder (storeHandle none) exRegions =
      some (exRegions.map (fun r => List.replicate r.numElements exFill)) ∧
    shardPD exCfgE false [4, 4] [2, 2] 2 exFill none exInner.partialDecoder (storeHandle none) exRegions =
      some (exRegions.map (fun r => List.replicate r.numElements exFill)) :=
  asyncShardPD_absent_eq exCfgE false [4, 4] [2, 2] 2 exFill none exInner.partialDecoder (storeHandle none)
    (by decide) storeHandle_none_absent exRegions (by decide)
example : shardPD exCfg true [4, 4] [2, 2] 2 exFill (some 8) exInner.partialDecoder (storeHandle none) exRegions =
    some [List.replicate 4 [7, 7], List.replicate 8 [7, 7], [], List.replicate 16 [7, 7]] := by decide

/-! ### corrupted index entries: the class of error agrees -/

/-- **a corrupted live index entry is an error for BOTH decoders**, for every request with an in-bounds region
touching that inner chunk.  Exact conditions, the same for the two decoders:
(1) the inner codecs declare a fixed encoded size `n` and the entry's size differs (`validate_inner_chunk_size`; each
    decoder errs whatever the inner chain, the handle and the place the entry points to), or
(2) the entry reaches outside the stored value, the input handle rejects such ranges and the inner chain reads its
    whole input (`ReadsWhole`: without it the SYNC decoder answers from the bytes it needs when those are inside the
    value, `C02S.shardPD_error_on_bad_entry`; see `async_sync_differ_on_truncated` below for the other direction). -/
theorem asyncShardPD_error_agrees_on_entries (cfg : Shard.Cfg) (validate : Bool) (shard inner : Shape) (es : Nat)
    (fill : Elem) (fixed : Option Nat) (innerPD : Shape → Elem → BHandle → AHandle) (h : BHandle) (v : Bytes)
    (entries : List (Nat × Nat))
    (ht : Partial.tiles inner shard = true)
    (hidx : shardIndexPD cfg validate shard inner h = some (some entries))
    (rs : List Subset) (r : Subset) (hr : r ∈ rs) (hwf : r.wf = true) (hb : r.inboundsShape shard = true)
    (i : Idx) (hi : r.contains i = true) (off size : Nat)
    (hent : entries[ravel (zipDiv i inner) (zipDiv shard inner)]? = some (off, size))
    (hlive : Shard.isLive (off, size) = true)
    (hbad : (∃ n, fixed = some n ∧ size ≠ n) ∨
      (off + size > v.length ∧ BHandleStrict h v ∧ ReadsWhole (innerPD inner fill))) :
    asyncShardPD cfg validate shard inner es fill fixed innerPD h rs = none ∧
    shardPD cfg validate shard inner es fill fixed innerPD h rs = none := by
  rcases hbad with ⟨n, hn, hsize⟩ | ⟨hout, hstrict, hwhole⟩
  · subst hn
    exact ⟨asyncShardPD_none_of_item cfg validate shard inner es fill (some n) innerPD h entries ht hidx rs r hr hwf hb
        i hi (off, size) hent hlive
        (fun cs => asyncDecodeStored_wrong_size n fill inner innerPD h r cs off size hsize),
      C02S.shardPD_error_on_wrong_size cfg validate shard inner es fill n innerPD h entries ht hidx rs r hr hwf hb i hi
        off size hent hlive hsize⟩
  · exact ⟨asyncShardPD_none_of_item cfg validate shard inner es fill fixed innerPD h entries ht hidx rs r hr hwf hb
        i hi (off, size) hent hlive
        (fun cs => asyncDecodeStored_outside fixed fill inner innerPD h v hstrict hwhole r cs off size hout),
      C02S.shardPD_error_on_bad_entry cfg validate shard inner es fill fixed innerPD h v entries ht hstrict hidx hwhole
        rs r hr hwf hb i hi off size hent hlive hout⟩

/-- corrupted index: the entry of inner chunk (1,0) (offset 72, 8 bytes) says 9 bytes — inside the value -/
private def exBadEntries : List (Nat × Nat) := [(64, 8), (Shard.sentinel, Shard.sentinel), (72, 9), (80, 8)]
private def exBadValue : Bytes := Shard.encodeIndex exCfg exBadEntries ++ exValue.drop 64

/-- the hypotheses of case (1) hold: the `bytes`-only inner chain declares 8 bytes, the region [2,0]+[1,1] touches
inner chunk (1,0) whose entry says 9 -/
example : Partial.tiles [2, 2] [4, 4] = true ∧ exInner.fixedSize [] [2, 2] = some 8 ∧
    shardIndexPD exCfg true [4, 4] [2, 2] (storeHandle (some exBadValue)) = some (some exBadEntries) ∧
    (Subset.mk [2, 0] [1, 1]).wf = true ∧ (Subset.mk [2, 0] [1, 1]).inboundsShape [4, 4] = true ∧
    (Subset.mk [2, 0] [1, 1]).contains [2, 0] = true ∧
    exBadEntries[ravel (zipDiv [2, 0] [2, 2]) (zipDiv [4, 4] [2, 2])]? = some (72, 9) ∧
    Shard.isLive (72, 9) = true ∧ (∃ n, some 8 = some n ∧ 9 ≠ n) :=
  ⟨by decide, by decide, by decide, by decide, by decide, by decide, by decide, by decide, ⟨8, rfl, by decide⟩⟩
example : asyncShardPD exCfg true [4, 4] [2, 2] 2 exFill (some 8) exInner.partialDecoder (storeHandle (some exBadValue))
      [⟨[0, 0], [1, 1]⟩, ⟨[2, 0], [1, 1]⟩] = none ∧
    shardPD exCfg true [4, 4] [2, 2] 2 exFill (some 8) exInner.partialDecoder (storeHandle (some exBadValue))
      [⟨[0, 0], [1, 1]⟩, ⟨[2, 0], [1, 1]⟩] = none := by decide
/-- requests that do not touch the inner chunk are answered by both -/
example : asyncShardPD exCfg true [4, 4] [2, 2] 2 exFill (some 8) exInner.partialDecoder (storeHandle (some exBadValue))
      [⟨[0, 0], [1, 1]⟩, ⟨[2, 2], [2, 2]⟩] = some [[[0, 100]], [[10, 110], [11, 111], [14, 114], [15, 115]]] ∧
    shardPD exCfg true [4, 4] [2, 2] 2 exFill (some 8) exInner.partialDecoder (storeHandle (some exBadValue))
      [⟨[0, 0], [1, 1]⟩, ⟨[2, 2], [2, 2]⟩] = some [[[0, 100]], [[10, 110], [11, 111], [14, 114], [15, 115]]] := by decide

/-- **the seeded "validation dropped" variant is refuted**: without `validate_inner_chunk_size` (`fixed := none`,
`asyncDecodeStoredNoCheck`) the async decoder answers the request above with the first bytes of the 9-byte interval,
where the real decoder (and the sync one) errs -/
theorem validation_dropped_returns_data :
    asyncShardPD exCfg true [4, 4] [2, 2] 2 exFill none exInner.partialDecoder (storeHandle (some exBadValue))
      [⟨[2, 0], [1, 1]⟩] = some [[[8, 108]]] ∧
    asyncShardPD exCfg true [4, 4] [2, 2] 2 exFill (exInner.fixedSize [] [2, 2]) exInner.partialDecoder
      (storeHandle (some exBadValue)) [⟨[2, 0], [1, 1]⟩] = none ∧
    shardPD exCfg true [4, 4] [2, 2] 2 exFill (exInner.fixedSize [] [2, 2]) exInner.partialDecoder
      (storeHandle (some exBadValue)) [⟨[2, 0], [1, 1]⟩] = none := by decide

example : ∀ fill ish ipd h r q, asyncDecodeStoredNoCheck fill ish ipd h r q = asyncDecodeStored none fill ish ipd h r q :=
  fun _ _ _ _ _ _ => rfl

/-- the REAL decoder on the same input satisfies the property the seeded variant violates:
`asyncShardPD_error_agrees_on_entries`, case (1), APPLIED to the request of `validation_dropped_returns_data` with the
size the inner chain declares — an error for the async and for the sync decoder -/
example :
    asyncShardPD exCfg true [4, 4] [2, 2] 2 exFill (exInner.fixedSize [] [2, 2]) exInner.partialDecoder
      (storeHandle (some exBadValue)) [⟨[2, 0], [1, 1]⟩] = none ∧
    shardPD exCfg true [4, 4] [2, 2] 2 exFill (exInner.fixedSize [] [2, 2]) exInner.partialDecoder
      (storeHandle (some exBadValue)) [⟨[2, 0], [1, 1]⟩] = none :=
  asyncShardPD_error_agrees_on_entries exCfg true [4, 4] [2, 2] 2 exFill (exInner.fixedSize [] [2, 2])
    exInner.partialDecoder (storeHandle (some exBadValue)) exBadValue exBadEntries (by decide) (by decide)
    [⟨[2, 0], [1, 1]⟩] ⟨[2, 0], [1, 1]⟩ (List.mem_singleton.mpr rfl) (by decide) (by decide) [2, 0] (by decide) 72 9
    (by decide) (by decide) (Or.inl ⟨8, by decide, by decide⟩)
/-- the seeded variant cannot be put through that theorem (its `fixed` is `none`: case (1) has no witness), and on
the LEGAL value the test it drops changes nothing: there the two coincide (= the regions of the shard) -/
example : ¬ ∃ n, (none : Option Nat) = some n ∧ 9 ≠ n := fun ⟨_, h, _⟩ => by cases h
example : asyncShardPD exCfg true [4, 4] [2, 2] 2 exFill none exInner.partialDecoder (storeHandle (some exValue)) exRegions =
    asyncShardPD exCfg true [4, 4] [2, 2] 2 exFill (exInner.fixedSize [] [2, 2]) exInner.partialDecoder
      (storeHandle (some exValue)) exRegions := by decide

/-! ### the observation: truncated shards are outside the agreement -/

/-- the example value with its last byte removed: the index (at the start) is intact, the last stored inner chunk
(1,1) (offset 80, 8 bytes) lacks its last byte -/
private def exTruncated : Bytes := exValue.take (exValue.length - 1)

/-- **on a truncated shard the two decoders differ**: for the region [2,2]+[1,1] (the first element of inner chunk
(1,1)) the sync decoder reads bytes 80..82 and answers; the async decoder asks for the whole inner chunk (bytes
80..88 of an 87-byte value) and errs.  For a region needing the missing byte both err; regions not touching the
chunk are answered by both.  No history of the API produces such a value (`Shard.Legal` fails: the full decoder
rejects it). -/
theorem async_sync_differ_on_truncated :
    exTruncated.length = 87 ∧
    shardIndexPD exCfg true [4, 4] [2, 2] (storeHandle (some exTruncated)) = some (some exEntries) ∧
    shardPD exCfg true [4, 4] [2, 2] 2 exFill (some 8) exInner.partialDecoder (storeHandle (some exTruncated))
      [⟨[2, 2], [1, 1]⟩] = some [[[10, 110]]] ∧
    asyncShardPD exCfg true [4, 4] [2, 2] 2 exFill (some 8) exInner.partialDecoder (storeHandle (some exTruncated))
      [⟨[2, 2], [1, 1]⟩] = none ∧
    shardPD exCfg true [4, 4] [2, 2] 2 exFill (some 8) exInner.partialDecoder (storeHandle (some exTruncated))
      [⟨[3, 3], [1, 1]⟩] = none ∧
    asyncShardPD exCfg true [4, 4] [2, 2] 2 exFill (some 8) exInner.partialDecoder (storeHandle (some exTruncated))
      [⟨[3, 3], [1, 1]⟩] = none ∧
    asyncShardPD exCfg true [4, 4] [2, 2] 2 exFill (some 8) exInner.partialDecoder (storeHandle (some exTruncated))
      [⟨[0, 0], [4, 2]⟩] =
    shardPD exCfg true [4, 4] [2, 2] 2 exFill (some 8) exInner.partialDecoder (storeHandle (some exTruncated))
      [⟨[0, 0], [4, 2]⟩] ∧
    (Shard.decode exCfg true exTruncated).isOk = false := by decide

/-! ### C17: the views of the async decoder -/

/-- **the views the async decoder writes for a region tile that region's buffer exactly once** — stored inner chunks
(written first, each through the view of the overlap its own future returned) and not-stored ones (filled afterwards)
together: whenever the writes exist (whatever the index entries, the inner chain and the handle), for every
well-formed region of the right rank (in particular every in-bounds region of a shard that the inner shape tiles),
the byte ranges of the written views cover `[0, numElements * es)` with every byte once.  Hence the uninitialised
buffer (`Vec::with_capacity` + `set_len`) is never observed. -/
theorem asyncShardPD_tiles (fixed : Option Nat) (es : Nat) (fill : Elem) (inner cps : Shape)
    (entries : List (Nat × Nat)) (innerPD : Shape → Elem → BHandle → AHandle) (h : BHandle) (r : Subset)
    (hr : r.wf = true) (hpos : ∀ k ∈ inner, 0 < k) (hrank : inner.length = r.rank) (ws : List ViewWrite)
    (hws : asyncWrites fixed es fill inner cps entries innerPD h r = some ws) :
    Zarrs.tiles (r.numElements * es) ((asyncViews ws).flatMap (fun v => v.byteRanges r.shape es)) = true := by
  rw [tiles_iff_perm]
  have hp := asyncViews_perm fixed es fill inner cps entries innerPD h r ws hws
  refine List.Perm.trans ?_ (shardPD_perm inner r hr hpos hrank es)
  simp only [rangeBytes]
  exact List.Perm.flatMap_right _ (List.Perm.flatMap_right _ hp)

/-- … and on a legal shard the writes exist (`asyncShardPD_eq_shardPD`); the example: the whole 4×4 shard, stored
items (0,0), (1,0), (1,1) first, then the not-stored (0,1) -/
example : (Subset.mk [0, 0] [4, 4]).wf = true ∧ (∀ k ∈ [2, 2], 0 < k) ∧ [2, 2].length = (Subset.mk [0, 0] [4, 4]).rank ∧
    (asyncWrites (some 8) 2 exFill [2, 2] [2, 2] exEntries exInner.partialDecoder (storeHandle (some exValue))
      ⟨[0, 0], [4, 4]⟩).map asyncViews =
      some [⟨[0, 0], [2, 2]⟩, ⟨[2, 0], [2, 2]⟩, ⟨[2, 2], [2, 2]⟩, ⟨[0, 2], [2, 2]⟩] ∧
    Zarrs.tiles 32 (([⟨[0, 0], [2, 2]⟩, ⟨[2, 0], [2, 2]⟩, ⟨[2, 2], [2, 2]⟩, ⟨[0, 2], [2, 2]⟩] : List Subset).flatMap
      (fun v => v.byteRanges [4, 4] 2)) = true := by decide

/-- **the seeded mispairing is refuted**: zipping `results` (stored items only) with the unfiltered `chunk_info`
writes result `k` through the view of item `k`; with the not-stored inner chunk (0,1) before the stored (1,0), (1,1):
the view of (0,1) is written twice (decoded bytes of (1,0), then fill), the view of (1,1) never — its bytes of the
uninitialised buffer are returned — and the views no longer tile -/
theorem mispairing_breaks_tiling :
    (asyncWritesMispaired (some 8) exFill [2, 2] [2, 2] exEntries exInner.partialDecoder (storeHandle (some exValue))
      ⟨[0, 0], [4, 4]⟩).map asyncViews =
      some [⟨[0, 0], [2, 2]⟩, ⟨[0, 2], [2, 2]⟩, ⟨[2, 0], [2, 2]⟩, ⟨[0, 2], [2, 2]⟩] ∧
    Zarrs.tiles 32 (([⟨[0, 0], [2, 2]⟩, ⟨[0, 2], [2, 2]⟩, ⟨[2, 0], [2, 2]⟩, ⟨[0, 2], [2, 2]⟩] : List Subset).flatMap
      (fun v => v.byteRanges [4, 4] 2)) = false ∧
    ([⟨[0, 0], [2, 2]⟩, ⟨[0, 2], [2, 2]⟩, ⟨[2, 0], [2, 2]⟩, ⟨[0, 2], [2, 2]⟩] : List Subset).count ⟨[0, 2], [2, 2]⟩ = 2 ∧
    ([⟨[0, 0], [2, 2]⟩, ⟨[0, 2], [2, 2]⟩, ⟨[2, 0], [2, 2]⟩, ⟨[0, 2], [2, 2]⟩] : List Subset).count ⟨[2, 2], [2, 2]⟩ = 0 ∧
    -- the assembled region differs from the shard (the junk shows through, (1,0)'s data sits in (1,1)'s place … )
    (asyncWritesMispaired (some 8) exFill [2, 2] [2, 2] exEntries exInner.partialDecoder (storeHandle (some exValue))
      ⟨[0, 0], [4, 4]⟩).map (fun ws => applyViewWrites [4, 4] ws (List.replicate 16 [0, 0])) ≠ some exShard := by
  decide

/-- the REAL decoder on the same input satisfies the property the seeded mispairing violates: `asyncShardPD_tiles`
APPLIED to the region of `mispairing_breaks_tiling` (the whole shard): whatever writes `asyncWrites` produces, their
views tile the 32 bytes of the region's buffer -/
example : ∀ ws, asyncWrites (some 8) 2 exFill [2, 2] [2, 2] exEntries exInner.partialDecoder
      (storeHandle (some exValue)) ⟨[0, 0], [4, 4]⟩ = some ws →
    Zarrs.tiles ((Subset.mk [0, 0] [4, 4]).numElements * 2)
      ((asyncViews ws).flatMap (fun v => v.byteRanges (Subset.mk [0, 0] [4, 4]).shape 2)) = true :=
  fun ws hws => asyncShardPD_tiles (some 8) 2 exFill [2, 2] [2, 2] exEntries exInner.partialDecoder
    (storeHandle (some exValue)) ⟨[0, 0], [4, 4]⟩ (by decide) (by decide) (by decide) ws hws
/-- … and evaluated: the writes exist, each of the two views the seeded variant gets wrong is written exactly once,
and the assembled region is the shard whatever the uninitialised buffer held (two different `junk`s) -/
example :
    (asyncWrites (some 8) 2 exFill [2, 2] [2, 2] exEntries exInner.partialDecoder (storeHandle (some exValue))
      ⟨[0, 0], [4, 4]⟩).isSome = true ∧
    ((asyncWrites (some 8) 2 exFill [2, 2] [2, 2] exEntries exInner.partialDecoder (storeHandle (some exValue))
      ⟨[0, 0], [4, 4]⟩).map (fun ws => ((asyncViews ws).count ⟨[0, 2], [2, 2]⟩, (asyncViews ws).count ⟨[2, 2], [2, 2]⟩))) =
      some (1, 1) ∧
    (asyncWrites (some 8) 2 exFill [2, 2] [2, 2] exEntries exInner.partialDecoder (storeHandle (some exValue))
      ⟨[0, 0], [4, 4]⟩).map (fun ws => applyViewWrites [4, 4] ws (List.replicate 16 [0, 0])) = some exShard ∧
    asyncShardRegionFrom (List.replicate 16 [0, 0]) (some 8) 2 exFill [2, 2] [2, 2] exEntries exInner.partialDecoder
      (storeHandle (some exValue)) ⟨[0, 0], [4, 4]⟩ = some exShard ∧
    asyncShardRegionFrom ((List.range 16).map (fun i => [200 + i, 99])) (some 8) 2 exFill [2, 2] [2, 2] exEntries
      exInner.partialDecoder (storeHandle (some exValue)) ⟨[0, 0], [4, 4]⟩ = some exShard := by decide

/-! ### chains whose array-to-bytes codec is `sharding_indexed`, nested to any depth: the ASYNC decoder of the chain -/

private theorem okWith_lemma (c : ChainS) (sh : Shape) (fill : Elem) (h : C02S.chainSOk c sh fill) :
    c.okWith aOk BLaw sh fill :=
  ChainS.okWith_mono (fun l s hl => aStagesOk_aOk l s hl) (fun st hst b g hg => bStage_ok st hst b g hg) c sh fill h

/-- **C02 for the ASYNC partial decoder of chains with sharding codecs** (the twin of
`C02S.chainS_partial_eq_full_slice`, same hypotheses): array-to-array stages, then `sharding_indexed` whose inner chain
is again such a chain (or a `bytes` chain), then bytes-to-bytes stages, every sharding level decoded by
`AsyncShardingPartialDecoder` over the async decoder of its inner chain (`ChainS.asyncPartialDecoder`); on ANY handle
serving the chain's encoding of the chunk `xs`, the chain's async partial decoder answers every in-bounds list of
regions with exactly the regions of `xs`.  Any nesting depth. -/
theorem chainS_async_partial_eq_full_slice (c : ChainS) (sh : Shape) (fill : Elem) (xs : List Elem)
    (hok : C02S.chainSOk c sh fill) (hx : chunkOk c.es sh xs) (hfits : c.fits sh fill xs)
    (g : BHandle) (hg : BHandleOk g (c.encode sh fill xs)) :
    AHandleOk (c.asyncPartialDecoder sh fill g) sh xs :=
  chainS_async_ok c sh fill xs (okWith_lemma c sh fill hok) hx.1 hx.2 hfits g hg

/-- … and an absent value reads as fill through the async decoder of such a chain -/
theorem chainS_async_partial_absent (c : ChainS) (sh : Shape) (fill : Elem) (hok : C02S.chainSOk c sh fill)
    (g : BHandle) (hg : BHandleAbsent g) :
    AHandleOk (c.asyncPartialDecoder sh fill g) sh (List.replicate (prod sh) fill) :=
  chainS_async_absent c sh fill (okWith_lemma c sh fill hok) g hg

/-- **the async decoder of a (nested) chain agrees with the sync decoder** on every handle serving an encoding of the
chain, for every in-bounds region list: both return the regions of the chunk -/
theorem chainS_async_eq_sync (c : ChainS) (sh : Shape) (fill : Elem) (xs : List Elem)
    (hok : C02S.chainSOk c sh fill) (hx : chunkOk c.es sh xs) (hfits : c.fits sh fill xs)
    (g : BHandle) (hg : BHandleOk g (c.encode sh fill xs))
    (rs : List Subset) (hrs : ∀ r ∈ rs, r.wf = true ∧ r.inboundsShape sh = true) :
    c.asyncPartialDecoder sh fill g rs = c.partialDecoder sh fill g rs ∧
    c.partialDecoder sh fill g rs = some (rs.map (fun r => r.extract sh xs)) := by
  have hs := C02S.chainS_partial_eq_full_slice c sh fill xs hok hx hfits g hg rs hrs
  have ha := chainS_async_partial_eq_full_slice c sh fill xs hok hx hfits g hg rs hrs
  exact ⟨ha.trans hs.symm, hs⟩

/-- … and on an absent value (both: fill) -/
theorem chainS_async_eq_sync_absent (c : ChainS) (sh : Shape) (fill : Elem) (hok : C02S.chainSOk c sh fill)
    (g : BHandle) (hg : BHandleAbsent g)
    (rs : List Subset) (hrs : ∀ r ∈ rs, r.wf = true ∧ r.inboundsShape sh = true) :
    c.asyncPartialDecoder sh fill g rs = c.partialDecoder sh fill g rs ∧
    c.partialDecoder sh fill g rs = some (rs.map (fun r => r.extract sh (List.replicate (prod sh) fill))) := by
  have hs := C02S.chainS_partial_absent c sh fill hok g hg rs hrs
  have ha := chainS_async_partial_absent c sh fill hok g hg rs hrs
  exact ⟨ha.trans hs.symm, hs⟩

/-- two sharding levels under a transpose and over a crc32c (the chain of `C02Shard.lean`): 4×4 chunks, transposed,
cut into 2×2 shards-in-the-shard (index at the start, big-endian, no checksum), each cut into 1×2 innermost chunks
(index at the end, crc32c), whose chain is transpose + big-endian `bytes` + crc32c.  In `exShard` the block rows 0-1 ×
columns 2-3 is all fill: after the transpose a whole 2×2 inner shard is NOT stored at the outer level, and the async
decoder of the outer level runs the async decoder of the inner level on the three stored ones. -/
private def exLeaf : Chain := { a2a := [.transpose [1, 0]], big := true, es := 2, unit := 2, b2b := [.stripSuffix 4 crc32c] }
private def exNested : ChainS :=
  .shard [.transpose [1, 0]] ⟨0, false, true, false⟩ [2, 2] 2
    (.shard [] ⟨0, true, false, true⟩ [1, 2] 2 (.leaf exLeaf []) []) [.stripSuffix 4 crc32c]

private theorem exNested_ok : C02S.chainSOk exNested [4, 4] exFill := by
  refine ⟨⟨by decide, trivial⟩, by decide, ?_, by decide, rfl, ⟨trivial, by decide, ?_, by decide, rfl,
    ⟨by decide, by decide, by decide, ⟨by decide, trivial⟩, ?_, ⟨trivial, trivial⟩⟩⟩⟩
  · intro st hst
    simp only [List.mem_singleton] at hst
    subst hst; rfl
  · intro st hst
    cases hst
  · intro st hst
    simp only [exLeaf, List.mem_singleton] at hst
    subst hst; rfl

private theorem exNested_fits : exNested.fits [4, 4] exFill exShard := by
  simp only [exNested, ChainS.fits]
  decide

/-- the hypotheses hold of the nested chain, the chunk `exShard` and the regions of the running example -/
example : C02S.chainSOk exNested [4, 4] exFill ∧ chunkOk exNested.es [4, 4] exShard ∧ exNested.fits [4, 4] exFill exShard ∧
    BHandleOk (storeHandle (some (exNested.encode [4, 4] exFill exShard))) (exNested.encode [4, 4] exFill exShard) ∧
    (∀ r ∈ exRegions, r.wf = true ∧ r.inboundsShape [4, 4] = true) :=
  ⟨exNested_ok, ⟨by decide, by decide⟩, exNested_fits, storeHandle_some_ok _, by decide⟩

/-- the theorems applied -/
example : AHandleOk (exNested.asyncPartialDecoder [4, 4] exFill (storeHandle (some (exNested.encode [4, 4] exFill exShard))))
    [4, 4] exShard :=
  chainS_async_partial_eq_full_slice exNested [4, 4] exFill exShard exNested_ok ⟨by decide, by decide⟩ exNested_fits _
    (storeHandle_some_ok _)
example :
    exNested.asyncPartialDecoder [4, 4] exFill (storeHandle (some (exNested.encode [4, 4] exFill exShard))) exRegions =
      exNested.partialDecoder [4, 4] exFill (storeHandle (some (exNested.encode [4, 4] exFill exShard))) exRegions ∧
    exNested.partialDecoder [4, 4] exFill (storeHandle (some (exNested.encode [4, 4] exFill exShard))) exRegions =
      some (exRegions.map (fun r => r.extract [4, 4] exShard)) :=
  chainS_async_eq_sync exNested [4, 4] exFill exShard exNested_ok ⟨by decide, by decide⟩ exNested_fits _
    (storeHandle_some_ok _) exRegions (by decide)

/-- … and the conclusions evaluated: the async decoder of the nested chain run on the stored value (224 bytes) -/
example : (exNested.encode [4, 4] exFill exShard).length = 224 := by decide
example : exNested.asyncPartialDecoder [4, 4] exFill (storeHandle (some (exNested.encode [4, 4] exFill exShard))) exRegions =
    some (exRegions.map (fun r => r.extract [4, 4] exShard)) := by decide +kernel
example : exRegions.map (fun r => r.extract [4, 4] exShard) =
    [[[5, 105], [7, 7], [9, 109], [10, 110]],
     [[1, 101], [7, 7], [5, 105], [7, 7], [9, 109], [10, 110], [13, 113], [14, 114]], [],
     exShard] := by decide

/-- the absent value: hypotheses, the theorems applied, the conclusion evaluated -/
example : C02S.chainSOk exNested [4, 4] exFill ∧ BHandleAbsent (storeHandle none) := ⟨exNested_ok, storeHandle_none_absent⟩
example : exNested.asyncPartialDecoder [4, 4] exFill (storeHandle none) exRegions =
      exNested.partialDecoder [4, 4] exFill (storeHandle none) exRegions ∧
    exNested.partialDecoder [4, 4] exFill (storeHandle none) exRegions =
      some (exRegions.map (fun r => r.extract [4, 4] (List.replicate (prod [4, 4]) exFill))) :=
  chainS_async_eq_sync_absent exNested [4, 4] exFill exNested_ok _ storeHandle_none_absent exRegions (by decide)
example : exNested.asyncPartialDecoder [4, 4] exFill (storeHandle none) exRegions =
    some [List.replicate 4 [7, 7], List.replicate 8 [7, 7], [], List.replicate 16 [7, 7]] := by decide

end Zarrs.C07S
