import ZarrsModel.Model.WriteMapOob
import ZarrsModel.Lemmas.WriteMapOob
import ZarrsModel.Props.C17
/-
C17, out-of-bounds part — a multi-chunk read of a region that OVERHANGS the array still writes every byte of
its output exactly once (regular chunk grid, region inside the extent `grid_shape * chunk_shape`).
Property theorems only; helper lemmas live in ZarrsModel/Lemmas/WriteMapOob.lean.

Code: `Array::retrieve_array_subset_opt` (zarrs/src/array/array_sync_readable.rs, fixed-size multi-chunk
branch, with `retrieve_chunk_subset_into`) and `retrieve_array_subset_opt_cached`
(zarrs/src/array/chunk_cache/array_chunk_cache_ext_sync.rs): view of chunk `c` =
`chunk_subset(c).overlap(array_subset).relative_to(array_subset.start())`, `chunk_subset` unclamped.

Examples use a 5×7 array with 2×3 chunks (grid 3×3, extent 6×9) and the region `[1..6, 2..9]` reaching the
extent in both dimensions (one row and two columns beyond the array), element size 2.
-/
set_option Elab.async false
namespace Zarrs.C17Oob
open Zarrs

/-- **the per-chunk writes of a multi-chunk read tile the output even when the region overhangs the array**:
for a regular grid (every chunk size positive), any array shape with grid shape `G`, a non-empty region with
`start_d + shape_d ≤ G_d * c_d` in every dimension (`inboundsShape (gridExtent G cs)`; the region may exceed the
array shape) and any element size, the byte ranges written through the per-chunk views (overlap of the region
with the UNCLAMPED chunk subsets) cover `[0, region.numElements * es)` with every byte written exactly once;
moreover every chunk `chunks_in_array_subset` hands to a task is a chunk of the grid (`inB c G`).
This is `C17.writes_tile` with `region.inboundsShape cfg.shape` weakened to "inside the grid's extent". -/
theorem writes_tile_overhang {α} (cfg : ArrCfg α) (cs G : Shape) (hg : cfg.grid = Grid.regular cs)
    (hwf : cfg.grid.wf = true) (hG : cfg.grid.gridShape cfg.shape = some G) (hlen : cfg.shape.length = cs.length)
    (region : Subset) (hr : region.wf = true) (hb : region.inboundsShape (gridExtent G cs) = true)
    (hne : region.isEmpty = false) (es : Nat) :
    ∃ m box, cfg.writeMap region es = some m ∧ tiles (region.numElements * es) m = true ∧
      cfg.grid.chunksInArraySubset region cfg.shape = some box ∧ ∀ c, box.contains c = true → inB c G = true := by
  obtain ⟨m, box, hm, hperm, hbox, hin⟩ := writeMap_overhang cfg cs G hg hwf hG hlen region hr hb hne es
  exact ⟨m, box, hm, (C17.tiles_iff _ _).mpr hperm, hbox, hin⟩

/-- non-vacuity of the hypotheses of `writes_tile_overhang`: array 5×7, chunks 2×3, grid 3×3, extent 6×9, region
`[1..6, 2..9]` (NOT inside the array), 2-byte elements; the conclusion is also checked by evaluation -/
example : ∃ (cfg : ArrCfg Nat) (cs G : Shape) (region : Subset) (es : Nat),
    cfg.grid = Grid.regular cs ∧ cfg.grid.wf = true ∧ cfg.grid.gridShape cfg.shape = some G ∧
    cfg.shape.length = cs.length ∧ region.wf = true ∧ region.inboundsShape (gridExtent G cs) = true ∧
    region.isEmpty = false ∧ region.inboundsShape cfg.shape = false ∧ gridExtent G cs = [6, 9] ∧
    region.endExc = [6, 9] ∧
    (match cfg.writeMap region es with
     | some m => tiles (region.numElements * es) m
     | none => false) = true :=
  ⟨⟨[5, 7], Grid.regular [2, 3], 0, fun _ => [], fun _ => [], fun _ => none, false⟩,
    [2, 3], [3, 3], ⟨[1, 2], [5, 7]⟩, 2, by decide⟩

/-- **the seeded variant leaves a gap**: with the copied part taken against the region CLAMPED to the array
shape (`chunk_subset.overlap(&array_subset.bound(self.shape())?)`), for the array 6×6 with chunks 4×4 and the
region `[0..8, 0..8]` (inside the extent 8×8) the views do not tile the 64-byte output: byte 6 (row 0, column 6)
is written by no view, whereas the unclamped views of the code do tile it -/
theorem clamped_views_leave_gap :
    let cfg : ArrCfg Nat := ⟨[6, 6], Grid.regular [4, 4], 0, fun _ => [], fun _ => [], fun _ => none, false⟩
    let region : Subset := ⟨[0, 0], [8, 8]⟩
    (match cfg.writeMapClamped region 1 with
     | some m => !tiles 64 m && !byteWritten 6 m
     | none => false) = true ∧
    (match cfg.writeMap region 1 with
     | some m' => tiles 64 m' && byteWritten 6 m'
     | none => false) = true := by
  decide

/-- the same on the 5×7 array with 2×3 chunks and the region `[1..6, 2..9]` reaching the extent 6×9: the clamped
views leave the overhang unwritten (element `[0, 5]` of the output = array column 7, bytes 10..11, is written by
no view), the unclamped views tile the 70-byte output -/
example :
    let cfg : ArrCfg Nat := ⟨[5, 7], Grid.regular [2, 3], 0, fun _ => [], fun _ => [], fun _ => none, false⟩
    let region : Subset := ⟨[1, 2], [5, 7]⟩
    (match cfg.writeMapClamped region 2 with
     | some m => !tiles 70 m && !byteWritten 10 m && !byteWritten 11 m && byteWritten 9 m
     | none => false) = true ∧
    (match cfg.writeMap region 2 with
     | some m' => tiles 70 m' && byteWritten 10 m'
     | none => false) = true := by
  decide

/-- **the hypothesis "inside the grid's extent" is needed**: array 6×6, chunks 4×4 (grid 2×2, extent 8×8), region
`[0..9, 0..9]`: the element `[8, 8]` of the region lies in the subset of NO chunk of the grid, so no choice of
views of grid chunks can write its output byte; and `chunks_in_array_subset` reports a chunk (`[2, 2]`) that is
not a chunk of the grid -/
theorem overhang_needs_grid_extent :
    let g : Grid := Grid.regular [4, 4]
    let region : Subset := ⟨[0, 0], [9, 9]⟩
    g.gridShape [6, 6] = some [2, 2] ∧ region.inboundsShape (gridExtent [2, 2] [4, 4]) = false ∧
    region.contains [8, 8] = true ∧
    (boxIndices [2, 2]).all (fun c => match g.subset c with
      | some s => !s.contains [8, 8]
      | none => true) = true ∧
    (match g.chunksInArraySubset region [6, 6] with
     | some box => box.contains [2, 2] && !inB [2, 2] [2, 2]
     | none => false) = true := by
  decide

/-- the same on the 5×7 array with 2×3 chunks (grid 3×3, extent 6×9): the region `[1..7, 2..10]` goes one past
the extent; its element `[6, 9]` is in no grid chunk and the reported box contains the non-grid chunk `[3, 3]` -/
example :
    let g : Grid := Grid.regular [2, 3]
    let region : Subset := ⟨[1, 2], [6, 8]⟩
    g.gridShape [5, 7] = some [3, 3] ∧ region.inboundsShape (gridExtent [3, 3] [2, 3]) = false ∧
    region.contains [6, 9] = true ∧
    (boxIndices [3, 3]).all (fun c => match g.subset c with
      | some s => !s.contains [6, 9]
      | none => true) = true ∧
    (match g.chunksInArraySubset region [5, 7] with
     | some box => box.contains [3, 3] && !inB [3, 3] [3, 3]
     | none => false) = true := by
  decide

end Zarrs.C17Oob

section audit
open Zarrs.C17Oob
#print axioms writes_tile_overhang
#print axioms clamped_views_leave_gap
#print axioms overhang_needs_grid_extent
#print axioms Zarrs.writeMap_overhang
end audit
