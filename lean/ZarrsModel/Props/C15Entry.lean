import ZarrsModel.Model.IndexEntry
import ZarrsModel.Model.Bytes
set_option Elab.async false
/-
C15, the bounds test of one shard index entry on 64-bit integers (`Model/IndexEntry.lean`; code:
zarrs/src/array/codec/array_to_bytes/sharding/sharding_codec.rs `decode` (both branches) and `decode_into`).

The checked test of the code is, for EVERY triple of `u64`, the test on unbounded naturals that the rest of the model and
the driver use; the seeded wrapping variant is not; an entry that passes denotes a slice inside the value.
-/
namespace Zarrs.C15Entry
open Zarrs Zarrs.IndexEntry

/-- `u64::checked_add` returns `None` exactly on overflow, and otherwise the true sum -/
theorem checkedAdd_spec (a b : UInt64) :
    (a.toNat + b.toNat < 2 ^ 64 → ∃ s, checkedAdd a b = some s ∧ s.toNat = a.toNat + b.toNat) ∧
    (2 ^ 64 ≤ a.toNat + b.toNat → checkedAdd a b = none) := by
  have ha := a.toNat_lt
  have hb := b.toNat_lt
  have hs : (a + b).toNat = (a.toNat + b.toNat) % 2 ^ 64 := UInt64.toNat_add a b
  constructor
  · intro h
    refine ⟨a + b, ?_, ?_⟩
    · simp only [checkedAdd]
      rw [if_neg]
      rw [UInt64.lt_iff_toNat_lt, hs, Nat.mod_eq_of_lt h]
      omega
    · rw [hs, Nat.mod_eq_of_lt h]
  · intro h
    simp only [checkedAdd]
    rw [if_pos]
    rw [UInt64.lt_iff_toNat_lt, hs]
    have : (a.toNat + b.toNat) % 2 ^ 64 = a.toNat + b.toNat - 2 ^ 64 := by
      rw [Nat.mod_eq_sub_mod h, Nat.mod_eq_of_lt (by omega)]
    omega
/-- both cases occur -/
example : checkedAdd 7 9 = some 16 ∧ checkedAdd 18446744073709551608 16 = none := by decide

/-- **`entryBadChecked_iff_nat`**: for every `off`, `size`, `len` the test of the code
`off.checked_add(size).is_none_or(|end| end > len)` IS the test on unbounded naturals `off + size > len` -/
theorem entryBadChecked_iff_nat (off size len : UInt64) :
    entryBadChecked off size len = decide (off.toNat + size.toNat > len.toNat) := by
  have hl := len.toNat_lt
  obtain ⟨h1, h2⟩ := checkedAdd_spec off size
  by_cases h : off.toNat + size.toNat < 2 ^ 64
  · obtain ⟨s, hs, hv⟩ := h1 h
    simp only [entryBadChecked, hs, isNoneOr]
    rw [decide_eq_decide, gt_iff_lt, UInt64.lt_iff_toNat_lt, hv]
  · have hn := h2 (by omega)
    simp only [entryBadChecked, hn, isNoneOr]
    symm
    rw [decide_eq_true_eq]
    omega
/-- non-vacuous, all four kinds of entry against a value of 100 bytes: inside, ending exactly at the end, beyond the
end, and with an end beyond `2^64` -/
example : entryBadChecked 10 20 100 = false ∧ entryBadChecked 90 10 100 = false ∧ entryBadChecked 90 11 100 = true ∧
    entryBadChecked 18446744073709551608 16 100 = true := by decide

/-- **the three-way branch, sentinel where the code tests it (first)**: the verdict of `decode` / `decode_into` on an
entry is an error exactly when the driver's `entryOutOfBounds` on unbounded naturals says so; the sentinel `(MAX, MAX)`
is never an error (it is tested BEFORE the bounds test, which it would fail for every `len`) -/
theorem classify_err_iff_nat (off size len : UInt64) :
    (classify off size len = .err ↔ entryOutOfBoundsNat off.toNat size.toNat len.toNat = true) ∧
    (classify off size len = .fill ↔ (off = u64Max ∧ size = u64Max)) := by
  have hsent : isSentinel off size = (off.toNat == 18446744073709551615 && size.toNat == 18446744073709551615) := by
    simp only [isSentinel, u64Max]
    rw [Bool.eq_iff_iff]
    simp only [Bool.and_eq_true, beq_iff_eq]
    constructor
    · rintro ⟨rfl, rfl⟩; exact ⟨rfl, rfl⟩
    · rintro ⟨h1, h2⟩
      exact ⟨UInt64.toNat_inj.1 h1, UInt64.toNat_inj.1 h2⟩
  constructor
  · simp only [classify, entryOutOfBoundsNat, ← hsent, entryBadChecked_iff_nat]
    cases isSentinel off size with
    | true => simp
    | false =>
      simp only [Bool.false_eq_true, ↓reduceIte, Bool.not_false, Bool.true_and]
      by_cases h : off.toNat + size.toNat > len.toNat
      · simp [h]
      · simp [h]
  · simp only [classify]
    have : isSentinel off size = true ↔ (off = u64Max ∧ size = u64Max) := by
      simp [isSentinel]
    rw [← this]
    cases isSentinel off size with
    | true => simp
    | false =>
      simp only [Bool.false_eq_true, ↓reduceIte, iff_false]
      split <;> simp
/-- the sentinel against an EMPTY value is `fill`, not an error, although its end is far beyond the value; a live entry
with one component `MAX` is an error -/
example : classify u64Max u64Max 0 = .fill ∧ entryBadChecked u64Max u64Max 0 = true ∧
    classify u64Max 0 100 = .err ∧ classify 0 u64Max 100 = .err ∧ classify 4 8 100 = .slice 4 8 := by decide

/-- **`entryBadWrapping_counterexample`**: the seeded test `off + size > len` with wrap-around ACCEPTS the entry
`off = 2^64 − 8`, `size = 16` against a value of 100 bytes (the sum wraps to 8) that the checked test rejects — and the
entry is live (not the sentinel), so the code goes on to slice `[2^64 − 8 .. 8)` -/
theorem entryBadWrapping_counterexample :
    entryBadWrapping 18446744073709551608 16 100 = false ∧ entryBadChecked 18446744073709551608 16 100 = true ∧
    classifyWrapping 18446744073709551608 16 100 = .slice 18446744073709551608 16 ∧
    classify 18446744073709551608 16 100 = .err ∧
    (18446744073709551608 : UInt64) + 16 = 8 := by decide

/-- the wrapping test agrees with the checked test exactly when the sum does not wrap; when it wraps the checked test
rejects and the wrapping test judges the wrapped end -/
theorem entryBadWrapping_iff_nat (off size len : UInt64) :
    (off.toNat + size.toNat < 2 ^ 64 → entryBadWrapping off size len = entryBadChecked off size len) ∧
    (2 ^ 64 ≤ off.toNat + size.toNat → entryBadChecked off size len = true ∧
      entryBadWrapping off size len = decide (off.toNat + size.toNat - 2 ^ 64 > len.toNat)) := by
  have ha := off.toNat_lt
  have hb := size.toNat_lt
  have hs : (off + size).toNat = (off.toNat + size.toNat) % 2 ^ 64 := UInt64.toNat_add off size
  constructor
  · intro h
    rw [entryBadChecked_iff_nat]
    simp only [entryBadWrapping]
    rw [decide_eq_decide, gt_iff_lt, UInt64.lt_iff_toNat_lt, hs, Nat.mod_eq_of_lt h]
  · intro h
    constructor
    · rw [entryBadChecked_iff_nat, decide_eq_true_eq]
      have := len.toNat_lt
      omega
    · simp only [entryBadWrapping]
      rw [decide_eq_decide, gt_iff_lt, UInt64.lt_iff_toNat_lt, hs, Nat.mod_eq_sub_mod h, Nat.mod_eq_of_lt (by omega)]
example : (18446744073709551608 : UInt64).toNat + (16 : UInt64).toNat ≥ 2 ^ 64 := by decide

/-- **`entry_ok_slice_in_bounds`**: an entry that passes the checked test denotes a slice `[off, off + size)` inside
the value: the end computed on machine integers (`offset + size` on `usize`) does not wrap and is the true end, it is
at most the length of the value, and the slice `&encoded_shard[off..off + size]` of any value `b` of `len` bytes
exists and has exactly `size` bytes — the slicing cannot panic -/
theorem entry_ok_slice_in_bounds (off size len : UInt64) (h : entryBadChecked off size len = false) :
    (off + size).toNat = off.toNat + size.toNat ∧ off.toNat ≤ off.toNat + size.toNat ∧
    off.toNat + size.toNat ≤ len.toNat ∧
    ∀ b : Bytes, b.length = len.toNat → ((b.drop off.toNat).take size.toNat).length = size.toNat := by
  rw [entryBadChecked_iff_nat, decide_eq_false_iff_not] at h
  have hl := len.toNat_lt
  have hs : (off + size).toNat = (off.toNat + size.toNat) % 2 ^ 64 := UInt64.toNat_add off size
  refine ⟨?_, by omega, by omega, ?_⟩
  · rw [hs, Nat.mod_eq_of_lt (by omega)]
  · intro b hb
    rw [List.length_take, List.length_drop, hb]
    omega
/-- hypothesis satisfiable: the last 10 bytes of a 100-byte value -/
example : entryBadChecked 90 10 100 = false ∧
    (((List.range 100 : Bytes).drop (90 : UInt64).toNat).take (10 : UInt64).toNat) = [90, 91, 92, 93, 94, 95, 96, 97, 98, 99] := by
  decide

/-- the slice the code takes after a passed test, through `classify`: every `.slice o s` verdict is in bounds -/
theorem classify_slice_in_bounds (off size len : UInt64) (o s : Nat) (h : classify off size len = .slice o s) :
    o = off.toNat ∧ s = size.toNat ∧ o + s ≤ len.toNat := by
  simp only [classify] at h
  split at h
  · cases h
  · split at h
    · cases h
    · rename_i hb
      simp only [Verdict.slice.injEq] at h
      obtain ⟨rfl, rfl⟩ := h
      exact ⟨rfl, rfl, (entry_ok_slice_in_bounds off size len (by simpa using hb)).2.2.1⟩
example : classify 90 10 100 = .slice 90 10 := by decide

end Zarrs.C15Entry
