import ZarrsModel.Model.Interleave
import ZarrsModel.Lemmas.Interleave
import ZarrsModel.Lemmas.InterleaveArray
import ZarrsModel.Props.C01
/-
C16 — results do not depend on parallelism or thread interleaving.

Part 1 (store level): key-disjoint tasks commute; every interleaving gives the sequential result and every
operation returns what it returns when its task runs alone.
Part 2 (array level): an array operation on a region reads and writes only the keys of the chunks meeting the
region, so chunk-disjoint operations are key-disjoint tasks (with C10: chunks partition; C11: keys injective).

(`ZarrsModel.Props.C01` is imported only for the example configuration `C01.exCfg` used by the non-vacuity
`example`s of part 2.)
-/
namespace Zarrs.C16
open Zarrs

/-! ### the example values used by the non-vacuity `example`s of part 1 -/

/-- a small sorted store -/
def exStore : KV := [("a".toList, [1, 2, 3]), ("b".toList, [4]), ("d".toList, [5, 6])]

/-- three pairwise key-disjoint tasks (keys {a, c}, {b}, {d, e}) mixing full sets, partial sets (one creating a
key, one extending a value), gets, ranged gets, size queries and both kinds of erase -/
def exTasks : List Task :=
  [ [.setPartial [("a".toList, 2, [7, 7]), ("c".toList, 1, [8])], .getPartial "a".toList [.fromStart 1 (some 3)]],
    [.erase "b".toList, .sizeKey "b".toList],
    [.set "e".toList [9], .eraseValues ["d".toList, "e".toList]] ]

/-- a non-trivial merge of `exTasks` -/
def exSched : List Nat := [2, 0, 1, 0, 2, 1]

/-- operations on different keys commute (state) and do not affect each other's result -/
theorem ops_commute (m : KV) (hs : m.sorted) (a b : StoreOp) (ka kb : List Key)
    (ha : a.keys = some ka) (hb : b.keys = some kb) (hd : disjointKeys ka kb = true) :
    (Spec.step (Spec.step m a).1 b).1 = (Spec.step (Spec.step m b).1 a).1 ∧
    (Spec.step (Spec.step m a).1 b).2 = (Spec.step m b).2 ∧
    (Spec.step (Spec.step m b).1 a).2 = (Spec.step m a).2 :=
  Spec.step_commute m hs a b ka kb ha hb ((disjointKeys_iff ka kb).1 hd)
example : exStore.sorted ∧
    (StoreOp.setPartial [("a".toList, 2, [7, 7]), ("c".toList, 1, [8])]).keys = some ["a".toList, "c".toList] ∧
    (StoreOp.eraseValues ["d".toList, "e".toList]).keys = some ["d".toList, "e".toList] ∧
    disjointKeys ["a".toList, "c".toList] ["d".toList, "e".toList] = true :=
  ⟨by unfold KV.sorted; decide, rfl, rfl, by decide⟩

/-- **any interleaving of pairwise key-disjoint tasks equals running them one after another, and each task sees
exactly what it sees alone** — any number of tasks, any lengths, any merge -/
theorem interleave_eq_solo (m : KV) (hs : m.sorted) (tasks : List Task)
    (hk : ∀ t ∈ tasks, t.keyAddressed = true) (hd : pairwiseDisjoint tasks = true)
    (sched : List Nat) (hm : isMergeOf tasks sched = true) :
    (runMerge m tasks sched).1 = (runOps m tasks.flatten).1 ∧
    ∀ i, i < tasks.length →
      resultsOf i (runMerge m tasks sched).2 = (runOps m (tasks.getD i [])).2 :=
  runMerge_eq sched m tasks hs hk (PD_of_pairwiseDisjoint tasks hd) hm
example : exStore.sorted ∧ (∀ t ∈ exTasks, t.keyAddressed = true) ∧ pairwiseDisjoint exTasks = true ∧
    isMergeOf exTasks exSched = true :=
  ⟨by unfold KV.sorted; decide, by decide, by decide, by decide⟩
/-- the conclusion on the example, checked by evaluation: the merged run ends in the sequential state, which is
not the initial one, and task 0's ranged read sees task 0's own partial write and nothing of the others -/
example : (runMerge exStore exTasks exSched).1 = (runOps exStore exTasks.flatten).1 ∧
    (runMerge exStore exTasks exSched).1 = [("a".toList, [1, 2, 7, 7]), ("c".toList, [0, 8])] ∧
    resultsOf 0 (runMerge exStore exTasks exSched).2 = [.unit, .parts (some [[2, 7, 7]])] ∧
    resultsOf 1 (runMerge exStore exTasks exSched).2 = [.unit, .size none] := by decide
/-- the hypotheses matter: two tasks sharing the key `a` are rejected by `pairwiseDisjoint`, and their merges
differ from the sequential run -/
example : pairwiseDisjoint [[.set "a".toList [1]], [.set "a".toList [2]]] = false ∧
    (runMerge [] [[.set "a".toList [1]], [.set "a".toList [2]]] [1, 0]).1 ≠
      (runOps [] [[StoreOp.set "a".toList [1]], [.set "a".toList [2]]].flatten).1 := by decide

/-- the order in which whole tasks run does not matter either -/
theorem task_order_irrelevant (m : KV) (hs : m.sorted) (t u : Task)
    (ht : t.keyAddressed = true) (hu : u.keyAddressed = true) (hd : disjointKeys t.keys u.keys = true) :
    (runOps m (t ++ u)).1 = (runOps m (u ++ t)).1 :=
  runOps_task_comm m hs t u ht hu ((disjointKeys_iff t.keys u.keys).1 hd)
example : exStore.sorted ∧ (exTasks.getD 0 []).keyAddressed = true ∧ (exTasks.getD 2 []).keyAddressed = true ∧
    disjointKeys (exTasks.getD 0 []).keys (exTasks.getD 2 []).keys = true :=
  ⟨by unfold KV.sorted; decide, by decide, by decide, by decide⟩

variable {α : Type} [DecidableEq α]

/-- the keys of the chunks meeting a region -/
def regionKeys (cfg : ArrCfg α) (region : Subset) : List Key :=
  match cfg.grid.chunksInArraySubset region cfg.shape with
  | some chunks => chunks.indices.map cfg.keyOf
  | none => []

/-- **writes touch only the chunks meeting the region** (frame property of `store_array_subset`).
`hw` (start and shape of the region have the same length) was added: without it the statement is false, see the
counterexample below. -/
theorem store_array_subset_frame (cfg : ArrCfg α) (st st' : KV) (region : Subset) (d : List α)
    (hw : region.wf = true)
    (h : cfg.storeArraySubset st region d = some st') (k : Key) (hk : k ∉ regionKeys cfg region) :
    st'.get k = st.get k := by
  unfold regionKeys at hk
  cases hc : cfg.grid.chunksInArraySubset region cfg.shape with
  | none =>
    unfold ArrCfg.storeArraySubset at h
    rw [hc] at h
    split at h <;> cases h
  | some chunks =>
    rw [hc] at hk
    exact ArrCfg.storeArraySubset_frame st st' region d hw h chunks hc k hk
/-- hypotheses satisfiable: a write straddling four chunks of the 5×7 example array; the key of chunk (2,2) is
not among the region's keys -/
example : ∃ st', (⟨[1, 2], [3, 4]⟩ : Subset).wf = true ∧
    C01.exCfg.storeArraySubset [] ⟨[1, 2], [3, 4]⟩ [0, 1, 2, 3, 4, 5, 6, 7, 8, 9, 10, 11] = some st' ∧
    C01.exKey [2, 2] ∉ regionKeys C01.exCfg ⟨[1, 2], [3, 4]⟩ ∧ (regionKeys C01.exCfg ⟨[1, 2], [3, 4]⟩).length = 4 :=
  ⟨_, by decide, rfl, by decide, by decide⟩
/-- counterexample without `hw`: the ill-formed region `⟨[0,0],[2]⟩` (rank 2, one extent) makes
`chunks_in_array_subset` return the ill-formed box `⟨[0,0],[1]⟩`, whose only listed index is the truncated `[0]`,
while the write goes to chunk `[0,0]` -/
example : ∃ st', C01.exCfg.storeArraySubset [] ⟨[0, 0], [2]⟩ [7, 8] = some st' ∧
    C01.exKey [0, 0] ∉ regionKeys C01.exCfg ⟨[0, 0], [2]⟩ ∧
    st'.get (C01.exKey [0, 0]) ≠ KV.get [] (C01.exKey [0, 0]) :=
  ⟨_, rfl, by decide, by decide⟩

/-- **reads depend only on the chunks meeting the region**.
`hw` was added for the same reason as in `store_array_subset_frame`; counterexample below. -/
theorem retrieve_array_subset_local (cfg : ArrCfg α) (st1 st2 : KV) (region : Subset)
    (hw : region.wf = true)
    (h : ∀ k ∈ regionKeys cfg region, st1.get k = st2.get k) :
    cfg.retrieveArraySubset st1 region = cfg.retrieveArraySubset st2 region := by
  apply ArrCfg.retrieveArraySubset_local st1 st2 region hw
  intro chunks hc k hk
  apply h
  unfold regionKeys
  rw [hc]
  exact hk
/-- hypotheses satisfiable non-trivially: two different stores that agree on the four chunks meeting the region -/
example : (⟨[1, 2], [3, 4]⟩ : Subset).wf = true ∧
    (∀ k ∈ regionKeys C01.exCfg ⟨[1, 2], [3, 4]⟩,
      KV.get [(C01.exKey [0, 0], [1, 2, 3, 4, 5, 6])] k =
      KV.get [(C01.exKey [0, 0], [1, 2, 3, 4, 5, 6]), (C01.exKey [2, 2], [9, 9, 9, 9, 9, 9])] k) ∧
    C01.exCfg.retrieveArraySubset [(C01.exKey [0, 0], [1, 2, 3, 4, 5, 6])] ⟨[1, 2], [3, 4]⟩ =
      some [6, 0, 0, 0, 0, 0, 0, 0, 0, 0, 0, 0] := by decide
/-- counterexample without `hw`: the stores agree on the listed key (`exKey [0]`) but the read goes to chunk
`[0,0]` -/
example : (∀ k ∈ regionKeys C01.exCfg ⟨[0, 0], [2]⟩,
      KV.get [] k = KV.get [(C01.exKey [0, 0], [1, 2, 3, 4, 5, 6])] k) ∧
    C01.exCfg.retrieveArraySubset [] ⟨[0, 0], [2]⟩ ≠
      C01.exCfg.retrieveArraySubset [(C01.exKey [0, 0], [1, 2, 3, 4, 5, 6])] ⟨[0, 0], [2]⟩ := by decide

/-- whole-chunk operations touch exactly their chunk's key -/
theorem store_chunk_frame (cfg : ArrCfg α) (st st' : KV) (c : Idx) (d : List α)
    (h : cfg.storeChunk st c d = some st') (k : Key) (hk : k ≠ cfg.keyOf c) : st'.get k = st.get k :=
  ArrCfg.storeChunk_frame st st' c d h k hk
example : ∃ st', C01.exCfg.storeChunk [(C01.exKey [2, 2], [9, 9, 9, 9, 9, 9])] [0, 1] [1, 2, 3, 4, 5, 6] = some st' ∧
    C01.exKey [2, 2] ≠ C01.exCfg.keyOf [0, 1] :=
  ⟨_, rfl, by decide⟩

theorem retrieve_chunk_local (cfg : ArrCfg α) (st1 st2 : KV) (c : Idx)
    (h : st1.get (cfg.keyOf c) = st2.get (cfg.keyOf c)) : cfg.retrieveChunk st1 c = cfg.retrieveChunk st2 c :=
  ArrCfg.retrieveChunk_congr st2 st1 c h
example : KV.get [(C01.exKey [0, 1], [1, 2, 3, 4, 5, 6])] (C01.exCfg.keyOf [0, 1]) =
    KV.get [(C01.exKey [0, 1], [1, 2, 3, 4, 5, 6]), (C01.exKey [2, 2], [9, 9, 9, 9, 9, 9])] (C01.exCfg.keyOf [0, 1]) := by
  decide

/-- chunk-disjoint regions have disjoint key sets (keys injective) -/
theorem disjoint_regions_disjoint_keys (cfg : ArrCfg α) (hK : cfg.KeysInjective) (r1 r2 : Subset)
    (c1 c2 : Subset) (h1 : cfg.grid.chunksInArraySubset r1 cfg.shape = some c1)
    (h2 : cfg.grid.chunksInArraySubset r2 cfg.shape = some c2)
    (hd : ∀ i, ¬ (c1.contains i = true ∧ c2.contains i = true))
    (hw1 : c1.wf = true) (hw2 : c2.wf = true) :
    disjointKeys (regionKeys cfg r1) (regionKeys cfg r2) = true := by
  unfold regionKeys
  rw [h1, h2]
  exact ArrCfg.disjoint_boxes_disjoint_keys hK c1 c2 hd hw1 hw2
/-- hypotheses satisfiable: the regions `⟨[0,0],[4,3]⟩` (chunk rows 0–1 of chunk column 0) and `⟨[1,3],[3,4]⟩`
(chunk rows 0–1 of chunk columns 1–2) of the 5×7 example array meet disjoint boxes of chunks -/
example : C01.exCfg.KeysInjective ∧
    C01.exCfg.grid.chunksInArraySubset ⟨[0, 0], [4, 3]⟩ C01.exCfg.shape = some ⟨[0, 0], [2, 1]⟩ ∧
    C01.exCfg.grid.chunksInArraySubset ⟨[1, 3], [3, 4]⟩ C01.exCfg.shape = some ⟨[0, 1], [2, 2]⟩ ∧
    (∀ i, ¬ ((⟨[0, 0], [2, 1]⟩ : Subset).contains i = true ∧ (⟨[0, 1], [2, 2]⟩ : Subset).contains i = true)) ∧
    (⟨[0, 0], [2, 1]⟩ : Subset).wf = true ∧ (⟨[0, 1], [2, 2]⟩ : Subset).wf = true := by
  refine ⟨C01.exKey_inj, by decide, by decide, ?_, by decide, by decide⟩
  intro i hi
  have h1 := (Subset.mem_indices ⟨[0, 0], [2, 1]⟩ (by decide) i).2 hi.1
  have h2 := (Subset.mem_indices ⟨[0, 1], [2, 2]⟩ (by decide) i).2 hi.2
  revert h2
  have : ∀ j ∈ (⟨[0, 0], [2, 1]⟩ : Subset).indices, j ∉ (⟨[0, 1], [2, 2]⟩ : Subset).indices := by decide
  exact this i h1

end Zarrs.C16
