import ZarrsModel.Model.Interleave
import ZarrsModel.Lemmas.Interleave
/-
C16 — results do not depend on parallelism or thread interleaving.

Part 1 (store level): key-disjoint tasks commute; every interleaving gives the sequential result and every
operation returns what it returns when its task runs alone.
Part 2 (array level): an array operation on a region reads and writes only the keys of the chunks meeting the
region, so chunk-disjoint operations are key-disjoint tasks (with C10: chunks partition; C11: keys injective).
-/
namespace Zarrs.C16
open Zarrs

/-- operations on different keys commute (state) and do not affect each other's result -/
theorem ops_commute (m : KV) (hs : m.sorted) (a b : StoreOp) (ka kb : List Key)
    (ha : a.keys = some ka) (hb : b.keys = some kb) (hd : disjointKeys ka kb = true) :
    (Spec.step (Spec.step m a).1 b).1 = (Spec.step (Spec.step m b).1 a).1 ∧
    (Spec.step (Spec.step m a).1 b).2 = (Spec.step m b).2 ∧
    (Spec.step (Spec.step m b).1 a).2 = (Spec.step m a).2 := by
  sorry

/-- **any interleaving of pairwise key-disjoint tasks equals running them one after another, and each task sees
exactly what it sees alone** — any number of tasks, any lengths, any merge -/
theorem interleave_eq_solo (m : KV) (hs : m.sorted) (tasks : List Task)
    (hk : ∀ t ∈ tasks, t.keyAddressed = true) (hd : pairwiseDisjoint tasks = true)
    (sched : List Nat) (hm : isMergeOf tasks sched = true) :
    (runMerge m tasks sched).1 = (runOps m tasks.flatten).1 ∧
    ∀ i, i < tasks.length →
      resultsOf i (runMerge m tasks sched).2 = (runOps m (tasks.getD i [])).2 := by
  sorry

/-- the order in which whole tasks run does not matter either -/
theorem task_order_irrelevant (m : KV) (hs : m.sorted) (t u : Task)
    (ht : t.keyAddressed = true) (hu : u.keyAddressed = true) (hd : disjointKeys t.keys u.keys = true) :
    (runOps m (t ++ u)).1 = (runOps m (u ++ t)).1 := by
  sorry

variable {α : Type} [DecidableEq α]

/-- the keys of the chunks meeting a region -/
def regionKeys (cfg : ArrCfg α) (region : Subset) : List Key :=
  match cfg.grid.chunksInArraySubset region cfg.shape with
  | some chunks => chunks.indices.map cfg.keyOf
  | none => []

/-- **writes touch only the chunks meeting the region** (frame property of `store_array_subset`) -/
theorem store_array_subset_frame (cfg : ArrCfg α) (st st' : KV) (region : Subset) (d : List α)
    (h : cfg.storeArraySubset st region d = some st') (k : Key) (hk : k ∉ regionKeys cfg region) :
    st'.get k = st.get k := by
  sorry

/-- **reads depend only on the chunks meeting the region** -/
theorem retrieve_array_subset_local (cfg : ArrCfg α) (st1 st2 : KV) (region : Subset)
    (h : ∀ k ∈ regionKeys cfg region, st1.get k = st2.get k) :
    cfg.retrieveArraySubset st1 region = cfg.retrieveArraySubset st2 region := by
  sorry

/-- whole-chunk operations touch exactly their chunk's key -/
theorem store_chunk_frame (cfg : ArrCfg α) (st st' : KV) (c : Idx) (d : List α)
    (h : cfg.storeChunk st c d = some st') (k : Key) (hk : k ≠ cfg.keyOf c) : st'.get k = st.get k := by
  sorry

theorem retrieve_chunk_local (cfg : ArrCfg α) (st1 st2 : KV) (c : Idx)
    (h : st1.get (cfg.keyOf c) = st2.get (cfg.keyOf c)) : cfg.retrieveChunk st1 c = cfg.retrieveChunk st2 c := by
  sorry

/-- chunk-disjoint regions have disjoint key sets (keys injective) -/
theorem disjoint_regions_disjoint_keys (cfg : ArrCfg α) (hK : cfg.KeysInjective) (r1 r2 : Subset)
    (c1 c2 : Subset) (h1 : cfg.grid.chunksInArraySubset r1 cfg.shape = some c1)
    (h2 : cfg.grid.chunksInArraySubset r2 cfg.shape = some c2)
    (hd : ∀ i, ¬ (c1.contains i = true ∧ c2.contains i = true))
    (hw1 : c1.wf = true) (hw2 : c2.wf = true) :
    disjointKeys (regionKeys cfg r1) (regionKeys cfg r2) = true := by
  sorry

end Zarrs.C16
