import ZarrsModel.Model.Vlen
import ZarrsModel.Lemmas.VlenIdx
import ZarrsModel.Props.C03
/-
C03, continued: the variable-length array→bytes codecs `vlen_v2` (= `vlen-utf8`, `vlen-bytes`, `vlen-array`) and
`vlen`, byte for byte: inversion, exact size, rejection of truncated / corrupted values, and the two views of a
decoded variable-length chunk (`ArrayBytes::Variable(bytes, offsets)` vs the list of elements).

Guards enforced by the real code (zarrs/src/array/codec/array_to_bytes/vlen_v2/vlen_v2_codec.rs, vlen/vlen_codec.rs):
* `vlen_v2` encode: 2^32 elements or more ⇒ an ERROR (`num_elements exceeds u32::MAX`); an element of 2^32 bytes or
  more ⇒ a PANIC (`u32::try_from(element_bytes.len()).unwrap()`), modelled as `EncErr.elementTooLongPanic`;
* `vlen` encode with `index_data_type: uint32`: an offset of 2^32 or more ⇒ an ERROR; with `uint64` nothing to check;
* `vlen` decode: an index length (first 8 bytes) reaching past the end of the value ⇒ the model says ERROR
  (`DecErr.indexLenPastEnd`); the pinned tree PANICS there (unchecked slice `&bytes[8..data_start]`): a defect the
  differential run reports.
-/
set_option Elab.async false
namespace Zarrs.C03
open Zarrs Zarrs.Codec Zarrs.Vlen

/-! ### the decoded chunk: offsets view and element view -/

/-- the canonical value of a list of elements is valid, starts at offset 0, and has exactly these elements -/
theorem varr_ofElems (xs : List Bytes) :
    (VArr.ofElems xs).valid xs.length = true ∧ (VArr.ofElems xs).offsets.head? = some 0 ∧
    (VArr.ofElems xs).elems = xs :=
  ⟨ofElems_valid xs, offsetsFrom_head 0 xs, elems_ofElems xs⟩

/-- a valid value has `n` elements whose concatenation is the bytes from the first offset on; if its first offset is
0 (always the case for values built by zarrs' decoders and by `ArrayBytes::new_vlen` callers that start at 0) it IS
the canonical value of its elements: the views are interchangeable -/
theorem varr_elems (n : Nat) (v : VArr) (h : v.valid n = true) :
    v.elems.length = n ∧ v.elems.flatten = v.data.drop (v.offsets.headD 0) ∧
    (v.offsets.head? = some 0 → VArr.ofElems v.elems = v) :=
  ⟨elems_length n v h, elems_flatten n v h, ofElems_elems n v h⟩

/-- validity spelled out: `n + 1` offsets, consecutive offsets ordered and inside the bytes, last = length -/
theorem varr_valid_iff (n : Nat) (v : VArr) :
    v.valid n = true ↔ v.offsets.length = n + 1 ∧ offsetsOk v.data.length v.offsets = true ∧
      v.offsets.getLast? = some v.data.length :=
  valid_iff n v

/-- `["", "ab", "", "xyz"]` -/
private def exElems : List Bytes := [[], [97, 98], [], [120, 121, 122]]

example : VArr.ofElems exElems = ⟨[97, 98, 120, 121, 122], [0, 0, 2, 2, 5]⟩ := by decide
example : (⟨[97, 98, 120, 121, 122], [0, 0, 2, 2, 5]⟩ : VArr).elems = exElems := by decide
example : (⟨[97, 98, 120, 121, 122], [0, 0, 2, 2, 5]⟩ : VArr).valid 4 = true := by decide
/-- a first offset other than 0 is accepted by `validate` (leading padding); decreasing or overshooting offsets, a
last offset short of the length, or a wrong count are not -/
example : (⟨[9, 97, 98], [1, 1, 3]⟩ : VArr).valid 2 = true ∧ (⟨[9, 97, 98], [1, 1, 3]⟩ : VArr).elems = [[], [97, 98]] := by decide
example : (⟨[97, 98, 99], [0, 2, 1, 3]⟩ : VArr).valid 3 = false := by decide
example : (⟨[97, 98, 99], [0, 4, 3]⟩ : VArr).valid 2 = false := by decide
example : (⟨[97, 98, 99], [0, 1, 2]⟩ : VArr).valid 2 = false := by decide
example : (⟨[97, 98, 99], [0, 1, 3]⟩ : VArr).valid 3 = false := by decide
example : VArr.ofElems (⟨[97, 98, 120, 121, 122], [0, 0, 2, 2, 5]⟩ : VArr).elems = ⟨[97, 98, 120, 121, 122], [0, 0, 2, 2, 5]⟩ :=
  (varr_elems 4 ⟨[97, 98, 120, 121, 122], [0, 0, 2, 2, 5]⟩ (by decide)).2.2 rfl
example : (VArr.ofElems exElems).valid exElems.length = true := (varr_ofElems exElems).1

/-! ### `vlen_v2` / `vlen-utf8` / `vlen-bytes` / `vlen-array` -/

/-- inside the guard the encoder succeeds and writes the numcodecs layout of the elements; on a canonical value -/
theorem vlenV2_enc_ok (xs : List Bytes) (h : v2Guard xs) :
    vlenV2Enc xs.length (VArr.ofElems xs) = .ok (vlenV2EncRaw xs) := by
  unfold vlenV2Enc
  have h1 : ¬ (xs.length ≥ 2 ^ 32) := Nat.not_le.mpr h.1
  have h2 : xs.any (fun x => decide (x.length ≥ 2 ^ 32)) = false := by
    rw [List.any_eq_false]; intro x hx; simpa using h.2 x hx
  simp only [ofElems_valid, Bool.not_true, Bool.false_eq_true, if_false, h1, elems_ofElems, h2]

/-- … and on any valid value (leading padding is not written) -/
theorem vlenV2_enc_valid (n : Nat) (v : VArr) (hv : v.valid n = true) (h : v2Guard v.elems) :
    vlenV2Enc n v = .ok (vlenV2EncRaw v.elems) := by
  unfold vlenV2Enc
  have hn := elems_length n v hv
  have h1 : ¬ (n ≥ 2 ^ 32) := by rw [← hn]; exact Nat.not_le.mpr h.1
  have h2 : v.elems.any (fun x => decide (x.length ≥ 2 ^ 32)) = false := by
    rw [List.any_eq_false]; intro x hx; simpa using h.2 x hx
  simp only [hv, Bool.not_true, Bool.false_eq_true, if_false, h1, h2]

/-- beyond the guard: too many elements is an error, an element of 4 GiB or more is a PANIC in the real code -/
theorem vlenV2_enc_beyond (n : Nat) (v : VArr) (hv : v.valid n = true) :
    (n ≥ 2 ^ 32 → vlenV2Enc n v = .error .tooManyElements) ∧
    (n < 2 ^ 32 → (∃ x ∈ v.elems, x.length ≥ 2 ^ 32) → vlenV2Enc n v = .error .elementTooLongPanic) := by
  unfold vlenV2Enc
  constructor
  · intro h; simp only [hv, Bool.not_true, Bool.false_eq_true, if_false, h, if_true]
  · intro h ⟨x, hx, hl⟩
    have h1 : ¬ (n ≥ 2 ^ 32) := Nat.not_le.mpr h
    have h2 : v.elems.any (fun x => decide (x.length ≥ 2 ^ 32)) = true := by
      rw [List.any_eq_true]; exact ⟨x, hx, by simpa using hl⟩
    simp only [hv, Bool.not_true, Bool.false_eq_true, if_false, h1, h2, if_true]

/-- **`vlen_v2` inverts its encoding**: for every list of elements inside the guard (any count including 0, any
element lengths including 0), decoding the encoding returns the canonical value of the elements — hence the
elements — and bytes after the encoding are ignored -/
theorem vlenV2_dec_enc (xs : List Bytes) (h : v2Guard xs) :
    vlenV2Dec xs.length (vlenV2EncRaw xs) = .ok (VArr.ofElems xs) := by
  have := vlenV2Dec_encRaw xs [] h
  simpa using this

theorem vlenV2_dec_ignores_trailing (xs : List Bytes) (t : Bytes) (h : v2Guard xs) :
    vlenV2Dec xs.length (vlenV2EncRaw xs ++ t) = .ok (VArr.ofElems xs) :=
  vlenV2Dec_encRaw xs t h

/-- the same through the codec's own `encode` on a valid `ArrayBytes::Variable`: the decoded value has the same
elements, and is the same value when the first offset is 0 -/
theorem vlenV2_dec_enc_valid (n : Nat) (v : VArr) (e : Bytes) (hg : v2Guard v.elems)
    (he : vlenV2Enc n v = .ok e) :
    vlenV2Dec n e = .ok (VArr.ofElems v.elems) ∧ (VArr.ofElems v.elems).elems = v.elems ∧
    (v.offsets.head? = some 0 → VArr.ofElems v.elems = v) := by
  have hv : v.valid n = true := by
    unfold vlenV2Enc at he
    cases hvv : v.valid n with
    | true => rfl
    | false => rw [hvv] at he; simp at he
  rw [vlenV2_enc_valid n v hv hg] at he
  simp only [Except.ok.injEq] at he
  subst he
  have hn := elems_length n v hv
  refine ⟨?_, elems_ofElems _, ofElems_elems n v hv⟩
  rw [← hn]; exact vlenV2_dec_enc _ hg

/-- **exact size**: 4 bytes of header, then 4 + length bytes per element (declared representation: unbounded) -/
theorem vlenV2_size (xs : List Bytes) :
    (vlenV2EncRaw xs).length = 4 + (xs.map (fun x => 4 + x.length)).sum :=
  encRaw_length xs

/-- **every strict prefix of an encoding is rejected** (with `InvalidBytesLengthError`: shorter than the header and
the length fields, or a length field / element reaching past the end) -/
theorem vlenV2_dec_rejects_truncated (xs : List Bytes) (h : v2Guard xs) (k : Nat)
    (hk : k < (vlenV2EncRaw xs).length) :
    vlenV2Dec xs.length ((vlenV2EncRaw xs).take k) = .error .tooShort ∨
    vlenV2Dec xs.length ((vlenV2EncRaw xs).take k) = .error .lengthPastEnd :=
  vlenV2Dec_truncated xs h k hk

/-- **the decoder accepts exactly the encodings followed by arbitrary trailing bytes**: an accepted value (of
bytes) is the encoding of the elements it decodes to, plus ignored bytes -/
theorem vlenV2_dec_canonical (n : Nat) (b : Bytes) (v : VArr) (hw : Vlen.wfBytes b) (h : vlenV2Dec n b = .ok v) :
    ∃ t, b = vlenV2EncRaw v.elems ++ t ∧ v = VArr.ofElems v.elems ∧ v.elems.length = n := by
  obtain ⟨xs, t, hv, hn, hb⟩ := vlenV2Dec_canonical n b v hw h
  subst hv
  rw [elems_ofElems]
  exact ⟨t, hb, rfl, hn⟩

/-- **injective on accepted values up to trailing bytes** -/
theorem vlenV2_dec_injective_on_accepted (n : Nat) (b₁ b₂ : Bytes) (v : VArr)
    (hw₁ : Vlen.wfBytes b₁) (hw₂ : Vlen.wfBytes b₂)
    (h₁ : vlenV2Dec n b₁ = .ok v) (h₂ : vlenV2Dec n b₂ = .ok v) :
    ∃ t₁ t₂, b₁ = vlenV2EncRaw v.elems ++ t₁ ∧ b₂ = vlenV2EncRaw v.elems ++ t₂ := by
  obtain ⟨t₁, hb₁, _, _⟩ := vlenV2_dec_canonical n b₁ v hw₁ h₁
  obtain ⟨t₂, hb₂, _, _⟩ := vlenV2_dec_canonical n b₂ v hw₂ h₂
  exact ⟨t₁, t₂, hb₁, hb₂⟩

/-- whatever the decoder returns passes `ArrayBytes::validate` for `n` elements and starts at offset 0: no slice of
the decoded value is out of range -/
theorem vlenV2_dec_valid (n : Nat) (b : Bytes) (v : VArr) (h : vlenV2Dec n b = .ok v) :
    v.valid n = true ∧ v.offsets.head? = some 0 :=
  vlenV2Dec_valid n b v h

private theorem exGuard : v2Guard exElems := by decide

example : vlenV2EncRaw exElems =
    [4, 0, 0, 0,  0, 0, 0, 0,  2, 0, 0, 0, 97, 98,  0, 0, 0, 0,  3, 0, 0, 0, 120, 121, 122] := by decide
example : vlenV2Enc 4 ⟨[97, 98, 120, 121, 122], [0, 0, 2, 2, 5]⟩ = .ok (vlenV2EncRaw exElems) := by decide
example : vlenV2Dec 4 [4, 0, 0, 0,  0, 0, 0, 0,  2, 0, 0, 0, 97, 98,  0, 0, 0, 0,  3, 0, 0, 0, 120, 121, 122] =
    .ok ⟨[97, 98, 120, 121, 122], [0, 0, 2, 2, 5]⟩ := by decide
example : vlenV2Dec exElems.length (vlenV2EncRaw exElems) = .ok (VArr.ofElems exElems) := vlenV2_dec_enc exElems exGuard
example : (vlenV2EncRaw exElems).length = 25 := by rw [vlenV2_size]; decide
/-- no elements: the header alone -/
example : vlenV2EncRaw [] = [0, 0, 0, 0] ∧ vlenV2Dec 0 [0, 0, 0, 0] = .ok ⟨[], [0]⟩ := by decide
example : vlenV2Dec 0 (vlenV2EncRaw []) = .ok (VArr.ofElems []) := vlenV2_dec_enc [] (by decide)
/-- truncations: inside the last element, inside a length field, below the minimum -/
example : vlenV2Dec 4 ((vlenV2EncRaw exElems).take 24) = .error .lengthPastEnd := by decide
example : vlenV2Dec 4 ((vlenV2EncRaw exElems).take 20) = .error .lengthPastEnd := by decide
example : vlenV2Dec 4 ((vlenV2EncRaw exElems).take 19) = .error .tooShort := by decide
example : vlenV2Dec exElems.length ((vlenV2EncRaw exElems).take 24) = .error .tooShort ∨
    vlenV2Dec exElems.length ((vlenV2EncRaw exElems).take 24) = .error .lengthPastEnd :=
  vlenV2_dec_rejects_truncated exElems exGuard 24 (by decide)
/-- wrong count in the header; a corrupted length reaching past the end; trailing bytes are ignored -/
example : vlenV2Dec 3 (vlenV2EncRaw exElems) = .error .headerCount := by decide
example : vlenV2Dec 4 [4, 0, 0, 0,  0, 0, 0, 0,  2, 0, 0, 0, 97, 98,  0, 0, 0, 0,  3, 0, 1, 0, 120, 121, 122] =
    .error .lengthPastEnd := by decide
example : vlenV2Dec 4 (vlenV2EncRaw exElems ++ [7, 7]) = .ok (VArr.ofElems exElems) :=
  vlenV2_dec_ignores_trailing exElems [7, 7] exGuard
example : ∃ t, vlenV2EncRaw exElems ++ [7, 7] = vlenV2EncRaw (VArr.ofElems exElems).elems ++ t ∧
    VArr.ofElems exElems = VArr.ofElems (VArr.ofElems exElems).elems ∧ (VArr.ofElems exElems).elems.length = 4 :=
  vlenV2_dec_canonical 4 (vlenV2EncRaw exElems ++ [7, 7]) (VArr.ofElems exElems) (by decide)
    (vlenV2_dec_ignores_trailing exElems [7, 7] exGuard)
/-- a value with leading padding: the encoding holds the elements only, the decoded value is canonical -/
example : vlenV2Enc 2 ⟨[9, 97, 98], [1, 1, 3]⟩ = .ok [2, 0, 0, 0,  0, 0, 0, 0,  2, 0, 0, 0, 97, 98] ∧
    vlenV2Dec 2 [2, 0, 0, 0,  0, 0, 0, 0,  2, 0, 0, 0, 97, 98] = .ok ⟨[97, 98], [0, 0, 2]⟩ := by decide

/-! ### `vlen` -/

/-- both chains consist of lawful codecs (proved for `crc32c`, `fletcher32`, `shuffle`; assumed for compressors) -/
def vlenLawful (c : Cfg) : Prop := (∀ x ∈ c.idxChain, x.Lawful) ∧ (∀ x ∈ c.dataChain, x.Lawful)

/-- the structure of what the encoder writes: `u64 LE |idx| ++ idx ++ d` with `idx` the index chain's output on the
`n + 1` offsets and `d` the data chain's output on the bytes — or nothing at all when there are no bytes — and
therefore the **exact size** `8 + |idx| + |d|` -/
theorem vlen_size (c : Cfg) (n : Nat) (v : VArr) (e : Bytes) (h : vlenEnc c n v = .ok e) :
    ∃ idx d, chainEnc c.idxChain (bytesEnc c.idxBig c.w (rawIndex c v.offsets)) = some idx ∧
      (if v.data.length = 0 then some [] else chainEnc c.dataChain v.data) = some d ∧
      e = le64 idx.length ++ idx ++ d ∧ e.length = 8 + idx.length + d.length := by
  unfold vlenEnc at h
  split at h
  · cases h
  · split at h
    · cases h
    · cases hp : vlenPack c v.offsets v.data with
      | none => rw [hp] at h; cases h
      | some b =>
        rw [hp] at h
        simp only [Except.ok.injEq] at h
        subst h
        obtain ⟨idx, d, hi, hd, hb⟩ := vlenPack_some c _ _ _ hp
        exact ⟨idx, d, hi, hd, hb, by rw [hb]; simp only [List.length_append, Vlen.le64_length]⟩

/-- with no bytes→bytes codecs: `8 + (n + 1) * width + |data|` exactly -/
theorem vlen_size_plain (c : Cfg) (hi : c.idxChain = []) (hd : c.dataChain = []) (n : Nat) (v : VArr) (e : Bytes)
    (h : vlenEnc c n v = .ok e) : e.length = 8 + (n + 1) * c.w + v.data.length := by
  have hv : v.valid n = true := by
    unfold vlenEnc at h
    cases hvv : v.valid n with
    | true => rfl
    | false => rw [hvv] at h; simp at h
  obtain ⟨idx, d, h1, h2, _, h4⟩ := vlen_size c n v e h
  rw [hi] at h1
  rw [hd] at h2
  simp only [chainEnc, List.foldl_nil, Option.some.injEq] at h1 h2
  have hmod : (rawIndex c v.offsets).length % c.w = 0 := by rw [rawIndex_length]; exact Nat.mul_mod_left _ _
  have hl := (bytes_dec_enc' c.idxBig c.w (rawIndex c v.offsets) (Or.inr hmod)).2
  rw [h1, rawIndex_length, ((valid_iff n v).mp hv).1] at hl
  have hdl : d.length = v.data.length := by
    by_cases h0 : v.data.length = 0
    · simp only [h0, if_true, Option.some.injEq] at h2; rw [← h2, h0]; rfl
    · simp only [h0, if_false, Option.some.injEq] at h2; rw [h2]
  rw [h4, hl, hdl]

/-- and bounded by the chains' declared sizes -/
theorem vlen_size_bound (c : Cfg) (hl : vlenLawful c)
    (hmi : ∀ x ∈ c.idxChain, ∀ m n, m ≤ n → (x.size m).1 ≤ (x.size n).1)
    (hmd : ∀ x ∈ c.dataChain, ∀ m n, m ≤ n → (x.size m).1 ≤ (x.size n).1)
    (n : Nat) (v : VArr) (e : Bytes) (h : vlenEnc c n v = .ok e) :
    e.length ≤ 8 + (chainSize c.idxChain ((n + 1) * c.w)).1 + (chainSize c.dataChain v.data.length).1 := by
  have hv : v.valid n = true := by
    unfold vlenEnc at h
    cases hvv : v.valid n with
    | true => rfl
    | false => rw [hvv] at h; simp at h
  obtain ⟨idx, d, h1, h2, _, h4⟩ := vlen_size c n v e h
  have hmod : (rawIndex c v.offsets).length % c.w = 0 := by rw [rawIndex_length]; exact Nat.mul_mod_left _ _
  have hlen := (bytes_dec_enc' c.idxBig c.w (rawIndex c v.offsets) (Or.inr hmod)).2
  rw [rawIndex_length, ((valid_iff n v).mp hv).1] at hlen
  have hb1 := (chain_size' c.idxChain hl.1 hmi _ _ h1).1
  rw [hlen] at hb1
  have hb2 : d.length ≤ (chainSize c.dataChain v.data.length).1 := by
    by_cases h0 : v.data.length = 0
    · simp only [h0, if_true, Option.some.injEq] at h2; rw [← h2]; exact Nat.zero_le _
    · simp only [h0, if_false] at h2; exact (chain_size' c.dataChain hl.2 hmd _ _ h2).1
  omega

/-- **`vlen` inverts its encoding**, for either index type, either index byte order, any lawful index and data
chains: decoding the encoding returns the value itself (bytes and offsets, leading padding included).  Size
hypotheses: the bytes and the encoded index are shorter than 2^64 (`usize`); with a `uint32` index the encoder
itself rejects offsets of 2^32 or more. -/
theorem vlen_dec_enc (c : Cfg) (hl : vlenLawful c) (n : Nat) (v : VArr) (e : Bytes)
    (h64 : v.data.length < 2 ^ 64) (he64 : e.length < 2 ^ 64) (h : vlenEnc c n v = .ok e) :
    vlenDec c n e = .ok v := by
  obtain ⟨idx, d, hi, hd, hb, hlen⟩ := vlen_size c n v e h
  unfold vlenEnc at h
  cases hvv : v.valid n with
  | false => rw [hvv] at h; simp at h
  | true =>
    rw [hvv] at h
    simp only [Bool.not_true, Bool.false_eq_true, if_false] at h
    have ho : ∀ o ∈ v.offsets, o < c.maxOff := by
      intro o hmem
      have hle := valid_offsets_le n v hvv o hmem
      unfold Cfg.maxOff
      cases h6 : c.idx64 with
      | true => simp only [if_true]; omega
      | false =>
        simp only [Bool.false_eq_true, if_false]
        rw [h6] at h
        simp only [Bool.not_false, Bool.true_and] at h
        cases ha : v.offsets.any (fun o => decide (o ≥ 2 ^ 32)) with
        | true => rw [ha] at h; simp at h
        | false =>
          rw [List.any_eq_false] at ha
          have := ha o hmem
          simpa using this
    rw [hb, vlenDec_packed c hl.1 n v.offsets idx d ((valid_iff n v).mp hvv).1 ho hi (by omega)]
    exact vlenDecTail_valid c hl.2 n v d hvv hd

/-- on element lists: the decoded value has exactly the encoded elements -/
theorem vlen_dec_enc_elems (c : Cfg) (hl : vlenLawful c) (xs : List Bytes) (e : Bytes)
    (h64 : xs.flatten.length < 2 ^ 64) (he64 : e.length < 2 ^ 64)
    (h : vlenEnc c xs.length (VArr.ofElems xs) = .ok e) :
    ∃ v, vlenDec c xs.length e = .ok v ∧ v.elems = xs :=
  ⟨VArr.ofElems xs, vlen_dec_enc c hl xs.length _ e h64 he64 h, elems_ofElems xs⟩

/-- the `uint32` guard: an offset of 2^32 or more is an encode error (not a panic, not a truncation) -/
theorem vlen_enc_offset_guard (c : Cfg) (h32 : c.idx64 = false) (n : Nat) (v : VArr) (hv : v.valid n = true)
    (hbig : ∃ o ∈ v.offsets, o ≥ 2 ^ 32) : vlenEnc c n v = .error .offsetTooLarge := by
  obtain ⟨o, ho, hge⟩ := hbig
  have : v.offsets.any (fun o => decide (o ≥ 2 ^ 32)) = true := by
    rw [List.any_eq_true]; exact ⟨o, ho, by simpa using hge⟩
  unfold vlenEnc
  simp only [hv, Bool.not_true, Bool.false_eq_true, if_false, h32, Bool.not_false, Bool.true_and, this, if_true]

/-- **whatever the decoder accepts is a valid chunk** — for EVERY value and every (even unlawful) chains: `n + 1`
offsets, each at least its predecessor and at most the data length, the last equal to the data length; so no slice
`bytes[offsets[j]..offsets[j+1]]` of a decoded chunk is ever out of range, and `CodecChain::decode`'s final
`validate` never fails -/
theorem vlen_dec_valid (c : Cfg) (n : Nat) (b : Bytes) (v : VArr) (h : vlenDec c n b = .ok v) :
    v.valid n = true := by
  unfold vlenDec at h
  split at h
  · cases h
  · simp only at h
    split at h
    · cases h
    · split at h
      · cases h
      · rename_i raw _
        split at h
        · cases h
        · rename_i hlen
          have hlen' : raw.length = (n + 1) * c.w := Decidable.of_not_not hlen
          obtain ⟨ho, hok, hlast, _⟩ := vlenDecTail_ok c _ _ v h
          rw [valid_iff, ho]
          exact ⟨readOffsets_length c c.idxBig raw (n + 1) hlen', hok, hlast⟩

/-- **bad offsets are errors**: if the index holds an offset smaller than its predecessor, or larger than the last
offset (= the declared data length), decoding fails — whatever the data part holds, for any data chain -/
theorem vlen_dec_rejects_bad_offsets (c : Cfg) (hl : ∀ x ∈ c.idxChain, x.Lawful) (n : Nat) (offs : List Nat)
    (idx d : Bytes) (hn : offs.length = n + 1) (ho : ∀ o ∈ offs, o < c.maxOff)
    (hi : chainEnc c.idxChain (bytesEnc c.idxBig c.w (rawIndex c offs)) = some idx) (hidx : idx.length < 2 ^ 64)
    (hbad : offsetsOk (offs.getLast?.getD 0) offs = false) :
    ∃ err, vlenDec c n (le64 idx.length ++ idx ++ d) = .error err := by
  rw [vlenDec_packed c hl n offs idx d hn ho hi hidx]
  cases hr : vlenDecTail c offs d with
  | error e => exact ⟨e, rfl⟩
  | ok v =>
    obtain ⟨_, hok, hlast, _⟩ := vlenDecTail_ok c offs d v hr
    rw [hlast] at hbad
    simp only [Option.getD_some] at hbad
    rw [hok] at hbad
    cases hbad

/-- **a data part of the wrong length is an error**: the last offset declares the decoded data length.  The case
`last = 0` is different and stated next: the data part is then not looked at. -/
theorem vlen_dec_rejects_wrong_data_length (c : Cfg) (hl : vlenLawful c) (n : Nat) (offs : List Nat)
    (data b : Bytes) (hn : offs.length = n + 1) (ho : ∀ o ∈ offs, o < c.maxOff) (hb64 : b.length < 2 ^ 64)
    (hp : vlenPack c offs data = some b) (last : Nat) (hlast : offs.getLast? = some last)
    (hne : data.length ≠ 0) (hl0 : last ≠ 0) (hbad : data.length ≠ last) :
    ∃ err, vlenDec c n b = .error err := by
  obtain ⟨idx, d, hi, hd, hb⟩ := vlenPack_some c offs data b hp
  have hidx : idx.length < 2 ^ 64 := by
    rw [hb] at hb64; simp only [List.length_append] at hb64; omega
  rw [hb, vlenDec_packed c hl.1 n offs idx d hn ho hi hidx]
  simp only [hne, if_false] at hd
  cases hr : vlenDecTail c offs d with
  | error e => exact ⟨e, rfl⟩
  | ok v =>
    obtain ⟨_, _, hlast', hdata⟩ := vlenDecTail_ok c offs d v hr
    rw [hlast] at hlast'
    simp only [Option.some.injEq] at hlast'
    rcases hdata with ⟨_, h0⟩ | hdec
    · rw [hlast] at h0
      simp only [Option.some.injEq] at h0
      exact absurd h0 hl0
    · rw [chain_dec_enc' _ hl.2 _ _ hd] at hdec
      simp only [Option.some.injEq] at hdec
      rw [← hdec] at hlast'
      exact absurd hlast'.symm hbad

/-- when the index says "no bytes" (last offset 0; then every offset must be 0), whatever follows the index is
ignored — the data codecs are not run — and the chunk of `n` empty elements is returned -/
theorem vlen_dec_ignores_data_when_empty (c : Cfg) (hl : ∀ x ∈ c.idxChain, x.Lawful) (n : Nat) (idx d : Bytes)
    (h0 : 0 < c.maxOff)
    (hi : chainEnc c.idxChain (bytesEnc c.idxBig c.w (rawIndex c (List.replicate (n + 1) 0))) = some idx)
    (hidx : idx.length < 2 ^ 64) :
    vlenDec c n (le64 idx.length ++ idx ++ d) = .ok ⟨[], List.replicate (n + 1) 0⟩ := by
  rw [vlenDec_packed c hl n (List.replicate (n + 1) 0) idx d (by simp)
    (by intro o ho; rw [List.eq_of_mem_replicate ho]; exact h0) hi hidx]
  have hlast : (List.replicate (n + 1) 0).getLast? = some 0 := by
    rw [List.getLast?_eq_some_getLast (by simp)]; simp
  have hok : offsetsOk 0 (List.replicate (n + 1) 0) = true := by
    unfold offsetsOk
    rw [List.all_eq_true]
    have : ∀ (k : Nat) (p : Nat × Nat), p ∈ windows (List.replicate k 0) → p = (0, 0) := by
      intro k
      induction k with
      | zero => intro p hp; simp [windows] at hp
      | succ k ih =>
        intro p hp
        cases k with
        | zero => simp [windows] at hp
        | succ k =>
          simp only [List.replicate_succ, windows, List.mem_cons] at hp
          rcases hp with rfl | hp
          · rfl
          · exact ih p (by simpa [List.replicate_succ] using hp)
    intro p hp
    rw [this _ p hp]; rfl
  unfold vlenDecTail
  rw [hlast]
  simp only [if_true, List.length_nil, hok]

/-- **an index length reaching past the end of the value is an error** in the model (the pinned tree panics) -/
theorem vlen_dec_rejects_short_index (c : Cfg) (n : Nat) (b : Bytes) (h8 : 8 ≤ b.length)
    (h : b.length < 8 + ofLe (b.take 8)) : vlenDec c n b = .error .indexLenPastEnd := by
  unfold vlenDec
  have : ¬ (b.length < 8) := by omega
  simp only [this, if_false, h, if_true]

theorem vlen_dec_rejects_short (c : Cfg) (n : Nat) (b : Bytes) (h : b.length < 8) :
    vlenDec c n b = .error .tooShort := by
  unfold vlenDec; simp only [h, if_true]

/-! ### `vlen`: concrete values -/

/-- `uint32` little-endian index, no bytes→bytes codecs (the shortest configuration) -/
private def cfg32 : Cfg := ⟨false, false, [], []⟩
/-- `uint64` big-endian index, `crc32c` on the index and on the data -/
private def cfg64 : Cfg := ⟨true, true, [crc32cCodec], [crc32cCodec]⟩

private theorem cfg32_lawful : vlenLawful cfg32 := by
  constructor <;>
  · intro x hx
    simp [cfg32] at hx
private theorem cfg64_lawful : vlenLawful cfg64 := by
  constructor <;>
  · intro x hx
    simp only [cfg64, List.mem_cons, List.not_mem_nil, or_false] at hx
    subst hx
    exact crc32c_lawful

private def exEnc32 : Bytes :=
  [20, 0, 0, 0, 0, 0, 0, 0,  0, 0, 0, 0,  0, 0, 0, 0,  2, 0, 0, 0,  2, 0, 0, 0,  5, 0, 0, 0,  97, 98, 120, 121, 122]
private def exEnc64 : Bytes :=
  [44, 0, 0, 0, 0, 0, 0, 0,
   0, 0, 0, 0, 0, 0, 0, 0,  0, 0, 0, 0, 0, 0, 0, 0,  0, 0, 0, 0, 0, 0, 0, 2,  0, 0, 0, 0, 0, 0, 0, 2,
   0, 0, 0, 0, 0, 0, 0, 5,  30, 193, 246, 62,
   97, 98, 120, 121, 122,  114, 101, 57, 215]

example : vlenEnc cfg32 4 (VArr.ofElems exElems) = .ok exEnc32 := by decide
example : vlenDec cfg32 4 exEnc32 = .ok ⟨[97, 98, 120, 121, 122], [0, 0, 2, 2, 5]⟩ := by decide
example : vlenEnc cfg64 4 (VArr.ofElems exElems) = .ok exEnc64 := by decide +kernel
example : vlenDec cfg64 4 exEnc64 = .ok (VArr.ofElems exElems) :=
  vlen_dec_enc cfg64 cfg64_lawful 4 _ exEnc64 (by decide) (by decide) (by decide +kernel)
example : ∃ v, vlenDec cfg32 exElems.length exEnc32 = .ok v ∧ v.elems = exElems :=
  vlen_dec_enc_elems cfg32 cfg32_lawful exElems exEnc32 (by decide) (by decide) (by decide)
example : exEnc32.length = 8 + (4 + 1) * cfg32.w + (VArr.ofElems exElems).data.length :=
  vlen_size_plain cfg32 rfl rfl 4 _ exEnc32 (by decide)
example : exEnc64.length ≤ 8 + (chainSize cfg64.idxChain ((4 + 1) * cfg64.w)).1 + (chainSize cfg64.dataChain 5).1 :=
  vlen_size_bound cfg64 cfg64_lawful
    (by intro x hx m n h; simp only [cfg64, List.mem_cons, List.not_mem_nil, or_false] at hx; subst hx
        exact Nat.add_le_add_right h 4)
    (by intro x hx m n h; simp only [cfg64, List.mem_cons, List.not_mem_nil, or_false] at hx; subst hx
        exact Nat.add_le_add_right h 4)
    4 (VArr.ofElems exElems) exEnc64 (by decide +kernel)
/-- only empty elements: the data codecs are skipped — no checksum after the index — and on decode anything that
follows the index is ignored -/
example : vlenEnc cfg64 2 (VArr.ofElems [[], []]) =
    .ok [28, 0, 0, 0, 0, 0, 0, 0,  0, 0, 0, 0, 0, 0, 0, 0,  0, 0, 0, 0, 0, 0, 0, 0,  0, 0, 0, 0, 0, 0, 0, 0,
         238, 236, 251, 132] := by decide +kernel
example : vlenDec cfg32 1 ([8, 0, 0, 0, 0, 0, 0, 0,  0, 0, 0, 0,  0, 0, 0, 0] ++ [1, 2, 3]) = .ok ⟨[], [0, 0]⟩ :=
  vlen_dec_ignores_data_when_empty cfg32 cfg32_lawful.1 1 _ [1, 2, 3] (by decide) (by decide) (by decide)
/-- a value with leading padding survives `vlen` unchanged -/
example : vlenDec cfg32 2 [12, 0, 0, 0, 0, 0, 0, 0,  1, 0, 0, 0,  1, 0, 0, 0,  3, 0, 0, 0,  9, 97, 98] =
    .ok ⟨[9, 97, 98], [1, 1, 3]⟩ :=
  vlen_dec_enc cfg32 cfg32_lawful 2 ⟨[9, 97, 98], [1, 1, 3]⟩ _ (by decide) (by decide) (by decide)
/-- corrupted values: a decreasing offset, a data part one byte short, an index length past the end, fewer than 8
bytes, a wrong index checksum, an index of the wrong size for the chunk -/
example : vlenDec cfg32 4 [20, 0, 0, 0, 0, 0, 0, 0,  0, 0, 0, 0,  3, 0, 0, 0,  2, 0, 0, 0,  2, 0, 0, 0,  5, 0, 0, 0,
    97, 98, 120, 121, 122] = .error .badOffsets := by decide
example : ∃ err, vlenDec cfg32 4 (le64 20 ++ [0, 0, 0, 0,  3, 0, 0, 0,  2, 0, 0, 0,  2, 0, 0, 0,  5, 0, 0, 0] ++
    [97, 98, 120, 121, 122]) = .error err :=
  vlen_dec_rejects_bad_offsets cfg32 cfg32_lawful.1 4 [0, 3, 2, 2, 5] _ _ (by decide) (by decide) (by decide)
    (by decide) (by decide)
example : vlenDec cfg32 4 [20, 0, 0, 0, 0, 0, 0, 0,  0, 0, 0, 0,  0, 0, 0, 0,  2, 0, 0, 0,  2, 0, 0, 0,  5, 0, 0, 0,
    97, 98, 120, 121] = .error .dataLength := by decide
example : ∃ err, vlenDec cfg32 4 [20, 0, 0, 0, 0, 0, 0, 0,  0, 0, 0, 0,  0, 0, 0, 0,  2, 0, 0, 0,  2, 0, 0, 0,
    5, 0, 0, 0,  97, 98, 120, 121] = .error err :=
  vlen_dec_rejects_wrong_data_length cfg32 cfg32_lawful 4 [0, 0, 2, 2, 5] [97, 98, 120, 121] _ (by decide)
    (by decide) (by decide) (by decide) 5 (by decide) (by decide) (by decide) (by decide)
example : vlenDec cfg32 4 [21, 0, 0, 0, 0, 0, 0, 0,  0, 0, 0, 0,  0, 0, 0, 0,  2, 0, 0, 0,  2, 0, 0, 0,  5, 0, 0, 0] =
    .error .indexLenPastEnd :=
  vlen_dec_rejects_short_index cfg32 4 _ (by decide) (by decide)
example : vlenDec cfg32 4 [20, 0, 0, 0, 0, 0, 0] = .error .tooShort := vlen_dec_rejects_short cfg32 4 _ (by decide)
example : vlenDec cfg64 4 (exEnc64.set 10 1) = .error .indexChain := by decide +kernel
example : vlenDec cfg32 3 exEnc32 = .error .indexLength := by decide
/-- the `uint32` guard -/
example : vlenEnc cfg32 1 ⟨List.replicate 0 0, [4294967296, 4294967296]⟩ = .error .invalidInput := by decide
example (v : VArr) (hv : v.valid 1 = true) (h : 4294967296 ∈ v.offsets) : vlenEnc cfg32 1 v = .error .offsetTooLarge :=
  vlen_enc_offset_guard cfg32 rfl 1 v hv ⟨_, h, by decide⟩
example : (⟨[97, 98, 120, 121, 122], [0, 0, 2, 2, 5]⟩ : VArr).valid 4 = true :=
  vlen_dec_valid cfg32 4 exEnc32 _ (by decide : vlenDec cfg32 4 exEnc32 = .ok ⟨[97, 98, 120, 121, 122], [0, 0, 2, 2, 5]⟩)

end Zarrs.C03
