import ZarrsModel.Model.ChainSPE
import ZarrsModel.Lemmas.ChainSPETop
import ZarrsModel.Props.C03Chain
import ZarrsModel.Props.C05
set_option Elab.async false
set_option maxRecDepth 8000
/-
C05 / C04 for codec chains at ELEMENT level: `CodecChain::partial_encoder(…).partial_encode(region writes)` (model
`ChainS.partialEncode`, Model/ChainSPE.lean: the sharding partial encoder from region writes to inner-chunk updates,
`ShardPE.partialEncode` for the layout, the default decode-update-re-encode partial encoders of the array-to-array and
bytes-to-bytes codecs and of `bytes`, stacked as `CodecChain::partial_encoder` stacks them; any nesting depth) composed with
the full decoder `ChainS.decode` and the partial decoder `ChainS.partialDecoder`:

* `chainS_partial_encode_refines`   — partial encoding = rewriting the whole chunk, as far as any reader can tell: the new
                                      value is erased iff the updated chunk is all fill, else `ChainS.decode` returns the
                                      updated chunk and `ChainS.partialDecoder` serves it; the new value is again a
                                      well-formed stored value (`ChainS.Stores`), so the next call starts from the same
                                      invariant;
  `chainS_partial_encode_eq_rewrite`— … in the form "reads the same as the full rewrite `ChainS.encode` / erase";
  `holds_encode`, `holds_absent`    — what the full encoder writes / an absent key satisfy the invariant;
* `chainS_partial_encode_wellformed`— every sharding level of a stored value (`ChainS.LevelsOk`): `Shard.decode` accepts
                                      it, `Shard.wellFormed`, tight, and a legal shard (`Shard.Legal`) of its stored
                                      chunks when these are non-empty;
* `chainS_partial_history`          — any history of calls from an absent key: same presence and same decoded chunk as the
                                      history of full rewrites (read, update, `ChainS.encode` or erase);
* `straddle_reads_needed`, `straddle_and_loses_data` — the 4×4 shard of 2×2 inner chunks; `&&` in place of `||` loses data;
* `chainS_index_fill` (C04)         — index entry `i` is the sentinel ↔ inner chunk `i` of the decoded shard is all fill,
                                      for every well-formed stored value, in particular (`chainS_index_fill_encode`,
                                      `chainS_index_fill_partial`) for what `ChainS.encode` / `ChainS.partialEncode` write.
-/
namespace Zarrs.C05Chain
open Zarrs Zarrs.Codec Zarrs.Partial Zarrs.C02 Zarrs.C02S Zarrs.Shard

private theorem bStageOk_BOk2 (st : BStage) (h : bStageOk st) : BOk2 st := by
  refine ⟨?_, fun b g hg => bStage_ok st h b g hg⟩
  cases st with
  | stripSuffix n sum => exact bStage_dec_checksum n sum
  | decodeAll e d => exact h
  | cache => exact bStage_dec_cache

private theorem okWith_BOk2 (c : ChainS) (sh : Shape) (fill : Elem) (h : chainSOk c sh fill) :
    c.okWith aOk BOk2 sh fill :=
  ChainS.okWith_mono (fun l s hl => aStagesOk_aOk l s hl) bStageOk_BOk2 c sh fill h

/-- the hypotheses on the chain: well formed (`chainSOk`), a fill value of the element size, no cache among the top
stages (`CodecChain::partial_encoder` inserts none), the inner chain of a top-level sharding codec declares a size
bound and the shards nested in it are shorter than 2^64 - 1 bytes -/
def peChainOk (c : ChainS) (sh : Shape) (fill : Elem) : Prop :=
  chainSOk c sh fill ∧ fill.length = c.es ∧ c.topNoCache ∧ c.innerSmall


/-! ### the running examples: a 4×4 chunk of 1-byte elements, fill value 0.
`exC`: one sharding level, 2×2 inner chunks (`bytes` + crc32c), index at the end with crc32c.
`exT`: a transpose, then sharding with 2×2 inner chunks, big-endian index at the start, then crc32c over the shard. -/

private def exLeaf : Chain := { a2a := [], big := false, es := 1, unit := 1, b2b := [.stripSuffix 4 crc32c] }
private def exC : ChainS := .shard [] ⟨0, true, false, true⟩ [2, 2] 1 (.leaf exLeaf []) []
private def exT : ChainS :=
  .shard [.transpose [1, 0]] ⟨0, false, true, false⟩ [2, 2] 1 (.leaf exLeaf []) [.stripSuffix 4 crc32c]
private def exFill : Elem := [0]
/-- a 3×3 region at the origin: it straddles all four inner chunks -/
private def w33 : RWrite := (⟨[0, 0], [3, 3]⟩, (List.range 9).map (fun i => [i + 1]))
/-- the inner chunk (0,0) set to the fill value -/
private def wFill : RWrite := (⟨[0, 0], [2, 2]⟩, List.replicate 4 [0])
/-- a 2×2 region in the middle: one element of each inner chunk -/
private def wMid : RWrite := (⟨[1, 1], [2, 2]⟩, List.replicate 4 [77])

private theorem exC_ok : peChainOk exC [4, 4] exFill := by
  refine ⟨⟨trivial, by decide, ?_, by decide, rfl, ⟨by decide, by decide, by decide, trivial, ?_, ⟨trivial, trivial⟩⟩⟩,
    rfl, ⟨fun st h => (by cases h), fun st h => (by cases h)⟩, ⟨trivial, by decide⟩⟩
  · intro st hst; cases hst
  · intro st hst
    simp only [exLeaf, List.mem_singleton] at hst
    subst hst; rfl

private theorem exT_ok : peChainOk exT [4, 4] exFill := by
  refine ⟨⟨⟨by decide, trivial⟩, by decide, ?_, by decide, rfl,
      ⟨by decide, by decide, by decide, trivial, ?_, ⟨trivial, trivial⟩⟩⟩,
    rfl, ⟨?_, ?_⟩, ⟨trivial, by decide⟩⟩
  · intro st hst
    simp only [List.mem_singleton] at hst
    subst hst; rfl
  · intro st hst
    simp only [exLeaf, List.mem_singleton] at hst
    subst hst; rfl
  · intro st hst
    simp only [List.mem_singleton] at hst
    subst hst; rfl
  · intro st hst
    simp only [List.mem_singleton] at hst
    subst hst; rfl

private theorem ex_writes_ok : ∀ w ∈ [w33, wFill, wMid], writeOk 1 [4, 4] w := by
  intro w hw
  simp only [List.mem_cons, List.not_mem_nil, or_false] at hw
  rcases hw with rfl | rfl | rfl <;> exact ⟨by decide, by decide, by decide, by decide⟩

/-- the stored value a full rewrite of the chunk leaves (`store_chunk`: all fill → erased) -/
def rewriteValue (c : ChainS) (sh : Shape) (fill : Elem) (xs : List Elem) : Option Bytes :=
  if xs.all (· == fill) then none else some (c.encode sh fill xs)

/-- what any reader gets from a stored value: the decoded chunk, all fill for an absent key; `none` = error -/
def readValue (c : ChainS) (sh : Shape) (fill : Elem) (v : Option Bytes) : Option (List Elem) :=
  match v with
  | none => some (List.replicate (prod sh) fill)
  | some b => c.decode sh fill b

/-- **partial encoding refines the full rewrite.**  `v` is absent with `old` all fill, or a well-formed stored value of
`old` (`Holds`: what `ChainS.encode` writes — `holds_encode` — and what every earlier `partial_encode` call left); the
writes are in-bounds regions of well-sized elements; the stored shard can grow by `stepCost` without reaching 2^64 - 1
bytes.  Then the call succeeds, the new value is erased iff the updated chunk `new` is all fill, it is again a
well-formed stored value of `new`, the full decoder returns `new` and the partial decoder on any handle serving the
new value (absent: any absent handle) serves `new`. -/
theorem chainS_partial_encode_refines (c : ChainS) (sh : Shape) (fill : Elem) (hc : peChainOk c sh fill)
    (v : Option Bytes) (old : List Elem) (hold : chunkOk c.es sh old) (hH : c.Holds sh fill v old)
    (hlen : c.shardLen v + c.stepCost sh < sentinel)
    (ws : List RWrite) (hws : ∀ w ∈ ws, writeOk c.es sh w) :
    ∃ v', c.partialEncode sh fill v ws = some v' ∧
      (v' = none ↔ (applyRegionWrites sh old ws).all (· == fill) = true) ∧
      c.Holds sh fill v' (applyRegionWrites sh old ws) ∧
      readValue c sh fill v' = some (applyRegionWrites sh old ws) ∧
      (∀ g : BHandle, (match v' with
          | none => BHandleAbsent g
          | some b => BHandleOk g b) → AHandleOk (c.partialDecoder sh fill g) sh (applyRegionWrites sh old ws)) ∧
      c.shardLen v' ≤ c.shardLen v + c.stepCost sh := by
  obtain ⟨hok, hfl, hnc, hsm⟩ := hc
  have hok2 := okWith_BOk2 c sh fill hok
  obtain ⟨v', h1, h2, h3, h4⟩ := chainS_pe_step c sh fill hok2 hfl hnc hsm v old hold.1 hold.2 hH hlen ws hws
  have hnewl := applyRegionWrites_length sh c.es ws old hold.1 hws
  have hnewe := applyRegionWrites_elems sh c.es ws old hold.1 hold.2 hws
  refine ⟨v', h1, h3, h2, ?_, ?_, h4⟩
  · cases v' with
    | none =>
      have : applyRegionWrites sh old ws = List.replicate (prod sh) fill := h2
      rw [this]; rfl
    | some b => exact stores_decode c sh fill b _ (okWith_BDec c sh fill hok2) hnewl hnewe h2
  · intro g hg
    cases v' with
    | none =>
      have : applyRegionWrites sh old ws = List.replicate (prod sh) fill := h2
      rw [this]
      exact chainS_partial_absent c sh fill hok g hg
    | some b => exact stores_pd c sh fill b _ (okWith_BLaw c sh fill hok2) hnewl hnewe h2 g hg


/-- the hypotheses are satisfiable: from an absent key (both chains), and from the value the first call left -/
example : peChainOk exC [4, 4] exFill ∧ chunkOk exC.es [4, 4] (List.replicate 16 exFill) ∧
    exC.Holds [4, 4] exFill none (List.replicate (prod [4, 4]) exFill) ∧
    exC.shardLen none + exC.stepCost [4, 4] < sentinel ∧ (∀ w ∈ [w33], writeOk exC.es [4, 4] w) :=
  ⟨exC_ok, ⟨by decide, by decide⟩, rfl, by decide, fun w hw => ex_writes_ok w (by simp at hw; simp [hw])⟩
example : peChainOk exT [4, 4] exFill ∧ exT.shardLen none + exT.stepCost [4, 4] < sentinel := ⟨exT_ok, by decide⟩
/-- the conclusion evaluated: the 3×3 write from nothing — four stored inner chunks, decoded back -/
example : (exC.partialEncode [4, 4] exFill none [w33]).map (fun r => r.map (exC.decode [4, 4] exFill)) =
    some (some (some [[1], [2], [3], [0], [4], [5], [6], [0], [7], [8], [9], [0], [0], [0], [0], [0]])) := by
  decide +kernel
example : applyRegionWrites [4, 4] (List.replicate 16 exFill) [w33] =
    [[1], [2], [3], [0], [4], [5], [6], [0], [7], [8], [9], [0], [0], [0], [0], [0]] := by decide
/-- through the transpose and the outer crc32c (array-to-array and bytes-to-bytes default partial encoders) -/
example : (exT.runPE [4, 4] exFill none [[w33], [wFill], [wMid]]).map (fun r => r.map (exT.decode [4, 4] exFill)) =
    some (some (some (applyHistory [4, 4] (List.replicate 16 exFill) [[w33], [wFill], [wMid]]))) := by
  decide +kernel

/-- what the full encoder writes satisfies the invariant (so `chainS_partial_encode_refines` applies to an old value
written by `store_chunk`) -/
theorem holds_encode (c : ChainS) (sh : Shape) (fill : Elem) (hok : chainSOk c sh fill) (xs : List Elem)
    (hx : chunkOk c.es sh xs) (hfits : c.fits sh fill xs) : c.Holds sh fill (some (c.encode sh fill xs)) xs :=
  stores_encode c sh fill xs (okWith_BDec c sh fill (okWith_BOk2 c sh fill hok)) hx.1 hx.2 hfits

/-- … and so does an absent key with the all-fill chunk -/
theorem holds_absent (c : ChainS) (sh : Shape) (fill : Elem) : c.Holds sh fill none (List.replicate (prod sh) fill) := rfl

/-- **… in the form "reads the same as the full rewrite"**: the partially encoded value and the value `store_chunk`
would write for the updated chunk (`ChainS.encode`, or erase when all fill) are both present or both absent, and every
reader gets the same chunk from either -/
theorem chainS_partial_encode_eq_rewrite (c : ChainS) (sh : Shape) (fill : Elem) (hc : peChainOk c sh fill)
    (v : Option Bytes) (old : List Elem) (hold : chunkOk c.es sh old) (hH : c.Holds sh fill v old)
    (hlen : c.shardLen v + c.stepCost sh < sentinel)
    (ws : List RWrite) (hws : ∀ w ∈ ws, writeOk c.es sh w)
    (hfits : c.fits sh fill (applyRegionWrites sh old ws)) :
    ∃ v', c.partialEncode sh fill v ws = some v' ∧
      (v' = none ↔ rewriteValue c sh fill (applyRegionWrites sh old ws) = none) ∧
      readValue c sh fill v' = readValue c sh fill (rewriteValue c sh fill (applyRegionWrites sh old ws)) := by
  obtain ⟨v', h1, h2, _, h4, _⟩ := chainS_partial_encode_refines c sh fill hc v old hold hH hlen ws hws
  have hnewl := applyRegionWrites_length sh c.es ws old hold.1 hws
  have hnewe := applyRegionWrites_elems sh c.es ws old hold.1 hold.2 hws
  refine ⟨v', h1, ?_, ?_⟩
  · rw [h2]
    unfold rewriteValue
    by_cases hall : (applyRegionWrites sh old ws).all (· == fill) = true
    · rw [if_pos hall]; exact ⟨fun _ => rfl, fun _ => hall⟩
    · rw [if_neg hall]; exact ⟨fun h => absurd h hall, fun h => by cases h⟩
  · rw [h4]
    unfold rewriteValue
    split
    · rename_i hall
      simp only [readValue]
      rw [all_fill_replicate fill _ _ hnewl hall]
    · simp only [readValue]
      exact (C03Chain.chainS_dec_enc c sh fill _ hc.1 ⟨hnewl, hnewe⟩ hfits).symm


/-- the hypotheses are satisfiable: the value the full encoder writes for the chunk after the 3×3 write, then the
middle 2×2 write as a partial encode -/
private def exOld : List Elem := applyRegionWrites [4, 4] (List.replicate 16 exFill) [w33]
example : chainSOk exC [4, 4] exFill ∧ chunkOk exC.es [4, 4] exOld ∧ exC.fits [4, 4] exFill exOld := by
  refine ⟨exC_ok.1, ⟨by decide, by decide⟩, ?_⟩
  simp only [exC, ChainS.fits]
  decide +kernel
example : exC.shardLen (some (exC.encode [4, 4] exFill exOld)) + exC.stepCost [4, 4] < sentinel ∧
    exC.fits [4, 4] exFill (applyRegionWrites [4, 4] exOld [wMid]) := by
  refine ⟨by decide +kernel, ?_⟩
  simp only [exC, ChainS.fits]
  decide +kernel
/-- the conclusion evaluated: partial encode on the encoder's value reads as the full rewrite -/
example : (exC.partialEncode [4, 4] exFill (some (exC.encode [4, 4] exFill exOld)) [wMid]).map (readValue exC [4, 4] exFill) =
    some (readValue exC [4, 4] exFill (rewriteValue exC [4, 4] exFill (applyRegionWrites [4, 4] exOld [wMid]))) := by
  decide +kernel
/-- … and a call that makes everything fill erases the key, as the full rewrite does -/
example : exC.partialEncode [4, 4] exFill (some (exC.encode [4, 4] exFill exOld))
      [(⟨[0, 0], [4, 4]⟩, List.replicate 16 exFill)] = some none ∧
    rewriteValue exC [4, 4] exFill (applyRegionWrites [4, 4] exOld [(⟨[0, 0], [4, 4]⟩, List.replicate 16 exFill)]) = none := by
  decide +kernel


/-! ### the two halves of `ShardingPartialEncoder::partial_encode` -/

/-- **from region writes to inner-chunk updates** (`shardPEElems`): on in-bounds region writes of well-sized elements,
from an index `entries`, stored inner chunks `chunks` that decode to the pieces of `old`, and a handle serving them
(`PEOld`), the call succeeds with the updates `peEncode fill innerEnc st` of a map `st` that holds, for every inner chunk
it contains, exactly that inner chunk of the updated shard (all fill: dropped, else re-encoded), and that leaves out
only inner chunks the writes do not change -/
theorem shardPEElems_updates {inner shard : Shape} (ht : tiles inner shard = true) (es : Nat) (fill : Elem)
    (hfill : fill.length = es) (entries : List (Nat × Nat)) (chunks : List (Option Bytes))
    (innerDec : Bytes → Option (List Elem)) (innerEnc : List Elem → Bytes) (h : BHandle)
    (old : List Elem) (hold : old.length = prod shard)
    (O : PEOld entries chunks h (prod (zipDiv shard inner)))
    (hcd : ChunksDecode es fill inner innerDec chunks (splitShard shard inner old))
    (ws : List RWrite) (hws : ∀ w ∈ ws, writeOk es shard w) :
    ∃ st, shardPEElems es fill shard inner (zipDiv shard inner) entries innerDec innerEnc h ws =
        some (peEncode fill innerEnc st) ∧
      st.length = prod (zipDiv shard inner) ∧
      ∀ c, inB c (zipDiv shard inner) = true →
        match st.getD (ravel c (zipDiv shard inner)) none with
        | some x => x = (cellBox inner c).extract shard (applyRegionWrites shard old ws)
        | none => (cellBox inner c).extract shard (applyRegionWrites shard old ws) =
            (cellBox inner c).extract shard old :=
  shardPEElems_spec ht es fill hfill entries chunks innerDec innerEnc h old hold O hcd ws hws

/-- the hypotheses hold of an absent shard (all-sentinel index, nothing stored, all fill) -/
example : tiles [2, 2] [4, 4] = true ∧
    PEOld (List.replicate 4 (sentinel, sentinel)) (List.replicate 4 none) (storeHandle none) (prod (zipDiv [4, 4] [2, 2])) ∧
    ChunksDecode 1 exFill [2, 2] ((ChainS.leaf exLeaf []).decode [2, 2] exFill) (List.replicate 4 none)
      (splitShard [4, 4] [2, 2] (List.replicate 16 exFill)) :=
  ⟨by decide, peOld_absent _ storeHandle_none_absent 4, by decide, fun i h1 h2 => by
    simp only [List.getElem_replicate]
    exact splitShard_fill (ish := [2, 2]) (sh := [4, 4]) (by decide) exFill i h2⟩
/-- the updates of the 3×3 write, evaluated: all four inner chunks, re-encoded -/
example : (shardPEElems 1 exFill [4, 4] [2, 2] [2, 2] (List.replicate 4 (sentinel, sentinel))
      ((ChainS.leaf exLeaf []).decode [2, 2] exFill) ((ChainS.leaf exLeaf []).encode [2, 2] exFill) (storeHandle none)
      [w33]).map (fun us => us.map (fun u => (u.1, u.2.map (fun b => b.take 4)))) =
    some [(0, some [1, 2, 4, 5]), (1, some [3, 0, 6, 0]), (2, some [7, 8, 0, 0]), (3, some [9, 0, 0, 0])] := by
  decide +kernel

/-- **the index and append half, run on the storage handle, IS `ShardPE.partialEncode`** (Model/ShardPE.lean, about which
`C05.shard_partial_encode` / `C05.shard_history` speak) -/
theorem shardPlan_on_storage (c : Shard.Cfg) (v : Option Bytes) (idx : List (Nat × Nat))
    (us : List (Nat × Option Bytes)) (hcur : ShardPE.currentIndex c v = some idx)
    (hle : ∀ b, v = some b → ShardPE.liveEnd idx ≤ b.length) :
    runPlan [] v (shardPlan c idx us) = ShardPE.partialEncode c v us :=
  runPlan_nil c v idx us hcur hle

example : ShardPE.currentIndex ⟨2, true, false, true⟩ (some C05.exEnd) = some [(0, 4), (4, 6)] ∧
    ∀ b, some C05.exEnd = some b → ShardPE.liveEnd [(0, 4), (4, 6)] ≤ b.length := by
  refine ⟨by decide +kernel, ?_⟩
  intro b hb
  cases hb
  decide
example : runPlan [] (some C05.exEnd) (shardPlan ⟨2, true, false, true⟩ [(0, 4), (4, 6)] [(1, none)]) =
    ShardPE.partialEncode ⟨2, true, false, true⟩ (some C05.exEnd) [(1, none)] := by decide +kernel

/-- … and run through lawful bytes-to-bytes codecs (their default partial encoders: decode, `resize`, copy, encode,
erase, rewrite) it is the encoding of what `ShardPE.partialEncode` makes of a well-formed tight shard of the same
inner chunks: the old shard, or — index at the start, where `resize` cuts the value behind the new data — the old shard
cut behind its live data -/
theorem shardPlan_through_codecs (c : Shard.Cfg) (b2b : List BStage)
    (hb : ∀ st ∈ b2b, bStageOk st ∧ st.isCache = false) (v0 : Option Bytes)
    (chunks : List (Option Bytes)) (hst : ShardPE.St c v0 chunks) (hsm : (v0.getD []).length < sentinel)
    (idx : List (Nat × Nat)) (us : List (Nat × Option Bytes)) (hcur : ShardPE.currentIndex c v0 = some idx) :
    ∃ v0pre, ShardPE.St c v0pre chunks ∧ (v0pre.getD []).length ≤ (v0.getD []).length ∧
      runPlan b2b (v0.map (encB b2b)) (shardPlan c idx us) =
        (ShardPE.partialEncode c v0pre us).map (fun r => r.map (encB b2b)) :=
  runPlan_lawful c b2b (fun st hst => ⟨(bStageOk_BOk2 st (hb st hst).1).1, (bStageOk_BOk2 st (hb st hst).1).2,
    (hb st hst).2⟩) v0 chunks hst hsm idx us hcur

example : (∀ st ∈ [BStage.stripSuffix 4 crc32c], bStageOk st ∧ st.isCache = false) ∧
    ShardPE.St ⟨2, false, true, false⟩ (some C05.exStart) [some [1, 2, 3, 4], some [5, 6, 7, 8, 9, 10]] ∧
    ShardPE.currentIndex ⟨2, false, true, false⟩ (some C05.exStart) = some [(32, 4), (36, 6)] := by
  refine ⟨?_, ⟨by decide +kernel, by decide +kernel, by decide +kernel⟩, by decide +kernel⟩
  intro st hst
  simp only [List.mem_singleton] at hst
  subst hst
  exact ⟨rfl, rfl⟩
/-- both sides evaluated -/
example : runPlan [.stripSuffix 4 crc32c] (some (checksumEnc crc32c C05.exStart))
      (shardPlan ⟨2, false, true, false⟩ [(32, 4), (36, 6)] [(1, none)]) =
    (ShardPE.partialEncode ⟨2, false, true, false⟩ (some C05.exStart) [(1, none)]).map (fun r =>
      r.map (encB [.stripSuffix 4 crc32c])) := by decide +kernel
/-- the cut, evaluated: three inner chunks, index at the start; the last inner chunk is dropped (the value keeps its 57
bytes, its live data now end at 54), then the second is rewritten shorter: on the storage handle the value still has 57
bytes, through a crc32c `resize` cuts the shard to 55 bytes (+ 4 of checksum) — and it decodes to the same inner chunks -/
example : let c3 : Shard.Cfg := ⟨3, false, true, false⟩
    let v3 := Shard.encode c3 [some [1, 2, 3, 4], some [5, 6], some [7, 8, 9]]
    let s1 := (runPlan [] (some v3) (shardPlan c3 [(48, 4), (52, 2), (54, 3)] [(2, none)])).join
    let idx1 := [(48, 4), (52, 2), (sentinel, sentinel)]
    s1.map List.length = some 57 ∧ ShardPE.currentIndex c3 s1 = some idx1 ∧
    (runPlan [] s1 (shardPlan c3 idx1 [(1, some [9])])).map (fun r => r.map List.length) = some (some 57) ∧
    (runPlan [.stripSuffix 4 crc32c] (s1.map (checksumEnc crc32c)) (shardPlan c3 idx1 [(1, some [9])])).map
      (fun r => r.map List.length) = some (some 59) ∧
    (runPlan [.stripSuffix 4 crc32c] (s1.map (checksumEnc crc32c)) (shardPlan c3 idx1 [(1, some [9])])).map
      (fun r => r.map (fun b => (decodeB2B [.stripSuffix 4 crc32c] b).map (Shard.decode c3 true))) =
      some (some (some (.ok [some [1, 2, 3, 4], some [9], none]))) := by decide +kernel

/-! ### every sharding level is well formed -/

/-- every sharding level of a stored value: below the bytes-to-bytes codecs lies a value that `Shard.decode` accepts,
that passes `Shard.wellFormed` (index at its declared location, live entries inside the value, outside the index,
pairwise disjoint) and is tight, that is a legal shard (`Shard.Legal`) of its stored chunks whenever these are
non-empty and it is shorter than 2^64 - 1 bytes; and every stored chunk is again such a value -/
def LevelsOk : ChainS → Shape → Bytes → Prop
  | .leaf _ _, _, _ => True
  | .shard a2a cfg ish _ inner b2b, sh, v =>
    ∃ v0 chunks, v = encB b2b v0 ∧
      Shard.decode { cfg with nChunks := prod (zipDiv (shapesOf a2a sh) ish) } true v0 = .ok chunks ∧
      Shard.wellFormed { cfg with nChunks := prod (zipDiv (shapesOf a2a sh) ish) } v0 = true ∧
      ShardPE.tight { cfg with nChunks := prod (zipDiv (shapesOf a2a sh) ish) } v0 = true ∧
      ((∀ ch, some ch ∈ chunks → 0 < ch.length) → v0.length < sentinel →
        Shard.Legal { cfg with nChunks := prod (zipDiv (shapesOf a2a sh) ish) } v0 chunks) ∧
      ∀ ch, some ch ∈ chunks → LevelsOk inner ish ch

/-- **every sharding level of a well-formed stored value is well formed** — in particular of the value a
`partial_encode` call leaves (`chainS_partial_encode_wellformed`) -/
theorem stores_levelsOk : ∀ (c : ChainS) (sh : Shape) (fill : Elem) (v : Bytes) (xs : List Elem),
    c.Stores sh fill v xs → LevelsOk c sh v := by
  intro c
  induction c with
  | leaf c keep => intro _ _ _ _ _; trivial
  | shard a2a cfg ish es inner b2b ih =>
    intro sh fill v xs hst
    obtain ⟨v0, chunks, hv, hSt, hcl, hch⟩ := hst
    obtain ⟨hdec, hwf, htt⟩ : Shard.decode _ true v0 = .ok chunks ∧ Shard.wellFormed _ v0 = true ∧
      ShardPE.tight _ v0 = true := hSt
    refine ⟨v0, chunks, hv, hdec, hwf, htt, fun hpos hsm => legal_of_wf _ v0 chunks hdec hwf hsm hpos, ?_⟩
    intro ch hmem
    obtain ⟨i, hi, hie⟩ := List.mem_iff_getElem.mp hmem
    have := hch i hi (by rw [← hcl]; exact hi)
    rw [hie] at this
    exact ih ish fill ch _ this.2

theorem chainS_partial_encode_wellformed (c : ChainS) (sh : Shape) (fill : Elem) (hc : peChainOk c sh fill)
    (v : Option Bytes) (old : List Elem) (hold : chunkOk c.es sh old) (hH : c.Holds sh fill v old)
    (hlen : c.shardLen v + c.stepCost sh < sentinel)
    (ws : List RWrite) (hws : ∀ w ∈ ws, writeOk c.es sh w) :
    ∃ v', c.partialEncode sh fill v ws = some v' ∧ ∀ b, v' = some b → LevelsOk c sh b := by
  obtain ⟨v', h1, _, h3, _⟩ := chainS_partial_encode_refines c sh fill hc v old hold hH hlen ws hws
  refine ⟨v', h1, ?_⟩
  intro b hb
  subst hb
  exact stores_levelsOk c sh fill b _ h3


/-- the hypotheses are those of `chainS_partial_encode_refines` (examples there); the executable part of the conclusion
evaluated on the nested-codec chain: the shard below the crc32c is well formed after each of three calls -/
example : ((exT.runPE [4, 4] exFill none [[w33], [wFill], [wMid]]).bind (fun r => r.bind (decodeB2B [.stripSuffix 4 crc32c]))).map
    (Shard.wellFormed ⟨4, false, true, false⟩) = some true := by decide +kernel

/-! ### histories -/

/-- one subset write WITHOUT partial encoding (`store_chunk_subset_opt`: read the whole chunk, update it, store it
whole — erase it when all fill); `none` = the stored value cannot be read -/
def rewriteStep (c : ChainS) (sh : Shape) (fill : Elem) (v : Option Bytes) (ws : List RWrite) : Option (Option Bytes) :=
  (readValue c sh fill v).map (fun cur => rewriteValue c sh fill (applyRegionWrites sh cur ws))

def runRewrites (c : ChainS) (sh : Shape) (fill : Elem) : Option Bytes → List (List RWrite) → Option (Option Bytes)
  | v, [] => some v
  | v, ws :: rest => (rewriteStep c sh fill v ws).bind (fun v' => runRewrites c sh fill v' rest)

private theorem runRewrites_spec (c : ChainS) (sh : Shape) (fill : Elem) (hok : chainSOk c sh fill)
    (hsmall : c.small sh) :
    ∀ (hist : List (List RWrite)) (xs : List Elem), chunkOk c.es sh xs →
      (∀ ws ∈ hist, ∀ w ∈ ws, writeOk c.es sh w) →
      runRewrites c sh fill (rewriteValue c sh fill xs) hist =
        some (rewriteValue c sh fill (applyHistory sh xs hist)) := by
  intro hist
  induction hist with
  | nil => intro xs _ _; rfl
  | cons ws rest ih =>
    intro xs hx hws
    have hread : readValue c sh fill (rewriteValue c sh fill xs) = some xs := by
      unfold rewriteValue
      split
      · rename_i hall
        simp only [readValue]
        rw [all_fill_replicate fill _ _ hx.1 hall]
      · simp only [readValue]
        exact C03Chain.chainS_dec_enc c sh fill xs hok hx
          (fits_of_small c sh fill xs (ChainS.okWith_mono (fun l s hl => aStagesOk_aOk l s hl) (fun _ h => h) c sh fill hok)
            hx.1 hx.2 hsmall)
    have hnew : chunkOk c.es sh (applyRegionWrites sh xs ws) :=
      ⟨applyRegionWrites_length sh c.es ws xs hx.1 (hws ws (by simp)),
       applyRegionWrites_elems sh c.es ws xs hx.1 hx.2 (hws ws (by simp))⟩
    simp only [runRewrites, rewriteStep, hread, Option.map_some, Option.bind_some]
    exact ih _ hnew (fun ws' h' => hws ws' (by simp [h']))

/-- **every history of partial-encode calls from an absent key** leaves a value that is present exactly when, and
reads exactly as, the value the same history of full rewrites leaves (which is the encoding of the fold of the writes
over the all-fill chunk, or nothing when that is all fill) -/
theorem chainS_partial_history (c : ChainS) (sh : Shape) (fill : Elem) (hc : peChainOk c sh fill) (hsmall : c.small sh)
    (hist : List (List RWrite)) (hws : ∀ ws ∈ hist, ∀ w ∈ ws, writeOk c.es sh w)
    (hlen : hist.length * c.stepCost sh < sentinel) :
    ∃ v' r', c.runPE sh fill none hist = some v' ∧ runRewrites c sh fill none hist = some r' ∧
      r' = (if hist = [] then none else rewriteValue c sh fill (applyHistory sh (List.replicate (prod sh) fill) hist)) ∧
      (v' = none ↔ r' = none) ∧
      readValue c sh fill v' = some (applyHistory sh (List.replicate (prod sh) fill) hist) ∧
      readValue c sh fill r' = some (applyHistory sh (List.replicate (prod sh) fill) hist) ∧
      c.Holds sh fill v' (applyHistory sh (List.replicate (prod sh) fill) hist) := by
  obtain ⟨hok, hfl, hnc, hsm⟩ := hc
  have hok2 := okWith_BOk2 c sh fill hok
  have hx0 : chunkOk c.es sh (List.replicate (prod sh) fill) :=
    ⟨List.length_replicate .., fun x hx => by rw [List.eq_of_mem_replicate hx]; exact hfl⟩
  obtain ⟨v', h1, h2, h3⟩ := chainS_pe_history c sh fill hok2 hfl hnc hsm hist none _ hx0.1 hx0.2
    (holds_absent c sh fill) (by
      have : c.shardLen none = 0 := by cases c <;> rfl
      omega) hws
  -- the final chunk is a chunk
  have hfin : ∀ (h : List (List RWrite)) (xs : List Elem), chunkOk c.es sh xs →
      (∀ ws ∈ h, ∀ w ∈ ws, writeOk c.es sh w) → chunkOk c.es sh (applyHistory sh xs h) := by
    intro h
    induction h with
    | nil => intro xs hx _; exact hx
    | cons ws rest ih =>
      intro xs hx hw
      exact ih _ ⟨applyRegionWrites_length sh c.es ws xs hx.1 (hw ws (by simp)),
        applyRegionWrites_elems sh c.es ws xs hx.1 hx.2 (hw ws (by simp))⟩ (fun ws' h' => hw ws' (by simp [h']))
  have hfinal := hfin hist _ hx0 hws
  have hreadv : readValue c sh fill v' = some (applyHistory sh (List.replicate (prod sh) fill) hist) := by
    cases v' with
    | none =>
      have : applyHistory sh (List.replicate (prod sh) fill) hist = List.replicate (prod sh) fill := h2
      rw [this]; rfl
    | some b => exact stores_decode c sh fill b _ (okWith_BDec c sh fill hok2) hfinal.1 hfinal.2 h2
  have hrv : ∀ xs, chunkOk c.es sh xs → readValue c sh fill (rewriteValue c sh fill xs) = some xs := by
    intro xs hx
    unfold rewriteValue
    split
    · rename_i hall
      simp only [readValue]
      rw [all_fill_replicate fill _ _ hx.1 hall]
    · simp only [readValue]
      exact C03Chain.chainS_dec_enc c sh fill xs hok hx
        (fits_of_small c sh fill xs (ChainS.okWith_mono (fun l s hl => aStagesOk_aOk l s hl) (fun _ h => h) c sh fill hok)
          hx.1 hx.2 hsmall)
  cases hist with
  | nil =>
    simp only [ChainS.runPE, Option.some.injEq] at h1
    subst h1
    exact ⟨none, none, rfl, rfl, by simp, by simp, hreadv, hreadv, h2⟩
  | cons ws rest =>
    have hr0 : rewriteValue c sh fill (List.replicate (prod sh) fill) = none := by
      unfold rewriteValue
      rw [if_pos (replicate_all_fill fill _)]
    have hrun := runRewrites_spec c sh fill hok hsmall (ws :: rest) _ hx0 hws
    rw [hr0] at hrun
    refine ⟨v', _, h1, hrun, by simp, ?_, hreadv, hrv _ hfinal, h2⟩
    rw [h3 (by simp)]
    unfold rewriteValue
    by_cases hall : (applyHistory sh (List.replicate (prod sh) fill) (ws :: rest)).all (· == fill) = true
    · rw [if_pos hall]; exact ⟨fun _ => rfl, fun _ => hall⟩
    · rw [if_neg hall]; exact ⟨fun h => absurd h hall, fun h => by cases h⟩



/-- the hypotheses are satisfiable: three calls (the second straddles all four inner chunks, the third makes one
inner chunk all fill), and a history ending in an erased key -/
example : peChainOk exC [4, 4] exFill ∧ exC.small [4, 4] ∧
    (∀ ws ∈ [[w33], [wMid], [wFill]], ∀ w ∈ ws, writeOk exC.es [4, 4] w) ∧
    [[w33], [wMid], [wFill]].length * exC.stepCost [4, 4] < sentinel := by
  refine ⟨exC_ok, ⟨trivial, 8, by decide, by decide⟩, ?_, by decide⟩
  intro ws hws w hw
  apply ex_writes_ok
  simp only [List.mem_cons, List.not_mem_nil, or_false] at hws
  rcases hws with rfl | rfl | rfl <;> simp at hw <;> simp [hw]
/-- the conclusion evaluated: partial encodes and full rewrites read the same, here and after a final all-fill write -/
example : (exC.runPE [4, 4] exFill none [[w33], [wMid], [wFill]]).map (readValue exC [4, 4] exFill) =
    (runRewrites exC [4, 4] exFill none [[w33], [wMid], [wFill]]).map (readValue exC [4, 4] exFill) := by
  decide +kernel
example : exC.runPE [4, 4] exFill none [[w33], [wMid], [(⟨[0, 0], [4, 4]⟩, List.replicate 16 exFill)]] = some none ∧
    runRewrites exC [4, 4] exFill none [[w33], [wMid], [(⟨[0, 0], [4, 4]⟩, List.replicate 16 exFill)]] = some none := by
  decide +kernel

/-- **the invariant cannot be weakened to "the old value decodes to `old`"**: the encoder's value with 20 stray bytes
between the data and the index (at the end) still decodes to the same chunk and passes `Shard.wellFormed`, but it is not
tight, and a one-element partial write turns it into a value that no longer decodes (the rewritten suffix ends before
the old end, so the last bytes are not the index) — while from the tight value the same write is fine -/
theorem refines_needs_tight :
    ∃ (v vbad : Bytes) (old : List Elem) (w : RWrite),
      exC.partialEncode [4, 4] exFill none [w33] = some (some v) ∧
      vbad = v.take 32 ++ List.replicate 20 9 ++ v.drop 32 ∧
      exC.decode [4, 4] exFill v = some old ∧ exC.decode [4, 4] exFill vbad = some old ∧
      Shard.wellFormed ⟨4, true, false, true⟩ vbad = true ∧ ShardPE.tight ⟨4, true, false, true⟩ vbad = false ∧
      (exC.partialEncode [4, 4] exFill (some vbad) [w]).map (fun r => r.map (exC.decode [4, 4] exFill)) =
        some (some none) ∧
      (exC.partialEncode [4, 4] exFill (some v) [w]).map (fun r => r.map (exC.decode [4, 4] exFill)) =
        some (some (some (applyRegionWrites [4, 4] old [w]))) := by
  refine ⟨((exC.partialEncode [4, 4] exFill none [w33]).join).getD [], _, exOld, (⟨[0, 0], [1, 1]⟩, [[55]]), ?_, rfl, ?_, ?_,
    ?_, ?_, ?_, ?_⟩ <;> decide +kernel

/-! ### the straddle test -/

/-- **the straddling inner chunks must be read** (non-vacuity of the read path): the 4×4 shard of 2×2 inner chunks;
a 3×3 write that straddles all four inner chunks, then a 2×2 write in the middle that again straddles all four: every
element outside the second region survives, through `ChainS.partialEncode` and the full decoder; then the write that makes
inner chunk (0,0) all fill: its index entry becomes the sentinel (the first 16 bytes of the index at the end), the other
three stay; the final value is a well-formed shard at every level -/
theorem straddle_reads_needed :
    (exC.runPE [4, 4] exFill none [[w33], [wMid]]).map (fun r => r.map (exC.decode [4, 4] exFill)) =
      some (some (some [[1], [2], [3], [0], [4], [77], [77], [0], [7], [77], [77], [0], [0], [0], [0], [0]])) ∧
    (exC.runPE [4, 4] exFill none [[w33], [wMid], [wFill]]).map (fun r => r.map (exC.decode [4, 4] exFill)) =
      some (some (some [[0], [0], [3], [0], [0], [0], [77], [0], [7], [77], [77], [0], [0], [0], [0], [0]])) ∧
    (exC.runPE [4, 4] exFill none [[w33], [wMid], [wFill]]).map (fun r => r.map (fun b =>
        (ShardPE.currentIndex ⟨4, true, false, true⟩ (some b)).map (fun idx => idx.map Shard.isLive))) =
      some (some (some [false, true, true, true])) ∧
    (exC.runPE [4, 4] exFill none [[w33], [wMid], [wFill]]).map (fun r => r.map
        (Shard.wellFormed ⟨4, true, false, true⟩)) = some (some true) := by
  refine ⟨by decide +kernel, by decide +kernel, by decide +kernel, by decide +kernel⟩

/-- **`&&` in place of `||` in the straddle test loses data** (the seeded defect): with `straddlesAnd` the inner chunks
that start before the region OR end after it, but not both, are not read; the same two writes lose the elements 1, 2
and 4 of inner chunk (0,0) (and more), while `||` keeps them -/
theorem straddle_and_loses_data :
    ((exC.partialEncode [4, 4] exFill none [w33]).bind (fun v1 =>
        exC.partialEncodeWith straddlesAnd [4, 4] exFill v1 [wMid])).map (fun r => r.map (exC.decode [4, 4] exFill)) =
      some (some (some [[0], [0], [3], [0], [0], [77], [77], [0], [7], [77], [77], [0], [0], [0], [0], [0]])) ∧
    ((exC.partialEncode [4, 4] exFill none [w33]).bind (fun v1 =>
        exC.partialEncodeWith straddles [4, 4] exFill v1 [wMid])).map (fun r => r.map (exC.decode [4, 4] exFill)) =
      some (some (some (applyHistory [4, 4] (List.replicate 16 exFill) [[w33], [wMid]]))) ∧
    applyHistory [4, 4] (List.replicate 16 exFill) [[w33], [wMid]] =
      [[1], [2], [3], [0], [4], [77], [77], [0], [7], [77], [77], [0], [0], [0], [0], [0]] := by
  refine ⟨by decide +kernel, by decide +kernel, by decide⟩

/-- the straddle test itself on the four inner chunks of the 3×3 region: (0,0) lies inside, the others straddle; for
the middle 2×2 region all four straddle; `&&` recognises only (0,1) and (1,0): (0,0) starts before the region but does
not end after it, (1,1) ends after it but does not start before it -/
example : ((Subset.mk [0, 0] [3, 3]).chunks [2, 2]).map (fun p => (straddles p.2 ⟨[0, 0], [3, 3]⟩,
      straddlesAnd p.2 ⟨[0, 0], [3, 3]⟩)) = [(false, false), (true, false), (true, false), (true, false)] ∧
    ((Subset.mk [1, 1] [2, 2]).chunks [2, 2]).map (fun p => (straddles p.2 ⟨[1, 1], [2, 2]⟩,
      straddlesAnd p.2 ⟨[1, 1], [2, 2]⟩)) = [(true, false), (true, true), (true, true), (true, false)] := by decide

/-! ### C04 at shard level: the index and the fill value -/

/-- **index entry `i` is the sentinel exactly when inner chunk `i` of the decoded shard is all fill**, for every
well-formed stored value of a chain whose array-to-bytes codec is `sharding_indexed` (the inner chunks are those of the
chunk in the coordinates the sharding codec sees, i.e. after the array-to-array codecs; `decode` returns the chunk) -/
theorem chainS_index_fill (a2a : List AStage) (cfg : Shard.Cfg) (ish : Shape) (es : Nat) (inner : ChainS)
    (b2b : List BStage) (sh : Shape) (fill : Elem) (hok : chainSOk (.shard a2a cfg ish es inner b2b) sh fill)
    (v : Bytes) (xs : List Elem) (hx : chunkOk es sh xs)
    (hst : (ChainS.shard a2a cfg ish es inner b2b).Stores sh fill v xs) :
    (ChainS.shard a2a cfg ish es inner b2b).decode sh fill v = some xs ∧
    ∃ v0 entries, v = encB b2b v0 ∧
      ShardPE.currentIndex { cfg with nChunks := prod (zipDiv (shapesOf a2a sh) ish) } (some v0) = some entries ∧
      entries.length = (splitShard (shapesOf a2a sh) ish (aEnc a2a sh xs)).length ∧
      ∀ i (h1 : i < entries.length) (h2 : i < (splitShard (shapesOf a2a sh) ish (aEnc a2a sh xs)).length),
        (Shard.isLive entries[i] = false ↔
          (splitShard (shapesOf a2a sh) ish (aEnc a2a sh xs))[i].all (· == fill) = true) := by
  have hok2 := okWith_BOk2 _ sh fill hok
  refine ⟨stores_decode _ sh fill v xs (okWith_BDec _ sh fill hok2) hx.1 hx.2 hst, ?_⟩
  obtain ⟨ha, ht, _, _, _, _⟩ := hok2
  obtain ⟨hyl, _⟩ := aEnc_chunk es a2a sh xs ha hx.1 hx.2
  obtain ⟨v0, chunks, hv, hSt, hcl, hch⟩ := hst
  obtain ⟨hdec, hwf, _⟩ : Shard.decode _ true v0 = .ok chunks ∧ Shard.wellFormed _ v0 = true ∧
    ShardPE.tight _ v0 = true := hSt
  obtain ⟨ib, idx, hib, hdi, _⟩ := (ShardPE.wellFormed_iff _ v0).mp hwf
  have hcur : ShardPE.currentIndex { cfg with nChunks := prod (zipDiv (shapesOf a2a sh) ish) } (some v0) = some idx := by
    unfold ShardPE.currentIndex
    simp only [hib, hdi]
    rfl
  rw [Shard.decode_def, hib] at hdec
  simp only [hdi] at hdec
  obtain ⟨hlc, hpt⟩ := (ShardPE.mapM_ok_iff _ _ _).mp hdec
  refine ⟨v0, idx, hv, hcur, by rw [hlc, hcl], ?_⟩
  intro i h1 h2
  have hic : i < chunks.length := by rw [← hlc]; exact h1
  obtain ⟨ch, hch', hde⟩ := hpt i idx[i] (List.getElem?_eq_getElem h1)
  rw [List.getElem?_eq_getElem hic] at hch'
  have hce : ch = chunks[i] := (Option.some.inj hch').symm
  have hclause := hch i hic h2
  obtain ⟨hpl, _⟩ := splitShard_piece ht _ hyl _ (List.getElem_mem h2)
  rw [all_fill_iff_replicate fill _ _ hpl]
  constructor
  · intro hl
    rw [ShardPE.decEntry_dead v0 _ hl] at hde
    have : chunks[i] = none := by rw [← hce]; exact (Except.ok.inj hde).symm
    rw [this] at hclause
    exact hclause
  · intro hfillp
    cases hl : Shard.isLive idx[i] with
    | false => rfl
    | true =>
      exfalso
      rw [ShardPE.decEntry_live v0 _ hl] at hde
      split at hde
      · cases hde
      · have : chunks[i] = some (slice v0 idx[i].1 (idx[i].1 + idx[i].2)) := by
          rw [← hce]; exact (Except.ok.inj hde).symm
        rw [this] at hclause
        exact hclause.1 hfillp

/-- … for what `ChainS.encode` writes -/
theorem chainS_index_fill_encode (a2a : List AStage) (cfg : Shard.Cfg) (ish : Shape) (es : Nat) (inner : ChainS)
    (b2b : List BStage) (sh : Shape) (fill : Elem) (hok : chainSOk (.shard a2a cfg ish es inner b2b) sh fill)
    (xs : List Elem) (hx : chunkOk es sh xs) (hfits : (ChainS.shard a2a cfg ish es inner b2b).fits sh fill xs) :
    ∃ v0 entries, (ChainS.shard a2a cfg ish es inner b2b).encode sh fill xs = encB b2b v0 ∧
      ShardPE.currentIndex { cfg with nChunks := prod (zipDiv (shapesOf a2a sh) ish) } (some v0) = some entries ∧
      entries.length = (splitShard (shapesOf a2a sh) ish (aEnc a2a sh xs)).length ∧
      ∀ i (h1 : i < entries.length) (h2 : i < (splitShard (shapesOf a2a sh) ish (aEnc a2a sh xs)).length),
        (Shard.isLive entries[i] = false ↔
          (splitShard (shapesOf a2a sh) ish (aEnc a2a sh xs))[i].all (· == fill) = true) :=
  (chainS_index_fill a2a cfg ish es inner b2b sh fill hok _ xs hx (holds_encode _ sh fill hok xs hx hfits)).2

/-- … and for what `ChainS.partialEncode` writes: the index of the new value against the inner chunks of the updated
chunk -/
theorem chainS_index_fill_partial (a2a : List AStage) (cfg : Shard.Cfg) (ish : Shape) (es : Nat) (inner : ChainS)
    (b2b : List BStage) (sh : Shape) (fill : Elem) (hc : peChainOk (.shard a2a cfg ish es inner b2b) sh fill)
    (v : Option Bytes) (old : List Elem) (hold : chunkOk es sh old)
    (hH : (ChainS.shard a2a cfg ish es inner b2b).Holds sh fill v old)
    (hlen : (ChainS.shard a2a cfg ish es inner b2b).shardLen v +
      (ChainS.shard a2a cfg ish es inner b2b).stepCost sh < sentinel)
    (ws : List RWrite) (hws : ∀ w ∈ ws, writeOk es sh w) (b : Bytes)
    (hb : (ChainS.shard a2a cfg ish es inner b2b).partialEncode sh fill v ws = some (some b)) :
    ∃ v0 entries, b = encB b2b v0 ∧
      ShardPE.currentIndex { cfg with nChunks := prod (zipDiv (shapesOf a2a sh) ish) } (some v0) = some entries ∧
      entries.length = (splitShard (shapesOf a2a sh) ish (aEnc a2a sh (applyRegionWrites sh old ws))).length ∧
      ∀ i (h1 : i < entries.length)
        (h2 : i < (splitShard (shapesOf a2a sh) ish (aEnc a2a sh (applyRegionWrites sh old ws))).length),
        (Shard.isLive entries[i] = false ↔
          (splitShard (shapesOf a2a sh) ish (aEnc a2a sh (applyRegionWrites sh old ws)))[i].all (· == fill) = true) := by
  obtain ⟨v', h1, _, h3, _⟩ := chainS_partial_encode_refines _ sh fill hc v old hold hH hlen ws hws
  rw [hb] at h1
  cases h1
  exact (chainS_index_fill a2a cfg ish es inner b2b sh fill hc.1 b _
    ⟨applyRegionWrites_length sh es ws old hold.1 hws, applyRegionWrites_elems sh es ws old hold.1 hold.2 hws⟩ h3).2

/-- the hypotheses are satisfiable (chain, chunk and `fits` as in the examples above); the conclusion evaluated: the
entries of the index the encoder writes for the chunk after the 3×3 write and the all-fill write of inner chunk (0,0),
against the inner chunks -/
example : let xs := applyRegionWrites [4, 4] exOld [wFill]
    (ShardPE.currentIndex ⟨4, true, false, true⟩ (some (exC.encode [4, 4] exFill xs))).map (fun idx => idx.map Shard.isLive) =
      some [false, true, true, true] ∧
    (splitShard [4, 4] [2, 2] xs).map (fun p => p.all (· == exFill)) = [true, false, false, false] := by
  decide +kernel

end Zarrs.C05Chain
