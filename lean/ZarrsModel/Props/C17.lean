import ZarrsModel.Model.WriteMap
import ZarrsModel.Lemmas.WriteMap
/-
C17 — returned buffers are fully initialised and each byte is written once.
Property theorems only; helper lemmas live in ZarrsModel/Lemmas/WriteMap.lean.

Each theorem with hypotheses is followed by an `example` instantiating all of its hypotheses on a concrete
value (a 5×7 array on the grid `Grid.new [.fixed 2, .varying [3,4]]` — a fixed dimension with an overhanging
edge chunk and a varying dimension —, region `⟨[1,2],[4,4]⟩` straddling 3×2 chunks, element size 2), to
document that the statement is not vacuous.
-/
namespace Zarrs.C17
open Zarrs

/-- the executable verdict used on the recorded maps is exactly "the multiset of written bytes is `[0, len)`" -/
theorem tiles_iff (len : Nat) (rs : List (Nat × Nat)) :
    tiles len rs = true ↔ (rs.flatMap (fun r => List.range' r.1 r.2)).Perm (List.range len) := by
  exact tiles_iff_perm len rs

/-- both verdicts occur: a map with a zero-length write and out-of-order ranges tiles; a duplicated range, a gap
and an overrun do not -/
example : tiles 6 [(4, 2), (2, 0), (0, 4)] = true ∧ tiles 6 [(0, 4), (0, 4), (4, 2)] = false ∧
    tiles 6 [(0, 3), (4, 2)] = false ∧ tiles 6 [(0, 4), (4, 3)] = false := by decide

/-- one view writes exactly the bytes of its region, each once (C09.byteRanges_exact restated as a multiset fact) -/
theorem view_writes_region (v : Subset) (sh : Shape) (es : Nat) (hv : v.wf = true) (hb : v.inboundsShape sh = true) :
    ((v.byteRanges sh es).flatMap (fun r => List.range' r.1 r.2)) =
    (v.linearised sh).flatMap (fun k => List.range' (k * es) es) := by
  exact C09.byteRanges_exact v sh es hv hb

/-- non-vacuity of the hypotheses of `view_writes_region` -/
example : (Subset.mk [1, 2] [4, 4]).wf = true ∧ (Subset.mk [1, 2] [4, 4]).inboundsShape [5, 7] = true := by decide

/-- **the per-chunk writes of a multi-chunk read tile the output**: for every grid built from a configuration,
compatible array shape, in-bounds non-empty region and element size, the byte ranges written through the per-chunk
views cover `[0, region.numElements * es)` with every byte written exactly once -/
theorem writes_tile {α} (cfg : ArrCfg α) (gcfg : List DimCfg) (G : Shape) (hg : cfg.grid = Grid.new gcfg)
    (hwf : cfg.grid.wf = true) (hG : cfg.grid.gridShape cfg.shape = some G) (hlen : cfg.shape.length = gcfg.length)
    (region : Subset) (hr : region.wf = true) (hb : region.inboundsShape cfg.shape = true)
    (hne : region.isEmpty = false) (es : Nat) :
    ∃ m, cfg.writeMap region es = some m ∧ tiles (region.numElements * es) m = true := by
  rw [hg] at hwf hG
  obtain ⟨box, hbox, hsome, hperm⟩ := writeMap_perm gcfg cfg.shape G hwf hG hlen region hr hb hne es
  rw [← hg] at hbox hsome
  refine ⟨_, writeMap_eq_pieces cfg region es box hbox hsome, (tiles_iff _ _).mpr ?_⟩
  rw [hg]
  exact hperm

/-- non-vacuity of the hypotheses of `writes_tile`: a 5×7 array, a fixed dimension with an overhanging edge chunk
and a varying dimension, a region meeting 3×2 chunks, 2-byte elements; the conclusion is also checked by
evaluation on this instance -/
example : ∃ (cfg : ArrCfg Nat) (gcfg : List DimCfg) (G : Shape) (region : Subset) (es : Nat),
    cfg.grid = Grid.new gcfg ∧ cfg.grid.wf = true ∧ cfg.grid.gridShape cfg.shape = some G ∧
    cfg.shape.length = gcfg.length ∧ region.wf = true ∧ region.inboundsShape cfg.shape = true ∧
    region.isEmpty = false ∧
    cfg.writeMap region es =
      some [(0, 2), (2, 6), (8, 2), (16, 2), (10, 6), (18, 6), (24, 2), (26, 6)] ∧
    tiles (region.numElements * es) [(0, 2), (2, 6), (8, 2), (16, 2), (10, 6), (18, 6), (24, 2), (26, 6)] = true :=
  ⟨⟨[5, 7], Grid.new [.fixed 2, .varying [3, 4]], 0, fun _ => [], fun _ => [], fun _ => none, false⟩,
    [.fixed 2, .varying [3, 4]], [3, 2], ⟨[1, 2], [4, 4]⟩, 2, by decide⟩

end Zarrs.C17
