import ZarrsModel.Model.MetaOpts
import ZarrsModel.Lemmas.MetaOptsAlias
import ZarrsModel.Lemmas.MetaOptsChain
import ZarrsModel.Lemmas.MetaOptsDoc
import ZarrsModel.Lemmas.MetaOptsMain
import ZarrsModel.Props.C13
import ZarrsModel.Props.C13V2
/-
C13 (metadata options) — what `Array::metadata_opt` / `Array::store_metadata_opt` and `Group::metadata_opt` /
`Group::store_metadata_opt` write under every setting of `ArrayMetadataOptions` / `GroupMetadataOptions`
(`Model/MetaOpts.lean`): the `_zarrs` attribute, the version conversion, alias -> default-name rewriting of codec and
data type names; and that what is written is accepted again and denotes the same array.

Handles are the accepted ones: `openV3 plug r d = some (.v3 d ch)` (`Array::new_with_metadata` succeeded on the V3
document `d` with chunk grid rank `r`, giving the codec chain `ch`), `openV2 plug d = some (.v2 d)`.  The codec plugins
are an oracle `plug` (which configurations a codec accepts and which configuration it writes back is not part of this
model); `PlugOk plug` collects what is assumed of it.  Theorems only; lemmas are in `Lemmas/MetaOpts*.lean`.
-/
set_option Elab.async false
namespace Zarrs.C13Opts
open Zarrs Zarrs.Json Zarrs.Meta Zarrs.MetaV2 Zarrs.MetaOpts

/-! ### concrete values documenting that the hypotheses below are satisfiable -/

/-- plugins by the transcribed tables: every registered identifier creates a codec of its kind from any configuration
    and writes that configuration back; `bitround` is encode-only -/
def exPlug : Plug := fun i c => (codecKind i).map (fun k => ⟨k, c.getD [], encodeOnlyIdents.contains i⟩)

theorem exPlug_ok : PlugOk exPlug := by
  refine ⟨?_, ?_, ?_⟩
  · intro i c x h
    unfold exPlug at h ⊢
    cases hk : codecKind i with
    | none => rw [hk] at h; cases h
    | some k =>
      rw [hk] at h
      simp only [Option.map_some, Option.some.injEq] at h
      subst h
      rfl
  · intro i c x h hx
    unfold exPlug at h
    cases hk : codecKind i with
    | none => rw [hk] at h; cases h
    | some k =>
      rw [hk] at h
      simp only [Option.map_some, Option.some.injEq] at h
      subst h
      simp only at hx ⊢
      subst hx
      cases he : encodeOnlyIdents.contains i with
      | false => rfl
      | true =>
        have : i = ascii "bitround" := by simpa [encodeOnlyIdents] using he
        subst this
        revert hk
        decide
  · intro i c x h hc
    unfold exPlug at h
    cases hk : codecKind i with
    | none => rw [hk] at h; cases h
    | some k =>
      rw [hk] at h
      simp only [Option.map_some, Option.some.injEq] at h
      subst h
      cases c with
      | none => exact ⟨by simp [wfKVs], by simp [keysDistinct]⟩
      | some ob => exact hc ob rfl

/-- a 4x6 `float32` array whose codecs are written with older names: `bitround` under its zarrs < 0.20 URL, `bytes`
    under its provisional name `endian`, `zlib` under its `numcodecs.` name, `gdeflate` under its URL; the attributes
    already hold a `_zarrs` entry between two others; one additional field that need not be understood -/
def exDocA : ArrayDoc :=
  { C13.exDoc with
    dataType := ⟨ascii "float32", none, true⟩,
    codecs := [⟨ascii "https://codec.zarrs.dev/array_to_bytes/bitround", some [(ascii "keepbits", .num ['3'])], true⟩,
               ⟨ascii "endian", some [(ascii "endian", .str (ascii "big"))], true⟩,
               ⟨ascii "numcodecs.zlib", some [(ascii "level", .num ['1'])], true⟩,
               ⟨ascii "https://codec.zarrs.dev/bytes_to_bytes/gdeflate", some [(ascii "level", .num ['2'])], true⟩],
    attrs := [(ascii "a", .num ['1']), (ascii "_zarrs", .str (ascii "old")), (ascii "z", .num ['2'])],
    extra := [(ascii "my_ext", C13.exField)] }

theorem exDocA_ok : C13.ArrayDoc.ok exDocA := by
  obtain ⟨h1, _, h3, h4, h5, _, _, h8, h9, h10, _⟩ := C13.exDoc_ok
  have cfg : ∀ k : String, (∀ b ∈ ascii k, b < 128) → ∀ v : J, v.wf → C13.objOk [(ascii k, v)] := by
    intro k hk v hv
    refine ⟨?_, by simp [keysDistinct]⟩
    simp only [wfKVs, and_true]
    exact ⟨strOk_ascii _ hk, hv⟩
  have n1 : (J.num ['1']).wf := (num_wf_iff _).2 (tokOk_of_natTok 1 _ (by decide))
  have n2 : (J.num ['2']).wf := (num_wf_iff _).2 (tokOk_of_natTok 2 _ (by decide))
  have n3 : (J.num ['3']).wf := (num_wf_iff _).2 (tokOk_of_natTok 3 _ (by decide))
  refine ⟨h1, ⟨strOk_ascii _ (by decide), trivial⟩, h3, h4, h5, ?_, ?_, h8, h9, ?_, by unfold C13.extraSorted; decide⟩
  · intro c hc
    simp only [exDocA, List.mem_cons, List.not_mem_nil, or_false] at hc
    rcases hc with rfl | rfl | rfl | rfl
    · exact ⟨strOk_ascii _ (by decide), cfg "keepbits" (by decide) _ n3⟩
    · exact ⟨strOk_ascii _ (by decide), cfg "endian" (by decide) _ ((str_wf_iff _).2 (strOk_ascii _ (by decide)))⟩
    · exact ⟨strOk_ascii _ (by decide), cfg "level" (by decide) _ n1⟩
    · exact ⟨strOk_ascii _ (by decide), cfg "level" (by decide) _ n2⟩
  · refine ⟨?_, by unfold keysDistinct; decide⟩
    simp only [exDocA, wfKVs, and_true]
    exact ⟨strOk_ascii _ (by decide), n1, strOk_ascii _ (by decide), (str_wf_iff _).2 (strOk_ascii _ (by decide)),
      strOk_ascii _ (by decide), n2⟩
  · intro kv hkv
    simp only [exDocA, List.mem_cons, List.not_mem_nil, or_false] at hkv
    subst hkv
    exact ⟨strOk_ascii _ (by decide), C13.exField_ok, by decide⟩

/-- the chain of `exDocA` -/
def exChainA : Chain :=
  ⟨[⟨ascii "https://codec.zarrs.dev/array_to_bytes/bitround", ⟨.a2a, [(ascii "keepbits", .num ['3'])], true⟩⟩],
   ⟨ascii "endian", ⟨.a2b, [(ascii "endian", .str (ascii "big"))], false⟩⟩,
   [⟨ascii "numcodecs.zlib", ⟨.b2b, [(ascii "level", .num ['1'])], false⟩⟩,
    ⟨ascii "https://codec.zarrs.dev/bytes_to_bytes/gdeflate", ⟨.b2b, [(ascii "level", .num ['2'])], false⟩⟩]⟩

theorem exDocA_opens : openV3 exPlug 2 exDocA = some (.v3 exDocA exChainA) := by rfl

/-- `C13V2.exV2x` (4x6 big-endian `int16`, F order, a `shuffle` filter) with the compressor `gdeflate` written under its
    zarrs < 0.20 URL, and only the additional field that need not be understood -/
def exV2a : ArrayDocV2 :=
  { C13V2.exV2x with
    compressor := some ⟨ascii "https://codec.zarrs.dev/bytes_to_bytes/gdeflate", [(ascii "level", .num ['1'])]⟩,
    extra := [(ascii "my_ext", C13V2.exField)] }

theorem exV2a_ok : C13V2.ArrayDocV2.ok exV2a := by
  obtain ⟨hs, hw⟩ := C13V2.exV2x_ok
  have hsub : ∀ kv ∈ exV2a.extra, kv ∈ C13V2.exV2x.extra := by
    intro kv hkv
    simp only [exV2a, List.mem_cons, List.not_mem_nil, or_false] at hkv
    subst hkv
    simp [C13V2.exV2x]
  have hz := hw.comp ⟨ascii "zlib", [(ascii "level", .num ['1'])]⟩ rfl
  refine ⟨⟨hs.shape, hs.chunks, hs.dt, ?_, hs.fill, hs.filters, fun kv hkv => hs.extraKeys kv (hsub kv hkv),
      fun kv hkv => hs.extraShape kv (hsub kv hkv), by unfold sortedKeys; decide, fun kv hkv => hs.noTag kv (hsub kv hkv)⟩,
    ⟨hw.shape, hw.chunks, hw.dt, ?_, hw.fill, hw.filters, hw.attrs, fun kv hkv => hw.extra kv (hsub kv hkv)⟩⟩
  · intro m hm; cases hm; exact (lookup_eq_none_iff _ _).2 (by decide)
  · intro m hm; cases hm; exact ⟨strOk_ascii _ (by decide), hz.2⟩

theorem exV2a_noNodeType : C13V2.noNodeTypeField exV2a := by
  intro kv hkv
  simp only [exV2a, List.mem_cons, List.not_mem_nil, or_false] at hkv
  subst hkv
  decide

theorem exV2a_opens : openV2 exPlug exV2a = some (.v2 exV2a) := by rfl

theorem exV2a_extraKeys : ∀ kv ∈ exV2a.extra, kv.1 ∉ arrayKeys := by
  intro kv hkv
  simp only [exV2a, List.mem_cons, List.not_mem_nil, or_false] at hkv
  subst hkv
  decide

/-! ### the options -/

/-- the sixteen settings of `Opts.all` are all there are ("every option setting" below is a finite statement) -/
theorem opts_all_complete (o : Opts) : o ∈ Opts.all := by
  obtain ⟨v, z, a, e⟩ := o
  cases v <;> cases z <;> cases a <;> cases e <;> decide
example : Opts.all.length = 16 ∧ Opts.dflt ∈ Opts.all := by decide

/-! ### the alias tables -/

/-- **alias resolution is a function**: in each transcribed table no name occurs twice as a key — no alias leads to two
    identifiers, no identifier has two default names (so the association lists say what the `HashMap`s say) -/
theorem tables_functional :
    (codecAliasStrV3.map (·.1)).Nodup ∧ (codecAliasesV2.map (·.1)).Nodup ∧ (dtypeAliasStrV3.map (·.1)).Nodup ∧
    (dtypeAliasesV2.map (·.1)).Nodup ∧ (codecNamesV3.map (·.1)).Nodup ∧ (codecNamesV2.map (·.1)).Nodup :=
  ⟨codecAliasStrV3_nodup, codecAliasesV2_nodup, dtypeAliasStrV3_nodup, dtypeAliasesV2_nodup, codecNamesV3_nodup, codecNamesV2_nodup⟩

/-- no alias maps to two different default names, in any of the four tables -/
theorem alias_unique (a : Aliases) (ha : a = codecV3 ∨ a = codecV2 ∨ a = dtypeV3 ∨ a = dtypeV2) (al i j : Str)
    (hi : (al, i) ∈ a.aliasesStr) (hj : (al, j) ∈ a.aliasesStr) : i = j ∧ a.defaultName i = a.defaultName j := by
  have hn : (a.aliasesStr.map (·.1)).Nodup := by
    rcases ha with rfl | rfl | rfl | rfl
    · exact codecAliasStrV3_nodup
    · exact codecAliasesV2_nodup
    · exact dtypeAliasStrV3_nodup
    · exact dtypeAliasesV2_nodup
  have := tbl_functional _ hn al i j hi hj
  exact ⟨this, by rw [this]⟩
example : (ascii "numcodecs.zlib", ascii "zlib") ∈ codecV3.aliasesStr := by decide

/-- the V2 -> V3 conversion of `Model/MetaV2.lean` reads the same tables -/
theorem tables_shared (s : Str) :
    codecIdent s = codecV2.identifier s ∧ codecName s = codecV3.defaultName s ∧
    dtypeNameV3 s = dtypeV3.defaultName (dtypeV2.identifier s) :=
  ⟨codecIdent_eq s, codecName_eq s, dtypeNameV3_eq s⟩

/-- **`metadataOpt_alias_idempotent`**: for each of the four tables, converting a name keeps its identifier (so the
    plugin that is found is the same), converting twice is converting once, every registered default name is a fixed
    point, and a converted name is the default name registered for its identifier (the identifier itself when none is) -/
theorem metadataOpt_alias_idempotent (a : Aliases) (ha : a = codecV3 ∨ a = codecV2 ∨ a = dtypeV3 ∨ a = dtypeV2) (n : Str) :
    a.identifier (a.convert n) = a.identifier n ∧ a.convert (a.convert n) = a.convert n ∧
    (∀ i dn, (i, dn) ∈ a.defaultNames → a.convert dn = dn) ∧
    ((∃ dn, (a.identifier n, dn) ∈ a.defaultNames ∧ a.convert n = dn) ∨
     ((∀ dn, (a.identifier n, dn) ∉ a.defaultNames) ∧ a.convert n = a.identifier n)) := by
  have hc : a.coherent = true ∧ (a.defaultNames.map (·.1)).Nodup := by
    rcases ha with rfl | rfl | rfl | rfl
    · exact ⟨codecV3_coherent, codecNamesV3_nodup⟩
    · exact ⟨codecV2_coherent, codecNamesV2_nodup⟩
    · exact ⟨dtypeV3_coherent, by simp [dtypeV3]⟩
    · exact ⟨dtypeV2_coherent, by simp [dtypeV2]⟩
  exact ⟨a.identifier_convert hc.1 n, a.convert_idem hc.1 n, fun i dn hm => a.convert_default hc.1 hc.2 i dn hm,
    a.convert_is_default n⟩
example : codecV3.convert (ascii "https://codec.zarrs.dev/bytes_to_bytes/gdeflate") = ascii "zarrs.gdeflate" ∧
    codecV3.convert (ascii "zarrs.gdeflate") = ascii "zarrs.gdeflate" ∧ codecV3.convert (ascii "gdeflate") = ascii "zarrs.gdeflate" ∧
    codecV3.convert (ascii "endian") = ascii "bytes" ∧ codecV3.convert (ascii "gzip") = ascii "gzip" ∧
    codecV2.convert (ascii "https://codec.zarrs.dev/bytes_to_bytes/bz2") = ascii "bz2" ∧
    dtypeV3.convert (ascii "binary") = ascii "bytes" ∧ dtypeV2.convert (ascii "|V12") = ascii "bytes" := by decide +kernel

/-! ### V3 arrays -/

/-- **`metadataOpt_reopens` (V3)**: for every accepted V3 document and EVERY option setting, `metadata_opt` gives a
    well-formed V3 document `e`; written to the store (whatever was there) it is read back as `e` and accepted again;
    and it denotes the same array: shape, data type, chunk grid, chunk key encoding, fill value, storage transformers,
    dimension names and additional fields are those of `d`; the attributes are those of `d` up to `_zarrs`; the chain
    of the re-opened array consists of the written codecs of the handle's chain, in order, each the same codec (kind,
    configuration) under a name with the same identifier. -/
theorem metadataOpt_reopens (plug : Plug) (hp : PlugOk plug) (o : Opts) (d : ArrayDoc) (hd : C13.ArrayDoc.ok d) (r : Nat)
    (ch : Chain) (hopen : openV3 plug r d = some (.v3 d ch)) (k : NodeKeys) :
    ∃ e, metadataOpt o (.v3 d ch) = some (.v3 e) ∧ C13.ArrayDoc.ok e ∧
      openArray plug r (storeArray k (.v3 e)) = some (.v3 e (ch.stored o)) ∧
      e.shape = d.shape ∧ e.dataType = d.dataType ∧ e.chunkGrid = d.chunkGrid ∧ e.cke = d.cke ∧ e.fill = d.fill ∧
      e.st = d.st ∧ e.dimNames = d.dimNames ∧ e.extra = d.extra ∧
      without e.attrs kZarrs = without d.attrs kZarrs ∧
      (ch.stored o).all.map (fun n => (codecV3.identifier n.name, n.codec)) =
        (ch.all.filter (Named.written o)).map (fun n => (codecV3.identifier n.name, n.codec)) := by
  have hg := (C13.arrayDoc_ok_iff d).1 hd
  obtain ⟨h1, h2, ch', hch, he⟩ := openV3_inv plug r d _ hopen
  cases he
  have hgood := outV3_good plug hp o d hg ch hch
  refine ⟨outV3 o d ch, metadataOpt_v3 o d ch, (C13.arrayDoc_ok_iff _).2 hgood, ?_, rfl, outV3_dataType o d ch h2, rfl, rfl,
    rfl, rfl, rfl, rfl, without_withZarrs o d.attrs, ?_⟩
  · rw [openArray_storeV3 plug r k _ hgood]
    exact outV3_opens plug hp o d r ch hopen
  · rw [Chain.stored_all o ch (a2b_written plug hp o _ ch hch), List.map_map]
    apply List.map_congr_left
    intro n _
    simp only [Function.comp, Named.rename_ident, Named.rename_codec]
example : PlugOk exPlug ∧ C13.ArrayDoc.ok exDocA ∧ openV3 exPlug 2 exDocA = some (.v3 exDocA exChainA) :=
  ⟨exPlug_ok, exDocA_ok, exDocA_opens⟩

/-- **stored, opened, stored again is a fixed point, for every option setting**: the re-opened handle (the written
    document with the stored chain) gives the same document again -/
theorem metadataOpt_fixed (plug : Plug) (hp : PlugOk plug) (o : Opts) (d : ArrayDoc) (r : Nat) (ch : Chain)
    (hopen : openV3 plug r d = some (.v3 d ch)) :
    ∃ e, metadataOpt o (.v3 d ch) = some (.v3 e) ∧ metadataOpt o (.v3 e (ch.stored o)) = some (.v3 e) := by
  obtain ⟨_, _, ch', hch, he⟩ := openV3_inv plug r d _ hopen
  cases he
  refine ⟨outV3 o d ch, metadataOpt_v3 o d ch, ?_⟩
  rw [metadataOpt_v3, outV3_fixed plug hp o d ch hch]
example : PlugOk exPlug ∧ openV3 exPlug 2 exDocA = some (.v3 exDocA exChainA) := ⟨exPlug_ok, exDocA_opens⟩

/-- **the codec list that is written**: the codecs the plugins created from the document's list — array-to-array
    codecs, then the array-to-bytes codec, then bytes-to-bytes codecs, each group in document order (the position of a
    codec in the document's list is not looked at) — without the encode-only codecs unless the option asks for them;
    each with the name the document gave (converted when the option says so), the configuration the codec writes and
    `must_understand: true`.  Entries the plugins did not create (allowed only with `must_understand: false`) are gone. -/
theorem metadataOpt_codecs (plug : Plug) (o : Opts) (d : ArrayDoc) (r : Nat) (ch : Chain)
    (hopen : openV3 plug r d = some (.v3 d ch)) :
    ∃ e, metadataOpt o (.v3 d ch) = some (.v3 e) ∧
      e.codecs = ((ch.all.filter (Named.written o)).map (Named.rename o)).map Named.toMeta ∧
      ch.all = ofKind .a2a (createdOf plug d.codecs) ++ ofKind .a2b (createdOf plug d.codecs) ++ ofKind .b2b (createdOf plug d.codecs) ∧
      (∀ m ∈ d.codecs, created plug m = none → m.mu = false) := by
  obtain ⟨_, _, ch', hch, he⟩ := openV3_inv plug r d _ hopen
  cases he
  obtain ⟨hs, hb, ha, hc⟩ := chainOf_inv plug _ ch hch
  refine ⟨outV3 o d ch, metadataOpt_v3 o d ch, outCodecs_eq o ch, ?_, ?_⟩
  · rw [Chain.all, ha, hb, hc]
  · intro m hm hcr
    unfold skipOk at hs
    rw [List.all_eq_true] at hs
    have := hs m hm
    rw [hcr] at this
    simpa using this
example : openV3 exPlug 2 exDocA = some (.v3 exDocA exChainA) := exDocA_opens
/-- a codec list out of order is accepted and written back in order: `[gzip, endian, transpose]` -/
example : (chainOf exPlug [⟨ascii "gzip", some [(ascii "level", .num ['1'])], true⟩, ⟨ascii "endian", none, true⟩,
      ⟨ascii "transpose", some [(ascii "order", .arr [.num ['0']])], true⟩]).map (fun ch => (outCodecs Opts.dflt ch).map (·.name)) =
    some [ascii "transpose", ascii "endian", ascii "gzip"] := by decide +kernel

/-- **`metadataOpt_names_as_given` (V3)**: with `convert_aliased_extension_names` off, the data type is exactly the
    one given and every written codec carries exactly the name the document gave for it -/
theorem metadataOpt_names_as_given (plug : Plug) (o : Opts) (ho : o.convertAliased = false) (d : ArrayDoc) (r : Nat)
    (ch : Chain) (hopen : openV3 plug r d = some (.v3 d ch)) :
    ∃ e, metadataOpt o (.v3 d ch) = some (.v3 e) ∧ e.dataType = d.dataType ∧
      e.codecs.map (·.name) = (ch.all.filter (Named.written o)).map (·.name) ∧
      (∀ n ∈ ch.all, ∃ m ∈ d.codecs, n.name = m.name) := by
  obtain ⟨_, h2, ch', hch, he⟩ := openV3_inv plug r d _ hopen
  cases he
  refine ⟨outV3 o d ch, metadataOpt_v3 o d ch, outV3_dataType o d ch h2, ?_, ?_⟩
  · show (outCodecs o ch).map (·.name) = _
    rw [outCodecs_eq, List.map_map, List.map_map]
    apply List.map_congr_left
    intro n _
    simp [Function.comp, Named.rename, ho, Named.toMeta]
  · intro n hn
    obtain ⟨m, hm, hname, _⟩ := mem_createdOf plug _ n (chainOf_mem plug _ ch hch n hn)
    exact ⟨m, hm, hname⟩
example : (⟨.default, true, false, true⟩ : Opts).convertAliased = false ∧
    openV3 exPlug 2 exDocA = some (.v3 exDocA exChainA) := ⟨rfl, exDocA_opens⟩

/-- with the option on, every written codec name is the default name of the identifier of the name given, and the data
    type of an accepted document is still exactly the one given (the only aliased data type name, `binary`, is never
    accepted: no data type plugin is registered that would take it) -/
theorem metadataOpt_names_converted (plug : Plug) (o : Opts) (ho : o.convertAliased = true) (d : ArrayDoc) (r : Nat)
    (ch : Chain) (hopen : openV3 plug r d = some (.v3 d ch)) :
    ∃ e, metadataOpt o (.v3 d ch) = some (.v3 e) ∧ e.dataType = d.dataType ∧
      e.codecs.map (·.name) = (ch.all.filter (Named.written o)).map (fun n => codecV3.defaultName (codecV3.identifier n.name)) := by
  obtain ⟨_, h2, ch', hch, he⟩ := openV3_inv plug r d _ hopen
  cases he
  refine ⟨outV3 o d ch, metadataOpt_v3 o d ch, outV3_dataType o d ch h2, ?_⟩
  show (outCodecs o ch).map (·.name) = _
  rw [outCodecs_eq, List.map_map, List.map_map]
  apply List.map_congr_left
  intro n _
  simp [Function.comp, Named.rename, ho, Named.toMeta, Aliases.convert]
example : (⟨.default, false, true, false⟩ : Opts).convertAliased = true ∧
    openV3 exPlug 2 exDocA = some (.v3 exDocA exChainA) := ⟨rfl, exDocA_opens⟩
/-- on the example: the URL and `endian` spellings become `bytes`, `numcodecs.zlib`, `zarrs.gdeflate`; the encode-only
    `bitround` is written (as `numcodecs.bitround`) only when the codec option asks for it -/
example : (match metadataOpt ⟨.default, false, true, false⟩ (.v3 exDocA exChainA) with
      | some (.v3 e) => e.codecs.map (·.name) | _ => []) = [ascii "bytes", ascii "numcodecs.zlib", ascii "zarrs.gdeflate"] ∧
    (match metadataOpt ⟨.default, false, true, true⟩ (.v3 exDocA exChainA) with
      | some (.v3 e) => e.codecs.map (·.name) | _ => []) =
      [ascii "numcodecs.bitround", ascii "bytes", ascii "numcodecs.zlib", ascii "zarrs.gdeflate"] := by decide +kernel
theorem binary_not_accepted : dataTypeOk ⟨ascii "binary", none, true⟩ = false ∧ dataTypeOk ⟨ascii "bytes", none, true⟩ = true := by
  decide +kernel

/-- **the `_zarrs` attribute** (arrays of either version): with the option on it is there with the library's entry — in
    the place of an earlier `_zarrs` entry, else at the end; with the option off the attributes are those given;
    removing the key gives back the given attributes without it, in order (all of them, when `_zarrs` was not among
    them — then the key is present exactly when the option is set); inserting is idempotent -/
theorem zarrs_attribute (o : Opts) (attrs : Obj) :
    (o.includeZarrs = true → lookup (withZarrs o attrs) kZarrs = some zarrsValue) ∧
    (o.includeZarrs = false → withZarrs o attrs = attrs) ∧
    without (withZarrs o attrs) kZarrs = without attrs kZarrs ∧
    (lookup attrs kZarrs = none →
      without (withZarrs o attrs) kZarrs = attrs ∧ ((lookup (withZarrs o attrs) kZarrs).isSome = o.includeZarrs) ∧
      (o.includeZarrs = true → withZarrs o attrs = attrs ++ [(kZarrs, zarrsValue)])) ∧
    withZarrs o (withZarrs o attrs) = withZarrs o attrs := by
  refine ⟨?_, ?_, without_withZarrs o attrs, ?_, withZarrs_idem o attrs⟩
  · intro h; simp only [withZarrs, h, if_true]; exact lookup_mapInsert _ _ _
  · intro h; simp [withZarrs, h]
  · intro hn
    refine ⟨?_, ?_, ?_⟩
    · rw [without_withZarrs]; exact without_of_lookup_none _ _ hn
    · cases hz : o.includeZarrs with
      | true => simp only [withZarrs, hz, if_true, lookup_mapInsert]; rfl
      | false => simp [withZarrs, hz, hn]
    · intro h; simp only [withZarrs, h, if_true]; exact mapInsert_absent _ _ _ hn
example : lookup exDocA.attrs kZarrs = some (.str (ascii "old")) ∧ lookup C13.exDoc.attrs kZarrs = none := ⟨by rfl, by rfl⟩
/-- where the attribute goes: `exDocA` has `a, _zarrs, z`; `C13.exDoc` has only `title` -/
example : (withZarrs Opts.dflt exDocA.attrs).map (·.1) = [ascii "a", ascii "_zarrs", ascii "z"] ∧
    (withZarrs Opts.dflt C13.exDoc.attrs).map (·.1) = [ascii "title", ascii "_zarrs"] := by decide +kernel
/-- what `metadata_opt` writes as attributes is `withZarrs` of the handle's attributes -/
theorem metadataOpt_attrs (o : Opts) (d : ArrayDoc) (ch : Chain) (d2 : ArrayDocV2) :
    (∃ e, metadataOpt o (.v3 d ch) = some (.v3 e) ∧ e.attrs = withZarrs o d.attrs) ∧
    (o.convertVersion = .default → ∃ e, metadataOpt o (.v2 d2) = some (.v2 e) ∧ e.attrs = withZarrs o d2.attrs) ∧
    (o.convertVersion = .v3 → ∀ v, v2ToV3 d2 = .ok v → ∃ e, metadataOpt o (.v2 d2) = some (.v3 e) ∧ e.attrs = withZarrs o d2.attrs) := by
  refine ⟨⟨outV3 o d ch, metadataOpt_v3 o d ch, rfl⟩, ?_, ?_⟩
  · intro ho; exact ⟨outV2 o d2, metadataOpt_v2 o d2 ho, outV2_attrs o d2⟩
  · intro ho v hv
    refine ⟨outV2V3 o d2 v, metadataOpt_v2v3 o d2 v ho hv, ?_⟩
    unfold outV2V3; simp only; split <;> rfl

/-! ### V2 arrays, version kept -/

/-- **`metadataOpt_v2_dtype_kept` and `metadataOpt_reopens` (V2 kept as V2)**: for every accepted V2 document and every
    option setting that keeps the version, `metadata_opt` gives a well-formed V2 document `e` with the data type string
    exactly as given — also under `convert_aliased_extension_names`, which only rewrites the ids of the filters and of
    the compressor; stored as `.zarray` / `.zattrs` (no `zarr.json` being there) it is read back as `e` and accepted
    again; its interpretation as a V3 array (`v2ToV3`) is that of the handle's document with the written attributes —
    so it denotes the same array; shape, chunks, fill value, order, separator and additional fields are those given,
    the attributes are those given up to `_zarrs`; and storing again is a fixed point. -/
theorem metadataOpt_v2_dtype_kept (plug : Plug) (o : Opts) (ho : o.convertVersion = .default) (d : ArrayDocV2)
    (hd : C13V2.ArrayDocV2.ok d) (hn : C13V2.noNodeTypeField d) (hopen : openV2 plug d = some (.v2 d)) (r : Nat)
    (k : NodeKeys) (hk : k.zarrJson = none) :
    ∃ e, metadataOpt o (.v2 d) = some (.v2 e) ∧ e.dtype = d.dtype ∧
      C13V2.ArrayDocV2.ok e ∧ C13V2.noNodeTypeField e ∧
      openArray plug r (storeArray k (.v2 e)) = some (.v2 e) ∧
      v2ToV3 e = (v2ToV3 d).map (fun v => { v with attrs := e.attrs }) ∧
      e.shape = d.shape ∧ e.chunks = d.chunks ∧ e.fill = d.fill ∧ e.order = d.order ∧ e.sep = d.sep ∧ e.extra = d.extra ∧
      without e.attrs kZarrs = without d.attrs kZarrs ∧
      metadataOpt o (.v2 e) = some (.v2 e) := by
  have hkept := outV2_kept o d
  have hs := outV2_shapeOk o d hd.1
  have hw := outV2_wfParts o d hd.2
  have hn' : C13V2.noNodeTypeField (outV2 o d) := by
    intro kv hkv
    rw [hkept.2.2.2.2.2.2] at hkv
    exact hn kv hkv
  refine ⟨outV2 o d, metadataOpt_v2 o d ho, hkept.1, ⟨hs, hw⟩, hn', ?_, ?_, hkept.2.1, hkept.2.2.1, hkept.2.2.2.1,
    hkept.2.2.2.2.1, hkept.2.2.2.2.2.1, hkept.2.2.2.2.2.2, ?_, ?_⟩
  · rw [openArray_storeV2 plug r k hk _ hs hw hn']
    exact outV2_opens plug o d hopen
  · rw [v2ToV3_outV2, outV2_attrs]
  · rw [outV2_attrs]; exact without_withZarrs o d.attrs
  · rw [metadataOpt_v2 o _ ho, outV2_fixed]
example : C13V2.ArrayDocV2.ok exV2a ∧ C13V2.noNodeTypeField exV2a ∧ openV2 exPlug exV2a = some (.v2 exV2a) :=
  ⟨exV2a_ok, exV2a_noNodeType, exV2a_opens⟩
/-- on the example, with every conversion option on: the data type stays `>i2`, the compressor id becomes
    `zarrs.gdeflate`, the filter id stays `shuffle` -/
example : (match metadataOpt ⟨.default, true, true, true⟩ (.v2 exV2a) with
    | some (.v2 e) => ((match e.dtype with | .simple s => s | _ => []), e.compressor.map (·.id), e.filters.map (·.map (·.id)))
    | _ => ([], none, none)) = (ascii ">i2", some (ascii "zarrs.gdeflate"), some [ascii "shuffle"]) := by
  decide +kernel

/-- **`metadataOpt_names_as_given` (V2)**: with `convert_aliased_extension_names` off, nothing but the attributes
    differs from the handle's document -/
theorem metadataOpt_names_as_given_v2 (o : Opts) (ho : o.convertVersion = .default) (ha : o.convertAliased = false)
    (d : ArrayDocV2) : metadataOpt o (.v2 d) = some (.v2 { d with attrs := withZarrs o d.attrs }) := by
  rw [metadataOpt_v2 o d ho]
  simp [outV2, ha]

/-- **the unrepaired behaviour, as a counterexample**: rewriting the V2 data type through the V2 data type aliases
    (`>i2` becomes the identifier `int16`) turns an accepted V2 document into one that is rejected (`int16` has no
    byte-order prefix: `InvalidEndianness`), while the repaired conversion of the same document stays accepted -/
theorem metadataOpt_v2_dtype_unrepaired_rejected :
    openOkV2 C13V2.exV2 = true ∧
    (aliasV2Unrepaired C13V2.exV2).dtype.toJ = .str (ascii "int16") ∧
    openOkV2 (aliasV2Unrepaired C13V2.exV2) = false ∧
    v2ToV3 (aliasV2Unrepaired C13V2.exV2) = .error .invalidEndianness ∧
    openOkV2 (aliasV2 C13V2.exV2) = true := by
  refine ⟨by decide +kernel, by rfl, by decide +kernel, by rfl, by decide +kernel⟩

/-! ### V2 arrays written as V3 -/

/-- **`metadataOpt_reopens` (V2 written as V3)**: for every accepted V2 document (whose additional fields are not named
    like V3 array fields: the conversion carries them over and the written text would hold such a key twice) and every
    option setting that converts to V3, `metadata_opt` does not panic and gives the conversion `v` of the handle's
    document with the written attributes and, when the option says so, converted names — a well-formed V3 document;
    written as `zarr.json` it is read back and accepted as a V3 array (the `.zarray` that stays in the store is not looked
    at), with the chain of the handle up to name spelling; data type, shape, chunk grid, key encoding, fill value and
    additional fields are those of `v`. -/
theorem metadataOpt_v2_to_v3_reopens (plug : Plug) (o : Opts) (ho : o.convertVersion = .v3) (d : ArrayDocV2)
    (hd : C13V2.ArrayDocV2.ok d) (hx : ∀ kv ∈ d.extra, kv.1 ∉ arrayKeys) (hopen : openV2 plug d = some (.v2 d))
    (k : NodeKeys) :
    ∃ e v ch, metadataOpt o (.v2 d) = some (.v3 e) ∧ v2ToV3 d = .ok v ∧ chainOf plug v.codecs = some ch ∧
      C13.ArrayDoc.ok e ∧
      openArray plug d.chunks.length (storeArray k (.v3 e)) =
        some (.v3 e (if o.convertAliased then ch.converted else ch)) ∧
      e.shape = v.shape ∧ e.dataType = v.dataType ∧ e.chunkGrid = v.chunkGrid ∧ e.cke = v.cke ∧ e.fill = v.fill ∧
      e.st = v.st ∧ e.dimNames = v.dimNames ∧ e.extra = v.extra ∧ e.attrs = withZarrs o d.attrs ∧
      e.codecs = (if o.convertAliased then v.codecs.map (renameV3 codecV3) else v.codecs) := by
  obtain ⟨h1, _, v, ch, hv, hdt, hch⟩ := openV2_inv plug d _ hopen
  have hvg := v2ToV3_good d hd.1 hd.2 v hv hx
  have hgood := outV2V3_good o d v hvg hd.2.attrs
  obtain ⟨k1, k2, k3, k4, k5, k6, k7, k8, k9, k10⟩ := outV2V3_kept o d v hdt
  refine ⟨outV2V3 o d v, v, ch, metadataOpt_v2v3 o d v ho hv, hv, hch, (C13.arrayDoc_ok_iff _).2 hgood, ?_,
    k1, k2, k3, k4, k5, k6, k7, k8, k9, k10⟩
  rw [openArray_storeV3 plug _ k _ hgood]
  exact outV2V3_opens plug o d v ch _ (openOkV2_openOk d v hv h1) hdt hch
example : C13V2.ArrayDocV2.ok exV2a ∧ (∀ kv ∈ exV2a.extra, kv.1 ∉ arrayKeys) ∧ openV2 exPlug exV2a = some (.v2 exV2a) :=
  ⟨exV2a_ok, exV2a_extraKeys, exV2a_opens⟩
/-- on the example: `>i2` is written as `int16`; the codec names are the V3 default names either way -/
example : (match metadataOpt ⟨.v3, false, true, false⟩ (.v2 exV2a) with
    | some (.v3 e) => (e.dataType.name, e.codecs.map (·.name))
    | _ => ([], [])) = (ascii "int16", [ascii "transpose", ascii "numcodecs.shuffle", ascii "bytes", ascii "zarrs.gdeflate"]) := by
  decide +kernel

/-- the names the conversion writes keep their identifiers under the alias conversion, and every chain made from
    converted names is the chain of the given names, converted -/
theorem chain_of_converted_names (plug : Plug) (ms : List MetaV3) :
    chainOf plug (ms.map (renameV3 codecV3)) = (chainOf plug ms).map Chain.converted :=
  chainOf_renameV3 plug ms

/-- **a V2 array written as V3 is NOT yet a fixed point when it has an encode-only filter**: the first store writes the
    conversion of the V2 document (`bitround` included); the re-opened V3 array re-creates its codec metadata from the
    chain and leaves `bitround` out (unless the codec option is set).  From the second store on, `metadataOpt_fixed`
    applies.  The document: `dtype <f4`, `filters [{"id":"bitround","keepbits":3}]`. -/
theorem v2_to_v3_encode_only_not_fixed :
    let d : ArrayDocV2 := { C13V2.exV2 with dtype := .simple (ascii "<f4"), order := .C, compressor := none,
                                            filters := some [⟨ascii "bitround", [(ascii "keepbits", .num ['3'])]⟩] }
    let o : Opts := ⟨.v3, false, false, false⟩
    openOkV2 d = true ∧
    (match metadataOpt o (.v2 d) with
     | some (.v3 e) =>
       (e.codecs.map (·.name),
        (chainOf exPlug e.codecs).bind (fun ch => match metadataOpt o (.v3 e ch) with
          | some (.v3 e2) => some (e2.codecs.map (·.name)) | _ => none))
     | _ => ([], none)) = ([ascii "numcodecs.bitround", ascii "bytes"], some [ascii "bytes"]) := by
  decide +kernel

/-- after its first store a V2 array written as V3 is a V3 array, to which `metadataOpt_reopens` / `metadataOpt_fixed`
    apply: the second store gives a document that every later store reproduces -/
theorem metadataOpt_v2_to_v3_then_fixed (plug : Plug) (hp : PlugOk plug) (o : Opts) (ho : o.convertVersion = .v3) (d : ArrayDocV2)
    (hopen : openV2 plug d = some (.v2 d)) :
    ∃ e ch', metadataOpt o (.v2 d) = some (.v3 e) ∧ openV3 plug d.chunks.length e = some (.v3 e ch') ∧
      ∃ e2, metadataOpt o (.v3 e ch') = some (.v3 e2) ∧ metadataOpt o (.v3 e2 (ch'.stored o)) = some (.v3 e2) := by
  obtain ⟨h1, _, v, ch, hv, hdt, hch⟩ := openV2_inv plug d _ hopen
  have hre := outV2V3_opens plug o d v ch _ (openOkV2_openOk d v hv h1) hdt hch
  obtain ⟨e2, h2, h3⟩ := metadataOpt_fixed plug hp o _ _ _ hre
  exact ⟨outV2V3 o d v, _, metadataOpt_v2v3 o d v ho hv, hre, e2, h2, h3⟩
example : PlugOk exPlug ∧ openV2 exPlug exV2a = some (.v2 exV2a) := ⟨exPlug_ok, exV2a_opens⟩

/-! ### groups -/

/-- **groups**: `Group::metadata_opt` only converts the version — no `_zarrs` attribute, no names.  A V3 group document,
    and a V2 group document kept as V2, are written as they are, read back as they are (V2: attributes through
    `.zattrs`) and stored again unchanged; a V2 group written as V3 carries attributes and additional fields over
    (`groupV2ToV3`), is a well-formed V3 document when no additional field is named like a V3 group field, and is then
    read back and accepted as that V3 group. -/
theorem groupMetadataOpt_reopens (o : Opts) :
    (∀ d : GroupDoc, C13.GroupDoc.ok d → groupOk d = true → ∀ k,
      groupMetadataOpt o (.v3 d) = .v3 d ∧ openGroup (storeGroup k (groupMetadataOpt o (.v3 d))) = some (.v3 d)) ∧
    (∀ d : GroupDocV2, C13V2.GroupDocV2.ok d → d.extra.all (fun kv => !kv.2.mu) = true → ∀ k : NodeKeys, k.zarrJson = none →
      (o.convertVersion = .default →
        groupMetadataOpt o (.v2 d) = .v2 d ∧ openGroup (storeGroup k (groupMetadataOpt o (.v2 d))) = some (.v2 d))) ∧
    (∀ d : GroupDocV2, C13V2.GroupDocV2.ok d → d.extra.all (fun kv => !kv.2.mu) = true →
      (∀ kv ∈ d.extra, kv.1 ∉ groupKeys) → ∀ k : NodeKeys,
      (o.convertVersion = .v3 →
        groupMetadataOpt o (.v2 d) = .v3 (groupV2ToV3 d) ∧ (groupV2ToV3 d).attrs = d.attrs ∧ (groupV2ToV3 d).extra = d.extra ∧
        C13.GroupDoc.ok (groupV2ToV3 d) ∧
        openGroup (storeGroup k (groupMetadataOpt o (.v2 d))) = some (.v3 (groupV2ToV3 d)))) := by
  refine ⟨?_, ?_, ?_⟩
  · intro d hd hok k
    exact ⟨rfl, openGroup_storeV3 k d ((C13.groupDoc_ok_iff d).1 hd) hok⟩
  · intro d hd hok k hk ho
    have : groupMetadataOpt o (.v2 d) = .v2 d := by simp [groupMetadataOpt, ho]
    rw [this]
    exact ⟨rfl, openGroup_storeV2 k hk d hd.1 hd.2 hok⟩
  · intro d hd hok hx k ho
    have : groupMetadataOpt o (.v2 d) = .v3 (groupV2ToV3 d) := by simp [groupMetadataOpt, ho]
    rw [this]
    have hg := groupV2ToV3_good d hd.1 hd.2 hx
    refine ⟨rfl, rfl, rfl, (C13.groupDoc_ok_iff _).2 hg, openGroup_storeV3 k _ hg ?_⟩
    unfold groupOk groupV2ToV3
    exact hok
example : C13.GroupDoc.ok { C13.exGroup with extra := [(ascii "my_ext", C13.exField)] } ∧
    groupOk { C13.exGroup with extra := [(ascii "my_ext", C13.exField)] } = true := by
  obtain ⟨h1, h2, _⟩ := C13.exGroup_ok
  refine ⟨⟨h1, ?_, by unfold C13.extraSorted; decide⟩, by decide⟩
  intro kv hkv
  simp only [List.mem_cons, List.not_mem_nil, or_false] at hkv
  subst hkv
  exact h2 _ (by simp [C13.exGroup])
example : C13V2.GroupDocV2.ok { C13V2.exGroupV2 with extra := [(ascii "my_ext", C13V2.exField)] } ∧
    ({ C13V2.exGroupV2 with extra := [(ascii "my_ext", C13V2.exField)] } : GroupDocV2).extra.all (fun kv => !kv.2.mu) = true ∧
    (∀ kv ∈ ({ C13V2.exGroupV2 with extra := [(ascii "my_ext", C13V2.exField)] } : GroupDocV2).extra, kv.1 ∉ groupKeys) := by
  obtain ⟨hs, hw⟩ := C13V2.exGroupV2_ok
  have hsub : ∀ kv ∈ [(ascii "my_ext", C13V2.exField)], kv ∈ C13V2.exGroupV2.extra := by
    intro kv hkv
    simp only [List.mem_cons, List.not_mem_nil, or_false] at hkv
    subst hkv
    simp [C13V2.exGroupV2]
  refine ⟨⟨⟨fun kv hkv => hs.extraKeys kv (hsub kv hkv), fun kv hkv => hs.extraShape kv (hsub kv hkv), by unfold sortedKeys; decide⟩,
    ⟨hw.attrs, fun kv hkv => hw.extra kv (hsub kv hkv)⟩⟩, by decide, ?_⟩
  intro kv hkv
  simp only [List.mem_cons, List.not_mem_nil, or_false] at hkv
  subst hkv
  decide

end Zarrs.C13Opts
