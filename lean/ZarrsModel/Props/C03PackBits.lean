import ZarrsModel.Model.PackBits
import ZarrsModel.Lemmas.PackBits
import ZarrsModel.Props.C03
/- C03, continued: the `packbits` codec -/
set_option Elab.async false
namespace Zarrs.C03
open Zarrs Zarrs.Codec

/-! ### `packbits` (as repaired: the bits `first..=last` of each component; declared size = encoded size) -/

open Zarrs.PackBits in
/-- **packbits inverts its encoding** on every buffer whose components lie in the configured bit range (for a
sign-extended type: copies of the sign bit above `last`), for every component width, bit range and padding mode -/
theorem packbits_dec_enc (c : PackBits.Cfg) (hw : 0 < c.w) (hfl : c.first ≤ c.last) (hl : c.last < c.w)
    (data : Bytes) (hb : wfBytes data) (hlen : data.length % c.cb = 0)
    (hr : ∀ v ∈ PackBits.comps c data, PackBits.inRange c v = true) :
    PackBits.decode c (data.length / c.cb) (PackBits.encode c data) = some data :=
  PackBits.decode_encode c hw hfl hl data hb hlen hr

open Zarrs.PackBits in
/-- **and has exactly the declared size** -/
theorem packbits_size (c : PackBits.Cfg) (hw : 0 < c.w) (hfl : c.first ≤ c.last) (hl : c.last < c.w)
    (data : Bytes) (hlen : data.length % c.cb = 0) :
    (PackBits.encode c data).length = PackBits.encodedSize c (data.length / c.cb) :=
  have _ := hfl; have _ := hl
  PackBits.encode_length c hw data hlen

/-- a 64-bit unsigned type, bits 13..=18, padding count in the first byte; a sign-extended 16-bit type, bits 0..=4 -/
example : PackBits.decode ⟨64, 13, 18, .firstByte, false⟩ 2
      (PackBits.encode ⟨64, 13, 18, .firstByte, false⟩ [0x00, 0xe0, 0x04, 0, 0, 0, 0, 0, 0x00, 0xa0, 0x07, 0, 0, 0, 0, 0]) =
      some [0x00, 0xe0, 0x04, 0, 0, 0, 0, 0, 0x00, 0xa0, 0x07, 0, 0, 0, 0, 0] ∧
    PackBits.encode ⟨64, 13, 18, .firstByte, false⟩ [0x00, 0xe0, 0x04, 0, 0, 0, 0, 0, 0x00, 0xa0, 0x07, 0, 0, 0, 0, 0] = [4, 103, 15] ∧
    PackBits.decode ⟨16, 0, 4, .lastByte, true⟩ 3 (PackBits.encode ⟨16, 0, 4, .lastByte, true⟩ [0xf0, 0xff, 0x0f, 0x00, 0xff, 0xff]) =
      some [0xf0, 0xff, 0x0f, 0x00, 0xff, 0xff] := by
  decide +kernel

end Zarrs.C03
