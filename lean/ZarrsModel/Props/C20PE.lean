import ZarrsModel.Props.C20Ops
set_option Elab.async false
/-
C20 on the experimental partial-encoding path: the SHARDING partial encoder as a program of store operations.

`ShardingPartialEncoder::partial_encode` (sharding_partial_encoder.rs) first READS the stored shard — the index, then
the inner chunks the update straddles (ranged gets of the shard's key) — and then publishes what it computed.  What it
publishes is one of a few shapes (`Plan`), all on the shard's own key:

* nothing, ONE write (`partial_encode` of index + appended inner chunks: one `set_partial_values` call, one store
  operation), ONE erase (every inner chunk is fill) — the *atomic* plans;
* erase THEN write — when every live inner chunk is touched ("the shard can be entirely rewritten") and when, with the
  index at the end, the last inner chunks are removed and nothing is appended (the shorter rewrite);
* erase then erase (both of the above, all fill);
* the seeded variant `C20_m10`: the index in one write, the appended inner chunks in a second one.

The harness sweep `fault_sweep_pe` (harness/src/c20.rs) fails every store operation of such a call in turn and
records, for every position after which a retry ends elsewhere, the failing operation and its predecessor on the same
key (`rdk=ew<key>` / `ww<key>`): the shapes below are what those labels name.
-/
namespace Zarrs.C20PE
open Zarrs

/-- what the encoder publishes after its reads (whole values: a partial write of one key is one store operation whose
effect is the updated value) -/
inductive Plan where
  | nothing
  | write (v : Bytes)
  | erase
  | eraseThenWrite (v : Bytes)
  | eraseTwice
  | twoWrites (v1 v2 : Bytes)
deriving Repr, DecidableEq

namespace Plan
/-- the plans that publish in at most one store operation -/
def atomic : Plan → Bool
  | .nothing | .write _ | .erase => true
  | _ => false

def prog (k : Key) : Plan → Prog Unit
  | .nothing => .ret ()
  | .write v => .set k v (.ret ())
  | .erase => .erase k (.ret ())
  | .eraseThenWrite v => .erase k (.set k v (.ret ()))
  | .eraseTwice => .erase k (.erase k (.ret ()))
  | .twoWrites v1 v2 => .set k v1 (.set k v2 (.ret ()))
end Plan

/-- `r + 1` reads of the shard's key (index, straddled inner chunks), then the continuation on the stored value -/
def readsThen (k : Key) : Nat → (Option Bytes → Prog Unit) → Prog Unit
  | 0, f => .get k f
  | r + 1, f => .get k (fun _ => readsThen k r f)

/-- one `partial_encode` call: the reads, then the plan computed from the stored value (`none` = a codec error) -/
def shardPEP (k : Key) (r : Nat) (plan : Option Bytes → Option Plan) : Prog Unit :=
  readsThen k r (fun v => match plan v with
    | none => .fail
    | some pl => pl.prog k)

theorem readsThen_writeLast (k : Key) (r : Nat) (f : Option Bytes → Prog Unit) (hf : ∀ v, (f v).writeLast) :
    (readsThen k r f).writeLast := by
  induction r with
  | zero => exact fun v => hf v
  | succ r ih => exact fun _ => ih

theorem atomic_writeLast (k : Key) (pl : Plan) (h : pl.atomic = true) : (pl.prog k).writeLast := by
  cases pl <;> simp [Plan.atomic] at h <;> simp [Plan.prog, Prog.writeLast]

/-- **an encoder whose plans are atomic leaves the shard untouched whenever it fails** — a fault on any read, on the
publishing operation itself, or a codec error; any failing set, any number of reads -/
theorem shardPE_atomic_untouched (k : Key) (r : Nat) (plan : Option Bytes → Option Plan)
    (hat : ∀ v pl, plan v = some pl → pl.atomic = true) (m : KV) (n : Nat) (F : List Nat) (s' : FStore)
    (he : (shardPEP k r plan).run ⟨m, n, F⟩ = .err s') : s'.m = m := by
  refine Prog.writeLast_err _ ?_ m n F s' he
  refine readsThen_writeLast k r _ (fun v => ?_)
  cases hp : plan v with
  | none => simp [Prog.writeLast]
  | some pl => simpa using atomic_writeLast k pl (hat v pl hp)

/-- **… hence a retry converges**: repeating the call from the state a failed call left is the fault-free call -/
theorem shardPE_atomic_retry (k : Key) (r : Nat) (plan : Option Bytes → Option Plan)
    (hat : ∀ v pl, plan v = some pl → pl.atomic = true) (m : KV) (n : Nat) (F : List Nat) (s' : FStore)
    (he : (shardPEP k r plan).run ⟨m, n, F⟩ = .err s') :
    (shardPEP k r plan).pure s'.m = (shardPEP k r plan).pure m := by
  rw [shardPE_atomic_untouched k r plan hat m n F s' he]

/-- **erase-then-write is not atomic**: a fault on the write (the second operation of the plan) is an error — and the
shard is gone -/
theorem eraseThenWrite_fault_loses_shard (k : Key) (v : Bytes) (m : KV) (n : Nat) :
    ((Plan.eraseThenWrite v).prog k).run ⟨m, n, [n + 2]⟩ = .err ⟨m.erase k, n + 2, [n + 2]⟩ := by
  simp [Plan.prog, Prog.run, ferase, fset, FStore.faultNow, FStore.tick]

/-! ### the two non-atomic shapes on a concrete shard: the retry ends elsewhere

A shard of two one-byte inner chunks, the "codec" keeps the bytes: the update sets byte 0 to 9 and keeps byte 1 of
whatever is stored (an absent shard reads as fill 0). -/

def exKey : Key := "c/0".toList
/-- the unchanged tree when every live inner chunk is touched: erase, then write the merged value -/
def exPlanErase : Option Bytes → Option Plan
  | some [_, b] => some (.eraseThenWrite [9, b])
  | none => some (.write [9, 0])
  | _ => none
/-- the seeded variant: first the index (modelled: the value with byte 1 dropped — the new index points at data not
yet written), then the data -/
def exPlanTwo : Option Bytes → Option Plan
  | some [_, b] => some (.twoWrites [9] [9, b])
  | none => some (.write [9, 0])
  | _ => none
/-- an encoder that publishes in one operation -/
def exPlanOne : Option Bytes → Option Plan
  | some [_, b] => some (.write [9, b])
  | none => some (.write [9, 0])
  | _ => none

def exM : KV := [(exKey, [1, 7])]

/-- fault-free: all three encoders store `[9, 7]` -/
theorem ex_fault_free : (shardPEP exKey 1 exPlanErase).pure exM = some ((), [(exKey, [9, 7])]) ∧
    (shardPEP exKey 1 exPlanTwo).pure exM = some ((), [(exKey, [9, 7])]) ∧
    (shardPEP exKey 1 exPlanOne).pure exM = some ((), [(exKey, [9, 7])]) := by
  refine ⟨?_, ?_, ?_⟩ <;> decide

/-- **known finding F-C20-K1 as a theorem**: the 4th operation (the write after the erase) fails; the call returns an
error, the shard is absent, and the repeated call stores `[9, 0]` — byte 1 (an element the update did not touch) is
lost for good -/
theorem eraseThenWrite_retry_diverges :
    (shardPEP exKey 1 exPlanErase).run ⟨exM, 0, [4]⟩ = .err ⟨[], 4, [4]⟩ ∧
    (shardPEP exKey 1 exPlanErase).pure [] = some ((), [(exKey, [9, 0])]) ∧
    (shardPEP exKey 1 exPlanErase).pure exM = some ((), [(exKey, [9, 7])]) := by decide

/-- **the seeded two-write variant (`C20_m10`)**: the 4th operation (the data write after the index write) fails; the
stored value is torn and the repeated call is a codec error — it never converges -/
theorem twoWrites_retry_diverges :
    (shardPEP exKey 1 exPlanTwo).run ⟨exM, 0, [4]⟩ = .err ⟨[(exKey, [9])], 4, [4]⟩ ∧
    (shardPEP exKey 1 exPlanTwo).pure [(exKey, [9])] = none := by decide

/-- the one-operation encoder on the same shard: every fault position leaves `[1, 7]` and the retry stores `[9, 7]` -/
theorem ex_one_write_converges : (∀ j ∈ [1, 2, 3], (shardPEP exKey 1 exPlanOne).run ⟨exM, 0, [j]⟩ = .err ⟨exM, j, [j]⟩) ∧
    (shardPEP exKey 1 exPlanOne).pure exM = some ((), [(exKey, [9, 7])]) := by decide

/-- the hypothesis of `shardPE_atomic_untouched` is met by `exPlanOne` -/
example : ∀ v pl, exPlanOne v = some pl → pl.atomic = true := by
  intro v pl h
  unfold exPlanOne at h
  split at h <;> simp at h <;> subst h <;> rfl

end Zarrs.C20PE
