import ZarrsModel.Model.Shard
import ZarrsModel.Lemmas.Codec
/-
C03 — codecs invert and honour their declared encoded size.
Proved for the codecs with a specified output (`bytes`, `transpose`, `squeeze`, `crc32c`, `fletcher32`, `shuffle`,
the `sharding_indexed` layout) and for ANY chain of bytes-to-bytes codecs that individually satisfy the law
(`B2B.Lawful`): external compressors enter as hypotheses.
-/
namespace Zarrs.C03
open Zarrs Zarrs.Codec

def wfBytes (b : Bytes) : Prop := ∀ x ∈ b, x < 256

theorem crc32c_dec_enc (validate : Bool) (b : Bytes) : crc32cDec validate (crc32cEnc b) = .ok b :=
  checksumDec_enc crc32c validate b
theorem crc32c_size (b : Bytes) : (crc32cEnc b).length = b.length + 4 :=
  checksumEnc_length crc32c b
theorem fletcher32_dec_enc (validate : Bool) (b : Bytes) : fletcher32Dec validate (fletcher32Enc b) = .ok b :=
  checksumDec_enc fletcher32 validate b
theorem fletcher32_size (b : Bytes) : (fletcher32Enc b).length = b.length + 4 :=
  checksumEnc_length fletcher32 b

/-- `bytes`: decoding the encoding is the identity on whole elements, for either byte order; length preserved -/
theorem bytes_dec_enc (big : Bool) (es : Nat) (b : Bytes) (h : es = 0 ∨ b.length % es = 0) :
    bytesDec big es (bytesEnc big es b) = b ∧ (bytesEnc big es b).length = b.length :=
  bytes_dec_enc' big es b h

example : bytesEnc true 2 [1, 2, 3, 4, 5, 6] = [2, 1, 4, 3, 6, 5] := by decide
example : bytesDec true 2 (bytesEnc true 2 [1, 2, 3, 4, 5, 6]) = [1, 2, 3, 4, 5, 6] :=
  (bytes_dec_enc true 2 [1, 2, 3, 4, 5, 6] (by decide)).1
example : bytesDec true 0 (bytesEnc true 0 [1, 2, 3]) = [1, 2, 3] := (bytes_dec_enc true 0 [1, 2, 3] (by decide)).1

theorem shuffle_dec_enc (es : Nat) (b e : Bytes) (h : shuffleEnc es b = some e) :
    shuffleDec es e = some b ∧ e.length = b.length :=
  shuffle_dec_enc' es b e h

example : shuffleDec 2 [1, 3, 5, 2, 4, 6] = some [1, 2, 3, 4, 5, 6] :=
  (shuffle_dec_enc 2 [1, 2, 3, 4, 5, 6] [1, 3, 5, 2, 4, 6] (by decide)).1

/-- `transpose`: the advertised encoded shape is the permuted shape, the decoded shape of the encoded shape is
the original, the number of elements is preserved, and decoding the encoding returns the chunk -/
theorem transpose_dec_enc {α} [Inhabited α] (order : List Nat) (shape : Shape) (xs : List α)
    (ho : validOrder order shape.length = true) (hx : xs.length = prod shape) :
    transposeDec order shape (transposeEnc order shape xs) = xs ∧
    (transposeEnc order shape xs).length = prod (permute shape order) ∧
    prod (permute shape order) = prod shape ∧
    permute (permute shape order) (inverseOrder order) = shape :=
  transpose_dec_enc' order shape xs ho hx

example : transposeEnc [2, 0, 1] [2, 1, 3] [10, 11, 12, 13, 14, 15] = [10, 13, 11, 14, 12, 15] := by decide
example : transposeDec [2, 0, 1] [2, 1, 3] (transposeEnc [2, 0, 1] [2, 1, 3] [10, 11, 12, 13, 14, 15]) =
    [10, 11, 12, 13, 14, 15] :=
  (transpose_dec_enc [2, 0, 1] [2, 1, 3] [10, 11, 12, 13, 14, 15] (by decide) (by decide)).1
/-- rank 0 and empty shapes are covered -/
example : transposeDec [] [] (transposeEnc [] [] [7]) = [7] := (transpose_dec_enc [] [] [7] (by decide) (by decide)).1
example : transposeDec [1, 0] [0, 5] (transposeEnc [1, 0] [0, 5] ([] : List Nat)) = [] :=
  (transpose_dec_enc [1, 0] [0, 5] [] (by decide) (by decide)).1

/-- the fill-value mapping of `transpose` agrees with encoding: an all-fill chunk encodes to an all-fill chunk -/
theorem transpose_fill {α} [Inhabited α] (order : List Nat) (shape : Shape) (f : α)
    (ho : validOrder order shape.length = true) :
    transposeEnc order shape (List.replicate (prod shape) f) = List.replicate (prod (permute shape order)) f :=
  transpose_fill' order shape f ho

example : transposeEnc [2, 0, 1] [2, 1, 3] (List.replicate (prod [2, 1, 3]) 9) = List.replicate (prod [3, 2, 1]) 9 :=
  transpose_fill [2, 0, 1] [2, 1, 3] 9 (by decide)

theorem crc32c_lawful : crc32cCodec.Lawful := checksumCodec_lawful crc32c
theorem fletcher32_lawful : fletcher32Codec.Lawful := checksumCodec_lawful fletcher32
theorem shuffle_lawful (es : Nat) : (shuffleCodec es).Lawful := shuffleCodec_lawful es

/-- **chain composition**: any chain of lawful bytes-to-bytes codecs inverts and honours the composed size -/
theorem chain_dec_enc (cs : List B2B) (hl : ∀ c ∈ cs, c.Lawful) (b e : Bytes) (h : chainEnc cs b = some e) :
    chainDec cs e = some b :=
  chain_dec_enc' cs hl b e h

private theorem exChain_lawful : ∀ c ∈ [shuffleCodec 2, crc32cCodec, fletcher32Codec], c.Lawful := by
  intro c hc
  simp only [List.mem_cons, List.not_mem_nil, or_false] at hc
  rcases hc with rfl | rfl | rfl
  · exact shuffle_lawful 2
  · exact crc32c_lawful
  · exact fletcher32_lawful

example : chainEnc [shuffleCodec 2, crc32cCodec, fletcher32Codec] [1, 2, 3, 4] =
    some [1, 3, 2, 4, 253, 134, 211, 159, 45, 212, 197, 216] := by decide
example : chainDec [shuffleCodec 2, crc32cCodec, fletcher32Codec]
    [1, 3, 2, 4, 253, 134, 211, 159, 45, 212, 197, 216] = some [1, 2, 3, 4] :=
  chain_dec_enc _ exChain_lawful [1, 2, 3, 4] _ (by decide)

theorem chain_size (cs : List B2B) (hl : ∀ c ∈ cs, c.Lawful)
    (hmono : ∀ c ∈ cs, ∀ m n, m ≤ n → (c.size m).1 ≤ (c.size n).1)
    (b e : Bytes) (h : chainEnc cs b = some e) :
    e.length ≤ (chainSize cs b.length).1 ∧ ((chainSize cs b.length).2 = true → e.length = (chainSize cs b.length).1) :=
  chain_size' cs hl hmono b e h

example : ([1, 3, 2, 4, 253, 134, 211, 159, 45, 212, 197, 216] : Bytes).length ≤
    (chainSize [shuffleCodec 2, crc32cCodec, fletcher32Codec] ([1, 2, 3, 4] : Bytes).length).1 :=
  (chain_size [shuffleCodec 2, crc32cCodec, fletcher32Codec] exChain_lawful (by
    intro c hc m n hmn
    simp only [List.mem_cons, List.not_mem_nil, or_false] at hc
    rcases hc with rfl | rfl | rfl
    · exact hmn
    · exact Nat.add_le_add_right hmn 4
    · exact Nat.add_le_add_right hmn 4) [1, 2, 3, 4] _ (by decide)).1
example : chainSize [shuffleCodec 2, crc32cCodec, fletcher32Codec] 4 = (12, true) := by decide

/-- **sharding**: decoding an encoded shard returns every inner chunk, for either index location, either index
byte order, with or without the index checksum; the shard's length is the sum of the stored chunks plus the index -/
theorem shard_dec_enc (c : Shard.Cfg) (chunks : List (Option Bytes)) (hn : chunks.length = c.nChunks)
    (hb : ∀ ch ∈ chunks, ∀ b, ch = some b → wfBytes b)
    (hsmall : (chunks.filterMap id).flatten.length + Shard.indexSize c < Shard.sentinel) :
    Shard.decode c true (Shard.encode c chunks) = .ok chunks ∧
    (Shard.encode c chunks).length = ((chunks.filterMap id).map List.length).sum + Shard.indexSize c :=
  have _ := hb   -- not needed: the index words are produced by `w64`, the data is only sliced
  ⟨Shard.shard_decode c true chunks hn hsmall, Shard.shard_length c chunks hn⟩

/-- example shard: a stored chunk, a missing chunk, an empty stored chunk -/
private def exChunks : List (Option Bytes) := [some [1, 2, 3], none, some []]

private theorem exChunks_wf : ∀ ch ∈ exChunks, ∀ b, ch = some b → wfBytes b := by
  intro ch hc b hb x hx
  simp only [exChunks, List.mem_cons, List.not_mem_nil, or_false] at hc
  rcases hc with rfl | rfl | rfl
  · cases hb
    simp only [List.mem_cons, List.not_mem_nil, or_false] at hx
    omega
  · cases hb
  · cases hb
    cases hx

/-- index at the end, big-endian, with checksum -/
example : Shard.encode ⟨3, true, true, true⟩ exChunks =
    [1, 2, 3, 0, 0, 0, 0, 0, 0, 0, 0, 0, 0, 0, 0, 0, 0, 0, 3,
     255, 255, 255, 255, 255, 255, 255, 255, 255, 255, 255, 255, 255, 255, 255, 255,
     0, 0, 0, 0, 0, 0, 0, 3, 0, 0, 0, 0, 0, 0, 0, 0, 242, 0, 14, 154] := by decide +kernel
example : Shard.decode ⟨3, true, true, true⟩ true (Shard.encode ⟨3, true, true, true⟩ exChunks) = .ok exChunks :=
  (shard_dec_enc ⟨3, true, true, true⟩ exChunks (by decide) exChunks_wf (by decide)).1
/-- index at the start, little-endian, without checksum -/
example : Shard.decode ⟨3, false, false, false⟩ true (Shard.encode ⟨3, false, false, false⟩ exChunks) = .ok exChunks :=
  (shard_dec_enc ⟨3, false, false, false⟩ exChunks (by decide) exChunks_wf (by decide)).1
/-- index at the start, big-endian, with checksum -/
example : Shard.decode ⟨3, false, true, true⟩ true (Shard.encode ⟨3, false, true, true⟩ exChunks) = .ok exChunks :=
  (shard_dec_enc ⟨3, false, true, true⟩ exChunks (by decide) exChunks_wf (by decide)).1

/-- the bound `encode_bounded` pre-allocates from: `n * maxChunk + indexSize` -/
theorem shard_size_bound (c : Shard.Cfg) (chunks : List (Option Bytes)) (hn : chunks.length = c.nChunks) (m : Nat)
    (hm : ∀ ch ∈ chunks, ∀ b, ch = some b → b.length ≤ m) :
    (Shard.encode c chunks).length ≤ c.nChunks * m + Shard.indexSize c := by
  rw [Shard.shard_length c chunks hn, ← Shard.dataOf_length, ← hn]
  exact Nat.add_le_add_right (Shard.dataOf_length_le chunks m hm) _

private theorem exChunks_le : ∀ ch ∈ exChunks, ∀ b, ch = some b → b.length ≤ 3 := by
  intro ch hc b hb
  simp only [exChunks, List.mem_cons, List.not_mem_nil, or_false] at hc
  rcases hc with rfl | rfl | rfl <;> cases hb <;> decide

example : (Shard.encode ⟨3, true, true, true⟩ exChunks).length ≤ 3 * 3 + Shard.indexSize ⟨3, true, true, true⟩ :=
  shard_size_bound ⟨3, true, true, true⟩ exChunks (by decide) 3 exChunks_le
example : (Shard.encode ⟨3, false, false, false⟩ exChunks).length ≤ 3 * 3 + Shard.indexSize ⟨3, false, false, false⟩ :=
  shard_size_bound ⟨3, false, false, false⟩ exChunks (by decide) 3 exChunks_le

/-- what zarrs writes is a legal shard of the format -/
theorem shard_encode_legal (c : Shard.Cfg) (chunks : List (Option Bytes)) (hn : chunks.length = c.nChunks)
    (hb : ∀ ch ∈ chunks, ∀ b, ch = some b → wfBytes b)
    (hsmall : (chunks.filterMap id).flatten.length + Shard.indexSize c < Shard.sentinel) :
    Shard.Legal c (Shard.encode c chunks) chunks ∧ Shard.wellFormed c (Shard.encode c chunks) = true :=
  have _ := hb
  ⟨Shard.shard_legal c chunks hn hsmall, Shard.shard_wellFormed c chunks hn hsmall⟩

example : Shard.Legal ⟨3, true, true, true⟩ (Shard.encode ⟨3, true, true, true⟩ exChunks) exChunks :=
  (shard_encode_legal ⟨3, true, true, true⟩ exChunks (by decide) exChunks_wf (by decide)).1
example : Shard.Legal ⟨3, false, true, true⟩ (Shard.encode ⟨3, false, true, true⟩ exChunks) exChunks :=
  (shard_encode_legal ⟨3, false, true, true⟩ exChunks (by decide) exChunks_wf (by decide)).1
example : Shard.wellFormed ⟨3, true, true, true⟩ (Shard.encode ⟨3, true, true, true⟩ exChunks) = true := by decide +kernel
example : Shard.wellFormed ⟨3, false, false, false⟩ (Shard.encode ⟨3, false, false, false⟩ exChunks) = true := by decide

end Zarrs.C03
