import ZarrsModel.Model.Shard
import ZarrsModel.Lemmas.Codec
/-
C03 — codecs invert and honour their declared encoded size.
Proved for the codecs with a specified output (`bytes`, `transpose`, `squeeze`, `crc32c`, `fletcher32`, `shuffle`,
the `sharding_indexed` layout) and for ANY chain of bytes-to-bytes codecs that individually satisfy the law
(`B2B.Lawful`): external compressors enter as hypotheses.
-/
namespace Zarrs.C03
open Zarrs Zarrs.Codec

def wfBytes (b : Bytes) : Prop := ∀ x ∈ b, x < 256

theorem crc32c_dec_enc (validate : Bool) (b : Bytes) : crc32cDec validate (crc32cEnc b) = .ok b := by
  sorry
theorem crc32c_size (b : Bytes) : (crc32cEnc b).length = b.length + 4 := by
  sorry
theorem fletcher32_dec_enc (validate : Bool) (b : Bytes) : fletcher32Dec validate (fletcher32Enc b) = .ok b := by
  sorry
theorem fletcher32_size (b : Bytes) : (fletcher32Enc b).length = b.length + 4 := by
  sorry

/-- `bytes`: decoding the encoding is the identity on whole elements, for either byte order; length preserved -/
theorem bytes_dec_enc (big : Bool) (es : Nat) (b : Bytes) (h : es = 0 ∨ b.length % es = 0) :
    bytesDec big es (bytesEnc big es b) = b ∧ (bytesEnc big es b).length = b.length := by
  sorry

theorem shuffle_dec_enc (es : Nat) (b e : Bytes) (h : shuffleEnc es b = some e) :
    shuffleDec es e = some b ∧ e.length = b.length := by
  sorry

/-- `transpose`: the advertised encoded shape is the permuted shape, the decoded shape of the encoded shape is
the original, the number of elements is preserved, and decoding the encoding returns the chunk -/
theorem transpose_dec_enc {α} [Inhabited α] (order : List Nat) (shape : Shape) (xs : List α)
    (ho : validOrder order shape.length = true) (hx : xs.length = prod shape) :
    transposeDec order shape (transposeEnc order shape xs) = xs ∧
    (transposeEnc order shape xs).length = prod (permute shape order) ∧
    prod (permute shape order) = prod shape ∧
    permute (permute shape order) (inverseOrder order) = shape := by
  sorry

/-- the fill-value mapping of `transpose` agrees with encoding: an all-fill chunk encodes to an all-fill chunk -/
theorem transpose_fill {α} [Inhabited α] (order : List Nat) (shape : Shape) (f : α)
    (ho : validOrder order shape.length = true) :
    transposeEnc order shape (List.replicate (prod shape) f) = List.replicate (prod (permute shape order)) f := by
  sorry

theorem crc32c_lawful : crc32cCodec.Lawful := by
  sorry
theorem fletcher32_lawful : fletcher32Codec.Lawful := by
  sorry
theorem shuffle_lawful (es : Nat) : (shuffleCodec es).Lawful := by
  sorry

/-- **chain composition**: any chain of lawful bytes-to-bytes codecs inverts and honours the composed size -/
theorem chain_dec_enc (cs : List B2B) (hl : ∀ c ∈ cs, c.Lawful) (b e : Bytes) (h : chainEnc cs b = some e) :
    chainDec cs e = some b := by
  sorry

theorem chain_size (cs : List B2B) (hl : ∀ c ∈ cs, c.Lawful)
    (hmono : ∀ c ∈ cs, ∀ m n, m ≤ n → (c.size m).1 ≤ (c.size n).1)
    (b e : Bytes) (h : chainEnc cs b = some e) :
    e.length ≤ (chainSize cs b.length).1 ∧ ((chainSize cs b.length).2 = true → e.length = (chainSize cs b.length).1) := by
  sorry

/-- **sharding**: decoding an encoded shard returns every inner chunk, for either index location, either index
byte order, with or without the index checksum; the shard's length is the sum of the stored chunks plus the index -/
theorem shard_dec_enc (c : Shard.Cfg) (chunks : List (Option Bytes)) (hn : chunks.length = c.nChunks)
    (hb : ∀ ch ∈ chunks, ∀ b, ch = some b → wfBytes b)
    (hsmall : (chunks.filterMap id).flatten.length + Shard.indexSize c < Shard.sentinel) :
    Shard.decode c true (Shard.encode c chunks) = .ok chunks ∧
    (Shard.encode c chunks).length = ((chunks.filterMap id).map List.length).sum + Shard.indexSize c := by
  sorry

/-- the bound `encode_bounded` pre-allocates from: `n * maxChunk + indexSize` -/
theorem shard_size_bound (c : Shard.Cfg) (chunks : List (Option Bytes)) (hn : chunks.length = c.nChunks) (m : Nat)
    (hm : ∀ ch ∈ chunks, ∀ b, ch = some b → b.length ≤ m) :
    (Shard.encode c chunks).length ≤ c.nChunks * m + Shard.indexSize c := by
  sorry

/-- what zarrs writes is a legal shard of the format -/
theorem shard_encode_legal (c : Shard.Cfg) (chunks : List (Option Bytes)) (hn : chunks.length = c.nChunks)
    (hb : ∀ ch ∈ chunks, ∀ b, ch = some b → wfBytes b)
    (hsmall : (chunks.filterMap id).flatten.length + Shard.indexSize c < Shard.sentinel) :
    Shard.Legal c (Shard.encode c chunks) chunks ∧ Shard.wellFormed c (Shard.encode c chunks) = true := by
  sorry

end Zarrs.C03
