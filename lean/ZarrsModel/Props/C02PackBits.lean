import ZarrsModel.Model.PackBitsPD
import ZarrsModel.Lemmas.PackBitsPDFast
import ZarrsModel.Props.C02
import ZarrsModel.Props.C03PackBits
/-
C02, continued: the `packbits` partial decoder
(zarrs/src/array/codec/array_to_bytes/packbits/packbits_partial_decoder.rs `partial_decode`, shared by the synchronous
and the asynchronous decoder; packbits_codec.rs `partial_decoder` / `async_partial_decoder`).

A data type is `nc` components of `c.w` bits decoded into `c.cb` bytes each; an element is `nc * c.cb` bytes; a chunk of
shape `sh` has `prod sh * nc` components.  `PackBits.decode c (prod sh * nc) v` is the full decode of the model
(`Model/PackBits.lean`); `groups (nc * c.cb) d` are the elements of the decoded bytes `d`.
-/
set_option Elab.async false
namespace Zarrs.C02
open Zarrs Zarrs.Codec Zarrs.Partial Zarrs.PackBits Zarrs.PackBitsPD

/-- **the stage lemma**: over a handle serving the stored value `v`, the partial decoder the codec selects (the `bytes`
decoder on the fast path, `PackBitsPartialDecoder` otherwise) answers every in-bounds list of regions — any rank, any
number of regions, single- and multi-component types, every component width, bit range, padding mode, with or without
sign extension — with exactly the regions of the full decode of `v` -/
theorem packbitsPD_serves (c : PackBits.Cfg) (nc : Nat) (sh : Shape) (fill : Elem) (h : BHandle) (v d : Bytes)
    (hw : 0 < c.w) (hfl : c.first ≤ c.last) (hl : c.last < c.w) (hnc : 0 < nc)
    (hdec : PackBits.decode c (prod sh * nc) v = some d) (hh : BHandleOk h v) :
    AHandleOk (PackBitsPD.partialDecoder c nc sh fill h) sh (groups (nc * c.cb) d) :=
  partialDecoder_ok c hw hfl hl nc hnc sh fill h v d hdec hh

/-- the same for `PackBitsPartialDecoder` itself (whenever the fast path is not taken) -/
theorem packbitsPD_serves_slow (c : PackBits.Cfg) (nc : Nat) (sh : Shape) (fill : Elem) (h : BHandle) (v d : Bytes)
    (hfl : c.first ≤ c.last) (hl : c.last < c.w) (hnc : 0 < nc) (hf : PackBits.fast c = false)
    (hdec : PackBits.decode c (prod sh * nc) v = some d) (hh : BHandleOk h v) :
    AHandleOk (packbitsPD c nc sh fill h) sh (groups (nc * c.cb) d) :=
  packbitsPD_ok c hfl hl nc hnc sh fill h v d hf hdec hh

/-- complex64-like: two 32-bit components, bits 4..=11, padding count in the first byte; a 2×3 chunk -/
private def pbCfg : PackBits.Cfg := ⟨32, 4, 11, .firstByte, false⟩
private def pbChunk : List Elem :=
  (List.range 6).map (fun i => toLE 4 ((i * 37 + 5) % 256 * 16) ++ toLE 4 ((i * 91 + 3) % 256 * 16))
private def pbRegions : List Subset := [⟨[0, 1], [2, 2]⟩, ⟨[1, 0], [1, 3]⟩, ⟨[0, 0], [2, 1]⟩, ⟨[1, 1], [0, 1]⟩]
private def pbEnc : Bytes := PackBits.encode pbCfg pbChunk.flatten

example : 0 < pbCfg.w ∧ pbCfg.first ≤ pbCfg.last ∧ pbCfg.last < pbCfg.w ∧ 0 < 2 ∧ PackBits.fast pbCfg = false ∧
    PackBits.decode pbCfg (prod [2, 3] * 2) pbEnc = some pbChunk.flatten ∧
    BHandleOk (storeHandle (some pbEnc)) pbEnc :=
  ⟨by decide, by decide, by decide, by decide, by decide, by decide +kernel, (storeHandle_ok _).1⟩
/-- the conclusion evaluated: the answer of the partial decoder is the list of regions of the chunk -/
example : PackBitsPD.partialDecoder pbCfg 2 [2, 3] [0, 0, 0, 0, 0, 0, 0, 0] (storeHandle (some pbEnc)) pbRegions =
    some (pbRegions.map (fun r => r.extract [2, 3] (groups 8 pbChunk.flatten))) := by decide +kernel
example : pbRegions.map (fun r => r.extract [2, 3] (groups 8 pbChunk.flatten)) =
    [[[160, 2, 0, 0, 224, 5, 0, 0], [240, 4, 0, 0, 144, 11, 0, 0], [144, 9, 0, 0, 240, 6, 0, 0], [224, 11, 0, 0, 160, 12, 0, 0]],
     [[64, 7, 0, 0, 64, 1, 0, 0], [144, 9, 0, 0, 240, 6, 0, 0], [224, 11, 0, 0, 160, 12, 0, 0]],
     [[80, 0, 0, 0, 48, 0, 0, 0], [64, 7, 0, 0, 64, 1, 0, 0]], []] := by decide +kernel

/-- an absent value reads as fill (`ArrayBytes::new_fill_value`), whichever decoder is selected -/
theorem packbitsPD_absent (c : PackBits.Cfg) (nc : Nat) (sh : Shape) (fill : Elem) (h : BHandle) (hh : BHandleAbsent h) :
    AHandleOk (PackBitsPD.partialDecoder c nc sh fill h) sh (List.replicate (prod sh) fill) :=
  partialDecoder_absent c nc sh fill h hh

example : BHandleAbsent (storeHandle none) := (storeHandle_ok []).2
example : PackBitsPD.partialDecoder pbCfg 2 [2, 3] [1, 0, 0, 0, 2, 0, 0, 0] (storeHandle none) pbRegions =
    some (pbRegions.map (fun r => r.extract [2, 3] (List.replicate 6 [1, 0, 0, 0, 2, 0, 0, 0]))) := by decide +kernel

/-- **every byte range `PackBitsPartialDecoder` requests lies inside a value of the declared encoded size**, so a
store holding a well-formed value answers every request (no `InvalidByteRangeError`) -/
theorem packbitsPD_requests_in_bounds (c : PackBits.Cfg) (nc : Nat) (sh : Shape) (v : Bytes) (r : Subset)
    (hf : PackBits.fast c = false) (hv : v.length = PackBits.encodedSize c (prod sh * nc))
    (hr : r.wf = true) (hb : r.inboundsShape sh = true) :
    (∀ q ∈ requests c nc sh r, q.valid v.length = true) ∧
    storeHandle (some v) (requests c nc sh r) = some (some ((requests c nc sh r).map (·.extract v))) := by
  have hval : ∀ q ∈ requests c nc sh r, q.valid v.length = true := by
    apply requests_valid c nc sh r hr hb v.length ((prod sh * nc * c.n + 7) / 8) rfl
    rw [hv]
    unfold PackBits.encodedSize PackBitsPD.offset
    simp only [hf, Bool.false_eq_true, if_false]
    cases c.pad <;> simp <;> omega
  exact ⟨hval, storeHandle_some_ok v _ hval⟩

example : PackBits.fast pbCfg = false ∧ pbEnc.length = PackBits.encodedSize pbCfg (prod [2, 3] * 2) ∧
    (⟨[0, 1], [2, 2]⟩ : Subset).wf = true ∧ (⟨[0, 1], [2, 2]⟩ : Subset).inboundsShape [2, 3] = true :=
  ⟨by decide, by decide +kernel, by decide, by decide⟩
/-- bits 16..48 and 64..96 of the packed elements behind the padding byte -/
example : requests pbCfg 2 [2, 3] ⟨[0, 1], [2, 2]⟩ = [.fromStart 3 (some 4), .fromStart 9 (some 4)] := by decide
/-- a bit range that does not start on a byte boundary: uint16 bits 3..=9 (7 bits per element) -/
example : requests ⟨16, 3, 9, .none, false⟩ 1 [2, 3] ⟨[0, 1], [2, 2]⟩ = [.fromStart 0 (some 3), .fromStart 3 (some 3)] := by
  decide

/-- **the fast-path condition is sound**: where `component_size_bits % 8 == 0 && first_bit == 0 && last_bit ==
component_size_bits - 1` holds, the packbits bit packing of the data (`encBody`: every component's bits `first..=last`
back to back) IS the data, i.e. its little-endian `bytes` encoding, which is also what `encode` stores — so the `bytes`
partial decoder (little-endian) reads the same stream; `packbitsPD_serves` is the resulting correctness statement -/
theorem packbitsPD_fastpath_sound (c : PackBits.Cfg) (data : Bytes) (hw : 0 < c.w) (hb : C03.wfBytes data)
    (hlen : data.length % c.cb = 0) (hf : PackBits.fast c = true) :
    PackBits.encBody c data = bytesEnc false c.cb data ∧ PackBits.encode c data = bytesEnc false c.cb data := by
  refine ⟨?_, ?_⟩
  · rw [encBody_fast c hw data hb hlen hf]
    simp [bytesEnc]
  · unfold PackBits.encode
    simp [hf, bytesEnc]

example : 0 < (⟨16, 0, 15, .lastByte, true⟩ : PackBits.Cfg).w ∧ C03.wfBytes [0x34, 0x12, 0xff, 0x80, 0x00, 0x01] ∧
    ([0x34, 0x12, 0xff, 0x80, 0x00, 0x01] : Bytes).length % (⟨16, 0, 15, .lastByte, true⟩ : PackBits.Cfg).cb = 0 ∧
    PackBits.fast ⟨16, 0, 15, .lastByte, true⟩ = true := ⟨by decide, by unfold C03.wfBytes; decide, by decide, by decide⟩
example : PackBits.encBody ⟨16, 0, 15, .lastByte, true⟩ [0x34, 0x12, 0xff, 0x80, 0x00, 0x01] =
    [0x34, 0x12, 0xff, 0x80, 0x00, 0x01] := by decide +kernel

/-- **the seeded selection is refuted**: without `first_bit == 0` (the seeded `async_partial_decoder`) a uint8 array
with bits 4..=7 selects the `bytes` partial decoder although its encoding is not the `bytes` encoding: four elements are
stored in two bytes; a region inside the first row reads packed bytes as elements, a region in the second row asks
for bytes outside the value -/
theorem packbitsPD_fastpath_seeded_refuted :
    let c : PackBits.Cfg := ⟨8, 4, 7, .none, false⟩
    let data : Bytes := [0x10, 0xf0, 0x30, 0xa0]
    let stored := storeHandle (some (PackBits.encode c data))
    fastSeeded c = true ∧ PackBits.fast c = false ∧
    PackBits.encode c data = [0xf1, 0xa3] ∧ PackBits.encode c data ≠ bytesEnc false c.cb data ∧
    partialDecoderSel fastSeeded c 1 [2, 2] [0] stored [⟨[0, 0], [1, 2]⟩] = some [[[0xf1], [0xa3]]] ∧
    decodeSlice c 1 [2, 2] (PackBits.encode c data) [⟨[0, 0], [1, 2]⟩] = some [[[0x10], [0xf0]]] ∧
    PackBitsPD.partialDecoder c 1 [2, 2] [0] stored [⟨[0, 0], [1, 2]⟩] = some [[[0x10], [0xf0]]] ∧
    partialDecoderSel fastSeeded c 1 [2, 2] [0] stored [⟨[1, 0], [1, 2]⟩] = none ∧
    PackBitsPD.partialDecoder c 1 [2, 2] [0] stored [⟨[1, 0], [1, 2]⟩] = some [[[0x30], [0xa0]]] := by
  decide +kernel

/-- **the seeded accumulator is refuted**: with `component_idx_outer += num_elements` (without `* num_components`) a
region of two runs of a two-component type writes the second run over the second component of the first; the decoder
as written agrees with full decode + slice -/
theorem packbitsPD_accumulator_seeded_refuted :
    let stored := storeHandle (some pbEnc)
    let region : Subset := ⟨[0, 0], [2, 1]⟩          -- a column: two runs of one element
    packbitsPDWith 1 pbCfg 2 [2, 3] [0, 0, 0, 0, 0, 0, 0, 0] stored [region] =
      some [[[80, 0, 0, 0, 112, 7, 0, 0], [64, 1, 0, 0, 0, 0, 0, 0]]] ∧
    decodeSlice pbCfg 2 [2, 3] pbEnc [region] = some [[[80, 0, 0, 0, 48, 0, 0, 0], [64, 7, 0, 0, 64, 1, 0, 0]]] ∧
    packbitsPD pbCfg 2 [2, 3] [0, 0, 0, 0, 0, 0, 0, 0] stored [region] = decodeSlice pbCfg 2 [2, 3] pbEnc [region] := by
  decide +kernel

/-! ### chains `array-to-array* ; packbits ; bytes-to-bytes*` -/

/-- **C02 for packbits chains**: for every chain of any number of transposes / squeezes / array caches, the `packbits`
codec (any configuration of `PackBits.Cfg`, any number of components), any number of checksum codecs, invertible
compressors and bytes caches, and every chunk whose components lie inside the configured bit range (the data the codec
is lossless on, `PackBits.inRange`), the chain's partial decoder on the stored encoding answers every in-bounds list
of regions with exactly the regions of the chunk -/
theorem chainP_partial_eq_full_slice (c : ChainP) (sh : Shape) (fill : Elem) (xs : List Elem)
    (hw : 0 < c.cfg.w) (hbits : c.cfg.first ≤ c.cfg.last ∧ c.cfg.last < c.cfg.w) (hnc : 0 < c.nc)
    (hx : chunkOk (c.nc * c.cfg.cb) sh xs) (hwf : ∀ x ∈ xs, C03.wfBytes x)
    (hr : ∀ x ∈ xs, ∀ v ∈ PackBits.comps c.cfg x, PackBits.inRange c.cfg v = true)
    (ha : aStagesOk c.a2a sh) (hb : ∀ st ∈ c.b2b, bStageOk st) :
    AHandleOk (c.partialDecoder sh fill (storeHandle (some (c.encode sh xs)))) sh xs :=
  chainP_ok_inrange c sh fill xs hw hbits.1 hbits.2 hnc hx.1 hx.2 hwf hr (aStagesOk_aOk c.a2a sh ha)
    (fun st hst b g hg => bStage_ok st (hb st hst) b g hg)

/-- the general form (also for data outside the bit range, where the codec is lossy): the chain serves every chunk
`ys` whose array-to-array encoding is the full decode of the stored packbits value -/
theorem chainP_partial_eq_full_slice_lossy (c : ChainP) (sh : Shape) (fill : Elem) (xs ys : List Elem)
    (hw : 0 < c.cfg.w) (hbits : c.cfg.first ≤ c.cfg.last ∧ c.cfg.last < c.cfg.w) (hnc : 0 < c.nc)
    (hy : chunkOk (c.nc * c.cfg.cb) sh ys) (ha : aStagesOk c.a2a sh) (hb : ∀ st ∈ c.b2b, bStageOk st)
    (hdec : PackBits.decode c.cfg (prod (shapesOf c.a2a sh) * c.nc)
        (PackBits.encode c.cfg (aEnc c.a2a sh xs).flatten) = some (aEnc c.a2a sh ys).flatten) :
    AHandleOk (c.partialDecoder sh fill (storeHandle (some (c.encode sh xs)))) sh ys :=
  chainP_ok c sh fill xs ys hw hbits.1 hbits.2 hnc hy.1 hy.2 (aStagesOk_aOk c.a2a sh ha) hdec
    (fun st hst b g hg => bStage_ok st (hb st hst) b g hg)

theorem chainP_partial_absent (c : ChainP) (sh : Shape) (fill : Elem) (ha : aStagesOk c.a2a sh) :
    AHandleOk (c.partialDecoder sh fill (storeHandle none)) sh (List.replicate (prod sh) fill) :=
  chainP_absent c sh fill (aStagesOk_aOk c.a2a sh ha)

/-- transpose, array cache; packbits on two-component elements (bits 4..=11, padding count in the last byte); crc32c,
a bytes cache, a decode-all "compressor" -/
private def exChainP : ChainP :=
  { a2a := [.transpose [1, 0], .cache], cfg := ⟨32, 4, 11, .lastByte, false⟩, nc := 2,
    b2b := [.stripSuffix 4 crc32c, .cache, .decodeAll (fun b => b ++ [9, 9]) (fun b => some (b.take (b.length - 2)))] }

private theorem exChainP_b : ∀ st ∈ exChainP.b2b, bStageOk st := by
  intro st hst
  simp only [exChainP, List.mem_cons, List.not_mem_nil, or_false] at hst
  rcases hst with rfl | rfl | rfl
  · rfl
  · trivial
  · intro b
    simp [List.take_left']

example : 0 < exChainP.cfg.w ∧ (exChainP.cfg.first ≤ exChainP.cfg.last ∧ exChainP.cfg.last < exChainP.cfg.w) ∧
    0 < exChainP.nc ∧ chunkOk (exChainP.nc * exChainP.cfg.cb) [2, 3] pbChunk ∧ (∀ x ∈ pbChunk, C03.wfBytes x) ∧
    (∀ x ∈ pbChunk, ∀ v ∈ PackBits.comps exChainP.cfg x, PackBits.inRange exChainP.cfg v = true) ∧
    aStagesOk exChainP.a2a [2, 3] ∧ ∀ st ∈ exChainP.b2b, bStageOk st :=
  ⟨by decide, by decide, by decide, ⟨by decide, by decide +kernel⟩, by unfold C03.wfBytes; decide +kernel, by decide +kernel,
    ⟨by decide, trivial, trivial⟩, exChainP_b⟩
example : exChainP.partialDecoder [2, 3] [0, 0, 0, 0, 0, 0, 0, 0] (storeHandle (some (exChainP.encode [2, 3] pbChunk))) pbRegions =
    some (pbRegions.map (fun r => r.extract [2, 3] pbChunk)) := by decide +kernel
example : aStagesOk exChainP.a2a [2, 3] := ⟨by decide, trivial, trivial⟩
example : exChainP.partialDecoder [2, 3] [1, 0, 0, 0, 2, 0, 0, 0] (storeHandle none) pbRegions =
    some (pbRegions.map (fun r => r.extract [2, 3] (List.replicate (prod [2, 3]) [1, 0, 0, 0, 2, 0, 0, 0]))) := by
  decide +kernel

end Zarrs.C02
