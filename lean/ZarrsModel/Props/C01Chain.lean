import ZarrsModel.Lemmas.ChainSArr
import ZarrsModel.Props.C03Chain
set_option Elab.async false
set_option maxRecDepth 8000
/-
C01 / C04 with the codec hypothesis discharged for the chains `ChainS` (`bytes` or `sharding_indexed` nested to any
depth, with array-to-array stages before and bytes-to-bytes stages after).

`ArrCfg.Lossless` (`∀ x, dec (enc x) = some x`) is FALSE of a byte-level codec: `CodecChain::decode` validates the
number and the size of the elements, so a list of the wrong length or with an element of the wrong size is never
returned.  What holds is `LosslessOn goodChunk` (`lossless_of_chainS`).  C01 is therefore re-stated for configurations
that are lossless on well-formed chunks (`read_after_history_on`, `key_present_iff_on`: histories whose written
elements are well-formed) and proved from the existing `C01.read_after_history` by simulation (Lemmas/ArrayOn.lean: a
shadow configuration that is lossless outright runs in lock step).  `read_after_history_chainS` is the instance for
`ChainS`: no codec hypothesis is left except the well-formedness of the chain itself (`chainSOk`: e.g. a stage standing
for an external compressor must invert).

The array model has ONE chunk codec `enc/dec` without a shape argument, so the byte-level instance is for grids all
of whose chunks have the shape `sh` the chain is applied to — the regular grids (`read_after_history_chainS_regular`);
edge chunks of a regular grid are full-size chunks in zarrs.
-/
namespace Zarrs.C01Chain
open Zarrs Zarrs.Codec Zarrs.Partial Zarrs.C02 Zarrs.C02S ArrCfg

section generic
variable {α : Type} [DecidableEq α]

/-- the standing assumptions of `C01.Ok` with `Lossless` weakened to well-formed chunks: `P` = well-formed chunk,
`Pe` = well-formed element; `P` holds of every list of well-formed elements that has the length of a chunk, the decoder
only returns well-formed elements, the fill value is well-formed; lists of elements can be serialised (a proof device
only: any injection of `List α` into byte strings) -/
structure OkOn (P : List α → Bool) (Pe : α → Bool) (cfg : ArrCfg α) (G : Shape) : Prop where
  losslessOn : cfg.LosslessOn P
  ofElems : ∀ c s x, cfg.chunkShape c = some s → x.length = prod s → (∀ e ∈ x, Pe e = true) → P x = true
  decGood : ∀ b xs, cfg.dec b = some xs → ∀ e ∈ xs, Pe e = true
  fillGood : Pe cfg.fill = true
  serial : ∃ (ser : List α → Bytes) (unser : Bytes → Option (List α)), ∀ x, unser (ser x) = some x
  keysInj : cfg.KeysInjective
  gridNew : ∃ gcfg, cfg.grid = Grid.new gcfg
  gridWf : cfg.grid.wf = true
  gridShape : cfg.grid.gridShape cfg.shape = some G
  rank : cfg.shape.length = cfg.grid.length

private theorem transfer (P : List α → Bool) (Pe : α → Bool) (cfg : ArrCfg α) (G : Shape) (hok : OkOn P Pe cfg G)
    (ops : List (WriteOp α)) (hops : ∀ op ∈ ops, C01.opInBounds cfg G op)
    (hdata : ∀ op ∈ ops, ∀ e ∈ opData op, Pe e = true) :
    ∃ ser unser, C01.Ok (cfg.shadow P ser unser) G ∧ (∀ op ∈ ops, C01.opInBounds (cfg.shadow P ser unser) G op) ∧
      ∀ stL, (cfg.shadow P ser unser).run [] ops = some stL → ∃ st, cfg.run [] ops = some st ∧ stL = tag st := by
  obtain ⟨ser, unser, hser⟩ := hok.serial
  refine ⟨ser, unser, ⟨shadow_lossless hok.losslessOn hser, hok.keysInj, hok.gridNew, hok.gridWf, hok.gridShape,
    hok.rank⟩, ?_, ?_⟩
  · intro op hop
    have := hops op hop
    cases op <;> exact this
  · intro stL hrun
    have := shadow_run (ser := ser) (unser := unser) ⟨hok.ofElems, hok.decGood, hok.fillGood⟩ ops hdata []
    rw [tag_nil, hrun] at this
    cases h : cfg.run [] ops with
    | none => rw [h] at this; cases this
    | some st =>
      rw [h] at this
      exact ⟨st, rfl, Option.some.inj this⟩

/-- **C01 for configurations lossless on well-formed chunks.**  After any in-bounds history of writes of well-formed
elements, starting from the empty store, every read route returns the abstract array (conclusion of
`C01.read_after_history`, verbatim). -/
theorem read_after_history_on (P : List α → Bool) (Pe : α → Bool) (cfg : ArrCfg α) (G : Shape) (hok : OkOn P Pe cfg G)
    (ops : List (WriteOp α)) (hops : ∀ op ∈ ops, C01.opInBounds cfg G op)
    (hdata : ∀ op ∈ ops, ∀ e ∈ opData op, Pe e = true) :
    ∃ st, cfg.run [] ops = some st ∧
      (∀ r : Subset, r.wf = true → r.inboundsShape cfg.shape = true →
        cfg.retrieveArraySubset st r = some (AArr.read (cfg.absRun ops) r)) ∧
      (∀ c, inB c G = true → ∃ cs, cfg.chunkSubset c = some cs ∧
        cfg.retrieveChunk st c = some (AArr.read (cfg.absRun ops) cs)) ∧
      (∀ c r, inB c G = true → r.wf = true →
        (∃ s, cfg.chunkShape c = some s ∧ r.inboundsShape s = true) →
        ∃ cs, cfg.chunkSubset c = some cs ∧
          cfg.retrieveChunkSubset st c r = some (AArr.read (cfg.absRun ops) ⟨addIdx r.start cs.start, r.shape⟩)) ∧
      (∀ b : Subset, b.wf = true → b.inboundsShape G = true →
        ∃ region, cfg.grid.chunksSubset b = some region ∧
          cfg.retrieveChunks st b = some (AArr.read (cfg.absRun ops) region)) := by
  obtain ⟨ser, unser, hokL, hopsL, hst⟩ := transfer P Pe cfg G hok ops hops hdata
  obtain ⟨stL, hrun, h1, h2, h3, h4⟩ := C01.read_after_history _ G hokL ops hopsL
  obtain ⟨st, hrun', rfl⟩ := hst stL hrun
  simp only [shadow_retrieveArraySubset, shadow_retrieveChunk, shadow_retrieveChunkSubset, shadow_retrieveChunks,
    shadow_absRun, shadow_shape, shadow_chunkSubset, shadow_chunkShape, shadow_grid] at h1 h2 h3 h4
  exact ⟨st, hrun', h1, h2, h3, h4⟩

/-- non-vacuity: the example of `C01` (identity codec on `Nat`, every list well-formed); the byte-level instance, which
is NOT `Lossless`, follows below (`okOn_chainS`) -/
example : ∃ (cfg : ArrCfg Nat) (G : Shape) (ops : List (WriteOp Nat)),
    OkOn (fun _ => true) (fun _ => true) cfg G ∧ (∀ op ∈ ops, C01.opInBounds cfg G op) ∧
    (∀ op ∈ ops, ∀ e ∈ opData op, (fun _ => true) e = true) ∧ ops.length = 6 :=
  ⟨C01.exCfg, [3, 3], C01.exOps,
    ⟨fun _ _ => rfl, fun _ _ _ _ _ _ => rfl, fun _ _ _ _ _ => rfl, rfl, ⟨id, some, fun _ => rfl⟩, C01.exKey_inj,
      ⟨_, rfl⟩, by decide, by decide, rfl⟩,
    C01.exOps_inBounds, fun _ _ _ _ => rfl, rfl⟩

/-- **C04 (elision on) for configurations lossless on well-formed chunks**: a chunk key is present exactly when the
chunk holds a non-fill element -/
theorem key_present_iff_on (P : List α → Bool) (Pe : α → Bool) (cfg : ArrCfg α) (G : Shape) (hok : OkOn P Pe cfg G)
    (helide : cfg.storeEmpty = false)
    (ops : List (WriteOp α)) (hops : ∀ op ∈ ops, C01.opInBounds cfg G op)
    (hdata : ∀ op ∈ ops, ∀ e ∈ opData op, Pe e = true) :
    ∃ st, cfg.run [] ops = some st ∧
      ∀ c, inB c G = true → ∃ cs, cfg.chunkSubset c = some cs ∧
        (cfg.keyOf c ∈ st.keys ↔ ∃ i, cs.contains i = true ∧ cfg.absRun ops i ≠ cfg.fill) := by
  obtain ⟨ser, unser, hokL, hopsL, hst⟩ := transfer P Pe cfg G hok ops hops hdata
  obtain ⟨stL, hrun, h1⟩ := C01.key_present_iff _ G hokL helide ops hopsL
  obtain ⟨st, hrun', rfl⟩ := hst stL hrun
  simp only [shadow_absRun, shadow_chunkSubset, shadow_keyOf, shadow_fill, tag_keys] at h1
  exact ⟨st, hrun', h1⟩

end generic

/-! ### the byte-level instance -/

/-- `BEq` on elements as in `C01` (from `DecidableEq`; it agrees with the list `==`) -/
local instance (priority := high) instBEqElem : BEq Elem := instBEqOfDecidableEq

/-- the array configuration whose chunk codec is the chain `c` applied to chunks of shape `sh` with fill value `fill`:
elements are byte strings, `enc` = `CodecChain::encode`, `dec` = `CodecChain::decode` -/
def arrCfgOfChainS (c : ChainS) (sh : Shape) (fill : Elem) (shape : Shape) (grid : Grid) (keyOf : Idx → Key)
    (storeEmpty : Bool) : ArrCfg Elem :=
  { shape := shape, grid := grid, fill := fill, keyOf := keyOf, enc := c.encode sh fill, dec := c.decode sh fill,
    storeEmpty := storeEmpty }

/-- a chunk of shape `sh` of `es`-byte elements (`chunkOk` as a Boolean) -/
def goodChunk (es : Nat) (sh : Shape) (xs : List Elem) : Bool := xs.length == prod sh && xs.all (·.length == es)

theorem goodChunk_iff (es : Nat) (sh : Shape) (xs : List Elem) : goodChunk es sh xs = true ↔ chunkOk es sh xs := by
  simp [goodChunk, chunkOk, List.all_eq_true]

/-- `Lossless` as stated fails for every chain: e.g. the empty list is not a chunk of a non-empty shape, and the decoder
never returns it -/
theorem not_lossless (c : ChainS) (sh : Shape) (fill : Elem) (shape : Shape) (grid : Grid) (keyOf : Idx → Key)
    (storeEmpty : Bool) (hsh : prod sh ≠ 0) : ¬ (arrCfgOfChainS c sh fill shape grid keyOf storeEmpty).Lossless := by
  intro h
  have := (C03Chain.chainS_decode_valid c sh fill _ _ (h [])).1
  exact hsh this.symm

/-- **the chain is lossless on well-formed chunks** (`C03Chain.chainS_dec_enc`); `hfits`: every encoded shard of a
well-formed chunk is shorter than 2^64 - 1 bytes (`fits_of_bounds` derives it from the declared sizes) -/
theorem lossless_of_chainS (c : ChainS) (sh : Shape) (fill : Elem) (shape : Shape) (grid : Grid) (keyOf : Idx → Key)
    (storeEmpty : Bool) (hok : chainSOk c sh fill) (hfits : ∀ xs, chunkOk c.es sh xs → c.fits sh fill xs) :
    (arrCfgOfChainS c sh fill shape grid keyOf storeEmpty).LosslessOn (goodChunk c.es sh) := by
  intro x hx
  rw [goodChunk_iff] at hx
  exact C03Chain.chainS_dec_enc c sh fill x hok hx (hfits x hx)

/-- `fits` holds of every well-formed chunk when, at every sharding level, the inner chain declares a bound and the
declared shard size is below 2^64 - 1 (`ChainS.small`) -/
theorem fits_of_bounds (c : ChainS) (sh : Shape) (fill : Elem) (hok : chainSOk c sh fill) (hsmall : c.small sh)
    (xs : List Elem) (hx : chunkOk c.es sh xs) : c.fits sh fill xs :=
  fits_of_small c sh fill xs
    (ChainS.okWith_mono (fun l s hl => aStagesOk_aOk l s hl) (fun _ h => h) c sh fill hok) hx.1 hx.2 hsmall

private theorem okOn_chainS (c : ChainS) (sh : Shape) (fill : Elem) (shape : Shape) (grid : Grid) (keyOf : Idx → Key)
    (storeEmpty : Bool) (G : Shape)
    (hok : chainSOk c sh fill) (hfits : ∀ xs, chunkOk c.es sh xs → c.fits sh fill xs) (hfill : fill.length = c.es)
    (hreg : ∀ i s, (arrCfgOfChainS c sh fill shape grid keyOf storeEmpty).chunkShape i = some s → s = sh)
    (hkeys : ∀ a b, keyOf a = keyOf b → a = b) (hgn : ∃ gcfg, grid = Grid.new gcfg) (hgw : grid.wf = true)
    (hgs : grid.gridShape shape = some G) (hrank : shape.length = grid.length) :
    OkOn (goodChunk c.es sh) (fun e => e.length == c.es) (arrCfgOfChainS c sh fill shape grid keyOf storeEmpty) G where
  losslessOn := lossless_of_chainS c sh fill shape grid keyOf storeEmpty hok hfits
  ofElems := by
    intro i s x hs hl he
    rw [hreg i s hs] at hl
    rw [goodChunk_iff]
    exact ⟨hl, fun e hm => by simpa using he e hm⟩
  decGood := by
    intro b xs hd e he
    have := (C03Chain.chainS_decode_valid c sh fill b xs hd).2 e he
    simpa using this
  fillGood := by simpa [arrCfgOfChainS] using hfill
  serial := ⟨serElems, unserElems, unser_ser⟩
  keysInj := hkeys
  gridNew := hgn
  gridWf := hgw
  gridShape := hgs
  rank := hrank

/-! ### the running example: a 6×8 array of 2-byte elements over the regular 4×4 grid (2×2 chunks, the second row of
chunks overhangs the array), every chunk encoded by the two-level nested sharding chain of `C03Chain` (transpose;
sharding 2×2 [index at the start, big-endian] of sharding 1×2 [index at the end, crc32c] of transpose + big-endian
`bytes` + crc32c; crc32c), unary chunk keys, elision on -/

private def exFill : Elem := [7, 7]
private def exLeaf : Chain := { a2a := [.transpose [1, 0]], big := true, es := 2, unit := 2, b2b := [.stripSuffix 4 crc32c] }
private def exInnerS : ChainS := .shard [] ⟨0, true, false, true⟩ [1, 2] 2 (.leaf exLeaf []) []
private def exNested : ChainS :=
  .shard [.transpose [1, 0]] ⟨0, false, true, false⟩ [2, 2] 2 exInnerS [.stripSuffix 4 crc32c]
private def exArr : ArrCfg Elem :=
  arrCfgOfChainS exNested [4, 4] exFill [6, 8] (Grid.new ([4, 4].map DimCfg.fixed)) C01.exKey false

private theorem exNested_ok : chainSOk exNested [4, 4] exFill := by
  refine ⟨⟨by decide, trivial⟩, by decide, ?_, by decide, rfl, ⟨trivial, by decide, ?_, by decide, rfl,
    ⟨by decide, by decide, by decide, ⟨by decide, trivial⟩, ?_, ⟨trivial, trivial⟩⟩⟩⟩
  · intro st hst
    simp only [List.mem_singleton] at hst
    subst hst; rfl
  · intro st hst
    cases hst
  · intro st hst
    simp only [exLeaf, List.mem_singleton] at hst
    subst hst; rfl

/-- the declared sizes (8, 52, 272 bytes) are far below 2^64 - 1 -/
private theorem exNested_small : exNested.small [4, 4] :=
  ⟨⟨trivial, 8, by decide, by decide⟩, 52, by decide, by decide⟩

/-- a write straddling all four chunks, a whole-chunk write (with all-fill inner chunks), an erase, a partial-chunk
write (read–modify–write through decode and encode), a multi-chunk write -/
private def exOps : List (WriteOp Elem) :=
  [ .storeArraySubset ⟨[2, 3], [3, 3]⟩ ((List.range 9).map (fun i => [i, 50 + i])),
    .storeChunk [1, 0] ((List.range 16).map (fun i => if i < 8 then [7, 7] else [i, 100 + i])),
    .eraseChunk [0, 1],
    .storeChunkSubset [1, 1] ⟨[0, 1], [1, 2]⟩ [[5, 5], [6, 6]],
    .storeChunks ⟨[0, 0], [1, 2]⟩ ((List.range 32).map (fun i => if i % 8 < 2 then [7, 7] else [i, 200 + i])) ]

private theorem exOps_inBounds : ∀ op ∈ exOps, C01.opInBounds exArr [2, 2] op := by
  intro op hop
  simp only [exOps, List.mem_cons, List.not_mem_nil, or_false] at hop
  rcases hop with rfl | rfl | rfl | rfl | rfl
  · exact ⟨by decide, by decide, by decide⟩
  · exact ⟨by decide, [4, 4], by decide, by decide⟩
  · exact (by decide : inB [0, 1] [2, 2] = true)
  · exact ⟨by decide, by decide, ⟨[4, 4], by decide, by decide⟩, by decide⟩
  · exact ⟨by decide, by decide, ⟨[0, 0], [4, 8]⟩, by decide, by decide⟩

/-- non-vacuity: the byte-level configuration of the example satisfies `OkOn` (and is NOT `Lossless`:
`not_lossless`) -/
example : ∃ (cfg : ArrCfg Elem) (G : Shape) (ops : List (WriteOp Elem)),
    OkOn (goodChunk 2 [4, 4]) (fun e => e.length == 2) cfg G ∧ (∀ op ∈ ops, C01.opInBounds cfg G op) ∧
    (∀ op ∈ ops, ∀ e ∈ opData op, (e.length == 2) = true) ∧ ops.length = 5 ∧ ¬ cfg.Lossless :=
  ⟨exArr, [2, 2], exOps,
    okOn_chainS exNested [4, 4] exFill [6, 8] _ C01.exKey false [2, 2] exNested_ok
      (fits_of_bounds exNested [4, 4] exFill exNested_ok exNested_small) rfl
      (fun i s h => arr_regular_chunkShape _ [4, 4] rfl i s h) C01.exKey_inj ⟨_, rfl⟩ (by decide) (by decide) rfl,
    exOps_inBounds, by decide, rfl, not_lossless _ _ _ _ _ _ _ (by decide)⟩

/-- **C01 for every `ChainS` codec.**  The array whose chunks (all of shape `sh`) are encoded by ANY well-formed chain
`c` — `bytes` or `sharding_indexed` nested to any depth, transposes / squeezes before, checksums / invertible
compressors after — with any injective key encoding: after any in-bounds history of writes of `es`-byte elements from
the empty store, every read route (`retrieve_array_subset`, `retrieve_chunk`, `retrieve_chunk_subset`,
`retrieve_chunks`) returns the abstract array's elements.  No `Lossless` hypothesis: it is proved
(`lossless_of_chainS`) where it holds and shown unnecessary elsewhere. -/
theorem read_after_history_chainS (c : ChainS) (sh : Shape) (fill : Elem) (shape : Shape) (grid : Grid)
    (keyOf : Idx → Key) (storeEmpty : Bool) (G : Shape)
    (hok : chainSOk c sh fill) (hfits : ∀ xs, chunkOk c.es sh xs → c.fits sh fill xs) (hfill : fill.length = c.es)
    (hreg : ∀ i s, (arrCfgOfChainS c sh fill shape grid keyOf storeEmpty).chunkShape i = some s → s = sh)
    (hkeys : ∀ a b, keyOf a = keyOf b → a = b) (hgn : ∃ gcfg, grid = Grid.new gcfg) (hgw : grid.wf = true)
    (hgs : grid.gridShape shape = some G) (hrank : shape.length = grid.length)
    (ops : List (WriteOp Elem))
    (hops : ∀ op ∈ ops, C01.opInBounds (arrCfgOfChainS c sh fill shape grid keyOf storeEmpty) G op)
    (hdata : ∀ op ∈ ops, ∀ e ∈ opData op, e.length = c.es) :
    let cfg := arrCfgOfChainS c sh fill shape grid keyOf storeEmpty
    ∃ st, cfg.run [] ops = some st ∧
      (∀ r : Subset, r.wf = true → r.inboundsShape cfg.shape = true →
        cfg.retrieveArraySubset st r = some (AArr.read (cfg.absRun ops) r)) ∧
      (∀ i, inB i G = true → ∃ cs, cfg.chunkSubset i = some cs ∧
        cfg.retrieveChunk st i = some (AArr.read (cfg.absRun ops) cs)) ∧
      (∀ i r, inB i G = true → r.wf = true →
        (∃ s, cfg.chunkShape i = some s ∧ r.inboundsShape s = true) →
        ∃ cs, cfg.chunkSubset i = some cs ∧
          cfg.retrieveChunkSubset st i r = some (AArr.read (cfg.absRun ops) ⟨addIdx r.start cs.start, r.shape⟩)) ∧
      (∀ b : Subset, b.wf = true → b.inboundsShape G = true →
        ∃ region, cfg.grid.chunksSubset b = some region ∧
          cfg.retrieveChunks st b = some (AArr.read (cfg.absRun ops) region)) :=
  read_after_history_on _ _ _ G
    (okOn_chainS c sh fill shape grid keyOf storeEmpty G hok hfits hfill hreg hkeys hgn hgw hgs hrank) ops hops
    (fun op hop e he => by simpa using hdata op hop e he)

/-- … for the regular grid of chunk shape `sh` (any array shape: the last chunks may overhang the array) -/
theorem read_after_history_chainS_regular (c : ChainS) (sh : Shape) (fill : Elem) (shape : Shape)
    (keyOf : Idx → Key) (storeEmpty : Bool) (G : Shape)
    (hok : chainSOk c sh fill) (hfits : ∀ xs, chunkOk c.es sh xs → c.fits sh fill xs) (hfill : fill.length = c.es)
    (hkeys : ∀ a b, keyOf a = keyOf b → a = b) (hgw : (Grid.new (sh.map DimCfg.fixed)).wf = true)
    (hgs : (Grid.new (sh.map DimCfg.fixed)).gridShape shape = some G) (hrank : shape.length = sh.length)
    (ops : List (WriteOp Elem))
    (hops : ∀ op ∈ ops, C01.opInBounds (arrCfgOfChainS c sh fill shape (Grid.new (sh.map DimCfg.fixed)) keyOf storeEmpty) G op)
    (hdata : ∀ op ∈ ops, ∀ e ∈ opData op, e.length = c.es) :
    let cfg := arrCfgOfChainS c sh fill shape (Grid.new (sh.map DimCfg.fixed)) keyOf storeEmpty
    ∃ st, cfg.run [] ops = some st ∧
      (∀ r : Subset, r.wf = true → r.inboundsShape cfg.shape = true →
        cfg.retrieveArraySubset st r = some (AArr.read (cfg.absRun ops) r)) ∧
      (∀ i, inB i G = true → ∃ cs, cfg.chunkSubset i = some cs ∧
        cfg.retrieveChunk st i = some (AArr.read (cfg.absRun ops) cs)) ∧
      (∀ i r, inB i G = true → r.wf = true →
        (∃ s, cfg.chunkShape i = some s ∧ r.inboundsShape s = true) →
        ∃ cs, cfg.chunkSubset i = some cs ∧
          cfg.retrieveChunkSubset st i r = some (AArr.read (cfg.absRun ops) ⟨addIdx r.start cs.start, r.shape⟩)) ∧
      (∀ b : Subset, b.wf = true → b.inboundsShape G = true →
        ∃ region, cfg.grid.chunksSubset b = some region ∧
          cfg.retrieveChunks st b = some (AArr.read (cfg.absRun ops) region)) :=
  read_after_history_chainS c sh fill shape _ keyOf storeEmpty G hok hfits hfill
    (fun i s h => arr_regular_chunkShape _ sh rfl i s h) hkeys ⟨_, rfl⟩ hgw hgs
    (by rw [hrank]; simp [Grid.new]) ops hops hdata

/-- non-vacuity: all hypotheses hold of the example (nested chain, overhanging grid, five kinds of operations) -/
example : chainSOk exNested [4, 4] exFill ∧ (∀ xs, chunkOk exNested.es [4, 4] xs → exNested.fits [4, 4] exFill xs) ∧
    exFill.length = exNested.es ∧ (∀ a b, C01.exKey a = C01.exKey b → a = b) ∧
    (Grid.new ([4, 4].map DimCfg.fixed)).wf = true ∧
    (Grid.new ([4, 4].map DimCfg.fixed)).gridShape [6, 8] = some [2, 2] ∧ [6, 8].length = [4, 4].length ∧
    (∀ op ∈ exOps, C01.opInBounds exArr [2, 2] op) ∧ (∀ op ∈ exOps, ∀ e ∈ opData op, e.length = exNested.es) ∧
    exOps.length = 5 :=
  ⟨exNested_ok, fits_of_bounds exNested [4, 4] exFill exNested_ok exNested_small, rfl, C01.exKey_inj, by decide, by decide,
    rfl, exOps_inBounds, by decide, rfl⟩

/-- the conclusion on the example, by evaluation: every chunk goes through the nested encoder and the full decoder;
reading the whole array back gives the abstract array -/
example : (exArr.run [] exOps).bind (fun st => exArr.retrieveArraySubset st ⟨[0, 0], [6, 8]⟩) =
    some (AArr.read (exArr.absRun exOps) ⟨[0, 0], [6, 8]⟩) := by decide +kernel
/-- all four chunk keys are present after the history -/
example : (exArr.run [] exOps).map (fun st => st.keys.length) = some 4 := by decide +kernel

/-- **C04 (elision on) for every `ChainS` codec**: a chunk key is present exactly when its chunk holds a non-fill
element -/
theorem key_present_iff_chainS (c : ChainS) (sh : Shape) (fill : Elem) (shape : Shape) (grid : Grid)
    (keyOf : Idx → Key) (G : Shape)
    (hok : chainSOk c sh fill) (hfits : ∀ xs, chunkOk c.es sh xs → c.fits sh fill xs) (hfill : fill.length = c.es)
    (hreg : ∀ i s, (arrCfgOfChainS c sh fill shape grid keyOf false).chunkShape i = some s → s = sh)
    (hkeys : ∀ a b, keyOf a = keyOf b → a = b) (hgn : ∃ gcfg, grid = Grid.new gcfg) (hgw : grid.wf = true)
    (hgs : grid.gridShape shape = some G) (hrank : shape.length = grid.length)
    (ops : List (WriteOp Elem))
    (hops : ∀ op ∈ ops, C01.opInBounds (arrCfgOfChainS c sh fill shape grid keyOf false) G op)
    (hdata : ∀ op ∈ ops, ∀ e ∈ opData op, e.length = c.es) :
    let cfg := arrCfgOfChainS c sh fill shape grid keyOf false
    ∃ st, cfg.run [] ops = some st ∧
      ∀ i, inB i G = true → ∃ cs, cfg.chunkSubset i = some cs ∧
        (cfg.keyOf i ∈ st.keys ↔ ∃ j, cs.contains j = true ∧ cfg.absRun ops j ≠ cfg.fill) :=
  key_present_iff_on _ _ _ G
    (okOn_chainS c sh fill shape grid keyOf false G hok hfits hfill hreg hkeys hgn hgw hgs hrank) rfl ops hops
    (fun op hop e he => by simpa using hdata op hop e he)

/-- non-vacuity of `key_present_iff_chainS` (the example configuration has elision on) and its conclusion evaluated at
chunk (0,1) before and after the last operation: erased = absent, rewritten = present -/
example : chainSOk exNested [4, 4] exFill ∧ (∀ xs, chunkOk exNested.es [4, 4] xs → exNested.fits [4, 4] exFill xs) ∧
    (∀ i s, exArr.chunkShape i = some s → s = [4, 4]) ∧ (∀ op ∈ exOps, C01.opInBounds exArr [2, 2] op) :=
  ⟨exNested_ok, fits_of_bounds exNested [4, 4] exFill exNested_ok exNested_small,
    fun i s h => arr_regular_chunkShape _ [4, 4] rfl i s h, exOps_inBounds⟩
example : (exArr.run [] (exOps.take 3)).map (fun st => decide (C01.exKey [0, 1] ∈ st.keys)) = some false ∧
    (exArr.run [] exOps).map (fun st => decide (C01.exKey [0, 1] ∈ st.keys)) = some true := by decide +kernel

/-- non-vacuity of `lossless_of_chainS`, `fits_of_bounds`, `not_lossless`, `goodChunk_iff` on the example chain -/
example : chainSOk exNested [4, 4] exFill ∧ exNested.small [4, 4] ∧ prod [4, 4] ≠ 0 ∧
    goodChunk 2 [4, 4] (List.replicate 16 [1, 2]) = true ∧ goodChunk 2 [4, 4] (List.replicate 16 [1, 2, 3]) = false :=
  ⟨exNested_ok, exNested_small, by decide, by decide, by decide⟩

end Zarrs.C01Chain
