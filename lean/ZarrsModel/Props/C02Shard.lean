import ZarrsModel.Model.ShardPD
import ZarrsModel.Lemmas.ShardPDExtra
import ZarrsModel.Lemmas.ConformShard
import ZarrsModel.Props.C02
set_option Elab.async false
set_option maxRecDepth 8000
/-
C02 for the sharding partial decoder (`ShardingPartialDecoder`, Model/ShardPD.lean): on a handle that serves a legal
shard value the partial decoder answers every list of in-bounds regions with exactly the regions of the decoded
shard (= full decode followed by slicing); an absent shard reads as fill; an inner chunk whose index entry reaches
outside the stored value is an error for inner chains that read the whole inner value; chains whose array-to-bytes
codec is `sharding_indexed` (nested to any depth) satisfy the analogue of `C02.chain_partial_eq_full_slice`.
-/
namespace Zarrs.C02S
open Zarrs Zarrs.Codec Zarrs.Partial Zarrs.C02

/-! ### the running example: a 4×4 shard of 2×2 inner chunks of 2-byte little-endian elements, inner chunk (0,1)
missing, index at the end with crc32c -/

private def exInner : Chain := { a2a := [], big := false, es := 2, unit := 2, b2b := [] }
private def exCfg : Shard.Cfg := ⟨4, true, false, true⟩
private def exFill : Elem := [7, 7]
/-- the 16 elements of the shard; the block rows 0-1 × columns 2-3 is all fill -/
private def exShard : List Elem :=
  (List.range 16).map (fun i => if i % 4 ≥ 2 ∧ i < 8 then [7, 7] else [i, 100 + i])
private def exPieces : List (List Elem) := splitShard [4, 4] [2, 2] exShard
private def exChunks : List (Option Bytes) := shardChunks (exInner.encode [2, 2]) exFill [4, 4] [2, 2] exShard
private def exValue : Bytes := Shard.encode exCfg exChunks
/-- regions straddling inner chunks (the first meets all four), an empty one, the whole shard -/
private def exRegions : List Subset := [⟨[1, 1], [2, 2]⟩, ⟨[0, 1], [4, 2]⟩, ⟨[0, 2], [1, 0]⟩, ⟨[0, 0], [4, 4]⟩]

private theorem exPieces_val : exPieces =
    [[[0, 100], [1, 101], [4, 104], [5, 105]], [[7, 7], [7, 7], [7, 7], [7, 7]],
     [[8, 108], [9, 109], [12, 112], [13, 113]], [[10, 110], [11, 111], [14, 114], [15, 115]]] := by decide
private theorem exChunks_val : exChunks =
    [some [0, 100, 1, 101, 4, 104, 5, 105], none, some [8, 108, 9, 109, 12, 112, 13, 113],
     some [10, 110, 11, 111, 14, 114, 15, 115]] := by decide
example : exValue.length = 24 + 68 := by decide

private def exEncodes (xs : List Elem) (b : Bytes) : Prop := b = exInner.encode [2, 2] xs ∧ chunkOk 2 [2, 2] xs

private theorem exInner_lawful : ∀ g b xs, exEncodes xs b → BHandleOk g b →
    AHandleOk (exInner.partialDecoder [2, 2] exFill g) [2, 2] xs := by
  intro g b xs ⟨hb, hx⟩ hg
  subst hb
  rw [partialDecoder_eq]
  rw [encode_eq] at hg
  exact bytesPD_ok' false 2 2 [2, 2] exFill g xs (by decide) (by decide) (by decide) hx.1 hx.2 hg

/-! ### the sharding partial decoder on a legal shard -/

/-- **the sharding partial decoder is correct on a legal shard.**  `h` serves the value `v`, `v` is a legal shard
holding the encoded inner chunks `chunks` (any layout: any offsets, gaps, order, index at either end, either index
byte order, with or without crc32c), the stored chunks encode the element lists `xss[i]` (relation `encodes`, about
which only the lawfulness of the inner partial decoder is assumed), missing inner chunks stand for all-fill.  Then
every in-bounds region list is answered with the regions of the assembled shard.  Any rank (also 0), any extents:
the shard shape is any positive multiple of the inner chunk shape (`tiles`).  `fixed` is the fixed encoded size the inner
codecs declare (`none`: bounded/unbounded); the size test of the decoder (`validate_inner_chunk_size`) always passes
on a legal shard because every encoding has the declared size (`hfixed`, proved for chains: `chainS_encode_fixed_length`). -/
theorem shardPD_ok (cfg : Shard.Cfg) (validate : Bool) (shard inner : Shape) (es : Nat) (fill : Elem)
    (fixed : Option Nat) (innerPD : Shape → Elem → BHandle → AHandle) (encodes : List Elem → Bytes → Prop)
    (h : BHandle) (v : Bytes) (chunks : List (Option Bytes)) (xss : List (List Elem))
    (ht : tiles inner shard = true) (hn : cfg.nChunks = prod (zipDiv shard inner)) (hfill : fill.length = es)
    (hh : BHandleOk h v) (hlegal : Shard.Legal cfg v chunks) (hxl : xss.length = cfg.nChunks)
    (hx : ∀ i (h1 : i < chunks.length) (h2 : i < xss.length),
      match chunks[i] with
      | some b => encodes xss[i] b ∧ chunkOk es inner xss[i]
      | none => xss[i] = List.replicate (prod inner) fill)
    (hinner : ∀ g b xs, encodes xs b → BHandleOk g b → AHandleOk (innerPD inner fill g) inner xs)
    (hfixed : ∀ n, fixed = some n → ∀ xs b, encodes xs b → b.length = n) :
    AHandleOk (shardPD cfg validate shard inner es fill fixed innerPD h) shard (assemble shard inner xss) :=
  shardPD_ok' cfg validate shard inner es fill fixed innerPD encodes h v chunks xss ht hn hfill hh hlegal hxl hx hinner
    hfixed

/-- the hypotheses of `shardPD_ok` hold of the example -/
example : tiles [2, 2] [4, 4] = true ∧ exCfg.nChunks = prod (zipDiv [4, 4] [2, 2]) ∧ exFill.length = 2 ∧
    BHandleOk (storeHandle (some exValue)) exValue ∧ Shard.Legal exCfg exValue exChunks ∧
    exPieces.length = exCfg.nChunks ∧
    (∀ i (_ : i < exChunks.length) (h2 : i < exPieces.length),
      match exChunks[i] with
      | some b => exEncodes exPieces[i] b ∧ chunkOk 2 [2, 2] exPieces[i]
      | none => exPieces[i] = List.replicate (prod [2, 2]) exFill) ∧
    (∀ g b xs, exEncodes xs b → BHandleOk g b → AHandleOk (exInner.partialDecoder [2, 2] exFill g) [2, 2] xs) ∧
    (∀ n, exInner.fixedSize [] [2, 2] = some n → ∀ xs b, exEncodes xs b → b.length = n) := by
  refine ⟨by decide, by decide, by decide, storeHandle_some_ok _, ?_, by decide, ?_, exInner_lawful, ?_⟩
  rotate_left 2
  · intro n hn xs b ⟨hb, hx⟩
    subst hb
    exact chain_encode_length exInner [] [2, 2] xs n (by decide) (by decide) hx.1 hx.2 trivial trivial hn
  · exact Shard.shard_legal exCfg exChunks (by decide) (by decide)
  · intro i _ h2
    have h4 : i < 4 := h2
    have : i = 0 ∨ i = 1 ∨ i = 2 ∨ i = 3 := by omega
    rcases this with rfl | rfl | rfl | rfl <;>
      simp only [exChunks_val, exPieces_val, List.getElem_cons_zero, List.getElem_cons_succ]
    · exact ⟨⟨by decide, by decide, by decide⟩, by decide, by decide⟩
    · decide
    · exact ⟨⟨by decide, by decide, by decide⟩, by decide, by decide⟩
    · exact ⟨⟨by decide, by decide, by decide⟩, by decide, by decide⟩

/-- … and its conclusion evaluated: the model's answer is the list of regions of the shard -/
example : assemble [4, 4] [2, 2] exPieces = exShard := by decide
example : shardPD exCfg true [4, 4] [2, 2] 2 exFill (some 8) exInner.partialDecoder (storeHandle (some exValue)) exRegions =
    some (exRegions.map (fun r => r.extract [4, 4] exShard)) := by decide
example : exRegions.map (fun r => r.extract [4, 4] exShard) =
    [[[5, 105], [7, 7], [9, 109], [10, 110]],
     [[1, 101], [7, 7], [5, 105], [7, 7], [9, 109], [10, 110], [13, 113], [14, 114]], [],
     exShard] := by decide

/-- **`assemble` is the full decoder's result**: the full decoder of a legal shard (`Shard.decode`) returns exactly the
stored inner chunks, and pasting the decoded inner chunks one after the other at their places of a buffer
(`ShardingCodec::decode`, `assembleScatter`) gives `assemble`, whatever the buffer held before -/
theorem assemble_eq_full_decode (cfg : Shard.Cfg) (shard inner : Shape) (v : Bytes) (chunks : List (Option Bytes))
    (xss : List (List Elem)) (init : List Elem)
    (ht : tiles inner shard = true) (hlegal : Shard.Legal cfg v chunks)
    (hxl : xss.length = prod (zipDiv shard inner)) (hx : ∀ xs ∈ xss, xs.length = prod inner)
    (hinit : init.length = prod shard) :
    Shard.decode cfg true v = .ok chunks ∧ assembleScatter shard inner xss init = assemble shard inner xss :=
  ⟨Conform.legal_shard_decodes' cfg v chunks hlegal, assembleScatter_eq ht xss hxl hx init hinit⟩

example : tiles [2, 2] [4, 4] = true ∧ Shard.Legal exCfg exValue exChunks ∧
    exPieces.length = prod (zipDiv [4, 4] [2, 2]) ∧ (∀ xs ∈ exPieces, xs.length = prod [2, 2]) ∧
    (List.replicate 16 ([0, 0] : Elem)).length = prod [4, 4] :=
  ⟨by decide, Shard.shard_legal exCfg exChunks (by decide) (by decide), by decide, by decide, by decide⟩
example : assembleScatter [4, 4] [2, 2] exPieces (List.replicate 16 [0, 0]) = exShard := by decide

/-! ### absent shard -/

/-- **an absent shard reads as fill**: every list of regions of the shard's rank is answered with fill values, one
per element of each region (in particular every in-bounds list) -/
theorem shardPD_absent (cfg : Shard.Cfg) (validate : Bool) (shard inner : Shape) (es : Nat) (fill : Elem)
    (fixed : Option Nat) (innerPD : Shape → Elem → BHandle → AHandle) (h : BHandle)
    (ht : tiles inner shard = true) (hh : BHandleAbsent h) (rs : List Subset)
    (hrs : ∀ r ∈ rs, r.wf = true ∧ r.rank = shard.length) :
    shardPD cfg validate shard inner es fill fixed innerPD h rs =
      some (rs.map (fun r => List.replicate r.numElements fill)) :=
  shardPD_absent' cfg validate shard inner es fill fixed innerPD h ht hh rs hrs

example : tiles [2, 2] [4, 4] = true ∧ BHandleAbsent (storeHandle none) ∧
    ∀ r ∈ exRegions, r.wf = true ∧ r.rank = [4, 4].length := ⟨by decide, storeHandle_none_absent, by decide⟩
example : shardPD exCfg true [4, 4] [2, 2] 2 exFill (some 8) exInner.partialDecoder (storeHandle none) exRegions =
    some [List.replicate 4 [7, 7], List.replicate 8 [7, 7], [], List.replicate 16 [7, 7]] := by decide

/-- … in the form of a served array: the all-fill shard -/
theorem shardPD_absent_ok (cfg : Shard.Cfg) (validate : Bool) (shard inner : Shape) (es : Nat) (fill : Elem)
    (fixed : Option Nat) (innerPD : Shape → Elem → BHandle → AHandle) (h : BHandle)
    (ht : tiles inner shard = true) (hh : BHandleAbsent h) :
    AHandleOk (shardPD cfg validate shard inner es fill fixed innerPD h) shard (List.replicate (prod shard) fill) :=
  shardPD_absent_ok' cfg validate shard inner es fill fixed innerPD h ht hh

example : tiles [2, 2] [4, 4] = true ∧ BHandleAbsent (bytesCachePD (storeHandle none)) :=
  ⟨by decide, bytesCachePD_absent _ storeHandle_none_absent⟩

/-! ### corrupted index entries -/

/-- corrupted index: the entry of inner chunk (1,1) (offset 16, 8 bytes) is rewritten to 1000 bytes, the checksum of
the index recomputed -/
private def exBadEntries : List (Nat × Nat) := [(0, 8), (Shard.sentinel, Shard.sentinel), (8, 8), (16, 1000)]
private def exBadValue : Bytes := exValue.take 24 ++ Shard.encodeIndex exCfg exBadEntries

/-- **a live index entry whose size differs from the fixed encoded size of the inner codecs is an error, not data**
(`validate_inner_chunk_size`), for every request with an in-bounds region touching that inner chunk — whatever the
inner chain, whatever the input handle, wherever the entry points -/
theorem shardPD_error_on_wrong_size (cfg : Shard.Cfg) (validate : Bool) (shard inner : Shape) (es : Nat) (fill : Elem)
    (n : Nat) (innerPD : Shape → Elem → BHandle → AHandle) (h : BHandle) (entries : List (Nat × Nat))
    (ht : tiles inner shard = true)
    (hidx : shardIndexPD cfg validate shard inner h = some (some entries))
    (rs : List Subset) (r : Subset) (hr : r ∈ rs) (hwf : r.wf = true) (hb : r.inboundsShape shard = true)
    (i : Idx) (hi : r.contains i = true) (off size : Nat)
    (hent : entries[ravel (zipDiv i inner) (zipDiv shard inner)]? = some (off, size))
    (hlive : Shard.isLive (off, size) = true) (hsize : size ≠ n) :
    shardPD cfg validate shard inner es fill (some n) innerPD h rs = none :=
  shardPD_error_on_wrong_size' cfg validate shard inner es fill n innerPD h entries ht hidx rs r hr hwf hb i hi off size
    hent hlive hsize

/-- the hypotheses hold: the `bytes`-only inner chain declares 8 bytes, region [2,2]+[1,1] touches inner chunk (1,1)
whose entry says 1000 -/
example : tiles [2, 2] [4, 4] = true ∧ exInner.fixedSize [] [2, 2] = some 8 ∧
    shardIndexPD exCfg true [4, 4] [2, 2] (storeHandle (some exBadValue)) = some (some exBadEntries) ∧
    (Subset.mk [2, 2] [1, 1]).wf = true ∧ (Subset.mk [2, 2] [1, 1]).inboundsShape [4, 4] = true ∧
    (Subset.mk [2, 2] [1, 1]).contains [2, 2] = true ∧
    exBadEntries[ravel (zipDiv [2, 2] [2, 2]) (zipDiv [4, 4] [2, 2])]? = some (16, 1000) ∧
    Shard.isLive (16, 1000) = true ∧ 1000 ≠ 8 :=
  ⟨by decide, by decide, by decide, by decide, by decide, by decide, by decide, by decide, by decide⟩
/-- (before the repair `8f441b3` this request was answered with `[[10, 110]]`) -/
example : shardPD exCfg true [4, 4] [2, 2] 2 exFill (some 8) exInner.partialDecoder (storeHandle (some exBadValue))
    [⟨[0, 0], [1, 1]⟩, ⟨[2, 2], [1, 1]⟩] = none := by decide
/-- requests that do not touch the inner chunk are still answered -/
example : shardPD exCfg true [4, 4] [2, 2] 2 exFill (some 8) exInner.partialDecoder (storeHandle (some exBadValue))
    [⟨[0, 0], [1, 1]⟩, ⟨[2, 0], [2, 2]⟩] = some [[[0, 100]], [[8, 108], [9, 109], [12, 112], [13, 113]]] := by decide

/-- the storage handle rejects every request containing a range outside the value -/
theorem storeHandle_strict (v : Bytes) : BHandleStrict (storeHandle (some v)) v := storeHandle_strict' v

example : storeHandle (some [1, 2, 3]) [.fromStart 0 (some 2), .fromStart 2 (some 2)] = none := by decide

/-- a chain whose outermost bytes-to-bytes codec (the one applied to the stored bytes: a compressor or another
decode-all codec, or the input cache) reads its whole input -/
theorem chain_reads_whole (c : Chain) (sh : Shape) (fill : Elem) (pre : List BStage) (last : BStage)
    (hb : c.b2b = pre ++ [last]) (hlast : readsAll last = true) : ReadsWhole (c.partialDecoder sh fill) :=
  fun g q hg => chain_readsWhole c sh fill pre last hb hlast g hg q

/-- an inner chain with a decode-all stage (stands for a compressor: it declares no fixed size) after a checksum -/
private def exZ : Chain :=
  { exInner with b2b := [.stripSuffix 4 crc32c, .decodeAll (fun b => b ++ [9]) (fun b => some (b.take (b.length - 1)))] }
example : exZ.b2b = [.stripSuffix 4 crc32c] ++ [.decodeAll (fun b => b ++ [9]) (fun b => some (b.take (b.length - 1)))] ∧
    readsAll (.decodeAll (fun b => b ++ [9]) (fun b => some (b.take (b.length - 1)))) = true ∧
    exZ.fixedSize [] [2, 2] = none := ⟨rfl, rfl, by decide⟩

/-- **a live index entry reaching outside the stored value is an error, not data**, for every request with an
in-bounds region touching that inner chunk — PROVIDED the inner chain reads its whole input (`ReadsWhole`).
What remains of this after `shardPD_error_on_wrong_size`: entries of the declared size (or of any size when the inner
codecs declare no fixed size) that end beyond the value.  Without the proviso the statement is still false of the
code: `ShardingPartialDecoder` never compares `offset + size` with the length of the value (only the full decoder
does); with a `bytes`-only inner chain it fetches just the byte ranges of the requested elements and returns whatever
lies there whenever those ranges are inside the value (last `example` below; observed on the implementation by the
`c02s` harness; recorded as a known finding). -/
theorem shardPD_error_on_bad_entry (cfg : Shard.Cfg) (validate : Bool) (shard inner : Shape) (es : Nat) (fill : Elem)
    (fixed : Option Nat) (innerPD : Shape → Elem → BHandle → AHandle) (h : BHandle) (v : Bytes)
    (entries : List (Nat × Nat))
    (ht : tiles inner shard = true) (hstrict : BHandleStrict h v)
    (hidx : shardIndexPD cfg validate shard inner h = some (some entries))
    (hwhole : ReadsWhole (innerPD inner fill))
    (rs : List Subset) (r : Subset) (hr : r ∈ rs) (hwf : r.wf = true) (hb : r.inboundsShape shard = true)
    (i : Idx) (hi : r.contains i = true) (off size : Nat)
    (hent : entries[ravel (zipDiv i inner) (zipDiv shard inner)]? = some (off, size))
    (hlive : Shard.isLive (off, size) = true) (hbad : off + size > v.length) :
    shardPD cfg validate shard inner es fill fixed innerPD h rs = none :=
  shardPD_error_on_bad_entry' cfg validate shard inner es fill fixed innerPD h v entries ht hstrict hidx hwhole rs r hr
    hwf hb i hi off size hent hlive hbad

/-- the entry of inner chunk (1,1) keeps its size but is moved to offset 86 of the 92-byte value -/
private def exBadEntries2 : List (Nat × Nat) := [(0, 8), (Shard.sentinel, Shard.sentinel), (8, 8), (86, 8)]
private def exBadValue2 : Bytes := exValue.take 24 ++ Shard.encodeIndex exCfg exBadEntries2

/-- the hypotheses of `shardPD_error_on_bad_entry` hold (inner chain `exZ`, which declares no fixed size) -/
example : tiles [2, 2] [4, 4] = true ∧ BHandleStrict (storeHandle (some exBadValue2)) exBadValue2 ∧
    shardIndexPD exCfg true [4, 4] [2, 2] (storeHandle (some exBadValue2)) = some (some exBadEntries2) ∧
    ReadsWhole (exZ.partialDecoder [2, 2] exFill) ∧
    (Subset.mk [2, 2] [1, 1]).wf = true ∧ (Subset.mk [2, 2] [1, 1]).inboundsShape [4, 4] = true ∧
    (Subset.mk [2, 2] [1, 1]).contains [2, 2] = true ∧
    exBadEntries2[ravel (zipDiv [2, 2] [2, 2]) (zipDiv [4, 4] [2, 2])]? = some (86, 8) ∧
    Shard.isLive (86, 8) = true ∧ 86 + 8 > exBadValue2.length :=
  ⟨by decide, storeHandle_strict _, by decide, chain_reads_whole exZ _ _ [.stripSuffix 4 crc32c] _ rfl rfl, by decide,
    by decide, by decide, by decide, by decide, by decide⟩
example : shardPD exCfg true [4, 4] [2, 2] 2 exFill none exZ.partialDecoder (storeHandle (some exBadValue2))
    [⟨[0, 0], [1, 1]⟩, ⟨[2, 2], [1, 1]⟩] = none := by decide

/-- WITHOUT `ReadsWhole` the conclusion fails for a right-size entry: the `bytes`-only inner chain (declared size 8 =
the entry's size) answers the same request with the two bytes at offset 86 (bytes of the index), although the entry
ends beyond the value and the full decoder (`Shard.decode`) rejects the value; a request that needs the bytes beyond
the end is an error -/
example : shardPD exCfg true [4, 4] [2, 2] 2 exFill (some 8) exInner.partialDecoder (storeHandle (some exBadValue2))
    [⟨[2, 2], [1, 1]⟩] = some [[[0, 0]]] ∧
    shardPD exCfg true [4, 4] [2, 2] 2 exFill (some 8) exInner.partialDecoder (storeHandle (some exBadValue2))
    [⟨[2, 2], [2, 2]⟩] = none ∧
    (Shard.decode exCfg true exBadValue2).isOk = false := by decide

/-! ### chains whose array-to-bytes codec is `sharding_indexed`, nested to any depth -/

/-- well-formed (nested) chain: lawful stages (`C02.aStagesOk`, `C02.bStageOk`) at every level, every sharding level
tiles the shape it sees, one element size throughout, fill value of that size, the decode-all stages flagged as
size-keeping keep the size (`keepOk`) -/
def chainSOk (c : ChainS) (sh : Shape) (fill : Elem) : Prop := c.okWith aStagesOk bStageOk sh fill

private theorem okWith_lemma (c : ChainS) (sh : Shape) (fill : Elem) (h : chainSOk c sh fill) :
    c.okWith aOk BLaw sh fill :=
  ChainS.okWith_mono (fun l s hl => aStagesOk_aOk l s hl) (fun st hst b g hg => bStage_ok st hst b g hg) c sh fill h

/-- **C02 for chains with sharding codecs** (the analogue of `C02.chain_partial_eq_full_slice`): array-to-array
stages, then `sharding_indexed` whose inner chain is again such a chain (or a `bytes` chain), then bytes-to-bytes
stages; on ANY handle serving the chain's encoding of the chunk `xs`, the chain's partial decoder answers every
in-bounds list of regions with exactly the regions of `xs`.  `fits`: every encoded shard is shorter than 2^64 - 1
bytes. -/
theorem chainS_partial_eq_full_slice (c : ChainS) (sh : Shape) (fill : Elem) (xs : List Elem)
    (hok : chainSOk c sh fill) (hx : chunkOk c.es sh xs) (hfits : c.fits sh fill xs)
    (g : BHandle) (hg : BHandleOk g (c.encode sh fill xs)) :
    AHandleOk (c.partialDecoder sh fill g) sh xs :=
  chainS_ok c sh fill xs (okWith_lemma c sh fill hok) hx.1 hx.2 hfits g hg

/-- … in particular on the stored value -/
theorem chainS_partial_eq_full_slice_store (c : ChainS) (sh : Shape) (fill : Elem) (xs : List Elem)
    (hok : chainSOk c sh fill) (hx : chunkOk c.es sh xs) (hfits : c.fits sh fill xs) :
    AHandleOk (c.partialDecoder sh fill (storeHandle (some (c.encode sh fill xs)))) sh xs :=
  chainS_partial_eq_full_slice c sh fill xs hok hx hfits _ (storeHandle_some_ok _)

/-- two sharding levels under a transpose and over a crc32c: 4×4 chunks, transposed, cut into 2×2 shards-in-the-shard
(index at the start, big-endian, no checksum), each cut into 1×2 innermost chunks (index at the end, crc32c), whose
chain is transpose + big-endian `bytes` + crc32c -/
private def exLeaf : Chain := { a2a := [.transpose [1, 0]], big := true, es := 2, unit := 2, b2b := [.stripSuffix 4 crc32c] }
private def exNested : ChainS :=
  .shard [.transpose [1, 0]] ⟨0, false, true, false⟩ [2, 2] 2
    (.shard [] ⟨0, true, false, true⟩ [1, 2] 2 (.leaf exLeaf []) []) [.stripSuffix 4 crc32c]

private theorem exNested_ok : chainSOk exNested [4, 4] exFill := by
  refine ⟨⟨by decide, trivial⟩, by decide, ?_, by decide, rfl, ⟨trivial, by decide, ?_, by decide, rfl,
    ⟨by decide, by decide, by decide, ⟨by decide, trivial⟩, ?_, ⟨trivial, trivial⟩⟩⟩⟩
  · intro st hst
    simp only [List.mem_singleton] at hst
    subst hst; rfl
  · intro st hst
    cases hst
  · intro st hst
    simp only [exLeaf, List.mem_singleton] at hst
    subst hst; rfl

example : chainSOk exNested [4, 4] exFill ∧ chunkOk exNested.es [4, 4] exShard ∧ exNested.fits [4, 4] exFill exShard := by
  refine ⟨exNested_ok, ⟨by decide, by decide⟩, ?_⟩
  simp only [exNested, ChainS.fits]
  decide

/-- the conclusion evaluated on the stored value: the nested chain's partial decoder answers with the regions -/
example : exNested.partialDecoder [4, 4] exFill (storeHandle (some (exNested.encode [4, 4] exFill exShard))) exRegions =
    some (exRegions.map (fun r => r.extract [4, 4] exShard)) := by decide
example : (exNested.encode [4, 4] exFill exShard).length = 224 := by decide

/-- **every encoding of a chain that declares a fixed encoded size has that size** (so the size test of the
sharding partial decoder never rejects what the encoder wrote): `bytes` chains with transposes / squeezes, checksum
codecs, caches and size-keeping decode-all stages; a chain with a sharding codec declares no fixed size -/
theorem chainS_encode_fixed_length (c : ChainS) (sh : Shape) (fill : Elem) (xs : List Elem) (n : Nat)
    (hok : chainSOk c sh fill) (hx : chunkOk c.es sh xs) (hf : c.fixedSize sh = some n) :
    (c.encode sh fill xs).length = n :=
  chainS_encode_length c sh fill xs n (okWith_lemma c sh fill hok) hx.1 hx.2 hf

/-- transpose, big-endian `bytes`, crc32c, a size-keeping decode-all stage (a byte reversal, like `shuffle`), crc32c -/
private def exFixed : ChainS :=
  .leaf { a2a := [.transpose [1, 0]], big := true, es := 2, unit := 2,
          b2b := [.stripSuffix 4 crc32c, .decodeAll List.reverse (fun b => some b.reverse), .stripSuffix 4 fletcher32] }
    [false, true, false]
example : chainSOk exFixed [2, 3] exFill ∧ chunkOk exFixed.es [2, 3] ((List.range 6).map (fun i => [i, 9])) ∧
    exFixed.fixedSize [2, 3] = some 20 := by
  refine ⟨⟨by decide, by decide, by decide, ⟨by decide, trivial⟩, ?_, ⟨trivial, fun _ b => by simp, trivial, trivial⟩⟩,
    ⟨by decide, by decide⟩, by decide⟩
  intro st hst
  simp only [List.mem_cons, List.not_mem_nil, or_false] at hst
  rcases hst with rfl | rfl | rfl
  · rfl
  · intro b; simp
  · rfl
example : (exFixed.encode [2, 3] exFill ((List.range 6).map (fun i => [i, 9]))).length = 20 := by decide
example : exNested.fixedSize [4, 4] = none := rfl

/-- … and an absent value reads as fill through such a chain -/
theorem chainS_partial_absent (c : ChainS) (sh : Shape) (fill : Elem) (hok : chainSOk c sh fill)
    (g : BHandle) (hg : BHandleAbsent g) :
    AHandleOk (c.partialDecoder sh fill g) sh (List.replicate (prod sh) fill) :=
  chainS_absent c sh fill (okWith_lemma c sh fill hok) g hg

example : chainSOk exNested [4, 4] exFill ∧ BHandleAbsent (storeHandle none) := ⟨exNested_ok, storeHandle_none_absent⟩
example : exNested.partialDecoder [4, 4] exFill (storeHandle none) exRegions =
    some (exRegions.map (fun r => r.extract [4, 4] (List.replicate (prod [4, 4]) exFill))) := by decide

end Zarrs.C02S
