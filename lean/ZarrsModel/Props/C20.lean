import ZarrsModel.Model.Fault
import ZarrsModel.Model.Cache
import ZarrsModel.Lemmas.Fault
/-
C20 — store failures surface as errors and leave chunk-granular state.
-/
namespace Zarrs.C20
open Zarrs

variable {α : Type} [DecidableEq α]

/-- **a failing store operation makes the method fail**: if the per-chunk step of any chunk that is reached fails,
the fold (the method) returns an error, never success -/
theorem fault_is_error {σ} (F : Idx → Bool) (step : σ → Idx → Option σ) (s : σ) (chunks : List Idx)
    (h : ∃ c ∈ chunks, F c = true) : ArrCfg.foldOpt (withFaults F step) s chunks = none := by
  sorry

/-- without faults nothing changes -/
theorem no_fault_same {σ} (step : σ → Idx → Option σ) (s : σ) (chunks : List Idx) :
    ArrCfg.foldOpt (withFaults (fun _ => false) step) s chunks = ArrCfg.foldOpt step s chunks := by
  sorry

/-- the multi-chunk branch of `store_array_subset` is the fold of its per-chunk step -/
theorem storeArraySubset_is_fold (cfg : ArrCfg α) (st : KV) (region : Subset) (data : List α) (chunks : Subset)
    (hr : region.rank = cfg.shape.length) (hc : cfg.grid.chunksInArraySubset region cfg.shape = some chunks)
    (hn : chunks.numElements ≠ 1) (hd : data.length = region.numElements) :
    cfg.storeArraySubset st region data = ArrCfg.foldOpt (cfg.storeArraySubsetChunk region data) st chunks.indices := by
  sorry

/-- **chunk-granular state**: after the per-chunk steps of ANY sub-list `done` of the chunks (whatever was reached
before the failure), every chunk key holds its previous value or its intended new value (the value in the
fault-free final state) -/
theorem chunk_granular (cfg : ArrCfg α) (hK : cfg.KeysInjective) (st stFull st' : KV) (region : Subset) (data : List α)
    (chunks : Subset) (hw : region.wf = true)
    (hc : cfg.grid.chunksInArraySubset region cfg.shape = some chunks) (hcw : chunks.wf = true)
    (hfull : ArrCfg.foldOpt (cfg.storeArraySubsetChunk region data) st chunks.indices = some stFull)
    (done : List Idx) (hsub : done.Sublist chunks.indices)
    (hpart : ArrCfg.foldOpt (cfg.storeArraySubsetChunk region data) st done = some st') :
    ∀ k : Key, st'.get k = st.get k ∨ st'.get k = stFull.get k := by
  sorry

/-- **retry converges**: re-running the whole method, fault-free, from any such partial state gives the
fault-free final state -/
theorem retry_converges (cfg : ArrCfg α) (hL : cfg.Lossless) (hK : cfg.KeysInjective) (st stFull st' : KV) (hs : st.sorted)
    (region : Subset) (data : List α) (chunks : Subset) (hw : region.wf = true)
    (hc : cfg.grid.chunksInArraySubset region cfg.shape = some chunks) (hcw : chunks.wf = true)
    (hfull : ArrCfg.foldOpt (cfg.storeArraySubsetChunk region data) st chunks.indices = some stFull)
    (done : List Idx) (hsub : done.Sublist chunks.indices)
    (hpart : ArrCfg.foldOpt (cfg.storeArraySubsetChunk region data) st done = some st') :
    ArrCfg.foldOpt (cfg.storeArraySubsetChunk region data) st' chunks.indices = some stFull := by
  sorry

/-- a single whole-chunk write is one store operation: it either happened or not -/
theorem store_chunk_atomic (cfg : ArrCfg α) (st st' : KV) (c : Idx) (d : List α) (h : cfg.storeChunk st c d = some st') :
    ∀ k : Key, k ≠ cfg.keyOf c → st'.get k = st.get k := by
  sorry

/-- failed reads are not cached (restated from the cache model) -/
theorem failed_read_not_cached (cfg : ArrCfg α) (st : KV) (kind : CacheKind) (evict : Cache α → Cache α)
    (cache : Cache α) (c : Idx) (hmiss : cache.lookup c = none) (hfail : cfg.cacheFill st kind c = none) :
    (cfg.cachedRetrieveChunk st kind evict cache c).2 = cache := by
  sorry

end Zarrs.C20
