import ZarrsModel.Model.Fault
import ZarrsModel.Model.Cache
import ZarrsModel.Lemmas.Fault
/-
C20 — store failures surface as errors and leave chunk-granular state.

(`ZarrsModel.Props.C01`, reached through `ZarrsModel.Lemmas.Fault`, supplies the example configuration
`C01.exCfg` — a 5×7 array with 2×3 chunks — used by the non-vacuity `example`s.)
-/
namespace Zarrs.C20
open Zarrs

variable {α : Type} [DecidableEq α]

/-! ### the example values used by the non-vacuity `example`s -/

/-- a region of the 5×7 example array straddling the four chunks (0,0), (0,1), (1,0), (1,1) -/
def exRegion : Subset := ⟨[1, 2], [3, 4]⟩
def exData : List Nat := [0, 1, 2, 3, 4, 5, 6, 7, 8, 9, 10, 11]
/-- the box of chunks meeting `exRegion` -/
def exChunks : Subset := ⟨[0, 0], [2, 2]⟩
/-- a sorted store holding chunk (0,0) (met by the region) and chunk (2,2) (not met) -/
def exStore : KV := [(C01.exKey [0, 0], [1, 2, 3, 4, 5, 6]), (C01.exKey [2, 2], [9, 9, 9, 9, 9, 9])]
/-- the fault-free final state -/
def exFull : KV :=
  [(C01.exKey [0, 0], [1, 2, 3, 4, 5, 0]), (C01.exKey [0, 1], [0, 0, 0, 1, 2, 3]),
   (C01.exKey [1, 0], [0, 0, 4, 0, 0, 8]), (C01.exKey [1, 1], [5, 6, 7, 9, 10, 11]),
   (C01.exKey [2, 2], [9, 9, 9, 9, 9, 9])]
/-- two of the four chunks were written before the failure was reported -/
def exDone : List Idx := [[0, 1], [1, 0]]
/-- the state they leave -/
def exPartial : KV :=
  [(C01.exKey [0, 0], [1, 2, 3, 4, 5, 6]), (C01.exKey [0, 1], [0, 0, 0, 1, 2, 3]),
   (C01.exKey [1, 0], [0, 0, 4, 0, 0, 8]), (C01.exKey [2, 2], [9, 9, 9, 9, 9, 9])]

/-- **a failing store operation makes the method fail**: if the per-chunk step of any chunk that is reached fails,
the fold (the method) returns an error, never success -/
theorem fault_is_error {σ} (F : Idx → Bool) (step : σ → Idx → Option σ) (s : σ) (chunks : List Idx)
    (h : ∃ c ∈ chunks, F c = true) : ArrCfg.foldOpt (withFaults F step) s chunks = none := by
  induction chunks generalizing s with
  | nil =>
    obtain ⟨c, hc, _⟩ := h
    cases hc
  | cons b bs ih =>
    simp only [ArrCfg.foldOpt, withFaults]
    by_cases hb : F b = true
    · rw [if_pos hb]
    · rw [if_neg hb]
      cases step s b with
      | none => rfl
      | some s1 =>
        apply ih
        obtain ⟨c, hc, hF⟩ := h
        rcases List.mem_cons.1 hc with rfl | hc'
        · exact absurd hF hb
        · exact ⟨c, hc', hF⟩
/-- hypothesis satisfiable: the store fails on the third of the four chunks of the example write; the first two
steps have run, the method reports an error -/
example : (∃ c ∈ exChunks.indices, (fun c => c == [1, 0]) c = true) ∧
    ArrCfg.foldOpt (withFaults (fun c => c == [1, 0]) (C01.exCfg.storeArraySubsetChunk exRegion exData))
      exStore exChunks.indices = none :=
  ⟨⟨[1, 0], by decide, by decide⟩, by decide⟩

/-- without faults nothing changes -/
theorem no_fault_same {σ} (step : σ → Idx → Option σ) (s : σ) (chunks : List Idx) :
    ArrCfg.foldOpt (withFaults (fun _ => false) step) s chunks = ArrCfg.foldOpt step s chunks :=
  ArrCfg.foldOpt_congr _ _ chunks (fun _ _ _ => by simp [withFaults]) s

/-- the multi-chunk branch of `store_array_subset` is the fold of its per-chunk step -/
theorem storeArraySubset_is_fold (cfg : ArrCfg α) (st : KV) (region : Subset) (data : List α) (chunks : Subset)
    (hr : region.rank = cfg.shape.length) (hc : cfg.grid.chunksInArraySubset region cfg.shape = some chunks)
    (hn : chunks.numElements ≠ 1) (hd : data.length = region.numElements) :
    cfg.storeArraySubset st region data = ArrCfg.foldOpt (cfg.storeArraySubsetChunk region data) st chunks.indices := by
  unfold ArrCfg.storeArraySubset
  rw [if_neg (by simp [hr]), hc]
  simp only
  rw [if_neg (by simp [hn]), if_neg (by simp [hd])]
  rfl
example : exRegion.rank = C01.exCfg.shape.length ∧
    C01.exCfg.grid.chunksInArraySubset exRegion C01.exCfg.shape = some exChunks ∧
    exChunks.numElements ≠ 1 ∧ exData.length = exRegion.numElements := by decide

-- (`hw`, `hc` are kept from the stated property; the proof needs only `hcw`)
set_option linter.unusedVariables false in
/-- **chunk-granular state**: after the per-chunk steps of ANY sub-list `done` of the chunks (whatever was reached
before the failure), every chunk key holds its previous value or its intended new value (the value in the
fault-free final state) -/
theorem chunk_granular (cfg : ArrCfg α) (hK : cfg.KeysInjective) (st stFull st' : KV) (region : Subset) (data : List α)
    (chunks : Subset) (hw : region.wf = true)
    (hc : cfg.grid.chunksInArraySubset region cfg.shape = some chunks) (hcw : chunks.wf = true)
    (hfull : ArrCfg.foldOpt (cfg.storeArraySubsetChunk region data) st chunks.indices = some stFull)
    (done : List Idx) (hsub : done.Sublist chunks.indices)
    (hpart : ArrCfg.foldOpt (cfg.storeArraySubsetChunk region data) st done = some st') :
    ∀ k : Key, st'.get k = st.get k ∨ st'.get k = stFull.get k := by
  rw [ArrCfg.storeArraySubsetChunk_eq_kvStep] at hfull hpart
  have hndC := ArrCfg.keys_nodup hK _ (chunks.indices_nodup hcw)
  have hndD := ArrCfg.keys_nodup hK _ ((chunks.indices_nodup hcw).sublist hsub)
  obtain ⟨hF, _, _⟩ := ArrCfg.foldOpt_kvStep_some _ _ _ hndC st stFull hfull
  obtain ⟨hP, hPframe, _⟩ := ArrCfg.foldOpt_kvStep_some _ _ _ hndD st st' hpart
  intro k
  by_cases hk : k ∈ done.map cfg.keyOf
  · obtain ⟨c, hcd, rfl⟩ := List.mem_map.1 hk
    right
    have h1 := hP c hcd
    rw [hF c (hsub.subset hcd)] at h1
    exact (Option.some.inj h1).symm
  · left
    exact hPframe k hk
/-- hypotheses satisfiable: the write of `exData` to `exRegion` over `exStore`, two of its four per-chunk steps
done -/
example : C01.exCfg.KeysInjective ∧ exRegion.wf = true ∧
    C01.exCfg.grid.chunksInArraySubset exRegion C01.exCfg.shape = some exChunks ∧ exChunks.wf = true ∧
    ArrCfg.foldOpt (C01.exCfg.storeArraySubsetChunk exRegion exData) exStore exChunks.indices = some exFull ∧
    exDone.Sublist exChunks.indices ∧
    ArrCfg.foldOpt (C01.exCfg.storeArraySubsetChunk exRegion exData) exStore exDone = some exPartial :=
  ⟨C01.exKey_inj, by decide, by decide, by decide, by decide, by decide, by decide⟩
/-- the partial state is neither the old nor the new state -/
example : exPartial ≠ exStore ∧ exPartial ≠ exFull := by decide

-- (`hc` is kept from the stated property; the proof does not need it)
set_option linter.unusedVariables false in
/-- **retry converges**: re-running the whole method, fault-free, from any such partial state gives the
fault-free final state -/
theorem retry_converges (cfg : ArrCfg α) (hL : cfg.Lossless) (hK : cfg.KeysInjective) (st stFull st' : KV) (hs : st.sorted)
    (region : Subset) (data : List α) (chunks : Subset) (hw : region.wf = true)
    (hc : cfg.grid.chunksInArraySubset region cfg.shape = some chunks) (hcw : chunks.wf = true)
    (hfull : ArrCfg.foldOpt (cfg.storeArraySubsetChunk region data) st chunks.indices = some stFull)
    (done : List Idx) (hsub : done.Sublist chunks.indices)
    (hpart : ArrCfg.foldOpt (cfg.storeArraySubsetChunk region data) st done = some st') :
    ArrCfg.foldOpt (cfg.storeArraySubsetChunk region data) st' chunks.indices = some stFull := by
  rw [ArrCfg.storeArraySubsetChunk_eq_kvStep] at hfull hpart ⊢
  have hndC := ArrCfg.keys_nodup hK _ (chunks.indices_nodup hcw)
  have hndD := ArrCfg.keys_nodup hK _ ((chunks.indices_nodup hcw).sublist hsub)
  obtain ⟨hF, hFframe, hFs⟩ := ArrCfg.foldOpt_kvStep_some _ _ _ hndC st stFull hfull
  obtain ⟨hP, hPframe, hPs⟩ := ArrCfg.foldOpt_kvStep_some _ _ _ hndD st st' hpart
  -- every per-chunk step, run from the partial state, writes the value of the fault-free final state
  have hstep : ∀ c ∈ chunks.indices,
      cfg.storeArraySubsetChunkW region data c (st'.get (cfg.keyOf c)) = some (stFull.get (cfg.keyOf c)) := by
    intro c hcm
    by_cases hcd : c ∈ done
    · have h1 := hP c hcd
      rw [hF c hcm] at h1
      rw [← Option.some.inj h1]
      exact ArrCfg.storeArraySubsetChunkW_idem hL region data hw c _ _ (hF c hcm)
    · have hk : cfg.keyOf c ∉ done.map cfg.keyOf := by
        intro hm
        obtain ⟨c', hc'd, he⟩ := List.mem_map.1 hm
        exact hcd (hK _ _ he ▸ hc'd)
      rw [hPframe _ hk]
      exact hF c hcm
  obtain ⟨s2, hs2⟩ := ArrCfg.foldOpt_kvStep_of _ _ _ hndC st' (fun c => stFull.get (cfg.keyOf c)) hstep
  obtain ⟨hR, hRframe, hRs⟩ := ArrCfg.foldOpt_kvStep_some _ _ _ hndC st' s2 hs2
  rw [hs2]
  congr 1
  apply KV.ext_of_sorted s2 stFull (hRs (hPs hs)) (hFs hs)
  intro k
  by_cases hk : k ∈ chunks.indices.map cfg.keyOf
  · obtain ⟨c, hcm, rfl⟩ := List.mem_map.1 hk
    have h1 := hR c hcm
    rw [hstep c hcm] at h1
    exact (Option.some.inj h1).symm
  · have hkd : k ∉ done.map cfg.keyOf := fun hm => hk ((hsub.map cfg.keyOf).subset hm)
    rw [hRframe k hk, hPframe k hkd, hFframe k hk]
/-- hypotheses satisfiable (same example as `chunk_granular`) -/
example : C01.exCfg.Lossless ∧ C01.exCfg.KeysInjective ∧ exStore.sorted ∧ exRegion.wf = true ∧
    C01.exCfg.grid.chunksInArraySubset exRegion C01.exCfg.shape = some exChunks ∧ exChunks.wf = true ∧
    ArrCfg.foldOpt (C01.exCfg.storeArraySubsetChunk exRegion exData) exStore exChunks.indices = some exFull ∧
    exDone.Sublist exChunks.indices ∧
    ArrCfg.foldOpt (C01.exCfg.storeArraySubsetChunk exRegion exData) exStore exDone = some exPartial :=
  ⟨fun _ => rfl, C01.exKey_inj, by unfold KV.sorted; decide, by decide, by decide, by decide, by decide, by decide,
    by decide⟩
/-- the conclusion on the example, checked by evaluation -/
example : ArrCfg.foldOpt (C01.exCfg.storeArraySubsetChunk exRegion exData) exPartial exChunks.indices = some exFull := by
  decide
/-- elision does not break the retry: writing fill over the last non-fill element of chunk (0,0) erases its key;
the retry from the state where only that step ran reads the chunk back as fill and erases again -/
example :
    ArrCfg.foldOpt (C01.exCfg.storeArraySubsetChunk exRegion (List.replicate 12 0))
      [(C01.exKey [0, 0], [0, 0, 0, 0, 0, 6])] [[0, 0]] = some [] ∧
    ArrCfg.foldOpt (C01.exCfg.storeArraySubsetChunk exRegion (List.replicate 12 0))
      [(C01.exKey [0, 0], [0, 0, 0, 0, 0, 6])] exChunks.indices = some [] ∧
    ArrCfg.foldOpt (C01.exCfg.storeArraySubsetChunk exRegion (List.replicate 12 0)) [] exChunks.indices = some [] := by
  decide
/-- `hL` matters: with a codec chain that cannot decode what it encoded the first run succeeds (the chunks it
creates are never read) but the retry fails on the chunk already written -/
example :
    let cfg : ArrCfg Nat := { C01.exCfg with dec := fun _ => none }
    (ArrCfg.foldOpt (cfg.storeArraySubsetChunk exRegion exData) [] exChunks.indices).isSome = true ∧
    (ArrCfg.foldOpt (cfg.storeArraySubsetChunk exRegion exData) [] [[0, 1]]).isSome = true ∧
    ∀ st', ArrCfg.foldOpt (cfg.storeArraySubsetChunk exRegion exData) [] [[0, 1]] = some st' →
      ArrCfg.foldOpt (cfg.storeArraySubsetChunk exRegion exData) st' exChunks.indices = none := by
  refine ⟨by decide, by decide, ?_⟩
  intro st' h
  have : st' = [(C01.exKey [0, 1], [0, 0, 0, 1, 2, 3])] := by
    have h2 : ArrCfg.foldOpt (({ C01.exCfg with dec := fun _ => none } : ArrCfg Nat).storeArraySubsetChunk
      exRegion exData) [] [[0, 1]] = some [(C01.exKey [0, 1], [0, 0, 0, 1, 2, 3])] := by decide
    rw [h2] at h
    exact (Option.some.inj h).symm
  subst this
  decide

/-- a single whole-chunk write is one store operation: it either happened or not -/
theorem store_chunk_atomic (cfg : ArrCfg α) (st st' : KV) (c : Idx) (d : List α) (h : cfg.storeChunk st c d = some st') :
    ∀ k : Key, k ≠ cfg.keyOf c → st'.get k = st.get k :=
  fun k hk => ArrCfg.storeChunk_frame st st' c d h k hk
example : ∃ st', C01.exCfg.storeChunk exStore [0, 1] [1, 2, 3, 4, 5, 6] = some st' ∧
    C01.exKey [2, 2] ≠ C01.exCfg.keyOf [0, 1] :=
  ⟨_, rfl, by decide⟩

/-- failed reads are not cached (restated from the cache model) -/
theorem failed_read_not_cached (cfg : ArrCfg α) (st : KV) (kind : CacheKind) (evict : Cache α → Cache α)
    (cache : Cache α) (c : Idx) (hmiss : cache.lookup c = none) (hfail : cfg.cacheFill st kind c = none) :
    (cfg.cachedRetrieveChunk st kind evict cache c).2 = cache :=
  C06.failed_read_not_cached cfg st kind evict cache c hmiss hfail
/-- hypotheses satisfiable: a miss on a chunk whose stored value has the wrong length (the decode fails), on a
non-empty cache -/
example : Cache.lookup ([([2, 2], CacheEntry.decoded [9, 9, 9, 9, 9, 9])] : Cache Nat) [0, 0] = none ∧
    C01.exCfg.cacheFill [(C01.exKey [0, 0], [1, 2, 3])] .decoded [0, 0] = none := by decide

end Zarrs.C20
