import ZarrsModel.Lemmas.FaultOpsArray
import ZarrsModel.Lemmas.FaultOpsMeta
import ZarrsModel.Lemmas.FaultOpsOrder
import ZarrsModel.Props.C20
set_option Elab.async false
/-
C20 at the level of single store OPERATIONS.

`Model/FaultOps.lean`: a store `FStore = (m, n, fails)` that counts its operations and fails those whose ordinal is
in `fails` (`fails = [k]` is "the `k`-th operation fails"); every array / group / node method as the program
(`Prog`) of the store operations the Rust code issues, in its order.  The theorems below hold for EVERY program,
hence for every method; they are then read off for the methods the property names.

(`C01.exCfg`: a 5×7 array with 2×3 chunks, identity codec, fill 0; `C20.exStore` holds chunks (0,0) and (2,2).)
-/
namespace Zarrs.C20Ops
open Zarrs Zarrs.Hier

variable {α : Type} [DecidableEq α]

/-! ### `fops_refines`: without faults the operation-level methods are the methods of the existing models -/

/-- the fault-free run of any program: value and store of the pure run, counter advanced by `ops` -/
theorem run_nofault {β} (p : Prog β) (m : KV) (n : Nat) :
    (∀ v m', p.pure m = some (v, m') → p.run ⟨m, n, []⟩ = .ok v ⟨m', n + p.ops m, []⟩) ∧
    (p.pure m = none → ∃ s', p.run ⟨m, n, []⟩ = .err s' ∧ s'.n = n + p.ops m) := by
  rw [Prog.run_nofault]
  simp only [Prog.outcome]
  constructor
  · intro v m' h; rw [h]
  · intro h; rw [h]; exact ⟨_, rfl, rfl⟩

/-- **`fops_refines` (writes)**: with no fault each write method of a history, run as its sequence of store
operations (per-chunk closures in the order of `chunks.indices()`), is the method of `Model/Array.lean`: same
acceptance, same final store — so every theorem about `ArrCfg.applyOp` / `ArrCfg.run` transfers -/
theorem fops_refines (cfg : ArrCfg α) (st : KV) (n : Nat) (op : WriteOp α) :
    (∀ st', cfg.applyOp st op = some st' →
      (cfg.planOf op).prog.run ⟨st, n, []⟩ = .ok () ⟨st', n + (cfg.planOf op).prog.ops st, []⟩) ∧
    (cfg.applyOp st op = none → ∃ s', (cfg.planOf op).prog.run ⟨st, n, []⟩ = .err s') := by
  obtain ⟨h1, h2⟩ := run_nofault (cfg.planOf op).prog st n
  rw [ArrCfg.planOf_pure] at h1 h2
  constructor
  · intro st' h
    exact h1 () st' (by rw [h]; rfl)
  · intro h
    obtain ⟨s', hs, _⟩ := h2 (by rw [h]; rfl)
    exact ⟨s', hs⟩
/-- non-vacuous: the straddling write of `C20.exData` to `C20.exRegion` (four chunks, three of them read-modify-write)
is accepted by the model; the operation-level run performs 7 operations (3 × GET+SET and one SET) and ends in `C20.exFull` -/
example : C01.exCfg.applyOp C20.exStore (.storeArraySubset C20.exRegion C20.exData) = some C20.exFull ∧
    (C01.exCfg.planOf (.storeArraySubset C20.exRegion C20.exData)).prog.run ⟨C20.exStore, 0, []⟩ =
      .ok () ⟨C20.exFull, 7, []⟩ := by decide

/-- **`fops_refines` (reads)**: `retrieve_chunk[_if_exists]`, `retrieve_chunk_subset` (whatever the number of reads
its partial decoder issues) and `retrieve_array_subset` return what the methods of `Model/Array.lean` return and
leave the store as it was -/
theorem fops_refines_reads (cfg : ArrCfg α) (extra : Option Bytes → Subset → Nat) (st : KV) (n : Nat) :
    (∀ c, ((cfg.retrieveChunkP c).run ⟨st, n, []⟩).val? = cfg.retrieveChunk st c) ∧
    (∀ c, (c.length = cfg.grid.length → (cfg.chunkShape c).isSome = true) →
      ((cfg.retrieveChunkIfExistsP c).run ⟨st, n, []⟩).val? = cfg.retrieveChunkIfExists st c) ∧
    (∀ c r, ((cfg.retrieveChunkSubsetP extra c r).run ⟨st, n, []⟩).val? = cfg.retrieveChunkSubset st c r) ∧
    (∀ region, ((cfg.retrieveArraySubsetP extra id region).run ⟨st, n, []⟩).val? = cfg.retrieveArraySubset st region) := by
  have key : ∀ {β} (p : Prog β) (r : Option β), p.pure st = r.map (fun v => (v, st)) → (p.run ⟨st, n, []⟩).val? = r := by
    intro β p r h
    rw [Prog.run_nofault]
    simp only [Prog.outcome, h]
    cases r <;> rfl
  exact ⟨fun c => key _ _ (ArrCfg.retrieveChunkP_pure cfg st c),
    fun c hc => key _ _ (ArrCfg.retrieveChunkIfExistsP_pure cfg st c hc),
    fun c r => key _ _ (ArrCfg.retrieveChunkSubsetP_pure cfg extra st c r),
    fun region => key _ _ (ArrCfg.retrieveArraySubsetP_pure cfg extra st region)⟩
example : ((C01.exCfg.retrieveArraySubsetP ArrCfg.noExtra id C20.exRegion).run ⟨C20.exFull, 0, []⟩) =
    .ok C20.exData ⟨C20.exFull, 4, []⟩ := by decide

/-- **`fops_refines` (metadata, nodes)**: opening an array / group (`open_metadata`), `Node::get_metadata`,
`Group::children(false)` and `Node::open`, run without faults, return what the fault-free definitions
(`Hier.openMeta`, and `Hier.getMeta`, `Hier.children`, `Hier.openNode` of `Model/Hier.lean`) return -/
theorem fops_refines_meta (r : Reader) (m : KV) (n : Nat) (pre k2 : Key) (ok3 ok2 okAttrs : Bytes → Bool) :
    ((openMetaP pre k2 ok3 ok2 okAttrs).run ⟨m, n, []⟩).val? = openMeta m pre k2 ok3 ok2 okAttrs ∧
    ((getMetaP r pre).run ⟨m, n, []⟩).val? = some (getMeta r m pre) ∧
    ((childrenP r pre).run ⟨m, n, []⟩).val? = children r m false pre ∧
    ((openNodeP r (depthBound m) pre).run ⟨m, n, []⟩).val? = openNode r m pre := by
  have key : ∀ {β} (p : Prog β) (r : Option β), p.pure m = r.map (fun v => (v, m)) → (p.run ⟨m, n, []⟩).val? = r := by
    intro β p r h
    rw [Prog.run_nofault]
    simp only [Prog.outcome, h]
    cases r <;> rfl
  exact ⟨key _ _ (openMetaP_pure m pre k2 ok3 ok2 okAttrs), key _ (some _) (getMetaP_pure r m pre),
    key _ _ (childrenP_pure r m pre), key _ _ (openNodeP_pure r m pre)⟩

/-! ### `fault_at_k_is_error` -/

/-- **a fault at any position of the run is an error** — for every method (every program), every store, every value of
the counter and every failing SET: if some failing ordinal `k` lies among the operations the fault-free run performs
(`n < k ≤ n + ops`), the run returns an error, never a value -/
theorem fault_at_k_is_error_gen {β} (p : Prog β) (m : KV) (n : Nat) (F : List Nat) (k : Nat) (hk : k ∈ F) (h1 : n < k)
    (h2 : k ≤ n + p.ops m) : (p.run ⟨m, n, F⟩).isOk = false := by
  obtain ⟨s', h⟩ := Prog.fault_is_err p m n F k hk h1 h2
  rw [h]; rfl

/-- **the `k`-th operation fails ⇒ error**, for every `k` from 1 to the number of operations of the fault-free run;
moreover exactly `k` operations were issued and the store is that of the fault-free run after `k - 1` operations -/
theorem fault_at_k_is_error {β} (p : Prog β) (m : KV) (k : Nat) (h1 : 1 ≤ k) (h2 : k ≤ p.ops m) :
    p.run (FStore.failAt m (some k)) = .err ⟨p.mAfter m (k - 1), k, [k]⟩ := by
  have := Prog.run_single p m 0 k (by omega) (by omega)
  simpa [FStore.failAt] using this
/-- non-vacuous, and exhaustive on an instance: the read-modify-write of one element of the stored chunk (0,0)
performs 2 operations; `k = 1` and `k = 2` both give an error and leave the store alone; `k = 3` is outside the run -/
example : (C01.exCfg.storeChunkSubsetP [0, 0] ⟨[0, 1], [1, 1]⟩ [7]).ops C20.exStore = 2 ∧
    (∀ k ∈ [1, 2], (C01.exCfg.storeChunkSubsetP [0, 0] ⟨[0, 1], [1, 1]⟩ [7]).run (FStore.failAt C20.exStore (some k)) =
      .err ⟨C20.exStore, k, [k]⟩) ∧
    ((C01.exCfg.storeChunkSubsetP [0, 0] ⟨[0, 1], [1, 1]⟩ [7]).run (FStore.failAt C20.exStore (some 3))).isOk = true := by
  decide

/-- **parallel multi-chunk methods**: for EVERY order in which the per-chunk closures are started and every failing
set with an ordinal among the operations of the (sequential, fault-free) run in that order, the method returns an
error — both when it stops at the first error and when every closure is started regardless (rayon) -/
theorem fault_at_k_is_error_par (pl : Plan) (order : List Idx) (m : KV) (n : Nat) (F : List Nat) (k : Nat) (hk : k ∈ F)
    (h1 : n < k) (h2 : k ≤ n + (pl.exec order).ops m) :
    ((pl.exec order).run ⟨m, n, F⟩).isOk = false ∧ (Prog.runAll (pl.steps order) ⟨m, n, F⟩).isOk = false := by
  constructor
  · exact fault_at_k_is_error_gen _ m n F k hk h1 h2
  · obtain ⟨s', h⟩ := Prog.runAll_fault_is_err (pl.steps order) m n F k hk h1 h2
    rw [h]; rfl
/-- non-vacuous: the four-chunk straddling write, closures started in the reverse order; all 7 positions checked -/
example : ((C01.exCfg.storeArraySubsetPlan C20.exRegion C20.exData).exec C20.exChunks.indices.reverse).ops C20.exStore = 7 ∧
    ∀ k ∈ [1, 2, 3, 4, 5, 6, 7],
      (Prog.runAll ((C01.exCfg.storeArraySubsetPlan C20.exRegion C20.exData).steps C20.exChunks.indices.reverse)
        (FStore.failAt C20.exStore (some k))).isOk = false := by decide

/-! ### `ops_count_deterministic` -/

/-- **the number of operations of a run is a function of the method and the store**: it does not depend on the value
of the counter nor on failing ordinals outside the run (so "every `k` up to `N`" is well defined, `N = p.ops m`) -/
theorem ops_count_deterministic {β} (p : Prog β) (m : KV) (n : Nat) (F : List Nat)
    (hF : ∀ k ∈ F, k ≤ n ∨ n + p.ops m < k) : (p.run ⟨m, n, F⟩).st.n = n + p.ops m := by
  have hnone : firstFail F n (p.ops m) = none := by
    cases h : firstFail F n (p.ops m) with
    | none => rfl
    | some j =>
      obtain ⟨h1, h2⟩ := firstFail_lt F _ n j h
      have := hF _ h2
      omega
  rw [Prog.run_of_none p m n F hnone]
  simp only [Prog.outcome]
  cases p.pure m <;> rfl
example : ((C01.exCfg.storeArraySubsetPlan C20.exRegion C20.exData).prog.run ⟨C20.exStore, 10, [3, 18]⟩).st.n = 17 := by
  decide

/-- **for the parallel multi-chunk writes the count does not depend on the order of the per-chunk closures either**:
when the fault-free `store_array_subset` / `store_chunks` over several chunks succeeds, the run with the closures in
ANY order (any permutation of `chunks.indices()`) performs the same number of operations — every closure touches only
its own chunk's key, and distinct chunks have distinct keys -/
theorem ops_count_order_independent (cfg : ArrCfg α) (hK : cfg.KeysInjective) (st stFull : KV) (region : Subset)
    (data : List α) (chunks : Subset) (hcw : chunks.wf = true) (order : List Idx) (hperm : order.Perm chunks.indices) :
    (ArrCfg.foldOpt (cfg.storeArraySubsetChunk region data) st chunks.indices = some stFull →
      (Prog.seq (order.map (cfg.storeArraySubsetStepP region data))).ops st =
        (Prog.seq (chunks.indices.map (cfg.storeArraySubsetStepP region data))).ops st) ∧
    (ArrCfg.foldOpt (cfg.storeChunksChunk region data) st chunks.indices = some stFull →
      (Prog.seq (order.map (cfg.storeChunksStepP region data))).ops st =
        (Prog.seq (chunks.indices.map (cfg.storeChunksStepP region data))).ops st) := by
  have hnd := ArrCfg.keys_nodup hK _ (chunks.indices_nodup hcw)
  constructor
  · intro hfull
    rw [ArrCfg.storeArraySubsetChunk_eq_kvStep] at hfull
    exact ArrCfg.seq_ops_perm _
      (fun m c => by rw [ArrCfg.storeArraySubsetStepP_pure, ArrCfg.storeArraySubsetChunk_eq_kvStep])
      (ArrCfg.storeArraySubsetStepP_onKey cfg region data) chunks.indices hnd st stFull hfull order hperm
  · intro hfull
    rw [ArrCfg.storeChunksChunk_eq_kvStep] at hfull
    exact ArrCfg.seq_ops_perm _
      (fun m c => by rw [ArrCfg.storeChunksStepP_pure, ArrCfg.storeChunksChunk_eq_kvStep])
      (ArrCfg.storeChunksStepP_onKey cfg region data) chunks.indices hnd st stFull hfull order hperm
/-- hypotheses satisfiable (the straddling write; the reverse order), conclusion evaluated: 7 operations both ways -/
example : C20.exChunks.indices.reverse.Perm C20.exChunks.indices ∧
    ArrCfg.foldOpt (C01.exCfg.storeArraySubsetChunk C20.exRegion C20.exData) C20.exStore C20.exChunks.indices =
      some C20.exFull ∧
    (Prog.seq (C20.exChunks.indices.reverse.map (C01.exCfg.storeArraySubsetStepP C20.exRegion C20.exData))).ops C20.exStore = 7 ∧
    (Prog.seq (C20.exChunks.indices.map (C01.exCfg.storeArraySubsetStepP C20.exRegion C20.exData))).ops C20.exStore = 7 :=
  ⟨List.reverse_perm _, by decide, by decide, by decide⟩

/-- a faulted run never issues more operations than the fault-free run -/
theorem ops_le_fault_free {β} (p : Prog β) (m : KV) (n : Nat) (F : List Nat) :
    n ≤ (p.run ⟨m, n, F⟩).st.n ∧ (p.run ⟨m, n, F⟩).st.n ≤ n + p.ops m :=
  (Prog.run_st p m n F).2

/-! ### atomicity of the single-chunk methods; `rmw_fault_on_read_leaves_chunk` -/

/-- **every single-chunk write method is atomic under faults**: `store_chunk`, `erase_chunk`, and
`store_chunk_subset` (whole-chunk path AND read-modify-write path) either succeed or return an error leaving the
store exactly as it was, whichever operation failed -/
theorem single_chunk_write_atomic (cfg : ArrCfg α) (st : KV) (n : Nat) (F : List Nat) (s' : FStore) :
    (∀ c d, (cfg.storeChunkP c d).run ⟨st, n, F⟩ = .err s' → s'.m = st) ∧
    (∀ c, (cfg.eraseChunkP c).run ⟨st, n, F⟩ = .err s' → s'.m = st) ∧
    (∀ c r d, (cfg.storeChunkSubsetP c r d).run ⟨st, n, F⟩ = .err s' → s'.m = st) :=
  ⟨fun c d h => Prog.writeLast_err _ (ArrCfg.storeChunkP_writeLast cfg c d) st n F s' h,
   fun c h => Prog.writeLast_err _ (ArrCfg.eraseChunkP_writeLast cfg c) st n F s' h,
   fun c r d h => Prog.writeLast_err _ (ArrCfg.storeChunkSubsetP_writeLast cfg c r d) st n F s' h⟩

/-- **a partial-chunk write is GET then SET/ERASE; a fault on either is an error and leaves the chunk's key (the whole
store) untouched**: for an accepted write on the read-modify-write path the fault-free run has exactly 2
operations; failing the 1st (the read) or the 2nd (the write, which is atomic) gives an error with the store
unchanged -/
theorem rmw_fault_on_read_leaves_chunk (cfg : ArrCfg α) (st st' : KV) (c : Idx) (r : Subset) (d : List α) (s : Shape)
    (hs : cfg.chunkShape c = some s) (hpart : (r.shape == s && r.start.all (· == 0)) = false)
    (hok : cfg.storeChunkSubset st c r d = some st') :
    (cfg.storeChunkSubsetP c r d).ops st = 2 ∧
    (cfg.storeChunkSubsetP c r d).run (FStore.failAt st (some 1)) = .err ⟨st, 1, [1]⟩ ∧
    (cfg.storeChunkSubsetP c r d).run (FStore.failAt st (some 2)) = .err ⟨st, 2, [2]⟩ := by
  have hops := ArrCfg.storeChunkSubsetP_ops_rmw cfg st st' c r d s hs hpart hok
  have hwl := ArrCfg.storeChunkSubsetP_writeLast cfg c r d
  refine ⟨hops, ?_, ?_⟩
  · rw [fault_at_k_is_error _ st 1 (by omega) (by omega), Prog.writeLast_mAfter_lt _ hwl st 0 (by omega)]
  · rw [fault_at_k_is_error _ st 2 (by omega) (by omega), Prog.writeLast_mAfter_lt _ hwl st 1 (by omega)]
/-- hypotheses satisfiable: one element of the stored chunk (0,0) of the example -/
example : C01.exCfg.chunkShape [0, 0] = some [2, 3] ∧
    ((Subset.mk [0, 1] [1, 1]).shape == [2, 3] && (Subset.mk [0, 1] [1, 1]).start.all (· == 0)) = false ∧
    C01.exCfg.storeChunkSubset C20.exStore [0, 0] ⟨[0, 1], [1, 1]⟩ [7] =
      some [(C01.exKey [0, 0], [1, 7, 3, 4, 5, 6]), (C01.exKey [2, 2], [9, 9, 9, 9, 9, 9])] := by decide

/-- **the seeded defect (a), as a counterexample**: the variant that maps a failed read to "absent"
(`self.retrieve…(..).ok().flatten()`, interpreter `Prog.runSwallow`) answers a fault on the GET with SUCCESS and
overwrites the chunk with fill + new data — `[0, 7, 0, 0, 0, 0]` instead of leaving `[1, 2, 3, 4, 5, 6]` -/
theorem rmw_swallowed_read_counterexample :
    (C01.exCfg.storeChunkSubsetP [0, 0] ⟨[0, 1], [1, 1]⟩ [7]).runSwallow (FStore.failAt C20.exStore (some 1)) =
      .ok () ⟨[(C01.exKey [0, 0], [0, 7, 0, 0, 0, 0]), (C01.exKey [2, 2], [9, 9, 9, 9, 9, 9])], 2, [1]⟩ ∧
    (C01.exCfg.storeChunkSubsetP [0, 0] ⟨[0, 1], [1, 1]⟩ [7]).run (FStore.failAt C20.exStore (some 1)) =
      .err ⟨C20.exStore, 1, [1]⟩ := by decide

/-! ### `whole_chunk_path_granular` -/

/-- chunk-granular state of a parallel method whose per-chunk steps are single-key steps (generic form) -/
theorem par_granular (keyOf : Idx → Key) (W : Idx → Option Bytes → Option (Option Bytes)) (stepP : Idx → Prog Unit)
    (href : ∀ m c, (stepP c).pure m = (ArrCfg.kvStep keyOf W m c).map (fun m' => ((), m')))
    (hwl : ∀ c, (stepP c).writeLast)
    (chunks : List Idx) (hndC : (chunks.map keyOf).Nodup) (st stFull : KV)
    (hfull : ArrCfg.foldOpt (ArrCfg.kvStep keyOf W) st chunks = some stFull)
    (order : List Idx) (hndO : (order.map keyOf).Nodup) (hsub : ∀ c ∈ order, c ∈ chunks) (n : Nat) (F : List Nat) :
    (∀ k : Key, (Prog.runAll (order.map stepP) ⟨st, n, F⟩).st.m.get k = st.get k ∨
        (Prog.runAll (order.map stepP) ⟨st, n, F⟩).st.m.get k = stFull.get k) ∧
    (∀ k : Key, ((Prog.seq (order.map stepP)).run ⟨st, n, F⟩).st.m.get k = st.get k ∨
        ((Prog.seq (order.map stepP)).run ⟨st, n, F⟩).st.m.get k = stFull.get k) := by
  constructor
  · obtain ⟨done, hsl, hfold, _⟩ := ArrCfg.runAll_done stepP _ href hwl order ⟨st, n, F⟩
    exact ArrCfg.kvStep_granular chunks hndC st stFull _ hfull done ((hsl.map keyOf).nodup hndO)
      (fun c hc => hsub c (hsl.subset hc)) hfold
  · obtain ⟨done, hsl, hfold, _⟩ := ArrCfg.seq_done stepP _ href hwl order ⟨st, n, F⟩
    exact ArrCfg.kvStep_granular chunks hndC st stFull _ hfull done ((hsl.map keyOf).nodup hndO)
      (fun c hc => hsub c (hsl.subset hc)) hfold

/-- **whole-chunk write path, operation level**: after `store_chunks` over a box of chunks under ANY failing set, with
the per-chunk closures started in ANY order and any part of them reached (`order`: duplicate-free, within the box),
every key of the store holds its previous value or its intended value (the value in the fault-free final state) —
whether the run stops at the first error or lets every started closure finish -/
theorem whole_chunk_path_granular (cfg : ArrCfg α) (hK : cfg.KeysInjective) (st stFull : KV) (box region : Subset)
    (data : List α) (hbw : box.wf = true)
    (hfull : ArrCfg.foldOpt (cfg.storeChunksChunk region data) st box.indices = some stFull)
    (order : List Idx) (hnd : order.Nodup) (hsub : ∀ c ∈ order, c ∈ box.indices) (n : Nat) (F : List Nat) :
    (∀ k : Key, (Prog.runAll (order.map (cfg.storeChunksStepP region data)) ⟨st, n, F⟩).st.m.get k = st.get k ∨
        (Prog.runAll (order.map (cfg.storeChunksStepP region data)) ⟨st, n, F⟩).st.m.get k = stFull.get k) ∧
    (∀ k : Key, ((Prog.seq (order.map (cfg.storeChunksStepP region data))).run ⟨st, n, F⟩).st.m.get k = st.get k ∨
        ((Prog.seq (order.map (cfg.storeChunksStepP region data))).run ⟨st, n, F⟩).st.m.get k = stFull.get k) := by
  rw [ArrCfg.storeChunksChunk_eq_kvStep] at hfull
  exact par_granular cfg.keyOf _ _
    (fun m c => by rw [ArrCfg.storeChunksStepP_pure, ArrCfg.storeChunksChunk_eq_kvStep])
    (ArrCfg.storeChunksStepP_writeLast cfg region data) box.indices
    (ArrCfg.keys_nodup hK _ (box.indices_nodup hbw)) st stFull hfull order (ArrCfg.keys_nodup hK _ hnd) hsub n F
/-- hypotheses satisfiable: `store_chunks` over the 2-chunk box (0,0)..(0,1) of the example array; the set of (0,1)
fails (`k = 2` in the canonical order); (0,0) holds its new value, (0,1) still nothing -/
example :
    let box : Subset := ⟨[0, 0], [1, 2]⟩
    let region : Subset := ⟨[0, 0], [2, 6]⟩
    let data : List Nat := [1, 2, 3, 4, 5, 6, 7, 8, 9, 10, 11, 12]
    C01.exCfg.KeysInjective ∧ box.wf = true ∧
    (C01.exCfg.storeChunksPlan box data).chunks = box.indices ∧ C01.exCfg.grid.chunksSubset box = some region ∧
    ArrCfg.foldOpt (C01.exCfg.storeChunksChunk region data) C20.exStore box.indices =
      some [(C01.exKey [0, 0], [1, 2, 3, 7, 8, 9]), (C01.exKey [0, 1], [4, 5, 6, 10, 11, 12]),
            (C01.exKey [2, 2], [9, 9, 9, 9, 9, 9])] ∧
    box.indices.Nodup ∧
    (Prog.runAll (box.indices.map (C01.exCfg.storeChunksStepP region data)) (FStore.failAt C20.exStore (some 2))) =
      .err ⟨[(C01.exKey [0, 0], [1, 2, 3, 7, 8, 9]), (C01.exKey [2, 2], [9, 9, 9, 9, 9, 9])], 2, [2]⟩ :=
  ⟨C01.exKey_inj, by decide, by decide, by decide, by decide, by decide, by decide⟩

/-- the same for `store_array_subset` over several chunks — whole-chunk steps AND read-modify-write steps: the write of
a chunk is one atomic store operation, so even the partial-chunk path leaves every key at its previous or its
intended value -/
theorem store_array_subset_granular (cfg : ArrCfg α) (hK : cfg.KeysInjective) (st stFull : KV) (region : Subset)
    (data : List α) (chunks : Subset) (hcw : chunks.wf = true)
    (hfull : ArrCfg.foldOpt (cfg.storeArraySubsetChunk region data) st chunks.indices = some stFull)
    (order : List Idx) (hnd : order.Nodup) (hsub : ∀ c ∈ order, c ∈ chunks.indices) (n : Nat) (F : List Nat) :
    (∀ k : Key, (Prog.runAll (order.map (cfg.storeArraySubsetStepP region data)) ⟨st, n, F⟩).st.m.get k = st.get k ∨
        (Prog.runAll (order.map (cfg.storeArraySubsetStepP region data)) ⟨st, n, F⟩).st.m.get k = stFull.get k) ∧
    (∀ k : Key, ((Prog.seq (order.map (cfg.storeArraySubsetStepP region data))).run ⟨st, n, F⟩).st.m.get k = st.get k ∨
        ((Prog.seq (order.map (cfg.storeArraySubsetStepP region data))).run ⟨st, n, F⟩).st.m.get k = stFull.get k) := by
  rw [ArrCfg.storeArraySubsetChunk_eq_kvStep] at hfull
  exact par_granular cfg.keyOf _ _
    (fun m c => by rw [ArrCfg.storeArraySubsetStepP_pure, ArrCfg.storeArraySubsetChunk_eq_kvStep])
    (ArrCfg.storeArraySubsetStepP_writeLast cfg region data) chunks.indices
    (ArrCfg.keys_nodup hK _ (chunks.indices_nodup hcw)) st stFull hfull order (ArrCfg.keys_nodup hK _ hnd) hsub n F
/-- hypotheses satisfiable: the straddling write of the example, closures started in reverse order, the 4th operation
(the GET of chunk (0,1), third closure started) fails: chunks (1,1) and (1,0) hold their new values, (0,1) and (0,0)
their previous ones -/
example : C01.exCfg.KeysInjective ∧ C20.exChunks.wf = true ∧
    ArrCfg.foldOpt (C01.exCfg.storeArraySubsetChunk C20.exRegion C20.exData) C20.exStore C20.exChunks.indices =
      some C20.exFull ∧
    C20.exChunks.indices.reverse.Nodup ∧ (∀ c ∈ C20.exChunks.indices.reverse, c ∈ C20.exChunks.indices) ∧
    (Prog.seq (C20.exChunks.indices.reverse.map (C01.exCfg.storeArraySubsetStepP C20.exRegion C20.exData))).run
        (FStore.failAt C20.exStore (some 4)) =
      .err ⟨[(C01.exKey [0, 0], [1, 2, 3, 4, 5, 6]), (C01.exKey [1, 0], [0, 0, 4, 0, 0, 8]),
             (C01.exKey [1, 1], [5, 6, 7, 9, 10, 11]), (C01.exKey [2, 2], [9, 9, 9, 9, 9, 9])], 4, [4]⟩ :=
  ⟨C01.exKey_inj, by decide, by decide, by decide, by decide, by decide⟩

/-! ### `retry_converges_ops` -/

/-- **retry, single-chunk methods (whole-chunk and read-modify-write path)**: a faulted run of a write-last method left
the store unchanged, so repeating the method without faults from the state the fault left IS the fault-free run -/
theorem retry_converges_ops_single (cfg : ArrCfg α) (st : KV) (c : Idx) (r : Subset) (d : List α) (n n' : Nat)
    (F : List Nat) (s' : FStore) (herr : (cfg.storeChunkSubsetP c r d).run ⟨st, n, F⟩ = .err s') :
    ((cfg.storeChunkSubsetP c r d).run ⟨s'.m, n', []⟩).val? = ((cfg.storeChunkSubsetP c r d).run ⟨st, n', []⟩).val? ∧
    ((cfg.storeChunkSubsetP c r d).run ⟨s'.m, n', []⟩).st.m = ((cfg.storeChunkSubsetP c r d).run ⟨st, n', []⟩).st.m := by
  rw [Prog.writeLast_err _ (ArrCfg.storeChunkSubsetP_writeLast cfg c r d) st n F s' herr]
  exact ⟨rfl, rfl⟩
example : (C01.exCfg.storeChunkSubsetP [0, 0] ⟨[0, 1], [1, 1]⟩ [7]).run ⟨C20.exStore, 0, [2]⟩ =
    .err ⟨C20.exStore, 2, [2]⟩ := by decide

/-- **retry, multi-chunk `store_array_subset`**: after a faulted run (ANY failing set, closures started in ANY order,
any part of them reached, run stopped at the first error or not) repeating the whole method without faults gives the
fault-free final state -/
theorem retry_converges_ops (cfg : ArrCfg α) (hL : cfg.Lossless) (hK : cfg.KeysInjective) (st stFull : KV)
    (hs : st.sorted) (region : Subset) (data : List α) (chunks : Subset) (hw : region.wf = true) (hcw : chunks.wf = true)
    (hfull : ArrCfg.foldOpt (cfg.storeArraySubsetChunk region data) st chunks.indices = some stFull)
    (order : List Idx) (hnd : order.Nodup) (hsub : ∀ c ∈ order, c ∈ chunks.indices) (n n' : Nat) (F : List Nat) :
    (Prog.seq (chunks.indices.map (cfg.storeArraySubsetStepP region data))).run
        ⟨(Prog.runAll (order.map (cfg.storeArraySubsetStepP region data)) ⟨st, n, F⟩).st.m, n', []⟩ =
      .ok () ⟨stFull, n' + (Prog.seq (chunks.indices.map (cfg.storeArraySubsetStepP region data))).ops
        (Prog.runAll (order.map (cfg.storeArraySubsetStepP region data)) ⟨st, n, F⟩).st.m, []⟩ ∧
    (Prog.seq (chunks.indices.map (cfg.storeArraySubsetStepP region data))).run
        ⟨((Prog.seq (order.map (cfg.storeArraySubsetStepP region data))).run ⟨st, n, F⟩).st.m, n', []⟩ =
      .ok () ⟨stFull, n' + (Prog.seq (chunks.indices.map (cfg.storeArraySubsetStepP region data))).ops
        ((Prog.seq (order.map (cfg.storeArraySubsetStepP region data))).run ⟨st, n, F⟩).st.m, []⟩ := by
  have href : ∀ m c, (cfg.storeArraySubsetStepP region data c).pure m =
      (ArrCfg.kvStep cfg.keyOf (cfg.storeArraySubsetChunkW region data) m c).map (fun m' => ((), m')) :=
    fun m c => by rw [ArrCfg.storeArraySubsetStepP_pure, ArrCfg.storeArraySubsetChunk_eq_kvStep]
  have hwl := ArrCfg.storeArraySubsetStepP_writeLast cfg region data
  rw [ArrCfg.storeArraySubsetChunk_eq_kvStep] at hfull
  have hndC := ArrCfg.keys_nodup hK _ (chunks.indices_nodup hcw)
  have hndO := ArrCfg.keys_nodup hK _ hnd
  have hidem : ∀ c old w, cfg.storeArraySubsetChunkW region data c old = some w →
      cfg.storeArraySubsetChunkW region data c w = some w :=
    fun c old w h => ArrCfg.storeArraySubsetChunkW_idem hL region data hw c old w h
  have conv : ∀ st', (∃ done : List Idx, done.Sublist order ∧
      ArrCfg.foldOpt (ArrCfg.kvStep cfg.keyOf (cfg.storeArraySubsetChunkW region data)) st done = some st') →
      (Prog.seq (chunks.indices.map (cfg.storeArraySubsetStepP region data))).run ⟨st', n', []⟩ =
        .ok () ⟨stFull, n' + (Prog.seq (chunks.indices.map (cfg.storeArraySubsetStepP region data))).ops st', []⟩ := by
    intro st' ⟨done, hsl, hfold⟩
    have hretry := ArrCfg.kvStep_retry hK hidem chunks.indices hndC st stFull st' hs hfull done
      ((hsl.map cfg.keyOf).nodup hndO) (fun c hc => hsub c (hsl.subset hc)) hfold
    apply (run_nofault _ st' n').1 () stFull
    rw [ArrCfg.seq_map_pure _ _ href, hretry]
    rfl
  constructor
  · obtain ⟨done, hsl, hfold, _⟩ := ArrCfg.runAll_done _ _ href hwl order ⟨st, n, F⟩
    exact conv _ ⟨done, hsl, hfold⟩
  · obtain ⟨done, hsl, hfold, _⟩ := ArrCfg.seq_done _ _ href hwl order ⟨st, n, F⟩
    exact conv _ ⟨done, hsl, hfold⟩
/-- hypotheses satisfiable, conclusion evaluated: the state left by the faulted run of the previous example (4th
operation failed, reverse order), retried in the canonical order, ends in `C20.exFull` -/
example : C01.exCfg.Lossless ∧ C20.exStore.sorted ∧ C20.exRegion.wf = true ∧
    (Prog.seq (C20.exChunks.indices.map (C01.exCfg.storeArraySubsetStepP C20.exRegion C20.exData))).run
      ⟨((Prog.seq (C20.exChunks.indices.reverse.map (C01.exCfg.storeArraySubsetStepP C20.exRegion C20.exData))).run
          (FStore.failAt C20.exStore (some 4))).st.m, 0, []⟩ = .ok () ⟨C20.exFull, 7, []⟩ :=
  ⟨fun _ => rfl, by unfold KV.sorted; decide, by decide, by decide⟩

/-- **retry, metadata**: storing V2 metadata is `.zattrs` then the V2 document; a fault on the second operation leaves
the new `.zattrs` beside the old document; repeating `store_metadata` gives — key by key — the fault-free state -/
theorem retry_converges_store_metadata (m : KV) (pre k2 : Key) (doc : MetaDoc) (n n' : Nat) (F : List Nat) (k : Key) :
    ((storeMetadataP pre k2 doc).run ⟨((storeMetadataP pre k2 doc).run ⟨m, n, F⟩).st.m, n', []⟩).st.m.get k =
      ((storeMetadataP pre k2 doc).run ⟨m, n', []⟩).st.m.get k := by
  obtain ⟨j, hj⟩ := Prog.run_st_mAfter (storeMetadataP pre k2 doc) m n F
  rw [hj, Prog.run_nofault, Prog.run_nofault]
  cases doc with
  | v3 js =>
    match j with
    | 0 => simp only [storeMetadataP, Prog.outcome, Prog.pure, Prog.mAfter, FR.st]
    | j + 1 =>
      simp only [storeMetadataP, Prog.outcome, Prog.pure, Prog.mAfter, FR.st]
      exact put_put_get m _ _ k
  | v2 d a =>
    cases a with
    | some a =>
      match j with
      | 0 => simp only [storeMetadataP, Prog.outcome, Prog.pure, Prog.mAfter, FR.st]
      | 1 =>
        simp only [storeMetadataP, Prog.outcome, Prog.pure, Prog.mAfter, FR.st, KV.get_put]
        repeat' split
        all_goals rfl
      | j + 2 =>
        simp only [storeMetadataP, Prog.outcome, Prog.pure, Prog.mAfter, FR.st, KV.get_put]
        repeat' split
        all_goals rfl
    | none =>
      match j with
      | 0 => simp only [storeMetadataP, Prog.outcome, Prog.pure, Prog.mAfter, FR.st]
      | 1 =>
        simp only [storeMetadataP, Prog.outcome, Prog.pure, Prog.mAfter, FR.st, KV.get_put, KV.get_erase]
        repeat' split
        all_goals rfl
      | j + 2 =>
        simp only [storeMetadataP, Prog.outcome, Prog.pure, Prog.mAfter, FR.st, KV.get_put, KV.get_erase]
        repeat' split
        all_goals rfl
/-- the intermediate state is real: V2 metadata with attributes over an older document, second operation failed -/
example : (storeMetadataP "a/".toList kZarray (.v2 [2] (some [7]))).run
      (FStore.failAt [("a/.zarray".toList, [1])] (some 2)) =
    .err ⟨[("a/.zarray".toList, [1]), ("a/.zattrs".toList, [7])], 2, [2]⟩ := by decide

/-! ### `read_fault_no_effect` -/

/-- **faulted reads leave the store unchanged**: every read method — `retrieve_chunk[_if_exists]`,
`retrieve_chunk_subset`, `retrieve_array_subset` (any order of the closures), the fill closure of a chunk cache, the
opens and listings — leaves the store exactly as it was under EVERY failing set, whatever it returns -/
theorem read_fault_no_effect (cfg : ArrCfg α) (extra : Option Bytes → Subset → Nat) (r : Reader) (st : KV) (n : Nat)
    (F : List Nat) :
    (∀ c, ((cfg.retrieveChunkP c).run ⟨st, n, F⟩).st.m = st) ∧
    (∀ c, ((cfg.retrieveChunkIfExistsP c).run ⟨st, n, F⟩).st.m = st) ∧
    (∀ c sub, ((cfg.retrieveChunkSubsetP extra c sub).run ⟨st, n, F⟩).st.m = st) ∧
    (∀ order region, ((cfg.retrieveArraySubsetP extra order region).run ⟨st, n, F⟩).st.m = st) ∧
    (∀ kind c, ((cfg.cacheFillP kind c).run ⟨st, n, F⟩).st.m = st) ∧
    (∀ pre k2 ok3 ok2 okA, ((openMetaP pre k2 ok3 ok2 okA).run ⟨st, n, F⟩).st.m = st) ∧
    (∀ fuel pre, ((openNodeP r fuel pre).run ⟨st, n, F⟩).st.m = st) ∧
    (∀ pre, ((childrenP r pre).run ⟨st, n, F⟩).st.m = st) :=
  ⟨fun c => Prog.readOnly_run _ (ArrCfg.retrieveChunkP_readOnly cfg c) st n F,
   fun c => Prog.readOnly_run _ (ArrCfg.retrieveChunkIfExistsP_readOnly cfg c) st n F,
   fun c sub => Prog.readOnly_run _ (ArrCfg.retrieveChunkSubsetP_readOnly cfg extra c sub) st n F,
   fun order region => Prog.readOnly_run _ (ArrCfg.retrieveArraySubsetP_readOnly cfg extra order region) st n F,
   fun kind c => Prog.readOnly_run _ (ArrCfg.cacheFillP_readOnly cfg kind c) st n F,
   fun pre k2 ok3 ok2 okA => Prog.readOnly_run _ (openMetaP_readOnly pre k2 ok3 ok2 okA) st n F,
   fun fuel pre => Prog.readOnly_run _ (openNodeP_readOnly r fuel pre) st n F,
   fun pre => Prog.readOnly_run _ (childrenP_readOnly r pre) st n F⟩
example : ((C01.exCfg.retrieveArraySubsetP ArrCfg.noExtra List.reverse C20.exRegion).run ⟨C20.exFull, 0, [3]⟩) =
    .err ⟨C20.exFull, 3, [3]⟩ := by decide

/-- **failed reads are not cached, operation level**: on a miss, a fault at ANY store operation of the fill closure
(`n < k ≤ n + ops`) makes the cached read return an error and leaves the cache — and the store — exactly as they
were; nothing is inserted -/
theorem failed_read_not_cached_ops (cfg : ArrCfg α) (kind : CacheKind) (evict : Cache α → Cache α) (cache : Cache α)
    (c : Idx) (st : KV) (n : Nat) (F : List Nat) (k : Nat) (hmiss : cache.lookup c = none) (hk : k ∈ F) (h1 : n < k)
    (h2 : k ≤ n + (cfg.cacheFillP kind c).ops st) :
    (cfg.cachedRetrieveChunkF kind evict cache c ⟨st, n, F⟩).2 = cache ∧
    (cfg.cachedRetrieveChunkF kind evict cache c ⟨st, n, F⟩).1.isOk = false ∧
    (cfg.cachedRetrieveChunkF kind evict cache c ⟨st, n, F⟩).1.st.m = st := by
  obtain ⟨s', h⟩ := Prog.fault_is_err (cfg.cacheFillP kind c) st n F k hk h1 h2
  have hm : s'.m = st := by
    have := Prog.readOnly_run _ (ArrCfg.cacheFillP_readOnly cfg kind c) st n F
    rw [h] at this
    exact this
  have e : cfg.cachedRetrieveChunkF kind evict cache c ⟨st, n, F⟩ = (.err s', cache) := by
    simp only [ArrCfg.cachedRetrieveChunkF, hmiss, h]
  rw [e]
  exact ⟨rfl, rfl, hm⟩
/-- hypotheses satisfiable: a non-empty decoded cache missing chunk (0,0); the one GET of the fill closure fails;
afterwards, without fault, the same cached read succeeds and inserts the chunk -/
example :
    let cache : Cache Nat := [([2, 2], CacheEntry.decoded [9, 9, 9, 9, 9, 9])]
    cache.lookup [0, 0] = none ∧ (C01.exCfg.cacheFillP .decoded [0, 0]).ops C20.exStore = 1 ∧
    (C01.exCfg.cachedRetrieveChunkF .decoded id cache [0, 0] ⟨C20.exStore, 0, [1]⟩).1.isOk = false ∧
    (C01.exCfg.cachedRetrieveChunkF .decoded id cache [0, 0] ⟨C20.exStore, 0, []⟩).1.val? = some [1, 2, 3, 4, 5, 6] ∧
    ((C01.exCfg.cachedRetrieveChunkF .decoded id cache [0, 0] ⟨C20.exStore, 0, []⟩).2.lookup [0, 0]).isSome = true := by
  decide

/-- the cached read over a store that does not fail is the cached read of `Model/Cache.lean` (valid chunk indices) -/
theorem fops_refines_cache (cfg : ArrCfg α) (kind : CacheKind) (evict : Cache α → Cache α) (cache : Cache α) (c : Idx)
    (st : KV) (n : Nat) (hc : (cfg.chunkShape c).isSome = true) :
    (cfg.cachedRetrieveChunkF kind evict cache c ⟨st, n, []⟩).1.val? = (cfg.cachedRetrieveChunk st kind evict cache c).1 ∧
    (cfg.cachedRetrieveChunkF kind evict cache c ⟨st, n, []⟩).2 = (cfg.cachedRetrieveChunk st kind evict cache c).2 := by
  obtain ⟨s, hs⟩ := Option.isSome_iff_exists.1 hc
  simp only [ArrCfg.cachedRetrieveChunkF, ArrCfg.cachedRetrieveChunk]
  cases cache.lookup c with
  | some e =>
    simp only
    generalize cfg.cacheDecode c e = dec
    cases dec <;> simp [FR.val?]
  | none =>
    simp only
    have hfill : (cfg.cacheFillP kind c).pure st = (cfg.cacheFill st kind c).map (fun e => (e, st)) := by
      cases kind with
      | decoded =>
        simp only [ArrCfg.cacheFillP, ArrCfg.cacheFill]
        rw [Prog.bind_ret_pure, ArrCfg.retrieveChunkP_pure]
        cases cfg.retrieveChunk st c <;> rfl
      | encoded => simp only [ArrCfg.cacheFillP, ArrCfg.cacheFill, hs, Prog.pure]; rfl
    rw [Prog.run_nofault]
    simp only [Prog.outcome, hfill]
    cases cfg.cacheFill st kind c with
    | none => exact ⟨rfl, rfl⟩
    | some e =>
      simp only [Option.map_some]
      cases hd : cfg.cacheDecode c e <;> simp [FR.val?]

/-! ### `open_v2_faults` -/

/-- **opening a Zarr V2 array or group is three reads — `zarr.json` (absent), the V2 document, `.zattrs` — and a fault
on any of the three is an error** (`k2 = .zarray` for `Array::open`, `.zgroup` for `Group::open`) -/
theorem open_v2_faults (m : KV) (pre k2 : Key) (ok3 ok2 okAttrs : Bytes → Bool) (d : Bytes)
    (h3 : m.get (pre ++ kZarrJson) = none) (h2 : m.get (pre ++ k2) = some d) (hok : ok2 d = true) :
    (openMetaP pre k2 ok3 ok2 okAttrs).ops m = 3 ∧
    ∀ k ∈ [1, 2, 3], (openMetaP pre k2 ok3 ok2 okAttrs).run (FStore.failAt m (some k)) = .err ⟨m, k, [k]⟩ := by
  have hops := openMetaP_ops_v2 m pre k2 ok3 ok2 okAttrs d h3 h2 hok
  refine ⟨hops, ?_⟩
  intro k hk
  have hk' : 1 ≤ k ∧ k ≤ 3 := by
    simp only [List.mem_cons, List.mem_nil_iff, or_false] at hk
    omega
  rw [fault_at_k_is_error _ m k hk'.1 (by omega), Prog.readOnly_mAfter _ (openMetaP_readOnly pre k2 ok3 ok2 okAttrs)]

/-- the V2 group of the harness (`grp2_c20/.zgroup`, `grp2_c20/.zattrs`) -/
def exV2 : KV := [("g/.zattrs".toList, [5, 5]), ("g/.zgroup".toList, [2])]
example : exV2.get ("g/".toList ++ kZarrJson) = none ∧ exV2.get ("g/".toList ++ kZgroup) = some [2] ∧
    (openMetaP "g/".toList kZgroup (fun _ => true) (fun _ => true) (fun _ => true)).run ⟨exV2, 0, []⟩ =
      .ok (.v2 [2] (some [5, 5])) ⟨exV2, 3, []⟩ := by decide

/-- **the seeded defect (b), as a counterexample**: with the error of the third read swallowed (`Prog.runSwallow`), a
fault on the `.zattrs` read makes `Group::open` SUCCEED with no attributes although `.zattrs` is stored; the real
sequence (`Prog.run`) returns an error -/
theorem open_v2_swallowed_attrs_counterexample :
    (openMetaP "g/".toList kZgroup (fun _ => true) (fun _ => true) (fun _ => true)).runSwallow (FStore.failAt exV2 (some 3)) =
      .ok (.v2 [2] none) ⟨exV2, 3, [3]⟩ ∧
    (openMetaP "g/".toList kZgroup (fun _ => true) (fun _ => true) (fun _ => true)).run (FStore.failAt exV2 (some 3)) =
      .err ⟨exV2, 3, [3]⟩ := by decide

/-- `Node::open` of a Zarr V2 group without children: `get_metadata` (4 reads: `zarr.json`, `.zarray`, `.zgroup`,
`.zattrs`) and one `list_dir`; all 5 positions are errors -/
example :
    let r : Reader := ⟨fun _ => none, fun _ => true, fun _ => true, fun _ => true⟩
    (openNodeP r (depthBound exV2) "g/".toList).ops exV2 = 5 ∧
    (openNodeP r (depthBound exV2) "g/".toList).run ⟨exV2, 0, []⟩ = .ok [("g/".toList, .group2)] ⟨exV2, 5, []⟩ ∧
    ∀ k ∈ [1, 2, 3, 4, 5], ((openNodeP r (depthBound exV2) "g/".toList).run (FStore.failAt exV2 (some k))).isOk = false := by
  decide

/-- storing / erasing metadata: the V3 forms are one operation, the V2 forms two; every position is an error -/
example :
    (storeMetadataP "a/".toList kZarray (.v3 [1])).ops [] = 1 ∧
    (storeMetadataP "a/".toList kZarray (.v2 [1] (some [2]))).ops [] = 2 ∧
    (storeMetadataP "a/".toList kZarray (.v2 [1] none)).ops [] = 2 ∧
    (eraseMetadataP "a/".toList kZarray .v3).ops [] = 1 ∧ (eraseMetadataP "a/".toList kZarray .v2).ops [] = 2 ∧
    (eraseMetadataP "a/".toList kZarray .all).ops [] = 3 ∧
    (∀ k ∈ [1, 2], ((storeMetadataP "a/".toList kZarray (.v2 [1] none)).run (FStore.failAt [] (some k))).isOk = false) := by
  decide

end Zarrs.C20Ops
