import ZarrsModel.Model.Shard
import ZarrsModel.Lemmas.Checksum
/-
C15 — corrupted stored data is reported, never silently decoded and never a crash.
-/
namespace Zarrs.C15
open Zarrs Zarrs.Codec

def wfBytes (b : Bytes) : Prop := ∀ x ∈ b, x < 256

/-- alter byte `k` by XOR with a non-zero byte `d` -/
def xorAt (b : Bytes) (k d : Nat) : Bytes := b.set k (b.getD k 0 ^^^ d)

/-- **CRC-32C detects every single-byte alteration** of `payload ++ checksum`, for every payload of any length
and every position (payload or checksum) -/
theorem crc32c_single_byte (p : Bytes) (hp : wfBytes p) (k d : Nat) (hk : k < p.length + 4)
    (hd0 : 0 < d) (hd : d < 256) :
    crc32cDec true (xorAt (crc32cEnc p) k d) = .error .invalidChecksum := by
  have _ := hp   -- not needed: the register difference does not depend on the byte values
  exact crc32c_detects p k d hk hd0 hd

example : wfBytes [1, 2, 3] ∧ 1 < [1, 2, 3].length + 4 ∧ 0 < 0x80 ∧ 0x80 < 256 := by
  refine ⟨?_, by decide, by decide, by decide⟩
  intro x hx; simp at hx; omega
example : crc32cDec true (xorAt (crc32cEnc [1, 2, 3]) 1 0x80) = .error .invalidChecksum := by rfl
example : crc32cDec true (xorAt (crc32cEnc [1, 2, 3]) 5 0x01) = .error .invalidChecksum := by rfl
example : crc32cDec true (crc32cEnc [1, 2, 3]) = .ok [1, 2, 3] := by rfl

/-- **Fletcher-32 (HDF5 variant, odd lengths included) detects every single-byte alteration** -/
theorem fletcher32_single_byte (p : Bytes) (hp : wfBytes p) (k d : Nat) (hk : k < p.length + 4)
    (hd0 : 0 < d) (hd : d < 256) :
    fletcher32Dec true (xorAt (fletcher32Enc p) k d) = .error .invalidChecksum := by
  exact fletcher32_detects p hp k d hk hd0 hd

example : wfBytes [1, 2, 255] ∧ 2 < [1, 2, 255].length + 4 ∧ 0 < 0xFF ∧ 0xFF < 256 := by
  refine ⟨?_, by decide, by decide, by decide⟩
  intro x hx; simp at hx; omega
example : fletcher32Dec true (xorAt (fletcher32Enc [1, 2, 255]) 2 0xFF) = .error .invalidChecksum := by rfl
example : fletcher32Dec true (xorAt (fletcher32Enc [1, 2, 255]) 4 0x10) = .error .invalidChecksum := by rfl
example : fletcher32Dec true (fletcher32Enc [1, 2, 255]) = .ok [1, 2, 255] := by rfl

/-- with validation off, decoding strips the checksum and does nothing else (for ANY stored bytes) -/
theorem novalidate_only_strips (sum : Bytes → Nat) (b : Bytes) (h : 4 ≤ b.length) :
    checksumDec sum false b = .ok (b.take (b.length - 4)) := by
  unfold checksumDec
  rw [if_neg (by omega)]
  simp

example : checksumDec crc32c false [9, 8, 7, 6, 5, 4] = .ok [9, 8] := by rfl

/-- a value too short to hold a checksum is an error, validated or not -/
theorem checksum_too_short (sum : Bytes → Nat) (validate : Bool) (b : Bytes) (h : b.length < 4) :
    checksumDec sum validate b = .error .tooShort := by
  unfold checksumDec
  rw [if_pos h]

example : checksumDec crc32c true [1, 2, 3] = .error .tooShort := by rfl

/-- decoding never "succeeds with different data": if a validated decode succeeds on ANY bytes, the result is the
stored prefix and its checksum matches -/
theorem checksum_ok_iff (sum : Bytes → Nat) (b p : Bytes) :
    checksumDec sum true b = .ok p ↔ (4 ≤ b.length ∧ p = b.take (b.length - 4) ∧ le32 (sum p) = b.drop (b.length - 4)) := by
  unfold checksumDec
  by_cases h : b.length < 4
  · rw [if_pos h]
    constructor
    · intro h'; cases h'
    · intro h'; omega
  · rw [if_neg h]
    simp only [Bool.true_and]
    by_cases hs : le32 (sum (b.take (b.length - 4))) = b.drop (b.length - 4)
    · simp only [hs, bne_self_eq_false, Bool.false_eq_true, if_false, Except.ok.injEq]
      constructor
      · intro h'; subst h'; exact ⟨by omega, rfl, hs⟩
      · intro h'; exact h'.2.1.symm
    · have : (le32 (sum (b.take (b.length - 4))) != b.drop (b.length - 4)) = true := by simpa using hs
      simp only [this, if_true]
      constructor
      · intro h'; cases h'
      · intro h'; obtain ⟨_, h2, h3⟩ := h'; subst h2; exact absurd h3 hs

/-- **shards**: a value shorter than its index is an error -/
theorem shard_truncated (c : Shard.Cfg) (validate : Bool) (v : Bytes) (h : v.length < Shard.indexSize c) :
    Shard.decode c validate v = .error .tooShort := by
  unfold Shard.decode Shard.indexBytes
  rw [if_pos h]

example : Shard.decode ⟨2, true, false, true⟩ true [1, 2, 3] = .error .tooShort := by rfl

/-- **shards**: a live index entry reaching outside the value — including `offset + nbytes` beyond 2^64 — is an
error, never bytes from elsewhere -/
theorem shard_entry_out_of_bounds (c : Shard.Cfg) (validate : Bool) (v ib : Bytes) (entries : List (Nat × Nat))
    (hib : Shard.indexBytes c v = some ib) (hdec : Shard.decodeIndex c validate ib = .ok entries)
    (e : Nat × Nat) (he : e ∈ entries) (hlive : Shard.isLive e = true) (hout : e.1 + e.2 > v.length) :
    ∃ err, Shard.decode c validate v = .error err := by
  cases hres : Shard.decode c validate v with
  | error err => exact ⟨err, rfl⟩
  | ok chunks =>
    exfalso
    unfold Shard.decode at hres
    simp only [hib, hdec] at hres
    obtain ⟨_, hall⟩ := mapM_except_ok _ _ _ hres
    obtain ⟨i, hi, rfl⟩ := List.getElem_of_mem he
    have := hall i hi (by omega)
    unfold Shard.isLive at hlive
    simp only [Bool.not_eq_true'] at hlive
    simp only [hlive, Bool.false_eq_true, if_false, if_pos hout] at this
    cases this

/- the hypotheses are satisfiable: a 16-byte shard (index at end, no crc) whose only entry `(5, 100)` is live and
reaches outside the value -/
example : let c : Shard.Cfg := ⟨1, true, false, false⟩; let v := le64 5 ++ le64 100
    Shard.indexBytes c v = some v ∧ Shard.decodeIndex c true v = .ok [(5, 100)] ∧
    Shard.isLive (5, 100) = true ∧ (5 + 100 > v.length) ∧ Shard.decode c true v = .error .other := by
  refine ⟨by rfl, by rfl, by rfl, by decide, by rfl⟩
/- `offset + nbytes ≥ 2^64` -/
example : Shard.decode ⟨1, true, false, false⟩ true (le64 (2 ^ 64 - 2) ++ le64 3) = .error .other := by rfl

/-- **shards**: whenever decoding ANY bytes succeeds, every returned inner chunk is a slice of the stored value at
the position its index entry names (no out-of-bounds access, no bytes from elsewhere) -/
theorem shard_decode_ok_slices (c : Shard.Cfg) (validate : Bool) (v : Bytes) (chunks : List (Option Bytes))
    (h : Shard.decode c validate v = .ok chunks) :
    ∃ ib entries, Shard.indexBytes c v = some ib ∧ Shard.decodeIndex c validate ib = .ok entries ∧
      chunks.length = entries.length ∧
      ∀ i (hi : i < entries.length) (hc : i < chunks.length),
        (Shard.isLive entries[i] = false → chunks[i] = none) ∧
        (Shard.isLive entries[i] = true → entries[i].1 + entries[i].2 ≤ v.length ∧
          chunks[i] = some (slice v entries[i].1 (entries[i].1 + entries[i].2))) := by
  unfold Shard.decode at h
  cases hib : Shard.indexBytes c v with
  | none => simp [hib] at h
  | some ib =>
    cases hdec : Shard.decodeIndex c validate ib with
    | error e => simp [hib, hdec] at h
    | ok entries =>
      simp only [hib, hdec] at h
      obtain ⟨hlen, hall⟩ := mapM_except_ok _ _ _ h
      refine ⟨ib, entries, rfl, hdec, hlen, ?_⟩
      intro i hi hc
      have := hall i hi hc
      unfold Shard.isLive
      constructor
      · intro hl
        simp only [Bool.not_eq_false'] at hl
        simp only [hl, if_true] at this
        exact (Except.ok.inj this).symm
      · intro hl
        simp only [Bool.not_eq_true'] at hl
        simp only [hl, Bool.false_eq_true, if_false] at this
        by_cases hout : entries[i].1 + entries[i].2 > v.length
        · rw [if_pos hout] at this; cases this
        · rw [if_neg hout] at this
          exact ⟨by omega, (Except.ok.inj this).symm⟩

example : Shard.decode ⟨2, true, false, false⟩ true ([7, 8, 9] ++ le64 1 ++ le64 2 ++ le64 Shard.sentinel ++ le64 Shard.sentinel) =
    .ok [some [8, 9], none] := by rfl

/-- an index protected by crc32c: any single-byte alteration of the index bytes is detected -/
theorem shard_index_single_byte (c : Shard.Cfg) (hc : c.indexCrc = true) (entries : List (Nat × Nat))
    (hn : entries.length = c.nChunks) (hw : ∀ e ∈ entries, e.1 < 2 ^ 64 ∧ e.2 < 2 ^ 64)
    (k d : Nat) (hk : k < Shard.indexSize c) (hd0 : 0 < d) (hd : d < 256) :
    Shard.decodeIndex c true (xorAt (Shard.encodeIndex c entries) k d) = .error .invalidChecksum := by
  have _ := hw   -- not needed (CRC detection is independent of the byte values)
  have hraw := rawIndex_length c.indexBig entries
  have hlen : (xorAt (Shard.encodeIndex c entries) k d).length = Shard.indexSize c := by
    unfold xorAt Shard.encodeIndex Shard.indexSize
    simp only [hc, if_true, List.length_set, crc32cEnc, checksumEnc, List.length_append, hraw, le32_length, hn]
  unfold Shard.decodeIndex
  rw [if_neg (by simp [hlen])]
  simp only [hc, if_true]
  have hk' : k < (entries.flatMap (fun e => Shard.w64 c.indexBig e.1 ++ Shard.w64 c.indexBig e.2)).length + 4 := by
    rw [hraw, hn]; unfold Shard.indexSize at hk; simpa [hc] using hk
  have := crc32c_detects _ k d hk' hd0 hd
  unfold xorAt Shard.encodeIndex
  simp only [hc, if_true]
  rw [this]

example : let c : Shard.Cfg := ⟨1, true, false, true⟩
    c.indexCrc = true ∧ [(3, 5)].length = c.nChunks ∧ (∀ e ∈ [(3, 5)], e.1 < 2 ^ 64 ∧ e.2 < 2 ^ 64) ∧
    8 < Shard.indexSize c := by
  refine ⟨rfl, rfl, ?_, by decide⟩
  intro e he; simp at he; subst he; decide
set_option maxRecDepth 4000 in
example : Shard.decodeIndex ⟨1, true, false, true⟩ true
    (xorAt (Shard.encodeIndex ⟨1, true, false, true⟩ [(3, 5)]) 8 0x04) = .error .invalidChecksum := by rfl
set_option maxRecDepth 4000 in
example : Shard.decodeIndex ⟨1, true, false, true⟩ true
    (Shard.encodeIndex ⟨1, true, false, true⟩ [(3, 5)]) = .ok [(3, 5)] := by rfl

end Zarrs.C15
