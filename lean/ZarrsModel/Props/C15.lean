import ZarrsModel.Model.Shard
import ZarrsModel.Lemmas.Checksum
/-
C15 — corrupted stored data is reported, never silently decoded and never a crash.
-/
namespace Zarrs.C15
open Zarrs Zarrs.Codec

def wfBytes (b : Bytes) : Prop := ∀ x ∈ b, x < 256

/-- alter byte `k` by XOR with a non-zero byte `d` -/
def xorAt (b : Bytes) (k d : Nat) : Bytes := b.set k (b.getD k 0 ^^^ d)

/-- **CRC-32C detects every single-byte alteration** of `payload ++ checksum`, for every payload of any length
and every position (payload or checksum) -/
theorem crc32c_single_byte (p : Bytes) (hp : wfBytes p) (k d : Nat) (hk : k < p.length + 4)
    (hd0 : 0 < d) (hd : d < 256) :
    crc32cDec true (xorAt (crc32cEnc p) k d) = .error .invalidChecksum := by
  sorry

/-- **Fletcher-32 (HDF5 variant, odd lengths included) detects every single-byte alteration** -/
theorem fletcher32_single_byte (p : Bytes) (hp : wfBytes p) (k d : Nat) (hk : k < p.length + 4)
    (hd0 : 0 < d) (hd : d < 256) :
    fletcher32Dec true (xorAt (fletcher32Enc p) k d) = .error .invalidChecksum := by
  sorry

/-- with validation off, decoding strips the checksum and does nothing else (for ANY stored bytes) -/
theorem novalidate_only_strips (sum : Bytes → Nat) (b : Bytes) (h : 4 ≤ b.length) :
    checksumDec sum false b = .ok (b.take (b.length - 4)) := by
  sorry

/-- a value too short to hold a checksum is an error, validated or not -/
theorem checksum_too_short (sum : Bytes → Nat) (validate : Bool) (b : Bytes) (h : b.length < 4) :
    checksumDec sum validate b = .error .tooShort := by
  sorry

/-- decoding never "succeeds with different data": if a validated decode succeeds on ANY bytes, the result is the
stored prefix and its checksum matches -/
theorem checksum_ok_iff (sum : Bytes → Nat) (b p : Bytes) :
    checksumDec sum true b = .ok p ↔ (4 ≤ b.length ∧ p = b.take (b.length - 4) ∧ le32 (sum p) = b.drop (b.length - 4)) := by
  sorry

/-- **shards**: a value shorter than its index is an error -/
theorem shard_truncated (c : Shard.Cfg) (validate : Bool) (v : Bytes) (h : v.length < Shard.indexSize c) :
    Shard.decode c validate v = .error .tooShort := by
  sorry

/-- **shards**: a live index entry reaching outside the value — including `offset + nbytes` beyond 2^64 — is an
error, never bytes from elsewhere -/
theorem shard_entry_out_of_bounds (c : Shard.Cfg) (validate : Bool) (v ib : Bytes) (entries : List (Nat × Nat))
    (hib : Shard.indexBytes c v = some ib) (hdec : Shard.decodeIndex c validate ib = .ok entries)
    (e : Nat × Nat) (he : e ∈ entries) (hlive : Shard.isLive e = true) (hout : e.1 + e.2 > v.length) :
    ∃ err, Shard.decode c validate v = .error err := by
  sorry

/-- **shards**: whenever decoding ANY bytes succeeds, every returned inner chunk is a slice of the stored value at
the position its index entry names (no out-of-bounds access, no bytes from elsewhere) -/
theorem shard_decode_ok_slices (c : Shard.Cfg) (validate : Bool) (v : Bytes) (chunks : List (Option Bytes))
    (h : Shard.decode c validate v = .ok chunks) :
    ∃ ib entries, Shard.indexBytes c v = some ib ∧ Shard.decodeIndex c validate ib = .ok entries ∧
      chunks.length = entries.length ∧
      ∀ i (hi : i < entries.length) (hc : i < chunks.length),
        (Shard.isLive entries[i] = false → chunks[i] = none) ∧
        (Shard.isLive entries[i] = true → entries[i].1 + entries[i].2 ≤ v.length ∧
          chunks[i] = some (slice v entries[i].1 (entries[i].1 + entries[i].2))) := by
  sorry

/-- an index protected by crc32c: any single-byte alteration of the index bytes is detected -/
theorem shard_index_single_byte (c : Shard.Cfg) (hc : c.indexCrc = true) (entries : List (Nat × Nat))
    (hn : entries.length = c.nChunks) (hw : ∀ e ∈ entries, e.1 < 2 ^ 64 ∧ e.2 < 2 ^ 64)
    (k d : Nat) (hk : k < Shard.indexSize c) (hd0 : 0 < d) (hd : d < 256) :
    Shard.decodeIndex c true (xorAt (Shard.encodeIndex c entries) k d) = .error .invalidChecksum := by
  sorry

end Zarrs.C15
