import ZarrsModel.Model.Cache
import ZarrsModel.Lemmas.Cache
/-
C06 — all read paths agree on an unchanged store.

Route agreement (chunk / if-exists / chunks / chunk subset / array subset all return the abstract array's
elements) is `C01.read_after_history`; this file adds the chunk caches: for every cache kind, every eviction
policy that never invents entries (LRU by count or by size at any capacity including 0 and 1, moka's deferred
eviction, unbounded), every starting cache that is coherent with the store, and every sequence of reads
(repeats, evictions), a cached read returns exactly what the uncached read returns.

The `example`s after each theorem show that its hypotheses are satisfiable on the concrete fixture
`C06.Ex` of `Lemmas/Cache.lean` (shape `[4]`, grid `[Dim.fixed 2]`, store holding encoded chunk `[0]`,
one coherent cache of each kind, LRU capacity 1).
-/
namespace Zarrs.C06
open Zarrs

variable {α : Type} [DecidableEq α]
-- `[DecidableEq α]` is kept from the specification's statements; the proofs hold for any element type
set_option linter.unusedSectionVars false

/-- an eviction policy may drop entries but never invents or alters them -/
def EvictOk (evict : Cache α → Cache α) : Prop := ∀ c, (evict c).Sublist c

/-- filling is exactly the uncached read, for both cache kinds -/
theorem fill_decode_eq_uncached (cfg : ArrCfg α) (st : KV) (kind : CacheKind) (c : Idx) (e : CacheEntry α)
    (h : cfg.cacheFill st kind c = some e) : cfg.cacheDecode c e = cfg.retrieveChunk st c :=
  cfg.cacheDecode_of_cacheFill st kind c e h

-- the fill closure succeeds for both kinds, on a stored chunk and on a missing one
example : Ex.cfg.cacheFill Ex.st .encoded [0] = some (.encoded (some [7, 9])) := rfl
example : Ex.cfg.cacheFill Ex.st .decoded [0] = some (.decoded [7, 9]) := rfl
example : Ex.cfg.cacheFill Ex.st .encoded [1] = some (.encoded none) := rfl
example : Ex.cfg.cacheFill Ex.st .decoded [1] = some (.decoded [0, 0]) := rfl
example : Ex.cfg.retrieveChunk Ex.st [0] = some [7, 9] := by decide
example : Ex.cfg.retrieveChunk Ex.st [1] = some [0, 0] := by decide

/-- a failed fill is a failed uncached read and inserts nothing -/
theorem fill_none_iff (cfg : ArrCfg α) (st : KV) (kind : CacheKind) (c : Idx) :
    cfg.cacheFill st kind c = none → cfg.retrieveChunk st c = none :=
  cfg.retrieveChunk_none_of_cacheFill_none st kind c

-- the fill closure fails for chunk indices of the wrong rank
example : Ex.cfg.cacheFill Ex.st .encoded [0, 0] = none := rfl
example : Ex.cfg.cacheFill Ex.st .decoded [0, 0] = none := rfl

/-- one cached read: same result as uncached, coherence preserved -/
theorem cached_read_eq (cfg : ArrCfg α) (st : KV) (kind : CacheKind) (evict : Cache α → Cache α)
    (hev : EvictOk evict) (cache : Cache α) (hc : cfg.CacheOk st kind cache) (c : Idx) :
    (cfg.cachedRetrieveChunk st kind evict cache c).1 = cfg.retrieveChunk st c ∧
    cfg.CacheOk st kind (cfg.cachedRetrieveChunk st kind evict cache c).2 :=
  cfg.cachedRetrieveChunk_spec st kind evict hev cache hc c

-- a capacity-1 LRU is `EvictOk`; non-empty coherent caches of both kinds exist
example : EvictOk Ex.evict1 := fun c => List.take_sublist 1 c
example : Ex.cfg.CacheOk Ex.st .encoded Ex.cacheEnc := Ex.cacheEnc_ok
example : Ex.cfg.CacheOk Ex.st .decoded Ex.cacheDec := Ex.cacheDec_ok
-- a hit, and a miss that evicts the previous entry
example : (Ex.cfg.cachedRetrieveChunk Ex.st .encoded Ex.evict1 Ex.cacheEnc [0]).1 = some [7, 9] := by decide
example : (Ex.cfg.cachedRetrieveChunk Ex.st .encoded Ex.evict1 Ex.cacheEnc [1]).1 = some [0, 0] := by decide
example : (Ex.cfg.cachedRetrieveChunk Ex.st .encoded Ex.evict1 Ex.cacheEnc [1]).2.length = 1 := by decide

/-- **cache transparency**: any sequence of cached reads equals the uncached reads -/
theorem cache_transparent (cfg : ArrCfg α) (st : KV) (kind : CacheKind) (evict : Cache α → Cache α)
    (hev : EvictOk evict) (cache : Cache α) (hc : cfg.CacheOk st kind cache) (reads : List Idx) :
    (cfg.cachedReads st kind evict cache reads).1 = reads.map (cfg.retrieveChunk st) ∧
    cfg.CacheOk st kind (cfg.cachedReads st kind evict cache reads).2 :=
  cfg.cachedReads_spec st kind evict hev reads cache hc

-- same hypotheses as `cached_read_eq`; a read sequence with a repeat, an eviction and a failing read
example : EvictOk Ex.evict1 ∧ Ex.cfg.CacheOk Ex.st .decoded Ex.cacheDec :=
  ⟨fun c => List.take_sublist 1 c, Ex.cacheDec_ok⟩
example : (Ex.cfg.cachedReads Ex.st .decoded Ex.evict1 Ex.cacheDec [[0], [1], [0], [0, 0], [0]]).1 =
    [some [7, 9], some [0, 0], some [7, 9], none, some [7, 9]] := by decide

/-- chunk-subset reads through a cache equal the uncached chunk-subset read -/
theorem cached_subset_eq (cfg : ArrCfg α) (st : KV) (kind : CacheKind) (evict : Cache α → Cache α)
    (hev : EvictOk evict) (cache : Cache α) (hc : cfg.CacheOk st kind cache) (c : Idx) (r : Subset) :
    (cfg.cachedRetrieveChunkSubset st kind evict cache c r).1 = cfg.retrieveChunkSubset st c r := by
  unfold ArrCfg.cachedRetrieveChunkSubset ArrCfg.retrieveChunkSubset
  cases cfg.chunkShape c with
  | none => rfl
  | some s =>
    by_cases hb : (!r.inboundsShape s) = true
    · simp only [hb, if_true]
    · simp only [hb]
      rw [← (cfg.cachedRetrieveChunk_spec st kind evict hev cache hc c).1]
      rfl

-- same hypotheses as `cached_read_eq`; an in-bounds subset of the cached chunk
example : EvictOk Ex.evict1 ∧ Ex.cfg.CacheOk Ex.st .encoded Ex.cacheEnc :=
  ⟨fun c => List.take_sublist 1 c, Ex.cacheEnc_ok⟩
example : (Ex.cfg.cachedRetrieveChunkSubset Ex.st .encoded Ex.evict1 Ex.cacheEnc [0] ⟨[1], [1]⟩).1 = some [9] := by
  decide

/-- failed reads are not cached: the cache is unchanged when the fill closure fails -/
theorem failed_read_not_cached (cfg : ArrCfg α) (st : KV) (kind : CacheKind) (evict : Cache α → Cache α)
    (cache : Cache α) (c : Idx) (hmiss : cache.lookup c = none) (hfail : cfg.cacheFill st kind c = none) :
    (cfg.cachedRetrieveChunk st kind evict cache c).2 = cache := by
  simp only [ArrCfg.cachedRetrieveChunk, hmiss, hfail]

-- a miss whose fill closure fails, on a non-empty cache
example : Ex.cacheEnc.lookup [0, 0] = none ∧ Ex.cfg.cacheFill Ex.st .encoded [0, 0] = none := ⟨rfl, rfl⟩

/-- the empty cache is coherent; concrete policies satisfy `EvictOk`: LRU by count at any capacity (incl. 0) -/
theorem empty_cache_ok (cfg : ArrCfg α) (st : KV) (kind : CacheKind) : cfg.CacheOk st kind [] :=
  fun _ hp => nomatch hp

theorem take_evictOk (cap : Nat) : EvictOk (fun c : Cache α => c.take cap) :=
  fun c => List.take_sublist cap c

end Zarrs.C06
