import ZarrsModel.Model.Cache
import ZarrsModel.Lemmas.Cache
/-
C06 — all read paths agree on an unchanged store.

Route agreement (chunk / if-exists / chunks / chunk subset / array subset all return the abstract array's
elements) is `C01.read_after_history`; this file adds the chunk caches: for every cache kind, every eviction
policy that never invents entries (LRU by count or by size at any capacity including 0 and 1, moka's deferred
eviction, unbounded), every starting cache that is coherent with the store, and every sequence of reads
(repeats, evictions), a cached read returns exactly what the uncached read returns.
-/
namespace Zarrs.C06
open Zarrs

variable {α : Type} [DecidableEq α]

/-- an eviction policy may drop entries but never invents or alters them -/
def EvictOk (evict : Cache α → Cache α) : Prop := ∀ c, (evict c).Sublist c

/-- filling is exactly the uncached read, for both cache kinds -/
theorem fill_decode_eq_uncached (cfg : ArrCfg α) (st : KV) (kind : CacheKind) (c : Idx) (e : CacheEntry α)
    (h : cfg.cacheFill st kind c = some e) : cfg.cacheDecode c e = cfg.retrieveChunk st c := by
  sorry

/-- a failed fill is a failed uncached read and inserts nothing -/
theorem fill_none_iff (cfg : ArrCfg α) (st : KV) (kind : CacheKind) (c : Idx) :
    cfg.cacheFill st kind c = none → cfg.retrieveChunk st c = none := by
  sorry

/-- one cached read: same result as uncached, coherence preserved -/
theorem cached_read_eq (cfg : ArrCfg α) (st : KV) (kind : CacheKind) (evict : Cache α → Cache α)
    (hev : EvictOk evict) (cache : Cache α) (hc : cfg.CacheOk st kind cache) (c : Idx) :
    (cfg.cachedRetrieveChunk st kind evict cache c).1 = cfg.retrieveChunk st c ∧
    cfg.CacheOk st kind (cfg.cachedRetrieveChunk st kind evict cache c).2 := by
  sorry

/-- **cache transparency**: any sequence of cached reads equals the uncached reads -/
theorem cache_transparent (cfg : ArrCfg α) (st : KV) (kind : CacheKind) (evict : Cache α → Cache α)
    (hev : EvictOk evict) (cache : Cache α) (hc : cfg.CacheOk st kind cache) (reads : List Idx) :
    (cfg.cachedReads st kind evict cache reads).1 = reads.map (cfg.retrieveChunk st) ∧
    cfg.CacheOk st kind (cfg.cachedReads st kind evict cache reads).2 := by
  sorry

/-- chunk-subset reads through a cache equal the uncached chunk-subset read -/
theorem cached_subset_eq (cfg : ArrCfg α) (st : KV) (kind : CacheKind) (evict : Cache α → Cache α)
    (hev : EvictOk evict) (cache : Cache α) (hc : cfg.CacheOk st kind cache) (c : Idx) (r : Subset) :
    (cfg.cachedRetrieveChunkSubset st kind evict cache c r).1 = cfg.retrieveChunkSubset st c r := by
  sorry

/-- failed reads are not cached: the cache is unchanged when the fill closure fails -/
theorem failed_read_not_cached (cfg : ArrCfg α) (st : KV) (kind : CacheKind) (evict : Cache α → Cache α)
    (cache : Cache α) (c : Idx) (hmiss : cache.lookup c = none) (hfail : cfg.cacheFill st kind c = none) :
    (cfg.cachedRetrieveChunk st kind evict cache c).2 = cache := by
  sorry

/-- the empty cache is coherent; concrete policies satisfy `EvictOk`: LRU by count at any capacity (incl. 0) -/
theorem empty_cache_ok (cfg : ArrCfg α) (st : KV) (kind : CacheKind) : cfg.CacheOk st kind [] := by
  sorry

theorem take_evictOk (cap : Nat) : EvictOk (fun c : Cache α => c.take cap) := by
  sorry

end Zarrs.C06
