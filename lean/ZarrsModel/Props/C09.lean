import ZarrsModel.Model.Iter
import ZarrsModel.Lemmas.Index
/-
C09 — array subsets and their iterators enumerate exactly the subset.
Property theorems only; helper lemmas live in ZarrsModel/Lemmas/Index.lean.
-/
namespace Zarrs.C09
open Zarrs

/-- the code's right-to-left `unravel_index` equals the left-to-right form for positive extents -/
theorem unravel_eq_unravelL (n : Nat) (sh : Shape) : unravel n sh = unravelL n sh := by
  exact unravel_eq_L n sh

theorem unravel_ravel (i : Idx) (sh : Shape) (h : inB i sh = true) : unravel (ravel i sh) sh = i := by
  rw [unravel_eq_L]; exact unravelL_ravel i sh h

example : inB [1, 0, 2] [2, 3, 4] = true := by decide

theorem ravel_unravel (n : Nat) (sh : Shape) (h : n < prod sh) : ravel (unravel n sh) sh = n := by
  rw [unravel_eq_L]; exact ravel_unravelL n sh h

example : 17 < prod [2, 3, 4] := by decide

theorem unravel_inB (n : Nat) (sh : Shape) (h : n < prod sh) : inB (unravel n sh) sh = true := by
  rw [unravel_eq_L]; exact unravelL_inB n sh h

/-- `ravel` is strictly monotone from C order to `<` on in-bounds indices -/
theorem ravel_strictMono (a b : Idx) (sh : Shape) (ha : inB a sh = true) (hb : inB b sh = true)
    (hlt : lexLt a b = true) : ravel a sh < ravel b sh := by
  exact ravel_lexLt_lt a b sh ha hb hlt

example : inB [0, 2, 3] [2, 3, 4] = true ∧ inB [1, 0, 1] [2, 3, 4] = true ∧ lexLt [0, 2, 3] [1, 0, 1] = true := by
  decide

/-- the specification enumeration is exactly the subset, strictly increasing in C order, with the
advertised length -/
theorem indices_exact (s : Subset) (h : s.wf = true) :
    s.indices.Pairwise (fun a b => lexLt a b = true) ∧
    (∀ i, i ∈ s.indices ↔ s.contains i = true) ∧
    s.indices.length = s.numElements := by
  exact ⟨s.indices_pairwise h, s.mem_indices h, s.indices_length⟩

example : (Subset.mk [1, 0, 2] [2, 3, 2]).wf = true := by decide

/-- the iterator (as the code computes it: `unravel_index(k) + start` for `k` in the range) yields
exactly the specification enumeration -/
theorem iter_items (s : Subset) (h : s.wf = true) : (Iter.new s).items = s.indices := by
  have _ := h  -- not needed: both sides truncate identically on rank mismatch
  exact Iter.new_items s

/-- any mixture of `next` / `next_back`: fronts ++ rest ++ reverse backs is the original sequence, and
the reported length drops by one per yielded item -/
theorem iter_any_direction (it : Iter) (dirs : List Bool) :
    (it.run dirs).1 ++ (it.run dirs).2.2.items ++ (it.run dirs).2.1.reverse = it.items ∧
    (it.run dirs).2.2.len + (it.run dirs).1.length + (it.run dirs).2.1.length = it.len := by
  exact it.run_spec dirs

/-- `len` is the exact number of remaining items -/
theorem iter_len (it : Iter) : it.items.length = it.len := by
  exact it.items_length

/-- an exhausted iterator stays exhausted in both directions (fused) -/
theorem iter_fused (it : Iter) (h : it.len = 0) : it.next = none ∧ it.nextBack = none := by
  simp only [Iter.len] at h
  have : ¬ it.lo < it.hi := by omega
  simp [Iter.next, Iter.nextBack, this]

example : (Iter.mk (Subset.mk [1, 0] [2, 3]) 6 6).len = 0 := by decide

/-- every tree of rayon `split_at` calls partitions the sequence, in order -/
theorem split_tree (t : SplitTree) (it : Iter) (h : t.fits it.len = true) :
    (t.leaves it).flatMap Iter.items = it.items := by
  exact t.leaves_items it h

example : (SplitTree.node 2 (.node 1 .leaf .leaf) (.node 3 .leaf .leaf)).fits
    (Iter.new (Subset.mk [1, 0] [2, 3])).len = true := by decide

theorem linearised_eq (s : Subset) (arr : Shape) (h : s.wf = true) :
    s.linearised arr = s.indices.map (fun i => ravel i arr) := by
  have _ := h
  simp only [Subset.linearised, Iter.new_items]

/-- linearised indices of an in-bounds subset are strictly increasing (each element once, C order) -/
theorem linearised_sorted (s : Subset) (arr : Shape) (h : s.wf = true) (hb : s.inboundsShape arr = true) :
    (s.linearised arr).Pairwise (· < ·) := by
  rw [linearised_eq s arr h, List.pairwise_map]
  refine (s.indices_pairwise h).imp_of_mem ?_
  intro a b ha hb' hab
  simp only [Subset.inboundsShape, Subset.rank, Bool.and_eq_true, beq_iff_eq] at hb
  rw [s.mem_indices h] at ha hb'
  exact ravel_lexLt_lt a b arr (inB_of_allLe_end a _ _ arr hb.1 hb.2 ha)
    (inB_of_allLe_end b _ _ arr hb.1 hb.2 hb') hab

example : (Subset.mk [1, 0, 2] [2, 3, 2]).wf = true ∧
    (Subset.mk [1, 0, 2] [2, 3, 2]).inboundsShape [4, 3, 5] = true := by decide

/-- the contiguous runs `[r, r + run)` over the run starts, in order, concatenate to the linearised
indices: every element in exactly one run -/
theorem contiguous_tiles (s : Subset) (arr : Shape) (h : s.wf = true) (hb : s.inboundsShape arr = true) :
    (s.contiguousLinearised arr).flatMap (fun r => List.range' r (s.contiguous arr).run) = s.linearised arr := by
  simp only [Subset.wf, beq_iff_eq] at h
  simp only [Subset.inboundsShape, Subset.rank, Bool.and_eq_true, beq_iff_eq] at hb
  exact s.contiguous_tiles arr h hb.1

example : (Subset.mk [1, 0, 0] [2, 2, 5]).wf = true ∧
    (Subset.mk [1, 0, 0] [2, 2, 5]).inboundsShape [4, 3, 5] = true := by decide

/-- byte ranges cover exactly the bytes of the subset's elements, in order -/
theorem byteRanges_exact (s : Subset) (arr : Shape) (es : Nat) (h : s.wf = true)
    (hb : s.inboundsShape arr = true) :
    (s.byteRanges arr es).flatMap (fun p => List.range' p.1 p.2) =
    (s.linearised arr).flatMap (fun k => List.range' (k * es) es) := by
  rw [← contiguous_tiles s arr h hb]
  simp only [Subset.byteRanges, List.flatMap_map, List.flatMap_assoc, range'_mul_cells]

example : (Subset.mk [1, 0, 0] [2, 2, 5]).wf = true ∧
    (Subset.mk [1, 0, 0] [2, 2, 5]).inboundsShape [4, 3, 5] = true := by decide

/-- `extract_elements` is the element-by-element gather -/
theorem extract_exact {α} (s : Subset) (arr : Shape) (xs : List α) (h : s.wf = true)
    (hb : s.inboundsShape arr = true) (hx : xs.length = prod arr) :
    (s.extract arr xs).map some = s.gather arr xs := by
  have ht := contiguous_tiles s arr h hb
  have hlt : ∀ k ∈ s.linearised arr, k < xs.length := by
    intro k hk
    rw [linearised_eq s arr h, List.mem_map] at hk
    obtain ⟨i, hi, rfl⟩ := hk
    rw [s.mem_indices h] at hi
    simp only [Subset.inboundsShape, Subset.rank, Bool.and_eq_true, beq_iff_eq] at hb
    rw [hx]
    exact ravel_lt i arr (inB_of_allLe_end i _ _ arr hb.1 hb.2 hi)
  have hstep : ∀ r ∈ s.contiguousLinearised arr,
      ((xs.drop r).take (s.contiguous arr).run).map some =
        (List.range' r (s.contiguous arr).run).map (fun k => xs[k]?) := by
    intro r hr
    apply take_drop_map_some
    intro k hk
    apply hlt
    rw [← ht, List.mem_flatMap]
    exact ⟨r, hr, hk⟩
  simp only [Subset.extract, Subset.gather, List.map_flatMap]
  rw [flatMap_congr' hstep, ← List.map_flatMap, ht, linearised_eq s arr h, List.map_map]
  rfl

example : (Subset.mk [1, 0, 0] [2, 2, 5]).wf = true ∧
    (Subset.mk [1, 0, 0] [2, 2, 5]).inboundsShape [4, 3, 5] = true ∧
    (List.range 60).length = prod [4, 3, 5] := by decide

/-- the chunk iterator reports exactly the chunks whose box meets the subset, in C order, each once -/
theorem chunks_exact (s : Subset) (cs : Shape) (h : s.wf = true) (hc : cs.length = s.rank)
    (hpos : ∀ c ∈ cs, 0 < c) :
    ((s.chunks cs).map (·.1)).Pairwise (fun a b => lexLt a b = true) ∧
    (∀ c : Idx, c ∈ (s.chunks cs).map (·.1) ↔
      (c.length = s.rank ∧ ∃ i, s.contains i = true ∧ (Subset.mk (zipMul c cs) cs).contains i = true)) ∧
    (∀ p ∈ s.chunks cs, p.2 = Subset.mk (zipMul p.1 cs) cs) := by
  have hwf := s.chunkBox_wf cs h hc
  rw [s.chunks_fst cs]
  refine ⟨(s.chunkBox cs).indices_pairwise hwf, ?_, ?_⟩
  · intro c
    rw [(s.chunkBox cs).mem_indices hwf]
    exact s.contains_chunkBox cs h hc hpos c
  · intro p hp
    simp only [Subset.chunks, List.mem_map] at hp
    obtain ⟨c, _, rfl⟩ := hp
    rfl

example : (Subset.mk [1, 0, 5] [4, 3, 2]).wf = true ∧ [2, 2, 3].length = (Subset.mk [1, 0, 5] [4, 3, 2]).rank ∧
    ∀ c ∈ [2, 2, 3], 0 < c := by decide

theorem overlap_mem (a b : Subset) (ha : a.wf = true) (hb : b.wf = true) (hr : a.rank = b.rank) (i : Idx) :
    (a.overlap b).contains i = (a.contains i && b.contains i) := by
  simp only [Subset.wf, beq_iff_eq] at ha hb
  simp only [Subset.rank] at hr
  exact mem_overlap i a.start a.shape b.start b.shape ha hb hr

example : (Subset.mk [1, 0] [2, 3]).wf = true ∧ (Subset.mk [2, 1] [4, 1]).wf = true ∧
    (Subset.mk [1, 0] [2, 3]).rank = (Subset.mk [2, 1] [4, 1]).rank := by decide

/-- the unrepaired subtraction underflows exactly when the operands are disjoint in some dimension;
the specification form never fails and yields an empty subset then -/
theorem overlap_disjoint_empty (a b : Subset) (ha : a.wf = true) (hb : b.wf = true) (hr : a.rank = b.rank)
    (h : a.overlapUnderflows b = true) : (a.overlap b).isEmpty = true := by
  have _ := ha; have _ := hb; have _ := hr
  exact zipUnderflow_any _ _ h

example : (Subset.mk [1, 0] [2, 3]).wf = true ∧ (Subset.mk [4, 1] [4, 1]).wf = true ∧
    (Subset.mk [1, 0] [2, 3]).rank = (Subset.mk [4, 1] [4, 1]).rank ∧
    (Subset.mk [1, 0] [2, 3]).overlapUnderflows (Subset.mk [4, 1] [4, 1]) = true := by decide

theorem bound_mem (s : Subset) (e : Idx) (h : s.wf = true) (he : e.length = s.rank) (i : Idx) :
    (s.bound e).contains i = (s.contains i && inB i e) := by
  simp only [Subset.wf, beq_iff_eq] at h
  simp only [Subset.rank] at he
  exact mem_bound i s.start s.shape e h he

example : (Subset.mk [1, 0] [2, 3]).wf = true ∧ [2, 2].length = (Subset.mk [1, 0] [2, 3]).rank := by decide

/-- STATEMENT CHANGE: hypothesis `hi : i.length ≤ s.rank` added.  Without it the statement is false
because `addIdx` truncates an over-long `i` to the rank while `contains` rejects it:
`s = ⟨[0],[1]⟩`, `o = [0]`, `i = [0,7]` gives `false = true` (checked by `example` below). -/
theorem relativeTo_mem (s : Subset) (o : Idx) (h : s.wf = true) (ho : o.length = s.rank)
    (hu : s.relativeToUnderflows o = false) (i : Idx) (hi : i.length ≤ s.rank) :
    (s.relativeTo o).contains i = s.contains (addIdx i o) := by
  simp only [Subset.wf, beq_iff_eq] at h
  simp only [Subset.rank] at ho hi
  exact mem_relativeTo i s.start s.shape o h ho hu hi

example : (Subset.mk [3, 2] [2, 3]).wf = true ∧ [1, 2].length = (Subset.mk [3, 2] [2, 3]).rank ∧
    (Subset.mk [3, 2] [2, 3]).relativeToUnderflows [1, 2] = false ∧
    [2, 1].length ≤ (Subset.mk [3, 2] [2, 3]).rank := by decide
/-- counterexample to the original statement (no length bound on `i`) -/
example : ((Subset.mk [0] [1]).relativeTo [0]).contains [0, 7] = false ∧
    (Subset.mk [0] [1]).contains (addIdx [0, 7] [0]) = true := by decide

theorem inbounds_sound (s o : Subset) (hs : s.wf = true) (ho : o.wf = true) (h : s.inbounds o = true) :
    s.rank = o.rank ∧ ∀ i, s.contains i = true → o.contains i = true := by
  simp only [Subset.wf, beq_iff_eq] at hs ho
  simp only [Subset.inbounds, Subset.rank, Bool.and_eq_true, beq_iff_eq] at h
  obtain ⟨⟨hr, h1⟩, h2⟩ := h
  exact ⟨hr, fun i hi => mem_of_allLe i s.start s.shape o.start o.shape hs ho hr h1 h2 hi⟩

example : (Subset.mk [1, 1] [2, 3]).wf = true ∧ (Subset.mk [0, 1] [4, 3]).wf = true ∧
    (Subset.mk [1, 1] [2, 3]).inbounds (Subset.mk [0, 1] [4, 3]) = true := by decide

theorem inbounds_complete (s o : Subset) (hs : s.wf = true) (ho : o.wf = true) (hne : s.isEmpty = false)
    (hr : s.rank = o.rank) (h : ∀ i, s.contains i = true → o.contains i = true) : s.inbounds o = true := by
  have _ := ho
  simp only [Subset.wf, beq_iff_eq] at hs
  simp only [Subset.isEmpty] at hne
  simp only [Subset.rank] at hr
  simp only [Subset.inbounds, Subset.rank, Bool.and_eq_true, beq_iff_eq]
  refine ⟨⟨hr, ?_⟩, ?_⟩
  · exact allLe_of_mem _ _ _ (h _ (mem_start s.start s.shape hs hne))
  · exact allLe_end_of_mem_last _ _ _ _ hne (h _ (mem_last s.start s.shape hs hne))

example : (Subset.mk [1, 1] [2, 3]).wf = true ∧ (Subset.mk [0, 1] [4, 3]).wf = true ∧
    (Subset.mk [1, 1] [2, 3]).isEmpty = false ∧
    (Subset.mk [1, 1] [2, 3]).rank = (Subset.mk [0, 1] [4, 3]).rank := by decide

theorem inboundsShape_iff (s : Subset) (arr : Shape) (hs : s.wf = true) (hne : s.isEmpty = false) :
    s.inboundsShape arr = true ↔ (s.rank = arr.length ∧ ∀ i, s.contains i = true → inB i arr = true) := by
  simp only [Subset.wf, beq_iff_eq] at hs
  simp only [Subset.isEmpty] at hne
  simp only [Subset.inboundsShape, Subset.rank, Bool.and_eq_true, beq_iff_eq]
  constructor
  · rintro ⟨hr, h⟩
    exact ⟨hr, fun i hi => inB_of_allLe_end i s.start s.shape arr hr h hi⟩
  · rintro ⟨hr, h⟩
    exact ⟨hr, allLe_end_of_inB_last _ _ _ hne (h _ (mem_last s.start s.shape hs hne))⟩

example : (Subset.mk [1, 1] [2, 3]).wf = true ∧ (Subset.mk [1, 1] [2, 3]).isEmpty = false := by decide

end Zarrs.C09
