import ZarrsModel.Model.Iter
import ZarrsModel.Lemmas.Index
/-
C09 — array subsets and their iterators enumerate exactly the subset.
Property theorems only; helper lemmas live in ZarrsModel/Lemmas/Index.lean.
-/
namespace Zarrs.C09
open Zarrs

/-- the code's right-to-left `unravel_index` equals the left-to-right form for positive extents -/
theorem unravel_eq_unravelL (n : Nat) (sh : Shape) : unravel n sh = unravelL n sh := by
  sorry

theorem unravel_ravel (i : Idx) (sh : Shape) (h : inB i sh = true) : unravel (ravel i sh) sh = i := by
  sorry

theorem ravel_unravel (n : Nat) (sh : Shape) (h : n < prod sh) : ravel (unravel n sh) sh = n := by
  sorry

theorem unravel_inB (n : Nat) (sh : Shape) (h : n < prod sh) : inB (unravel n sh) sh = true := by
  sorry

/-- `ravel` is strictly monotone from C order to `<` on in-bounds indices -/
theorem ravel_strictMono (a b : Idx) (sh : Shape) (ha : inB a sh = true) (hb : inB b sh = true)
    (hlt : lexLt a b = true) : ravel a sh < ravel b sh := by
  sorry

/-- the specification enumeration is exactly the subset, strictly increasing in C order, with the
advertised length -/
theorem indices_exact (s : Subset) (h : s.wf = true) :
    s.indices.Pairwise (fun a b => lexLt a b = true) ∧
    (∀ i, i ∈ s.indices ↔ s.contains i = true) ∧
    s.indices.length = s.numElements := by
  sorry

/-- the iterator (as the code computes it: `unravel_index(k) + start` for `k` in the range) yields
exactly the specification enumeration -/
theorem iter_items (s : Subset) (h : s.wf = true) : (Iter.new s).items = s.indices := by
  sorry

/-- any mixture of `next` / `next_back`: fronts ++ rest ++ reverse backs is the original sequence, and
the reported length drops by one per yielded item -/
theorem iter_any_direction (it : Iter) (dirs : List Bool) :
    (it.run dirs).1 ++ (it.run dirs).2.2.items ++ (it.run dirs).2.1.reverse = it.items ∧
    (it.run dirs).2.2.len + (it.run dirs).1.length + (it.run dirs).2.1.length = it.len := by
  sorry

/-- `len` is the exact number of remaining items -/
theorem iter_len (it : Iter) : it.items.length = it.len := by
  sorry

/-- an exhausted iterator stays exhausted in both directions (fused) -/
theorem iter_fused (it : Iter) (h : it.len = 0) : it.next = none ∧ it.nextBack = none := by
  sorry

/-- every tree of rayon `split_at` calls partitions the sequence, in order -/
theorem split_tree (t : SplitTree) (it : Iter) (h : t.fits it.len = true) :
    (t.leaves it).flatMap Iter.items = it.items := by
  sorry

theorem linearised_eq (s : Subset) (arr : Shape) (h : s.wf = true) :
    s.linearised arr = s.indices.map (fun i => ravel i arr) := by
  sorry

/-- linearised indices of an in-bounds subset are strictly increasing (each element once, C order) -/
theorem linearised_sorted (s : Subset) (arr : Shape) (h : s.wf = true) (hb : s.inboundsShape arr = true) :
    (s.linearised arr).Pairwise (· < ·) := by
  sorry

/-- the contiguous runs `[r, r + run)` over the run starts, in order, concatenate to the linearised
indices: every element in exactly one run -/
theorem contiguous_tiles (s : Subset) (arr : Shape) (h : s.wf = true) (hb : s.inboundsShape arr = true) :
    (s.contiguousLinearised arr).flatMap (fun r => List.range' r (s.contiguous arr).run) = s.linearised arr := by
  sorry

/-- byte ranges cover exactly the bytes of the subset's elements, in order -/
theorem byteRanges_exact (s : Subset) (arr : Shape) (es : Nat) (h : s.wf = true)
    (hb : s.inboundsShape arr = true) :
    (s.byteRanges arr es).flatMap (fun p => List.range' p.1 p.2) =
    (s.linearised arr).flatMap (fun k => List.range' (k * es) es) := by
  sorry

/-- `extract_elements` is the element-by-element gather -/
theorem extract_exact {α} (s : Subset) (arr : Shape) (xs : List α) (h : s.wf = true)
    (hb : s.inboundsShape arr = true) (hx : xs.length = prod arr) :
    (s.extract arr xs).map some = s.gather arr xs := by
  sorry

/-- the chunk iterator reports exactly the chunks whose box meets the subset, in C order, each once -/
theorem chunks_exact (s : Subset) (cs : Shape) (h : s.wf = true) (hc : cs.length = s.rank)
    (hpos : ∀ c ∈ cs, 0 < c) :
    ((s.chunks cs).map (·.1)).Pairwise (fun a b => lexLt a b = true) ∧
    (∀ c : Idx, c ∈ (s.chunks cs).map (·.1) ↔
      (c.length = s.rank ∧ ∃ i, s.contains i = true ∧ (Subset.mk (zipMul c cs) cs).contains i = true)) ∧
    (∀ p ∈ s.chunks cs, p.2 = Subset.mk (zipMul p.1 cs) cs) := by
  sorry

theorem overlap_mem (a b : Subset) (ha : a.wf = true) (hb : b.wf = true) (hr : a.rank = b.rank) (i : Idx) :
    (a.overlap b).contains i = (a.contains i && b.contains i) := by
  sorry

/-- the unrepaired subtraction underflows exactly when the operands are disjoint in some dimension;
the specification form never fails and yields an empty subset then -/
theorem overlap_disjoint_empty (a b : Subset) (ha : a.wf = true) (hb : b.wf = true) (hr : a.rank = b.rank)
    (h : a.overlapUnderflows b = true) : (a.overlap b).isEmpty = true := by
  sorry

theorem bound_mem (s : Subset) (e : Idx) (h : s.wf = true) (he : e.length = s.rank) (i : Idx) :
    (s.bound e).contains i = (s.contains i && inB i e) := by
  sorry

theorem relativeTo_mem (s : Subset) (o : Idx) (h : s.wf = true) (ho : o.length = s.rank)
    (hu : s.relativeToUnderflows o = false) (i : Idx) :
    (s.relativeTo o).contains i = s.contains (addIdx i o) := by
  sorry

theorem inbounds_sound (s o : Subset) (hs : s.wf = true) (ho : o.wf = true) (h : s.inbounds o = true) :
    s.rank = o.rank ∧ ∀ i, s.contains i = true → o.contains i = true := by
  sorry

theorem inbounds_complete (s o : Subset) (hs : s.wf = true) (ho : o.wf = true) (hne : s.isEmpty = false)
    (hr : s.rank = o.rank) (h : ∀ i, s.contains i = true → o.contains i = true) : s.inbounds o = true := by
  sorry

theorem inboundsShape_iff (s : Subset) (arr : Shape) (hs : s.wf = true) (hne : s.isEmpty = false) :
    s.inboundsShape arr = true ↔ (s.rank = arr.length ∧ ∀ i, s.contains i = true → inB i arr = true) := by
  sorry

end Zarrs.C09
