import ZarrsModel.Lemmas.FaultList
import ZarrsModel.Props.C20Ops
set_option Elab.async false
/-
C20 for the hierarchy LISTINGS: `get_child_nodes`, `Group::children` / `child_paths` / `child_group_paths` /
`child_array_paths` / `child_groups` / `child_arrays`, `Node::open` (with children), `node_exists`,
`node_exists_listable` as programs of store operations (`Model/FaultList.lean`).

* `flist_refines`: without faults the programs ARE the functions of `Model/Hier.lean`;
* `fault_at_k_is_error_list` (one failing ordinal, exact error state) and `fault_in_set_is_error_list` (any failing set):
  a fault at any operation of the run makes every one of these methods return an error;
* `listing_complete`: a listing that succeeds under ANY failing set returns exactly the fault-free listing;
* `swallowed_child_error_counterexample`: the seeded `let Ok(m) = .. else { continue }` violates both;
* `list_fault_no_effect`: listings never change the store.

Example hierarchy `exH` (reader `exR`: a `zarr.json` holding `[9]` is a group, `[1]` an array):
`h/` group { `a` array, `g` group { `c` array }, `v2` Zarr-V2 group }.
-/
namespace Zarrs.C20List
open Zarrs Zarrs.Hier Zarrs.FaultList

/-- the value of a fault-free run is the value of the pure run -/
private theorem val_of_pure {β} (p : Prog β) (m : KV) (n : Nat) (res : Option β)
    (h : p.pure m = res.map (fun v => (v, m))) : (p.run ⟨m, n, []⟩).val? = res := by
  rw [Prog.run_nofault]
  simp only [Prog.outcome, h]
  cases res <;> rfl

def exR : Reader := ⟨fun b => if b == [9] then some true else if b == [1] then some false else none,
  fun _ => true, fun _ => true, fun _ => true⟩
def exH : KV := [("h/a/zarr.json".toList, [1]), ("h/g/c/zarr.json".toList, [1]), ("h/g/zarr.json".toList, [9]),
  ("h/v2/.zgroup".toList, [2]), ("h/zarr.json".toList, [9])]
def exPre : Key := "h/".toList
/-- the children of `h/` as `get_child_nodes(.., true)` returns them -/
def exTrees : List Tree :=
  [.mk "h/a/".toList .array3 [], .mk "h/g/".toList .group3 [.mk "h/g/c/".toList .array3 []], .mk "h/v2/".toList .group2 []]

/-! ### `flist_refines` -/

/-- **`flist_refines`**: with no fault each listing program returns what the function of the fault-free hierarchy model
returns — the trees of `Hier.childNodes` (children with their kinds, paths and nesting) for `get_child_nodes` /
`Group::children`, what the code derives from them for the `child_*` methods, `Hier.openNode` for `Node::open`,
`Hier.nodeExists` for both `node_exists` — and `None` exactly where the model has an error: the program IS the method -/
theorem flist_refines (r : Reader) (arrOk : Key → Bool) (m : KV) (n : Nat) (rec : Bool) (pre : Key) :
    ((getChildNodesP r rec (depthBound m) pre).run ⟨m, n, []⟩).val? = childNodes r m rec (depthBound m) pre ∧
    (((FaultList.childrenP r rec (depthBound m) pre).run ⟨m, n, []⟩).val?.map flattenList) = children r m rec pre ∧
    ((childPathsP r rec (depthBound m) pre).run ⟨m, n, []⟩).val? = childPaths r m rec pre ∧
    ((childGroupPathsP r rec (depthBound m) pre).run ⟨m, n, []⟩).val? = childGroupPaths r m rec pre ∧
    ((childArrayPathsP r rec (depthBound m) pre).run ⟨m, n, []⟩).val? = childArrayPaths r m rec pre ∧
    ((childGroupsP r rec (depthBound m) pre).run ⟨m, n, []⟩).val? = childGroups r m rec pre ∧
    ((childArraysP r arrOk rec (depthBound m) pre).run ⟨m, n, []⟩).val? = childArrays r arrOk m rec pre ∧
    ((openNodeTreeP r (depthBound m) pre).run ⟨m, n, []⟩).val? = openNodeTree r m pre ∧
    (((openNodeTreeP r (depthBound m) pre).run ⟨m, n, []⟩).val?.map Tree.flatten) = openNode r m pre ∧
    ((nodeExistsP pre).run ⟨m, n, []⟩).val? = some (nodeExists m pre) ∧
    ((nodeExistsListableP pre).run ⟨m, n, []⟩).val? = some (nodeExists m pre) := by
  have hc := val_of_pure _ m n _ (getChildNodesP_pure r m rec (depthBound m) pre)
  have ho := val_of_pure _ m n _ (openNodeTreeP_pure r m pre)
  refine ⟨hc, ?_, val_of_pure _ m n _ (childPathsP_pure r m rec pre), val_of_pure _ m n _ (childGroupPathsP_pure r m rec pre),
    val_of_pure _ m n _ (childArrayPathsP_pure r m rec pre), val_of_pure _ m n _ (childGroupsP_pure r m rec pre),
    val_of_pure _ m n _ (childArraysP_pure r arrOk m rec pre), ho, ?_,
    val_of_pure _ m n (some _) (nodeExistsP_pure m pre), ?_⟩
  · rw [FaultList.childrenP, hc]; rfl
  · rw [ho, openNodeTree_flatten]
  · rw [LProg.run_nofault_val, nodeExistsListableP_pure]; rfl
/-- non-vacuous: the example hierarchy; recursive and non-recursive listing, the derived methods, `Node::open`, and a
prefix that is not a node (`h/x/`) -/
example : depthBound exH = 16 ∧
    (getChildNodesP exR true 16 exPre).run ⟨exH, 0, []⟩ = .ok exTrees ⟨exH, 10, []⟩ ∧
    (getChildNodesP exR false 16 exPre).run ⟨exH, 0, []⟩ =
      .ok [.mk "h/a/".toList .array3 [], .mk "h/g/".toList .group3 [], .mk "h/v2/".toList .group2 []] ⟨exH, 7, []⟩ ∧
    ((childPathsP exR true 16 exPre).run ⟨exH, 0, []⟩).val? = some ["h/a/".toList, "h/g/".toList, "h/v2/".toList] ∧
    ((childGroupPathsP exR false 16 exPre).run ⟨exH, 0, []⟩).val? = some ["h/g/".toList, "h/v2/".toList] ∧
    ((childArraysP exR (fun _ => true) false 16 exPre).run ⟨exH, 0, []⟩).val? = some [("h/a/".toList, .array3)] ∧
    ((childArraysP exR (fun _ => false) false 16 exPre).run ⟨exH, 0, []⟩).val? = none ∧
    ((openNodeTreeP exR 16 exPre).run ⟨exH, 0, []⟩).val? = some (.mk exPre .group3 exTrees) ∧
    ((nodeExistsP exPre).run ⟨exH, 0, []⟩) = .ok true ⟨exH, 1, []⟩ ∧
    ((nodeExistsP "h/v2/".toList).run ⟨exH, 0, []⟩) = .ok true ⟨exH, 3, []⟩ ∧
    ((nodeExistsP "h/x/".toList).run ⟨exH, 0, []⟩) = .ok false ⟨exH, 3, []⟩ ∧
    ((nodeExistsListableP "h/v2/".toList).run ⟨exH, 0, []⟩) = .ok true ⟨exH, 1, []⟩ ∧
    ((nodeExistsListableP "h/x/".toList).run ⟨exH, 0, []⟩) = .ok false ⟨exH, 1, []⟩ := by decide

/-- the fault-free hierarchy model on the example (`Hier.childNodes` is defined by well-founded recursion and does not
evaluate in the kernel: read off through `flist_refines`) -/
theorem exH_childNodes : childNodes exR exH true (depthBound exH) exPre = some exTrees := by
  rw [← (flist_refines exR (fun _ => true) exH 0 true exPre).1]
  decide

/-- the operations of the recursive listing, in the order of the code: `list_dir` of the prefix, then per child prefix in
the order the store lists them its metadata reads and — for a group — its own listing BEFORE the next sibling -/
example : (getChildNodesP exR true 16 exPre).trace exH =
    [('l', "h/".toList), ('g', "h/a/zarr.json".toList), ('g', "h/g/zarr.json".toList), ('l', "h/g/".toList),
     ('g', "h/g/c/zarr.json".toList), ('g', "h/v2/zarr.json".toList), ('g', "h/v2/.zarray".toList),
     ('g', "h/v2/.zgroup".toList), ('g', "h/v2/.zattrs".toList), ('l', "h/v2/".toList)] := by decide

/-! ### `fault_at_k_is_error_list` -/

/-- a read-only program whose `k`-th operation fails: an error, `k` operations issued, the store as it was -/
private theorem readOnly_fault_at_k {β} (p : Prog β) (hp : p.readOnly) (m : KV) (k : Nat) (h1 : 1 ≤ k) (h2 : k ≤ p.ops m) :
    p.run (FStore.failAt m (some k)) = .err ⟨m, k, [k]⟩ := by
  rw [C20Ops.fault_at_k_is_error p m k h1 h2, Prog.readOnly_mAfter p hp]

/-- **`fault_at_k_is_error_list`**: for every `k` from 1 to the number of operations of the fault-free run, failing the
`k`-th store operation makes EVERY listing method return an error (never a shorter listing), after exactly `k`
operations and with the store as it was.  (Instances of the generic `C20Ops.fault_at_k_is_error` over `Prog`, stated per
method; `node_exists_listable` is its one `list_prefix`.) -/
theorem fault_at_k_is_error_list (r : Reader) (arrOk : Key → Bool) (m : KV) (rec : Bool) (fuel : Nat) (pre : Key)
    (k : Nat) (h1 : 1 ≤ k) :
    (k ≤ (getChildNodesP r rec fuel pre).ops m →
      (getChildNodesP r rec fuel pre).run (FStore.failAt m (some k)) = .err ⟨m, k, [k]⟩) ∧
    (k ≤ (FaultList.childrenP r rec fuel pre).ops m →
      (FaultList.childrenP r rec fuel pre).run (FStore.failAt m (some k)) = .err ⟨m, k, [k]⟩) ∧
    (k ≤ (childPathsP r rec fuel pre).ops m →
      (childPathsP r rec fuel pre).run (FStore.failAt m (some k)) = .err ⟨m, k, [k]⟩) ∧
    (k ≤ (childGroupPathsP r rec fuel pre).ops m →
      (childGroupPathsP r rec fuel pre).run (FStore.failAt m (some k)) = .err ⟨m, k, [k]⟩) ∧
    (k ≤ (childArrayPathsP r rec fuel pre).ops m →
      (childArrayPathsP r rec fuel pre).run (FStore.failAt m (some k)) = .err ⟨m, k, [k]⟩) ∧
    (k ≤ (childGroupsP r rec fuel pre).ops m →
      (childGroupsP r rec fuel pre).run (FStore.failAt m (some k)) = .err ⟨m, k, [k]⟩) ∧
    (k ≤ (childArraysP r arrOk rec fuel pre).ops m →
      (childArraysP r arrOk rec fuel pre).run (FStore.failAt m (some k)) = .err ⟨m, k, [k]⟩) ∧
    (k ≤ (openNodeTreeP r fuel pre).ops m →
      (openNodeTreeP r fuel pre).run (FStore.failAt m (some k)) = .err ⟨m, k, [k]⟩) ∧
    (k ≤ (nodeExistsP pre).ops m →
      (nodeExistsP pre).run (FStore.failAt m (some k)) = .err ⟨m, k, [k]⟩) ∧
    (k ≤ (nodeExistsListableP pre).ops m →
      (nodeExistsListableP pre).run (FStore.failAt m (some k)) = .err ⟨m, k, [k]⟩) :=
  ⟨readOnly_fault_at_k _ (getChildNodesP_readOnly r rec fuel pre) m k h1,
   readOnly_fault_at_k _ (getChildNodesP_readOnly r rec fuel pre) m k h1,
   readOnly_fault_at_k _ (childPathsP_readOnly r rec fuel pre) m k h1,
   readOnly_fault_at_k _ (childGroupPathsP_readOnly r rec fuel pre) m k h1,
   readOnly_fault_at_k _ (childArrayPathsP_readOnly r rec fuel pre) m k h1,
   readOnly_fault_at_k _ (childGroupsP_readOnly r rec fuel pre) m k h1,
   readOnly_fault_at_k _ (childArraysP_readOnly r arrOk rec fuel pre) m k h1,
   readOnly_fault_at_k _ (openNodeTreeP_readOnly r fuel pre) m k h1,
   readOnly_fault_at_k _ (nodeExistsP_readOnly pre) m k h1,
   fun h2 => by
     rw [nodeExistsListableP_ops] at h2
     have : k = 1 := by omega
     subst this
     rfl⟩
/-- non-vacuous and exhaustive on the example: the recursive listing of `h/` performs 10 operations, `Node::open` 11,
`child_paths(false)` 7; EVERY position gives an error (the bound is sharp: position `ops + 1` is outside the run) -/
example : (getChildNodesP exR true 16 exPre).ops exH = 10 ∧ (openNodeTreeP exR 16 exPre).ops exH = 11 ∧
    (childPathsP exR false 16 exPre).ops exH = 7 ∧
    (∀ k ∈ List.range' 1 10, (getChildNodesP exR true 16 exPre).run (FStore.failAt exH (some k)) = .err ⟨exH, k, [k]⟩) ∧
    (∀ k ∈ List.range' 1 11, (openNodeTreeP exR 16 exPre).run (FStore.failAt exH (some k)) = .err ⟨exH, k, [k]⟩) ∧
    (∀ k ∈ List.range' 1 7, (childPathsP exR false 16 exPre).run (FStore.failAt exH (some k)) = .err ⟨exH, k, [k]⟩) ∧
    ((getChildNodesP exR true 16 exPre).run (FStore.failAt exH (some 11))).isOk = true := by decide

/-- **any failing SET** (and any value of the counter): if some failing ordinal lies among the operations of the
fault-free run, every listing method returns an error -/
theorem fault_in_set_is_error_list (r : Reader) (arrOk : Key → Bool) (m : KV) (rec : Bool) (fuel : Nat) (pre : Key)
    (n : Nat) (F : List Nat) (k : Nat) (hk : k ∈ F) (h1 : n < k) :
    (k ≤ n + (getChildNodesP r rec fuel pre).ops m → ((getChildNodesP r rec fuel pre).run ⟨m, n, F⟩).isOk = false) ∧
    (k ≤ n + (FaultList.childrenP r rec fuel pre).ops m → ((FaultList.childrenP r rec fuel pre).run ⟨m, n, F⟩).isOk = false) ∧
    (k ≤ n + (childPathsP r rec fuel pre).ops m → ((childPathsP r rec fuel pre).run ⟨m, n, F⟩).isOk = false) ∧
    (k ≤ n + (childGroupPathsP r rec fuel pre).ops m → ((childGroupPathsP r rec fuel pre).run ⟨m, n, F⟩).isOk = false) ∧
    (k ≤ n + (childArrayPathsP r rec fuel pre).ops m → ((childArrayPathsP r rec fuel pre).run ⟨m, n, F⟩).isOk = false) ∧
    (k ≤ n + (childGroupsP r rec fuel pre).ops m → ((childGroupsP r rec fuel pre).run ⟨m, n, F⟩).isOk = false) ∧
    (k ≤ n + (childArraysP r arrOk rec fuel pre).ops m → ((childArraysP r arrOk rec fuel pre).run ⟨m, n, F⟩).isOk = false) ∧
    (k ≤ n + (openNodeTreeP r fuel pre).ops m → ((openNodeTreeP r fuel pre).run ⟨m, n, F⟩).isOk = false) ∧
    (k ≤ n + (nodeExistsP pre).ops m → ((nodeExistsP pre).run ⟨m, n, F⟩).isOk = false) ∧
    (k ≤ n + (nodeExistsListableP pre).ops m → ((nodeExistsListableP pre).run ⟨m, n, F⟩).isOk = false) :=
  ⟨C20Ops.fault_at_k_is_error_gen _ m n F k hk h1, C20Ops.fault_at_k_is_error_gen _ m n F k hk h1,
   C20Ops.fault_at_k_is_error_gen _ m n F k hk h1, C20Ops.fault_at_k_is_error_gen _ m n F k hk h1,
   C20Ops.fault_at_k_is_error_gen _ m n F k hk h1, C20Ops.fault_at_k_is_error_gen _ m n F k hk h1,
   C20Ops.fault_at_k_is_error_gen _ m n F k hk h1, C20Ops.fault_at_k_is_error_gen _ m n F k hk h1,
   C20Ops.fault_at_k_is_error_gen _ m n F k hk h1,
   fun h2 => by
     obtain ⟨s', h⟩ := LProg.fault_is_err (nodeExistsListableP pre) m n F k hk h1 h2
     rw [h]; rfl⟩
/-- non-vacuous: counter at 5, failing set {3, 9, 40}: 9 is the 4th operation of the listing (the `list_dir` of `h/g/`) -/
example : (getChildNodesP exR true 16 exPre).run ⟨exH, 5, [3, 9, 40]⟩ = .err ⟨exH, 9, [3, 9, 40]⟩ := by decide

/-! ### `listing_complete` -/

/-- a run that succeeds under ANY failing set is the fault-free run: same value, store untouched by the faults -/
private theorem ok_is_fault_free {β} (p : Prog β) (m : KV) (n : Nat) (F : List Nat) (v : β) (s' : FStore)
    (h : p.run ⟨m, n, F⟩ = .ok v s') : (p.run ⟨m, n, []⟩).val? = some v := by
  obtain ⟨hp, _, _, _⟩ := Prog.run_ok p m n F v s' h
  rw [Prog.run_nofault]
  simp only [Prog.outcome, hp]
  rfl

/-- **`listing_complete`**: a listing that SUCCEEDS under any failing set (any counter value) returns exactly what the
fault-free hierarchy model lists — the same children, kinds, paths and nesting; so "succeeded with a child missing" is
impossible, for every listing method (`m` is the store the listing ran on; by `list_fault_no_effect` it is also the
store afterwards) -/
theorem listing_complete (r : Reader) (arrOk : Key → Bool) (m : KV) (n : Nat) (F : List Nat) (rec : Bool) (pre : Key)
    (s' : FStore) :
    (∀ ts, (getChildNodesP r rec (depthBound m) pre).run ⟨m, n, F⟩ = .ok ts s' →
      childNodes r m rec (depthBound m) pre = some ts) ∧
    (∀ ts, (FaultList.childrenP r rec (depthBound m) pre).run ⟨m, n, F⟩ = .ok ts s' → children r m rec pre = some (flattenList ts)) ∧
    (∀ ps, (childPathsP r rec (depthBound m) pre).run ⟨m, n, F⟩ = .ok ps s' → childPaths r m rec pre = some ps) ∧
    (∀ ps, (childGroupPathsP r rec (depthBound m) pre).run ⟨m, n, F⟩ = .ok ps s' → childGroupPaths r m rec pre = some ps) ∧
    (∀ ps, (childArrayPathsP r rec (depthBound m) pre).run ⟨m, n, F⟩ = .ok ps s' → childArrayPaths r m rec pre = some ps) ∧
    (∀ gs, (childGroupsP r rec (depthBound m) pre).run ⟨m, n, F⟩ = .ok gs s' → childGroups r m rec pre = some gs) ∧
    (∀ as, (childArraysP r arrOk rec (depthBound m) pre).run ⟨m, n, F⟩ = .ok as s' →
      childArrays r arrOk m rec pre = some as) ∧
    (∀ t, (openNodeTreeP r (depthBound m) pre).run ⟨m, n, F⟩ = .ok t s' →
      openNodeTree r m pre = some t ∧ openNode r m pre = some t.flatten) ∧
    (∀ b, (nodeExistsP pre).run ⟨m, n, F⟩ = .ok b s' → b = nodeExists m pre) ∧
    (∀ b, (nodeExistsListableP pre).run ⟨m, n, F⟩ = .ok b s' → b = nodeExists m pre) := by
  obtain ⟨f1, f2, f3, f4, f5, f6, f7, f8, f9, f10, f11⟩ := flist_refines r arrOk m n rec pre
  refine ⟨fun v h => ?_, fun v h => ?_, fun v h => ?_, fun v h => ?_, fun v h => ?_, fun v h => ?_, fun v h => ?_,
    fun v h => ?_, fun v h => ?_, fun v h => ?_⟩
  · rw [← f1]; exact ok_is_fault_free _ m n F v s' h
  · rw [← f2, ok_is_fault_free _ m n F v s' h]; rfl
  · rw [← f3]; exact ok_is_fault_free _ m n F v s' h
  · rw [← f4]; exact ok_is_fault_free _ m n F v s' h
  · rw [← f5]; exact ok_is_fault_free _ m n F v s' h
  · rw [← f6]; exact ok_is_fault_free _ m n F v s' h
  · rw [← f7]; exact ok_is_fault_free _ m n F v s' h
  · constructor
    · rw [← f8]; exact ok_is_fault_free _ m n F v s' h
    · rw [← f9, ok_is_fault_free _ m n F v s' h]; rfl
  · have := ok_is_fault_free _ m n F v s' h
    rw [f10] at this
    exact (Option.some.inj this).symm
  · obtain ⟨hp, _⟩ := LProg.run_ok _ m n F v s' h
    rw [nodeExistsListableP_pure] at hp
    exact (congrArg Prod.fst (Option.some.inj hp)).symm
/-- hypothesis satisfiable with a NON-empty failing set: the failing ordinals 11 and 12 lie beyond the 10 operations of
the listing, the run succeeds — with the complete listing -/
example : (getChildNodesP exR true (depthBound exH) exPre).run ⟨exH, 0, [11, 12]⟩ = .ok exTrees ⟨exH, 10, [11, 12]⟩ ∧
    childNodes exR exH true (depthBound exH) exPre = some exTrees := ⟨by decide, exH_childNodes⟩

/-- **`listing_complete`, as a dichotomy**: under ANY failing set the recursive listing either fails or returns the
fault-free listing — there is no third outcome -/
theorem listing_error_or_complete (r : Reader) (m : KV) (n : Nat) (F : List Nat) (rec : Bool) (pre : Key) :
    ((getChildNodesP r rec (depthBound m) pre).run ⟨m, n, F⟩).isOk = false ∨
    ((getChildNodesP r rec (depthBound m) pre).run ⟨m, n, F⟩).val? = childNodes r m rec (depthBound m) pre := by
  cases h : (getChildNodesP r rec (depthBound m) pre).run ⟨m, n, F⟩ with
  | err s' => exact Or.inl rfl
  | ok v s' => exact Or.inr ((listing_complete r (fun _ => true) m n F rec pre s').1 v h).symm
example : ∀ k ∈ List.range' 0 13, (k = 0 ∨ k > 10) =
    (((getChildNodesP exR true 16 exPre).run ⟨exH, 0, [k]⟩).val? = some exTrees) := by decide

/-! ### the seeded defect -/

/-- **the seeded `get_child_nodes`, as a counterexample** (`let Ok(metadata) = Node::get_metadata(..) else { continue }`:
every error of a child's metadata read skips the child).  On the example hierarchy a fault at the 2nd operation — the
read of `h/a/zarr.json` — makes the seeded listing SUCCEED with the child `a` MISSING (`[g{c}, v2]`, all 10 operations
issued), where the code as it is returns an error; both `fault_at_k_is_error_list` and `listing_complete` fail for it.
A fault inside the sub-listing's metadata read (the 5th operation, `h/g/c/zarr.json`) likewise loses `c` -/
theorem swallowed_child_error_counterexample :
    getChildNodesSwallowF exR true 16 exPre (FStore.failAt exH (some 2)) =
      .ok [.mk "h/g/".toList .group3 [.mk "h/g/c/".toList .array3 []], .mk "h/v2/".toList .group2 []] ⟨exH, 10, [2]⟩ ∧
    (getChildNodesP exR true 16 exPre).run (FStore.failAt exH (some 2)) = .err ⟨exH, 2, [2]⟩ ∧
    childNodes exR exH true (depthBound exH) exPre = some exTrees ∧
    getChildNodesSwallowF exR true 16 exPre (FStore.failAt exH (some 5)) =
      .ok [.mk "h/a/".toList .array3 [], .mk "h/g/".toList .group3 [], .mk "h/v2/".toList .group2 []] ⟨exH, 10, [5]⟩ ∧
    -- without faults the seeded variant is indistinguishable on this hierarchy
    getChildNodesSwallowF exR true 16 exPre ⟨exH, 0, []⟩ = .ok exTrees ⟨exH, 10, []⟩ :=
  ⟨by decide, by decide, exH_childNodes, by decide, by decide⟩

/-- the seeded variant over ALL positions of the example: it succeeds (with a shorter listing) at every position that is
a child's metadata read — 2 (`a`), 3 (`g`), 5 (`g/c`), 6–9 (the four reads of `v2`) — and fails only at the three
`list_dir`s; the harness measures the same on its hierarchy (`ok_with_fault=8` of `n=12`: 8 metadata reads of children) -/
example : ∀ k ∈ List.range' 1 10,
    (getChildNodesSwallowF exR true 16 exPre (FStore.failAt exH (some k))).isOk = !([1, 4, 10].contains k) := by decide

/-! ### `list_fault_no_effect` -/

/-- **`list_fault_no_effect`**: a listing never changes the store — fault-free, faulted at any set of operations,
successful or not — for every listing method -/
theorem list_fault_no_effect (r : Reader) (arrOk : Key → Bool) (m : KV) (n : Nat) (F : List Nat) (rec : Bool)
    (fuel : Nat) (pre : Key) :
    ((getChildNodesP r rec fuel pre).run ⟨m, n, F⟩).st.m = m ∧
    ((FaultList.childrenP r rec fuel pre).run ⟨m, n, F⟩).st.m = m ∧
    ((childPathsP r rec fuel pre).run ⟨m, n, F⟩).st.m = m ∧
    ((childGroupPathsP r rec fuel pre).run ⟨m, n, F⟩).st.m = m ∧
    ((childArrayPathsP r rec fuel pre).run ⟨m, n, F⟩).st.m = m ∧
    ((childGroupsP r rec fuel pre).run ⟨m, n, F⟩).st.m = m ∧
    ((childArraysP r arrOk rec fuel pre).run ⟨m, n, F⟩).st.m = m ∧
    ((openNodeTreeP r fuel pre).run ⟨m, n, F⟩).st.m = m ∧
    ((nodeExistsP pre).run ⟨m, n, F⟩).st.m = m ∧
    ((nodeExistsListableP pre).run ⟨m, n, F⟩).st.m = m :=
  ⟨Prog.readOnly_run _ (getChildNodesP_readOnly r rec fuel pre) m n F,
   Prog.readOnly_run _ (getChildNodesP_readOnly r rec fuel pre) m n F,
   Prog.readOnly_run _ (childPathsP_readOnly r rec fuel pre) m n F,
   Prog.readOnly_run _ (childGroupPathsP_readOnly r rec fuel pre) m n F,
   Prog.readOnly_run _ (childArrayPathsP_readOnly r rec fuel pre) m n F,
   Prog.readOnly_run _ (childGroupsP_readOnly r rec fuel pre) m n F,
   Prog.readOnly_run _ (childArraysP_readOnly r arrOk rec fuel pre) m n F,
   Prog.readOnly_run _ (openNodeTreeP_readOnly r fuel pre) m n F,
   Prog.readOnly_run _ (nodeExistsP_readOnly pre) m n F,
   LProg.readOnly_run _ (nodeExistsListableP_readOnly pre) m n F⟩
example : ((openNodeTreeP exR 16 exPre).run ⟨exH, 0, [4, 6]⟩) = .err ⟨exH, 4, [4, 6]⟩ := by decide

/-- the recursive listing of this file is the `childNodesP` of `Model/FaultOps.lean`, and `Node::open` flattened is its
`openNodeP`: the theorems of `Props/C20Ops.lean` about them are about the same programs -/
theorem agrees_with_faultops (r : Reader) (fuel : Nat) (pre : Key) :
    getChildNodesP r true fuel pre = childNodesP r fuel pre := getChildNodesP_true r fuel pre
example : (getChildNodesP exR true 16 exPre).ops exH = (childNodesP exR 16 exPre).ops exH := by decide

end Zarrs.C20List
