import ZarrsModel.Model.ShardAsm
import ZarrsModel.Lemmas.ShardAsmSched
import ZarrsModel.Lemmas.ShardAsmLockProg
import ZarrsModel.Props.C03Chain
set_option Elab.async false
set_option maxRecDepth 8000
/-
C16 for the INTERNAL parallelism of the sharding codec (`ShardingCodec::encode_bounded` / `encode_unbounded`,
zarrs/src/array/codec/array_to_bytes/sharding/sharding_codec.rs): the inner-chunk tasks of the parallel loop share an
atomic offset, an unsafely shared buffer and an unsafely shared index (machine in Model/ShardAsm.lean).

* `asm_ranges_disjoint`   — under ANY schedule of ANY number of tasks, at every reachable state, the reserved byte
                            ranges are pairwise disjoint, lie in `[base, offset)` and cover it without gaps; at the
                            end `offset = base + Σ len`;
* `asm_result_legal`      — at the end of any complete schedule the value is a `Shard.Legal` shard of the encoded
                            inner chunks (`asm_fair_complete`: every schedule that gives each task its three steps is
                            complete, none fails);
  `asm_decode_schedule_independent`, `asm_chain_decode_schedule_independent` — hence it decodes to the same chunks
                            / the same chunk whatever the schedule;
* `asm_final_length`      — the length of the value is `Σ len + index size` for every schedule; the bytes are NOT
                            schedule independent (`asm_bytes_depend_on_schedule`);
* `asm_racy_loses_update` — with `load; store` instead of `fetch_add` (seeded defect) a schedule of two tasks ends
                            with both index entries naming the same range: one chunk reads back as the other;
  `asm_racy_sequential_ok` — but every schedule that runs one task at a time is still correct, which is why a test at
                            concurrency 1 cannot see the defect;
* `lock_across_join_can_deadlock`, `no_lock_across_join_no_deadlock` — the mutex of the shard-index cache and
                            work-stealing joins (second half of the file).
-/
namespace Zarrs.C16Shard
open Zarrs Zarrs.Codec Zarrs.Partial Zarrs.C02 Zarrs.C02S Zarrs.ShardAsm

/-! ### running examples -/

/-- three inner chunks, the middle one all fill; index at the end, little endian, no checksum; `encode_bounded` with
a declared bound of 3 bytes per inner chunk -/
def exP : Params := ⟨⟨3, true, false, false⟩, [some [1, 2], none, some [3, 4, 5]], .bounded 3⟩
/-- the same chunks with the index (crc32c-protected) at the start, through `encode_unbounded` -/
def exQ : Params := ⟨⟨3, false, false, true⟩, [some [1, 2], none, some [3, 4, 5]], .unbounded⟩
/-- two interleavings: task 0 reserves first / task 2 reserves first -/
def exS1 : List Nat := [0, 2, 0, 2, 2, 0]
def exS2 : List Nat := [2, 0, 0, 2, 1, 2, 0]

/-- the declared bound being right, chunks and index fit the pre-allocated buffer -/
theorem fits_of_boundOk (p : Params) (h : p.boundOk = true) : p.fits = true := by
  unfold Params.fits Params.cap
  unfold Params.boundOk at h
  cases hm : p.mode with
  | unbounded => simp
  | bounded bound =>
    rw [hm] at h
    simp only [decide_eq_true_eq, Nat.add_le_add_iff_right]
    simp only [List.all_eq_true] at h
    unfold Params.total lens
    generalize p.chunks = cs at h
    induction cs with
    | nil => simp
    | cons c cs ih =>
      have h1 := h c List.mem_cons_self
      have h2 := ih (fun x hx => h x (List.mem_cons_of_mem _ hx))
      simp only [List.map_cons, List.sum_cons, List.length_cons, Nat.succ_mul]
      cases c with
      | none => simp only; omega
      | some b => simp only [decide_eq_true_eq] at h1 ⊢; omega
example : exP.boundOk = true ∧ exP.fits = true ∧ exQ.boundOk = true := by decide
/-- the capacity check of `encode_bounded` is part of the machine.  It compares the END of each reservation with the
whole buffer (`num_chunks * bound + index size`), so a declared bound of 2 bytes — wrong for inner chunk 2, which has 3 —
still passes here thanks to the slack left by the all-fill chunk (54 bytes for 5 + 48); with a bound of 1 (51 bytes,
index at the start) task 2 reserves `[48, 51)` and task 0's reservation `51 + 2 > 51` fails the check:
`Err("Sharding did not allocate a large enough buffer")`, whatever the other tasks do -/
example : ShardAsm.assemble false { exP with mode := .bounded 2 } exS2 = .ok ([3, 4, 5, 1, 2] ++ Shard.encodeIndex exP.cfg [(3, 2), (Shard.sentinel, Shard.sentinel), (0, 3)]) ∧
    ({ exP with mode := .bounded 2 } : Params).fits = true ∧
    ({ exP with mode := .bounded 1 } : Params).fits = false ∧
    ShardAsm.assemble false { exP with cfg := ⟨3, false, false, false⟩, mode := .bounded 1 } exS2 = .tooSmall := by decide

/-- **disjoint, gap-free reservations under every schedule.**  Any parameters (any number of inner chunks, any
lengths, either encoder) whose buffer is large enough, ANY schedule (any list of task numbers: any interleaving of the
tasks' steps, complete or not).  In the state reached: ranges owned by different tasks are disjoint; every owned
range lies in `[base, offset)`, which lies in `[base, base + Σ len)`; every position of `[base, offset)` is owned by
some task (no gaps); and once every task has finished `offset = base + Σ len`. -/
theorem asm_ranges_disjoint (p : Params) (hfit : p.fits = true) (sched : List Nat) :
    let s := run false p (init p) sched
    (∀ i j a b c d, i ≠ j → rangeOf p s i = some (a, b) → rangeOf p s j = some (c, d) → b ≤ c ∨ d ≤ a) ∧
    (∀ i a b, rangeOf p s i = some (a, b) → p.base ≤ a ∧ b ≤ s.offset) ∧
    s.offset ≤ p.base + p.total ∧
    (∀ k, p.base ≤ k → k < s.offset → ∃ i a b, rangeOf p s i = some (a, b) ∧ a ≤ k ∧ k < b) ∧
    (complete s = true → s.offset = p.base + p.total) := by
  intro s
  have inv : Inv p s := inv_run p hfit sched _ (inv_init p)
  refine ⟨?_, ?_, ?_, ?_, ?_⟩
  · intro i j a b c d hij hi hj
    obtain ⟨bi, _, hli, rfl⟩ := rangeOf_log p s inv i a b hi
    obtain ⟨bj, _, hlj, rfl⟩ := rangeOf_log p s inv j c d hj
    exact chained_disj _ _ _ inv.chain _ hli _ hlj hij
  · intro i a b hi
    obtain ⟨bi, _, hli, rfl⟩ := rangeOf_log p s inv i a b hi
    exact chained_bounds _ _ _ inv.chain _ hli
  · have := inv.acct; omega
  · intro k h1 h2
    obtain ⟨e, he, he1, he2⟩ := chained_cover _ _ _ inv.chain k h1 h2
    exact ⟨e.1, _, _, log_rangeOf p s inv e he, he1, he2⟩
  · intro hc; exact final_offset p s inv hc

example : exP.fits = true := by decide
/-- the conclusion evaluated half-way through `exS2` (both tasks have reserved, neither has finished) and at its end -/
example : rangeOf exP (run false exP (init exP) [2, 0]) 2 = some (0, 3) ∧
    rangeOf exP (run false exP (init exP) [2, 0]) 0 = some (3, 5) ∧
    rangeOf exP (run false exP (init exP) [2, 0]) 1 = none ∧
    (run false exP (init exP) [2, 0]).offset = 5 ∧ complete (run false exP (init exP) [2, 0]) = false ∧
    complete (run false exP (init exP) exS2) = true := by decide

/-- **fair schedules are complete**: if every task is scheduled at least three times (reserve, index entry, copy),
in any interleaving, every task finishes and none fails the capacity check -/
theorem asm_fair_complete (p : Params) (hfit : p.fits = true) (sched : List Nat) (hfair : fair p sched = true) :
    complete (run false p (init p) sched) = true :=
  fair_complete p hfit sched hfair
example : fair exP exS1 = false ∧ fair exP (exS1 ++ [1, 1, 1]) = true ∧ fair exP [1, 2, 0, 1, 0, 2, 2, 0, 1] = true := by decide

/-- **the result is a legal shard.**  Well-formed parameters (one index entry per inner chunk), buffer large enough,
shard shorter than 2^64 - 1 bytes; ANY schedule that runs every task to its end.  The assembly returns a value, and
that value is a `Shard.Legal` shard holding exactly the encoded inner chunks (index decodable at its declared place,
every stored chunk's entry names a range inside the value, outside the index, holding the chunk's bytes; ranges
pairwise disjoint; all-fill chunks carry the sentinel). -/
theorem asm_result_legal (p : Params) (hwf : p.wf = true) (hfit : p.fits = true) (hsmall : p.small = true)
    (sched : List Nat) (hcomp : complete (run false p (init p) sched) = true) :
    ∃ v, assemble false p sched = .ok v ∧ Shard.Legal p.cfg v p.chunks := by
  have inv : Inv p (run false p (init p) sched) := inv_run p hfit sched _ (inv_init p)
  exact ⟨_, final_value p _ hwf hfit inv hcomp, final_legal p _ hwf hfit hsmall inv hcomp⟩

example : exP.wf = true ∧ exP.fits = true ∧ exP.small = true ∧ complete (run false exP (init exP) exS2) = true ∧
    exQ.wf = true ∧ exQ.fits = true ∧ exQ.small = true ∧ complete (run false exQ (init exQ) exS2) = true := by decide
/-- the conclusion evaluated: under `exS2` task 2 reserved first, so the bytes of inner chunk 2 come first and
entry 0 is `(3, 2)`, entry 2 is `(0, 3)` -/
example : assemble false exP exS2 = .ok ([3, 4, 5, 1, 2] ++ Shard.encodeIndex exP.cfg [(3, 2), (Shard.sentinel, Shard.sentinel), (0, 3)]) ∧
    assemble false exQ exS2 = .ok (Shard.encodeIndex exQ.cfg [(55, 2), (Shard.sentinel, Shard.sentinel), (52, 3)] ++ [3, 4, 5, 1, 2]) := by
  decide

/-- … in particular for every fair schedule -/
theorem asm_result_legal_fair (p : Params) (hwf : p.wf = true) (hfit : p.fits = true) (hsmall : p.small = true)
    (sched : List Nat) (hfair : fair p sched = true) :
    ∃ v, assemble false p sched = .ok v ∧ Shard.Legal p.cfg v p.chunks :=
  asm_result_legal p hwf hfit hsmall sched (fair_complete p hfit sched hfair)

/-- **what is decoded does not depend on the schedule**: the values two complete schedules produce both decode (index
checksum validated) to the same inner chunks — the ones that were put in -/
theorem asm_decode_schedule_independent (p : Params) (hwf : p.wf = true) (hfit : p.fits = true) (hsmall : p.small = true)
    (s1 s2 : List Nat) (h1 : complete (run false p (init p) s1) = true) (h2 : complete (run false p (init p) s2) = true) :
    ∃ v1 v2, assemble false p s1 = .ok v1 ∧ assemble false p s2 = .ok v2 ∧
      Shard.decode p.cfg true v1 = .ok p.chunks ∧ Shard.decode p.cfg true v2 = Shard.decode p.cfg true v1 := by
  obtain ⟨v1, ha1, hl1⟩ := asm_result_legal p hwf hfit hsmall s1 h1
  obtain ⟨v2, ha2, hl2⟩ := asm_result_legal p hwf hfit hsmall s2 h2
  exact ⟨v1, v2, ha1, ha2, Conform.legal_shard_decodes' _ _ _ hl1,
    by rw [Conform.legal_shard_decodes' _ _ _ hl1, Conform.legal_shard_decodes' _ _ _ hl2]⟩

example : complete (run false exQ (init exQ) exS1) = true ∧ complete (run false exQ (init exQ) exS2) = true := by decide

/-- **the length is schedule independent**: `Σ len + index size` -/
theorem asm_final_length (p : Params) (hwf : p.wf = true) (hfit : p.fits = true)
    (sched : List Nat) (hcomp : complete (run false p (init p) sched) = true) :
    ∃ v, assemble false p sched = .ok v ∧ v.length = p.total + Shard.indexSize p.cfg := by
  have inv : Inv p (run false p (init p) sched) := inv_run p hfit sched _ (inv_init p)
  refine ⟨_, final_value p _ hwf hfit inv hcomp, ?_⟩
  have hn : (run false p (init p) sched).index.length = p.cfg.nChunks := by
    rw [inv.idxLen]; simp only [Params.wf, beq_iff_eq] at hwf; exact hwf.symm
  have hil := Shard.encodeIndex_length p.cfg _ hn
  have hfit' := hfit
  simp only [Params.fits, decide_eq_true_eq] at hfit'
  have hbl := base_le p
  have hdl := dataOf_length p (run false p (init p) sched) (by rw [inv.bufLen]; omega)
  split <;> simp only [List.length_append, hil, hdl] <;> omega

/-- … although the bytes are not: the two interleavings of the example give values of the same length (53) that differ -/
theorem asm_bytes_depend_on_schedule :
    assemble false exP exS1 ≠ assemble false exP exS2 ∧
    (∃ v1 v2, assemble false exP exS1 = .ok v1 ∧ assemble false exP exS2 = .ok v2 ∧ v1.length = 53 ∧ v2.length = 53 ∧
      v1.take 5 = [1, 2, 3, 4, 5] ∧ v2.take 5 = [3, 4, 5, 1, 2]) := by
  refine ⟨by decide, _, _, rfl, rfl, ?_⟩
  decide


/-! ### the chunk decoded from an assembled shard does not depend on the schedule -/

/-- the assembly parameters of a sharding chain on a chunk: the shard configuration with the number of inner chunks of
the (array-to-array encoded) chunk, and the inner chunks encoded by the inner chain, `none` for all-fill ones
(`encode_bounded` / `encode_unbounded`: `extract_array_subset`, `is_fill_value`, `inner_codecs.encode`) -/
def asmParams (a2a : List AStage) (cfg : Shard.Cfg) (ish : Shape) (inner : ChainS) (sh : Shape) (fill : Elem)
    (xs : List Elem) (mode : Mode) : Params :=
  ⟨{ cfg with nChunks := prod (zipDiv (encodeA2A a2a sh xs).2 ish) },
   shardChunks (inner.encode ish fill) fill (encodeA2A a2a sh xs).2 ish (encodeA2A a2a sh xs).1, mode⟩

theorem asmParams_wf (a2a : List AStage) (cfg : Shard.Cfg) (ish : Shape) (inner : ChainS) (sh : Shape) (fill : Elem)
    (xs : List Elem) (mode : Mode) : (asmParams a2a cfg ish inner sh fill xs mode).wf = true := by
  simp [asmParams, Params.wf, shardChunks, splitShard_length]

/-- **C16 for the parallel encoder, end to end.**  A well-formed sharding chain `a2a ; sharding(cfg, ish, inner) ; b2b`
(C03's `chainSOk`), a chunk of its shape; the inner chunks are encoded by the inner chain and assembled by the
parallel loop under ANY complete schedule (buffer large enough — the declared bound is right —, shard shorter than
2^64 - 1 bytes).  Whatever the schedule, the assembly returns a value, and the full decoder
(`CodecChain::decode` + `ShardingCodec::decode`) applied to its bytes-to-bytes encoding returns the chunk.  Hence
`decode (assemble s1) = decode (assemble s2)` for any two complete schedules. -/
theorem asm_chain_decode_schedule_independent (a2a : List AStage) (cfg : Shard.Cfg) (ish : Shape) (es : Nat)
    (inner : ChainS) (b2b : List BStage) (sh : Shape) (fill : Elem) (xs : List Elem) (mode : Mode)
    (hok : chainSOk (.shard a2a cfg ish es inner b2b) sh fill) (hx : chunkOk es sh xs)
    (hfits : ∀ q ∈ splitShard (encodeA2A a2a sh xs).2 ish (encodeA2A a2a sh xs).1, inner.fits ish fill q)
    (hfit : (asmParams a2a cfg ish inner sh fill xs mode).fits = true)
    (hsmall : (asmParams a2a cfg ish inner sh fill xs mode).small = true) :
    (∀ sched, complete (run false (asmParams a2a cfg ish inner sh fill xs mode) (init (asmParams a2a cfg ish inner sh fill xs mode)) sched) = true →
      ∃ v, assemble false (asmParams a2a cfg ish inner sh fill xs mode) sched = .ok v ∧
        (ChainS.shard a2a cfg ish es inner b2b).decode sh fill (b2b.foldl (fun b st => st.enc b) v) = some xs) ∧
    (∀ s1 s2 v1 v2, assemble false (asmParams a2a cfg ish inner sh fill xs mode) s1 = .ok v1 →
      assemble false (asmParams a2a cfg ish inner sh fill xs mode) s2 = .ok v2 →
      (ChainS.shard a2a cfg ish es inner b2b).decode sh fill (b2b.foldl (fun b st => st.enc b) v1) =
      (ChainS.shard a2a cfg ish es inner b2b).decode sh fill (b2b.foldl (fun b st => st.enc b) v2)) := by
  have key : ∀ sched v, assemble false (asmParams a2a cfg ish inner sh fill xs mode) sched = .ok v →
      (ChainS.shard a2a cfg ish es inner b2b).decode sh fill (b2b.foldl (fun b st => st.enc b) v) = some xs := by
    intro sched v hv
    have hcomp : complete (run false (asmParams a2a cfg ish inner sh fill xs mode) (init (asmParams a2a cfg ish inner sh fill xs mode)) sched) = true := by
      unfold ShardAsm.assemble finish at hv
      split at hv
      · cases hv
      · split at hv
        · cases hv
        · split at hv
          · cases hv
          · rename_i h; simpa using h
    obtain ⟨v', hv', hl⟩ := asm_result_legal _ (asmParams_wf a2a cfg ish inner sh fill xs mode) hfit hsmall sched hcomp
    rw [hv] at hv'
    cases hv'
    exact C03Chain.chainS_decode_relayout a2a cfg ish es inner b2b sh fill xs v hok hx hfits hl
  refine ⟨?_, ?_⟩
  · intro sched hcomp
    obtain ⟨v, hv, _⟩ := asm_result_legal _ (asmParams_wf a2a cfg ish inner sh fill xs mode) hfit hsmall sched hcomp
    exact ⟨v, hv, key sched v hv⟩
  · intro s1 s2 v1 v2 h1 h2
    rw [key s1 v1 h1, key s2 v2 h2]


/-! a chunk of 6 one-byte elements, inner chunks of 2 elements (`bytes` only), the middle one all fill; a `crc32c`
after the sharding codec -/
def exLeaf : Chain := { a2a := [], big := false, es := 1, unit := 1, b2b := [] }
def exXs : List Elem := [[1], [2], [0], [0], [5], [6]]
theorem exChain_ok : chainSOk (.shard [] ⟨0, true, false, false⟩ [2] 1 (.leaf exLeaf []) [.stripSuffix 4 crc32c]) [6] [0] := by
  refine ⟨trivial, by decide, ?_, rfl, rfl, ⟨by decide, by decide, by decide, trivial, ?_, trivial⟩⟩
  · intro st hst
    simp only [List.mem_singleton] at hst
    subst hst; rfl
  · intro st hst
    cases hst

example : chainSOk (.shard [] ⟨0, true, false, false⟩ [2] 1 (.leaf exLeaf []) [.stripSuffix 4 crc32c]) [6] [0] ∧
    chunkOk 1 [6] exXs ∧
    (∀ q ∈ splitShard (encodeA2A [] [6] exXs).2 [2] (encodeA2A [] [6] exXs).1, (ChainS.leaf exLeaf []).fits [2] [0] q) ∧
    (asmParams [] ⟨0, true, false, false⟩ [2] (.leaf exLeaf []) [6] [0] exXs (.bounded 2)).fits = true ∧
    (asmParams [] ⟨0, true, false, false⟩ [2] (.leaf exLeaf []) [6] [0] exXs (.bounded 2)).small = true ∧
    asmParams [] ⟨0, true, false, false⟩ [2] (.leaf exLeaf []) [6] [0] exXs (.bounded 2) =
      ⟨⟨3, true, false, false⟩, [some [1, 2], none, some [5, 6]], .bounded 2⟩ ∧
    complete (run false (asmParams [] ⟨0, true, false, false⟩ [2] (.leaf exLeaf []) [6] [0] exXs (.bounded 2))
      (init (asmParams [] ⟨0, true, false, false⟩ [2] (.leaf exLeaf []) [6] [0] exXs (.bounded 2))) exS2) = true := by
  refine ⟨exChain_ok, ⟨by decide, by decide⟩, ?_, by decide, by decide, by decide, by decide⟩
  simp only [ChainS.fits]
  decide
/-- the conclusion evaluated on two schedules: different bytes, the same chunk -/
example : ∃ v1 v2, ShardAsm.assemble false (asmParams [] ⟨0, true, false, false⟩ [2] (.leaf exLeaf []) [6] [0] exXs (.bounded 2)) exS1 = .ok v1 ∧
    ShardAsm.assemble false (asmParams [] ⟨0, true, false, false⟩ [2] (.leaf exLeaf []) [6] [0] exXs (.bounded 2)) exS2 = .ok v2 ∧
    v1 ≠ v2 ∧
    (ChainS.shard [] ⟨0, true, false, false⟩ [2] 1 (.leaf exLeaf []) [.stripSuffix 4 crc32c]).decode [6] [0] (checksumEnc crc32c v1) = some exXs ∧
    (ChainS.shard [] ⟨0, true, false, false⟩ [2] 1 (.leaf exLeaf []) [.stripSuffix 4 crc32c]).decode [6] [0] (checksumEnc crc32c v2) = some exXs := by
  refine ⟨_, _, rfl, rfl, by decide, by decide +kernel, by decide +kernel⟩

/-! ### the racy reservation (seeded defect: `load … store` instead of `fetch_add`) -/

/-- two inner chunks of two bytes each, index at the end, `encode_bounded` -/
def exR : Params := ⟨⟨2, true, false, false⟩, [some [1, 2], some [3, 4]], .bounded 2⟩

/-- **the lost update.**  Under the schedule "0 loads, 1 loads, 0 stores, 1 stores, …" of the racy machine both tasks
read offset 0 and both store 2: both index entries name the range `[0, 2)`, the offset ends at 2 instead of 4, the
shard is 34 bytes instead of 36, it is still well formed as far as the index goes (entries inside the value) — no error
is reported —, and decoding returns inner chunk 1's bytes for BOTH inner chunks.  The atomic machine under the same
interleaving (one step less per task) is correct. -/
theorem asm_racy_loses_update :
    (run true exR (init exR) [0, 1, 0, 1, 0, 1, 0, 1]).index = [(0, 2), (0, 2)] ∧
    (run true exR (init exR) [0, 1, 0, 1, 0, 1, 0, 1]).offset = 2 ∧
    (∃ v, ShardAsm.assemble true exR [0, 1, 0, 1, 0, 1, 0, 1] = .ok v ∧ v.length = 34 ∧
      (Shard.decode exR.cfg true v).toOption = some [some [3, 4], some [3, 4]]) ∧
    (∃ v, ShardAsm.assemble false exR [0, 1, 0, 1, 0, 1] = .ok v ∧ v.length = 36 ∧
      (Shard.decode exR.cfg true v).toOption = some [some [1, 2], some [3, 4]]) := by
  refine ⟨by decide, by decide, ⟨_, rfl, by decide, by decide⟩, ⟨_, rfl, by decide, by decide⟩⟩

/-- in `encode_unbounded` (precomputed length) the same race leaves bytes of the returned vector unwritten -/
example : ShardAsm.assemble true { exR with mode := .unbounded } [0, 1, 0, 1, 0, 1, 0, 1] = .uninit := by decide

/-- **sequential schedules hide the defect.**  ANY schedule of the racy machine that runs the tasks one at a time (in
any order `order`, every task occurring in it; four consecutive steps each: load, store, index entry, copy) ends in
the same state as the atomic machine under the corresponding sequential schedule, and so yields a legal shard of the
inner chunks: a test that encodes with a concurrency limit of 1 (or a shard whose parallel loop is not split) cannot
see the lost update. -/
theorem asm_racy_sequential_ok (p : Params) (hwf : p.wf = true) (hfit : p.fits = true) (hsmall : p.small = true)
    (order : List Nat) (hall : ∀ i, i < p.chunks.length → i ∈ order) :
    run true p (init p) (seqSched 4 order) = run false p (init p) (seqSched 3 order) ∧
    ∃ v, ShardAsm.assemble true p (seqSched 4 order) = .ok v ∧ Shard.Legal p.cfg v p.chunks := by
  have heq := racy_seq_eq p hfit order _ (inv_init p)
  refine ⟨heq, ?_⟩
  obtain ⟨v, hv, hl⟩ := asm_result_legal_fair p hwf hfit hsmall (seqSched 3 order) (seq_fair p order hall)
  refine ⟨v, ?_, hl⟩
  unfold ShardAsm.assemble at hv ⊢
  rw [heq]; exact hv

example : exR.wf = true ∧ exR.fits = true ∧ exR.small = true ∧ ∀ i, i < exR.chunks.length → i ∈ [1, 0] := by decide
/-- a shard with a single stored inner chunk cannot show the defect either (nobody to race with) -/
example : ShardAsm.assemble true { exR with chunks := [none, some [3, 4]] } [1, 0, 1, 1, 0, 1] =
    ShardAsm.assemble false { exR with chunks := [none, some [3, 4]] } [1, 0, 1, 0, 1] := by decide
example : ShardAsm.assemble true exR (seqSched 4 [1, 0]) = ShardAsm.assemble false exR (seqSched 3 [1, 0]) ∧
    seqSched 4 [1, 0] = [1, 1, 1, 1, 0, 0, 0, 0] ∧
    ∃ v, ShardAsm.assemble true exR (seqSched 4 [1, 0]) = .ok v ∧ v.take 4 = [3, 4, 1, 2] ∧
      (Shard.decode exR.cfg true v).toOption = some [some [1, 2], some [3, 4]] := by
  refine ⟨by decide, by decide, _, rfl, by decide, by decide⟩


/-! ### the mutex of the shard-index cache and work-stealing joins

`ArrayShardedReadableExtCache::retrieve` (zarrs/src/array/array_sync_sharded_readable_ext.rs) holds the cache's
`std::sync::Mutex` while it creates the partial decoder of a shard (which decodes the shard index).  The callers are
rayon tasks, one per shard.  Pool model in Model/ShardAsm.lean (`pstep`): root tasks are queued, `fork c` queues a
child, a worker at `wait c` whose child is unfinished takes any queued task on top of its stack. -/

/-- the seeded defect (b): task 0 = a shard task that takes the mutex, splits work under it (`fork 2 … wait 2`: the
parallel index conversion) and releases it afterwards; task 1 = another shard task that needs the mutex; task 2 = the
forked piece.  Two workers. -/
def exPoolBad : Pool := ⟨[[.lock, .fork 2, .wait 2, .unlock], [.lock, .unlock], [.work]], [0, 1], 2⟩
/-- the code as it is: the mutex is released before anything is split -/
def exPoolGood : Pool := ⟨[[.lock, .unlock, .fork 2, .wait 2], [.lock, .unlock], [.work]], [0, 1], 2⟩
/-- re-entrancy with a single worker: the forked piece itself needs the mutex its parent holds -/
def exPoolReentrant : Pool := ⟨[[.lock, .fork 1, .wait 1, .unlock], [.lock, .unlock]], [0], 1⟩

theorem prun_reach (P : Pool) (sched : List (Nat × Nat)) : ∀ (s s' : PState), PReach P s → prun P s sched = some s' → PReach P s' := by
  induction sched with
  | nil => intro s s' hr h; simp only [prun, Option.some.injEq] at h; rw [← h]; exact hr
  | cons x rest ih =>
    intro s s' hr h
    obtain ⟨w, c⟩ := x
    simp only [prun] at h
    split at h
    · rename_i s1 hs1
      exact ih s1 s' (PReach.step s s1 w c hr hs1) h
    · cases h

/-- **holding the mutex across a join can deadlock.**  Worker 0 takes task 0, locks, forks the piece and reaches the
join; worker 1 steals the piece; worker 0, waiting, takes the still queued task 1 on top of its stack, whose `lock`
blocks on the mutex held by the frame below it; worker 1 finishes the piece and goes idle.  Nothing can move: tasks 0
and 1 are unfinished, worker 0 is blocked on its own mutex.  (With one worker and a piece that needs the mutex itself
the same happens without any stealing.)  The pool is well formed; the only rule it breaks is `noLockAcrossJoin`. -/
theorem lock_across_join_can_deadlock :
    exPoolBad.wf = true ∧ exPoolBad.noLockAcrossJoin = false ∧
    (∃ s, PReach exPoolBad s ∧
      prun exPoolBad (pinit exPoolBad) [(0, 0), (0, 0), (0, 0), (1, 2), (0, 1), (1, 0), (1, 0)] = some s ∧
      s = ⟨[[(1, 0), (0, 2)], []], [], [2], some 0⟩ ∧ pdeadlocked exPoolBad s = true) ∧
    (∃ s, PReach exPoolReentrant s ∧ pdeadlocked exPoolReentrant s = true) := by
  refine ⟨by decide, by decide, ?_, ?_⟩
  · have h : prun exPoolBad (pinit exPoolBad) [(0, 0), (0, 0), (0, 0), (1, 2), (0, 1), (1, 0), (1, 0)] =
        some ⟨[[(1, 0), (0, 2)], []], [], [2], some 0⟩ := by decide
    exact ⟨_, prun_reach _ _ _ _ PReach.init h, h, rfl, by decide⟩
  · have h : prun exPoolReentrant (pinit exPoolReentrant) [(0, 0), (0, 0), (0, 0), (0, 1)] =
        some ⟨[[(1, 0), (0, 2)]], [], [], some 0⟩ := by decide
    exact ⟨_, prun_reach _ _ _ _ PReach.init h, by decide⟩

/-- **no mutex across a join ⇒ no deadlock.**  ANY well-formed pool (`Pool.wf`: any number of workers ≥ 1, any number
of root tasks that fork and join leaf tasks, waits after their forks, every program locks and unlocks in turn and
ends unlocked) in which no program holds the mutex at a `fork` or a `wait` (`noLockAcrossJoin`): in EVERY reachable
state, under every stealing order, either all tasks have finished or some worker can take a step. -/
theorem no_lock_across_join_no_deadlock (P : Pool) (hwf : P.wf = true) (hnj : P.noLockAcrossJoin = true)
    (s : PState) (hr : PReach P s) : pdeadlocked P s = false := by
  unfold pdeadlocked
  cases hf : allFinished P s with
  | true => rfl
  | false =>
    obtain ⟨w, hw, he⟩ := pool_progress P hwf hnj s hr hf
    simp only [Bool.not_false, Bool.true_and]
    rw [Bool.eq_false_iff]
    intro hall
    have := List.all_eq_true.mp hall w (List.mem_range.mpr hw)
    rw [he] at this; cases this

example : exPoolGood.wf = true ∧ exPoolGood.noLockAcrossJoin = true := by decide
/-- the interleaving that deadlocked `exPoolBad`, replayed on the good pool as far as it goes: worker 0 releases the
mutex before the join, so task 1 on top of its stack gets the mutex; and a complete run -/
example : (prun exPoolGood (pinit exPoolGood) [(0, 0), (0, 0), (0, 0), (0, 0), (1, 2), (0, 1), (0, 1)]).map (·.holder) = some (some 0) ∧
    (prun exPoolGood (pinit exPoolGood)
      [(0, 0), (0, 0), (0, 0), (0, 0), (1, 2), (0, 1), (0, 1), (0, 1), (0, 1), (1, 0), (1, 0), (0, 0), (0, 0)]).map
        (allFinished exPoolGood) = some true := by decide

end Zarrs.C16Shard
