import ZarrsModel.Model.Keys
import ZarrsModel.Lemmas.Keys
/-
C11 — chunk keys are injective, valid and exactly as the specification writes them.
-/
namespace Zarrs.C11
open Zarrs.Keys

/-- decimal rendering: digits only, non-empty, no leading zero except for 0 itself, and it denotes `n` -/
theorem decimal_form (n : Nat) :
    (decimal n).all Char.isDigit = true ∧ decimal n ≠ [] ∧
    (n ≠ 0 → (decimal n).head? ≠ some '0') ∧ (n = 0 → decimal n = ['0']) ∧
    (decimal n).foldl (fun acc c => acc * 10 + (c.toNat - '0'.toNat)) 0 = n :=
  ⟨decimal_all_isDigit n, decimal_ne_nil n, decimal_head_ne_zero n,
    fun h => h ▸ decimal_zero, decimal_value n⟩

example : decimal 0 = "0".toList := by decide
example : decimal 7 = "7".toList := by decide
example : decimal 10 = "10".toList := by decide
example : decimal 1203 = "1203".toList := by decide

theorem decimal_injective (a b : Nat) (h : decimal a = decimal b) : a = b :=
  decimal_inj h

/-- the textual form mandated by the specification (default: `c` then separator-prefixed decimals;
v2: decimals joined by the separator; rank 0: `c` resp. `0`) -/
theorem encode_form (sep : Char) (idx : List Nat) :
    encode .default sep idx = 'c' :: (idx.flatMap (fun n => sep :: decimal n)) ∧
    (idx ≠ [] → encode .v2 sep idx = ((idx.flatMap (fun n => sep :: decimal n)).drop 1)) ∧
    encode .v2 sep [] = ['0'] := by
  have key : idx ≠ [] →
      sep :: joinSep sep (idx.map decimal) = idx.flatMap (fun n => sep :: decimal n) := by
    intro h
    rw [cons_joinSep sep (idx.map decimal) (by simpa using h), List.flatMap_map]
  refine ⟨?_, ?_, rfl⟩
  · cases idx with
    | nil => rfl
    | cons n r =>
      rw [← key (by simp)]
      simp [encode]
  · intro h
    rw [← key h]
    cases idx with
    | nil => exact absurd rfl h
    | cons n r => simp [encode]

-- the model produces the specification's literal keys
example : encode .default '/' [1, 23, 0] = "c/1/23/0".toList := by decide
example : encode .default '.' [1, 23, 0] = "c.1.23.0".toList := by decide
example : encode .default '/' [] = "c".toList := by decide
example : encode .v2 '.' [1, 23] = "1.23".toList := by decide
example : encode .v2 '/' [1, 23] = "1/23".toList := by decide
example : encode .v2 '.' [] = "0".toList := by decide
-- the `idx ≠ []` hypothesis of the second conjunct is satisfiable
example : ([1, 23] : List Nat) ≠ [] := by decide

/-- distinct chunk coordinates of one array (same rank) get distinct keys -/
theorem encode_injective (e : Enc) (sep : Char) (hs : isSep sep = true) (a b : List Nat)
    (hl : a.length = b.length) (h : encode e sep a = encode e sep b) : a = b := by
  have hfree : ∀ (l : List Nat), ∀ x ∈ l.map decimal, ∀ c ∈ x, c ≠ sep := by
    intro l x hx c hc
    rw [List.mem_map] at hx
    obtain ⟨n, _, rfl⟩ := hx
    exact isDigit_ne_sep hs (isDigit_of_mem_decimal hc)
  have hj : joinSep sep (a.map decimal) = joinSep sep (b.map decimal) → a = b := fun hj =>
    map_decimal_inj (joinSep_inj (by simpa using hl) (hfree a) (hfree b) hj)
  match a, b, hl with
  | [], [], _ => rfl
  | x :: a, y :: b, hl =>
    apply hj
    cases e <;> simpa [encode] using h

-- hypotheses are satisfiable: both library separators, equal ranks
example : isSep '/' = true := by decide
example : isSep '.' = true := by decide
example : ([1, 2] : List Nat).length = ([3, 4] : List Nat).length := by decide
-- and the rank hypothesis is necessary for v2: rank 0 and `[0]` share the key "0"
example : encode .v2 '.' [] = encode .v2 '.' [0] := by decide

-- `hs` is kept from the specification's statement; the proof shows validity for any separator character
set_option linter.unusedVariables false in
/-- every chunk key is a valid store key beneath the array's node path -/
theorem key_valid (p : List Char) (hp : validPath p = true) (e : Enc) (sep : Char) (hs : isSep sep = true)
    (idx : List Nat) :
    validKey (dataKey p (encode e sep idx)) = true ∧
    (nodePrefix p) <+: (dataKey p (encode e sep idx)) := by
  have hk := encode_goodKey e sep idx
  rcases validPath_cases hp with rfl | ⟨q, rfl, hq⟩
  · rw [dataKey_root, nodePrefix_root, validKey_iff]
    exact ⟨hk, List.nil_prefix⟩
  · rw [dataKey_cons hq.2.2.1, nodePrefix_cons hq.2.2.1, validKey_iff]
    refine ⟨hq.append_slash hk, ?_⟩
    exact ⟨encode e sep idx, by simp⟩

example : validPath "/".toList = true := by decide
example : validPath "/a/b".toList = true := by decide
example : dataKey "/a/b".toList (encode .default '/' [1, 2]) = "a/b/c/1/2".toList := by decide
example : dataKey "/".toList (encode .v2 '.' [1, 2]) = "1.2".toList := by decide
example : nodePrefix "/a/b".toList = "a/b/".toList := by decide

/-- injectivity survives prefixing with the node path -/
theorem dataKey_injective (p : List Char) (k1 k2 : List Char) (h : dataKey p k1 = dataKey p k2) : k1 = k2 :=
  dataKey_inj p h

-- `hs` is kept from the specification's statement; the proof does not need it
set_option linter.unusedVariables false in
/-- a chunk key never equals a metadata key of the same node -/
theorem not_metadata (p : List Char) (hp : validPath p = true) (e : Enc) (sep : Char) (hs : isSep sep = true)
    (idx : List Nat) (name : List Char) (hn : name ∈ metaNames) :
    dataKey p (encode e sep idx) ≠ metaKey p name := by
  intro h
  have hne : encode e sep idx ≠ name := fun heq => encode_not_metaName e sep idx (heq ▸ hn)
  rcases validPath_cases hp with rfl | ⟨q, rfl, hq⟩
  · exact hne h
  · rw [dataKey_cons hq.2.2.1, metaKey_cons hq.2.2.1] at h
    exact hne (by simpa using h)

example : "zarr.json".toList ∈ metaNames := by decide
example : ".zarray".toList ∈ metaNames := by decide
example : metaKey "/a/b".toList "zarr.json".toList = "a/b/zarr.json".toList := by decide
example : metaKey "/".toList "zarr.json".toList = "zarr.json".toList := by decide

end Zarrs.C11
