import ZarrsModel.Model.Concurrency
import ZarrsModel.Lemmas.Concurrency
/-
C16 (the concurrency split): "the outcome of every array operation — including the fact that it completes — is
independent of the concurrency target, the thread-pool size and the interleaving of its internal tasks", for the one
function every multi-chunk array method calls first: `concurrency_chunks_and_codec` (zarrs/src/array/concurrency.rs,
`Model/Concurrency.lean`).  What the per-chunk calls are handed is the caller's options in every field except
`concurrent_target`, for every target, number of chunks, `chunk_concurrent_minimum` and codec recommendation
(`chunksAndCodec_options_preserved`); the two limits are at least one, lie within their recommendations, reach the
target exactly when the two maxima allow it, and grow with the target (`calcOuterInner_*`); the chunk limit is
between 1 and `max(num_chunks, chunk_concurrent_minimum)`, so `iter_concurrent_limit!` always runs a bounded,
non-empty pool (`chunks_limit_le`, `chunks_pool_progress`).  The seeded variant that rebuilds the options from the
global defaults loses `store_empty_chunks` (`chunksAndCodecSeeded_loses_storeEmptyChunks`).

Theorems only; lemmas are in `Lemmas/Concurrency.lean`.  `o.WF` / `i.WF` ("both ends ≥ 1") holds of EVERY
`RecommendedConcurrency` value of the Rust code (`ofBounds_wf`: `new` is the only constructor of the private field);
`Ordered` (`min() ≤ max()`) holds of every recommendation zarrs builds itself (`chunksRec_ordered`, `chainRec_sound`)
but not of `RecommendedConcurrency::new(5..3)`.
-/
set_option Elab.async false
namespace Zarrs.C16Conc
open Zarrs.Concurrency

/-! ### concrete values documenting that the hypotheses below are satisfiable -/

/-- the chunk-loop recommendation for 9 chunks at `chunk_concurrent_minimum` 4: 4..9 -/
def exOuter : RecConc := chunksRec 4 9
/-- a sharding codec with 6 inner chunks per shard: 1..6 -/
def exInner : RecConc := shardRec 6
/-- caller options differing from the global defaults in every field -/
def exOpts : Opts := ⟨false, true, 7, true⟩
/-- the global defaults of config.rs on an 8-thread machine -/
def exCfg : GlobalCfg := { codecConcurrentTarget := 8 }

/-! ### `RecommendedConcurrency::new` -/

/-- every `RecommendedConcurrency` is well formed: both ends at least one, whatever the bounds -/
theorem new_wf (s e : Bound) : (RecConc.ofBounds s e).WF := ofBounds_wf s e

example : (RecConc.ofBounds (.excluded 0) (.included 0)) = ⟨1, some 1⟩ := by decide

/-- "a minimum concurrency of zero is interpreted as a minimum concurrency of one", and so is a maximum of zero -/
theorem new_zero (hi : Nat) : (RecConc.new 0 hi).min = 1 ∧ (RecConc.new 0 0).max = some 1 ∧
    RecConc.newMaximum 0 = ⟨1, some 1⟩ ∧ RecConc.newMinimum 0 = ⟨1, none⟩ := ⟨rfl, rfl, rfl, rfl⟩

example : RecConc.new 0 7 = ⟨1, some 7⟩ := by decide

/-- `max()` is the EXCLUSIVE end of the range given to `new`: `new(a..b).max() == b`, `new(a..=b).max() == b + 1` -/
theorem new_max_is_exclusive_end (a b : Nat) (hb : 1 ≤ b) :
    (RecConc.new a b).max = some b ∧ (RecConc.ofBounds (.included a) (.included b)).max = some (b + 1) := by
  refine ⟨?_, ?_⟩
  · exact congrArg some (Nat.max_eq_left hb)
  · exact congrArg some (Nat.max_eq_left (show 1 ≤ b + 1 by omega))

example : (RecConc.new 4 8).max = some 8 ∧ (RecConc.ofBounds (.included 4) (.included 8)).max = some 9 := by decide

/-- the empty range `k..k` that `concurrency_chunks_and_codec` builds for `num_chunks == chunk_concurrent_minimum`
    is stored as min = max = k (only the bounds are read); an inverted range is stored inverted -/
theorem new_empty_range (k : Nat) : RecConc.new k k = ⟨Nat.max k 1, some (Nat.max k 1)⟩ ∧
    chunksRec k k = ⟨Nat.max k 1, some (Nat.max k 1)⟩ := by
  refine ⟨rfl, ?_⟩
  unfold chunksRec
  rw [natMin_eq_left (Nat.le_refl k), show Nat.max k k = k from Nat.max_self k]
  rfl

example : chunksRec 4 4 = ⟨4, some 4⟩ ∧ RecConc.new 5 3 = ⟨5, some 3⟩ ∧ ¬ (RecConc.new 5 3).Ordered := by decide

/-! ### `calc_concurrency_outer_inner` -/

/-- no division by zero: on well-formed recommendations the function returns, and returns the closed form -/
theorem calcOuterInner_total (t : Nat) (o i : RecConc) (ho : o.WF) (hi : i.WF) :
    calcOuterInner t o i = some (outerOf t o i, innerOf t o i) := calcOuterInner_eq ho hi

example : calcOuterInner 32 exOuter exInner = some (6, 6) := by decide
/-- the unit tests of concurrency.rs (`concurrent_limits`) -/
example : calcOuterInner 32 (.newMinimum 24) (.newMaximum 1) = some (32, 1) ∧
    calcOuterInner 32 (.newMinimum 24) (.new 4 8) = some (24, 4) ∧
    calcOuterInner 32 (.newMaximum 5) (.new 7 12) = some (3, 12) ∧
    calcOuterInner 32 (.newMaximum 2) (.new 7 14) = some (2, 14) := by decide

/-- both limits are at least one -/
theorem calcOuterInner_ge_one (t : Nat) (o i : RecConc) (ho : o.WF) (hi : i.WF) (a b : Nat)
    (h : calcOuterInner t o i = some (a, b)) : 1 ≤ a ∧ 1 ≤ b := by
  rw [calcOuterInner_eq ho hi] at h
  cases h
  exact ⟨outerOf_pos ho hi, innerOf_pos ho hi⟩

example : exOuter.WF ∧ exInner.WF ∧ calcOuterInner 0 exOuter exInner = some (4, 1) := by decide

/-- each limit lies within its recommendation, whenever min ≤ max -/
theorem calcOuterInner_within (t : Nat) (o i : RecConc) (ho : o.WF) (hi : i.WF) (hoo : o.Ordered) (hio : i.Ordered)
    (a b : Nat) (h : calcOuterInner t o i = some (a, b)) :
    (o.min ≤ a ∧ LeB a o.max) ∧ (i.min ≤ b ∧ LeB b i.max) := by
  rw [calcOuterInner_eq ho hi] at h
  cases h
  exact ⟨⟨outerOf_ge_min ho hi hoo, outerOf_le_max hoo⟩, ⟨innerOf_ge_min ho hio, innerOf_le_max hio⟩⟩

example : exOuter.Ordered ∧ exInner.Ordered ∧ calcOuterInner 17 exOuter exInner = some (4, 5) := by decide

/-- `min ≤ max` is needed: with the inverted recommendation `new(5..3)` the inner limit leaves its range on both sides -/
theorem calcOuterInner_within_needs_ordered :
    calcOuterInner 100 (.new 1 1) (.new 5 3) = some (1, 3) ∧ calcOuterInner 1 (.new 1 1) (.new 5 3) = some (1, 5) := by
  decide

/-- the exact condition under which the target is reached: `outer * inner ≥ target` iff
    `outer.max() * inner.max() ≥ target` (an unbounded maximum always suffices) -/
theorem calcOuterInner_reaches_target (t : Nat) (o i : RecConc) (ho : o.WF) (hi : i.WF) (hoo : o.Ordered)
    (hio : i.Ordered) (a b : Nat) (h : calcOuterInner t o i = some (a, b)) :
    t ≤ a * b ↔ LeB t (maxProduct o i) := by
  rw [calcOuterInner_eq ho hi] at h
  cases h
  exact ⟨reachable_of_reaches hoo hio, reaches_of_reachable ho hi⟩

example : maxProduct exOuter exInner = some 54 ∧ calcOuterInner 54 exOuter exInner = some (9, 6) ∧
    calcOuterInner 53 exOuter exInner = some (9, 6) ∧ calcOuterInner 48 exOuter exInner = some (8, 6) := by decide

/-- ... and it is NOT reached in general: a target above the product of the maxima ends at the two maxima -/
theorem calcOuterInner_saturates (t mo mi : Nat) (o i : RecConc) (ho : o.WF) (hi : i.WF) (hoo : o.Ordered)
    (hio : i.Ordered) (hom : o.max = some mo) (him : i.max = some mi) (h : mo * mi < t) :
    calcOuterInner t o i = some (mo, mi) := by
  rw [calcOuterInner_eq ho hi]
  obtain ⟨e1, e2⟩ := saturates ho hi hoo hio hom him h
  rw [e1, e2]

theorem calcOuterInner_target_not_reached_witness :
    calcOuterInner 100 exOuter exInner = some (9, 6) ∧ ¬ (100 ≤ 9 * 6) := by decide

/-- a target of one (or any target the two minima already reach) gives the minima -/
theorem calcOuterInner_target_one (t : Nat) (o i : RecConc) (ho : o.WF) (hi : i.WF) (h : t ≤ i.min * o.min) :
    calcOuterInner t o i = some (o.min, i.min) := by
  rw [calcOuterInner_eq ho hi]
  obtain ⟨e1, e2⟩ := no_raise (t := t) (o := o) (i := i) h
  rw [e1, e2]

theorem calcOuterInner_target_one' (o i : RecConc) (ho : o.WF) (hi : i.WF) :
    calcOuterInner 1 o i = some (o.min, i.min) :=
  calcOuterInner_target_one 1 o i ho hi (Nat.mul_le_mul hi.1 ho.1)

example : calcOuterInner 1 exOuter exInner = some (4, 1) ∧ calcOuterInner 4 exOuter exInner = some (4, 1) := by decide

/-- both limits are monotone in the target -/
theorem calcOuterInner_mono (t t' : Nat) (o i : RecConc) (ho : o.WF) (hi : i.WF) (hoo : o.Ordered) (hio : i.Ordered)
    (htt : t ≤ t') (a b a' b' : Nat) (h : calcOuterInner t o i = some (a, b))
    (h' : calcOuterInner t' o i = some (a', b')) : a ≤ a' ∧ b ≤ b' := by
  rw [calcOuterInner_eq ho hi] at h h'
  cases h
  cases h'
  exact ⟨outerOf_mono ho hi hoo htt, innerOf_mono ho hio htt⟩

example : calcOuterInner 20 exOuter exInner = some (4, 5) ∧ calcOuterInner 30 exOuter exInner = some (5, 6) := by decide

/-- neither limit is raised further than needed: a raised inner limit minus one does not reach the target with the
    minimal outer limit, a raised outer limit minus one does not reach it with the final inner limit -/
theorem calcOuterInner_tight (t : Nat) (o i : RecConc) (ho : o.WF) (hi : i.WF) (a b : Nat)
    (h : calcOuterInner t o i = some (a, b)) :
    (i.min < b → (b - 1) * o.min < t) ∧ (o.min < a → (a - 1) * b < t) := by
  rw [calcOuterInner_eq ho hi] at h
  cases h
  exact ⟨inner_tight ho, outer_tight ho hi⟩

example : calcOuterInner 30 exOuter exInner = some (5, 6) ∧ (6 - 1) * exOuter.min < 30 ∧ (5 - 1) * 6 < 30 := by decide

/-! ### `concurrency_chunks_and_codec` -/

/-- the function returns for every well-formed codec recommendation (every one the Rust code can build) -/
theorem chunksAndCodec_total (cfg : GlobalCfg) (t n : Nat) (opts : Opts) (codec : RecConc) (hc : codec.WF) :
    ∃ lim o', chunksAndCodec cfg t n opts codec = some (lim, o') := by
  unfold chunksAndCodec
  rw [calcOuterInner_eq (chunksRec_wf _ _) hc]
  exact ⟨_, _, rfl⟩

example : chunksAndCodec exCfg 32 9 exOpts exInner = some (6, ⟨false, true, 6, true⟩) := by decide

/-- EVERY field of the options except `concurrent_target` is exactly the caller's — for every target, number of chunks,
    global configuration (minimum setting and defaults) and codec recommendation — and `concurrent_target` is the
    inner limit of `calc_concurrency_outer_inner` -/
theorem chunksAndCodec_options_preserved (cfg : GlobalCfg) (t n : Nat) (opts : Opts) (codec : RecConc)
    (lim : Nat) (o' : Opts) (h : chunksAndCodec cfg t n opts codec = some (lim, o')) :
    o'.validateChecksums = opts.validateChecksums ∧ o'.storeEmptyChunks = opts.storeEmptyChunks ∧
    o'.experimentalPartialEncoding = opts.experimentalPartialEncoding ∧
    calcOuterInner t (chunksRec cfg.chunkConcurrentMinimum n) codec = some (lim, o'.concurrentTarget) := by
  unfold chunksAndCodec at h
  cases hc : calcOuterInner t (chunksRec cfg.chunkConcurrentMinimum n) codec with
  | none => rw [hc] at h; cases h
  | some p =>
    obtain ⟨a, b⟩ := p
    rw [hc] at h
    cases h
    exact ⟨rfl, rfl, rfl, rfl⟩

example : ∃ lim o', chunksAndCodec exCfg 5 9 exOpts exInner = some (lim, o') ∧ o'.storeEmptyChunks = true ∧
    o'.validateChecksums = false ∧ o'.experimentalPartialEncoding = true ∧ o'.concurrentTarget = 2 :=
  ⟨4, ⟨false, true, 2, true⟩, by decide⟩

/-- so two calls that differ only in the target (and in the global defaults) hand down options that differ at most
    in `concurrent_target` -/
theorem chunksAndCodec_options_independent_of_target (cfg cfg' : GlobalCfg) (t t' n : Nat) (opts : Opts)
    (codec : RecConc) (lim lim' : Nat) (o1 o2 : Opts) (h1 : chunksAndCodec cfg t n opts codec = some (lim, o1))
    (h2 : chunksAndCodec cfg' t' n opts codec = some (lim', o2)) :
    { o1 with concurrentTarget := 0 } = { o2 with concurrentTarget := 0 } := by
  obtain ⟨a1, a2, a3, _⟩ := chunksAndCodec_options_preserved _ _ _ _ _ _ _ h1
  obtain ⟨b1, b2, b3, _⟩ := chunksAndCodec_options_preserved _ _ _ _ _ _ _ h2
  cases o1; cases o2
  simp only at a1 a2 a3 b1 b2 b3
  simp only [a1, a2, a3, b1, b2, b3]

example : chunksAndCodec exCfg 1 9 exOpts exInner = some (4, ⟨false, true, 1, true⟩) ∧
    chunksAndCodec { exCfg with chunkConcurrentMinimum := 1, storeEmptyChunks := false } 40 9 exOpts exInner
      = some (7, ⟨false, true, 6, true⟩) := by decide

/-- the `concurrent_target` handed down lies within the codec's recommendation -/
theorem chunksAndCodec_codec_limit_within (cfg : GlobalCfg) (t n : Nat) (opts : Opts) (codec : RecConc)
    (hc : codec.WF) (hco : codec.Ordered) (lim : Nat) (o' : Opts)
    (h : chunksAndCodec cfg t n opts codec = some (lim, o')) :
    codec.min ≤ o'.concurrentTarget ∧ LeB o'.concurrentTarget codec.max := by
  obtain ⟨_, _, _, h4⟩ := chunksAndCodec_options_preserved _ _ _ _ _ _ _ h
  exact (calcOuterInner_within _ _ _ (chunksRec_wf _ _) hc (chunksRec_ordered _ _) hco _ _ h4).2

example : chunksAndCodec exCfg 1000 9 exOpts exInner = some (9, ⟨false, true, 6, true⟩) := by decide

/-- the outer limit never exceeds `max(num_chunks, chunk_concurrent_minimum)` (one, if both are zero), is at least
    `min(num_chunks, chunk_concurrent_minimum)` and at least one: `iter_concurrent_limit!` never gets the limit 0
    (which would mean "no limit"), whatever the codec recommends -/
theorem chunks_limit_le (cfg : GlobalCfg) (t n : Nat) (opts : Opts) (codec : RecConc) (hc : codec.WF)
    (lim : Nat) (o' : Opts) (h : chunksAndCodec cfg t n opts codec = some (lim, o')) :
    1 ≤ lim ∧ Nat.min cfg.chunkConcurrentMinimum n ≤ lim ∧ lim ≤ Nat.max (Nat.max n cfg.chunkConcurrentMinimum) 1 := by
  obtain ⟨_, _, _, h4⟩ := chunksAndCodec_options_preserved _ _ _ _ _ _ _ h
  rw [calcOuterInner_eq (chunksRec_wf _ _) hc] at h4
  have e1 : outerOf t (chunksRec cfg.chunkConcurrentMinimum n) codec = lim := (Prod.mk.inj (Option.some.inj h4)).1
  rw [← e1]
  have hw := chunksRec_wf cfg.chunkConcurrentMinimum n
  have hoo := chunksRec_ordered cfg.chunkConcurrentMinimum n
  have h1 := outerOf_ge_min (t := t) hw hc hoo
  have h2 := outerOf_le_max (t := t) (i := codec) hoo _ (new_max _ _)
  have h3 : (chunksRec cfg.chunkConcurrentMinimum n).min = Nat.max (Nat.min cfg.chunkConcurrentMinimum n) 1 := rfl
  rw [h3] at h1
  refine ⟨outerOf_pos hw hc, Nat.le_trans (Nat.le_max_left _ _) h1, ?_⟩
  rw [show Nat.max n cfg.chunkConcurrentMinimum = Nat.max cfg.chunkConcurrentMinimum n from Nat.max_comm _ _]
  exact h2

example : chunksAndCodec exCfg 1000 9 exOpts (.newMinimum 1) = some (4, ⟨false, true, 250, true⟩) ∧
    chunksAndCodec exCfg 1000 0 exOpts leafRec = some (4, ⟨false, true, 1, true⟩) ∧
    chunksAndCodec { exCfg with chunkConcurrentMinimum := 0 } 1000 0 exOpts leafRec
      = some (1, ⟨false, true, 1, true⟩) := by decide

/-- `num_chunks == chunk_concurrent_minimum` (the empty range): the outer limit is exactly that number for every
    target -/
theorem chunks_limit_eq_minimum (cfg : GlobalCfg) (t : Nat) (opts : Opts) (codec : RecConc) (hc : codec.WF)
    (lim : Nat) (o' : Opts) (h : chunksAndCodec cfg t cfg.chunkConcurrentMinimum opts codec = some (lim, o')) :
    lim = Nat.max cfg.chunkConcurrentMinimum 1 := by
  obtain ⟨h1, h2, h3⟩ := chunks_limit_le _ _ _ _ _ hc _ _ h
  rw [natMin_eq_left (Nat.le_refl _)] at h2
  rw [show Nat.max cfg.chunkConcurrentMinimum cfg.chunkConcurrentMinimum = cfg.chunkConcurrentMinimum
    from Nat.max_self _] at h3
  exact Nat.le_antisymm h3 (Nat.max_le.2 ⟨h2, h1⟩)

example : chunksAndCodec exCfg 1000 4 exOpts exInner = some (4, ⟨false, true, 6, true⟩) := by decide

/-- how `iter_concurrent_limit!` uses the limit (`iter_subdivide`): the `n` chunk indices are cut into groups of a
    positive size, every index is in a group, and the number of groups — the chunks in flight — is at most the limit;
    with at least one chunk there is at least one group: the operation makes progress and the pool is bounded -/
theorem chunks_pool_progress (cfg : GlobalCfg) (t n : Nat) (opts : Opts) (codec : RecConc) (hc : codec.WF)
    (lim : Nat) (o' : Opts) (h : chunksAndCodec cfg t n opts codec = some (lim, o')) :
    1 ≤ subdivideChunkSize lim n ∧ n ≤ subdivideGroups lim n * subdivideChunkSize lim n ∧
    subdivideGroups lim n ≤ lim ∧ (1 ≤ n → 1 ≤ subdivideGroups lim n) := by
  obtain ⟨h1, _, _⟩ := chunks_limit_le _ _ _ _ _ hc _ _ h
  refine ⟨subdivideChunkSize_pos _ _, subdivideGroups_cover _ _, subdivideGroups_le h1, ?_⟩
  intro hn
  exact divCeil_pos hn (subdivideChunkSize_pos _ _)

example : subdivideChunkSize 4 9 = 3 ∧ subdivideGroups 4 9 = 3 ∧ subdivideChunkSize 0 9 = 1 ∧
    subdivideGroups 0 9 = 9 := by decide

/-! ### the seeded variant -/

/-- the seeded variant (options rebuilt from the global defaults unless the inner limit equals the caller's target)
    loses `store_empty_chunks` (and the other two flags): 4 chunks, minimum 4, a plain codec chain, target 2 -/
theorem chunksAndCodecSeeded_loses_storeEmptyChunks :
    chunksAndCodec exCfg 2 4 ⟨false, true, 2, true⟩ leafRec = some (4, ⟨false, true, 1, true⟩) ∧
    chunksAndCodecSeeded exCfg 2 4 ⟨false, true, 2, true⟩ leafRec = some (4, ⟨true, false, 1, false⟩) ∧
    chunksAndCodecSeeded exCfg 1 4 ⟨false, true, 1, true⟩ leafRec = some (4, ⟨false, true, 1, true⟩) := by decide

/-- exactly when the seeded variant is observable: it differs from the code iff the inner limit differs from the target
    and the caller's flags are not the global defaults -/
theorem chunksAndCodecSeeded_differs_iff (cfg : GlobalCfg) (t n : Nat) (opts : Opts) (codec : RecConc) (hc : codec.WF) :
    chunksAndCodecSeeded cfg t n opts codec ≠ chunksAndCodec cfg t n opts codec ↔
      innerOf t (chunksRec cfg.chunkConcurrentMinimum n) codec ≠ t ∧
      (opts.validateChecksums ≠ cfg.validateChecksums ∨ opts.storeEmptyChunks ≠ cfg.storeEmptyChunks ∨
       opts.experimentalPartialEncoding ≠ cfg.experimentalPartialEncoding) := by
  unfold chunksAndCodecSeeded chunksAndCodec
  rw [calcOuterInner_eq (chunksRec_wf _ _) hc]
  dsimp only
  by_cases he : innerOf t (chunksRec cfg.chunkConcurrentMinimum n) codec = t
  · rw [if_pos he]
    constructor
    · intro h; exact absurd rfl h
    · intro h; exact absurd he h.1
  · rw [if_neg he]
    cases opts with
    | mk v s c p =>
    simp only [OptsBuilder.new, OptsBuilder.setConcurrentTarget, OptsBuilder.build, Opts.intoBuilder, ne_eq,
      Option.some.injEq, Prod.mk.injEq, true_and, Opts.mk.injEq, he, not_false_eq_true]
    constructor
    · intro h
      by_cases h1 : cfg.validateChecksums = v
      · by_cases h2 : cfg.storeEmptyChunks = s
        · by_cases h3 : cfg.experimentalPartialEncoding = p
          · exact absurd ⟨h1, h2, h3⟩ h
          · exact Or.inr (Or.inr (fun e => h3 e.symm))
        · exact Or.inr (Or.inl (fun e => h2 e.symm))
      · exact Or.inl (fun e => h1 e.symm)
    · rintro (h | h | h) ⟨e1, e2, e3⟩
      · exact h e1.symm
      · exact h e2.symm
      · exact h e3.symm

example : innerOf 2 (chunksRec 4 4) leafRec = 1 := by decide

/-! ### where the codec recommendation comes from -/

/-- `CodecChain::recommended_concurrency` always returns a well-formed recommendation with `min() ≤ max()`, so every
    array method's call of `concurrency_chunks_and_codec` returns, with limits inside the recommendations -/
theorem chainRec_sound (a2b : RecConc) (others : List RecConc) :
    (chainRec a2b others).WF ∧ (chainRec a2b others).Ordered := ⟨chainRec_wf _ _, chainRec_ordered _ _⟩

example : chainRec (shardRec 6) [leafRec, leafRec] = ⟨1, some 6⟩ ∧ chainRec leafRec [leafRec] = ⟨1, some 1⟩ ∧
    chainRec (shardRec 0) [] = ⟨1, some 1⟩ ∧ chainRec (.new 5 3) [.newMinimum 7] = ⟨5, none⟩ := by decide

/-- a chain of codecs that all recommend `new_maximum(..)` (every codec of zarrs does) starts at one -/
theorem chainRec_min_one (a2b : RecConc) (others : List RecConc) (h : a2b.min = 1)
    (hall : ∀ r ∈ others, 1 ≤ r.min) : (chainRec a2b others).min = 1 := by
  have hf := foldl_min_of_one others a2b.min (Or.inl h) ⟨by omega, hall⟩
  unfold chainRec
  dsimp only
  rw [hf]
  split
  · rfl
  · next m _ =>
    show Nat.max (Nat.min 1 m) 1 = 1
    exact Nat.max_eq_right (Nat.min_le_left 1 m)

example : (chainRec (shardRec 64) [leafRec, leafRec, leafRec]).min = 1 := by decide

end Zarrs.C16Conc
