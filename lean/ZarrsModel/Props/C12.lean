import ZarrsModel.Model.Conform
import ZarrsModel.Lemmas.Conform
/-
C12 — stored data conforms to the Zarr specification in both directions.

`Zarrs.Conform` is a specification-level reader and writer that shares no code path with the implementation
(its own DEFLATE decoder, gzip/zlib containers, shard reader, chunk key and grid arithmetic).  The correspondence
check runs it against the implementation in both directions.  The theorems here are about that independent
implementation: it reads back what it writes for EVERY layout choice the format allows, so that agreement with it
on the generated layouts is agreement with the format and not with one particular writer.
-/
namespace Zarrs.C12
open Zarrs Zarrs.Codec Zarrs.Inflate Zarrs.Conform

def wfBytes (b : Bytes) : Prop := ∀ x ∈ b, x < 256
def elemsOk (es : Nat) (xs : List Elem) : Prop := ∀ x ∈ xs, x.length = es ∧ wfBytes x

/-! ### DEFLATE and its containers -/

/-- **stored blocks inflate to the data**, whatever follows the stream -/
theorem inflate_stored (bs rest : Bytes) (hb : wfBytes bs) (hr : wfBytes rest) :
    inflate (deflateStored bs ++ rest) = some (bs, rest) := by
  sorry

/-- a DEFLATE flavour the reader inverts (a hypothesis of the layout theorems, proved for stored blocks) -/
def DeflateOk (l : Layout) : Prop :=
  (∀ bs rest, wfBytes bs → wfBytes rest → inflate (deflateOf l bs ++ rest) = some (bs, rest)) ∧
  (∀ bs, wfBytes bs → wfBytes (deflateOf l bs))
theorem deflateOk_stored (l : Layout) (h : l.deflate = 0) : DeflateOk l := by
  sorry

/-- **gzip and zlib members read back**, with or without the optional gzip header fields -/
theorem gunzip_gzip (l : Layout) (hl : DeflateOk l) (bs : Bytes) (hb : wfBytes bs) :
    gunzip (gzipWith (deflateOf l) l.gzipExtra bs) = some bs := by
  sorry
theorem unzlib_zlib (l : Layout) (hl : DeflateOk l) (bs : Bytes) (hb : wfBytes bs) :
    unzlib (zlibWith (deflateOf l) bs) = some bs := by
  sorry
example : gunzip (gzipWith deflateFixed true [1, 2, 3, 200, 255]) = some [1, 2, 3, 200, 255] ∧
    unzlib (zlibWith deflateStored [9, 8]) = some [9, 8] := by
  sorry

/-- **any chain of gzip and crc32c decodes what it encoded** -/
theorem b2b_roundtrip (l : Layout) (hl : DeflateOk l) (cs : List B2BK) (b : Bytes) (hb : wfBytes b) :
    b2bDec cs (b2bEnc l cs b) = some b := by
  sorry

/-! ### shards: every legal layout reads as the intended inner chunks -/

/-- **a legal shard decodes to its chunks**, wherever the inner chunks lie, in whatever order, with whatever
padding between them, and with the index at either end -/
theorem legal_shard_decodes (c : Shard.Cfg) (v : Bytes) (chunks : List (Option Bytes))
    (h : Shard.Legal c v chunks) : Shard.decode c true v = .ok chunks := by
  sorry

/-- **the writer's placement is legal for every order/padding choice** -/
theorem placeInner_legal (l : Layout) (c : Shard.Cfg) (chunks : List (Option Bytes)) (hn : chunks.length = c.nChunks)
    (hb : ∀ ch ∈ chunks, ∀ b, ch = some b → wfBytes b)
    (hsmall : ((chunks.filterMap id).map (fun b => b.length + l.pad)).sum + Shard.indexSize c < Shard.sentinel) :
    let base := if c.indexAtEnd then 0 else Shard.indexSize c
    let (data, entries) := placeInner l base chunks
    Shard.Legal c (if c.indexAtEnd then data ++ Shard.encodeIndex c entries else Shard.encodeIndex c entries ++ data) chunks := by
  sorry

/-! ### chunks and arrays -/

def ordersOk (rank : Nat) (ts : List (List Nat)) : Prop := ∀ o ∈ ts, validOrder o rank = true

def Chain.ok (shape : Shape) (c : Chain) : Prop :=
  ordersOk shape.length c.transposes ∧
  match c.a2b with
  | .bytes _ => True
  | .shard ishape inner _ _ _ =>
    ishape.length = shape.length ∧ (∀ d ∈ ishape, 0 < d) ∧
    (∀ p ∈ (encodedShape shape c.transposes).zip ishape, p.1 % p.2 = 0) ∧
    ordersOk shape.length inner.transposes

/-- **a chunk written with any layout choice reads back**: transposes, `bytes` in either byte order, gzip/crc32c in
any order, and a shard with its inner chunks in either order, any padding, either index location/byte order, with
or without index checksum, all-fill inner chunks left out -/
theorem chunk_roundtrip (l : Layout) (hl : DeflateOk l) (es : Nat) (hes : 0 < es) (fill : Elem)
    (hfill : fill.length = es ∧ wfBytes fill) (shape : Shape) (hpos : ∀ d ∈ shape, 0 < d) (c : Chain)
    (hc : Chain.ok shape c) (xs : List Elem) (hx : xs.length = prod shape) (hxe : elemsOk es xs)
    (hsmall : (chunkBody l fill shape c xs).length < Shard.sentinel) :
    chunkDec es fill shape c (chunkEnc l es fill shape c xs) = some xs := by
  sorry

/-- the reader does not depend on the layout: two encodings of the same chunk under different choices decode to
the same elements -/
theorem chunk_layout_independent (l1 l2 : Layout) (h1 : DeflateOk l1) (h2 : DeflateOk l2) (es : Nat) (hes : 0 < es)
    (fill : Elem) (hfill : fill.length = es ∧ wfBytes fill) (shape : Shape) (hpos : ∀ d ∈ shape, 0 < d) (c : Chain)
    (hc : Chain.ok shape c) (xs : List Elem) (hx : xs.length = prod shape) (hxe : elemsOk es xs)
    (hs1 : (chunkBody l1 fill shape c xs).length < Shard.sentinel)
    (hs2 : (chunkBody l2 fill shape c xs).length < Shard.sentinel) :
    chunkDec es fill shape c (chunkEnc l1 es fill shape c xs) = chunkDec es fill shape c (chunkEnc l2 es fill shape c xs) := by
  sorry

/-- **V2 chunks**: C or F order, either byte order, compressor none/zlib/gzip -/
theorem v2_chunk_roundtrip (l : Layout) (hl : DeflateOk l) (a : V2) (hes : 0 < a.es) (hpos : ∀ d ∈ a.chunk, 0 < d)
    (xs : List Elem) (hx : xs.length = prod a.chunk) (hxe : elemsOk a.es xs) :
    a.chunkDec (a.chunkEnc l xs) = some xs := by
  sorry

def V3.ok (a : V3) : Prop :=
  0 < a.es ∧ a.fill.length = a.es ∧ wfBytes a.fill ∧ a.chunk.length = a.shape.length ∧ (∀ d ∈ a.chunk, 0 < d) ∧
  Chain.ok a.chunk a.chain ∧ (a.sep = '/' ∨ a.sep = '.')

/-- **whole arrays**: what the specification writer stores (chunks that are all fill are not stored at all) is
read back as the array, for regular grids with ragged edges, either key encoding and separator -/
theorem v3_array_roundtrip (l : Layout) (hl : DeflateOk l) (a : V3) (ha : V3.ok a) (xs : List Elem)
    (hx : xs.length = prod a.shape) (hxe : elemsOk a.es xs)
    (hsmall : ∀ c ∈ boxIndices (gridOf a.shape a.chunk),
      (chunkBody l a.fill a.chunk a.chain (subBox a.shape a.chunk xs c a.fill)).length < Shard.sentinel) :
    a.read (a.write l xs) = some xs := by
  sorry

theorem v2_array_roundtrip (l : Layout) (hl : DeflateOk l) (a : V2) (hes : 0 < a.es)
    (hfill : a.fill.length = a.es ∧ wfBytes a.fill) (hr : a.chunk.length = a.shape.length)
    (hpos : ∀ d ∈ a.chunk, 0 < d) (hsep : a.sep = '/' ∨ a.sep = '.') (xs : List Elem)
    (hx : xs.length = prod a.shape) (hxe : elemsOk a.es xs) :
    a.read (a.write l xs) = some xs := by
  sorry

end Zarrs.C12
