import ZarrsModel.Model.Conform
import ZarrsModel.Lemmas.Conform
import ZarrsModel.Lemmas.Inflate
import ZarrsModel.Lemmas.ConformShard
import ZarrsModel.Lemmas.ConformChunk
import ZarrsModel.Lemmas.ConformArray
/-
C12 — stored data conforms to the Zarr specification in both directions.

`Zarrs.Conform` is a specification-level reader and writer that shares no code path with the implementation
(its own DEFLATE decoder, gzip/zlib containers, shard reader, chunk key and grid arithmetic).  The correspondence
check runs it against the implementation in both directions.  The theorems here are about that independent
implementation: it reads back what it writes for EVERY layout choice the format allows, so that agreement with it
on the generated layouts is agreement with the format and not with one particular writer.
-/
namespace Zarrs.C12
open Zarrs Zarrs.Codec Zarrs.Inflate Zarrs.Conform

def wfBytes (b : Bytes) : Prop := ∀ x ∈ b, x < 256
def elemsOk (es : Nat) (xs : List Elem) : Prop := ∀ x ∈ xs, x.length = es ∧ wfBytes x

/-- executable forms of the two predicates, used by the examples below -/
private theorem wfBytes_of_all (b : Bytes) (h : b.all (· < 256) = true) : wfBytes b := by
  intro x hx
  simpa using List.all_eq_true.1 h x hx
private theorem elemsOk_of_all (es : Nat) (xs : List Elem)
    (h : xs.all (fun x => x.length == es && x.all (· < 256)) = true) : elemsOk es xs := by
  intro x hx
  have := List.all_eq_true.1 h x hx
  simp only [Bool.and_eq_true, beq_iff_eq] at this
  exact ⟨this.1, wfBytes_of_all x this.2⟩

/-! ### DEFLATE and its containers -/

/-- **stored blocks inflate to the data**, whatever follows the stream -/
theorem inflate_stored (bs rest : Bytes) (hb : wfBytes bs) (hr : wfBytes rest) :
    inflate (deflateStored bs ++ rest) = some (bs, rest) :=
  inflate_deflateStored bs rest hb hr

example : wfBytes [1, 2, 255] ∧ wfBytes [7] ∧ inflate (deflateStored [1, 2, 255] ++ [7]) = some ([1, 2, 255], [7]) :=
  have h1 : wfBytes [1, 2, 255] := by unfold wfBytes; decide
  have h2 : wfBytes [7] := by unfold wfBytes; decide
  ⟨h1, h2, inflate_stored _ _ h1 h2⟩

/-- a DEFLATE flavour the reader inverts (a hypothesis of the layout theorems, proved for stored blocks) -/
def DeflateOk (l : Layout) : Prop :=
  (∀ bs rest, wfBytes bs → wfBytes rest → inflate (deflateOf l bs ++ rest) = some (bs, rest)) ∧
  (∀ bs, wfBytes bs → wfBytes (deflateOf l bs))
theorem deflateOk_stored (l : Layout) (h : l.deflate = 0) : DeflateOk l := by
  have hd : deflateOf l = deflateStored := by simp [deflateOf, h]
  refine ⟨?_, ?_⟩
  · intro bs rest hb hr
    rw [hd]
    exact inflate_deflateStored bs rest hb hr
  · intro bs hb
    rw [hd]
    exact deflateStored_wf bs hb

example : DeflateOk { deflate := 0, gzipExtra := true, reverseInner := true, pad := 2 } := deflateOk_stored _ rfl

/-- **gzip and zlib members read back**, with or without the optional gzip header fields -/
theorem gunzip_gzip (l : Layout) (hl : DeflateOk l) (bs : Bytes) (hb : wfBytes bs) :
    gunzip (gzipWith (deflateOf l) l.gzipExtra bs) = some bs :=
  gunzip_gzipWith (deflateOf l) l.gzipExtra hl.1 bs hb
theorem unzlib_zlib (l : Layout) (hl : DeflateOk l) (bs : Bytes) (hb : wfBytes bs) :
    unzlib (zlibWith (deflateOf l) bs) = some bs :=
  unzlib_zlibWith (deflateOf l) hl.1 bs hb

/-- the hypotheses hold for a stored-block layout with the optional gzip header fields -/
example : gunzip (gzipWith (deflateOf { gzipExtra := true }) true [1, 2, 3, 255]) = some [1, 2, 3, 255] ∧
    unzlib (zlibWith (deflateOf { gzipExtra := true }) [1, 2, 3, 255]) = some [1, 2, 3, 255] :=
  ⟨gunzip_gzip { gzipExtra := true } (deflateOk_stored _ rfl) _ (wfBytes_of_all _ (by decide)),
   unzlib_zlib { gzipExtra := true } (deflateOk_stored _ rfl) _ (wfBytes_of_all _ (by decide))⟩
example : gunzip (gzipWith deflateFixed true [1, 2, 3, 200, 255]) = some [1, 2, 3, 200, 255] ∧
    unzlib (zlibWith deflateStored [9, 8]) = some [9, 8] :=
  fixed_example

/-- **any chain of gzip and crc32c decodes what it encoded** -/
theorem b2b_roundtrip (l : Layout) (hl : DeflateOk l) (cs : List B2BK) (b : Bytes) (hb : wfBytes b) :
    b2bDec cs (b2bEnc l cs b) = some b :=
  (b2b_roundtrip' l (gzOk_of_deflOk l hl) cs b hb).1

example : b2bDec [.gzip, .crc32c, .gzip] (b2bEnc { gzipExtra := true } [.gzip, .crc32c, .gzip] [5, 6, 7]) = some [5, 6, 7] :=
  b2b_roundtrip { gzipExtra := true } (deflateOk_stored _ rfl) _ _ (wfBytes_of_all _ (by decide))

/-! ### shards: every legal layout reads as the intended inner chunks -/

/-- **a legal shard decodes to its chunks**, wherever the inner chunks lie, in whatever order, with whatever
padding between them, and with the index at either end -/
theorem legal_shard_decodes (c : Shard.Cfg) (v : Bytes) (chunks : List (Option Bytes))
    (h : Shard.Legal c v chunks) : Shard.decode c true v = .ok chunks :=
  legal_shard_decodes' c v chunks h

/-- **the writer's placement is legal for every order/padding choice** -/
theorem placeInner_legal (l : Layout) (c : Shard.Cfg) (chunks : List (Option Bytes)) (hn : chunks.length = c.nChunks)
    (hb : ∀ ch ∈ chunks, ∀ b, ch = some b → wfBytes b)
    (hsmall : ((chunks.filterMap id).map (fun b => b.length + l.pad)).sum + Shard.indexSize c < Shard.sentinel) :
    let base := if c.indexAtEnd then 0 else Shard.indexSize c
    let (data, entries) := placeInner l base chunks
    Shard.Legal c (if c.indexAtEnd then data ++ Shard.encodeIndex c entries else Shard.encodeIndex c entries ++ data) chunks :=
  have _ := hb   -- not needed: the index words are produced by `w64`, the data is only sliced
  placeInner_legal' l c chunks hn hsmall

/-- example shard: a stored chunk, a missing chunk, a stored chunk; placed in reverse order with 2 bytes of padding -/
private def exChunks : List (Option Bytes) := [some [1, 2, 3], none, some [4]]
private def exLayout : Layout := { reverseInner := true, pad := 2 }
private theorem exChunks_wf : ∀ ch ∈ exChunks, ∀ b, ch = some b → wfBytes b := by
  intro ch hc b hb
  simp only [exChunks, List.mem_cons, List.not_mem_nil, or_false] at hc
  rcases hc with rfl | rfl | rfl <;> cases hb <;> exact wfBytes_of_all _ (by decide)

/-- index at the end, with checksum -/
example : Shard.Legal ⟨3, true, false, true⟩
    ((placeInner exLayout 0 exChunks).1 ++ Shard.encodeIndex ⟨3, true, false, true⟩ (placeInner exLayout 0 exChunks).2)
    exChunks :=
  placeInner_legal exLayout ⟨3, true, false, true⟩ exChunks rfl exChunks_wf (by decide)
/-- index at the start, big-endian -/
example : Shard.Legal ⟨3, false, true, false⟩
    (Shard.encodeIndex ⟨3, false, true, false⟩ (placeInner exLayout 48 exChunks).2 ++ (placeInner exLayout 48 exChunks).1)
    exChunks :=
  placeInner_legal exLayout ⟨3, false, true, false⟩ exChunks rfl exChunks_wf (by decide)
example : (placeInner exLayout 0 exChunks).1 = [0xAA, 0xAA, 4, 0xAA, 0xAA, 1, 2, 3] ∧
    (placeInner exLayout 0 exChunks).2 = [(5, 3), (Shard.sentinel, Shard.sentinel), (2, 1)] := by decide
/-- so `legal_shard_decodes` applies to a layout the implementation never writes -/
example : Shard.decode ⟨3, true, false, true⟩ true
    ((placeInner exLayout 0 exChunks).1 ++ Shard.encodeIndex ⟨3, true, false, true⟩ (placeInner exLayout 0 exChunks).2) =
    .ok exChunks :=
  legal_shard_decodes _ _ _ (placeInner_legal exLayout ⟨3, true, false, true⟩ exChunks rfl exChunks_wf (by decide))

/-! ### chunks and arrays -/

def ordersOk (rank : Nat) (ts : List (List Nat)) : Prop := ∀ o ∈ ts, validOrder o rank = true

def Chain.ok (shape : Shape) (c : Chain) : Prop :=
  ordersOk shape.length c.transposes ∧
  match c.a2b with
  | .bytes _ => True
  | .shard ishape inner _ _ _ =>
    ishape.length = shape.length ∧ (∀ d ∈ ishape, 0 < d) ∧
    (∀ p ∈ (encodedShape shape c.transposes).zip ishape, p.1 % p.2 = 0) ∧
    ordersOk shape.length inner.transposes

/-- **a chunk written with any layout choice reads back**: transposes, `bytes` in either byte order, gzip/crc32c in
any order, and a shard with its inner chunks in either order, any padding, either index location/byte order, with
or without index checksum, all-fill inner chunks left out -/
theorem chunk_roundtrip (l : Layout) (hl : DeflateOk l) (es : Nat) (hes : 0 < es) (fill : Elem)
    (hfill : fill.length = es ∧ wfBytes fill) (shape : Shape) (hpos : ∀ d ∈ shape, 0 < d) (c : Chain)
    (hc : Chain.ok shape c) (xs : List Elem) (hx : xs.length = prod shape) (hxe : elemsOk es xs)
    (hsmall : (chunkBody l fill shape c xs).length < Shard.sentinel) :
    chunkDec es fill shape c (chunkEnc l es fill shape c xs) = some xs := by
  have _ := hpos   -- not needed: empty chunks round-trip too
  have hc' : ChainOk shape c := by
    refine ⟨hc.1, ?_⟩
    have h2 := hc.2
    cases ha : c.a2b with
    | bytes big => trivial
    | shard ishape inner idxBig idxCrc atEnd =>
      rw [ha] at h2
      exact ⟨h2.1, h2.2.1, h2.2.2.2⟩
  exact chunk_roundtrip' l (gzOk_of_deflOk l hl) es hes fill hfill.1 hfill.2 shape c hc' xs hx hxe hsmall

/-- example chunk: 2×3 elements of 2 bytes, transposed to 3×2, sharded into 1×2 inner chunks (the last one all fill,
hence omitted) that are themselves transposed, big-endian, gzip+crc32c; placed in reverse order with 2 bytes of
padding; index at the end, big-endian, with checksum; stored-block DEFLATE, gzip headers with optional fields -/
private def exL : Layout := { deflate := 0, gzipExtra := true, reverseInner := true, pad := 2 }
private def exL2 : Layout := { deflate := 0, gzipExtra := false, reverseInner := false, pad := 0 }
private def exChain : Chain :=
  { transposes := [[1, 0]],
    a2b := .shard [1, 2] { transposes := [[1, 0]], big := true, b2b := [.gzip, .crc32c] } true true true,
    b2b := [.crc32c, .gzip] }
private def exXs : List Elem := [[1, 0], [2, 0], [0, 0], [4, 1], [5, 255], [0, 0]]
private theorem exChain_ok : Chain.ok [2, 3] exChain := by
  simp only [Chain.ok, ordersOk, exChain]
  decide
example : encodedShape [2, 3] exChain.transposes = [3, 2] := by decide
example : chunkDec 2 [0, 0] [2, 3] exChain (chunkEnc exL 2 [0, 0] [2, 3] exChain exXs) = some exXs :=
  chunk_roundtrip exL (deflateOk_stored _ rfl) 2 (by decide) [0, 0] ⟨rfl, wfBytes_of_all _ (by decide)⟩ [2, 3]
    (by decide) exChain exChain_ok exXs (by decide) (elemsOk_of_all _ _ (by decide)) (by decide +kernel)
/-- the two layouts give different bytes -/
example : (chunkEnc exL 2 [0, 0] [2, 3] exChain exXs).length = 163 ∧
    (chunkEnc exL2 2 [0, 0] [2, 3] exChain exXs).length = 141 := by decide +kernel
/-- `bytes` instead of a shard -/
example : chunkDec 2 [0, 0] [2, 3] ⟨[[1, 0], [1, 0]], .bytes true, [.gzip]⟩
    (chunkEnc exL 2 [0, 0] [2, 3] ⟨[[1, 0], [1, 0]], .bytes true, [.gzip]⟩ exXs) = some exXs :=
  chunk_roundtrip exL (deflateOk_stored _ rfl) 2 (by decide) [0, 0] ⟨rfl, wfBytes_of_all _ (by decide)⟩ [2, 3]
    (by decide) _ ⟨by simp only [ordersOk]; decide, trivial⟩ exXs (by decide) (elemsOk_of_all _ _ (by decide))
    (by decide +kernel)

/-- the reader does not depend on the layout: two encodings of the same chunk under different choices decode to
the same elements -/
theorem chunk_layout_independent (l1 l2 : Layout) (h1 : DeflateOk l1) (h2 : DeflateOk l2) (es : Nat) (hes : 0 < es)
    (fill : Elem) (hfill : fill.length = es ∧ wfBytes fill) (shape : Shape) (hpos : ∀ d ∈ shape, 0 < d) (c : Chain)
    (hc : Chain.ok shape c) (xs : List Elem) (hx : xs.length = prod shape) (hxe : elemsOk es xs)
    (hs1 : (chunkBody l1 fill shape c xs).length < Shard.sentinel)
    (hs2 : (chunkBody l2 fill shape c xs).length < Shard.sentinel) :
    chunkDec es fill shape c (chunkEnc l1 es fill shape c xs) = chunkDec es fill shape c (chunkEnc l2 es fill shape c xs) := by
  rw [chunk_roundtrip l1 h1 es hes fill hfill shape hpos c hc xs hx hxe hs1,
    chunk_roundtrip l2 h2 es hes fill hfill shape hpos c hc xs hx hxe hs2]

example : chunkDec 2 [0, 0] [2, 3] exChain (chunkEnc exL 2 [0, 0] [2, 3] exChain exXs) =
    chunkDec 2 [0, 0] [2, 3] exChain (chunkEnc exL2 2 [0, 0] [2, 3] exChain exXs) :=
  chunk_layout_independent exL exL2 (deflateOk_stored _ rfl) (deflateOk_stored _ rfl) 2 (by decide) [0, 0]
    ⟨rfl, wfBytes_of_all _ (by decide)⟩ [2, 3] (by decide) exChain exChain_ok exXs (by decide)
    (elemsOk_of_all _ _ (by decide)) (by decide +kernel) (by decide +kernel)

/-- **V2 chunks**: C or F order, either byte order, compressor none/zlib/gzip -/
theorem v2_chunk_roundtrip (l : Layout) (hl : DeflateOk l) (a : V2) (hes : 0 < a.es) (hpos : ∀ d ∈ a.chunk, 0 < d)
    (xs : List Elem) (hx : xs.length = prod a.chunk) (hxe : elemsOk a.es xs) :
    a.chunkDec (a.chunkEnc l xs) = some xs :=
  have _ := hpos   -- not needed
  v2_chunk_roundtrip' l hl a hes xs hx hxe

/-- example V2 array: 3×4 elements of 2 bytes in 2×3 chunks (ragged edges), Fortran order, big-endian, zlib -/
private def exV2 : V2 :=
  { shape := [3, 4], chunk := [2, 3], es := 2, big := true, fill := [0, 0], fOrder := true, sep := '.', comp := .zlib,
    path := "/a/b".toList }
example : exV2.chunkDec (exV2.chunkEnc exL exXs) = some exXs :=
  v2_chunk_roundtrip exL (deflateOk_stored _ rfl) exV2 (by decide) (by decide) exXs (by decide)
    (elemsOk_of_all _ _ (by decide))

def V3.ok (a : V3) : Prop :=
  0 < a.es ∧ a.fill.length = a.es ∧ wfBytes a.fill ∧ a.chunk.length = a.shape.length ∧ (∀ d ∈ a.chunk, 0 < d) ∧
  Chain.ok a.chunk a.chain ∧ (a.sep = '/' ∨ a.sep = '.')

/-- **whole arrays**: what the specification writer stores (chunks that are all fill are not stored at all) is
read back as the array, for regular grids with ragged edges, either key encoding and separator -/
theorem v3_array_roundtrip (l : Layout) (hl : DeflateOk l) (a : V3) (ha : V3.ok a) (xs : List Elem)
    (hx : xs.length = prod a.shape) (hxe : elemsOk a.es xs)
    (hsmall : ∀ c ∈ boxIndices (gridOf a.shape a.chunk),
      (chunkBody l a.fill a.chunk a.chain (subBox a.shape a.chunk xs c a.fill)).length < Shard.sentinel) :
    a.read (a.write l xs) = some xs := by
  obtain ⟨hes, hfl, hfw, hr, hpos, hc, hsep⟩ := ha
  exact array_roundtrip a.shape a.chunk hr hpos a.fill xs hx a.key
    (key_inj a.path a.keyEnc a.sep hsep _)
    (chunkEnc l a.es a.fill a.chunk a.chain) (chunkDec a.es a.fill a.chunk a.chain)
    (fun c hcm => chunk_roundtrip l hl a.es hes a.fill ⟨hfl, hfw⟩ a.chunk hpos a.chain hc _
      (subBox_length _ _ _ _ _) (subBox_ok a.es a.fill hfl hfw a.shape a.chunk xs hxe c) (hsmall c hcm))

/-- example V3 array: 3×4 elements of 2 bytes in 2×3 chunks (ragged edges; the chunk (1,1) is all fill and not
stored), the example chain above, `default` keys with `/` under the node `/a/b` -/
private def exV3 : V3 :=
  { shape := [3, 4], chunk := [2, 3], es := 2, fill := [0, 0], keyEnc := .default, sep := '/', chain := exChain,
    path := "/a/b".toList }
private def exArr : List Elem :=
  [[1, 0], [2, 0], [3, 0], [4, 0], [5, 0], [6, 0], [7, 0], [8, 255], [9, 0], [10, 0], [11, 0], [0, 0]]
private theorem exV3_ok : V3.ok exV3 :=
  ⟨by decide, rfl, wfBytes_of_all _ (by decide), rfl, by decide, exChain_ok, Or.inl rfl⟩
example : exV3.read (exV3.write exL exArr) = some exArr :=
  v3_array_roundtrip exL (deflateOk_stored _ rfl) exV3 exV3_ok exArr (by decide) (elemsOk_of_all _ _ (by decide))
    (by decide +kernel)
example : (exV3.write exL exArr).map (·.1) = ["a/b/c/0/0".toList, "a/b/c/0/1".toList, "a/b/c/1/0".toList] := by
  decide +kernel

theorem v2_array_roundtrip (l : Layout) (hl : DeflateOk l) (a : V2) (hes : 0 < a.es)
    (hfill : a.fill.length = a.es ∧ wfBytes a.fill) (hr : a.chunk.length = a.shape.length)
    (hpos : ∀ d ∈ a.chunk, 0 < d) (hsep : a.sep = '/' ∨ a.sep = '.') (xs : List Elem)
    (hx : xs.length = prod a.shape) (hxe : elemsOk a.es xs) :
    a.read (a.write l xs) = some xs :=
  array_roundtrip a.shape a.chunk hr hpos a.fill xs hx a.key
    (key_inj a.path .v2 a.sep hsep _)
    (a.chunkEnc l) a.chunkDec
    (fun c _ => v2_chunk_roundtrip l hl a hes hpos _
      (subBox_length _ _ _ _ _) (subBox_ok a.es a.fill hfill.1 hfill.2 a.shape a.chunk xs hxe c))

example : exV2.read (exV2.write exL exArr) = some exArr :=
  v2_array_roundtrip exL (deflateOk_stored _ rfl) exV2 (by decide) ⟨rfl, wfBytes_of_all _ (by decide)⟩ rfl
    (by decide) (Or.inr rfl) exArr (by decide) (elemsOk_of_all _ _ (by decide))
example : (exV2.write exL exArr).map (·.1) = ["a/b/0.0".toList, "a/b/0.1".toList, "a/b/1.0".toList] := by
  decide +kernel

end Zarrs.C12
