import ZarrsModel.Lemmas.MultiGet
set_option Elab.async false
/-
C08: the multi-key ranged get (`get_partial_values`, batched by key) is the single-key ranged get, request by request.
Model: `Model/MultiGet.lean` (the loop as written, with `last_key` / `byte_ranges_key` / `out`).  Tie: verb `getpm` of the
C08 harness on every store kind; the driver predicts with `MultiGet.batched` and cross-checks `reqwise`.
-/
namespace Zarrs.MultiGet
open Zarrs

/-- **`get_partial_values_batched_by_key` answers request by request**: for every store content and every request list —
any keys in any order, present or absent, repeated, runs of any length — the batched loop returns exactly one answer per
request, each the single-key ranged get of the specification, and fails iff some range reaches outside its value -/
theorem batched_eq_reqwise (m : KV) (reqs : List Req) : batched m reqs = reqwise m reqs := by
  unfold batched
  cases reqs with
  | nil => simp [loop, reqwise]
  | cons q rest =>
    obtain ⟨k, r⟩ := q
    simp only [loop, Option.getD_none, bne_self_eq_false, Bool.false_eq_true, ↓reduceIte, List.nil_append]
    rw [loop_some, flush_single, reqwise]
    cases one m (k, r) <;> cases reqwise m rest <;> simp

/-- one answer per request -/
theorem batched_length (m : KV) (reqs : List Req) (out : List (Option Bytes)) (h : batched m reqs = some out) :
    out.length = reqs.length := by
  rw [batched_eq_reqwise] at h; exact reqwise_length m reqs out h

def exM : KV := [("g/a".toList, [0, 1, 2, 3]), ("g/c".toList, [20, 21, 22, 23])]
def exReqs : List Req := [("g/a".toList, .fromStart 1 (some 2)), ("g/b".toList, .fromStart 0 (some 1)), ("g/b".toList, .suffix 1),
  ("g/c".toList, .fromStart 2 none)]

/-- the sub-agent's demonstration: the loop as written answers 4 requests with 4 answers; the seeded variant answers
with 2, the bytes of `g/c` standing in the position of the absent `g/b` -/
theorem seeded_take_loses_answers :
    batched exM exReqs = some [some [1, 2], none, none, some [22, 23]] ∧
    batchedSeeded exM exReqs = some [some [1, 2], some [22, 23]] := by decide

end Zarrs.MultiGet
