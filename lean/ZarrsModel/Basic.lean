def hello := "world"
