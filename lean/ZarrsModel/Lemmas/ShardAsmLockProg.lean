import ZarrsModel.Lemmas.ShardAsmLockInv
set_option Elab.async false
/- progress: a well-formed pool in which no program holds the mutex across a join never gets stuck -/
namespace Zarrs.ShardAsm

theorem prog_mem_or_nil (P : Pool) (t : Nat) : prog P t ∈ P.progs ∨ prog P t = [] := by
  unfold prog
  by_cases h : t < P.progs.length
  · left; rw [List.getD_eq_getElem?_getD, List.getElem?_eq_getElem h]; exact List.getElem_mem h
  · right; rw [List.getD_eq_getElem?_getD, List.getElem?_eq_none (by omega)]; rfl

structure WfParts (P : Pool) : Prop where
  workers : 0 < P.workers
  leaf : ∀ t, t < P.progs.length → t ∈ P.roots ∨ isLeaf (prog P t) = true
  forks : ∀ c ∈ P.allForks, c < P.progs.length ∧ c ∉ P.roots
  covered : ∀ t, t < P.progs.length → t ∈ P.roots ∨ t ∈ P.allForks
  waits : ∀ t, waitsOk [] (prog P t) = true
  bal : ∀ t, balanced false (prog P t) = true

theorem wf_parts (P : Pool) (h : P.wf = true) : WfParts P := by
  simp only [Pool.wf, Bool.and_eq_true, decide_eq_true_eq, List.all_eq_true, List.mem_range, Bool.or_eq_true,
    List.contains_iff_mem, Bool.not_eq_true'] at h
  obtain ⟨⟨⟨⟨⟨⟨h1, _⟩, h3⟩, h4⟩, h5⟩, h6⟩, h7⟩ := h
  refine ⟨h1, fun t ht => h3 t ht, ?_, fun t ht => h5 t ht, ?_, ?_⟩
  · intro c hc
    have := h4 c hc
    refine ⟨this.1, ?_⟩
    intro hr
    have h2 := this.2
    rw [← List.contains_iff_mem] at hr
    rw [hr] at h2; cases h2
  · intro t
    rcases prog_mem_or_nil P t with hm | hn
    · exact h6 _ hm
    · rw [hn]; rfl
  · intro t
    rcases prog_mem_or_nil P t with hm | hn
    · exact h7 _ hm
    · rw [hn]; rfl

theorem poolOk_of (P : Pool) (hwf : P.wf = true) (hnj : P.noLockAcrossJoin = true) : PoolOk P := by
  refine ⟨(wf_parts P hwf).bal, ?_⟩
  intro t
  simp only [Pool.noLockAcrossJoin, List.all_eq_true, Bool.not_eq_true'] at hnj
  rcases prog_mem_or_nil P t with hm | hn
  · exact hnj _ hm
  · rw [hn]; rfl

theorem fork_in_allForks (P : Pool) (t k c : Nat) (h : instrAt P t k = some (.fork c)) : c ∈ P.allForks := by
  rw [instrAt_eq] at h
  rcases prog_mem_or_nil P t with hm | hn
  · simp only [Pool.allForks, List.mem_flatMap]
    exact ⟨_, hm, fork_mem_forksOf _ k c h⟩
  · rw [hn] at h; simp at h

theorem allForks_fork (P : Pool) (c : Nat) (h : c ∈ P.allForks) : ∃ t k, instrAt P t k = some (.fork c) := by
  simp only [Pool.allForks, List.mem_flatMap] at h
  obtain ⟨pr, hpr, hc⟩ := h
  obtain ⟨k, hk⟩ := forksOf_mem pr c hc
  obtain ⟨t, ht, rfl⟩ := List.getElem_of_mem hpr
  refine ⟨t, k, ?_⟩
  rw [instrAt_eq]
  unfold prog
  rw [List.getD_eq_getElem?_getD, List.getElem?_eq_getElem ht]; exact hk

theorem enabled_zero (P : Pool) (s s' : PState) (w : Nat) (h : pstep P s w 0 = some s') : penabled P s w = true := by
  simp [penabled, h]

theorem enabled_queue (P : Pool) (s s' : PState) (w c : Nat) (hc : c ∈ s.queue) (h : pstep P s w c = some s') :
    penabled P s w = true := by
  simp only [penabled, Bool.or_eq_true, List.any_eq_true]
  exact Or.inr ⟨c, hc, by rw [h]; rfl⟩

/-- a top frame whose instruction is not a blocked `lock` and not a `wait` for an unfinished child can step -/
theorem top_enabled (P : Pool) (s : PState) (w t pc : Nat) (below : List (Nat × Nat))
    (hst : s.stacks[w]? = some ((t, pc) :: below))
    (h : instrAt P t pc = none ∨ instrAt P t pc = some .work ∨ instrAt P t pc = some .unlock ∨
      (instrAt P t pc = some .lock ∧ s.holder = none) ∨ (∃ c, instrAt P t pc = some (.fork c)) ∨
      (∃ c, instrAt P t pc = some (.wait c) ∧ (c ∈ s.finished ∨ s.queue ≠ []))) : penabled P s w = true := by
  rcases h with hi | hi | hi | ⟨hi, hh⟩ | ⟨c, hi⟩ | ⟨c, hi, hc⟩
  · exact enabled_zero P s _ w (by simp only [pstep, hst, hi]; rfl)
  · exact enabled_zero P s _ w (by simp only [pstep, hst, hi]; rfl)
  · exact enabled_zero P s _ w (by simp only [pstep, hst, hi]; rfl)
  · exact enabled_zero P s _ w (by simp only [pstep, hst, hi, hh, Option.isNone_none, if_true]; rfl)
  · exact enabled_zero P s _ w (by simp only [pstep, hst, hi]; rfl)
  · by_cases hf : c ∈ s.finished
    · have : s.finished.contains c = true := by simpa using hf
      exact enabled_zero P s _ w (by simp only [pstep, hst, hi, this, if_true]; rfl)
    · have hq : s.queue ≠ [] := by rcases hc with h | h; exact absurd h hf; exact h
      have hf' : s.finished.contains c = false := by simpa using hf
      cases hqq : s.queue with
      | nil => exact absurd hqq hq
      | cons q0 qs =>
        have hm : q0 ∈ s.queue := by rw [hqq]; exact List.mem_cons_self
        have hm' : s.queue.contains q0 = true := by simpa using hm
        exact enabled_queue P s _ w q0 hm (by simp only [pstep, hst, hi, hf', hm', if_true, Bool.false_eq_true, if_false]; rfl)

/-- **progress** -/
theorem pool_progress (P : Pool) (hwf : P.wf = true) (hnj : P.noLockAcrossJoin = true) (s : PState) (hr : PReach P s)
    (hun : allFinished P s = false) : ∃ w, w < P.workers ∧ penabled P s w = true := by
  have ok := poolOk_of P hwf hnj
  have wfp := wf_parts P hwf
  have inv := pinv_reach P ok s hr
  have wlt : ∀ (w : Nat) (st : List (Nat × Nat)), s.stacks[w]? = some st → w < P.workers := by
    intro w st h
    rw [← inv.len]
    by_cases hw : w < s.stacks.length
    · exact hw
    · rw [List.getElem?_eq_none (by omega)] at h; cases h
  -- the mutex is held: its holder's top frame is inside a critical section
  cases hh : s.holder with
  | some h =>
    obtain ⟨t, pc, below, hst, hheld⟩ := inv.holderTop h hh
    refine ⟨h, wlt h _ hst, top_enabled P s h t pc below hst ?_⟩
    rcases crit_next (prog P t) pc (ok.bal t) (ok.nojoin t) hheld with hi | hi
    · exact Or.inr (Or.inl hi)
    · exact Or.inr (Or.inr (Or.inl hi))
  | none =>
    -- a worker with a non-empty stack?
    by_cases hbusy : ∃ (w : Nat) (f : Nat × Nat) (rest : List (Nat × Nat)), s.stacks[w]? = some (f :: rest)
    · obtain ⟨w, ⟨t, pc⟩, below, hst⟩ := hbusy
      -- either the top frame can step, or it waits for an unfinished child with an empty queue
      by_cases hblocked : ∃ c, instrAt P t pc = some (.wait c) ∧ c ∉ s.finished ∧ s.queue = []
      · obtain ⟨c, hi, hcf, hq⟩ := hblocked
        -- the child has been forked, so it is on some stack; it is a leaf, hence a top frame, hence can step
        have hfork : ∃ k, k < pc ∧ instrAt P t k = some (.fork c) := by
          rcases waitsOk_fork (prog P t) [] pc c (wfp.waits t) hi with hm | hk
          · cases hm
          · exact hk
        obtain ⟨k, hk, hfk⟩ := hfork
        have hlive := inv.liveFork w _ hst (t, pc) List.mem_cons_self k c hk hfk
        rcases hlive with hq' | ⟨w2, st2, pc2, hst2, hm2⟩ | hf
        · rw [hq] at hq'; cases hq'
        · have hcf' := wfp.forks c (fork_in_allForks P t k c hfk)
          have hleaf : isLeaf (prog P c) = true := by
            rcases wfp.leaf c hcf'.1 with h | h
            · exact absurd h hcf'.2
            · exact h
          -- the frame of `c` is the top of its stack
          cases st2 with
          | nil => cases hm2
          | cons f2 rest2 =>
            have htop : f2 = (c, pc2) := by
              simp only [List.mem_cons] at hm2
              rcases hm2 with h | h
              · exact h.symm
              · obtain ⟨c2, hc2⟩ := inv.below w2 f2 rest2 hst2 _ h
                exact absurd hc2 ((leaf_no_join _ hleaf pc2).1 c2)
            subst htop
            refine ⟨w2, wlt w2 _ hst2, top_enabled P s w2 c pc2 rest2 hst2 ?_⟩
            cases hi2 : instrAt P c pc2 with
            | none => exact Or.inl rfl
            | some i =>
              cases i with
              | work => exact Or.inr (Or.inl rfl)
              | unlock => exact Or.inr (Or.inr (Or.inl rfl))
              | lock => exact Or.inr (Or.inr (Or.inr (Or.inl ⟨rfl, hh⟩)))
              | fork c2 => exact absurd hi2 ((leaf_no_join _ hleaf pc2).2 c2)
              | wait c2 => exact absurd hi2 ((leaf_no_join _ hleaf pc2).1 c2)
        · exact absurd hf hcf
      · refine ⟨w, wlt w _ hst, top_enabled P s w t pc below hst ?_⟩
        cases hi : instrAt P t pc with
        | none => exact Or.inl rfl
        | some i =>
          cases i with
          | work => exact Or.inr (Or.inl rfl)
          | unlock => exact Or.inr (Or.inr (Or.inl rfl))
          | lock => exact Or.inr (Or.inr (Or.inr (Or.inl ⟨rfl, hh⟩)))
          | fork c2 => exact Or.inr (Or.inr (Or.inr (Or.inr (Or.inl ⟨c2, rfl⟩))))
          | wait c2 =>
            refine Or.inr (Or.inr (Or.inr (Or.inr (Or.inr ⟨c2, rfl, ?_⟩))))
            by_cases hf : c2 ∈ s.finished
            · exact Or.inl hf
            · right
              intro hq
              exact hblocked ⟨c2, hi, hf, hq⟩
    · -- every worker is idle
      have hidle : ∀ (w : Nat) (st : List (Nat × Nat)), s.stacks[w]? = some st → st = [] := by
        intro w st h
        cases st with
        | nil => rfl
        | cons f rest => exact absurd ⟨w, f, rest, h⟩ hbusy
      have hnostack : ∀ x, ¬ onStack s x := by
        rintro x ⟨w, st, pc, h, hm⟩
        rw [hidle w st h] at hm; cases hm
      have h0 : s.stacks[0]? = some [] := by
        have : 0 < s.stacks.length := by rw [inv.len]; exact wfp.workers
        rw [List.getElem?_eq_getElem this]
        congr 1
        exact hidle 0 _ (List.getElem?_eq_getElem this)
      cases hq : s.queue with
      | cons q0 qs =>
        have hm : q0 ∈ s.queue := by rw [hq]; exact List.mem_cons_self
        have hm' : s.queue.contains q0 = true := by simpa using hm
        exact ⟨0, wfp.workers, enabled_queue P s _ 0 q0 hm (by simp only [pstep, h0, hm', if_true]; rfl)⟩
      | nil =>
        exfalso
        -- some task is unfinished although nothing is queued or running
        simp only [allFinished] at hun
        have : ∃ u, u < P.progs.length ∧ u ∉ s.finished := by
          false_or_by_contra
          rename_i hcon
          apply Bool.false_ne_true
          rw [← hun]
          simp only [List.all_eq_true, List.mem_range, List.contains_iff_mem]
          intro u hu
          false_or_by_contra
          rename_i hnf
          exact hcon ⟨u, hu, by simpa using hnf⟩
        obtain ⟨u, hu, hnf⟩ := this
        have dead : ∀ x, Live s x → x ∈ s.finished := by
          intro x hx
          rcases hx with h | h | h
          · rw [hq] at h; cases h
          · exact absurd h (hnostack x)
          · exact h
        rcases wfp.covered u hu with hroot | hforked
        · exact hnf (dead u (inv.liveRoot u hroot))
        · obtain ⟨t, k, hfk⟩ := allForks_fork P u hforked
          -- the forking task: a root or itself forked — in any case live, hence finished, hence `u` live
          have ht : t < P.progs.length := by
            by_cases h : t < P.progs.length
            · exact h
            · rw [instrAt_eq] at hfk
              unfold prog at hfk
              have hn : P.progs[t]? = none := List.getElem?_eq_none (by omega)
              rw [List.getD_eq_getElem?_getD, hn] at hfk
              simp at hfk
          have htfin : t ∈ s.finished := by
            rcases wfp.covered t ht with hr | hf
            · exact dead t (inv.liveRoot t hr)
            · -- a forked task is a leaf: it cannot fork
              have hcf := wfp.forks t hf
              rcases wfp.leaf t ht with h | h
              · exact absurd h hcf.2
              · exact absurd hfk ((leaf_no_join _ h k).2 u)
          exact hnf (dead u (inv.liveFin t htfin k u hfk))

end Zarrs.ShardAsm
