import ZarrsModel.Model.Codec
import ZarrsModel.Lemmas.Index
import ZarrsModel.Props.C09
import ZarrsModel.Lemmas.ArrayList
/- the `transpose` codec model: round trip, sizes, and fill-value preservation (used by C03) -/
namespace Zarrs.Codec
open Zarrs

/-! ### valid orders are permutations of `range n` -/

theorem validOrder_iff (order : List Nat) (n : Nat) :
    validOrder order n = true ↔ order.length = n ∧ ∀ a, a < n → a ∈ order := by
  simp [validOrder, List.all_eq_true]

/-- pigeonhole: a list of length `n` containing every `a < n` is a permutation of `range n` -/
theorem perm_range_of_cover : ∀ (n : Nat) (l : List Nat), l.length = n → (∀ a, a < n → a ∈ l) →
    l.Perm (List.range n)
  | 0, l, hl, _ => by
    have : l = [] := List.eq_nil_of_length_eq_zero hl
    subst this
    simp
  | n + 1, l, hl, hc => by
    have hn : n ∈ l := hc n (Nat.lt_succ_self n)
    have h1 := List.perm_cons_erase hn
    have h2 : (l.erase n).Perm (List.range n) :=
      perm_range_of_cover n (l.erase n) (by rw [List.length_erase_of_mem hn, hl]; rfl)
        (fun a ha => (List.mem_erase_of_ne (by omega)).2 (hc a (by omega)))
    rw [List.range_succ]
    exact h1.trans ((List.Perm.cons n h2).trans (List.perm_append_singleton n _).symm)

theorem validOrder_perm {order : List Nat} {n : Nat} (h : validOrder order n = true) :
    order.Perm (List.range n) := by
  obtain ⟨h1, h2⟩ := (validOrder_iff order n).1 h
  exact perm_range_of_cover n order h1 h2

theorem validOrder_lt {order : List Nat} {n : Nat} (h : validOrder order n = true) :
    ∀ a ∈ order, a < n := by
  intro a ha
  exact List.mem_range.1 ((validOrder_perm h).mem_iff.1 ha)

theorem prod_perm {l1 l2 : List Nat} (h : l1.Perm l2) : prod l1 = prod l2 := by
  induction h with
  | nil => rfl
  | cons x _ ih => simp [prod, ih]
  | swap x y l => simp [prod, Nat.mul_left_comm]
  | trans _ _ ih1 ih2 => exact ih1.trans ih2

/-! ### `permute` and `inverseOrder` -/

theorem range_map_getD {α} (v : List α) (d : α) : (List.range v.length).map (fun a => v.getD a d) = v := by
  apply List.ext_getElem
  · simp
  · intro k h1 h2
    simp at h1
    simp [List.getD_eq_getElem?_getD, h2]

theorem permute_length {α} [Inhabited α] (v : List α) (order : List Nat) :
    (permute v order).length = order.length := by
  simp [permute]

theorem permute_getD {α} [Inhabited α] (v : List α) (order : List Nat) (k : Nat) (hk : k < order.length) :
    (permute v order).getD k default = v.getD order[k] default := by
  simp [permute, List.getD_eq_getElem?_getD, hk]

/-- the value `inverseOrder order` has at position `a` -/
def invAt (order : List Nat) (a : Nat) : Nat := (order.findIdx? (· == a)).getD 0

theorem inverseOrder_length (order : List Nat) : (inverseOrder order).length = order.length := by
  simp [inverseOrder]

theorem permute_inverseOrder {α} [Inhabited α] (v : List α) (order : List Nat) :
    permute v (inverseOrder order) =
      (List.range order.length).map (fun a => v.getD (invAt order a) default) := by
  simp [permute, inverseOrder, invAt, List.map_map, Function.comp_def]

theorem permute_inv_getD {α} [Inhabited α] (v : List α) (order : List Nat) (k : Nat) (hk : k < order.length) :
    (permute v (inverseOrder order)).getD k default = v.getD (invAt order k) default := by
  rw [permute_inverseOrder]
  simp [List.getD_eq_getElem?_getD, hk]

theorem invAt_spec (order : List Nat) (a : Nat) (ha : a ∈ order) :
    ∃ h : invAt order a < order.length, order[invAt order a] = a := by
  unfold invAt
  cases hf : order.findIdx? (· == a) with
  | none =>
    rw [List.findIdx?_eq_none_iff] at hf
    have := hf a ha
    simp at this
  | some i =>
    rw [List.findIdx?_eq_some_iff_getElem] at hf
    obtain ⟨hi, hp, _⟩ := hf
    refine ⟨hi, ?_⟩
    simpa using hp

theorem permute_permute_inv {α} [Inhabited α] (v : List α) (order : List Nat)
    (hl : v.length = order.length) (hc : ∀ a, a < order.length → a ∈ order) :
    permute (permute v order) (inverseOrder order) = v := by
  rw [permute_inverseOrder]
  conv => rhs; rw [← range_map_getD v default]
  rw [hl]
  apply List.map_congr_left
  intro a ha
  obtain ⟨h1, h2⟩ := invAt_spec order a (hc a (List.mem_range.1 ha))
  rw [permute_getD v order _ h1, h2]

theorem prod_permute (shape : Shape) (order : List Nat) (ho : validOrder order shape.length = true) :
    prod (permute shape order) = prod shape := by
  have hp := validOrder_perm ho
  have h1 : prod (permute shape order) = prod ((List.range shape.length).map (fun a => shape.getD a default)) :=
    prod_perm (hp.map _)
  rw [h1, range_map_getD]

/-! ### in-bounds, pointwise -/

theorem inB_iff (i : Idx) (sh : Shape) :
    inB i sh = true ↔ i.length = sh.length ∧ ∀ k, k < sh.length → i.getD k default < sh.getD k default := by
  induction i generalizing sh with
  | nil =>
    cases sh with
    | nil => simp [inB]
    | cons s ss => simp [inB]
  | cons a as ih =>
    cases sh with
    | nil => simp [inB]
    | cons s ss =>
      simp only [inB, Bool.and_eq_true, decide_eq_true_eq, ih ss, List.length_cons]
      constructor
      · rintro ⟨h1, h2, h3⟩
        refine ⟨by omega, ?_⟩
        intro k hk
        cases k with
        | zero => simpa using h1
        | succ k => simpa using h3 k (by omega)
      · rintro ⟨h1, h2⟩
        refine ⟨by simpa using h2 0 (by omega), by omega, ?_⟩
        intro k hk
        simpa using h2 (k + 1) (by omega)

theorem inB_permute (i : Idx) (shape : Shape) (order : List Nat) (hlt : ∀ a ∈ order, a < shape.length)
    (h : inB i shape = true) : inB (permute i order) (permute shape order) = true := by
  rw [inB_iff] at h ⊢
  refine ⟨by simp [permute_length], ?_⟩
  intro k hk
  rw [permute_length] at hk
  rw [permute_getD _ _ _ hk, permute_getD _ _ _ hk]
  exact h.2 _ (hlt _ (List.getElem_mem hk))

theorem inB_permute_inv (j : Idx) (shape : Shape) (order : List Nat) (hl : order.length = shape.length)
    (hc : ∀ a, a < order.length → a ∈ order)
    (h : inB j (permute shape order) = true) : inB (permute j (inverseOrder order)) shape = true := by
  rw [inB_iff] at h ⊢
  refine ⟨by rw [permute_length, inverseOrder_length, hl], ?_⟩
  intro k hk
  rw [← hl] at hk
  obtain ⟨h1, h2⟩ := invAt_spec order k (hc k hk)
  rw [permute_inv_getD _ _ _ hk]
  have := h.2 (invAt order k) (by rw [permute_length]; exact h1)
  rwa [permute_getD _ _ _ h1, h2] at this

/-! ### positional lookup in the encoded / decoded lists -/

theorem transposeEnc_length {α} [Inhabited α] (order : List Nat) (shape : Shape) (xs : List α) :
    (transposeEnc order shape xs).length = prod (permute shape order) := by
  simp [transposeEnc, boxIndices_length]

theorem transposeDec_length {α} [Inhabited α] (order : List Nat) (shape : Shape) (ys : List α) :
    (transposeDec order shape ys).length = prod shape := by
  simp [transposeDec, boxIndices_length]

theorem transposeEnc_getElem? {α} [Inhabited α] (order : List Nat) (shape : Shape) (xs : List α) (j : Idx)
    (h : inB j (permute shape order) = true) :
    (transposeEnc order shape xs)[ravel j (permute shape order)]? =
      some (xs.getD (ravel (permute j (inverseOrder order)) shape) default) := by
  simp only [transposeEnc, List.getElem?_map, boxIndices_getElem?_ravel _ _ h, Option.map_some]

theorem transposeDec_getElem? {α} [Inhabited α] (order : List Nat) (shape : Shape) (ys : List α) (i : Idx)
    (h : inB i shape = true) :
    (transposeDec order shape ys)[ravel i shape]? =
      some (ys.getD (ravel (permute i order) (permute shape order)) default) := by
  simp only [transposeDec, List.getElem?_map, boxIndices_getElem?_ravel _ _ h, Option.map_some]

/-! ### the two statements -/

theorem transpose_dec_enc' {α} [Inhabited α] (order : List Nat) (shape : Shape) (xs : List α)
    (ho : validOrder order shape.length = true) (hx : xs.length = prod shape) :
    transposeDec order shape (transposeEnc order shape xs) = xs ∧
    (transposeEnc order shape xs).length = prod (permute shape order) ∧
    prod (permute shape order) = prod shape ∧
    permute (permute shape order) (inverseOrder order) = shape := by
  obtain ⟨hl, hc⟩ := (validOrder_iff _ _).1 ho
  have hc' : ∀ a, a < order.length → a ∈ order := by rw [hl]; exact hc
  have hlt := validOrder_lt ho
  refine ⟨?_, transposeEnc_length _ _ _, prod_permute _ _ ho, permute_permute_inv _ _ hl.symm hc'⟩
  apply list_ext_box shape _ _ (transposeDec_length _ _ _) hx
  intro i hi
  have hi' := inB_permute i shape order hlt hi
  rw [transposeDec_getElem? _ _ _ _ hi, List.getD_eq_getElem?_getD, transposeEnc_getElem? _ _ _ _ hi',
    permute_permute_inv i order ((inB_length hi).trans hl.symm) hc']
  have hr : ravel i shape < xs.length := by rw [hx]; exact ravel_lt i shape hi
  simp [List.getD_eq_getElem?_getD, List.getElem?_eq_getElem hr]

theorem transpose_fill' {α} [Inhabited α] (order : List Nat) (shape : Shape) (f : α)
    (ho : validOrder order shape.length = true) :
    transposeEnc order shape (List.replicate (prod shape) f) = List.replicate (prod (permute shape order)) f := by
  obtain ⟨hl, hc⟩ := (validOrder_iff _ _).1 ho
  have hc' : ∀ a, a < order.length → a ∈ order := by rw [hl]; exact hc
  apply list_ext_box (permute shape order) _ _ (transposeEnc_length _ _ _) (by simp)
  intro j hj
  have h1 := ravel_lt _ _ (inB_permute_inv j shape order hl hc' hj)
  have h2 := ravel_lt _ _ hj
  rw [transposeEnc_getElem? _ _ _ _ hj]
  simp [List.getD_eq_getElem?_getD, h1, h2]

end Zarrs.Codec
