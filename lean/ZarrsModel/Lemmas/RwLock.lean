import ZarrsModel.Model.RwLock
/- helper lemmas for C19 -/
namespace Zarrs.RwLock

/-! ### list helpers -/

theorem bump_length (l : List Nat) (t : Nat) (f : Nat → Nat) : (bump l t f).length = l.length := by
  simp [bump]

theorem bump_getD_self (l : List Nat) (t : Nat) (f : Nat → Nat) (h : t < l.length) :
    (bump l t f).getD t 0 = f (l.getD t 0) := by
  simp [bump, List.getD, h]

theorem bump_getD_ne (l : List Nat) (t u : Nat) (f : Nat → Nat) (h : u ≠ t) :
    (bump l t f).getD u 0 = l.getD u 0 := by
  simp [bump, List.getD, Ne.symm h]

theorem sum_eq_zero_of_getD (l : List Nat) (h : ∀ t, l.getD t 0 = 0) : l.sum = 0 := by
  induction l with
  | nil => rfl
  | cons a l ih =>
    have h0 := h 0
    simp at h0
    have : ∀ t, l.getD t 0 = 0 := fun t => by simpa using h (t + 1)
    simp [h0, ih this]

theorem sum_map_lt {α : Type} (l : List α) (f g : α → Nat) (hle : ∀ x ∈ l, f x ≤ g x)
    (hlt : ∃ x ∈ l, f x < g x) : (l.map f).sum < (l.map g).sum := by
  induction l with
  | nil => obtain ⟨x, hx, _⟩ := hlt; simp at hx
  | cons a l ih =>
    have hle' : ∀ x ∈ l, f x ≤ g x := fun x hx => hle x (List.mem_cons_of_mem _ hx)
    have hlesum : (l.map f).sum ≤ (l.map g).sum := by
      clear ih hlt hle
      induction l with
      | nil => simp
      | cons b l ih2 =>
        have := hle' b (List.mem_cons_self ..)
        have := ih2 (fun x hx => hle' x (List.mem_cons_of_mem _ hx))
        simp; omega
    have ha := hle a (List.mem_cons_self ..)
    obtain ⟨x, hx, hfx⟩ := hlt
    rcases List.mem_cons.1 hx with rfl | hx
    · simp; omega
    · have := ih hle' ⟨x, hx, hfx⟩
      simp; omega

/-! ### programs, program counters -/

/-- the program of thread `t` (empty when out of range) -/
def prog (ps : Progs) (t : Nat) : List Ev := ps[t]?.getD []

def pcOf (s : State) (t : Nat) : Nat := s.pc.getD t 0

def rdOf (s : State) (t : Nat) : Nat := s.readers.getD t 0

theorem nextEv_eq (ps : Progs) (s : State) (t : Nat) (h : s.pc.length = ps.length) :
    nextEv ps s t = (prog ps t)[pcOf s t]? := by
  unfold nextEv prog pcOf
  by_cases ht : t < ps.length
  · have ht' : t < s.pc.length := h ▸ ht
    simp [List.getD, ht, ht']
  · have ht' : ¬ t < s.pc.length := h ▸ ht
    simp [List.getD, Nat.le_of_not_lt ht, Nat.le_of_not_lt ht']

theorem lt_of_nextEv (ps : Progs) (s : State) (t : Nat) (e : Ev) (h : nextEv ps s t = some e) :
    t < ps.length := by
  unfold nextEv at h
  by_cases ht : t < ps.length
  · exact ht
  · simp [Nat.le_of_not_lt ht] at h

theorem prog_flat (ps : Progs) (hflat : ∀ p ∈ ps, flat p = true) (t : Nat) : flat (prog ps t) = true := by
  unfold prog
  by_cases ht : t < ps.length
  · simp [ht]
    exact hflat _ (List.getElem_mem ht)
  · simp [Nat.le_of_not_lt ht, flat]

/-! ### flat programs alternate acquisition / matching release -/

theorem flat_spec (p : List Ev) (hf : flat p = true) (k : Nat) (e : Ev) (h : p[k]? = some e) :
    (k % 2 = 0 ∧ ((e = .acqR ∧ p[k+1]? = some .relR) ∨ (e = .acqW ∧ p[k+1]? = some .relW))) ∨
    (k % 2 = 1 ∧ (e = .relR ∨ e = .relW)) := by
  induction p using flat.induct generalizing k with
  | case1 => simp at h
  | case2 rest ih =>
    simp [flat] at hf
    match k, h with
    | 0, h => simp at h; simp [← h]
    | 1, h => simp at h; simp [← h]
    | k+2, h =>
      simp at h
      have := ih hf k h
      simp
      omega
  | case3 rest ih =>
    simp [flat] at hf
    match k, h with
    | 0, h => simp at h; simp [← h]
    | 1, h => simp at h; simp [← h]
    | k+2, h =>
      simp at h
      have := ih hf k h
      simp
      omega
  | case4 p h1 h2 h3 =>
    unfold flat at hf
    split at hf <;> simp_all

/-! ### the invariant of reachable states of flat programs -/

structure Inv (ps : Progs) (s : State) : Prop where
  pcLen : s.pc.length = ps.length
  rdLen : s.readers.length = ps.length
  /-- between blocks a thread holds nothing -/
  even : ∀ t, pcOf s t % 2 = 0 → rdOf s t = 0 ∧ s.writer ≠ some t
  /-- inside a block a thread holds exactly the guard its next event releases -/
  odd : ∀ t, pcOf s t % 2 = 1 →
    ((prog ps t)[pcOf s t]? = some .relR ∧ rdOf s t = 1 ∧ s.writer ≠ some t) ∨
    ((prog ps t)[pcOf s t]? = some .relW ∧ rdOf s t = 0 ∧ s.writer = some t)
  /-- registered writers are about to complete an `acqW` -/
  wait : ∀ t ∈ s.waiting, (prog ps t)[pcOf s t]? = some .acqW

theorem Inv_init (ps : Progs) : Inv ps (init ps) := by
  have h0 : ∀ t, (ps.map (fun _ => 0)).getD t 0 = 0 := by
    intro t
    simp only [List.getD, List.getElem?_map]
    cases ps[t]? <;> rfl
  have hpc : ∀ t, pcOf (init ps) t = 0 := h0
  have hrd : ∀ t, rdOf (init ps) t = 0 := h0
  refine ⟨by simp [init], by simp [init], ?_, ?_, ?_⟩
  · intro t _
    exact ⟨hrd t, by simp [init]⟩
  · intro t h
    rw [hpc] at h
    simp at h
  · intro t h
    simp [init] at h

theorem Inv_step (ps : Progs) (hflat : ∀ p ∈ ps, flat p = true) (s : State) (t : Nat)
    (hI : Inv ps s) (hen : enabled ps s t = true) : Inv ps (step ps s t) := by
  have hne := nextEv_eq ps s t hI.pcLen
  cases hev : nextEv ps s t with
  | none => simp [enabled, hev] at hen
  | some e =>
    have htlt := lt_of_nextEv ps s t e hev
    have htpc : t < s.pc.length := hI.pcLen ▸ htlt
    have htrd : t < s.readers.length := hI.rdLen ▸ htlt
    rw [hev] at hne
    have hsp := flat_spec _ (prog_flat ps hflat t) _ _ hne.symm
    have hE := hI.even t
    have hO := hI.odd t
    cases e with
    | acqR =>
      simp [enabled, hev] at hen
      obtain ⟨hw, hwt⟩ := hen
      have hpar : pcOf s t % 2 = 0 ∧ (prog ps t)[pcOf s t + 1]? = some .relR := by
        rcases hsp with ⟨h1, h2⟩ | ⟨h1, h2⟩ <;> simp_all
      have hs' : step ps s t =
          { s with pc := bump s.pc t (· + 1), readers := bump s.readers t (· + 1) } := by
        simp [step, hev]
      rw [hs']
      refine ⟨by simp [bump_length, hI.pcLen], by simp [bump_length, hI.rdLen], ?_, ?_, ?_⟩
      · intro u hu
        by_cases hut : u = t
        · subst hut
          simp only [pcOf, bump_getD_self _ _ _ htpc] at hu
          simp only [pcOf] at hpar
          omega
        · simp only [pcOf, rdOf, bump_getD_ne _ _ _ _ hut] at hu ⊢
          exact hI.even u hu
      · intro u hu
        by_cases hut : u = t
        · subst hut
          left
          simp only [pcOf, rdOf, bump_getD_self _ _ _ htpc, bump_getD_self _ _ _ htrd] at hu ⊢
          have := hE hpar.1
          simp only [pcOf, rdOf] at this hpar
          refine ⟨hpar.2, by omega, by simp [hw]⟩
        · simp only [pcOf, rdOf, bump_getD_ne _ _ _ _ hut] at hu ⊢
          exact hI.odd u hu
      · intro u hu
        simp [hwt] at hu
    | relR =>
      simp [enabled, hev] at hen
      have hpar : pcOf s t % 2 = 1 := by
        rcases hsp with ⟨h1, h2⟩ | ⟨h1, h2⟩ <;> simp_all
      have hs' : step ps s t =
          { s with pc := bump s.pc t (· + 1), readers := bump s.readers t (· - 1) } := by
        simp [step, hev]
      have hO' := hO hpar
      rw [← hne] at hO'
      simp at hO'
      rw [hs']
      refine ⟨by simp [bump_length, hI.pcLen], by simp [bump_length, hI.rdLen], ?_, ?_, ?_⟩
      · intro u hu
        by_cases hut : u = t
        · subst hut
          simp only [pcOf, rdOf, bump_getD_self _ _ _ htpc, bump_getD_self _ _ _ htrd] at hu ⊢
          simp only [rdOf] at hO'
          exact ⟨by omega, hO'.2⟩
        · simp only [pcOf, rdOf, bump_getD_ne _ _ _ _ hut] at hu ⊢
          exact hI.even u hu
      · intro u hu
        by_cases hut : u = t
        · subst hut
          simp only [pcOf, bump_getD_self _ _ _ htpc] at hu
          simp only [pcOf] at hpar
          omega
        · simp only [pcOf, rdOf, bump_getD_ne _ _ _ _ hut] at hu ⊢
          exact hI.odd u hu
      · intro u hu
        have hu' : u ∈ s.waiting := hu
        have hw := hI.wait u hu'
        by_cases hut : u = t
        · subst hut
          rw [← hne] at hw
          simp at hw
        · simp only [pcOf, bump_getD_ne _ _ _ _ hut] at hw ⊢
          exact hw
    | acqW =>
      have hpar : pcOf s t % 2 = 0 ∧ (prog ps t)[pcOf s t + 1]? = some .relW := by
        rcases hsp with ⟨h1, h2⟩ | ⟨h1, h2⟩ <;> simp_all
      by_cases hc : t ∈ s.waiting
      · simp [enabled, hev, hc] at hen
        obtain ⟨hw, htr⟩ := hen
        have hs' : step ps s t =
            { s with pc := bump s.pc t (· + 1), writer := some t,
                     waiting := s.waiting.filter (· != t) } := by
          simp [step, hev, hc]
        rw [hs']
        refine ⟨by simp [bump_length, hI.pcLen], hI.rdLen, ?_, ?_, ?_⟩
        · intro u hu
          by_cases hut : u = t
          · subst hut
            simp only [pcOf, bump_getD_self _ _ _ htpc] at hu
            simp only [pcOf] at hpar
            omega
          · simp only [pcOf, rdOf, bump_getD_ne _ _ _ _ hut] at hu ⊢
            refine ⟨(hI.even u hu).1, ?_⟩
            simp
            exact fun h => hut h.symm
        · intro u hu
          by_cases hut : u = t
          · subst hut
            right
            simp only [pcOf, rdOf, bump_getD_self _ _ _ htpc] at hu ⊢
            have := hE hpar.1
            simp only [pcOf, rdOf] at this hpar
            exact ⟨hpar.2, this.1, trivial⟩
          · simp only [pcOf, rdOf, bump_getD_ne _ _ _ _ hut] at hu ⊢
            rcases hI.odd u hu with h | h
            · left
              refine ⟨h.1, h.2.1, ?_⟩
              simp
              exact fun h => hut h.symm
            · rw [hw] at h
              simp at h
        · intro u hu
          simp at hu
          obtain ⟨hu1, hut⟩ := hu
          have hw := hI.wait u hu1
          simp only [pcOf, bump_getD_ne _ _ _ _ hut] at hw ⊢
          exact hw
      · have hs' : step ps s t = { s with waiting := s.waiting ++ [t] } := by
          simp [step, hev, hc]
        rw [hs']
        refine ⟨hI.pcLen, hI.rdLen, hI.even, hI.odd, ?_⟩
        intro u hu
        simp at hu
        rcases hu with hu | rfl
        · exact hI.wait u hu
        · exact hne.symm
    | relW =>
      simp [enabled, hev] at hen
      have hpar : pcOf s t % 2 = 1 := by
        rcases hsp with ⟨h1, h2⟩ | ⟨h1, h2⟩ <;> simp_all
      have hs' : step ps s t = { s with pc := bump s.pc t (· + 1), writer := none } := by
        simp [step, hev]
      have hO' := hO hpar
      rw [← hne] at hO'
      simp at hO'
      rw [hs']
      refine ⟨by simp [bump_length, hI.pcLen], hI.rdLen, ?_, ?_, ?_⟩
      · intro u hu
        by_cases hut : u = t
        · subst hut
          simp only [rdOf] at hO' ⊢
          exact ⟨hO'.1, by simp⟩
        · simp only [pcOf, rdOf, bump_getD_ne _ _ _ _ hut] at hu ⊢
          exact ⟨(hI.even u hu).1, by simp⟩
      · intro u hu
        by_cases hut : u = t
        · subst hut
          simp only [pcOf, bump_getD_self _ _ _ htpc] at hu
          simp only [pcOf] at hpar
          omega
        · simp only [pcOf, rdOf, bump_getD_ne _ _ _ _ hut] at hu ⊢
          rcases hI.odd u hu with h | h
          · left
            exact ⟨h.1, h.2.1, by simp⟩
          · rw [hen] at h
            simp at h
            exact absurd h.2.2.symm hut
      · intro u hu
        have hu' : u ∈ s.waiting := hu
        have hw := hI.wait u hu'
        by_cases hut : u = t
        · subst hut
          rw [← hne] at hw
          simp at hw
        · simp only [pcOf, bump_getD_ne _ _ _ _ hut] at hw ⊢
          exact hw

theorem Inv_reachable (ps : Progs) (hflat : ∀ p ∈ ps, flat p = true) (s : State)
    (hr : Reachable ps s) : Inv ps s := by
  induction hr with
  | init => exact Inv_init ps
  | step s t _ _ hen ih => exact Inv_step ps hflat s t ih hen

/-! ### progress -/

theorem lt_of_enabled (ps : Progs) (s : State) (t : Nat) (h : enabled ps s t = true) : t < ps.length := by
  cases hev : nextEv ps s t with
  | none => simp [enabled, hev] at h
  | some e => exact lt_of_nextEv ps s t e hev

theorem enabled_of_run_cons (ps : Progs) (s s' : State) (t : Nat) (ts : List Nat)
    (h : run ps s (t :: ts) = some s') : enabled ps s t = true := by
  cases he : enabled ps s t with
  | true => rfl
  | false => simp [run, he] at h

theorem run_append (ps : Progs) (a b : List Nat) (s s' s'' : State)
    (h1 : run ps s a = some s') (h2 : run ps s' b = some s'') : run ps s (a ++ b) = some s'' := by
  induction a generalizing s with
  | nil =>
    simp [run] at h1
    subst h1
    simpa using h2
  | cons t ts ih =>
    have he := enabled_of_run_cons ps s s' t ts h1
    simp [run, he] at h1 ⊢
    exact ih _ h1

theorem Inv_run (ps : Progs) (hflat : ∀ p ∈ ps, flat p = true) (sched : List Nat) (s s' : State)
    (hI : Inv ps s) (h : run ps s sched = some s') : Inv ps s' := by
  induction sched generalizing s with
  | nil =>
    simp [run] at h
    subst h
    exact hI
  | cons t ts ih =>
    have he := enabled_of_run_cons ps s s' t ts h
    simp [run, he] at h
    exact ih _ (Inv_step ps hflat s t hI he) h

/-- total number of events still to be executed -/
def remaining (ps : Progs) (s : State) : Nat :=
  ((List.range ps.length).map (fun t => (prog ps t).length - pcOf s t)).sum

theorem remaining_lt (ps : Progs) (s s' : State) (t : Nat) (e : Ev) (hlen : s.pc.length = ps.length)
    (hev : nextEv ps s t = some e) (hpc : s'.pc = bump s.pc t (· + 1)) :
    remaining ps s' < remaining ps s := by
  have htlt := lt_of_nextEv ps s t e hev
  have htpc : t < s.pc.length := hlen ▸ htlt
  have hne := nextEv_eq ps s t hlen
  rw [hev] at hne
  obtain ⟨hk, _⟩ := List.getElem?_eq_some_iff.1 hne.symm
  have hself : pcOf s' t = pcOf s t + 1 := by
    simp only [pcOf, hpc, bump_getD_self _ _ _ htpc]
  unfold remaining
  apply sum_map_lt
  · intro x _
    by_cases hx : x = t
    · subst hx
      rw [hself]
      omega
    · have : pcOf s' x = pcOf s x := by
        simp only [pcOf, hpc, bump_getD_ne _ _ _ _ hx]
      rw [this]
      exact Nat.le_refl _
  · refine ⟨t, by simpa using htlt, ?_⟩
    rw [hself]
    omega

theorem step_pc_acqW (ps : Progs) (s : State) (t : Nat) (hev : nextEv ps s t = some .acqW)
    (hc : t ∈ s.waiting) : (step ps s t).pc = bump s.pc t (· + 1) := by
  simp [step, hev, hc]

/-- a single enabled step that advances a program counter makes progress -/
theorem progress_one (ps : Progs) (hflat : ∀ p ∈ ps, flat p = true) (s : State) (t : Nat) (e : Ev)
    (hI : Inv ps s) (hev : nextEv ps s t = some e) (hen : enabled ps s t = true)
    (hpc : (step ps s t).pc = bump s.pc t (· + 1)) :
    ∃ u sched s', run ps s (u :: sched) = some s' ∧ Inv ps s' ∧ remaining ps s' < remaining ps s :=
  ⟨t, [], step ps s t, by simp [run, hen], Inv_step ps hflat s t hI hen,
    remaining_lt ps s _ t e hI.pcLen hev hpc⟩

/-- **progress**: in a state satisfying the invariant, if some thread is unfinished there is a non-empty
schedule (one step, or request + acquire of a writer) that strictly decreases the remaining work -/
theorem progress (ps : Progs) (hflat : ∀ p ∈ ps, flat p = true) (s : State) (hI : Inv ps s) (t0 : Nat)
    (hun : nextEv ps s t0 ≠ none) :
    ∃ u sched s', run ps s (u :: sched) = some s' ∧ Inv ps s' ∧ remaining ps s' < remaining ps s := by
  by_cases hodd : ∃ t, pcOf s t % 2 = 1
  · -- some thread holds a guard: it can release it
    obtain ⟨t, ht⟩ := hodd
    rcases hI.odd t ht with h | h
    · have hev : nextEv ps s t = some .relR := by rw [nextEv_eq ps s t hI.pcLen]; exact h.1
      have hrd : s.readers[t]?.getD 0 = 1 := h.2.1
      exact progress_one ps hflat s t _ hI hev (by simp [enabled, hev, hrd]) (by simp [step, hev])
    · have hev : nextEv ps s t = some .relW := by rw [nextEv_eq ps s t hI.pcLen]; exact h.1
      exact progress_one ps hflat s t _ hI hev (by simp [enabled, hev, h.2.2]) (by simp [step, hev])
  · -- nobody holds anything
    have hevn : ∀ t, pcOf s t % 2 = 0 := by
      intro t
      have : ¬ pcOf s t % 2 = 1 := fun h => hodd ⟨t, h⟩
      omega
    have hw : s.writer = none := by
      cases hws : s.writer with
      | none => rfl
      | some u => exact absurd hws (hI.even u (hevn u)).2
    have htr : totalReaders s = 0 := sum_eq_zero_of_getD _ (fun t => (hI.even t (hevn t)).1)
    cases hwt : s.waiting with
    | cons h rest =>
      -- the first registered writer can acquire
      have hev : nextEv ps s h = some .acqW := by
        rw [nextEv_eq ps s h hI.pcLen]; exact hI.wait h (by simp [hwt])
      exact progress_one ps hflat s h _ hI hev (by simp [enabled, hev, hwt, hw, htr])
        (by simp [step, hev, hwt])
    | nil =>
      cases hev : nextEv ps s t0 with
      | none => exact absurd hev hun
      | some e =>
        have hne := nextEv_eq ps s t0 hI.pcLen
        rw [hev] at hne
        have hsp := flat_spec _ (prog_flat ps hflat t0) _ _ hne.symm
        have hpar := hevn t0
        have he : e = .acqR ∨ e = .acqW := by
          rcases hsp with ⟨_, h2 | h2⟩ | ⟨h1, _⟩
          · exact Or.inl h2.1
          · exact Or.inr h2.1
          · omega
        rcases he with rfl | rfl
        · exact progress_one ps hflat s t0 _ hI hev (by simp [enabled, hev, hwt, hw])
            (by simp [step, hev])
        · -- request, then acquire
          have hen1 : enabled ps s t0 = true := by simp [enabled, hev, hwt]
          have hs1 : step ps s t0 = { s with waiting := [t0] } := by simp [step, hev, hwt]
          have hI1 : Inv ps (step ps s t0) := Inv_step ps hflat s t0 hI hen1
          have hev1 : nextEv ps (step ps s t0) t0 = some .acqW := by
            rw [hs1]; exact hev
          have hen2 : enabled ps (step ps s t0) t0 = true := by
            simp only [enabled, hev1]
            simp [hs1, hw, totalReaders] 
            exact htr
          have hpc2 : (step ps (step ps s t0) t0).pc = bump s.pc t0 (· + 1) := by
            have hmem : t0 ∈ (step ps s t0).waiting := by rw [hs1]; simp
            have : (step ps (step ps s t0) t0).pc = bump (step ps s t0).pc t0 (· + 1) :=
              step_pc_acqW ps _ t0 hev1 hmem
            rw [this, hs1]
          exact ⟨t0, [t0], step ps (step ps s t0) t0, by simp [run, hen1, hen2],
            Inv_step ps hflat _ t0 hI1 hen2, remaining_lt ps s _ t0 _ hI.pcLen hev hpc2⟩

theorem can_finish_of_Inv (ps : Progs) (hflat : ∀ p ∈ ps, flat p = true) (n : Nat) (s : State)
    (hI : Inv ps s) (hn : remaining ps s ≤ n) :
    ∃ sched s', run ps s sched = some s' ∧ ∀ t, t < ps.length → finished ps s' t = true := by
  induction n generalizing s with
  | zero =>
    by_cases hall : ∀ t, t < ps.length → finished ps s t = true
    · exact ⟨[], s, rfl, hall⟩
    · exfalso
      have ⟨t, ht⟩ := Classical.not_forall.1 hall
      have hun : nextEv ps s t ≠ none := by
        intro h
        apply ht
        intro _
        simp [finished, h]
      obtain ⟨u, sched, s', _, _, hlt⟩ := progress ps hflat s hI t hun
      omega
  | succ n ih =>
    by_cases hall : ∀ t, t < ps.length → finished ps s t = true
    · exact ⟨[], s, rfl, hall⟩
    · have ⟨t, ht⟩ := Classical.not_forall.1 hall
      have hun : nextEv ps s t ≠ none := by
        intro h
        apply ht
        intro _
        simp [finished, h]
      obtain ⟨u, sched, s', hrun, hI', hlt⟩ := progress ps hflat s hI t hun
      obtain ⟨sched2, s'', hrun2, hfin⟩ := ih s' hI' (by omega)
      exact ⟨(u :: sched) ++ sched2, s'', run_append ps _ _ s s' s'' hrun hrun2, hfin⟩

end Zarrs.RwLock
