import ZarrsModel.Model.Consolidated
import ZarrsModel.Lemmas.ConsSort
import ZarrsModel.Lemmas.Json
import ZarrsModel.Lemmas.Meta
import ZarrsModel.Lemmas.MetaWf
import ZarrsModel.Lemmas.MetaV2
import ZarrsModel.Lemmas.MetaV2Wf
import ZarrsModel.Lemmas.MetaV2Parse
/- helper lemmas for C13 (consolidated metadata): reading and writing node documents -/
set_option Elab.async false
namespace Zarrs.Cons
open Zarrs Zarrs.Json Zarrs.Meta Zarrs.MetaV2

/-! ### the recursive readers as lookups -/

theorem consOfKVs_eq (o : Obj) :
    consOfKVs o = (match lookup o kCons with | none => some none | some v => consOfJ v) := by
  induction o with
  | nil => rw [consOfKVs]; rfl
  | cons kv rest ih =>
    obtain ⟨k, v⟩ := kv
    rw [consOfKVs]
    by_cases h : (k == kCons) = true
    · rw [if_pos h]
      have : k = kCons := by simpa using h
      subst this; rw [lookup_cons_eq]
    · rw [if_neg h, ih, lookup_cons_ne _ _ _ _ (by simpa using h)]

theorem metaOfKVs_eq (o : Obj) :
    metaOfKVs o = (match lookup o kMetadata with | none => some none | some v => (membersOfJ v).map some) := by
  induction o with
  | nil => rw [metaOfKVs]; rfl
  | cons kv rest ih =>
    obtain ⟨k, v⟩ := kv
    rw [metaOfKVs]
    by_cases h : (k == kMetadata) = true
    · rw [if_pos h]
      have : k = kMetadata := by simpa using h
      subst this; rw [lookup_cons_eq]
    · rw [if_neg h, ih, lookup_cons_ne _ _ _ _ (by simpa using h)]

theorem membersOfKVs_nil : membersOfKVs [] = some [] := by rw [membersOfKVs]

theorem membersOfKVs_cons_some (k : Str) (v : J) (rest : List (Str × J)) (d : NodeDoc) (ds : List (Str × NodeDoc))
    (h1 : nodeOfJ v = some d) (h2 : membersOfKVs rest = some ds) :
    membersOfKVs ((k, v) :: rest) = some ((k, d) :: ds) := by
  rw [membersOfKVs, h1, h2]

theorem membersOfKVs_cons_inv (k : Str) (v : J) (rest : List (Str × J)) (l : List (Str × NodeDoc))
    (h : membersOfKVs ((k, v) :: rest) = some l) :
    ∃ d ds, l = (k, d) :: ds ∧ nodeOfJ v = some d ∧ membersOfKVs rest = some ds := by
  rw [membersOfKVs] at h
  cases h1 : nodeOfJ v with
  | none => simp [h1] at h
  | some d =>
    cases h2 : membersOfKVs rest with
    | none => simp [h1, h2] at h
    | some ds =>
      simp only [h1, h2, Option.some.injEq] at h
      exact ⟨d, ds, h.symm, rfl, rfl⟩

theorem membersOfKVs_keys (kvs : List (Str × J)) (l : List (Str × NodeDoc)) (h : membersOfKVs kvs = some l) :
    l.map (·.1) = kvs.map (·.1) := by
  induction kvs generalizing l with
  | nil => rw [membersOfKVs_nil] at h; cases h; rfl
  | cons kv rest ih =>
    obtain ⟨k, v⟩ := kv
    obtain ⟨d, ds, rfl, _, h2⟩ := membersOfKVs_cons_inv k v rest l h
    simp [ih ds h2]

theorem membersOfKVs_mem (kvs : List (Str × J)) (l : List (Str × NodeDoc)) (h : membersOfKVs kvs = some l)
    (k : Str) (v : J) (hk : (k, v) ∈ kvs) : ∃ d, nodeOfJ v = some d := by
  induction kvs generalizing l with
  | nil => cases hk
  | cons kv rest ih =>
    obtain ⟨k', v'⟩ := kv
    obtain ⟨d, ds, _, h1, h2⟩ := membersOfKVs_cons_inv k' v' rest l h
    rcases List.mem_cons.1 hk with e | hk
    · cases e; exact ⟨d, h1⟩
    · exact ih ds h2 hk

theorem membersToKVs_nil : membersToKVs [] = [] := by rw [membersToKVs]
theorem membersToKVs_cons (k : Str) (d : NodeDoc) (rest : List (Str × NodeDoc)) :
    membersToKVs ((k, d) :: rest) = (k, d.toJ) :: membersToKVs rest := by rw [membersToKVs]

theorem membersToKVs_eq_map (c : List (Str × NodeDoc)) : membersToKVs c = c.map (fun kv => (kv.1, kv.2.toJ)) := by
  induction c with
  | nil => rw [membersToKVs_nil]; rfl
  | cons kv rest ih => obtain ⟨k, d⟩ := kv; rw [membersToKVs_cons, ih]; rfl

theorem membersToKVs_keys (c : List (Str × NodeDoc)) : (membersToKVs c).map (·.1) = c.map (·.1) := by
  rw [membersToKVs_eq_map, List.map_map]; rfl

theorem membersToKVs_sorted (c : List (Str × NodeDoc)) (h : sortedKeys c) : sortedKeys (membersToKVs c) := by
  unfold sortedKeys at h ⊢; rw [membersToKVs_keys]; exact h

theorem membersToKVsU_eq_map (c : List (Str × NodeDoc)) : membersToKVsU c = c.map (fun kv => (kv.1, kv.2.toJUnsorted)) := by
  induction c with
  | nil => rw [membersToKVsU]; rfl
  | cons kv rest ih => obtain ⟨k, d⟩ := kv; rw [membersToKVsU, ih]; rfl

/-! ### writing -/

def consKV (members : List (Str × J)) : Str × J := (kCons, consJ members)

theorem toJ_a3 (d : ArrayDoc) : NodeDoc.toJ (.a3 d) = d.toJ := by rw [NodeDoc.toJ]
theorem toJ_a2 (d : ArrayDocV2) : NodeDoc.toJ (.a2 d) = d.toJ := by rw [NodeDoc.toJ]
theorem toJ_g2 (d : GroupDocV2) : NodeDoc.toJ (.g2 d) = d.toJ := by rw [NodeDoc.toJ]
theorem toJ_g3_none (d : GroupDoc) : NodeDoc.toJ (.g3 d none) = d.toJ := by rw [NodeDoc.toJ]
theorem toJ_g3_some (d : GroupDoc) (c : List (Str × NodeDoc)) :
    NodeDoc.toJ (.g3 d (some c)) =
      .obj (d.knownKVs ++ [consKV (sortKVs (membersToKVs c))] ++ extraKVs d.extra) := by
  rw [NodeDoc.toJ]; rfl

/-! ### `nodeOfJ` case by case -/

theorem nodeOfJ_a3 (o : Obj) (d : ArrayDoc) (h : ArrayDoc.ofJ (.obj o) = some d) : nodeOfJ (.obj o) = some (.a3 d) := by
  rw [nodeOfJ, h]

theorem nodeOfJ_a2 (o : Obj) (d : ArrayDocV2) (h1 : ArrayDoc.ofJ (.obj o) = none) (h2 : ArrayDocV2.ofJ (.obj o) = some d) :
    nodeOfJ (.obj o) = some (.a2 d) := by
  rw [nodeOfJ, h1, h2]

theorem nodeOfJ_g3 (o : Obj) (d : GroupDoc) (cm : Option CMap) (h1 : ArrayDoc.ofJ (.obj o) = none)
    (h2 : ArrayDocV2.ofJ (.obj o) = none) (h3 : consOfKVs o = some cm) (h4 : GroupDoc.ofJ (.obj (without o kCons)) = some d) :
    nodeOfJ (.obj o) = some (.g3 d cm) := by
  rw [nodeOfJ, h1, h2, h3, h4]

theorem nodeOfJ_g2 (o : Obj) (d : GroupDocV2) (h1 : ArrayDoc.ofJ (.obj o) = none)
    (h2 : ArrayDocV2.ofJ (.obj o) = none) (h3 : GroupDoc.ofJ (.obj (without o kCons)) = none)
    (h4 : GroupDocV2.ofJ (.obj o) = some d) : nodeOfJ (.obj o) = some (.g2 d) := by
  rw [nodeOfJ, h1, h2, h3, h4]
  cases consOfKVs o <;> rfl

/-- what `nodeOfJ j = some d` says -/
theorem nodeOfJ_inv (j : J) (d : NodeDoc) (h : nodeOfJ j = some d) :
    ∃ o, j = .obj o ∧
      ((∃ a, d = .a3 a ∧ ArrayDoc.ofJ (.obj o) = some a) ∨
       (∃ a, d = .a2 a ∧ ArrayDoc.ofJ (.obj o) = none ∧ ArrayDocV2.ofJ (.obj o) = some a) ∨
       (∃ g cm, d = .g3 g cm ∧ ArrayDoc.ofJ (.obj o) = none ∧ ArrayDocV2.ofJ (.obj o) = none ∧
          consOfKVs o = some cm ∧ GroupDoc.ofJ (.obj (without o kCons)) = some g) ∨
       (∃ g, d = .g2 g ∧ ArrayDoc.ofJ (.obj o) = none ∧ ArrayDocV2.ofJ (.obj o) = none ∧
          (consOfKVs o = none ∨ GroupDoc.ofJ (.obj (without o kCons)) = none) ∧ GroupDocV2.ofJ (.obj o) = some g)) := by
  cases j with
  | obj o =>
    refine ⟨o, rfl, ?_⟩
    rw [nodeOfJ] at h
    cases h1 : ArrayDoc.ofJ (.obj o) with
    | some a => rw [h1] at h; simp only [Option.some.injEq] at h; exact Or.inl ⟨a, h.symm, rfl⟩
    | none =>
      rw [h1] at h
      cases h2 : ArrayDocV2.ofJ (.obj o) with
      | some a => rw [h2] at h; simp only [Option.some.injEq] at h; exact Or.inr (Or.inl ⟨a, h.symm, rfl, rfl⟩)
      | none =>
        rw [h2] at h
        cases h3 : consOfKVs o with
        | none =>
          rw [h3] at h
          simp only [Option.map_eq_some_iff] at h
          obtain ⟨g, hg, e⟩ := h
          exact Or.inr (Or.inr (Or.inr ⟨g, e.symm, rfl, rfl, Or.inl rfl, hg⟩))
        | some cm =>
          rw [h3] at h
          cases h4 : GroupDoc.ofJ (.obj (without o kCons)) with
          | none =>
            rw [h4] at h
            simp only [Option.map_eq_some_iff] at h
            obtain ⟨g, hg, e⟩ := h
            exact Or.inr (Or.inr (Or.inr ⟨g, e.symm, rfl, rfl, Or.inr rfl, hg⟩))
          | some g =>
            rw [h4] at h
            simp only [Option.some.injEq] at h
            exact Or.inr (Or.inr (Or.inl ⟨g, cm, h.symm, rfl, rfl, rfl, rfl⟩))
  | null =>
    rw [nodeOfJ] at h
    · cases h
    · intro o ho; cases ho
  | bool b =>
    rw [nodeOfJ] at h
    · cases h
    · intro o ho; cases ho
  | num t =>
    rw [nodeOfJ] at h
    · cases h
    · intro o ho; cases ho
  | str s =>
    rw [nodeOfJ] at h
    · cases h
    · intro o ho; cases ho
  | arr xs =>
    rw [nodeOfJ] at h
    · cases h
    · intro o ho; cases ho

/-! ### a document of one kind is not read as another -/

theorem arrayDoc_ofJ_none_of_zf (o : Obj) (v : J) (h : lookup o (ascii "zarr_format") = some v) (hv : v ≠ .num ['3']) :
    ArrayDoc.ofJ (.obj o) = none := by
  cases h1 : ArrayDoc.ofJ (.obj o) with
  | none => rfl
  | some d =>
    have := (arrayDoc_ofJ_inv o d h1).zf
    rw [h] at this
    exact absurd (Option.some.inj this) hv

theorem arrayDoc_ofJ_none_of_nt (o : Obj) (v : J) (h : lookup o (ascii "node_type") = some v)
    (hv : v ≠ .str (ascii "array")) : ArrayDoc.ofJ (.obj o) = none := by
  cases h1 : ArrayDoc.ofJ (.obj o) with
  | none => rfl
  | some d =>
    have := (arrayDoc_ofJ_inv o d h1).nt
    rw [h] at this
    exact absurd (Option.some.inj this) hv

theorem arrayDocV2_ofJ_none_of_zf (o : Obj) (v : J) (h : lookup o (ascii "zarr_format") = some v) (hv : v ≠ .num ['2']) :
    ArrayDocV2.ofJ (.obj o) = none := by
  cases h1 : ArrayDocV2.ofJ (.obj o) with
  | none => rfl
  | some d =>
    have := (arrayDocV2_ofJ_inv o d h1).zf
    rw [h] at this
    exact absurd (Option.some.inj this) hv

theorem groupDoc_ofJ_none_of_zf (o : Obj) (v : J) (h : lookup o (ascii "zarr_format") = some v) (hv : v ≠ .num ['3']) :
    GroupDoc.ofJ (.obj o) = none := by
  cases h1 : GroupDoc.ofJ (.obj o) with
  | none => rfl
  | some d =>
    have := (groupDoc_ofJ_inv o d h1).zf
    rw [h] at this
    exact absurd (Option.some.inj this) hv

theorem lookup_without_ne (o : Obj) (k k' : Str) (h : k ≠ k') : lookup (without o k) k' = lookup o k' := by
  induction o with
  | nil => rfl
  | cons kv rest ih =>
    obtain ⟨a, v⟩ := kv
    unfold without at ih ⊢
    by_cases ha : a = k
    · subst ha
      have : ((a, v).1 != a) = false := by simp
      rw [List.filter_cons_of_neg (by simp), ih, lookup_cons_ne _ _ _ _ (by simpa using h)]
    · rw [List.filter_cons_of_pos (by simpa using ha)]
      by_cases hk : a = k'
      · subst hk; rw [lookup_cons_eq, lookup_cons_eq]
      · rw [lookup_cons_ne _ _ _ _ (by simpa using hk), lookup_cons_ne _ _ _ _ (by simpa using hk), ih]

/-! ### the `consolidated_metadata` member as written -/

theorem membersOfJ_obj (ms : List (Str × J)) : membersOfJ (.obj ms) = (membersOfKVs ms).map sortKVs := by
  rw [membersOfJ]

theorem consOfJ_consJ (ms : List (Str × J)) (c : List (Str × NodeDoc)) (h : membersOfKVs ms = some c) :
    consOfJ (consJ ms) = some (some (sortKVs c)) := by
  unfold consJ
  rw [consOfJ, metaOfKVs_eq, lookup_cons_eq]
  simp only [membersOfJ_obj, h, Option.map_some]
  have h1 : lookup [(kMetadata, J.obj ms), (kKind, J.str kInline), (kMustUnderstand, J.bool false)] kKind
      = some (.str kInline) := by
    rw [lookup_cons_ne _ _ _ _ (by decide), lookup_cons_eq]
  have h2 : lookup [(kMetadata, J.obj ms), (kKind, J.str kInline), (kMustUnderstand, J.bool false)] kMustUnderstand
      = some (.bool false) := by
    rw [lookup_cons_ne _ _ _ _ (by decide), lookup_cons_ne _ _ _ _ (by decide), lookup_cons_eq]
  rw [h1, h2]
  rfl

/-! ### well-formed node documents -/

mutual
/-- node documents as parsing leaves them (and as the builders create them): the parts well-formed as in
    `Lemmas/MetaWf.lean` / `Lemmas/MetaV2Wf.lean`, a consolidated map in key order with well-formed members; a V2
    array without an additional field called `node_type` (the written text would repeat the key); a V2 group whose
    additional fields do not make it a V2 array document -/
def NodeDoc.ok : NodeDoc → Prop
  | .a3 d => d.good
  | .a2 d => d.shapeOk ∧ d.wfParts ∧ ∀ kv ∈ d.extra, kv.1 ≠ kNodeType
  | .g2 d => d.shapeOk ∧ d.wfParts ∧ ArrayDocV2.ofJ d.toJ = none
  | .g3 d none => d.good
  | .g3 d (some c) => d.good ∧ sortedKeys c ∧ membersOk c
def membersOk : List (Str × NodeDoc) → Prop
  | [] => True
  | (k, d) :: rest => strOk k ∧ d.ok ∧ membersOk rest
end

theorem ok_a3 (d : ArrayDoc) : NodeDoc.ok (.a3 d) ↔ d.good := by rw [NodeDoc.ok]
theorem ok_a2 (d : ArrayDocV2) : NodeDoc.ok (.a2 d) ↔ (d.shapeOk ∧ d.wfParts ∧ ∀ kv ∈ d.extra, kv.1 ≠ kNodeType) := by
  rw [NodeDoc.ok]
theorem ok_g2 (d : GroupDocV2) : NodeDoc.ok (.g2 d) ↔ (d.shapeOk ∧ d.wfParts ∧ ArrayDocV2.ofJ d.toJ = none) := by
  rw [NodeDoc.ok]
theorem ok_g3_none (d : GroupDoc) : NodeDoc.ok (.g3 d none) ↔ d.good := by rw [NodeDoc.ok]
theorem ok_g3_some (d : GroupDoc) (c : List (Str × NodeDoc)) :
    NodeDoc.ok (.g3 d (some c)) ↔ (d.good ∧ sortedKeys c ∧ membersOk c) := by rw [NodeDoc.ok]
theorem membersOk_nil : membersOk [] ↔ True := by rw [membersOk]
theorem membersOk_cons (k : Str) (d : NodeDoc) (rest : List (Str × NodeDoc)) :
    membersOk ((k, d) :: rest) ↔ (strOk k ∧ d.ok ∧ membersOk rest) := by rw [membersOk]

theorem membersOk_iff (c : List (Str × NodeDoc)) : membersOk c ↔ ∀ kv ∈ c, strOk kv.1 ∧ kv.2.ok := by
  induction c with
  | nil => simp [membersOk_nil]
  | cons kv rest ih =>
    obtain ⟨k, d⟩ := kv
    rw [membersOk_cons, ih]
    simp only [List.mem_cons, forall_eq_or_imp]
    exact ⟨fun ⟨a, b, c⟩ => ⟨⟨a, b⟩, c⟩, fun ⟨⟨a, b⟩, c⟩ => ⟨a, b, c⟩⟩

/-! ### the keys of the written group object -/

theorem lookup_known_cons (d : GroupDoc) : lookup d.knownKVs kCons = none := by
  obtain ⟨attrs, extra⟩ := d
  cases attrs <;>
    simp (disch := decide) [GroupDoc.knownKVs, lookup_cons_ne, lookup_nil]

theorem lookup_extra_none_of_groupKey (d : GroupDoc) (he : ∀ kv ∈ d.extra, kv.1 ∉ groupKeys) (k : Str) (hk : k ∈ groupKeys) :
    lookup (extraKVs d.extra) k = none :=
  lookup_extraKVs_none _ _ (fun kv hkv e => he kv hkv (e ▸ hk))

def g3Obj (d : GroupDoc) (ms : List (Str × J)) : Obj := d.knownKVs ++ [consKV ms] ++ extraKVs d.extra

theorem lookup_g3Obj_cons (d : GroupDoc) (ms : List (Str × J)) : lookup (g3Obj d ms) kCons = some (consJ ms) := by
  unfold g3Obj consKV
  rw [lookup_append, lookup_append, lookup_known_cons, lookup_cons_eq]
  rfl

theorem lookup_g3Obj_zf (d : GroupDoc) (ms : List (Str × J)) :
    lookup (g3Obj d ms) (ascii "zarr_format") = some (.num ['3']) := by
  unfold g3Obj GroupDoc.knownKVs
  simp only [List.append_assoc, List.cons_append]
  rw [lookup_cons_eq]

theorem lookup_g3Obj_nt (d : GroupDoc) (ms : List (Str × J)) :
    lookup (g3Obj d ms) (ascii "node_type") = some (.str (ascii "group")) := by
  unfold g3Obj GroupDoc.knownKVs
  simp only [List.append_assoc, List.cons_append]
  rw [lookup_cons_ne _ _ _ _ (by decide), lookup_cons_eq]

theorem without_known (d : GroupDoc) : without d.knownKVs kCons = d.knownKVs := by
  exact without_of_lookup_none _ _ (lookup_known_cons d)

theorem without_append (a b : Obj) (k : Str) : without (a ++ b) k = without a k ++ without b k := by
  unfold without; rw [List.filter_append]

theorem without_g3Obj (d : GroupDoc) (ms : List (Str × J)) (he : ∀ kv ∈ d.extra, kv.1 ∉ groupKeys) :
    without (g3Obj d ms) kCons = d.kvs := by
  unfold g3Obj GroupDoc.kvs
  rw [without_append, without_append, without_known,
    without_of_lookup_none _ _ (lookup_extra_none_of_groupKey d he kCons (by decide))]
  have : without [consKV ms] kCons = [] := by
    unfold without consKV; simp
  rw [this, List.append_nil]

/-! ### reading what was written -/

theorem num_ne_23 : J.num ['2'] ≠ J.num ['3'] := by intro h; cases h
theorem num_ne_32 : J.num ['3'] ≠ J.num ['2'] := by intro h; cases h
theorem str_group_ne_array : J.str (ascii "group") ≠ J.str (ascii "array") := by
  intro h; injection h with h; revert h; decide

theorem nodeOfJ_toJ_a3 (d : ArrayDoc) (h : d.good) : nodeOfJ (NodeDoc.toJ (.a3 d)) = some (.a3 d) := by
  rw [toJ_a3, ArrayDoc.toJ_eq]
  exact nodeOfJ_a3 _ _ (by rw [← ArrayDoc.toJ_eq]; exact arrayDoc_roundtrip_good d h)

theorem nodeOfJ_toJ_a2 (d : ArrayDocV2) (h : d.shapeOk) : nodeOfJ (NodeDoc.toJ (.a2 d)) = some (.a2 d) := by
  rw [toJ_a2, ArrayDocV2.toJ_eq]
  have hof := arrayDocV2_kvs_of d h
  exact nodeOfJ_a2 _ _ (arrayDoc_ofJ_none_of_zf _ _ hof.zf num_ne_23) (arrayDocV2_ofJ_intro _ _ hof)

theorem nodeOfJ_toJ_g2 (d : GroupDocV2) (h : d.shapeOk) (hn : ArrayDocV2.ofJ d.toJ = none) :
    nodeOfJ (NodeDoc.toJ (.g2 d)) = some (.g2 d) := by
  rw [toJ_g2, GroupDocV2.toJ_eq]
  have hof := groupDocV2_kvs_of d h
  refine nodeOfJ_g2 _ _ (arrayDoc_ofJ_none_of_zf _ _ hof.zf num_ne_23) (by rw [← GroupDocV2.toJ_eq]; exact hn) ?_
    (groupDocV2_ofJ_intro _ _ hof)
  refine groupDoc_ofJ_none_of_zf _ (.num ['2']) ?_ num_ne_23
  rw [lookup_without_ne _ _ _ (by decide)]
  exact hof.zf

theorem nodeOfJ_toJ_g3_none (d : GroupDoc) (h : d.good) : nodeOfJ (NodeDoc.toJ (.g3 d none)) = some (.g3 d none) := by
  rw [toJ_g3_none, GroupDoc.toJ_eq]
  have hr : GroupDoc.ofJ (.obj d.kvs) = some d := by rw [← GroupDoc.toJ_eq]; exact groupDoc_roundtrip_good d h
  have hof := groupDoc_ofJ_inv _ _ hr
  refine nodeOfJ_g3 _ _ _ (arrayDoc_ofJ_none_of_nt _ _ hof.nt str_group_ne_array)
    (arrayDocV2_ofJ_none_of_zf _ _ hof.zf num_ne_32) ?_ ?_
  · rw [consOfKVs_eq]
    have : lookup d.kvs kCons = none := hof.cm
    rw [this]
  · have : lookup d.kvs kCons = none := hof.cm
    rw [without_of_lookup_none _ _ this]; exact hr

theorem nodeOfJ_g3Obj (d : GroupDoc) (h : d.good) (ms : List (Str × J)) (c : List (Str × NodeDoc))
    (hm : membersOfKVs ms = some c) : nodeOfJ (.obj (g3Obj d ms)) = some (.g3 d (some (sortKVs c))) := by
  refine nodeOfJ_g3 _ _ _ (arrayDoc_ofJ_none_of_nt _ _ (lookup_g3Obj_nt d ms) str_group_ne_array)
    (arrayDocV2_ofJ_none_of_zf _ _ (lookup_g3Obj_zf d ms) num_ne_32) ?_ ?_
  · rw [consOfKVs_eq, lookup_g3Obj_cons]
    exact consOfJ_consJ ms c hm
  · rw [without_g3Obj d ms (fun kv hkv => (h.extra kv hkv).2.2), ← GroupDoc.toJ_eq]
    exact groupDoc_roundtrip_good d h

theorem toJ_g3_some' (d : GroupDoc) (c : List (Str × NodeDoc)) :
    NodeDoc.toJ (.g3 d (some c)) = .obj (g3Obj d (sortKVs (membersToKVs c))) := toJ_g3_some d c

mutual
/-- **what is written for a node document reads back as the same document** -/
theorem nodeOfJ_toJ : ∀ (d : NodeDoc), d.ok → nodeOfJ d.toJ = some d
  | .a3 d, h => nodeOfJ_toJ_a3 d ((ok_a3 d).1 h)
  | .a2 d, h => nodeOfJ_toJ_a2 d ((ok_a2 d).1 h).1
  | .g2 d, h => nodeOfJ_toJ_g2 d ((ok_g2 d).1 h).1 ((ok_g2 d).1 h).2.2
  | .g3 d none, h => nodeOfJ_toJ_g3_none d ((ok_g3_none d).1 h)
  | .g3 d (some c), h => by
    obtain ⟨hd, hs, hm⟩ := (ok_g3_some d c).1 h
    rw [toJ_g3_some', sortKVs_of_sorted _ (membersToKVs_sorted c hs),
      nodeOfJ_g3Obj d hd _ c (membersOfKVs_toKVs c hm), sortKVs_of_sorted c hs]
theorem membersOfKVs_toKVs : ∀ (c : List (Str × NodeDoc)), membersOk c → membersOfKVs (membersToKVs c) = some c
  | [], _ => by rw [membersToKVs_nil, membersOfKVs_nil]
  | (k, d) :: rest, h => by
    obtain ⟨_, hd, hr⟩ := (membersOk_cons k d rest).1 h
    rw [membersToKVs_cons]
    exact membersOfKVs_cons_some k _ _ d rest (nodeOfJ_toJ d hd) (membersOfKVs_toKVs rest hr)
end

/-! ### what is written is well-formed JSON -/

theorem consJ_wf (ms : List (Str × J)) (h1 : wfKVs ms) (h2 : keysDistinct ms) : (consJ ms).wf := by
  unfold consJ
  rw [obj_wf_iff]
  refine ⟨?_, by unfold keysDistinct; simp only [List.map_cons, List.map_nil]; decide⟩
  rw [wfKVs_iff]
  intro kv hkv
  simp only [List.mem_cons, List.not_mem_nil, or_false] at hkv
  rcases hkv with rfl | rfl | rfl
  · exact ⟨(strOk_ascii kMetadata (by decide) : strOk kMetadata), (obj_wf_iff _).2 ⟨h1, h2⟩⟩
  · exact ⟨strOk_ascii _ (by decide), (str_wf_iff _).2 (strOk_ascii _ (by decide))⟩
  · exact ⟨strOk_kMustUnderstand, by simp only [J.wf]⟩

theorem g3_known_sublist (d : GroupDoc) (ms : List (Str × J)) :
    ((d.knownKVs ++ [consKV ms]).map (·.1)).Sublist groupKeys := by
  obtain ⟨attrs, extra⟩ := d
  cases attrs <;>
    simp only [GroupDoc.knownKVs, consKV, List.isEmpty_nil, List.isEmpty_cons, if_true, Bool.false_eq_true, if_false,
      List.append_nil, List.map_cons, List.map_nil, List.cons_append, List.nil_append] <;> decide

theorem g3Obj_wf (d : GroupDoc) (h : d.good) (ms : List (Str × J)) (h1 : wfKVs ms) (h2 : keysDistinct ms) :
    (J.obj (g3Obj d ms)).wf := by
  rw [obj_wf_iff]
  refine ⟨?_, keysDistinct_known_extra groupKeys groupKeys_nodup _ (g3_known_sublist d ms) _ h.sorted
    (fun kv hkv => (h.extra kv hkv).2.2)⟩
  have hg := (obj_wf_iff _).1 (by rw [← GroupDoc.toJ_eq]; exact groupDoc_toJ_wf d h)
  have hgw := (wfKVs_iff _).1 hg.1
  rw [wfKVs_iff]
  intro kv hkv
  unfold g3Obj at hkv
  rcases List.mem_append.1 hkv with hk | hk
  · rcases List.mem_append.1 hk with hk | hk
    · exact hgw kv (by unfold GroupDoc.kvs; exact List.mem_append_left _ hk)
    · simp only [List.mem_cons, List.not_mem_nil, or_false] at hk
      subst hk
      exact ⟨(strOk_ascii kCons (by decide) : strOk kCons), consJ_wf ms h1 h2⟩
  · exact hgw kv (by unfold GroupDoc.kvs; exact List.mem_append_right _ hk)

theorem keysDistinct_of_sorted {β} (l : List (Str × β)) (h : sortedKeys l) : (l.map (·.1)).Nodup :=
  sortedKeys_nodup l h

mutual
theorem nodeDoc_toJ_wf : ∀ (d : NodeDoc), d.ok → d.toJ.wf
  | .a3 d, h => by rw [toJ_a3]; exact arrayDoc_toJ_wf d ((ok_a3 d).1 h)
  | .a2 d, h => by
    obtain ⟨h1, h2, h3⟩ := (ok_a2 d).1 h
    rw [toJ_a2]; exact arrayDocV2_toJ_wf d h2 h1 h3
  | .g2 d, h => by
    obtain ⟨h1, h2, _⟩ := (ok_g2 d).1 h
    rw [toJ_g2]; exact groupDocV2_toJ_wf d h2 h1
  | .g3 d none, h => by rw [toJ_g3_none]; exact groupDoc_toJ_wf d ((ok_g3_none d).1 h)
  | .g3 d (some c), h => by
    obtain ⟨hd, hs, hm⟩ := (ok_g3_some d c).1 h
    rw [toJ_g3_some', sortKVs_of_sorted _ (membersToKVs_sorted c hs)]
    exact g3Obj_wf d hd _ (membersToKVs_wf c hm) (sortedKeys_nodup _ (membersToKVs_sorted c hs))
theorem membersToKVs_wf : ∀ (c : List (Str × NodeDoc)), membersOk c → wfKVs (membersToKVs c)
  | [], _ => by rw [membersToKVs_nil]; trivial
  | (k, d) :: rest, h => by
    obtain ⟨hk, hd, hr⟩ := (membersOk_cons k d rest).1 h
    rw [membersToKVs_cons]
    exact ⟨hk, nodeDoc_toJ_wf d hd, membersToKVs_wf rest hr⟩
end

/-! ### the normal form a parsed document is written in -/

mutual
/-- the documented normalisation of a parsed node document: a V2 array's empty filter list is written as `null`
    (`ArrayDocV2.norm`), recursively through consolidated maps; everything else is written as parsed -/
def NodeDoc.norm : NodeDoc → NodeDoc
  | .a3 d => .a3 d
  | .a2 d => .a2 d.norm
  | .g2 d => .g2 d
  | .g3 d none => .g3 d none
  | .g3 d (some c) => .g3 d (some (normMembers c))
def normMembers : List (Str × NodeDoc) → List (Str × NodeDoc)
  | [] => []
  | (k, d) :: rest => (k, d.norm) :: normMembers rest
end

mutual
/-- parsed documents whose re-serialisation reads back: every structured V2 data type field has a shape (the reader
    accepts a `null` shape, the writer then leaves the shape out, and the two-element form is not read - a known
    defect of the V2 document reader), a V2 array has no additional field called `node_type`, and a V2 group's
    additional fields do not make its written form a V2 array document -/
def NodeDoc.stable : NodeDoc → Prop
  | .a3 _ => True
  | .a2 d => d.dtype.hasShapes ∧ ∀ kv ∈ d.extra, kv.1 ≠ kNodeType
  | .g2 d => ArrayDocV2.ofJ d.toJ = none
  | .g3 _ none => True
  | .g3 _ (some c) => membersStable c
def membersStable : List (Str × NodeDoc) → Prop
  | [] => True
  | (_, d) :: rest => d.stable ∧ membersStable rest
end

theorem normMembers_eq_map (c : List (Str × NodeDoc)) : normMembers c = c.map (fun kv => (kv.1, kv.2.norm)) := by
  induction c with
  | nil => rw [normMembers]; rfl
  | cons kv rest ih => obtain ⟨k, d⟩ := kv; rw [normMembers, ih]; rfl

theorem membersStable_iff (c : List (Str × NodeDoc)) : membersStable c ↔ ∀ kv ∈ c, kv.2.stable := by
  induction c with
  | nil => rw [membersStable]; simp
  | cons kv rest ih =>
    obtain ⟨k, d⟩ := kv
    rw [membersStable, ih]
    simp only [List.mem_cons, forall_eq_or_imp]

mutual
theorem norm_toJ : ∀ (d : NodeDoc), d.norm.toJ = d.toJ
  | .a3 d => by rw [NodeDoc.norm]
  | .a2 d => by rw [NodeDoc.norm, toJ_a2, toJ_a2, ArrayDocV2.toJ_norm]
  | .g2 d => by rw [NodeDoc.norm]
  | .g3 d none => by rw [NodeDoc.norm]
  | .g3 d (some c) => by rw [NodeDoc.norm, toJ_g3_some, toJ_g3_some, normMembers_toKVs c]
theorem normMembers_toKVs : ∀ (c : List (Str × NodeDoc)), membersToKVs (normMembers c) = membersToKVs c
  | [] => by rw [normMembers]
  | (k, d) :: rest => by rw [normMembers, membersToKVs_cons, membersToKVs_cons, norm_toJ d, normMembers_toKVs rest]
end

theorem normMembers_keys (c : List (Str × NodeDoc)) : (normMembers c).map (·.1) = c.map (·.1) := by
  rw [normMembers_eq_map, List.map_map]; rfl

theorem normMembers_sorted (c : List (Str × NodeDoc)) (h : sortedKeys c) : sortedKeys (normMembers c) := by
  unfold sortedKeys at h ⊢; rw [normMembers_keys]; exact h

/-! ### parsing yields well-formed documents -/

theorem without_wf (o : Obj) (k : Str) (h : (J.obj o).wf) : (J.obj (without o k)).wf := by
  rw [obj_wf_iff] at h ⊢
  exact ⟨wfKVs_filter _ _ h.1, keysDistinct_filter _ _ h.2⟩

/-- the conclusion shared by the readers of the consolidated map -/
def cmapOk (c : List (Str × NodeDoc)) : Prop := sortedKeys c ∧ ∀ kv ∈ c, strOk kv.1 ∧ kv.2.norm.ok

theorem ok_of_cmapOk (g : GroupDoc) (hg : g.good) (c : List (Str × NodeDoc)) (h : cmapOk c) :
    NodeDoc.ok (.g3 g (some (normMembers c))) := by
  rw [ok_g3_some]
  refine ⟨hg, normMembers_sorted c h.1, ?_⟩
  rw [membersOk_iff, normMembers_eq_map]
  intro kv hkv
  obtain ⟨x, hx, rfl⟩ := List.mem_map.1 hkv
  exact h.2 x hx

mutual
theorem nodeOfJ_ok : ∀ (j : J), j.wf → ∀ d, nodeOfJ j = some d → d.stable → d.norm.ok
  | .obj o, hj, d, h, hs => by
    obtain ⟨o', e, hc⟩ := nodeOfJ_inv _ _ h
    cases e
    rcases hc with ⟨a, rfl, ha⟩ | ⟨a, rfl, _, ha⟩ | ⟨g, cm, rfl, _, _, hcm, hg⟩ | ⟨g, rfl, _, _, _, hg⟩
    · rw [NodeDoc.norm, ok_a3]; exact arrayDoc_ofJ_good _ hj a ha
    · rw [NodeDoc.stable] at hs
      rw [NodeDoc.norm, ok_a2]
      refine ⟨arrayDocV2_ofJ_shapeOk _ a ha hs.1, ArrayDocV2.wfParts_norm a (arrayDocV2_ofJ_wfParts _ hj a ha), hs.2⟩
    · have hgood := groupDoc_ofJ_good _ (without_wf o kCons hj) g hg
      cases cm with
      | none => rw [NodeDoc.norm, ok_g3_none]; exact hgood
      | some c =>
        rw [NodeDoc.stable] at hs
        rw [NodeDoc.norm]
        exact ok_of_cmapOk g hgood c (consOfKVs_ok o ((obj_wf_iff o).1 hj).1 c hcm ((membersStable_iff c).1 hs))
    · rw [NodeDoc.stable] at hs
      rw [NodeDoc.norm, ok_g2]
      exact ⟨groupDocV2_ofJ_shapeOk _ g hg, groupDocV2_ofJ_wfParts _ hj g hg, hs⟩
  | .null, _, d, h, _ => by obtain ⟨o, e, _⟩ := nodeOfJ_inv _ _ h; cases e
  | .bool _, _, d, h, _ => by obtain ⟨o, e, _⟩ := nodeOfJ_inv _ _ h; cases e
  | .num _, _, d, h, _ => by obtain ⟨o, e, _⟩ := nodeOfJ_inv _ _ h; cases e
  | .str _, _, d, h, _ => by obtain ⟨o, e, _⟩ := nodeOfJ_inv _ _ h; cases e
  | .arr _, _, d, h, _ => by obtain ⟨o, e, _⟩ := nodeOfJ_inv _ _ h; cases e
theorem consOfKVs_ok : ∀ (kvs : List (Str × J)), wfKVs kvs → ∀ c, consOfKVs kvs = some (some c) →
    (∀ kv ∈ c, kv.2.stable) → cmapOk c
  | [], _, c, h, _ => by rw [consOfKVs] at h; cases h
  | (k, v) :: rest, hw, c, h, hs => by
    rw [consOfKVs] at h
    rw [wfKVs] at hw
    by_cases hk : (k == kCons) = true
    · rw [if_pos hk] at h; exact consOfJ_ok v hw.2.1 c h hs
    · rw [if_neg hk] at h; exact consOfKVs_ok rest hw.2.2 c h hs
theorem consOfJ_ok : ∀ (j : J), j.wf → ∀ c, consOfJ j = some (some c) → (∀ kv ∈ c, kv.2.stable) → cmapOk c
  | .null, _, c, h, _ => by rw [consOfJ] at h; cases h
  | .obj o, hj, c, h, hs => by
    rw [consOfJ] at h
    cases hm : metaOfKVs o with
    | none => rw [hm] at h; cases h
    | some r =>
      cases r with
      | none => rw [hm] at h; cases h
      | some c' =>
        rw [hm] at h
        simp only at h
        split at h
        · cases h; exact metaOfKVs_ok o ((obj_wf_iff o).1 hj).1 c hm hs
        · cases h
  | .arr [m, k, mu], hj, c, h, hs => by
    rw [consOfJ] at h
    cases hm : membersOfJ m with
    | none => rw [hm] at h; cases h
    | some c' =>
      rw [hm] at h
      simp only at h
      split at h
      · cases h
        have hmw : m.wf := by simp only [J.wf, wfList] at hj; exact hj.1
        exact membersOfJ_ok m hmw c hm hs
      · cases h
  | .bool _, _, c, h, _ => by rw [consOfJ] at h <;> first | cases h | (intros; simp_all)
  | .num _, _, c, h, _ => by rw [consOfJ] at h <;> first | cases h | (intros; simp_all)
  | .str _, _, c, h, _ => by rw [consOfJ] at h <;> first | cases h | (intros; simp_all)
  | .arr [], _, c, h, _ => by rw [consOfJ] at h <;> first | cases h | (intros; simp_all)
  | .arr [_], _, c, h, _ => by rw [consOfJ] at h <;> first | cases h | (intros; simp_all)
  | .arr [_, _], _, c, h, _ => by rw [consOfJ] at h <;> first | cases h | (intros; simp_all)
  | .arr (_ :: _ :: _ :: _ :: _), _, c, h, _ => by rw [consOfJ] at h <;> first | cases h | (intros; simp_all)
theorem metaOfKVs_ok : ∀ (kvs : List (Str × J)), wfKVs kvs → ∀ c, metaOfKVs kvs = some (some c) →
    (∀ kv ∈ c, kv.2.stable) → cmapOk c
  | [], _, c, h, _ => by rw [metaOfKVs] at h; cases h
  | (k, v) :: rest, hw, c, h, hs => by
    rw [metaOfKVs] at h
    rw [wfKVs] at hw
    by_cases hk : (k == kMetadata) = true
    · rw [if_pos hk] at h
      simp only [Option.map_eq_some_iff] at h
      obtain ⟨c', hc', e⟩ := h
      cases e
      exact membersOfJ_ok v hw.2.1 c hc' hs
    · rw [if_neg hk] at h; exact metaOfKVs_ok rest hw.2.2 c h hs
theorem membersOfJ_ok : ∀ (j : J), j.wf → ∀ c, membersOfJ j = some c → (∀ kv ∈ c, kv.2.stable) → cmapOk c
  | .obj kvs, hj, c, h, hs => by
    rw [membersOfJ] at h
    simp only [Option.map_eq_some_iff] at h
    obtain ⟨l, hl, rfl⟩ := h
    refine ⟨sortKVs_sorted l, ?_⟩
    intro kv hkv
    exact membersOfKVs_ok kvs ((obj_wf_iff kvs).1 hj).1 l hl kv (mem_sortKVs_sub l kv hkv) (hs kv hkv)
  | .null, _, c, h, _ => by rw [membersOfJ] at h <;> first | cases h | (intros; simp_all)
  | .bool _, _, c, h, _ => by rw [membersOfJ] at h <;> first | cases h | (intros; simp_all)
  | .num _, _, c, h, _ => by rw [membersOfJ] at h <;> first | cases h | (intros; simp_all)
  | .str _, _, c, h, _ => by rw [membersOfJ] at h <;> first | cases h | (intros; simp_all)
  | .arr _, _, c, h, _ => by rw [membersOfJ] at h <;> first | cases h | (intros; simp_all)
theorem membersOfKVs_ok : ∀ (kvs : List (Str × J)), wfKVs kvs → ∀ l, membersOfKVs kvs = some l →
    ∀ kv ∈ l, kv.2.stable → strOk kv.1 ∧ kv.2.norm.ok
  | [], _, l, h, kv, hkv, _ => by rw [membersOfKVs_nil] at h; cases h; cases hkv
  | (k, v) :: rest, hw, l, h, kv, hkv, hs => by
    rw [wfKVs] at hw
    obtain ⟨d, ds, rfl, h1, h2⟩ := membersOfKVs_cons_inv k v rest l h
    rcases List.mem_cons.1 hkv with rfl | hkv
    · exact ⟨hw.1, nodeOfJ_ok v hw.2.1 d h1 hs⟩
    · exact membersOfKVs_ok rest hw.2.2 ds h2 kv hkv hs
end

/-! ### the group document as `Group::open` reads it -/

theorem groupDocC_ofJ_obj (o : Obj) (g : GroupDocC) :
    GroupDocC.ofJ (.obj o) = some g ↔
      (consOfKVs o = some g.cons ∧ GroupDoc.ofJ (.obj (without o kCons)) = some g.base) := by
  obtain ⟨d, cm⟩ := g
  have hdef : GroupDocC.ofJ (.obj o) =
      (match consOfKVs o, GroupDoc.ofJ (.obj (without o kCons)) with
       | some cm, some d => some ⟨d, cm⟩
       | _, _ => none) := rfl
  rw [hdef]
  cases h1 : consOfKVs o with
  | none => simp
  | some cm' =>
    cases h2 : GroupDoc.ofJ (.obj (without o kCons)) with
    | none => simp
    | some d' =>
      simp only [Option.some.injEq, GroupDocC.mk.injEq]
      exact ⟨fun ⟨a, b⟩ => ⟨b, a⟩, fun ⟨a, b⟩ => ⟨b, a⟩⟩

theorem groupDocC_ofJ_inv (j : J) (g : GroupDocC) (h : GroupDocC.ofJ j = some g) :
    ∃ o, j = .obj o ∧ consOfKVs o = some g.cons ∧ GroupDoc.ofJ (.obj (without o kCons)) = some g.base := by
  cases j with
  | obj o => exact ⟨o, rfl, (groupDocC_ofJ_obj o g).1 h⟩
  | null => simp [GroupDocC.ofJ] at h
  | bool b => simp [GroupDocC.ofJ] at h
  | num t => simp [GroupDocC.ofJ] at h
  | str t => simp [GroupDocC.ofJ] at h
  | arr t => simp [GroupDocC.ofJ] at h

/-- reading a group document directly (`Group::open`) and as a node document (`Node::open`, a member of a consolidated
    map) agree: `GroupMetadataV3` is the only variant of `NodeMetadata` a V3 group document can be read as -/
theorem groupDocC_ofJ_iff_node (j : J) (g : GroupDocC) :
    GroupDocC.ofJ j = some g ↔ nodeOfJ j = some (.g3 g.base g.cons) := by
  constructor
  · intro h
    obtain ⟨o, rfl, h1, h2⟩ := groupDocC_ofJ_inv j g h
    have hof := groupDoc_ofJ_inv _ _ h2
    have hzf : lookup o (ascii "zarr_format") = some (.num ['3']) := by
      rw [← lookup_without_ne o kCons _ (by decide)]; exact hof.zf
    have hnt : lookup o (ascii "node_type") = some (.str (ascii "group")) := by
      rw [← lookup_without_ne o kCons _ (by decide)]; exact hof.nt
    exact nodeOfJ_g3 o _ _ (arrayDoc_ofJ_none_of_nt _ _ hnt str_group_ne_array)
      (arrayDocV2_ofJ_none_of_zf _ _ hzf num_ne_32) h1 h2
  · intro h
    obtain ⟨o, rfl, hc⟩ := nodeOfJ_inv _ _ h
    rcases hc with ⟨a, e, _⟩ | ⟨a, e, _⟩ | ⟨d, cm, e, _, _, h1, h2⟩ | ⟨d, e, _⟩
    · cases e
    · cases e
    · cases e; exact (groupDocC_ofJ_obj o g).2 ⟨h1, h2⟩
    · cases e

def GroupDocC.ok (g : GroupDocC) : Prop := NodeDoc.ok (.g3 g.base g.cons)
def GroupDocC.stable (g : GroupDocC) : Prop := NodeDoc.stable (.g3 g.base g.cons)
def GroupDocC.norm (g : GroupDocC) : GroupDocC := ⟨g.base, g.cons.map normMembers⟩

theorem GroupDocC.norm_node (g : GroupDocC) : NodeDoc.norm (.g3 g.base g.cons) = .g3 g.norm.base g.norm.cons := by
  obtain ⟨d, cm⟩ := g
  cases cm <;> rw [NodeDoc.norm] <;> rfl

theorem groupDocC_ofJ_toJ (g : GroupDocC) (h : g.ok) : GroupDocC.ofJ g.toJ = some g :=
  (groupDocC_ofJ_iff_node _ g).2 (nodeOfJ_toJ _ h)

theorem groupDocC_toJ_wf (g : GroupDocC) (h : g.ok) : g.toJ.wf := nodeDoc_toJ_wf _ h

theorem groupDocC_text_roundtrip (g : GroupDocC) (h : g.ok) : GroupDocC.ofText g.toText = some g := by
  unfold GroupDocC.ofText GroupDocC.toText
  rw [parse_print _ (groupDocC_toJ_wf g h)]
  exact groupDocC_ofJ_toJ g h

theorem groupDocC_ofJ_ok (j : J) (hj : j.wf) (g : GroupDocC) (h : GroupDocC.ofJ j = some g) (hs : g.stable) :
    g.norm.ok := by
  have := nodeOfJ_ok j hj _ ((groupDocC_ofJ_iff_node j g).1 h) hs
  rw [GroupDocC.norm_node] at this
  exact this

theorem groupDocC_norm_toJ (g : GroupDocC) : g.norm.toJ = g.toJ := by
  have := Zarrs.Cons.norm_toJ (NodeDoc.g3 g.base g.cons)
  rw [GroupDocC.norm_node] at this
  exact this

end Zarrs.Cons
