import ZarrsModel.Model.ShardPDAsync
import ZarrsModel.Lemmas.ShardPDExtra
set_option Elab.async false
/- helper lemmas for C07 (async sharding partial decoder): one region of the async decoder on a served shard -/
namespace Zarrs.Partial
open Zarrs Zarrs.Codec Zarrs.Subset

variable {fixed : Option Nat} {shard inner : Shape} {es : Nat} {fill : Elem} {innerPD : Shape → Elem → BHandle → AHandle}
  {h : BHandle} {entries : List (Nat × Nat)} {xss : List (List Elem)}

/-- the entry the code reads for an item of the chunk iterator -/
def entryAt (cps : Shape) (entries : List (Nat × Nat)) (p : Idx × Subset) : Nat × Nat :=
  (entries[ravel p.1 cps]?).getD (0, 0)

def liveAt (cps : Shape) (entries : List (Nat × Nat)) (p : Idx × Subset) : Bool :=
  !((entryAt cps entries p).1 == Shard.sentinel && (entryAt cps entries p).2 == Shard.sentinel)

def infoOf (cps : Shape) (entries : List (Nat × Nat)) (p : Idx × Subset) : ChunkInfo :=
  (p.2, if (entryAt cps entries p).1 == Shard.sentinel && (entryAt cps entries p).2 == Shard.sentinel then none
        else some (entryAt cps entries p))

theorem chunkInfo_eq (cps : Shape) (r : Subset)
    (hall : ∀ p ∈ r.chunks inner, ∃ e, entries[ravel p.1 cps]? = some e) :
    chunkInfo inner cps entries r = some ((r.chunks inner).map (infoOf cps entries)) := by
  unfold chunkInfo
  apply mapM_some_of_forall
  intro p hp
  obtain ⟨e, he⟩ := hall p hp
  simp only [infoOf, entryAt, he, Option.getD_some]

theorem storedOf_map (cps : Shape) (l : List (Idx × Subset)) :
    storedOf (l.map (infoOf cps entries)) =
      (l.filter (liveAt cps entries)).map (fun p => (p.2, entryAt cps entries p)) := by
  induction l with
  | nil => rfl
  | cons p l ih =>
    simp only [storedOf] at ih ⊢
    simp only [List.map_cons, List.filterMap_cons, List.filter_cons, infoOf, liveAt]
    by_cases hs : ((entryAt cps entries p).1 == Shard.sentinel && (entryAt cps entries p).2 == Shard.sentinel) = true
    · simp only [hs, if_true, Option.map_none, Bool.not_true, Bool.false_eq_true, if_false]
      exact ih
    · simp only [Bool.not_eq_true] at hs
      simp only [hs, Bool.false_eq_true, if_false, Option.map_some, Bool.not_false, if_true, List.map_cons]
      rw [ih]

theorem filledOf_map (cps : Shape) (l : List (Idx × Subset)) :
    filledOf (l.map (infoOf cps entries)) =
      (l.filter (fun p => !liveAt cps entries p)).map (fun p => p.2) := by
  induction l with
  | nil => rfl
  | cons p l ih =>
    simp only [filledOf] at ih ⊢
    simp only [List.map_cons, List.filterMap_cons, List.filter_cons, infoOf, liveAt]
    by_cases hs : ((entryAt cps entries p).1 == Shard.sentinel && (entryAt cps entries p).2 == Shard.sentinel) = true
    · simp only [hs, if_true, Option.isNone_none, Bool.not_true, Bool.not_false, List.map_cons]
      rw [ih]; rfl
    · simp only [Bool.not_eq_true] at hs
      simp only [hs, Bool.false_eq_true, if_false, Option.isNone_some, Bool.not_false, Bool.not_true]
      exact ih

/-- what the async decoder computes for one item of the chunk iterator of an in-bounds region of a served shard:
a stored item's future returns the overlap read from the assembled shard; a not-stored item's fill is that read -/
theorem async_item_ok (S : Served fixed shard inner es fill innerPD h entries xss) (r : Subset) (hr : r.wf = true)
    (hb : r.inboundsShape shard = true) (p : Idx × Subset) (hp : p ∈ r.chunks inner) :
    (∃ e, entries[ravel p.1 (zipDiv shard inner)]? = some e) ∧
    (AArr.read (shardElem inner (zipDiv shard inner) xss) (r.overlap p.2)).flatten.length =
        (r.overlap p.2).numElements * es ∧
    (liveAt (zipDiv shard inner) entries p = true →
      asyncDecodeStored fixed fill inner innerPD h r (p.2, entryAt (zipDiv shard inner) entries p) =
        some (AArr.read (shardElem inner (zipDiv shard inner) xss) (r.overlap p.2), r.overlap p.2)) ∧
    (liveAt (zipDiv shard inner) entries p = false →
      List.replicate (r.overlap p.2).numElements fill =
        AArr.read (shardElem inner (zipDiv shard inner) xss) (r.overlap p.2)) := by
  obtain ⟨hp2, hpl, hcwf, hcrank, hcin, hovwf, hovrank, hovne, hov, hinb⟩ :=
    chunk_item_facts S.tiles r hr hb p hp
  obtain ⟨e, hent, hpart, hflat⟩ := shardPart_ok S r hr hb p hp
  have hE : entryAt (zipDiv shard inner) entries p = e := by simp only [entryAt, hent, Option.getD_some]
  refine ⟨⟨e, hent⟩, hflat, ?_, ?_⟩
  · intro hlive
    rw [hE]
    simp only [liveAt, hE, Bool.not_eq_true'] at hlive
    have hklt := ravel_lt p.1 _ hcin
    have hkx : ravel p.1 (zipDiv shard inner) < xss.length := by rw [S.xlen]; exact hklt
    have hxs := List.getElem?_eq_getElem hkx
    generalize xss[ravel p.1 (zipDiv shard inner)] = xs at hxs
    rcases S.cell _ e xs hent hxs with ⟨hdead, _⟩ | ⟨_, hsz, hxl, hxe, hA⟩
    · simp only [Shard.isLive, Bool.not_eq_false'] at hdead
      rw [hdead] at hlive; cases hlive
    · have hsub1 : ∀ i, (r.overlap p.2).contains i = true → p.2.contains i = true := by
        intro i hi; rw [hov, Bool.and_eq_true] at hi; exact hi.2
      obtain ⟨hw, hin, _, _⟩ := Subset.rel_facts (r.overlap p.2) p.2 hovwf hcwf (by rw [hovrank, hcrank]) hovne hsub1
      have hcsh : p.2.shape = inner := by rw [hp2]
      rw [hcsh] at hin
      have hans := hA [(r.overlap p.2).relativeTo p.2.start] (by
        intro q hq
        simp only [List.mem_singleton] at hq
        subst hq; exact ⟨hw, hin⟩)
      have hwhole := hA [Subset.ofShape inner] (by
        intro q hq
        simp only [List.mem_singleton] at hq
        subst hq; exact ofShape_ok inner)
      simp only [List.map_cons, List.map_nil, extract_full inner xs hxl] at hwhole
      simp only [shardPart, hlive, hsz, hans, List.map_cons, List.map_nil, Bool.false_eq_true, if_false,
        Bool.not_true, Option.some.injEq] at hpart
      simp only [asyncDecodeStored, hsz, Bool.not_true, Bool.false_eq_true, if_false, hcsh, hwhole, extractSubset,
        hw, hin, Bool.and_self, hxl, bne_self_eq_false, Option.map_some, hpart]
  · intro hdead
    simp only [liveAt, hE, Bool.not_eq_false'] at hdead
    simp only [shardPart, hdead, if_true, Option.some.injEq] at hpart
    exact hpart

theorem mapM_some_of_forall_mem {α β} (g : α → Option β) (k : α → β) (l : List α) (hl : ∀ a ∈ l, g a = some (k a)) :
    l.mapM g = some (l.map k) := mapM_some_of_forall g k l hl

/-- the writes of the async decoder on a served shard: one per item of the chunk iterator, the live items first -/
theorem asyncWrites_served (S : Served fixed shard inner es fill innerPD h entries xss) (r : Subset) (hr : r.wf = true)
    (hb : r.inboundsShape shard = true) :
    asyncWrites fixed es fill inner (zipDiv shard inner) entries innerPD h r =
      some ((((r.chunks inner).filter (liveAt (zipDiv shard inner) entries)) ++
             ((r.chunks inner).filter (fun p => !liveAt (zipDiv shard inner) entries p))).map (fun p =>
        ((r.overlap p.2).relativeTo r.start,
          AArr.read (shardElem inner (zipDiv shard inner) xss) (r.overlap p.2)))) := by
  have hitem := fun p hp => async_item_ok S r hr hb p hp
  unfold asyncWrites
  rw [chunkInfo_eq (zipDiv shard inner) r (fun p hp => (hitem p hp).1)]
  simp only [storedOf_map, filledOf_map]
  have hres : (((r.chunks inner).filter (liveAt (zipDiv shard inner) entries)).map
        (fun p => (p.2, entryAt (zipDiv shard inner) entries p))).mapM
        (asyncDecodeStored fixed fill inner innerPD h r) =
      some (((r.chunks inner).filter (liveAt (zipDiv shard inner) entries)).map (fun p =>
        (AArr.read (shardElem inner (zipDiv shard inner) xss) (r.overlap p.2), r.overlap p.2))) := by
    rw [List.mapM_map]
    apply mapM_some_of_forall
    intro p hp
    obtain ⟨hp1, hp2⟩ := List.mem_filter.mp hp
    exact (hitem p hp1).2.2.1 hp2
  rw [List.mapM_map] at hres
  simp only [List.mapM_map, hres]
  have hany : (((r.chunks inner).filter (liveAt (zipDiv shard inner) entries)).map (fun p =>
        (AArr.read (shardElem inner (zipDiv shard inner) xss) (r.overlap p.2), r.overlap p.2))).any
        (fun res => res.1.flatten.length != res.2.numElements * es) = false := by
    rw [List.any_eq_false]
    intro res hres'
    obtain ⟨p, hp, rfl⟩ := List.mem_map.mp hres'
    obtain ⟨hp1, _⟩ := List.mem_filter.mp hp
    simp only [(hitem p hp1).2.1, bne_self_eq_false, Bool.false_eq_true, not_false_eq_true]
  simp only [hany, Bool.false_eq_true, if_false, storedWrites, filledWrites, List.map_map, List.map_append,
    Option.some.injEq]
  congr 1
  apply List.map_congr_left
  intro p hp
  obtain ⟨hp1, hp2⟩ := List.mem_filter.mp hp
  simp only [Bool.not_eq_true'] at hp2
  simp only [Function.comp, (hitem p hp1).2.2.2 hp2]

/-- one region of the async decoder on a served shard is the region of the assembled shard, whatever the buffer held -/
theorem asyncShardRegionFrom_ok (S : Served fixed shard inner es fill innerPD h entries xss) (r : Subset)
    (hr : r.wf = true) (hb : r.inboundsShape shard = true) (junk : List Elem) (hj : junk.length = r.numElements) :
    asyncShardRegionFrom junk fixed es fill inner (zipDiv shard inner) entries innerPD h r =
      some (r.extract shard (assemble shard inner xss)) := by
  have ht := S.tiles
  have hb' := hb
  simp only [Subset.inboundsShape, Subset.rank, Bool.and_eq_true, beq_iff_eq] at hb'
  have hr' := hr
  simp only [Subset.wf, beq_iff_eq] at hr'
  have hcl : inner.length = r.rank := by
    have := tiles_length ht; simp only [Subset.rank]; omega
  unfold asyncShardRegionFrom
  rw [asyncWrites_served S r hr hb]
  simp only [Option.map_some, applyViewWrites, List.foldl_map, Option.some.injEq]
  generalize hL : ((r.chunks inner).filter (liveAt (zipDiv shard inner) entries)) ++
             ((r.chunks inner).filter (fun p => !liveAt (zipDiv shard inner) entries p)) = L
  have hmem : ∀ p, p ∈ L ↔ p ∈ r.chunks inner := by
    intro p
    rw [← hL, List.mem_append, List.mem_filter, List.mem_filter]
    constructor
    · rintro (⟨h1, _⟩ | ⟨h1, _⟩) <;> exact h1
    · intro h1
      cases hl : liveAt (zipDiv shard inner) entries p
      · exact Or.inr ⟨h1, by simp [hl]⟩
      · exact Or.inl ⟨h1, rfl⟩
  obtain ⟨out, hfold, hl, hp⟩ := foldOpt_readG (shardElem inner (zipDiv shard inner) xss) r
    (fun out (p : Idx × Subset) => some (updateRuns r.shape ((r.overlap p.2).relativeTo r.start) out
      (AArr.read (shardElem inner (zipDiv shard inner) xss) (r.overlap p.2))))
    (fun p i => r.contains i && p.2.contains i) L
    (fun p hp out hout => by
      obtain ⟨_, _, _, _, _, hovwf, hovrank, hovne, hov, _⟩ :=
        chunk_item_facts S.tiles r hr hb p ((hmem p).mp hp)
      have hsub2 : ∀ i, (r.overlap p.2).contains i = true → r.contains i = true := by
        intro i hi; rw [hov, Bool.and_eq_true] at hi; exact hi.1
      obtain ⟨hl, hpp⟩ := updateRuns_read_step (shardElem inner (zipDiv shard inner) xss) r (r.overlap p.2)
        hr hovwf hovrank hovne hsub2 out hout
      refine ⟨_, rfl, hl, ?_⟩
      intro j hj
      rw [hpp j hj, hov])
    junk hj
  rw [foldOpt_some_foldl'] at hfold
  simp only [Option.some.injEq] at hfold
  rw [hfold, assemble, extract_tabulate _ r shard hr hb]
  apply ArrCfg.read_of_all _ r out hl
  intro j hj
  rw [hp j hj, if_pos]
  have hri : r.contains (addIdx j r.start) = true := mem_addIdx j r.start r.shape hr' hj
  have hin : inB (addIdx j r.start) shard = true := inB_of_allLe_end _ _ _ shard hb'.1 hb'.2 hri
  obtain ⟨_, hm, _, _⟩ := cell_of_inB ht _ hin
  rw [List.any_eq_true]
  refine ⟨(zipDiv (addIdx j r.start) inner, ⟨zipMul (zipDiv (addIdx j r.start) inner) inner, inner⟩), ?_, ?_⟩
  · rw [hmem, mem_chunks]
    refine ⟨?_, rfl⟩
    rw [(r.chunkBox inner).mem_indices (r.chunkBox_wf inner hr hcl)]
    apply (r.contains_chunkBox inner hr hcl (tiles_pos ht) _).mpr
    refine ⟨?_, addIdx j r.start, hri, hm⟩
    have := inB_length hin
    simp only [zipDiv_length, Subset.rank] at hcl ⊢
    omega
  · simp only [hri, Bool.true_and]
    exact hm

/-- the hypotheses of `shardPD_ok` give a served shard (the first half of the proof of `shardPD_ok'`) -/
theorem served_of_legal (cfg : Shard.Cfg) (shard inner : Shape) (es : Nat) (fill : Elem)
    (fixed : Option Nat) (innerPD : Shape → Elem → BHandle → AHandle) (encodes : List Elem → Bytes → Prop)
    (h : BHandle) (v : Bytes) (chunks : List (Option Bytes)) (xss : List (List Elem))
    (ht : tiles inner shard = true) (hn : cfg.nChunks = prod (zipDiv shard inner)) (hfill : fill.length = es)
    (hh : BHandleOk h v) (hlegal : Shard.Legal cfg v chunks) (hxl : xss.length = cfg.nChunks)
    (hx : ∀ i (h1 : i < chunks.length) (h2 : i < xss.length),
      match chunks[i] with
      | some b => encodes xss[i] b ∧ (xss[i].length = prod inner ∧ ∀ x ∈ xss[i], x.length = es)
      | none => xss[i] = List.replicate (prod inner) fill)
    (hinner : ∀ g b xs, encodes xs b → BHandleOk g b → AHandleOk (innerPD inner fill g) inner xs)
    (hfixed : ∀ n, fixed = some n → ∀ xs b, encodes xs b → b.length = n) :
    ∃ ib entries, Shard.indexBytes cfg v = some ib ∧ Shard.decodeIndex cfg true ib = .ok entries ∧
      Served fixed shard inner es fill innerPD h entries xss := by
  obtain ⟨hcl, ib, entries, hib, hdec, hel, hcell, _⟩ := hlegal
  refine ⟨ib, entries, hib, hdec, ht, by rw [hel, hn], by rw [hxl, hn], hfill, ?_⟩
  intro k e xs hke hkx
  obtain ⟨hk, hke'⟩ := List.getElem?_eq_some_iff.mp hke
  obtain ⟨hk2, hkx'⟩ := List.getElem?_eq_some_iff.mp hkx
  have hkc : k < chunks.length := by omega
  have h1 := hcell k hk hkc
  have h2 := hx k hkc hk2
  rw [hke'] at h1
  rw [hkx'] at h2
  cases hc : chunks[k] with
  | none =>
    rw [hc] at h1 h2
    exact Or.inl ⟨h1, h2⟩
  | some b =>
    rw [hc] at h1 h2
    obtain ⟨hlive, hsz, hle, hsl, _⟩ := h1
    have hso : sizeOk fixed e.2 = true := by
      cases hfx : fixed with
      | none => rfl
      | some n => simp only [sizeOk, beq_iff_eq]; rw [hsz]; exact hfixed n hfx xs b h2.1
    refine Or.inr ⟨hlive, hso, h2.2.1, h2.2.2, ?_⟩
    apply hinner _ b xs h2.1
    rw [← hsl]
    exact byteIntervalPD_ok h v e.1 e.2 hh hle

theorem asyncShardPD_ok' (cfg : Shard.Cfg) (validate : Bool) (shard inner : Shape) (es : Nat) (fill : Elem)
    (fixed : Option Nat) (innerPD : Shape → Elem → BHandle → AHandle) (encodes : List Elem → Bytes → Prop)
    (h : BHandle) (v : Bytes) (chunks : List (Option Bytes)) (xss : List (List Elem))
    (ht : tiles inner shard = true) (hn : cfg.nChunks = prod (zipDiv shard inner)) (hfill : fill.length = es)
    (hh : BHandleOk h v) (hlegal : Shard.Legal cfg v chunks) (hxl : xss.length = cfg.nChunks)
    (hx : ∀ i (h1 : i < chunks.length) (h2 : i < xss.length),
      match chunks[i] with
      | some b => encodes xss[i] b ∧ (xss[i].length = prod inner ∧ ∀ x ∈ xss[i], x.length = es)
      | none => xss[i] = List.replicate (prod inner) fill)
    (hinner : ∀ g b xs, encodes xs b → BHandleOk g b → AHandleOk (innerPD inner fill g) inner xs)
    (hfixed : ∀ n, fixed = some n → ∀ xs b, encodes xs b → b.length = n) :
    AHandleOk (asyncShardPD cfg validate shard inner es fill fixed innerPD h) shard (assemble shard inner xss) := by
  obtain ⟨ib, entries, hib, hdec, S⟩ := served_of_legal cfg shard inner es fill fixed innerPD encodes h v chunks xss
    ht hn hfill hh hlegal hxl hx hinner hfixed
  intro rs hrs
  unfold asyncShardPD
  rw [shardIndexPD_legal cfg validate ht hn v ib hh hib hdec]
  simp only [rank_check shard rs hrs, Bool.false_eq_true, if_false, chunksPerShard_of_tiles ht]
  apply mapM_some_of_forall
  intro r hr
  exact asyncShardRegionFrom_ok S r (hrs r hr).1 (hrs r hr).2 _ (by simp)

theorem asyncShardPD_absent' (cfg : Shard.Cfg) (validate : Bool) (shard inner : Shape) (es : Nat) (fill : Elem)
    (fixed : Option Nat) (innerPD : Shape → Elem → BHandle → AHandle) (h : BHandle)
    (ht : tiles inner shard = true) (hh : BHandleAbsent h) (rs : List Subset)
    (hrs : ∀ r ∈ rs, r.wf = true ∧ r.rank = shard.length) :
    asyncShardPD cfg validate shard inner es fill fixed innerPD h rs =
      some (rs.map (fun r => List.replicate r.numElements fill)) := by
  unfold asyncShardPD
  rw [shardIndexPD_absent cfg validate ht hh]
  have : rs.any (fun r => !r.wf || r.rank != shard.length) = false := by
    rw [List.any_eq_false]
    intro r hr
    simp [(hrs r hr).1, (hrs r hr).2]
  simp only [this, Bool.false_eq_true, if_false]

end Zarrs.Partial
