import ZarrsModel.Lemmas.PartialArray
import ZarrsModel.Lemmas.CodecTranspose
/- helper lemmas for C02, part 4: the `transpose` partial decoder -/
namespace Zarrs.Partial
open Zarrs Zarrs.Codec

/-! ### `addIdx` / `allLe` under a permutation -/

theorem addIdx_map {α} (l : List α) (f g : α → Nat) :
    addIdx (l.map f) (l.map g) = l.map (fun a => f a + g a) := by
  induction l with
  | nil => rfl
  | cons a l ih => simp [addIdx, ih]

theorem addIdx_getD (i st : List Nat) (h : i.length = st.length) (a : Nat) :
    (addIdx i st).getD a 0 = i.getD a 0 + st.getD a 0 := by
  induction i generalizing st a with
  | nil =>
    cases st with
    | nil => simp [addIdx]
    | cons y ys => simp at h
  | cons x xs ih =>
    cases st with
    | nil => simp at h
    | cons y ys =>
      simp only [List.length_cons, Nat.add_right_cancel_iff] at h
      cases a with
      | zero => simp [addIdx]
      | succ a => simpa [addIdx] using ih ys h a

theorem addIdx_permute (i st : List Nat) (order : List Nat) (h : i.length = st.length) :
    addIdx (permute i order) (permute st order) = permute (addIdx i st) order := by
  unfold permute
  rw [addIdx_map]
  apply List.map_congr_left
  intro a _
  exact (addIdx_getD i st h a).symm

theorem allLe_getD (x y : List Nat) (h : x.length = y.length) (hle : Subset.allLe x y = true) (a : Nat) :
    x.getD a 0 ≤ y.getD a 0 := by
  induction x generalizing y a with
  | nil => cases y <;> simp
  | cons p ps ih =>
    cases y with
    | nil => simp at h
    | cons q qs =>
      simp only [List.length_cons, Nat.add_right_cancel_iff] at h
      simp only [Subset.allLe, Bool.and_eq_true, decide_eq_true_eq] at hle
      cases a with
      | zero => simpa using hle.1
      | succ a => simpa using ih qs h hle.2 a

theorem allLe_map {α} (l : List α) (f g : α → Nat) (h : ∀ a ∈ l, f a ≤ g a) :
    Subset.allLe (l.map f) (l.map g) = true := by
  induction l with
  | nil => rfl
  | cons a l ih =>
    simp only [List.map_cons, Subset.allLe, Bool.and_eq_true, decide_eq_true_eq]
    exact ⟨h a (by simp), ih (fun a' ha' => h a' (by simp [ha']))⟩

theorem allLe_permute (x y order : List Nat) (h : x.length = y.length) (hle : Subset.allLe x y = true) :
    Subset.allLe (permute x order) (permute y order) = true := by
  unfold permute
  exact allLe_map order _ _ (fun a _ => allLe_getD x y h hle a)

/-- the region `TransposePartialDecoder` asks the inner decoder for -/
def permRegion (order : List Nat) (r : Subset) : Subset := ⟨permute r.start order, permute r.shape order⟩

theorem permRegion_ok (order : List Nat) (sh : Shape) (r : Subset)
    (hr : r.wf = true) (hb : r.inboundsShape sh = true) :
    (permRegion order r).wf = true ∧ (permRegion order r).inboundsShape (permute sh order) = true := by
  simp only [Subset.wf, beq_iff_eq] at hr
  simp only [Subset.inboundsShape, Subset.rank, Subset.endExc, Bool.and_eq_true, beq_iff_eq] at hb
  refine ⟨by simp [permRegion, Subset.wf, permute_length], ?_⟩
  simp only [permRegion, Subset.inboundsShape, Subset.rank, Subset.endExc, permute_length, beq_self_eq_true,
    Bool.true_and]
  rw [addIdx_permute _ _ _ hr]
  exact allLe_permute _ _ _ (by rw [addIdx_length, ← hr, Nat.min_self, hb.1]) hb.2

/-! ### un-transposing the transposed region -/

theorem transposeDec_extract (order : List Nat) (sh : Shape) (xs : List Elem) (r : Subset)
    (ho : validOrder order sh.length = true) (hx : xs.length = prod sh)
    (hr : r.wf = true) (hb : r.inboundsShape sh = true) :
    transposeDec order r.shape ((permRegion order r).extract (permute sh order) (transposeEnc order sh xs)) =
      r.extract sh xs := by
  obtain ⟨hl, hc⟩ := (validOrder_iff _ _).1 ho
  have hc' : ∀ a, a < order.length → a ∈ order := by rw [hl]; exact hc
  have hlt := validOrder_lt ho
  obtain ⟨hw', hb'⟩ := permRegion_ok order sh r hr hb
  have hx' : (transposeEnc order sh xs).length = prod (permute sh order) := transposeEnc_length _ _ _
  obtain ⟨hl1, hp1⟩ := extract_spec' (permRegion order r) (permute sh order) _ hw' hb' hx'
  obtain ⟨hl2, hp2⟩ := extract_spec' r sh xs hr hb hx
  have hrw := hr
  simp only [Subset.wf, beq_iff_eq] at hrw
  have hbb := hb
  simp only [Subset.inboundsShape, Subset.rank, Subset.endExc, Bool.and_eq_true, beq_iff_eq] at hbb
  have hrl : r.shape.length = sh.length := by rw [← hrw, hbb.1]
  apply list_ext_box r.shape _ _ (transposeDec_length _ _ _) hl2
  intro i hi
  have hil : i.length = r.start.length := by rw [inB_length hi, hrw]
  -- the element index in the chunk
  have hm : inB (addIdx i r.start) sh = true :=
    inB_of_allLe_end _ r.start r.shape sh hbb.1 hbb.2 (mem_addIdx i r.start r.shape hrw hi)
  have hm' : inB (permute (addIdx i r.start) order) (permute sh order) = true :=
    inB_permute _ sh order hlt hm
  have hi' : inB (permute i order) (permRegion order r).shape = true :=
    inB_permute i r.shape order (by rw [hrl]; exact hlt) hi
  have hlt2 : ravel (addIdx i r.start) sh < xs.length := by rw [hx]; exact ravel_lt _ _ hm
  rw [transposeDec_getElem? _ _ _ _ hi, hp2 i hi, List.getD_eq_getElem?_getD]
  have := hp1 (permute i order) hi'
  rw [show (permRegion order r).shape = permute r.shape order from rfl,
    show (permRegion order r).start = permute r.start order from rfl] at this
  rw [this, addIdx_permute i r.start order hil, transposeEnc_getElem? _ _ _ _ hm',
    permute_permute_inv _ order (by rw [inB_length hm, hl]) hc']
  simp [List.getD_eq_getElem?_getD, List.getElem?_eq_getElem hlt2]

theorem transposePD_ok' (order : List Nat) (sh : Shape) (h : AHandle) (xs : List Elem)
    (ho : validOrder order sh.length = true) (hx : xs.length = prod sh)
    (hh : AHandleOk h (permute sh order) (transposeEnc order sh xs)) :
    AHandleOk (transposePD order h) sh xs := by
  obtain ⟨hl, _⟩ := (validOrder_iff _ _).1 ho
  intro rs hrs
  show (match h (rs.map (permRegion order)) with
    | none => none
    | some parts => some ((rs.zip parts).map (fun (x : Subset × List Elem) => transposeDec order x.1.shape x.2))) = _
  rw [hh (rs.map (permRegion order)) (by
    intro r hr
    obtain ⟨r', hr', rfl⟩ := List.mem_map.mp hr
    exact permRegion_ok order sh r' (hrs r' hr').1 (hrs r' hr').2)]
  simp only [List.map_map]
  rw [zip_map_map]
  congr 1
  apply List.map_congr_left
  intro r hr
  exact transposeDec_extract order sh xs r ho hx (hrs r hr).1 (hrs r hr).2

/-- every element of the transposed chunk is an element of the chunk -/
theorem mem_transposeEnc (order : List Nat) (sh : Shape) (xs : List Elem)
    (ho : validOrder order sh.length = true) (hx : xs.length = prod sh) :
    ∀ y ∈ transposeEnc order sh xs, y ∈ xs := by
  obtain ⟨hl, hc⟩ := (validOrder_iff _ _).1 ho
  have hc' : ∀ a, a < order.length → a ∈ order := by rw [hl]; exact hc
  intro y hy
  simp only [transposeEnc, List.mem_map, mem_boxIndices] at hy
  obtain ⟨j, hj, rfl⟩ := hy
  have hlt : ravel (permute j (inverseOrder order)) sh < xs.length := by
    rw [hx]; exact ravel_lt _ _ (inB_permute_inv j sh order hl hc' hj)
  rw [List.getD_eq_getElem?_getD, List.getElem?_eq_getElem hlt]
  exact List.getElem_mem hlt

end Zarrs.Partial
