import ZarrsModel.Model.ShardPD
import ZarrsModel.Lemmas.Array
import ZarrsModel.Lemmas.PartialArray
set_option Elab.async false
/- helper lemmas for C02 (sharding partial decoder), part 1: the regular inner grid of a shard -/
namespace Zarrs.Partial
open Zarrs Zarrs.Subset

/-- the inner chunk shape `inner` tiles the shard shape: equal ranks, positive inner extents, every shard extent a
multiple of the inner extent (what `calculate_chunks_per_shard` demands) -/
def tiles : Shape → Shape → Bool
  | [], [] => true
  | c :: cs, s :: ss => decide (0 < c) && (s % c == 0) && tiles cs ss
  | _, _ => false

theorem tiles_length {inner shard : Shape} (h : tiles inner shard = true) : inner.length = shard.length := by
  induction inner generalizing shard with
  | nil => cases shard <;> simp_all [tiles]
  | cons c cs ih =>
    cases shard with
    | nil => simp [tiles] at h
    | cons s ss =>
      simp only [tiles, Bool.and_eq_true] at h
      simp [ih h.2]

theorem tiles_pos {inner shard : Shape} (h : tiles inner shard = true) : ∀ k ∈ inner, 0 < k := by
  induction inner generalizing shard with
  | nil => simp
  | cons c cs ih =>
    cases shard with
    | nil => simp [tiles] at h
    | cons s ss =>
      simp only [tiles, Bool.and_eq_true, decide_eq_true_eq] at h
      intro k hk
      rcases List.mem_cons.mp hk with rfl | hk
      · exact h.1.1
      · exact ih h.2 k hk

theorem chunksPerShard_of_tiles {inner shard : Shape} (h : tiles inner shard = true) :
    chunksPerShard shard inner = some (zipDiv shard inner) := by
  induction inner generalizing shard with
  | nil => cases shard <;> simp_all [tiles, chunksPerShard, zipDiv]
  | cons c cs ih =>
    cases shard with
    | nil => simp [tiles] at h
    | cons s ss =>
      simp only [tiles, Bool.and_eq_true, decide_eq_true_eq, beq_iff_eq] at h
      have hc : (c == 0) = false := by simp; omega
      simp [chunksPerShard, hc, h.1.2, ih h.2, zipDiv]

theorem prod_tiles {inner shard : Shape} (h : tiles inner shard = true) :
    prod shard = prod (zipDiv shard inner) * prod inner := by
  induction inner generalizing shard with
  | nil => cases shard <;> simp_all [tiles, zipDiv, prod]
  | cons c cs ih =>
    cases shard with
    | nil => simp [tiles] at h
    | cons s ss =>
      simp only [tiles, Bool.and_eq_true, decide_eq_true_eq, beq_iff_eq] at h
      simp only [zipDiv, prod, ih h.2]
      have : s = s / c * c := by
        have := Nat.div_add_mod s c
        rw [h.1.2] at this
        rw [Nat.mul_comm]; omega
      calc s * (prod (zipDiv ss cs) * prod cs) = (s / c * c) * (prod (zipDiv ss cs) * prod cs) := by rw [← this]
        _ = _ := by simp only [Nat.mul_assoc, Nat.mul_left_comm, Nat.mul_comm]

/-- the inner chunk holding an in-bounds index of the shard: its grid index is in bounds of the inner grid, the index
lies in the chunk's box and its position inside the chunk is the remainder -/
theorem cell_of_inB {inner shard : Shape} (h : tiles inner shard = true) (i : Idx) (hi : inB i shard = true) :
    inB (zipDiv i inner) (zipDiv shard inner) = true ∧
    mem i (zipMul (zipDiv i inner) inner) inner = true ∧
    zipSub i (zipMul (zipDiv i inner) inner) = zipMod i inner ∧
    inB (zipMod i inner) inner = true := by
  induction inner generalizing shard i with
  | nil =>
    cases shard with
    | nil => cases i <;> simp_all [inB, zipDiv, zipMul, mem, zipSub, zipMod]
    | cons _ _ => simp [tiles] at h
  | cons c cs ih =>
    cases shard with
    | nil => simp [tiles] at h
    | cons s ss =>
      cases i with
      | nil => simp [inB] at hi
      | cons x xs =>
        simp only [tiles, Bool.and_eq_true, decide_eq_true_eq, beq_iff_eq] at h
        simp only [inB, Bool.and_eq_true, decide_eq_true_eq] at hi
        obtain ⟨h1, h2, h3, h4⟩ := ih h.2 xs hi.2
        have hc := h.1.1
        have hdm := Nat.div_add_mod x c
        have hml : x % c < c := Nat.mod_lt x hc
        have hsd : s = c * (s / c) := by
          have := Nat.div_add_mod s c
          rw [h.1.2] at this; omega
        have hlt : x / c < s / c := by
          apply (Nat.div_lt_iff_lt_mul hc).mpr
          rw [Nat.mul_comm]; omega
        have hmul : x / c * c = c * (x / c) := Nat.mul_comm _ _
        simp only [zipDiv, zipMul, zipSub, zipMod, inB, mem, Bool.and_eq_true, decide_eq_true_eq, h1, h2, h3, h4,
          and_true, List.cons.injEq]
        refine ⟨hlt, ⟨by omega, by omega⟩, by omega, hml⟩

/-- an index lies in the box of at most one inner chunk -/
theorem cell_unique (inner : Shape) (hpos : ∀ k ∈ inner, 0 < k) (i c : Idx)
    (hm : mem i (zipMul c inner) inner = true) (hc : c.length = inner.length) : c = zipDiv i inner := by
  induction inner generalizing i c with
  | nil => cases c <;> simp_all [zipDiv] <;> cases i <;> simp [zipDiv]
  | cons k ks ih =>
    cases c with
    | nil => simp at hc
    | cons c0 ct =>
      cases i with
      | nil => simp [zipMul, mem] at hm
      | cons x xs =>
        simp only [zipMul, mem, Bool.and_eq_true, decide_eq_true_eq] at hm
        simp only [List.length_cons, Nat.add_right_cancel_iff] at hc
        have hk : 0 < k := hpos k (by simp)
        have := ih (fun k' hk' => hpos k' (by simp [hk'])) xs ct hm.2 hc
        simp only [zipDiv, List.cons.injEq]
        refine ⟨?_, this⟩
        symm
        apply Nat.div_eq_of_lt_le
        · exact hm.1.1
        · rw [Nat.add_mul]; omega

/-- `extract` of the tabulated array is `read` -/
theorem extract_tabulate {α} (a : AArr α) (r : Subset) (sh : Shape) (hr : r.wf = true)
    (hb : r.inboundsShape sh = true) :
    r.extract sh ((boxIndices sh).map a) = a.read r := by
  have hx : ((boxIndices sh).map a).length = prod sh := by simp [boxIndices_length]
  obtain ⟨hl, hp⟩ := extract_spec' r sh _ hr hb hx
  apply list_ext_box r.shape _ _ hl (a.read_length r)
  intro j hj
  rw [hp j hj, a.read_getElem?_box r j hj]
  have hr' := hr
  simp only [Subset.wf, beq_iff_eq] at hr'
  have hb' := hb
  simp only [Subset.inboundsShape, Subset.rank, Bool.and_eq_true, beq_iff_eq] at hb'
  have hin : inB (addIdx j r.start) sh = true :=
    inB_of_allLe_end _ r.start r.shape sh hb'.1 hb'.2 (mem_addIdx j r.start r.shape hr' hj)
  rw [List.getElem?_map, boxIndices_getElem?_ravel _ _ hin]
  rfl

end Zarrs.Partial
