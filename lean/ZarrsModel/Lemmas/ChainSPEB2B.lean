import ZarrsModel.Lemmas.ChainSPEPlan
set_option Elab.async false
/- helper lemmas for C05 on chains, part 9: the default partial encoders of lawful bytes-to-bytes codecs -/
namespace Zarrs.Partial
open Zarrs Zarrs.Codec Zarrs.Shard Zarrs.ShardPE

/-- a lawful bytes-to-bytes codec (no cache): decoding inverts encoding, its partial decoder serves the decoded value -/
def BOk (st : BStage) : Prop := BDec st ∧ BLaw st ∧ st.isCache = false

theorem readWhole_ok (h : BHandle) (v : Bytes) (hh : BHandleOk h v) : readWhole h = some (some v) := by
  unfold readWhole
  rw [hh [ByteRange.fromStart 0 none] (by
    intro r hr; rw [List.mem_singleton.mp hr]; simp [ByteRange.valid])]
  simp only [List.map_cons, List.map_nil, ByteRange.extract, ByteRange.start, ByteRange.stop, slice_full]

theorem readWhole_absent (h : BHandle) (hh : BHandleAbsent h) : readWhole h = some none := by
  unfold readWhole
  rw [hh _]

theorem bStack_ok (b2b : List BStage) (hb : ∀ st ∈ b2b, BOk st) (d : Bytes) :
    BHandleOk (bStack b2b (some (encB b2b d))) d :=
  bChain_ok b2b (fun st hst => (hb st hst).2.1) d _ (storeHandle_some_ok _)

theorem bStack_absent (b2b : List BStage) : BHandleAbsent (bStack b2b none) :=
  bChain_absent b2b _ storeHandle_none_absent

/-- `resize` to the end of the writes, then the writes = the writes on the value cut at that end -/
theorem resizeWrites_eq (d : Bytes) (ws : List (Nat × Bytes)) :
    resizeWrites d ws = specFold (d.take (endMax ws 0)) ws := by
  have hbase : d.take (endMax ws 0) ++ List.replicate (endMax ws 0 - d.length) 0 =
      zeroExtend (d.take (endMax ws 0)) (endMax ws 0) := by
    unfold zeroExtend
    congr 2
    rw [List.length_take]
    omega
  have hstep : ∀ (g : List (Nat × Bytes)) (x : Bytes) (L : Nat), (∀ ov ∈ g, ov.1 + ov.2.length ≤ L) →
      g.foldl (fun acc (w : Nat × Bytes) => specSetPartial acc w.1 w.2) (zeroExtend x L) =
        zeroExtend (specFold x g) L := by
    intro g
    induction g with
    | nil => intro x L _; rfl
    | cons ov g ih =>
      intro x L h
      have h1 := h ov (by simp)
      rw [List.foldl_cons]
      have : specSetPartial (zeroExtend x L) ov.1 ov.2 = zeroExtend (specSetPartial x ov.1 ov.2) L := by
        unfold specSetPartial
        rw [zeroExtend_of_le (zeroExtend x L) _ (by rw [zeroExtend_length]; omega)]
        exact overwrite_zeroExtend x ov.2 ov.1 L h1
      rw [this, ih _ L (fun ov' h' => h ov' (by simp [h']))]
      rfl
  show ws.foldl (fun acc (w : Nat × Bytes) => specSetPartial acc w.1 w.2)
    (d.take (endMax ws 0) ++ List.replicate (endMax ws 0 - d.length) 0) = _
  rw [hbase, hstep ws _ _ (fun ov h => mem_le_endMax ws 0 ov h), zeroExtend_of_le]
  rw [specFold_length]
  exact endMax_mono ws 0 _ (Nat.zero_le _)

theorem resizeWrites_nil_one (y : Bytes) : resizeWrites [] [(0, y)] = y := by
  rw [resizeWrites_eq]
  simp only [List.take_nil, specFold, List.foldl_cons, List.foldl_nil]
  exact specSetPartial_nil y

/-- a whole value written from nothing through lawful codecs is its encoding -/
theorem bWrite_none_one (b2b : List BStage) (hb : ∀ st ∈ b2b, BOk st) :
    ∀ y : Bytes, bWrite b2b none [(0, y)] = some (some (encB b2b y)) := by
  induction b2b with
  | nil =>
    intro y
    simp only [bWrite, List.foldl_cons, List.foldl_nil, writeAt, Option.getD_none, specSetPartial_nil]
    rfl
  | cons st rest ih =>
    intro y
    obtain ⟨_, _, hnc⟩ := hb st (by simp)
    have hbody : bWrite (st :: rest) none [(0, y)] = bWrite rest none [(0, st.enc (resizeWrites [] [(0, y)]))] := by
      have hcore : (match readWhole (bStack rest none) with
          | none => none
          | some cur =>
            match (match cur with
                   | none => some []
                   | some e => st.dec e) with
            | none => none
            | some d =>
              if ([(0, y)] : List (Nat × Bytes)).isEmpty then none
              else bWrite rest none [(0, st.enc (resizeWrites d [(0, y)]))]) =
          bWrite rest none [(0, st.enc (resizeWrites [] [(0, y)]))] := by
        rw [readWhole_absent _ (bStack_absent rest)]
        rfl
      cases st with
      | cache => simp [BStage.isCache] at hnc
      | stripSuffix n s => exact hcore
      | decodeAll e d => exact hcore
    rw [hbody, resizeWrites_nil_one, ih (fun s hs => hb s (by simp [hs]))]
    rfl

/-- writes through at least one lawful codec: decode, resize and copy, encode -/
theorem bWrite_cons (st : BStage) (rest : List BStage) (hb : ∀ s ∈ st :: rest, BOk s) (v0 : Option Bytes)
    (ws : List (Nat × Bytes)) (hws : ws ≠ []) :
    bWrite (st :: rest) (v0.map (encB (st :: rest))) ws =
      some (some (encB (st :: rest) (resizeWrites (v0.getD []) ws))) := by
  obtain ⟨hdec, _, hnc⟩ := hb st (by simp)
  have hrest : ∀ s ∈ rest, BOk s := fun s hs => hb s (by simp [hs])
  have hne : ws.isEmpty = false := by cases ws with
    | nil => exact absurd rfl hws
    | cons _ _ => rfl
  have hbody : bWrite (st :: rest) (v0.map (encB (st :: rest))) ws =
      bWrite rest none [(0, st.enc (resizeWrites (v0.getD []) ws))] := by
    have hcore : (match readWhole (bStack rest (v0.map (encB (st :: rest)))) with
        | none => none
        | some cur =>
          match (match cur with
                 | none => some []
                 | some e => st.dec e) with
          | none => none
          | some d =>
            if ws.isEmpty then none
            else bWrite rest none [(0, st.enc (resizeWrites d ws))]) =
        bWrite rest none [(0, st.enc (resizeWrites (v0.getD []) ws))] := by
      cases v0 with
      | none =>
        simp only [Option.map_none, readWhole_absent _ (bStack_absent rest), hne, Bool.false_eq_true, if_false,
          Option.getD_none]
      | some d =>
        simp only [Option.map_some, encB_cons, readWhole_ok _ _ (bStack_ok rest hrest (st.enc d)), hdec d, hne,
          Bool.false_eq_true, if_false, Option.getD_some]
    cases st with
    | cache => simp [BStage.isCache] at hnc
    | stripSuffix n s => exact hcore
    | decodeAll e d => exact hcore
  rw [hbody, bWrite_none_one rest hrest]
  rfl

end Zarrs.Partial
