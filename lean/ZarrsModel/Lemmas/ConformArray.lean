import ZarrsModel.Lemmas.ConformChunk
import ZarrsModel.Lemmas.Keys
/- helper lemmas for C12, part 3: whole arrays (keys of distinct chunks differ; read of write) -/
namespace Zarrs.Conform
open Zarrs Zarrs.Codec Zarrs.Inflate

/-- distinct chunk coordinates of equal rank get distinct keys (as Props/C11 `encode_injective`) -/
theorem encode_inj (e : Keys.Enc) (sep : Char) (hs : Keys.isSep sep = true) (a b : List Nat)
    (hl : a.length = b.length) (h : Keys.encode e sep a = Keys.encode e sep b) : a = b := by
  have hfree : ∀ (l : List Nat), ∀ x ∈ l.map Keys.decimal, ∀ c ∈ x, c ≠ sep := by
    intro l x hx c hc
    rw [List.mem_map] at hx
    obtain ⟨n, _, rfl⟩ := hx
    exact Keys.isDigit_ne_sep hs (Keys.isDigit_of_mem_decimal hc)
  have hj : Keys.joinSep sep (a.map Keys.decimal) = Keys.joinSep sep (b.map Keys.decimal) → a = b := fun hj =>
    Keys.map_decimal_inj (Keys.joinSep_inj (by simpa using hl) (hfree a) (hfree b) hj)
  match a, b, hl with
  | [], [], _ => rfl
  | x :: a, y :: b, hl =>
    apply hj
    cases e <;> simpa [Keys.encode] using h

theorem isSep_of (sep : Char) (h : sep = '/' ∨ sep = '.') : Keys.isSep sep = true := by
  rcases h with rfl | rfl <;> decide

theorem key_inj (path : List Char) (e : Keys.Enc) (sep : Char) (hs : sep = '/' ∨ sep = '.') (grid : Shape) :
    ∀ a ∈ boxIndices grid, ∀ b ∈ boxIndices grid,
      Keys.dataKey path (Keys.encode e sep a) = Keys.dataKey path (Keys.encode e sep b) → a = b := by
  intro a ha b hb h
  rw [mem_boxIndices] at ha hb
  exact encode_inj e sep (isSep_of sep hs) a b ((inB_length ha).trans (inB_length hb).symm) (Keys.dataKey_inj path h)

/-- the generic read-of-write argument, for any chunk codec that round-trips the chunks of this array -/
theorem array_roundtrip (shape chunk : Shape) (hl : chunk.length = shape.length) (hpos : ∀ d ∈ chunk, 0 < d)
    (fill : Elem) (xs : List Elem) (hx : xs.length = prod shape) (key : Idx → List Char)
    (hkey : ∀ a ∈ boxIndices (gridOf shape chunk), ∀ b ∈ boxIndices (gridOf shape chunk), key a = key b → a = b)
    (enc : List Elem → Bytes) (dec : Bytes → Option (List Elem))
    (hdec : ∀ c ∈ boxIndices (gridOf shape chunk),
      dec (enc (subBox shape chunk xs c fill)) = some (subBox shape chunk xs c fill)) :
    (match (boxIndices (gridOf shape chunk)).mapM (fun c =>
        match Store.get ((boxIndices (gridOf shape chunk)).filterMap (fun c =>
            let part := subBox shape chunk xs c fill
            if part.all (· == fill) then none else some (key c, enc part))) (key c) with
        | none => some (List.replicate (prod chunk) fill)
        | some v => dec v) with
      | some parts => some (assemble shape chunk parts fill)
      | none => none) = some xs := by
  have hget : ∀ c ∈ boxIndices (gridOf shape chunk),
      Store.get ((boxIndices (gridOf shape chunk)).filterMap (fun c =>
        let part := subBox shape chunk xs c fill
        if part.all (· == fill) then none else some (key c, enc part))) (key c) =
      if (subBox shape chunk xs c fill).all (· == fill) then none else some (enc (subBox shape chunk xs c fill)) :=
    fun c hc => get_filterMap key (fun c => (subBox shape chunk xs c fill).all (· == fill))
      (fun c => enc (subBox shape chunk xs c fill)) _ c (fun a ha h => hkey a ha c hc h) hc
  rw [mapM_some_of_forall _ (fun c => subBox shape chunk xs c fill)]
  · simp only
    rw [assemble_subBox shape chunk hl hpos xs hx fill]
  · intro c hc
    rw [hget c hc]
    by_cases hall : (subBox shape chunk xs c fill).all (· == fill) = true
    · simp only [hall, if_true]
      rw [eq_replicate_of_all fill _ hall, subBox_length]
    · simp only [hall, Bool.false_eq_true, if_false]
      exact hdec c hc

end Zarrs.Conform
