import ZarrsModel.Model.FsConc
import ZarrsModel.Lemmas.FsConcInv
/- C17: every finished execution of the repaired (`.fixed`) per-key RwLock protocol of `FilesystemStore` is
linearizable; the linearization is the history itself (response order). -/
namespace Zarrs.FsConc
open Zarrs Zarrs.MemConc

/-! ### unfolding one step of `history.go` -/

/-- the invocation time `history.go` attributes to the operation thread `t` is executing at step `time` -/
def invOf (invs : List (Option Nat)) (t time : Nat) : Nat :=
  match invs.getD t none with | some i => i | none => time

theorem invOf_le (invs : List (Option Nat)) (t time : Nat) (h : ∀ i, invs.getD t none = some i → i < time) :
    invOf invs t time ≤ time := by
  unfold invOf
  split
  · rename_i i hi; exact Nat.le_of_lt (h i hi)
  · exact Nat.le_refl _

theorem go_disabled (ps : FsConc.Progs) (s : FsConc.State) (time : Nat) (invs : List (Option Nat)) (acc : List Done)
    (t : Nat) (rest : List Nat) (hen : FsConc.enabled .fixed ps s t = false) :
    history.go .fixed ps s time invs acc (t :: rest) = none := by
  simp only [history.go, hen, Bool.not_false, if_true]

/-- a step that does not complete the operation -/
theorem go_noresp (ps : FsConc.Progs) (s : FsConc.State) (time : Nat) (invs : List (Option Nat)) (acc : List Done)
    (t : Nat) (rest : List Nat) (hen : FsConc.enabled .fixed ps s t = true)
    (hpc : (FsConc.step .fixed ps s t).pc = s.pc) :
    history.go .fixed ps s time invs acc (t :: rest) =
      history.go .fixed ps (FsConc.step .fixed ps s t) (time + 1) (invs.set t (some (invOf invs t time))) acc rest := by
  simp only [history.go, hen, hpc, Bool.not_true, bne_self_eq_false, invOf]
  rfl

/-- a step that completes the operation with response `r` -/
theorem go_resp (ps : FsConc.Progs) (s : FsConc.State) (time : Nat) (invs : List (Option Nat)) (acc : List Done)
    (t : Nat) (rest : List Nat) (hen : FsConc.enabled .fixed ps s t = true)
    (s0 : FsConc.State) (r : Res) (hs : FsConc.step .fixed ps s t = FsConc.respond s0 t r)
    (hpc : s0.pc = s.pc) (hout : s0.out = s.out) (ht1 : t < s.pc.length) (ht2 : t < s.out.length)
    (op : Op) (hop : FsConc.curOp ps s t = some op) :
    history.go .fixed ps s time invs acc (t :: rest) =
      history.go .fixed ps (FsConc.respond s0 t r) (time + 1) (invs.set t none)
        (acc ++ [⟨t, s.pc.getD t 0, op, r, invOf invs t time, time⟩]) rest := by
  have h1 : ((FsConc.respond s0 t r).pc.getD t 0 != s.pc.getD t 0) = true := by
    simp only [FsConc.respond, hpc, getD_set, ht1, and_self, if_true]
    simp
  have h2 : ((FsConc.respond s0 t r).out.getD t []).getLast? = some r := by
    simp only [FsConc.respond, hout, getD_set, ht2, and_self, if_true]
    simp
  simp only [history.go, hen, hs, hop, h1, h2, Bool.not_true, invOf]
  rfl

/-! ### the invariant of `history.go` -/

structure Inv (ps : FsConc.Progs) (i0 : Option Bytes) (s : FsConc.State) (time : Nat) (invs : List (Option Nat))
    (acc : List Done) : Prop where
  lpc : s.pc.length = ps.length
  lts : s.ts.length = ps.length
  lout : s.out.length = ps.length
  /-- the recorded history, in response order, is a legal run of the atomic register ending in the abstract
  value `A`, which is the file's contents unless a `set` is between truncation and write -/
  legal : ∃ A, legalSeq i0 acc = some A ∧ (s.writer = none → A = s.file)
  hw : ∀ t, s.writer = some t → s.ts.getD t .idle = .writing
  hwr : ∀ t, s.ts.getD t .idle = .writing → s.writer = some t ∧ ∃ v, FsConc.curOp ps s t = some (.set v)
  pw : acc.Pairwise (fun d e => ¬ e.resp < d.inv)
  hresp : ∀ d ∈ acc, d.inv ≤ d.resp ∧ d.resp < time
  hinv : ∀ t i, invs.getD t none = some i → i < time

theorem inv_init (ps : FsConc.Progs) (i0 : Option Bytes) :
    Inv ps i0 (FsConc.init ps i0) 0 (ps.map (fun _ => none)) [] where
  lpc := by simp [FsConc.init]
  lts := by simp [FsConc.init]
  lout := by simp [FsConc.init]
  legal := ⟨i0, rfl, fun _ => rfl⟩
  hw := by intro t h; simp [FsConc.init] at h
  hwr := by
    intro t h
    simp only [FsConc.init, List.getD_eq_getElem?_getD, List.getElem?_map] at h
    cases hp : ps[t]? <;> simp [hp] at h
  pw := List.Pairwise.nil
  hresp := by intro d hd; cases hd
  hinv := by
    intro t i h
    simp only [List.getD_eq_getElem?_getD, List.getElem?_map] at h
    cases hp : ps[t]? <;> simp [hp] at h

theorem hinv_set (invs : List (Option Nat)) (time t : Nat) (x : Option Nat)
    (h : ∀ t i, invs.getD t none = some i → i < time) (hx : ∀ i, x = some i → i ≤ time) :
    ∀ t' i, (invs.set t x).getD t' none = some i → i < time + 1 := by
  intro t' i hi
  rw [getD_set] at hi
  split at hi
  · exact Nat.lt_succ_of_le (hx i hi)
  · exact Nat.lt_succ_of_lt (h t' i hi)

theorem inv_step (ps : FsConc.Progs) (i0 : Option Bytes) (hnp : FsConc.noPartial ps = true)
    (s : FsConc.State) (time : Nat) (invs : List (Option Nat)) (acc : List Done) (t : Nat) (rest : List Nat)
    (ht : t < ps.length) (I : Inv ps i0 s time invs acc) (hen : FsConc.enabled .fixed ps s t = true) :
    ∃ s' invs' acc', Inv ps i0 s' (time + 1) invs' acc' ∧
      history.go .fixed ps s time invs acc (t :: rest) = history.go .fixed ps s' (time + 1) invs' acc' rest := by
  obtain ⟨A, hA1, hA2⟩ := I.legal
  have hresp' : ∀ d ∈ acc, d.inv ≤ d.resp ∧ d.resp < time + 1 :=
    fun d hd => ⟨(I.hresp d hd).1, Nat.lt_succ_of_lt (I.hresp d hd).2⟩
  have hil := invOf_le invs t time (I.hinv t)
  rcases step_cases ps hnp s t hen I.hwr with ⟨hts, hs⟩ | ⟨hts, hfree, ⟨v, hv⟩, hs⟩ | ⟨op, hop, hwt, hs⟩
  · -- M
    refine ⟨_, _, _, ?_, go_noresp ps s time invs acc t rest hen (by rw [hs])⟩
    rw [hs]
    refine ⟨I.lpc, by simp [I.lts], I.lout, ⟨A, hA1, hA2⟩, ?_, ?_, I.pw, hresp', ?_⟩
    · intro t' h'
      have := I.hw t' h'
      simp only [getD_set]
      split
      · rename_i h; rw [← h.1, hts] at this; cases this
      · exact this
    · intro t' h'
      simp only [getD_set] at h'
      split at h'
      · cases h'
      · exact I.hwr t' h'
    · exact hinv_set invs time t _ I.hinv (fun i hi => by cases hi; exact hil)
  · -- L1
    refine ⟨_, _, _, ?_, go_noresp ps s time invs acc t rest hen (by rw [hs])⟩
    rw [hs]
    refine ⟨I.lpc, by simp [I.lts], I.lout, ⟨A, hA1, fun h => by cases h⟩, ?_, ?_, I.pw, hresp', ?_⟩
    · intro t' h'
      simp only [Option.some.injEq] at h'
      subst h'
      simp only [getD_set, I.lts, ht, and_self, if_true]
    · intro t' h'
      simp only [getD_set] at h'
      split at h'
      · rename_i h
        rw [← h.1]
        exact ⟨rfl, v, by rw [← hv]; exact curOp_congr ps s _ rfl t⟩
      · have := (I.hwr t' h').1
        rw [hfree] at this; cases this
    · exact hinv_set invs time t _ I.hinv (fun i hi => by cases hi; exact hil)
  · -- response
    have hs := hs A hA2
    refine ⟨_, _, _, ?_, go_resp ps s time invs acc t rest hen _ _ hs rfl rfl (by rw [I.lpc]; exact ht)
      (by rw [I.lout]; exact ht) op hop⟩
    refine ⟨by simp [FsConc.respond, I.lpc], by simp [FsConc.respond, I.lts], by simp [FsConc.respond, I.lout],
      ⟨_, legalSeq_snoc i0 acc _ A hA1 rfl, fun _ => rfl⟩, ?_, ?_, ?_, ?_, ?_⟩
    · intro t' h'; cases h'
    · intro t' h'
      simp only [FsConc.respond, getD_set] at h'
      by_cases hc : t = t' ∧ t < s.ts.length
      · rw [if_pos hc] at h'; cases h'
      · rw [if_neg hc] at h'
        have h1 := (I.hwr t' h').1
        have h2 := hwt t' h1
        exact absurd ⟨h2.symm, by rw [I.lts]; exact ht⟩ hc
    · rw [List.pairwise_append]
      refine ⟨I.pw, List.pairwise_singleton _ _, ?_⟩
      intro d hd e he
      simp only [List.mem_singleton] at he
      subst he
      have := I.hresp d hd
      simp only
      omega
    · intro d hd
      rcases List.mem_append.mp hd with hd | hd
      · exact hresp' d hd
      · simp only [List.mem_singleton] at hd
        subst hd
        exact ⟨hil, Nat.lt_succ_self _⟩
    · exact hinv_set invs time t _ I.hinv (fun i hi => by cases hi)

theorem go_inv (ps : FsConc.Progs) (i0 : Option Bytes) (hnp : FsConc.noPartial ps = true) :
    ∀ (sched : List Nat) (s : FsConc.State) (time : Nat) (invs : List (Option Nat)) (acc : List Done),
      (∀ t ∈ sched, t < ps.length) → Inv ps i0 s time invs acc →
      ∀ (s' : FsConc.State) (h : List Done), history.go .fixed ps s time invs acc sched = some (s', h) →
        ∃ time' invs', Inv ps i0 s' time' invs' h := by
  intro sched
  induction sched with
  | nil =>
    intro s time invs acc _ I s' h hrun
    simp only [history.go, Option.some.injEq, Prod.mk.injEq] at hrun
    obtain ⟨rfl, rfl⟩ := hrun
    exact ⟨time, invs, I⟩
  | cons t rest ih =>
    intro s time invs acc hs I s' h hrun
    cases hen : FsConc.enabled .fixed ps s t with
    | false => rw [go_disabled ps s time invs acc t rest hen] at hrun; cases hrun
    | true =>
      obtain ⟨s1, invs1, acc1, I1, heq⟩ :=
        inv_step ps i0 hnp s time invs acc t rest (hs t List.mem_cons_self) I hen
      rw [heq] at hrun
      exact ih s1 (time + 1) invs1 acc1 (fun t' ht' => hs t' (List.mem_cons_of_mem _ ht')) I1 s' h hrun

/-- C17, strong form: the history of a finished execution of the repaired per-key RwLock protocol, in response
order, is itself a linearization ending in the file's final contents. -/
theorem fs_history_isLinearization (ps : FsConc.Progs) (i0 : Option Bytes) (sched : List Nat)
    (hs : ∀ t ∈ sched, t < ps.length) (hnp : FsConc.noPartial ps = true)
    (s : FsConc.State) (h : List Done) (hrun : FsConc.history .fixed ps i0 sched = some (s, h))
    (hfin : FsConc.allFinished ps s = true) :
    isLinearization i0 h h s.file = true := by
  obtain ⟨time, invs, I⟩ := go_inv ps i0 hnp sched _ 0 _ [] hs (inv_init ps i0) s h hrun
  obtain ⟨A, hA1, hA2⟩ := I.legal
  have hwn : s.writer = none := by
    cases hw : s.writer with
    | none => rfl
    | some t =>
      obtain ⟨_, v, hv⟩ := I.hwr t (I.hw t hw)
      rw [curOp_none_of_allFinished ps s hfin t] at hv
      cases hv
  simp only [isLinearization, Bool.and_eq_true, beq_iff_eq, List.all_eq_true, List.contains_iff_mem]
  refine ⟨⟨⟨⟨trivial, fun d hd => hd⟩, fun d hd => hd⟩, (respectsRealTime_iff h).mpr I.pw⟩, ?_⟩
  rw [hA1, hA2 hwn]

/-- C18: a finished execution of the repaired per-key RwLock protocol is linearizable. -/
theorem fs_linearizable_aux (ps : FsConc.Progs) (i0 : Option Bytes) (sched : List Nat) (hs : ∀ t ∈ sched, t < ps.length)
    (hnp : FsConc.noPartial ps = true)
    (s : FsConc.State) (h : List Done) (hrun : FsConc.history .fixed ps i0 sched = some (s, h))
    (hfin : FsConc.allFinished ps s = true) :
    ∃ order, isLinearization i0 h order s.file = true :=
  ⟨h, fs_history_isLinearization ps i0 sched hs hnp s h hrun hfin⟩

/-! ### non-vacuity: the hypotheses hold on a concrete execution with overlapping operations
(thread 1 and 2 fetch the lock object while thread 0's `set` holds the write lock; a second `set` overlaps an
`erase` and a `get`) -/

def exPs : FsConc.Progs := [[.set [1, 2], .erase], [.get, .set [9]], [.size, .get]]
def exSched : List Nat := [0, 0, 1, 2, 0, 1, 2, 1, 1, 0, 2, 1, 0, 2]

example : ∃ s h, FsConc.history .fixed exPs none exSched = some (s, h) ∧ FsConc.allFinished exPs s = true ∧
    FsConc.noPartial exPs = true ∧ (∀ t ∈ exSched, t < exPs.length) ∧ h.length = 6 := by
  have key : (FsConc.history .fixed exPs none exSched).map (fun x => (FsConc.allFinished exPs x.1, x.2.length)) =
      some (true, 6) := by decide
  cases hh : FsConc.history .fixed exPs none exSched with
  | none => rw [hh] at key; cases key
  | some x =>
    rw [hh] at key
    simp only [Option.map_some, Option.some.injEq, Prod.mk.injEq] at key
    exact ⟨x.1, x.2, rfl, key.1, by decide, by decide, key.2⟩

end Zarrs.FsConc
