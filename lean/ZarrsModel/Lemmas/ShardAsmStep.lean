import ZarrsModel.Lemmas.ShardAsmInv
set_option Elab.async false
/- every step of the atomic machine preserves the invariant -/
namespace Zarrs.ShardAsm
open Zarrs Zarrs.Codec

theorem lt_of_getElem?_some {α : Type} {l : List α} {i : Nat} {a : α} (h : l[i]? = some a) : i < l.length := by
  by_cases hi : i < l.length
  · exact hi
  · rw [List.getElem?_eq_none (by omega)] at h; cases h

theorem pcOk_start_elim {p : Params} {s : State} {i : Nat} {b : Bytes} (hc : p.chunks[i]? = some (some b))
    (hp : s.pc[i]? = some .start) (h : PcOk p s i) :
    s.index[i]? = some (Shard.sentinel, Shard.sentinel) ∧ ∀ e ∈ s.log, e.1 ≠ i := by
  unfold PcOk at h; rw [hc, hp] at h; exact h

theorem pcOk_reserved_elim {p : Params} {s : State} {i off : Nat} {b : Bytes} (hc : p.chunks[i]? = some (some b))
    (hp : s.pc[i]? = some (.reserved off)) (h : PcOk p s i) :
    s.index[i]? = some (Shard.sentinel, Shard.sentinel) ∧ (i, off, b.length) ∈ s.log := by
  unfold PcOk at h; rw [hc, hp] at h; exact h

theorem pcOk_indexed_elim {p : Params} {s : State} {i off : Nat} {b : Bytes} (hc : p.chunks[i]? = some (some b))
    (hp : s.pc[i]? = some (.indexed off)) (h : PcOk p s i) :
    s.index[i]? = some (off, b.length) ∧ (i, off, b.length) ∈ s.log := by
  unfold PcOk at h; rw [hc, hp] at h; exact h

theorem pcOk_done_elim {p : Params} {s : State} {i off : Nat} {b : Bytes} (hc : p.chunks[i]? = some (some b))
    (hp : s.pc[i]? = some (.done off)) (h : PcOk p s i) :
    s.index[i]? = some (off, b.length) ∧ (i, off, b.length) ∈ s.log ∧
      ∀ k, k < b.length → s.buf[off + k]? = some (some (b.getD k 0)) := by
  unfold PcOk at h; rw [hc, hp] at h; exact h

theorem pcOk_reserved_intro {p : Params} {s : State} {i off : Nat} {b : Bytes} (hc : p.chunks[i]? = some (some b))
    (hp : s.pc[i]? = some (.reserved off)) (h1 : s.index[i]? = some (Shard.sentinel, Shard.sentinel))
    (h2 : (i, off, b.length) ∈ s.log) : PcOk p s i := by
  unfold PcOk; rw [hc, hp]; exact ⟨h1, h2⟩

theorem pcOk_indexed_intro {p : Params} {s : State} {i off : Nat} {b : Bytes} (hc : p.chunks[i]? = some (some b))
    (hp : s.pc[i]? = some (.indexed off)) (h1 : s.index[i]? = some (off, b.length))
    (h2 : (i, off, b.length) ∈ s.log) : PcOk p s i := by
  unfold PcOk; rw [hc, hp]; exact ⟨h1, h2⟩

theorem pcOk_done_intro {p : Params} {s : State} {i off : Nat} {b : Bytes} (hc : p.chunks[i]? = some (some b))
    (hp : s.pc[i]? = some (.done off)) (h1 : s.index[i]? = some (off, b.length))
    (h2 : (i, off, b.length) ∈ s.log) (h3 : ∀ k, k < b.length → s.buf[off + k]? = some (some (b.getD k 0))) : PcOk p s i := by
  unfold PcOk; rw [hc, hp]; exact ⟨h1, h2, h3⟩

/-- step 1: `fetch_add` (the capacity check passes) -/
theorem inv_reserve (p : Params) (s : State) (i : Nat) (b : Bytes) (inv : Inv p s)
    (hc : p.chunks[i]? = some (some b)) (hp : s.pc[i]? = some .start) :
    Inv p { s with offset := s.offset + b.length, log := s.log ++ [(i, s.offset, b.length)],
                   pc := s.pc.set i (.reserved s.offset) } := by
  have hi := lt_of_getElem?_some hc
  have hip := lt_of_getElem?_some hp
  obtain ⟨hidx, hnolog⟩ := pcOk_start_elim hc hp (inv.pcs i hi)
  refine ⟨by simp [inv.pcLen], inv.idxLen, inv.bufLen, chained_snoc _ _ _ _ _ inv.chain, ?_, ?_, ?_, ?_⟩
  · intro e he e' he' hee
    simp only [List.mem_append, List.mem_singleton] at he he'
    rcases he with he | rfl <;> rcases he' with he' | rfl
    · exact inv.logIds e he e' he' hee
    · exact absurd hee (hnolog e he)
    · exact absurd hee.symm (hnolog e' he')
    · rfl
  · intro e he
    simp only [List.mem_append, List.mem_singleton] at he
    rcases he with he | rfl
    · exact inv.logLen e he
    · exact ⟨b, hc, rfl⟩
  · have hx : Pc.reserved s.offset ≠ Pc.start := by intro h; cases h
    have := pendingOf_leave p.chunks s.pc i b _ hc hp hx
    have ha := inv.acct
    show s.offset + b.length + pendingOf p.chunks (s.pc.set i (.reserved s.offset)) = p.base + p.total
    omega
  · intro j hj
    by_cases hji : j = i
    · subst hji
      exact pcOk_reserved_intro hc (getElem?_set_self' s.pc j _ hip) hidx (by simp)
    · refine pcOk_frame p s _ j ?_ ?_ ?_ ?_ ?_ (inv.pcs j hj)
      · exact getElem?_set_ne' s.pc i j _ (Ne.symm hji)
      · rfl
      · intro e he; exact List.mem_append_left _ he
      · intro e he
        have he' : e ∈ s.log ++ [(i, s.offset, b.length)] := he
        simp only [List.mem_append, List.mem_singleton] at he'
        rcases he' with he' | rfl
        · exact Or.inl he'
        · exact Or.inr (Ne.symm hji)
      · intro _ _ _ _ _ _ _; rfl

/-- step 2: the index entry -/
theorem inv_index (p : Params) (s : State) (i off : Nat) (b : Bytes) (inv : Inv p s)
    (hc : p.chunks[i]? = some (some b)) (hp : s.pc[i]? = some (.reserved off)) :
    Inv p { s with index := s.index.set i (off, b.length), pc := s.pc.set i (.indexed off) } := by
  have hi := lt_of_getElem?_some hc
  have hip := lt_of_getElem?_some hp
  obtain ⟨_, hlog⟩ := pcOk_reserved_elim hc hp (inv.pcs i hi)
  refine ⟨by simp [inv.pcLen], by simp [inv.idxLen], inv.bufLen, inv.chain, inv.logIds, inv.logLen, ?_, ?_⟩
  · have hx : Pc.indexed off ≠ Pc.start := by intro h; cases h
    have hy : Pc.reserved off ≠ Pc.start := by intro h; cases h
    show s.offset + pendingOf p.chunks (s.pc.set i (.indexed off)) = p.base + p.total
    rw [pendingOf_stay p.chunks s.pc i _ _ hp hy hx]; exact inv.acct
  · intro j hj
    by_cases hji : j = i
    · subst hji
      exact pcOk_indexed_intro hc (getElem?_set_self' s.pc j _ hip)
        (getElem?_set_self' s.index j _ (by rw [inv.idxLen]; exact hi)) hlog
    · refine pcOk_frame p s _ j ?_ ?_ ?_ ?_ ?_ (inv.pcs j hj)
      · exact getElem?_set_ne' s.pc i j _ (Ne.symm hji)
      · exact getElem?_set_ne' s.index i j _ (Ne.symm hji)
      · intro e he; exact he
      · intro e he; exact Or.inl he
      · intro _ _ _ _ _ _ _; rfl

/-- step 3: the copy (inside the buffer) -/
theorem inv_copy (p : Params) (s : State) (i off : Nat) (b : Bytes) (inv : Inv p s)
    (hc : p.chunks[i]? = some (some b)) (hp : s.pc[i]? = some (.indexed off)) (hroom : off + b.length ≤ s.buf.length) :
    Inv p { s with buf := writeAt s.buf off b, pc := s.pc.set i (.done off) } := by
  have hi := lt_of_getElem?_some hc
  have hip := lt_of_getElem?_some hp
  obtain ⟨hidx, hlog⟩ := pcOk_indexed_elim hc hp (inv.pcs i hi)
  refine ⟨by simp [inv.pcLen], inv.idxLen, by simp [inv.bufLen], inv.chain, inv.logIds, inv.logLen, ?_, ?_⟩
  · have hx : Pc.done off ≠ Pc.start := by intro h; cases h
    have hy : Pc.indexed off ≠ Pc.start := by intro h; cases h
    show s.offset + pendingOf p.chunks (s.pc.set i (.done off)) = p.base + p.total
    rw [pendingOf_stay p.chunks s.pc i _ _ hp hy hx]; exact inv.acct
  · intro j hj
    by_cases hji : j = i
    · subst hji
      exact pcOk_done_intro hc (getElem?_set_self' s.pc j _ hip) hidx hlog
        (fun k hk => writeAt_in s.buf off b k hk hroom)
    · refine pcOk_frame p s _ j ?_ ?_ ?_ ?_ ?_ (inv.pcs j hj)
      · exact getElem?_set_ne' s.pc i j _ (Ne.symm hji)
      · rfl
      · intro e he; exact he
      · intro e he; exact Or.inl he
      · intro off' b' _ _ hlog' k hk
        have := chained_disj _ _ _ inv.chain _ hlog _ hlog' (Ne.symm hji)
        simp only at this
        exact writeAt_out s.buf off b (off' + k) (by omega)

/-- **every step of the atomic machine preserves the invariant** (the buffer is large enough: `fits`) -/
theorem inv_step (p : Params) (hfit : p.fits = true) (s : State) (i : Nat) (inv : Inv p s) : Inv p (step false p s i) := by
  unfold step
  split
  · rename_i b hc hp
    have hroom := inv_room p s hfit inv i b hc hp
    have hck : (p.checks && decide (s.offset + b.length > p.cap)) = false := by
      simp only [Bool.and_eq_false_iff, decide_eq_false_iff_not]; right; omega
    simp only [Bool.false_eq_true, if_false, hck]
    exact inv_reserve p s i b inv hc hp
  · rename_i b off hc hp
    have hi := lt_of_getElem?_some hc
    have := inv.pcs i hi
    unfold PcOk at this; rw [hc, hp] at this; exact this.elim
  · rename_i b off hc hp
    exact inv_index p s i off b inv hc hp
  · rename_i b off hc hp
    have hi := lt_of_getElem?_some hc
    obtain ⟨_, hlog⟩ := pcOk_indexed_elim hc hp (inv.pcs i hi)
    have hroom := inv_log_room p s hfit inv _ hlog
    simp only at hroom
    have hn : ¬ (off + b.length > s.buf.length) := by rw [inv.bufLen]; omega
    simp only [hn, if_false]
    exact inv_copy p s i off b inv hc hp (by rw [inv.bufLen]; exact hroom)
  · exact inv

theorem inv_run (p : Params) (hfit : p.fits = true) (sched : List Nat) : ∀ (s : State), Inv p s → Inv p (run false p s sched) := by
  induction sched with
  | nil => intro s h; exact h
  | cons i rest ih => intro s h; exact ih _ (inv_step p hfit s i h)

theorem run_append (racy : Bool) (p : Params) (a b : List Nat) : ∀ (s : State), run racy p s (a ++ b) = run racy p (run racy p s a) b := by
  induction a with
  | nil => intro s; rfl
  | cons i rest ih => intro s; exact ih _

end Zarrs.ShardAsm
