import ZarrsModel.Lemmas.FsStoreList
/- `list`, `list_prefix`, `list_dir`, `size_prefix` of the filesystem store equal the ordered map's -/
set_option Elab.async false
namespace Zarrs.Fs
open Zarrs

theorem listPrefix_content (s : FsState) (p : Key) (path : List Name) :
    s.listPrefix p path = match (FsState.content s).stat path with | .dir c => c.walk p | _ => [] := by
  cases s with
  | some t => rfl
  | none =>
    cases path with
    | nil => rfl
    | cons m ms => rfl

theorem listDir_content (s : FsState) (p : Key) (path : List Name) :
    s.listDir p path = match (FsState.content s).stat path with
      | .dir c => (FsState.sortKeys (c.dirEntries p).1, FsState.sortKeys (c.dirEntries p).2)
      | _ => ([], []) := by
  cases s with
  | some t => rfl
  | none =>
    cases path with
    | nil => rfl
    | cons m ms => rfl

theorem plain_noSlash {path : List Name} (h : ∀ n ∈ path, plainName n = true) : ∀ n ∈ path, '/' ∉ n :=
  fun n hn => (plainName_spec (h n hn)).2

/-- the pairs `list_prefix` walks over are the entries of the map below the prefix -/
theorem mem_listPrefix (s : FsState) (hi : FsInv s) (path : List Name) (hpl : ∀ n ∈ path, plainName n = true)
    (k : Key) (v : Bytes) :
    (k, v) ∈ s.listPrefix (dirKey path) path ↔ ((absFs s).get k = some v ∧ hasPrefix k (dirKey path) = true) := by
  rw [listPrefix_content, absFs_get s hi]
  have hc := hi.content
  constructor
  · intro h
    cases hs : (FsState.content s).stat path with
    | dir c =>
      rw [hs] at h
      simp only at h
      have hci := Tree.stat_inv _ hc path c hs
      obtain ⟨q, hq, hk, hf⟩ := (Tree.mem_walk c hci _ k v).1 h
      have hkj : k = joinPath (path ++ q) := by rw [hk, joinPath_dirKey path q hq]
      have hplq := Tree.fileAt_plain c hci q v hf
      have hsplit : splitPath k = path ++ q := by
        rw [hkj]
        apply split_join _ (by simp [hq])
        intro n hn
        rcases List.mem_append.1 hn with hn | hn
        · exact plain_noSlash hpl n hn
        · exact plain_noSlash hplq n hn
      refine ⟨?_, ?_⟩
      · rw [hsplit, Tree.fileAt_append_dir _ path q c hs]; exact hf
      · rw [hasPrefix_iff]; exact ⟨joinPath q, hk⟩
    | noent => rw [hs] at h; cases h
    | notdir => rw [hs] at h; cases h
    | file b => rw [hs] at h; cases h
  · rintro ⟨hg, hpre⟩
    have hplk := Tree.fileAt_plain _ hc _ _ hg
    unfold hasPrefix at hpre
    rw [← join_split k] at hpre
    obtain ⟨rest, hr, hsp⟩ := (dirKey_prefix_iff path (splitPath k) (splitPath_ne_nil k) (plain_noSlash hpl)
      (plain_noSlash hplk)).1 hpre
    rw [hsp] at hg
    obtain ⟨c, hs, hf⟩ := Tree.stat_prefix_of_file _ path rest v hr hg
    rw [hs]
    simp only
    refine (Tree.mem_walk c (Tree.stat_inv _ hc path c hs) _ k v).2 ⟨rest, hr, ?_, hf⟩
    rw [← joinPath_dirKey path rest hr, ← hsp, join_split]

theorem listPrefix_keys_abs (s : FsState) (hi : FsInv s) (path : List Name) (hpl : ∀ n ∈ path, plainName n = true) :
    FsState.sortKeys ((s.listPrefix (dirKey path) path).map (·.1)) =
      (absFs s).keys.filter (hasPrefix · (dirKey path)) := by
  apply sorted_keys_ext _ _ (sortKeys_sorted _) (Zarrs.KV.sorted_keys_filter _ (absFs_sorted s) _)
  intro k
  rw [mem_sortKeys, List.mem_filter, List.mem_map, Zarrs.KV.mem_keys_iff_get]
  constructor
  · rintro ⟨⟨k', v⟩, hm, rfl⟩
    obtain ⟨h1, h2⟩ := (mem_listPrefix s hi path hpl k' v).1 hm
    exact ⟨by rw [h1]; simp, h2⟩
  · rintro ⟨h1, h2⟩
    cases hg : (absFs s).get k with
    | none => exact absurd hg h1
    | some v => exact ⟨(k, v), (mem_listPrefix s hi path hpl k v).2 ⟨hg, h2⟩, rfl⟩

theorem list_abs (s : FsState) : FsState.sortKeys ((s.listPrefix [] []).map (·.1)) = (absFs s).keys := by
  unfold absFs
  rw [KV.ofList_keys, listPrefix_content]
  rfl

/-! ### `size_prefix` -/

theorem foldl_add_len (l : List (Key × Bytes)) (acc : Nat) :
    l.foldl (fun acc kv => acc + kv.2.length) acc = acc + (l.map (·.2.length)).sum := by
  induction l generalizing acc with
  | nil => simp
  | cons x xs ih => rw [List.foldl_cons, ih, List.map_cons, List.sum_cons, Nat.add_assoc]

namespace Tree

theorem walk_nodup (t : Tree) (hi : t.Inv) (pre : Key) : (t.walk pre).Nodup := by
  induction t generalizing pre with
  | nil => exact List.nodup_nil
  | file n b rest ih =>
    have hi' := hi
    obtain ⟨hn, hlt, hr⟩ := hi
    simp only [walk, List.nodup_cons]
    refine ⟨?_, ih hr pre⟩
    intro hm
    obtain ⟨path, hp, hk, hf⟩ := (mem_walk rest hr pre _ _).1 hm
    have hj : joinPath [n] = joinPath path := List.append_cancel_left hk
    have : [n] = path := joinPath_inj [n] path (by simp) hp
      (by intro x hx; simp only [List.mem_singleton] at hx; subst hx; exact (plainName_spec hn).2)
      (fun x hx => (plainName_spec (fileAt_plain rest hr path b hf x hx)).2) hj
    subst this
    rw [fileAt_cons] at hf
    cases hl : rest.lookup1 n with
    | none => rw [hl] at hf; cases hf
    | some e => exact lookup1_ne_of_rest hlt hl rfl
  | dir n c rest ihc ih =>
    obtain ⟨hn, hlt, hc, hr⟩ := hi
    simp only [walk]
    rw [List.nodup_append]
    refine ⟨ihc hc _, ih hr pre, ?_⟩
    intro a ha b hb hab
    subst hab
    obtain ⟨k, v⟩ := a
    obtain ⟨q, hq, hk, hf⟩ := (mem_walk c hc _ k v).1 ha
    obtain ⟨path, hp, hk2, hf2⟩ := (mem_walk rest hr pre k v).1 hb
    have hj : joinPath (n :: q) = joinPath path := by
      rw [joinPath_cons_ne n q hq]
      apply List.append_cancel_left (as := pre)
      rw [← hk2, hk]
      simp
    have : n :: q = path := joinPath_inj (n :: q) path (by simp) hp
      (by
        intro x hx
        rcases List.mem_cons.1 hx with rfl | hx
        · exact (plainName_spec hn).2
        · exact (plainName_spec (fileAt_plain c hc q v hf x hx)).2)
      (fun x hx => (plainName_spec (fileAt_plain rest hr path v hf2 x hx)).2) hj
    subst this
    rw [fileAt_cons] at hf2
    cases hl : rest.lookup1 n with
    | none => rw [hl] at hf2; cases hf2
    | some e => exact lookup1_ne_of_rest hlt hl rfl

end Tree

theorem KV.nodup_of_sorted (m : KV) (hs : m.sorted) : m.Nodup := by
  unfold Zarrs.KV.sorted Zarrs.KV.keys at hs
  rw [List.pairwise_map] at hs
  exact hs.imp (fun {a b} h (e : a = b) => keyLt_ne h (congrArg Prod.fst e))

theorem mem_sorted_iff_get (m : KV) (hs : m.sorted) (k : Key) (v : Bytes) : (k, v) ∈ m ↔ m.get k = some v :=
  ⟨fun h => Zarrs.KV.get_of_mem_sorted m hs (k, v) h, fun h => KV.get_mem m k v h⟩

theorem sizePrefix_abs (s : FsState) (hi : FsInv s) (path : List Name) (hpl : ∀ n ∈ path, plainName n = true) :
    (s.listPrefix (dirKey path) path).foldl (fun acc kv => acc + kv.2.length) 0 =
      (((absFs s).filter (fun kv => hasPrefix kv.1 (dirKey path))).map (·.2.length)).sum := by
  rw [foldl_add_len, Nat.zero_add]
  apply List.Perm.sum_nat
  apply List.Perm.map
  have hn1 : (s.listPrefix (dirKey path) path).Nodup := by
    rw [listPrefix_content]
    cases hs : (FsState.content s).stat path with
    | dir c => exact Tree.walk_nodup c (Tree.stat_inv _ hi.content path c hs) _
    | _ => exact List.nodup_nil
  have hn2 : ((absFs s).filter (fun kv => hasPrefix kv.1 (dirKey path))).Nodup :=
    (KV.nodup_of_sorted _ (absFs_sorted s)).filter _
  rw [List.perm_ext_iff_of_nodup hn1 hn2]
  rintro ⟨k, v⟩
  rw [mem_listPrefix s hi path hpl, List.mem_filter, mem_sorted_iff_get _ (absFs_sorted s)]

end Zarrs.Fs
