import ZarrsModel.Lemmas.MetaV2Parse
import ZarrsModel.Lemmas.Json
/- helper lemmas for C13 (V2): written documents are well-formed JSON, parsed documents have well-formed parts,
   hence the round trip through the stored text -/
set_option Elab.async false
set_option linter.unusedSimpArgs false
namespace Zarrs.MetaV2
open Zarrs.Json Zarrs.Meta

theorem strOk_kId : strOk kId := strOk_ascii _ (by decide)

/-- the JSON inside a `MetadataV2` is well-formed -/
def MetaV2.wfp (m : MetaV2) : Prop := strOk m.id ∧ wfKVs m.config ∧ keysDistinct m.config

theorem metaV2_toJ_wf (m : MetaV2) (h : m.wfp) (hs : m.shapeOk) : m.toJ.wf := by
  obtain ⟨id, config⟩ := m
  obtain ⟨h1, h2, h3⟩ := h
  unfold MetaV2.shapeOk at hs
  simp only at *
  rw [MetaV2.toJ, obj_wf_iff]
  refine ⟨?_, ?_⟩
  · simp only [wfKVs]
    exact ⟨strOk_kId, (str_wf_iff _).2 h1, h2⟩
  · unfold keysDistinct at *
    rw [List.map_cons, List.nodup_cons]
    exact ⟨(lookup_eq_none_iff _ _).1 hs, h3⟩

theorem metaV2_ofJ_wfp (j : J) (hj : j.wf) (m : MetaV2) (h : MetaV2.ofJ j = some m) : m.wfp := by
  cases j with
  | obj o =>
    rw [obj_wf_iff] at hj
    simp only [MetaV2.ofJ] at h
    split at h
    · rename_i s hs
      cases h
      have := wf_of_lookup o hj.1 _ _ hs
      exact ⟨(str_wf_iff _).1 this, wfKVs_filter _ _ hj.1, keysDistinct_filter _ _ hj.2⟩
    · cases h
  | _ => simp [MetaV2.ofJ] at h

def DField.wfp (f : DField) : Prop := strOk f.name ∧ strOk f.dt ∧ ∀ s, f.shape = some s → ∀ t ∈ s, tokOk t

def DType.wfp : DType → Prop
  | .simple s => strOk s
  | .structured fs => ∀ f ∈ fs, DField.wfp f

theorem numArr_wf (l : List (List Char)) (h : ∀ t ∈ l, tokOk t) : (J.arr (l.map J.num)).wf := by
  rw [arr_wf_iff]
  intro x hx
  obtain ⟨t, ht, rfl⟩ := List.mem_map.1 hx
  exact (num_wf_iff _).2 (h t ht)

theorem dfield_toJ_wf (f : DField) (h : f.wfp) : f.toJ.wf := by
  obtain ⟨name, dt, shape⟩ := f
  obtain ⟨h1, h2, h3⟩ := h
  simp only at *
  unfold DField.toJ
  rw [arr_wf_iff]
  intro x hx
  cases shape with
  | none =>
    simp only [List.append_nil, List.mem_cons, List.not_mem_nil, or_false] at hx
    rcases hx with rfl | rfl
    · exact (str_wf_iff _).2 h1
    · exact (str_wf_iff _).2 h2
  | some s =>
    simp only [List.cons_append, List.nil_append, List.mem_cons, List.not_mem_nil, or_false] at hx
    rcases hx with rfl | rfl | rfl
    · exact (str_wf_iff _).2 h1
    · exact (str_wf_iff _).2 h2
    · exact numArr_wf s (h3 s rfl)

theorem dtype_toJ_wf (d : DType) (h : d.wfp) : d.toJ.wf := by
  cases d with
  | simple s => exact (str_wf_iff _).2 h
  | structured fs =>
    unfold DType.toJ
    rw [arr_wf_iff]
    intro x hx
    obtain ⟨f, hf, rfl⟩ := List.mem_map.1 hx
    exact dfield_toJ_wf f (h f hf)

theorem mapM_tok_wf (f : J → Option (List Char)) (hf : ∀ x t, f x = some t → x = .num t) (xs : List J) (hx : ∀ x ∈ xs, x.wf)
    (l : List (List Char)) (h : xs.mapM f = some l) : ∀ t ∈ l, tokOk t := by
  intro t ht
  obtain ⟨x, hxm, hxt⟩ := mapM_some_mem _ _ _ h t ht
  have := hf x t hxt
  subst this
  exact (num_wf_iff _).1 (hx _ hxm)

theorem dfield_ofJ_wfp (j : J) (hj : j.wf) (f : DField) (h : DField.ofJ j = some f) : f.wfp := by
  unfold DField.ofJ at h
  split at h
  · cases h
    rw [arr_wf_iff] at hj
    refine ⟨(str_wf_iff _).1 (hj _ (by simp)), (str_wf_iff _).1 (hj _ (by simp)), ?_⟩
    intro s hs; cases hs
  · rename_i a b sh
    rw [arr_wf_iff] at hj
    cases hm : sh.mapM u64Tok with
    | none => rw [hm] at h; cases h
    | some s' =>
      rw [hm] at h
      simp only [Option.map_some, Option.some.injEq] at h
      subst h
      refine ⟨(str_wf_iff _).1 (hj _ (by simp)), (str_wf_iff _).1 (hj _ (by simp)), ?_⟩
      intro s hs
      simp only [Option.some.injEq] at hs
      subst hs
      have hsh : (J.arr sh).wf := hj _ (by simp)
      rw [arr_wf_iff] at hsh
      exact mapM_tok_wf u64Tok (fun x t hx => (u64Tok_inv x t hx).1) sh hsh _ hm
  · cases h

theorem dtype_ofJ_wfp (j : J) (hj : j.wf) (d : DType) (h : DType.ofJ j = some d) : d.wfp := by
  cases j with
  | str s => simp only [DType.ofJ] at h; cases h; exact (str_wf_iff _).1 hj
  | arr xs =>
    simp only [DType.ofJ] at h
    rw [arr_wf_iff] at hj
    cases hm : xs.mapM DField.ofJ with
    | none => rw [hm] at h; cases h
    | some fs =>
      rw [hm] at h
      simp only [Option.map_some, Option.some.injEq] at h
      subst h
      intro f hf
      obtain ⟨x, hx, hxf⟩ := mapM_some_mem _ _ _ hm f hf
      exact dfield_ofJ_wfp x (hj x hx) f hxf
  | null => simp [DType.ofJ] at h
  | bool _ => simp [DType.ofJ] at h
  | num _ => simp [DType.ofJ] at h
  | obj _ => simp [DType.ofJ] at h

theorem fillV2_ofJ_wf (j : J) (hj : j.wf) (f : FillV2) (h : FillV2.ofJ j = some f) : f.toJ.wf := by
  cases j with
  | str s =>
    simp only [FillV2.ofJ] at h
    split at h
    · cases h; exact (str_wf_iff _).2 (strOk_ascii _ (by decide))
    · split at h
      · cases h; exact (str_wf_iff _).2 (strOk_ascii _ (by decide))
      · split at h
        · cases h; exact (str_wf_iff _).2 (strOk_ascii _ (by decide))
        · cases h; exact hj
  | null => simp only [FillV2.ofJ] at h; cases h; exact hj
  | num t => simp only [FillV2.ofJ] at h; cases h; exact hj
  | bool _ => simp [FillV2.ofJ] at h
  | arr _ => simp [FillV2.ofJ] at h
  | obj _ => simp [FillV2.ofJ] at h

theorem order_toJ_wf (o : Order) : o.toJ.wf := by
  cases o <;> exact (str_wf_iff _).2 (strOk_ascii _ (by decide))
theorem sep_toJ_wf (s : Sep) : s.toJ.wf := by
  cases s <;> exact (str_wf_iff _).2 (strOk_ascii _ (by decide))

/-- the JSON inside a V2 array document is well-formed -/
structure ArrayDocV2.wfParts (d : ArrayDocV2) : Prop where
  shape : ∀ t ∈ d.shape, tokOk t
  chunks : ∀ t ∈ d.chunks, tokOk t
  dt : d.dtype.wfp
  comp : ∀ m, d.compressor = some m → m.wfp
  fill : d.fill.toJ.wf
  filters : ∀ fs, d.filters = some fs → ∀ f ∈ fs, MetaV2.wfp f
  attrs : wfKVs d.attrs ∧ keysDistinct d.attrs
  extra : ∀ kv ∈ d.extra, strOk kv.1 ∧ kv.2.field.wf

theorem tokOk_two : tokOk ['2'] := tokOk_of_natTok 2 _ (by decide)

theorem arrayKeysV2_strOk : ∀ k ∈ arrayKeysV2, strOk k := by
  have : ∀ k ∈ arrayKeysV2, ∀ b ∈ k, b < 128 := by decide
  exact fun k hk => strOk_ascii k (this k hk)

theorem groupKeysV2_strOk : ∀ k ∈ groupKeysV2, strOk k := by
  have : ∀ k ∈ groupKeysV2, ∀ b ∈ k, b < 128 := by decide
  exact fun k hk => strOk_ascii k (this k hk)

theorem compressorToJ_wf (c : Option MetaV2) (h : ∀ m, c = some m → m.wfp) (hs : ∀ m, c = some m → m.shapeOk) :
    (compressorToJ c).wf := by
  cases c with
  | none => simp only [compressorToJ, J.wf]
  | some m => exact metaV2_toJ_wf m (h m rfl) (hs m rfl)

theorem filtersToJ_wf (f : Option (List MetaV2)) (h : ∀ fs, f = some fs → ∀ m ∈ fs, MetaV2.wfp m)
    (hs : ∀ fs, f = some fs → ∀ m ∈ fs, MetaV2.shapeOk m) : (filtersToJ f).wf := by
  cases f with
  | none => simp only [filtersToJ, J.wf]
  | some fs =>
    cases fs with
    | nil => simp only [filtersToJ, J.wf]
    | cons x xs =>
      unfold filtersToJ
      rw [arr_wf_iff]
      intro y hy
      obtain ⟨m, hm, rfl⟩ := List.mem_map.1 hy
      exact metaV2_toJ_wf m (h _ rfl m hm) (hs _ rfl m hm)

theorem arrayDocV2_known_wf (d : ArrayDocV2) (h : d.wfParts) (hs : d.shapeOk) : ∀ kv ∈ d.knownKVs, kv.2.wf := by
  intro kv hkv
  simp only [ArrayDocV2.knownKVs, List.mem_append, List.mem_cons, List.not_mem_nil, or_false] at hkv
  rcases hkv with hkv | hkv
  · rcases hkv with rfl | rfl | rfl | rfl | rfl | rfl | rfl | rfl | rfl
    · exact (num_wf_iff _).2 tokOk_two
    · exact numArr_wf _ h.shape
    · exact numArr_wf _ h.chunks
    · exact dtype_toJ_wf _ h.dt
    · exact compressorToJ_wf _ h.comp hs.comp
    · exact h.fill
    · exact order_toJ_wf _
    · exact filtersToJ_wf _ h.filters hs.filters.2
    · exact sep_toJ_wf _
  · split at hkv
    · cases hkv
    · simp only [List.mem_cons, List.not_mem_nil, or_false] at hkv
      subst hkv
      exact (obj_wf_iff _).2 h.attrs

/-- **a written V2 array document is well-formed JSON** when no additional field is called `node_type` (otherwise the
    key is written twice) -/
theorem arrayDocV2_toJ_wf (d : ArrayDocV2) (h : d.wfParts) (hs : d.shapeOk) (hn : ∀ kv ∈ d.extra, kv.1 ≠ kNodeType) :
    d.toJ.wf := by
  rw [ArrayDocV2.toJ_eq, obj_wf_iff]
  have hgood : ∀ kv ∈ d.extra, strOk kv.1 ∧ AField.good kv.2 := fun kv hkv =>
    ⟨(h.extra kv hkv).1, (h.extra kv hkv).2, hs.extraShape kv hkv⟩
  refine ⟨?_, ?_⟩
  · rw [wfKVs_iff]
    intro kv hkv
    unfold ArrayDocV2.kvs at hkv
    rcases List.mem_cons.1 hkv with rfl | hkv
    · exact ⟨strOk_ascii _ (by decide), (str_wf_iff _).2 (strOk_ascii _ (by decide))⟩
    · rcases List.mem_append.1 hkv with hk | hk
      · exact ⟨arrayKeysV2_strOk _ ((arrayDocV2_knownKeys_sublist d).subset (List.mem_map_of_mem hk)), arrayDocV2_known_wf d h hs kv hk⟩
      · exact (wfKVs_iff _).1 (extraKVs_wf _ hgood) kv hk
  · have := keysDistinct_known_extra (kNodeType :: arrayKeysV2) (by decide) (tagKV :: d.knownKVs)
      (by rw [List.map_cons]; exact (arrayDocV2_knownKeys_sublist d).cons_cons _) d.extra hs.sorted
      (fun kv hkv hm => by
        rcases List.mem_cons.1 hm with e | hm
        · exact hn kv hkv e
        · exact hs.extraKeys kv hkv hm)
    exact this

theorem afield_ofJ_field_wf (j : J) (h : j.wf) : (AField.ofJ j).field.wf := (afield_ofJ_good j h).1

theorem extrasV2_wf (known : List Str) (o : Obj) (h : wfKVs o) : ∀ kv ∈ extrasV2 known o, strOk kv.1 ∧ kv.2.field.wf := by
  intro kv hkv
  rw [extrasV2_eq] at hkv
  have := extrasOf_good known o h kv hkv
  exact ⟨this.1, this.2.1.1⟩

theorem bind_wf {α} (o : Obj) (ho : wfKVs o) (k : Str) (f : J → Option α) (a : α) (h : (lookup o k).bind f = some a) :
    ∃ j, j.wf ∧ f j = some a := by
  cases hl : lookup o k with
  | none => rw [hl] at h; cases h
  | some j => rw [hl] at h; exact ⟨j, wf_of_lookup o ho _ _ hl, h⟩

theorem compOfJ_inv (j : Option J) (m : MetaV2) (h : compOfJ j = some (some m)) :
    ∃ j', j = some j' ∧ MetaV2.ofJ j' = some m := by
  unfold compOfJ at h
  split at h
  · cases h
  · cases h
  · rename_i j' _
    cases hjm : MetaV2.ofJ j' with
    | none => rw [hjm] at h; cases h
    | some m' =>
      rw [hjm] at h
      simp only [Option.map_some, Option.some.injEq] at h
      subst h
      exact ⟨j', rfl, hjm⟩

theorem filtersOfJ_inv (j : Option J) (fs : List MetaV2) (h : filtersOfJ j = some (some fs)) :
    ∃ xs, j = some (.arr xs) ∧ metaV2List xs = some fs := by
  unfold filtersOfJ at h
  split at h
  · cases h
  · cases h
  · rename_i xs
    cases hm : metaV2List xs with
    | none => rw [hm] at h; cases h
    | some fs' =>
      rw [hm] at h
      simp only [Option.map_some, Option.some.injEq] at h
      subst h
      exact ⟨xs, rfl, hm⟩
  · cases h

theorem attrsOfJ_inv (j : Option J) (a : Obj) (h : attrsOfJ j = some a) : (j = none ∧ a = []) ∨ j = some (.obj a) := by
  unfold attrsOfJ at h
  split at h
  · simp only [Option.some.injEq] at h; exact Or.inl ⟨rfl, h.symm⟩
  · simp only [Option.some.injEq] at h; subst h; exact Or.inr rfl
  · cases h

/-- **a document parsed from well-formed JSON has well-formed parts** -/
theorem arrayDocV2_ofJ_wfParts (j : J) (hj : j.wf) (d : ArrayDocV2) (h : ArrayDocV2.ofJ j = some d) : d.wfParts := by
  cases j with
  | obj o =>
    rw [obj_wf_iff] at hj
    have hi := arrayDocV2_ofJ_inv o d h
    have hw := fun k v => wf_of_lookup o hj.1 k v
    refine ⟨?_, ?_, ?_, ?_, ?_, ?_, ?_, ?_⟩
    · have h1 := (numList_u64_inv _ _ hi.shape).1
      have := hw _ _ h1
      rw [arr_wf_iff] at this
      intro t ht
      exact (num_wf_iff _).1 (this _ (List.mem_map_of_mem ht))
    · have h1 := (numList_nz_inv _ _ hi.chunks).1
      have := hw _ _ h1
      rw [arr_wf_iff] at this
      intro t ht
      exact (num_wf_iff _).1 (this _ (List.mem_map_of_mem ht))
    · obtain ⟨j, hjw, hjd⟩ := bind_wf o hj.1 _ _ _ hi.dt
      exact dtype_ofJ_wfp j hjw _ hjd
    · intro m hm
      have hc := hi.comp
      rw [hm] at hc
      obtain ⟨j', hl, hjm⟩ := compOfJ_inv _ _ hc
      exact metaV2_ofJ_wfp j' (hw _ _ hl) _ hjm
    · obtain ⟨j, hjw, hjd⟩ := bind_wf o hj.1 _ _ _ hi.fill
      exact fillV2_ofJ_wf j hjw _ hjd
    · intro fs hfs
      have hc := hi.filters
      rw [hfs] at hc
      obtain ⟨xs, hl, hm⟩ := filtersOfJ_inv _ _ hc
      have hx := hw _ _ hl
      rw [arr_wf_iff] at hx
      intro f hf
      obtain ⟨x, hxm, hxf⟩ := mapM_some_mem _ _ _ hm f hf
      exact metaV2_ofJ_wfp x (hx x hxm) f hxf
    · rcases attrsOfJ_inv _ _ hi.attrs with ⟨_, e⟩ | hl
      · rw [e]; exact ⟨by simp [wfKVs], by simp [keysDistinct]⟩
      · have := hw _ _ hl
        rwa [obj_wf_iff] at this
    · intro kv hkv
      rw [hi.extra] at hkv
      exact extrasV2_wf _ _ hj.1 kv (List.mem_filter.1 hkv).1
  | null => simp [ArrayDocV2.ofJ] at h
  | bool _ => simp [ArrayDocV2.ofJ] at h
  | num _ => simp [ArrayDocV2.ofJ] at h
  | str _ => simp [ArrayDocV2.ofJ] at h
  | arr _ => simp [ArrayDocV2.ofJ] at h

theorem ArrayDocV2.wfParts_norm (d : ArrayDocV2) (h : d.wfParts) : d.norm.wfParts := by
  obtain ⟨h1, h2, h3, h4, h5, h6, h7, h8⟩ := h
  refine ⟨h1, h2, h3, h4, h5, ?_, h7, h8⟩
  intro fs hfs
  unfold ArrayDocV2.norm at hfs
  simp only at hfs
  split at hfs
  · cases hfs
  · exact h6 fs hfs

/-- the round trip through the stored text -/
theorem arrayDocV2_text_roundtrip (d : ArrayDocV2) (h : d.wfParts) (hs : d.shapeOk) (hn : ∀ kv ∈ d.extra, kv.1 ≠ kNodeType) :
    ArrayDocV2.ofText d.toText = some d := by
  unfold ArrayDocV2.ofText ArrayDocV2.toText
  rw [parse_print _ (arrayDocV2_toJ_wf d h hs hn)]
  exact arrayDocV2_ofJ_toJ d hs

/-! ### groups -/

structure GroupDocV2.wfParts (d : GroupDocV2) : Prop where
  attrs : wfKVs d.attrs ∧ keysDistinct d.attrs
  extra : ∀ kv ∈ d.extra, strOk kv.1 ∧ kv.2.field.wf

theorem groupDocV2_toJ_wf (d : GroupDocV2) (h : d.wfParts) (hs : d.shapeOk) : d.toJ.wf := by
  rw [GroupDocV2.toJ_eq, obj_wf_iff]
  have hgood : ∀ kv ∈ d.extra, strOk kv.1 ∧ AField.good kv.2 := fun kv hkv =>
    ⟨(h.extra kv hkv).1, (h.extra kv hkv).2, hs.extraShape kv hkv⟩
  refine ⟨?_, keysDistinct_known_extra groupKeysV2 groupKeysV2_nodup _ (groupDocV2_knownKeys_sublist d) _ hs.sorted hs.extraKeys⟩
  rw [wfKVs_iff]
  intro kv hkv
  unfold GroupDocV2.kvs at hkv
  rcases List.mem_append.1 hkv with hk | hk
  · refine ⟨groupKeysV2_strOk _ ((groupDocV2_knownKeys_sublist d).subset (List.mem_map_of_mem hk)), ?_⟩
    simp only [GroupDocV2.knownKVs, List.mem_append, List.mem_cons, List.not_mem_nil, or_false] at hk
    rcases hk with rfl | hk
    · exact (num_wf_iff _).2 tokOk_two
    · split at hk
      · cases hk
      · simp only [List.mem_cons, List.not_mem_nil, or_false] at hk
        subst hk
        exact (obj_wf_iff _).2 h.attrs
  · exact (wfKVs_iff _).1 (extraKVs_wf _ hgood) kv hk

theorem groupDocV2_ofJ_wfParts (j : J) (hj : j.wf) (d : GroupDocV2) (h : GroupDocV2.ofJ j = some d) : d.wfParts := by
  cases j with
  | obj o =>
    rw [obj_wf_iff] at hj
    have hi := groupDocV2_ofJ_inv o d h
    refine ⟨?_, ?_⟩
    · rcases attrsOfJ_inv _ _ hi.attrs with ⟨_, e⟩ | hl
      · rw [e]; exact ⟨by simp [wfKVs], by simp [keysDistinct]⟩
      · have := wf_of_lookup o hj.1 _ _ hl
        rwa [obj_wf_iff] at this
    · intro kv hkv
      rw [hi.extra] at hkv
      exact extrasV2_wf _ _ hj.1 kv hkv
  | null => simp [GroupDocV2.ofJ] at h
  | bool _ => simp [GroupDocV2.ofJ] at h
  | num _ => simp [GroupDocV2.ofJ] at h
  | str _ => simp [GroupDocV2.ofJ] at h
  | arr _ => simp [GroupDocV2.ofJ] at h

theorem groupDocV2_text_roundtrip (d : GroupDocV2) (h : d.wfParts) (hs : d.shapeOk) :
    GroupDocV2.ofText d.toText = some d := by
  unfold GroupDocV2.ofText GroupDocV2.toText
  rw [parse_print _ (groupDocV2_toJ_wf d h hs)]
  exact groupDocV2_ofJ_toJ d hs

end Zarrs.MetaV2
