import ZarrsModel.Model.Consolidated
import ZarrsModel.Lemmas.ConsSort
import ZarrsModel.Lemmas.Hier
import ZarrsModel.Lemmas.Meta
import ZarrsModel.Lemmas.Consolidated
/- helper lemmas for C13 (consolidated metadata): `Node::consolidate_metadata` over the hierarchy model -/
set_option Elab.async false
namespace Zarrs.Cons
open Zarrs Zarrs.Json Zarrs.Meta Zarrs.Hier

/-! ### the document reader is a `Hier.Reader` -/

def DocMeta.toMeta : DocMeta → Hier.Meta
  | .node d => .node d.kind
  | .missing => .missing
  | .invalid => .invalid

/-- **the hierarchy model with `docReader` sees exactly the kinds of the documents `Node::get_metadata` returns** -/
theorem getMeta_docReader (m : KV) (pre : Key) : getMeta docReader m pre = (getDoc m pre).toMeta := by
  unfold getMeta getDoc
  cases h1 : m.get (pre ++ kZarrJson) with
  | some v =>
    simp only [docReader]
    cases h2 : (parse v).bind nodeOfJ with
    | none => rfl
    | some d => cases d <;> rfl
  | none =>
    simp only [zattrsAt, docReader]
    cases h2 : m.get (pre ++ kZarray) with
    | some v =>
      cases h3 : MetaV2.ArrayDocV2.ofText v with
      | none => simp [h3, DocMeta.toMeta]
      | some d =>
        cases h4 : m.get (pre ++ kZattrs) with
        | none => simp [h3, DocMeta.toMeta, NodeDoc.kind]
        | some a => cases h5 : attrsOfText a <;> simp [h3, h5, DocMeta.toMeta, NodeDoc.kind]
    | none =>
      cases h3 : m.get (pre ++ kZgroup) with
      | some v =>
        cases h4 : MetaV2.GroupDocV2.ofText v with
        | none => simp [h4, DocMeta.toMeta]
        | some d =>
          cases h5 : m.get (pre ++ kZattrs) with
          | none => simp [h4, DocMeta.toMeta, NodeDoc.kind]
          | some a => cases h6 : attrsOfText a <;> simp [h4, h6, DocMeta.toMeta, NodeDoc.kind]
      | none => rfl

theorem getDoc_of_getMeta (m : KV) (q : Key) (k : Kind) (h : getMeta docReader m q = .node k) :
    ∃ d, getDoc m q = .node d ∧ d.kind = k := by
  rw [getMeta_docReader] at h
  cases hd : getDoc m q with
  | node d => rw [hd] at h; simp only [DocMeta.toMeta, Hier.Meta.node.injEq] at h; exact ⟨d, rfl, h⟩
  | missing => rw [hd] at h; cases h
  | invalid => rw [hd] at h; cases h

/-- if every value stored under a metadata key reads as what that key must hold, no prefix has unreadable metadata
    (other values - chunks, stray files - do not matter) -/
theorem readable_of_metaValues (r : Reader) (m : KV)
    (h : ∀ kv ∈ m, (kZarrJson.isSuffixOf kv.1 = true → r.cls kv.2 ≠ none) ∧ (kZarray.isSuffixOf kv.1 = true → r.okA kv.2 = true) ∧
      (kZgroup.isSuffixOf kv.1 = true → r.okG kv.2 = true) ∧ (kZattrs.isSuffixOf kv.1 = true → r.okAttrs kv.2 = true)) :
    ∀ pre, getMeta r m pre ≠ .invalid := by
  intro pre
  have hsuf : ∀ s : Key, s.isSuffixOf (pre ++ s) = true := fun s => by
    rw [List.isSuffixOf_iff_suffix]; exact List.suffix_append pre s
  rw [getMeta_eq]
  have hao : attrsOk r m pre = true := by
    unfold attrsOk
    split
    · rename_i a ha; exact (h _ (KV.get_mem m _ a ha)).2.2.2 (hsuf _)
    · rfl
  rw [hao]
  cases h1 : m.get (pre ++ kZarrJson) with
  | some v =>
    have := (h _ (KV.get_mem m _ v h1)).1 (hsuf _)
    simp only at this ⊢
    cases hc : r.cls v with
    | none => exact absurd hc this
    | some b => cases b <;> simp
  | none =>
    cases h2 : m.get (pre ++ kZarray) with
    | some v => simp [(h _ (KV.get_mem m _ v h2)).2.1 (hsuf _)]
    | none =>
      cases h3 : m.get (pre ++ kZgroup) with
      | some v => simp [(h _ (KV.get_mem m _ v h3)).2.2.1 (hsuf _)]
      | none => simp

/-! ### lists -/

theorem mapM_total {α β} (f : α → Option β) (g : α → β) (l : List α) (h : ∀ x ∈ l, f x = some (g x)) :
    l.mapM f = some (l.map g) := by
  induction l with
  | nil => rfl
  | cons x xs ih =>
    rw [List.mapM_cons, h x (List.mem_cons_self ..), ih (fun z hz => h z (List.mem_cons_of_mem _ hz))]
    rfl

/-- a list in which entries with the same key are the same entry -/
def functional {β} (l : List (Str × β)) : Prop := ∀ x ∈ l, ∀ y ∈ l, x.1 = y.1 → x = y

theorem mem_foldl_insertKV_fun {β} (l acc : List (Str × β)) (hf : functional (acc ++ l)) (x : Str × β)
    (hx : x ∈ acc ++ l) : x ∈ l.foldl (fun acc kv => insertKV kv.1 kv.2 acc) acc := by
  induction l generalizing acc with
  | nil => simpa using hx
  | cons y ys ih =>
    rw [List.foldl_cons]
    have hsub : ∀ z, z ∈ insertKV y.1 y.2 acc ++ ys → z ∈ acc ++ y :: ys := by
      intro z hz
      rcases List.mem_append.1 hz with hz | hz
      · rcases mem_insertKV_sub _ _ _ _ hz with rfl | hz
        · exact List.mem_append_right _ (List.mem_cons_self ..)
        · exact List.mem_append_left _ hz
      · exact List.mem_append_right _ (List.mem_cons_of_mem _ hz)
    refine ih _ (fun a ha b hb e => hf a (hsub a ha) b (hsub b hb) e) ?_
    rcases List.mem_append.1 hx with hx | hx
    · by_cases hk : x.1 = y.1
      · have : x = y := hf x (List.mem_append_left _ hx) y (List.mem_append_right _ (List.mem_cons_self ..)) hk
        subst this
        exact List.mem_append_left _ (mem_insertKV_self ..)
      · exact List.mem_append_left _ (mem_insertKV_of_mem _ _ _ _ hx hk)
    · rcases List.mem_cons.1 hx with rfl | hx
      · exact List.mem_append_left _ (mem_insertKV_self ..)
      · exact List.mem_append_right _ hx

theorem mem_sortKVs_fun {β} (l : List (Str × β)) (hf : functional l) (x : Str × β) : x ∈ sortKVs l ↔ x ∈ l :=
  ⟨mem_sortKVs_sub l x, fun hx => mem_foldl_insertKV_fun l [] (by simpa using hf) x (by simpa using hx)⟩

/-! ### relative keys -/

theorem keyBytes_ascii (k : Key) (h : ∀ c ∈ k, c.toNat < 128) : keyBytes k = k.map Char.toNat := by
  induction k with
  | nil => rfl
  | cons c cs ih =>
    unfold keyBytes at ih ⊢
    rw [List.flatMap_cons, ih (fun x hx => h x (List.mem_cons_of_mem _ hx)), List.map_cons]
    have : c.toNat < 0x80 := h c (List.mem_cons_self ..)
    simp [utf8, this]

theorem map_toNat_inj : ∀ (a b : List Char), a.map Char.toNat = b.map Char.toNat → a = b
  | [], [], _ => rfl
  | [], _ :: _, h => by simp at h
  | _ :: _, [], h => by simp at h
  | x :: xs, y :: ys, h => by
    simp only [List.map_cons, List.cons.injEq] at h
    have hxy : x = y := Char.ext (by
      have := h.1
      unfold Char.toNat at this
      exact UInt32.toNat_inj.1 this)
    rw [hxy, map_toNat_inj xs ys h.2]

theorem getLast?_append_ne_nil (a b : List Char) (h : b ≠ []) : (a ++ b).getLast? = b.getLast? := by
  rw [List.getLast?_append]
  cases hb : b.getLast? with
  | none => simp at hb; exact absurd hb h
  | some x => simp

/-- on ASCII keys, distinct nodes below `pre` get distinct relative keys -/
theorem relKey_inj (pre q1 q2 : Key) (h1 : pre <+: q1) (h2 : pre <+: q2)
    (l1 : q1.getLast? = some '/') (l2 : q2.getLast? = some '/') (n1 : q1 ≠ pre) (n2 : q2 ≠ pre)
    (a1 : ∀ c ∈ q1, c.toNat < 128) (a2 : ∀ c ∈ q2, c.toNat < 128) (h : relKey pre q1 = relKey pre q2) : q1 = q2 := by
  obtain ⟨r1, rfl⟩ := h1
  obtain ⟨r2, rfl⟩ := h2
  unfold relKey at h
  simp only [List.drop_left] at h
  have hr1 : r1 ≠ [] := fun e => n1 (by rw [e, List.append_nil])
  have hr2 : r2 ≠ [] := fun e => n2 (by rw [e, List.append_nil])
  have e1 : r1.getLast? = some '/' := by rw [getLast?_append_ne_nil _ _ hr1] at l1; exact l1
  have e2 : r2.getLast? = some '/' := by rw [getLast?_append_ne_nil _ _ hr2] at l2; exact l2
  obtain ⟨s1, rfl⟩ := List.getLast?_eq_some_iff.1 e1
  obtain ⟨s2, rfl⟩ := List.getLast?_eq_some_iff.1 e2
  simp only [List.dropLast_concat] at h
  rw [keyBytes_ascii s1 (fun c hc => a1 c (by simp [hc])), keyBytes_ascii s2 (fun c hc => a2 c (by simp [hc]))] at h
  rw [map_toNat_inj s1 s2 h]

/-! ### `Node::consolidate_metadata` -/

/-- the document at a prefix (a default where there is none) -/
def docAt (m : KV) (q : Key) : NodeDoc := match getDoc m q with | .node d => d | _ => default

theorem entryOf_node (m : KV) (pre : Key) (n : Key × Kind) (d : NodeDoc) (h : getDoc m n.1 = .node d) :
    entryOf m pre n = some (relKey pre n.1, docAt m n.1) := by
  unfold entryOf docAt; rw [h]

theorem below_facts (m : KV) (hA : ∀ k ∈ m.keys, ∀ c ∈ k, c.toNat < 128) (pre q : Key) (k : Kind)
    (h : below docReader m pre q k) :
    pre <+: q ∧ q ≠ pre ∧ q.getLast? = some '/' ∧ (∀ c ∈ q, c.toNat < 128) ∧ ∃ d, getDoc m q = .node d ∧ d.kind = k := by
  obtain ⟨h1, h2, h3, h4, _, _⟩ := h
  rw [List.isPrefixOf_iff_prefix] at h1
  refine ⟨h1, h2, ?_, ?_, getDoc_of_getMeta m q k h4⟩
  · unfold validPrefixB at h3
    simp only [Bool.or_eq_true, Bool.and_eq_true, beq_iff_eq] at h3
    rcases h3 with h3 | h3
    · have : q = [] := by simpa using h3
      subst this
      exact absurd (List.prefix_nil.1 h1).symm h2
    · exact h3.1
  · obtain ⟨key, hkey, hqk⟩ := node_has_key docReader m q k h4
    rw [List.isPrefixOf_iff_prefix] at hqk
    intro c hc
    exact hA key hkey c (hqk.subset hc)

theorem consolidate_spec (m : KV) (hv : ∀ k ∈ m.keys, validKeyB k = true)
    (hr : ∀ q, getMeta docReader m q ≠ .invalid) (hA : ∀ k ∈ m.keys, ∀ c ∈ k, c.toNat < 128)
    (pre : Key) (hp : dirShaped pre) (d : NodeDoc) (hd : getDoc m pre = .node d) (hg : d.kind.isGroup = true) :
    ∃ ns c, children docReader m true pre = some ns ∧ consolidate m pre = some (some c) ∧ sortedKeys c ∧
      ∀ key doc, (key, doc) ∈ c ↔
        ∃ q k, (q, k) ∈ ns ∧ key = relKey pre q ∧ getDoc m q = .node doc ∧ doc.kind = k := by
  obtain ⟨ns, hns, hmem⟩ := children_true docReader m hv hr pre hp
  have hfacts : ∀ n ∈ ns, pre <+: n.1 ∧ n.1 ≠ pre ∧ n.1.getLast? = some '/' ∧ (∀ c ∈ n.1, c.toNat < 128) ∧
      ∃ d, getDoc m n.1 = .node d ∧ d.kind = n.2 :=
    fun n hn => below_facts m hA pre n.1 n.2 ((hmem n.1 n.2).1 hn)
  have hes : ns.mapM (entryOf m pre) = some (ns.map (fun n => (relKey pre n.1, docAt m n.1))) :=
    mapM_total _ _ _ (fun n hn => by
      obtain ⟨_, _, _, _, d', hd', _⟩ := hfacts n hn
      exact entryOf_node m pre n d' hd')
  refine ⟨ns, sortKVs (ns.map (fun n => (relKey pre n.1, docAt m n.1))), hns, ?_, sortKVs_sorted _, ?_⟩
  · unfold consolidate
    rw [hd]
    simp only [hg, if_true, hns, hes, Option.map_some]
  · have hfun : functional (ns.map (fun n => (relKey pre n.1, docAt m n.1))) := by
      intro x hx y hy e
      obtain ⟨n1, hn1, rfl⟩ := List.mem_map.1 hx
      obtain ⟨n2, hn2, rfl⟩ := List.mem_map.1 hy
      obtain ⟨p1, q1, l1, a1, _⟩ := hfacts n1 hn1
      obtain ⟨p2, q2, l2, a2, _⟩ := hfacts n2 hn2
      have : n1.1 = n2.1 := relKey_inj pre n1.1 n2.1 p1 p2 l1 l2 q1 q2 a1 a2 e
      simp only [this]
    intro key doc
    rw [mem_sortKVs_fun _ hfun]
    constructor
    · intro h
      obtain ⟨n, hn, e⟩ := List.mem_map.1 h
      obtain ⟨_, _, _, _, d', hd', hk'⟩ := hfacts n hn
      simp only [Prod.mk.injEq] at e
      refine ⟨n.1, n.2, hn, e.1.symm, ?_, ?_⟩
      · rw [← e.2]; unfold docAt; rw [hd']
      · rw [← e.2]; unfold docAt; rw [hd']; exact hk'
    · rintro ⟨q, k, hn, rfl, hdoc, _⟩
      refine List.mem_map.2 ⟨(q, k), hn, ?_⟩
      simp only [Prod.mk.injEq, true_and]
      unfold docAt; rw [hdoc]

/-! ### stores holding written documents (used for the non-vacuity examples) -/

theorem parse_bind_node (d : NodeDoc) (h : d.ok) : (parse (print d.toJ)).bind nodeOfJ = some d := by
  rw [parse_print _ (nodeDoc_toJ_wf d h)]
  exact nodeOfJ_toJ d h

theorem getDoc_a3 (m : KV) (pre : Key) (a : ArrayDoc) (h : m.get (pre ++ kZarrJson) = some (print (NodeDoc.toJ (.a3 a))))
    (ha : NodeDoc.ok (.a3 a)) : getDoc m pre = .node (.a3 a) := by
  unfold getDoc; rw [h]; simp only [parse_bind_node _ ha]

theorem getDoc_g3 (m : KV) (pre : Key) (g : GroupDoc) (c : Option CMap)
    (h : m.get (pre ++ kZarrJson) = some (print (NodeDoc.toJ (.g3 g c)))) (hg : NodeDoc.ok (.g3 g c)) :
    getDoc m pre = .node (.g3 g c) := by
  unfold getDoc; rw [h]; simp only [parse_bind_node _ hg]

theorem getDoc_g2 (m : KV) (pre : Key) (g : MetaV2.GroupDocV2) (h1 : m.get (pre ++ kZarrJson) = none)
    (h2 : m.get (pre ++ kZarray) = none) (h3 : m.get (pre ++ kZgroup) = some g.toText) (h4 : m.get (pre ++ kZattrs) = none)
    (hg : g.wfParts ∧ g.shapeOk) : getDoc m pre = .node (.g2 g) := by
  unfold getDoc zattrsAt
  rw [h1, h2, h3, h4]
  simp only [MetaV2.groupDocV2_text_roundtrip g hg.1 hg.2]

theorem getDoc_missing (m : KV) (pre : Key) (h1 : m.get (pre ++ kZarrJson) = none)
    (h2 : m.get (pre ++ kZarray) = none) (h3 : m.get (pre ++ kZgroup) = none) : getDoc m pre = .missing := by
  unfold getDoc; rw [h1, h2, h3]

theorem cls_written (d : NodeDoc) (h : d.ok) (hk : d.kind = .array3 ∨ d.kind = .group3) :
    docReader.cls (print d.toJ) ≠ none := by
  simp only [docReader, parse_bind_node d h]
  cases d with
  | a3 a => simp
  | g3 g c => simp
  | a2 a => simp [NodeDoc.kind] at hk
  | g2 g => simp [NodeDoc.kind] at hk

end Zarrs.Cons
