import ZarrsModel.Lemmas.ChainSPEAll
import ZarrsModel.Lemmas.ChainSPEPlan
set_option Elab.async false
/- helper lemmas for C05 on chains, part 6: one sharding level — `shardPE` from a well-formed stored shard -/
namespace Zarrs.Partial
open Zarrs Zarrs.Codec Zarrs.Subset Zarrs.Shard Zarrs.ShardPE

/-! ### the re-encoded inner chunks -/

theorem filterMap_keys {α} (f : Nat → Option (Nat × α)) (hf : ∀ i p, f i = some p → p.1 = i) :
    ∀ l : List Nat, (l.filterMap f).map (·.1) = l.filter (fun i => (f i).isSome) := by
  intro l
  induction l with
  | nil => rfl
  | cons a as ih =>
    cases h : f a with
    | none => simp [h, ih]
    | some p => simp [h, ih, hf a p h]

theorem peEncode_mem (fill : Elem) (enc : List Elem → Bytes) (st : List (Option (List Elem))) (i : Nat)
    (ch : Option Bytes) :
    (i, ch) ∈ peEncode fill enc st ↔
      i < st.length ∧ ∃ x, st.getD i none = some x ∧ ch = (if x.all (· == fill) then none else some (enc x)) := by
  simp only [peEncode, List.mem_filterMap, List.mem_range]
  constructor
  · rintro ⟨j, hj, hm⟩
    cases hs : st.getD j none with
    | none => rw [hs] at hm; cases hm
    | some x =>
      rw [hs] at hm
      simp only [Option.some.injEq, Prod.mk.injEq] at hm
      obtain ⟨rfl, rfl⟩ := hm
      exact ⟨hj, x, hs, rfl⟩
  · rintro ⟨hi, x, hx, rfl⟩
    exact ⟨i, hi, by rw [hx]⟩

theorem peEncode_keys (fill : Elem) (enc : List Elem → Bytes) (st : List (Option (List Elem))) :
    ((peEncode fill enc st).map (·.1)).Nodup ∧ ∀ u ∈ peEncode fill enc st, u.1 < st.length := by
  constructor
  · unfold peEncode
    rw [filterMap_keys _ (by
      intro i p hp
      cases hs : st.getD i none with
      | none => rw [hs] at hp; cases hp
      | some x => rw [hs] at hp; cases hp; rfl)]
    exact List.Nodup.sublist List.filter_sublist List.nodup_range
  · intro u hu
    exact ((peEncode_mem fill enc st u.1 u.2).mp hu).1

theorem peEncode_key_iff (fill : Elem) (enc : List Elem → Bytes) (st : List (Option (List Elem))) (i : Nat)
    (hi : i < st.length) :
    i ∈ (peEncode fill enc st).map (·.1) ↔ ∃ x, st.getD i none = some x := by
  constructor
  · intro h
    obtain ⟨u, hu, rfl⟩ := List.mem_map.mp h
    obtain ⟨_, x, hx, _⟩ := (peEncode_mem fill enc st u.1 u.2).mp hu
    exact ⟨x, hx⟩
  · rintro ⟨x, hx⟩
    exact List.mem_map.mpr ⟨(i, _), (peEncode_mem fill enc st i _).mpr ⟨hi, x, hx, rfl⟩, rfl⟩

theorem sum_le_of_all_le (l : List Nat) (m : Nat) (h : ∀ x ∈ l, x ≤ m) : l.sum ≤ l.length * m := by
  induction l with
  | nil => simp
  | cons a as ih =>
    have := ih (fun x hx => h x (by simp [hx]))
    have := h a (by simp)
    simp only [List.sum_cons, List.length_cons, Nat.succ_mul]
    omega

theorem peEncode_size (fill : Elem) (enc : List Elem → Bytes) (st : List (Option (List Elem))) (M : Nat)
    (h : ∀ i x, st.getD i none = some x → (enc x).length ≤ M) :
    (((peEncode fill enc st).filterMap (·.2)).map List.length).sum ≤ st.length * M := by
  have h1 : ∀ b ∈ ((peEncode fill enc st).filterMap (·.2)).map List.length, b ≤ M := by
    intro b hb
    obtain ⟨y, hy, rfl⟩ := List.mem_map.mp hb
    obtain ⟨u, hu, huy⟩ := List.mem_filterMap.mp hy
    obtain ⟨_, x, hx, hch⟩ := (peEncode_mem fill enc st u.1 u.2).mp hu
    rw [hch] at huy
    split at huy
    · cases huy
    · cases huy; exact h _ x hx
  have h2 : (((peEncode fill enc st).filterMap (·.2)).map List.length).length ≤ st.length := by
    rw [List.length_map]
    refine Nat.le_trans (List.length_filterMap_le _ _) ?_
    unfold peEncode
    refine Nat.le_trans (List.length_filterMap_le _ _) ?_
    simp
  have := sum_le_of_all_le _ M h1
  exact Nat.le_trans this (Nat.mul_le_mul_right M h2)

/-! ### what the partial encoder finds -/

/-- an absent value: no index, nothing to read -/
theorem peOld_absent (h : BHandle) (hh : BHandleAbsent h) (n : Nat) :
    PEOld (List.replicate n (sentinel, sentinel)) (List.replicate n none) h n := by
  refine ⟨by simp, by simp, ?_, ?_⟩
  · intro i e he
    rw [List.getElem?_replicate] at he
    split at he
    · cases he
      constructor
      · intro hl; simp [isLive] at hl
      · rintro ⟨b, hb⟩
        rw [List.getElem?_replicate] at hb
        split at hb <;> cases hb
    · cases he
  · intro want hw
    right
    have : want = [] := by
      cases want with
      | nil => rfl
      | cons a as =>
        obtain ⟨b, hb⟩ := hw a (by simp)
        rw [List.getElem?_replicate] at hb
        split at hb <;> cases hb
    exact ⟨this, hh _⟩

/-- a well-formed stored shard served by the handle -/
theorem peOld_present (c : Cfg) (h : BHandle) (v : Bytes) (chunks : List (Option Bytes))
    (hh : BHandleOk h v) (hdec : decode c true v = .ok chunks) (hwf : wellFormed c v = true)
    (hsmall : v.length < sentinel) :
    ∃ idx ib, indexBytes c v = some ib ∧ decodeIndex c true ib = .ok idx ∧ currentIndex c (some v) = some idx ∧
      liveEnd idx ≤ v.length ∧ PEOld idx chunks h c.nChunks := by
  obtain ⟨idx, hcur, hlen, hold, _, hWF, _⟩ := old_facts c v chunks hdec hwf hsmall
  obtain ⟨ib, idx', hib, hdi, _⟩ := (wellFormed_iff c v).mp hwf
  have hidx : idx' = idx := by
    unfold currentIndex at hcur
    simp only [hib, hdi] at hcur
    exact Option.some.inj hcur
  subst hidx
  obtain ⟨hlc, hpt⟩ := (mapM_ok_iff _ _ _).mp hold
  refine ⟨idx', ib, hib, hdi, hcur, (liveEnd_le_iff idx' _).mpr (fun e he hl => (hWF.1 e he hl).1), hlen,
    by rw [← hlc, hlen], ?_, ?_⟩
  · intro i e he
    obtain ⟨ch, hch, hde⟩ := hpt i e he
    constructor
    · intro hl
      rw [decEntry_live v e hl] at hde
      split at hde
      · cases hde
      · cases hde; exact ⟨_, hch⟩
    · rintro ⟨b, hb⟩
      rw [hch] at hb
      cases hb
      cases hl : isLive e with
      | true => rfl
      | false => rw [decEntry_dead v e hl] at hde; cases hde
  · intro want hw
    left
    -- every wanted entry is live, inside the value, and holds its chunk
    have hfacts : ∀ i ∈ want, (ByteRange.fromStart (idx'.getD i (0, 0)).1 (some (idx'.getD i (0, 0)).2)).valid v.length = true ∧
        (ByteRange.fromStart (idx'.getD i (0, 0)).1 (some (idx'.getD i (0, 0)).2)).extract v = (chunks.getD i none).getD [] := by
      intro i hi
      obtain ⟨b, hb⟩ := hw i hi
      have hic : i < chunks.length := (List.getElem?_eq_some_iff.mp hb).1
      have hii : i < idx'.length := by rw [hlc]; exact hic
      obtain ⟨ch, hch, hde⟩ := hpt i idx'[i] (List.getElem?_eq_getElem hii)
      rw [hb] at hch
      cases hch
      have hl : isLive idx'[i] = true := by
        cases hl : isLive idx'[i] with
        | true => rfl
        | false => rw [decEntry_dead v _ hl] at hde; cases hde
      rw [decEntry_live v _ hl] at hde
      split at hde
      · cases hde
      · rename_i hle
        simp only [Except.ok.injEq, Option.some.injEq] at hde
        simp only [List.getD_eq_getElem?_getD, List.getElem?_eq_getElem hii, Option.getD_some, hb]
        refine ⟨by simp only [ByteRange.valid, Option.getD_some, decide_eq_true_eq]; omega, ?_⟩
        simp only [ByteRange.extract, ByteRange.start, ByteRange.stop]
        exact hde
    rw [hh _ (by
      intro r hr
      obtain ⟨i, hi, rfl⟩ := List.mem_map.mp hr
      exact (hfacts i hi).1)]
    congr 2
    rw [List.map_map]
    apply List.map_congr_left
    intro i hi
    exact (hfacts i hi).2

end Zarrs.Partial
