import ZarrsModel.Model.ShardPE
import ZarrsModel.Props.C03
import ZarrsModel.Props.C08
/- helper lemmas for C05 -/
namespace Zarrs.ShardPE

end Zarrs.ShardPE
