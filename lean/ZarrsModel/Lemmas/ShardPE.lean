import ZarrsModel.Lemmas.ShardPEBasic
import ZarrsModel.Lemmas.ShardPEIndex
import ZarrsModel.Lemmas.ShardPEFrame
import ZarrsModel.Lemmas.ShardPEMain
/- helper lemmas for C05, split into
   ShardPEBasic (byte strings, positional assignments, `mapM`, `liveEnd`, `wellFormed` as a proposition),
   ShardPEIndex (the folds of `partialEncodePinned`, the new index position by position),
   ShardPEFrame (the shape of the written value and what it decodes to),
   ShardPEMain  (the branches of `partialEncodePinned`, the main statements) -/
