import ZarrsModel.Model.Grid
/- helper lemmas for C10 -/
namespace Zarrs

/-! ### `scanOffsets`, `lastEnd`, `partitionPoint` -/

theorem scanOffsets_length (sizes : List Nat) : ∀ off, (scanOffsets off sizes).length = sizes.length := by
  induction sizes with
  | nil => intro off; rfl
  | cons s ss ih => intro off; simp [scanOffsets, ih]

theorem scanOffsets_map_snd (sizes : List Nat) : ∀ off, (scanOffsets off sizes).map (·.2) = sizes := by
  induction sizes with
  | nil => intro off; rfl
  | cons s ss ih => intro off; simp [scanOffsets, ih]

theorem lastEnd_cons_cons (p q : Nat × Nat) (l : List (Nat × Nat)) :
    lastEnd (p :: q :: l) = lastEnd (q :: l) := by
  simp [lastEnd, List.getLast?_cons_cons]

theorem lastEnd_scanOffsets (sizes : List Nat) :
    ∀ off, sizes ≠ [] → lastEnd (scanOffsets off sizes) = off + sizes.sum := by
  induction sizes with
  | nil => intro off h; exact absurd rfl h
  | cons s ss ih =>
    intro off _
    cases ss with
    | nil => simp [scanOffsets, lastEnd]
    | cons s' ss' =>
      have := ih (off + s) (by simp)
      simp only [scanOffsets] at this ⊢
      rw [lastEnd_cons_cons, this]
      simp [List.sum_cons]; omega

theorem lastEnd_scanOffsets_zero (sizes : List Nat) : lastEnd (scanOffsets 0 sizes) = sizes.sum := by
  cases sizes with
  | nil => simp [scanOffsets, lastEnd]
  | cons s ss => rw [lastEnd_scanOffsets _ _ (by simp)]; simp

theorem partitionPoint_lt (sizes : List Nat) (off i : Nat) (h : i < off) :
    partitionPoint i (scanOffsets off sizes) = 0 := by
  cases sizes with
  | nil => rfl
  | cons s ss => simp [scanOffsets, partitionPoint]; omega

/-- every element below the total extent lies in exactly the chunk that `partitionPoint` finds -/
theorem scan_locate (sizes : List Nat) : ∀ (off i : Nat), off ≤ i → i < off + sizes.sum →
    ∃ c o s, (scanOffsets off sizes)[c]? = some (o, s) ∧
      partitionPoint i (scanOffsets off sizes) = c + 1 ∧ o ≤ i ∧ i < o + s := by
  induction sizes with
  | nil => intro off i h1 h2; simp at h2; omega
  | cons s ss ih =>
    intro off i h1 h2
    simp only [List.sum_cons] at h2
    by_cases hlt : i < off + s
    · refine ⟨0, off, s, by simp [scanOffsets], ?_, h1, hlt⟩
      simp [scanOffsets, partitionPoint, h1, partitionPoint_lt ss (off + s) i hlt]
    · obtain ⟨c, o, s', hget, hpp, hle, hlt'⟩ := ih (off + s) i (by omega) (by omega)
      refine ⟨c + 1, o, s', by simpa [scanOffsets] using hget, ?_, hle, hlt'⟩
      simp [scanOffsets, partitionPoint, h1, hpp]; omega

theorem scan_off_le (sizes : List Nat) : ∀ (off k o s : Nat),
    (scanOffsets off sizes)[k]? = some (o, s) → off ≤ o := by
  induction sizes with
  | nil => intro off k o s h; simp [scanOffsets] at h
  | cons s0 ss ih =>
    intro off k o s h
    cases k with
    | zero => simp [scanOffsets] at h; omega
    | succ k =>
      simp only [scanOffsets, List.getElem?_cons_succ] at h
      have := ih _ _ _ _ h; omega

theorem scan_mono (sizes : List Nat) : ∀ (off c c' o s o' s' : Nat), c < c' →
    (scanOffsets off sizes)[c]? = some (o, s) → (scanOffsets off sizes)[c']? = some (o', s') →
    o + s ≤ o' := by
  induction sizes with
  | nil => intro off c c' o s o' s' _ h; simp [scanOffsets] at h
  | cons s0 ss ih =>
    intro off c c' o s o' s' hlt h h'
    cases c' with
    | zero => omega
    | succ c' =>
      simp only [scanOffsets, List.getElem?_cons_succ] at h'
      cases c with
      | zero =>
        simp [scanOffsets] at h
        have := scan_off_le _ _ _ _ _ h'; omega
      | succ c =>
        simp only [scanOffsets, List.getElem?_cons_succ] at h
        exact ih _ _ _ _ _ _ _ (by omega) h h'

/-! ### the per-dimension contract -/

/-- what the N-dimensional arguments need to know about one dimension `d` of a grid over an array
extent `a` with `G` chunks -/
structure DimOK (d : Dim) (a G : Nat) : Prop where
  locate : ∀ i, i < a → ∃ c o s, c < G ∧ d.chunkIndex i = some c ∧ d.origin c = some o ∧
    d.chunkShape c = some s ∧ o ≤ i ∧ i < o + s ∧ d.elemIndex i = some (i - o)
  defined : ∀ c, c < G → ∃ o s, d.origin c = some o ∧ d.chunkShape c = some s ∧ 0 < s
  mono : ∀ c c' o s o', c < c' → c' < G → d.origin c = some o → d.chunkShape c = some s →
    d.origin c' = some o' → o + s ≤ o'

theorem ceil_le (s a : Nat) (hs : 0 < s) : a ≤ (a + s - 1) / s * s := by
  have h := Nat.div_add_mod (a + s - 1) s
  have h2 := Nat.mod_lt (a + s - 1) hs
  rw [Nat.mul_comm] at h
  omega

theorem ceil_pred_lt (s a : Nat) (hs : 0 < s) (ha : 0 < a) : ((a + s - 1) / s - 1) * s < a := by
  have h := Nat.div_add_mod (a + s - 1) s
  have h2 := Nat.mod_lt (a + s - 1) hs
  rw [Nat.mul_comm] at h
  rw [Nat.sub_mul]
  omega

theorem dimOK_fixed (s a : Nat) (hs : 0 < s) : DimOK (.fixed s) a ((a + s - 1) / s) where
  locate := by
    intro i hi
    refine ⟨i / s, i / s * s, s, ?_, rfl, rfl, rfl, Nat.div_mul_le_self i s, ?_, ?_⟩
    · rw [Nat.div_lt_iff_lt_mul hs]
      exact Nat.lt_of_lt_of_le hi (ceil_le s a hs)
    · have h := Nat.div_add_mod i s
      have h2 := Nat.mod_lt i hs
      rw [Nat.mul_comm] at h; omega
    · have h := Nat.div_add_mod i s
      rw [Nat.mul_comm] at h
      simp only [Dim.elemIndex]; congr 1; omega
  defined := fun c _ => ⟨c * s, s, rfl, rfl, hs⟩
  mono := by
    intro c c' o s' o' hlt _ ho hs' ho'
    simp only [Dim.origin, Dim.chunkShape, Option.some.injEq] at ho hs' ho'
    subst ho hs' ho'
    have := Nat.mul_le_mul_right s (show c + 1 ≤ c' from hlt)
    rw [Nat.add_mul] at this; omega

theorem dimOK_varying (sizes : List Nat) (hpos : ∀ s ∈ sizes, 0 < s) :
    DimOK (.varying (scanOffsets 0 sizes)) sizes.sum sizes.length where
  locate := by
    intro i hi
    obtain ⟨c, o, s, hget, hpp, hle, hlt⟩ := scan_locate sizes 0 i (Nat.zero_le _) (by omega)
    have hc : c < sizes.length := by
      have := (List.getElem?_eq_some_iff.mp hget).1
      rwa [scanOffsets_length] at this
    have hci : (Dim.varying (scanOffsets 0 sizes)).chunkIndex i = some c := by
      simp [Dim.chunkIndex, lastEnd_scanOffsets_zero, hi, hpp]
    refine ⟨c, o, s, hc, hci, by simp [Dim.origin, hget], by simp [Dim.chunkShape, hget], hle, hlt, ?_⟩
    simp only [Dim.elemIndex, hci]
    simp [Dim.origin, hget]
  defined := by
    intro c hc
    have hc' : c < (scanOffsets 0 sizes).length := by rwa [scanOffsets_length]
    have hget : (scanOffsets 0 sizes)[c]? = some (scanOffsets 0 sizes)[c] := List.getElem?_eq_getElem hc'
    refine ⟨(scanOffsets 0 sizes)[c].1, (scanOffsets 0 sizes)[c].2,
      by simp [Dim.origin, hget], by simp [Dim.chunkShape, hget], ?_⟩
    apply hpos
    have : (scanOffsets 0 sizes)[c].2 ∈ (scanOffsets 0 sizes).map (·.2) :=
      List.mem_map.mpr ⟨_, List.getElem_mem hc', rfl⟩
    rwa [scanOffsets_map_snd] at this
  mono := by
    intro c c' o s o' hlt _ ho hs ho'
    simp only [Dim.origin, Dim.chunkShape, Option.map_eq_some_iff] at ho hs ho'
    obtain ⟨⟨o1, s1⟩, h1, rfl⟩ := ho
    obtain ⟨⟨o2, s2⟩, h2, rfl⟩ := hs
    obtain ⟨⟨o3, s3⟩, h3, rfl⟩ := ho'
    rw [h1] at h2
    simp only [Option.some.injEq, Prod.mk.injEq] at h2
    obtain ⟨rfl, rfl⟩ := h2
    exact scan_mono sizes 0 c c' _ _ _ _ hlt h1 h3

end Zarrs
