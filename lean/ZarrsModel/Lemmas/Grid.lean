import ZarrsModel.Model.Grid
/- helper lemmas for C10 -/
namespace Zarrs

/-! ### `scanOffsets`, `lastEnd`, `partitionPoint` -/

theorem scanOffsets_length (sizes : List Nat) : ∀ off, (scanOffsets off sizes).length = sizes.length := by
  induction sizes with
  | nil => intro off; rfl
  | cons s ss ih => intro off; simp [scanOffsets, ih]

theorem scanOffsets_map_snd (sizes : List Nat) : ∀ off, (scanOffsets off sizes).map (·.2) = sizes := by
  induction sizes with
  | nil => intro off; rfl
  | cons s ss ih => intro off; simp [scanOffsets, ih]

theorem lastEnd_cons_cons (p q : Nat × Nat) (l : List (Nat × Nat)) :
    lastEnd (p :: q :: l) = lastEnd (q :: l) := by
  simp [lastEnd, List.getLast?_cons_cons]

theorem lastEnd_scanOffsets (sizes : List Nat) :
    ∀ off, sizes ≠ [] → lastEnd (scanOffsets off sizes) = off + sizes.sum := by
  induction sizes with
  | nil => intro off h; exact absurd rfl h
  | cons s ss ih =>
    intro off _
    cases ss with
    | nil => simp [scanOffsets, lastEnd]
    | cons s' ss' =>
      have := ih (off + s) (by simp)
      simp only [scanOffsets] at this ⊢
      rw [lastEnd_cons_cons, this]
      simp [List.sum_cons]; omega

theorem lastEnd_scanOffsets_zero (sizes : List Nat) : lastEnd (scanOffsets 0 sizes) = sizes.sum := by
  cases sizes with
  | nil => simp [scanOffsets, lastEnd]
  | cons s ss => rw [lastEnd_scanOffsets _ _ (by simp)]; simp

theorem partitionPoint_lt (sizes : List Nat) (off i : Nat) (h : i < off) :
    partitionPoint i (scanOffsets off sizes) = 0 := by
  cases sizes with
  | nil => rfl
  | cons s ss => simp [scanOffsets, partitionPoint]; omega

/-- every element below the total extent lies in exactly the chunk that `partitionPoint` finds -/
theorem scan_locate (sizes : List Nat) : ∀ (off i : Nat), off ≤ i → i < off + sizes.sum →
    ∃ c o s, (scanOffsets off sizes)[c]? = some (o, s) ∧
      partitionPoint i (scanOffsets off sizes) = c + 1 ∧ o ≤ i ∧ i < o + s := by
  induction sizes with
  | nil => intro off i h1 h2; simp at h2; omega
  | cons s ss ih =>
    intro off i h1 h2
    simp only [List.sum_cons] at h2
    by_cases hlt : i < off + s
    · refine ⟨0, off, s, by simp [scanOffsets], ?_, h1, hlt⟩
      simp [scanOffsets, partitionPoint, h1, partitionPoint_lt ss (off + s) i hlt]
    · obtain ⟨c, o, s', hget, hpp, hle, hlt'⟩ := ih (off + s) i (by omega) (by omega)
      refine ⟨c + 1, o, s', by simpa [scanOffsets] using hget, ?_, hle, hlt'⟩
      simp [scanOffsets, partitionPoint, h1, hpp]; omega

theorem scan_off_le (sizes : List Nat) : ∀ (off k o s : Nat),
    (scanOffsets off sizes)[k]? = some (o, s) → off ≤ o := by
  induction sizes with
  | nil => intro off k o s h; simp [scanOffsets] at h
  | cons s0 ss ih =>
    intro off k o s h
    cases k with
    | zero => simp [scanOffsets] at h; omega
    | succ k =>
      simp only [scanOffsets, List.getElem?_cons_succ] at h
      have := ih _ _ _ _ h; omega

theorem scan_mono (sizes : List Nat) : ∀ (off c c' o s o' s' : Nat), c < c' →
    (scanOffsets off sizes)[c]? = some (o, s) → (scanOffsets off sizes)[c']? = some (o', s') →
    o + s ≤ o' := by
  induction sizes with
  | nil => intro off c c' o s o' s' _ h; simp [scanOffsets] at h
  | cons s0 ss ih =>
    intro off c c' o s o' s' hlt h h'
    cases c' with
    | zero => omega
    | succ c' =>
      simp only [scanOffsets, List.getElem?_cons_succ] at h'
      cases c with
      | zero =>
        simp [scanOffsets] at h
        have := scan_off_le _ _ _ _ _ h'; omega
      | succ c =>
        simp only [scanOffsets, List.getElem?_cons_succ] at h
        exact ih _ _ _ _ _ _ _ (by omega) h h'

/-! ### the per-dimension contract -/

/-- what the N-dimensional arguments need to know about one dimension `d` of a grid over an array
extent `a` with `G` chunks -/
structure DimOK (d : Dim) (a G : Nat) : Prop where
  locate : ∀ i, i < a → ∃ c o s, c < G ∧ d.chunkIndex i = some c ∧ d.origin c = some o ∧
    d.chunkShape c = some s ∧ o ≤ i ∧ i < o + s ∧ d.elemIndex i = some (i - o)
  defined : ∀ c, c < G → ∃ o s, d.origin c = some o ∧ d.chunkShape c = some s ∧ 0 < s
  mono : ∀ c c' o s o', c < c' → c' < G → d.origin c = some o → d.chunkShape c = some s →
    d.origin c' = some o' → o + s ≤ o'

theorem ceil_le (s a : Nat) (hs : 0 < s) : a ≤ (a + s - 1) / s * s := by
  have h := Nat.div_add_mod (a + s - 1) s
  have h2 := Nat.mod_lt (a + s - 1) hs
  rw [Nat.mul_comm] at h
  omega

theorem ceil_pred_lt (s a : Nat) (hs : 0 < s) (ha : 0 < a) : ((a + s - 1) / s - 1) * s < a := by
  have h := Nat.div_add_mod (a + s - 1) s
  have h2 := Nat.mod_lt (a + s - 1) hs
  rw [Nat.mul_comm] at h
  rw [Nat.sub_mul]
  omega

theorem dimOK_fixed (s a : Nat) (hs : 0 < s) : DimOK (.fixed s) a ((a + s - 1) / s) where
  locate := by
    intro i hi
    refine ⟨i / s, i / s * s, s, ?_, rfl, rfl, rfl, Nat.div_mul_le_self i s, ?_, ?_⟩
    · rw [Nat.div_lt_iff_lt_mul hs]
      exact Nat.lt_of_lt_of_le hi (ceil_le s a hs)
    · have h := Nat.div_add_mod i s
      have h2 := Nat.mod_lt i hs
      rw [Nat.mul_comm] at h; omega
    · have h := Nat.div_add_mod i s
      rw [Nat.mul_comm] at h
      simp only [Dim.elemIndex]; congr 1; omega
  defined := fun c _ => ⟨c * s, s, rfl, rfl, hs⟩
  mono := by
    intro c c' o s' o' hlt _ ho hs' ho'
    simp only [Dim.origin, Dim.chunkShape, Option.some.injEq] at ho hs' ho'
    subst ho hs' ho'
    have := Nat.mul_le_mul_right s (show c + 1 ≤ c' from hlt)
    rw [Nat.add_mul] at this; omega

theorem dimOK_varying (sizes : List Nat) (hpos : ∀ s ∈ sizes, 0 < s) :
    DimOK (.varying (scanOffsets 0 sizes)) sizes.sum sizes.length where
  locate := by
    intro i hi
    obtain ⟨c, o, s, hget, hpp, hle, hlt⟩ := scan_locate sizes 0 i (Nat.zero_le _) (by omega)
    have hc : c < sizes.length := by
      have := (List.getElem?_eq_some_iff.mp hget).1
      rwa [scanOffsets_length] at this
    have hci : (Dim.varying (scanOffsets 0 sizes)).chunkIndex i = some c := by
      simp [Dim.chunkIndex, lastEnd_scanOffsets_zero, hi, hpp]
    refine ⟨c, o, s, hc, hci, by simp [Dim.origin, hget], by simp [Dim.chunkShape, hget], hle, hlt, ?_⟩
    simp only [Dim.elemIndex, hci]
    simp [Dim.origin, hget]
  defined := by
    intro c hc
    have hc' : c < (scanOffsets 0 sizes).length := by rwa [scanOffsets_length]
    have hget : (scanOffsets 0 sizes)[c]? = some (scanOffsets 0 sizes)[c] := List.getElem?_eq_getElem hc'
    refine ⟨(scanOffsets 0 sizes)[c].1, (scanOffsets 0 sizes)[c].2,
      by simp [Dim.origin, hget], by simp [Dim.chunkShape, hget], ?_⟩
    apply hpos
    have : (scanOffsets 0 sizes)[c].2 ∈ (scanOffsets 0 sizes).map (·.2) :=
      List.mem_map.mpr ⟨_, List.getElem_mem hc', rfl⟩
    rwa [scanOffsets_map_snd] at this
  mono := by
    intro c c' o s o' hlt _ ho hs ho'
    simp only [Dim.origin, Dim.chunkShape, Option.map_eq_some_iff] at ho hs ho'
    obtain ⟨⟨o1, s1⟩, h1, rfl⟩ := ho
    obtain ⟨⟨o2, s2⟩, h2, rfl⟩ := hs
    obtain ⟨⟨o3, s3⟩, h3, rfl⟩ := ho'
    rw [h1] at h2
    simp only [Option.some.injEq, Prod.mk.injEq] at h2
    obtain ⟨rfl, rfl⟩ := h2
    exact scan_mono sizes 0 c c' _ _ _ _ hlt h1 h3

theorem dimOK_new (c : DimCfg) (a G : Nat) (hwf : Grid.wfDim (Dim.new c) = true)
    (hG : (Dim.new c).gridShape a = some G) : DimOK (Dim.new c) a G := by
  cases c with
  | fixed s =>
    simp only [Dim.new, Grid.wfDim, decide_eq_true_eq] at hwf
    simp only [Dim.new, Dim.gridShape, Option.some.injEq] at hG
    subst hG
    exact dimOK_fixed s a hwf
  | varying sizes =>
    simp only [Dim.new, Grid.wfDim, List.all_eq_true, decide_eq_true_eq] at hwf
    simp only [Dim.new, Dim.gridShape, lastEnd_scanOffsets_zero, scanOffsets_length] at hG
    split at hG
    · rename_i h
      simp only [beq_iff_eq] at h
      simp only [Option.some.injEq] at hG
      subst h hG
      apply dimOK_varying
      intro s hs
      rw [← scanOffsets_map_snd sizes 0] at hs
      obtain ⟨p, hp, rfl⟩ := List.mem_map.mp hs
      exact hwf p hp
    · cases hG

/-- two chunks below the grid shape containing the same element are the same chunk -/
theorem DimOK.uniq {d : Dim} {a G : Nat} (h : DimOK d a G) {c c' o s o' s' i : Nat}
    (hc : c < G) (hc' : c' < G)
    (ho : d.origin c = some o) (hs : d.chunkShape c = some s) (h1 : o ≤ i) (h2 : i < o + s)
    (ho' : d.origin c' = some o') (hs' : d.chunkShape c' = some s') (h1' : o' ≤ i) (h2' : i < o' + s') :
    c' = c := by
  rcases Nat.lt_trichotomy c c' with hlt | heq | hgt
  · have := h.mono c c' o s o' hlt hc' ho hs ho'; omega
  · exact heq.symm
  · have := h.mono c' c o' s' o hgt hc ho' hs' ho; omega

/-- one dimension of `chunks_in_array_subset` -/
theorem DimOK.chunksIn {d : Dim} {a G : Nat} (h : DimOK d a G) (st sh : Nat) (hle : st + sh ≤ a)
    (hpos : 0 < sh) :
    ∃ cs ce, d.chunkIndex st = some cs ∧ d.chunkIndex (st + sh - 1) = some ce ∧
      ∀ c, (cs ≤ c ∧ c < cs + (ce - cs + 1)) ↔
        (c < G ∧ ∃ o s i, d.origin c = some o ∧ d.chunkShape c = some s ∧ o ≤ i ∧ i < o + s ∧
          st ≤ i ∧ i < st + sh) := by
  obtain ⟨cs, os, ss, hcsG, hcs, hos, hss, hs1, hs2, -⟩ := h.locate st (by omega)
  obtain ⟨ce, oe, se, hceG, hce, hoe, hse, he1, he2, -⟩ := h.locate (st + sh - 1) (by omega)
  have hcse : cs ≤ ce := by
    apply Nat.le_of_not_lt
    intro hlt
    have := h.mono ce cs oe se os hlt hcsG hoe hse hos
    omega
  refine ⟨cs, ce, hcs, hce, ?_⟩
  intro c
  constructor
  · rintro ⟨h1, h2⟩
    have hcG : c < G := by omega
    obtain ⟨o, s, ho, hs, hspos⟩ := h.defined c hcG
    refine ⟨hcG, o, s, max o st, ho, hs, ?_⟩
    have hA : st < o + s := by
      rcases Nat.lt_or_ge cs c with hlt | hge
      · have := h.mono cs c os ss o hlt hcG hos hss ho; omega
      · have : c = cs := by omega
        subst this
        rw [hos] at ho; rw [hss] at hs
        cases ho; cases hs; exact hs2
    have hB : o ≤ st + sh - 1 := by
      rcases Nat.lt_or_ge c ce with hlt | hge
      · have := h.mono c ce o s oe hlt hceG ho hs hoe; omega
      · have : c = ce := by omega
        subst this
        rw [hoe] at ho
        cases ho; exact he1
    omega
  · rintro ⟨hcG, o, s, i, ho, hs, h1, h2, h3, h4⟩
    have hA : cs ≤ c := by
      apply Nat.le_of_not_lt
      intro hlt
      have := h.mono c cs o s os hlt hcsG ho hs hos
      omega
    have hB : c ≤ ce := by
      apply Nat.le_of_not_lt
      intro hlt
      have := h.mono ce c oe se o hlt hcG hoe hse ho
      omega
    omega

/-! ### lifting to N dimensions -/

theorem match_cons_some {α} {x : Option α} {y : Option (List α)} {l : List α} :
    (match x, y with
      | some c, some cs => some (c :: cs)
      | _, _ => none) = some l ↔ ∃ c cs, x = some c ∧ y = some cs ∧ l = c :: cs := by
  cases x <;> cases y <;> simp [eq_comm]

theorem zipOpt_cons {α β γ} (f : α → β → Option γ) (a : α) (as : List α) (b : β) (bs : List β) :
    zipOpt f (a :: as) (b :: bs) =
      (match f a b, zipOpt f as bs with
        | some c, some cs => some (c :: cs)
        | _, _ => none) := rfl

theorem zipOpt_cons_some {α β γ} {f : α → β → Option γ} {a : α} {as : List α} {b : β} {bs : List β}
    {l : List γ} :
    zipOpt f (a :: as) (b :: bs) = some l ↔
      ∃ c cs, f a b = some c ∧ zipOpt f as bs = some cs ∧ l = c :: cs := by
  rw [zipOpt_cons]; exact match_cons_some

theorem zipOpt_cons_eq {α β γ} {f : α → β → Option γ} {a : α} {as : List α} {b : β} {bs : List β}
    {c : γ} {cs : List γ} (h1 : f a b = some c) (h2 : zipOpt f as bs = some cs) :
    zipOpt f (a :: as) (b :: bs) = some (c :: cs) :=
  zipOpt_cons_some.mpr ⟨c, cs, h1, h2, rfl⟩

theorem zipOpt_nil_left {α β γ} (f : α → β → Option γ) (bs : List β) : zipOpt f [] bs = some [] := by
  unfold zipOpt; rfl

theorem zipOpt_nil_right {α β γ} (f : α → β → Option γ) (as : List α) : zipOpt f as [] = some [] := by
  cases as <;> (unfold zipOpt; rfl)

/-- per-dimension contract for a whole grid -/
inductive GridOK : Grid → Shape → Shape → Prop
  | nil : GridOK [] [] []
  | cons {d : Dim} {a G : Nat} {ds : Grid} {as Gs : Shape} :
      DimOK d a G → GridOK ds as Gs → GridOK (d :: ds) (a :: as) (G :: Gs)

theorem gridOK_new : ∀ (cfg : List DimCfg) (arr G : Shape), (Grid.new cfg).wf = true →
    (Grid.new cfg).gridShape arr = some G → arr.length = cfg.length → GridOK (Grid.new cfg) arr G := by
  intro cfg
  induction cfg with
  | nil =>
    intro arr G _ hG hlen
    cases arr with
    | nil =>
      simp only [Grid.new, List.map_nil, Grid.gridShape, zipOpt_nil_left, Option.some.injEq] at hG
      subst hG; exact .nil
    | cons _ _ => simp at hlen
  | cons c cfg ih =>
    intro arr G hwf hG hlen
    cases arr with
    | nil => simp at hlen
    | cons a as =>
      simp only [Grid.new, List.map_cons, Grid.wf, List.all_cons, Bool.and_eq_true] at hwf
      simp only [Grid.new, List.map_cons, Grid.gridShape] at hG
      obtain ⟨G0, Gs, h0, hs, rfl⟩ := zipOpt_cons_some.mp hG
      exact .cons (dimOK_new c a G0 hwf.1 h0)
        (ih as Gs hwf.2 hs (by simpa using hlen))

/-- existence, uniqueness and mutual consistency of the chunk queries, N-dimensional -/
theorem GridOK.locate {g : Grid} {arr G : Shape} (h : GridOK g arr G) :
    ∀ i : Idx, inB i arr = true →
    ∃ c o s e, g.chunkIndices i = some c ∧ inB c G = true ∧ g.chunkOrigin c = some o ∧
      g.chunkShape c = some s ∧ g.chunkElementIndices i = some e ∧ addIdx e o = i ∧
      inB e s = true ∧ Subset.mem i o s = true ∧
      ∀ c' o' s', inB c' G = true → g.chunkOrigin c' = some o' → g.chunkShape c' = some s' →
        Subset.mem i o' s' = true → c' = c := by
  induction h with
  | nil =>
    intro i hi
    cases i with
    | cons _ _ => simp [inB] at hi
    | nil =>
      refine ⟨[], [], [], [], ?_, ?_, ?_, ?_, ?_, ?_, ?_, ?_, ?_⟩ <;>
        try (simp [Grid.chunkIndices, Grid.chunkOrigin, Grid.chunkShape, Grid.chunkElementIndices,
          zipOpt_nil_left, inB, addIdx, Subset.mem])
      intro c' _ _ hc'
      cases c' with
      | nil => intros; rfl
      | cons _ _ => simp [inB] at hc'
  | @cons d a G0 ds as Gs hd _ ih =>
    intro i hi
    cases i with
    | nil => simp [inB] at hi
    | cons i0 is =>
      simp only [inB, Bool.and_eq_true, decide_eq_true_eq] at hi
      obtain ⟨c0, o0, s0, hc0G, hci0, ho0, hs0, hle0, hlt0, hel0⟩ := hd.locate i0 hi.1
      obtain ⟨c, o, s, e, hci, hcG, ho, hs, hel, hadd, hes, hmem, huniq⟩ := ih is hi.2
      refine ⟨c0 :: c, o0 :: o, s0 :: s, (i0 - o0) :: e, zipOpt_cons_eq hci0 hci, ?_,
        zipOpt_cons_eq ho0 ho, zipOpt_cons_eq hs0 hs, zipOpt_cons_eq hel0 hel, ?_, ?_, ?_, ?_⟩
      · simp [inB, hc0G, hcG]
      · simp only [addIdx, hadd]; congr 1; omega
      · simp only [inB, hes, Bool.and_true, decide_eq_true_eq]; omega
      · simp [Subset.mem, hle0, hlt0, hmem]
      · intro c' o' s' hc' ho' hs' hmem'
        cases c' with
        | nil => simp [inB] at hc'
        | cons c0' ct' =>
          simp only [inB, Bool.and_eq_true, decide_eq_true_eq] at hc'
          obtain ⟨o0', ot', ho0', hot', rfl⟩ := zipOpt_cons_some.mp ho'
          obtain ⟨s0', st', hs0', hst', rfl⟩ := zipOpt_cons_some.mp hs'
          simp only [Subset.mem, Bool.and_eq_true, decide_eq_true_eq] at hmem'
          have e0 : c0' = c0 :=
            hd.uniq hc0G hc'.1 ho0 hs0 hle0 hlt0 ho0' hs0' hmem'.1.1 hmem'.1.2
          have et : ct' = c := huniq ct' ot' st' hc'.2 hot' hst' hmem'.2
          rw [e0, et]

/-- `chunks_in_array_subset`, N-dimensional, on the start/shape lists of the region -/
theorem GridOK.chunksIn {g : Grid} {arr G : Shape} (h : GridOK g arr G) :
    ∀ st sh : List Nat, st.length = g.length → sh.length = g.length →
    Subset.allLe (addIdx st sh) arr = true → sh.any (· == 0) = false →
    ∃ cs ce, g.chunkIndices st = some cs ∧ g.chunkIndices ((addIdx st sh).map (· - 1)) = some ce ∧
      ∀ c, Subset.mem c cs ((Subset.zipSub ce cs).map (· + 1)) = true ↔
        (inB c G = true ∧ ∃ o s i, g.chunkOrigin c = some o ∧ g.chunkShape c = some s ∧
          Subset.mem i o s = true ∧ Subset.mem i st sh = true) := by
  induction h with
  | nil =>
    intro st sh hst hsh _ _
    cases st with
    | cons _ _ => simp at hst
    | nil =>
    cases sh with
    | cons _ _ => simp at hsh
    | nil =>
      refine ⟨[], [], by simp [Grid.chunkIndices, zipOpt_nil_left],
        by simp [Grid.chunkIndices, zipOpt_nil_left], ?_⟩
      intro c
      cases c with
      | nil =>
        simp only [Subset.zipSub, List.map_nil, Subset.mem, inB, true_and, true_iff]
        exact ⟨[], [], [], by simp [Grid.chunkOrigin, zipOpt_nil_left],
          by simp [Grid.chunkShape, zipOpt_nil_left], rfl, rfl⟩
      | cons _ _ => simp [Subset.mem, inB]
  | @cons d a G0 ds as Gs hd _ ih =>
    intro st sh hst hsh hle hne
    cases st with
    | nil => simp at hst
    | cons st0 stt =>
    cases sh with
    | nil => simp at hsh
    | cons sh0 sht =>
      simp only [addIdx, Subset.allLe, Bool.and_eq_true, decide_eq_true_eq] at hle
      simp only [List.any_cons, Bool.or_eq_false_iff, beq_eq_false_iff_ne, ne_eq] at hne
      obtain ⟨cs0, ce0, hcs0, hce0, hiff0⟩ := hd.chunksIn st0 sh0 hle.1 (by omega)
      obtain ⟨cs, ce, hcs, hce, hiff⟩ := ih stt sht (by simpa using hst) (by simpa using hsh) hle.2 hne.2
      refine ⟨cs0 :: cs, ce0 :: ce, zipOpt_cons_eq hcs0 hcs, ?_, ?_⟩
      · simp only [addIdx, List.map_cons]
        exact zipOpt_cons_eq hce0 hce
      · intro c
        cases c with
        | nil => simp [Subset.mem, inB]
        | cons c0 ct =>
          simp only [Subset.zipSub, List.map_cons, Subset.mem, Bool.and_eq_true, decide_eq_true_eq,
            inB]
          rw [hiff0 c0, hiff ct]
          constructor
          · rintro ⟨⟨hc0, o0, s0, i0, ho0, hs0, h1, h2, h3, h4⟩, hct, o, s, i, ho, hs, hm1, hm2⟩
            refine ⟨⟨hc0, hct⟩, o0 :: o, s0 :: s, i0 :: i, zipOpt_cons_eq ho0 ho,
              zipOpt_cons_eq hs0 hs, ?_, ?_⟩
            · simp [Subset.mem, h1, h2, hm1]
            · simp [Subset.mem, h3, h4, hm2]
          · rintro ⟨⟨hc0, hct⟩, o, s, i, ho, hs, hm1, hm2⟩
            obtain ⟨o0, ot, ho0, hot, rfl⟩ := zipOpt_cons_some.mp ho
            obtain ⟨s0, st', hs0, hst', rfl⟩ := zipOpt_cons_some.mp hs
            cases i with
            | nil => simp [Subset.mem] at hm1
            | cons i0 it =>
              simp only [Subset.mem, Bool.and_eq_true, decide_eq_true_eq] at hm1 hm2
              exact ⟨⟨hc0, o0, s0, i0, ho0, hs0, hm1.1.1, hm1.1.2, hm2.1.1, hm2.1.2⟩,
                hct, ot, st', it, hot, hst', hm1.2, hm2.2⟩

theorem Grid.subset_eq_some {g : Grid} {c : Idx} {sub : Subset} :
    g.subset c = some sub ↔ ∃ o s, g.chunkOrigin c = some o ∧ g.chunkShape c = some s ∧ sub = ⟨o, s⟩ := by
  unfold Grid.subset
  cases g.chunkOrigin c <;> cases g.chunkShape c <;> simp [eq_comm]

end Zarrs
