import ZarrsModel.Lemmas.PartialArray
/- helper lemmas for C02, part 5: the `squeeze` partial decoder -/
namespace Zarrs.Partial
open Zarrs Zarrs.Codec

/-- the (start, extent, chunk extent) triples `SqueezePartialDecoder` keeps -/
def sqKeep (st n a : List Nat) : List ((Nat × Nat) × Nat) :=
  (List.zip (List.zip st n) a).filter (fun p => p.2 > 1)

theorem squeezeRegion_eq (sh : Shape) (r : Subset) :
    squeezeRegion sh r =
      (if r.isEmpty then
        Subset.newEmpty (if ((sqKeep r.start r.shape sh).map (·.1.1)).isEmpty then [0] else
          (sqKeep r.start r.shape sh).map (·.1.1)).length
      else if ((sqKeep r.start r.shape sh).map (·.1.1)).isEmpty then ⟨[0], [1]⟩ else
        ⟨(sqKeep r.start r.shape sh).map (·.1.1), (sqKeep r.start r.shape sh).map (·.1.2)⟩) := by
  unfold squeezeRegion sqKeep
  by_cases h1 : r.isEmpty = true <;>
    by_cases h2 : (List.map (fun x => x.1.1)
      (List.filter (fun p => decide (p.2 > 1)) ((r.start.zip r.shape).zip sh))).isEmpty = true <;>
    simp [h1, h2]

theorem sqKeep_snd (st n a : List Nat) (h1 : st.length = n.length) (h2 : st.length = a.length) :
    (sqKeep st n a).map (·.2) = a.filter (· > 1) := by
  induction st generalizing n a with
  | nil =>
    cases a with
    | nil => simp [sqKeep]
    | cons _ _ => simp at h2
  | cons o os ih =>
    cases n with
    | nil => simp at h1
    | cons m ns =>
      cases a with
      | nil => simp at h2
      | cons d as =>
        simp only [List.length_cons, Nat.add_right_cancel_iff] at h1 h2
        have := ih ns as h1 h2
        unfold sqKeep at this ⊢
        by_cases hd : d > 1
        · simp [hd, this]
        · simp [hd, this]

theorem prod_filter_gt_one (a : List Nat) (ha : ∀ d ∈ a, 0 < d) : prod (a.filter (· > 1)) = prod a := by
  induction a with
  | nil => rfl
  | cons d as ih =>
    have hd := ha d (by simp)
    have ih' := ih (fun d' hd' => ha d' (by simp [hd']))
    by_cases h : d > 1
    · simp [h, prod, ih']
    · have : d = 1 := by omega
      subst this
      simp [prod, ih']

/-- dropping the dimensions of extent 1 changes neither the linear indices of a non-empty in-bounds region nor
its being in bounds -/
theorem squeeze_core (st n a : List Nat) (h1 : st.length = n.length) (h2 : st.length = a.length)
    (hle : Subset.allLe (addIdx st n) a = true) (hn : n.any (· == 0) = false) (ha : ∀ d ∈ a, 0 < d) :
    Subset.allLe (addIdx ((sqKeep st n a).map (·.1.1)) ((sqKeep st n a).map (·.1.2))) ((sqKeep st n a).map (·.2)) = true ∧
    linIdx ((sqKeep st n a).map (·.1.1)) ((sqKeep st n a).map (·.1.2)) ((sqKeep st n a).map (·.2)) = linIdx st n a := by
  induction st generalizing n a with
  | nil =>
    cases n with
    | cons _ _ => simp at h1
    | nil =>
      cases a with
      | cons _ _ => simp at h2
      | nil => simp [sqKeep, addIdx, Subset.allLe]
  | cons o os ih =>
    cases n with
    | nil => simp at h1
    | cons m ns =>
      cases a with
      | nil => simp at h2
      | cons d as =>
        simp only [List.length_cons, Nat.add_right_cancel_iff] at h1 h2
        simp only [addIdx, Subset.allLe, Bool.and_eq_true, decide_eq_true_eq] at hle
        simp only [List.any_cons, Bool.or_eq_false_iff, beq_eq_false_iff_ne, ne_eq] at hn
        have hd := ha d (by simp)
        obtain ⟨ih1, ih2⟩ := ih ns as h1 h2 hle.2 hn.2 (fun d' hd' => ha d' (by simp [hd']))
        have hsnd := sqKeep_snd os ns as h1 h2
        by_cases hgt : d > 1
        · have hk : sqKeep (o :: os) (m :: ns) (d :: as) = ((o, m), d) :: sqKeep os ns as := by
            simp [sqKeep, hgt]
          rw [hk]
          simp only [List.map_cons, addIdx, Subset.allLe, Bool.and_eq_true, decide_eq_true_eq]
          refine ⟨⟨hle.1, ih1⟩, ?_⟩
          rw [linIdx_cons, linIdx_cons, ih2, hsnd, prod_filter_gt_one as (fun d' hd' => ha d' (by simp [hd']))]
        · have hd1 : d = 1 := by omega
          subst hd1
          have hm : m = 1 := by omega
          have ho : o = 0 := by omega
          subst hm ho
          have hk : sqKeep (0 :: os) (1 :: ns) (1 :: as) = sqKeep os ns as := by
            simp [sqKeep]
          rw [hk]
          refine ⟨ih1, ?_⟩
          rw [ih2, linIdx_cons]
          simp

theorem sqKeep_isEmpty (st n a : List Nat) (h1 : st.length = n.length) (h2 : st.length = a.length) :
    ((sqKeep st n a).map (·.1.1)).isEmpty = (a.filter (· > 1)).isEmpty := by
  rw [← sqKeep_snd st n a h1 h2]
  cases sqKeep st n a <;> rfl

theorem encShape_squeeze (sh : Shape) :
    AStage.squeeze.encShape sh = if (sh.filter (· > 1)).isEmpty then [1] else sh.filter (· > 1) := rfl

theorem prod_encShape_squeeze (sh : Shape) (hpos : ∀ d ∈ sh, 0 < d) : prod (AStage.squeeze.encShape sh) = prod sh := by
  rw [encShape_squeeze]
  by_cases h : (sh.filter (· > 1)).isEmpty = true
  · rw [if_pos h, ← prod_filter_gt_one sh hpos, List.isEmpty_iff.mp h]
    rfl
  · rw [if_neg h, prod_filter_gt_one sh hpos]

theorem newEmpty_ok (d : Nat) (sh : Shape) (h : d = sh.length) :
    (Subset.newEmpty d).wf = true ∧ (Subset.newEmpty d).inboundsShape sh = true := by
  subst h
  simp [Subset.newEmpty, Subset.wf, Subset.inboundsShape, Subset.rank, Subset.endExc,
    addIdx_zeros _ _ (Nat.le_of_eq (List.length_replicate ..)), allLe_zeros]

/-- the squeezed region is a region of the squeezed chunk holding the same elements -/
theorem squeezeRegion_ok (sh : Shape) (xs : List Elem) (r : Subset) (hpos : ∀ d ∈ sh, 0 < d)
    (hx : xs.length = prod sh) (hr : r.wf = true) (hb : r.inboundsShape sh = true) :
    (squeezeRegion sh r).wf = true ∧ (squeezeRegion sh r).inboundsShape (AStage.squeeze.encShape sh) = true ∧
    (squeezeRegion sh r).extract (AStage.squeeze.encShape sh) xs = r.extract sh xs := by
  have hx' : xs.length = prod (AStage.squeeze.encShape sh) := by rw [prod_encShape_squeeze sh hpos, hx]
  have hrw := hr
  simp only [Subset.wf, beq_iff_eq] at hrw
  have hbb := hb
  simp only [Subset.inboundsShape, Subset.rank, Subset.endExc, Bool.and_eq_true, beq_iff_eq] at hbb
  have hsnd := sqKeep_snd r.start r.shape sh hrw hbb.1
  have hemp := sqKeep_isEmpty r.start r.shape sh hrw hbb.1
  rw [squeezeRegion_eq, encShape_squeeze, hemp]
  by_cases he : r.isEmpty = true
  · -- an empty region stays empty
    rw [if_pos he]
    have hd : (if (sh.filter (· > 1)).isEmpty = true then [0] else (sqKeep r.start r.shape sh).map (·.1.1)).length =
        (if (sh.filter (· > 1)).isEmpty = true then [1] else sh.filter (· > 1)).length := by
      split
      · rfl
      · rw [← hsnd]; simp
    have hdpos : 0 < (if (sh.filter (· > 1)).isEmpty = true then [1] else sh.filter (· > 1)).length := by
      split
      · simp
      · rename_i hne
        exact List.length_pos_iff.mpr (by simpa [List.isEmpty_iff] using hne)
    rw [hd]
    obtain ⟨hw, hi⟩ := newEmpty_ok _ (if (sh.filter (· > 1)).isEmpty = true then [1] else sh.filter (· > 1)) rfl
    refine ⟨hw, hi, ?_⟩
    rw [extract_empty _ _ xs hw hi (by rw [hx']; rfl) (by
        simp only [Subset.numElements, Subset.newEmpty]
        exact prod_replicate_zero _ hdpos),
      extract_empty r sh xs hr hb hx (by
        simp only [Subset.numElements]
        exact (prod_eq_zero_iff r.shape).2 he)]
  · rw [if_neg he]
    have hne : r.shape.any (· == 0) = false := Bool.eq_false_iff.2 he
    obtain ⟨c1, c2⟩ := squeeze_core r.start r.shape sh hrw hbb.1 hbb.2 hne hpos
    by_cases hf : (sh.filter (· > 1)).isEmpty = true
    · rw [if_pos hf, if_pos hf]
      have hw : (Subset.mk [0] [1]).wf = true := rfl
      have hi : (Subset.mk [0] [1]).inboundsShape [1] = true := rfl
      refine ⟨hw, hi, ?_⟩
      apply map_some_inj
      rw [extract_lin _ _ xs hw hi (by rw [hx']; rw [encShape_squeeze, if_pos hf]),
        extract_lin r sh xs hr hb hx, ← c2]
      have hk : sqKeep r.start r.shape sh = [] := by
        have := hsnd
        rw [List.isEmpty_iff.mp hf] at this
        simpa using this
      rw [hk]
      rfl
    · rw [if_neg hf, if_neg hf]
      have hw : (Subset.mk ((sqKeep r.start r.shape sh).map (·.1.1)) ((sqKeep r.start r.shape sh).map (·.1.2))).wf = true := by
        simp [Subset.wf]
      have hi : (Subset.mk ((sqKeep r.start r.shape sh).map (·.1.1)) ((sqKeep r.start r.shape sh).map (·.1.2))).inboundsShape
          (sh.filter (· > 1)) = true := by
        simp only [Subset.inboundsShape, Subset.rank, Subset.endExc, Bool.and_eq_true, beq_iff_eq]
        rw [← hsnd]
        exact ⟨by simp, c1⟩
      refine ⟨hw, hi, ?_⟩
      apply map_some_inj
      rw [extract_lin _ _ xs hw hi (by rw [hx']; rw [encShape_squeeze, if_neg hf]),
        extract_lin r sh xs hr hb hx, ← c2, hsnd]

theorem squeezePD_ok' (sh : Shape) (h : AHandle) (xs : List Elem) (hpos : ∀ d ∈ sh, 0 < d) (hx : xs.length = prod sh)
    (hh : AHandleOk h (AStage.squeeze.encShape sh) xs) :
    AHandleOk (squeezePD sh h) sh xs := by
  intro rs hrs
  unfold squeezePD
  rw [hh (rs.map (squeezeRegion sh)) (by
    intro r hr
    obtain ⟨r', hr', rfl⟩ := List.mem_map.mp hr
    obtain ⟨a, b, _⟩ := squeezeRegion_ok sh xs r' hpos hx (hrs r' hr').1 (hrs r' hr').2
    exact ⟨a, b⟩)]
  rw [List.map_map]
  congr 1
  apply List.map_congr_left
  intro r hr
  exact (squeezeRegion_ok sh xs r hpos hx (hrs r hr).1 (hrs r hr).2).2.2

end Zarrs.Partial
