import ZarrsModel.Lemmas.Inflate
set_option Elab.async false
/-
The fixed-Huffman literal block of `deflateFixed` inflates back to the data (Layer E of C12).

Structure: (1) the fixed literal/length table as an explicit list and what a lookup in it returns; (2) `decodeSym`
on the encoder's codes; (3) `blockLoop` on a run of literals closed by the end-of-block code; (4) the bits of the
bytes packed by `fromBits`; (5) `inflate ∘ deflateFixed`.
-/
namespace Zarrs.Inflate

/-! ### the fixed literal/length table -/

/-- the code the encoder emits for a literal byte -/
def litCode (b : Nat) : Bits := if b < 144 then bitsMsb 8 (0x30 + b) else bitsMsb 9 (0x190 + (b - 144))

theorem deflateFixed_eq (bs : Bytes) :
    deflateFixed bs = fromBits ([true, true, false] ++ bs.flatMap litCode ++ bitsMsb 7 0) := rfl

/-- RFC 1951 §3.2.6, in the order `mkHuff` lists the symbols -/
def fixedTable : Huff :=
  (List.range 144).map (fun b => (8, 48 + b, b)) ++ (List.range 112).map (fun i => (9, 400 + i, 144 + i)) ++
  (List.range 24).map (fun i => (7, i, 256 + i)) ++ (List.range 8).map (fun i => (8, 192 + i, 280 + i))

theorem mkHuff_fixed : mkHuff fixedLitLens = fixedTable := by decide +kernel

/-- the table lookup of `decodeSymAux` -/
def look (h : Huff) (len code : Nat) : Option (Nat × Nat × Nat) := h.find? (fun e => e.1 == len && e.2.1 == code)

theorem look_none (h : Huff) (len code : Nat) (hn : ∀ e ∈ h, ¬ (e.1 = len ∧ e.2.1 = code)) :
    look h len code = none := by
  unfold look
  rw [List.find?_eq_none]
  intro e he
  have := hn e he
  simpa using this

/-- one pass over the 288 entries: lengths are 7..9, the 7-bit codes are below 24, the 8-bit codes below 200 -/
theorem fixedTable_all : fixedTable.all (fun e => decide (7 ≤ e.1) && (!(e.1 == 7) || decide (e.2.1 < 24)) &&
    (!(e.1 == 8) || decide (e.2.1 < 200))) = true := by decide +kernel

theorem fixedTable_prop : ∀ e ∈ fixedTable, 7 ≤ e.1 ∧ (e.1 = 7 → e.2.1 < 24) ∧ (e.1 = 8 → e.2.1 < 200) := by
  intro e he
  have := List.all_eq_true.1 fixedTable_all e he
  simp only [Bool.and_eq_true, Bool.or_eq_true, Bool.not_eq_true', beq_eq_false_iff_ne, decide_eq_true_eq] at this
  refine ⟨this.1.1, ?_, ?_⟩
  · intro h7
    rcases this.1.2 with h | h
    · exact absurd h7 h
    · exact h
  · intro h8
    rcases this.2 with h | h
    · exact absurd h8 h
    · exact h

theorem look_fixed_short (len code : Nat) (h : len < 7) : look fixedTable len code = none :=
  look_none _ _ _ (fun e he hh => by have := (fixedTable_prop e he).1; omega)

theorem look_fixed_7 (code : Nat) (h : 24 ≤ code) : look fixedTable 7 code = none :=
  look_none _ _ _ (fun e he hh => by have := (fixedTable_prop e he).2.1 hh.1; omega)

theorem look_fixed_8 (code : Nat) (h : 200 ≤ code) : look fixedTable 8 code = none :=
  look_none _ _ _ (fun e he hh => by have := (fixedTable_prop e he).2.2 hh.1; omega)

theorem look_fixed_lit8_all :
    (List.range 144).all (fun i => look fixedTable 8 (48 + i) == some (8, 48 + i, i)) = true := by decide +kernel
theorem look_fixed_lit9_all :
    (List.range 112).all (fun i => look fixedTable 9 (400 + i) == some (9, 400 + i, 144 + i)) = true := by
  decide +kernel
theorem look_fixed_eob : look fixedTable 7 0 = some (7, 0, 256) := by decide +kernel

theorem look_fixed_lit8 (i : Nat) (h : i < 144) : look fixedTable 8 (48 + i) = some (8, 48 + i, i) := by
  have := List.all_eq_true.1 look_fixed_lit8_all i (List.mem_range.2 h)
  simpa using this

theorem look_fixed_lit9 (i : Nat) (h : i < 112) : look fixedTable 9 (400 + i) = some (9, 400 + i, 144 + i) := by
  have := List.all_eq_true.1 look_fixed_lit9_all i (List.mem_range.2 h)
  simpa using this

/-! ### reading one code -/

theorem decodeSymAux_hit (h : Huff) (fuel len code : Nat) (b : Bool) (bs : Bits) (e : Nat × Nat × Nat)
    (hl : look h (len + 1) (code * 2 + (if b then 1 else 0)) = some e) :
    decodeSymAux h (fuel + 1) len code (b :: bs) = some (e.2.2, bs) := by
  unfold look at hl
  rw [decodeSymAux]
  simp only [hl]

theorem decodeSymAux_miss (h : Huff) (fuel len code : Nat) (b : Bool) (bs : Bits)
    (hl : look h (len + 1) (code * 2 + (if b then 1 else 0)) = none) :
    decodeSymAux h (fuel + 1) len code (b :: bs) =
      decodeSymAux h fuel (len + 1) (code * 2 + (if b then 1 else 0)) bs := by
  unfold look at hl
  rw [decodeSymAux]
  simp only [hl]

theorem bitsMsb_succ (m c : Nat) : bitsMsb (m + 1) c = (c / 2 ^ m % 2 == 1) :: bitsMsb m c := by
  unfold bitsMsb
  rw [List.range_succ_eq_map]
  simp only [List.map_cons, List.map_map, Nat.add_sub_cancel, Nat.sub_zero]
  congr 1
  apply List.map_congr_left
  intro i _
  simp only [Function.comp, Nat.succ_eq_add_one]
  have : m - (i + 1) = m - 1 - i := by omega
  rw [this]

theorem code_step (c m : Nat) :
    c / 2 ^ (m + 1) * 2 + (if (c / 2 ^ m % 2 == 1) = true then 1 else 0) = c / 2 ^ m := by
  rw [Nat.pow_succ, ← Nat.div_div_eq_div_mul]
  generalize c / 2 ^ m = q
  rcases Nat.mod_two_eq_zero_or_one q with h | h <;> simp [h] <;> omega

/-- a code of `n` bits whose proper prefixes are not in the table is read as the entry it names -/
theorem decodeSymAux_bitsMsb (h : Huff) (n c : Nat) (e : Nat × Nat × Nat) (rest : Bits)
    (hmiss : ∀ m, 1 ≤ m → m < n → look h (n - m) (c / 2 ^ m) = none)
    (hhit : look h n c = some e) :
    ∀ m fuel, 1 ≤ m → m ≤ n → m ≤ fuel →
      decodeSymAux h fuel (n - m) (c / 2 ^ m) (bitsMsb m c ++ rest) = some (e.2.2, rest) := by
  intro m
  induction m with
  | zero => intro fuel h1; omega
  | succ m ih =>
    intro fuel _ hn hf
    obtain ⟨fuel, rfl⟩ : ∃ f, fuel = f + 1 := ⟨fuel - 1, by omega⟩
    rw [bitsMsb_succ, List.cons_append]
    have hlen : n - (m + 1) + 1 = n - m := by omega
    by_cases hm : m = 0
    · subst hm
      apply decodeSymAux_hit
      rw [code_step, hlen]
      simpa using hhit
    · rw [decodeSymAux_miss]
      · rw [code_step, hlen]
        exact ih fuel (by omega) (by omega) (by omega)
      · rw [code_step, hlen]
        exact hmiss m (by omega) (by omega)

theorem decodeSym_bitsMsb (h : Huff) (n c : Nat) (e : Nat × Nat × Nat) (rest : Bits)
    (hn : 1 ≤ n) (hn' : n ≤ 15) (hc : c < 2 ^ n)
    (hmiss : ∀ m, 1 ≤ m → m < n → look h (n - m) (c / 2 ^ m) = none)
    (hhit : look h n c = some e) :
    decodeSym h (bitsMsb n c ++ rest) = some (e.2.2, rest) := by
  have := decodeSymAux_bitsMsb h n c e rest hmiss hhit n 15 hn (Nat.le_refl _) hn'
  rw [Nat.sub_self, Nat.div_eq_of_lt hc] at this
  exact this

theorem decodeSym_lit (b : Nat) (hb : b < 256) (rest : Bits) :
    decodeSym (mkHuff fixedLitLens) (litCode b ++ rest) = some (b, rest) := by
  rw [mkHuff_fixed]
  unfold litCode
  split
  · rename_i h
    refine decodeSym_bitsMsb fixedTable 8 (48 + b) (8, 48 + b, b) rest (by omega) (by omega) (by omega) ?_
      (look_fixed_lit8 b h)
    intro m h1 h8
    by_cases hm : m = 1
    · subst hm
      exact look_fixed_7 _ (by omega)
    · exact look_fixed_short _ _ (by omega)
  · rename_i h
    have hh := look_fixed_lit9 (b - 144) (by omega)
    have e1 : 144 + (b - 144) = b := by omega
    rw [e1] at hh
    refine decodeSym_bitsMsb fixedTable 9 (400 + (b - 144)) (9, 400 + (b - 144), b) rest (by omega) (by omega)
      (by omega) ?_ hh
    intro m h1 h9
    by_cases hm : m = 1
    · subst hm
      exact look_fixed_8 _ (by omega)
    · by_cases hm2 : m = 2
      · subst hm2
        exact look_fixed_7 _ (by omega)
      · exact look_fixed_short _ _ (by omega)

theorem decodeSym_eob (rest : Bits) :
    decodeSym (mkHuff fixedLitLens) (bitsMsb 7 0 ++ rest) = some (256, rest) := by
  rw [mkHuff_fixed]
  refine decodeSym_bitsMsb fixedTable 7 0 (7, 0, 256) rest (by omega) (by omega) (by omega) ?_ look_fixed_eob
  intro m h1 h7
  exact look_fixed_short _ _ (by omega)

/-! ### a block of literals -/

theorem litCode_length_pos (b : Nat) : 1 ≤ (litCode b).length := by
  unfold litCode bitsMsb
  split <;> simp

theorem flatMap_litCode_length (bs : Bytes) : bs.length ≤ (bs.flatMap litCode).length := by
  induction bs with
  | nil => simp
  | cons b bs ih =>
    have := litCode_length_pos b
    simp only [List.flatMap_cons, List.length_append, List.length_cons]
    omega

/-- `blockLoop` on a literal and on the end-of-block symbol (stated by `show`: the equation lemmas of `blockLoop`
are too deep to generate) -/
theorem blockLoop_lit (L D : Huff) (fuel : Nat) (bs bs' : Bits) (out : Array Nat) (sym : Nat)
    (h : decodeSym L bs = some (sym, bs')) (hs : sym < 256) :
    blockLoop L D (fuel + 1) bs out = blockLoop L D fuel bs' (out.push sym) := by
  show (match decodeSym L bs with | none => none | some (sym, bs) => _) = _
  rw [h]
  simp only [hs, if_true]

theorem blockLoop_eob (L D : Huff) (fuel : Nat) (bs bs' : Bits) (out : Array Nat)
    (h : decodeSym L bs = some (256, bs')) :
    blockLoop L D (fuel + 1) bs out = some (bs', out) := by
  show (match decodeSym L bs with | none => none | some (sym, bs) => _) = _
  rw [h]
  simp

theorem blockLoop_lits (D : Huff) (bs : Bytes) (hb : ∀ x ∈ bs, x < 256) (tail : Bits) (out : Array Nat)
    (fuel : Nat) (hf : bs.length < fuel) :
    blockLoop (mkHuff fixedLitLens) D fuel (bs.flatMap litCode ++ (bitsMsb 7 0 ++ tail)) out =
      some (tail, out ++ bs.toArray) := by
  induction bs generalizing fuel out with
  | nil =>
    obtain ⟨fuel, rfl⟩ : ∃ f, fuel = f + 1 := ⟨fuel - 1, by omega⟩
    rw [List.flatMap_nil, List.nil_append, blockLoop_eob _ _ _ _ _ _ (decodeSym_eob tail)]
    simp
  | cons b bs ih =>
    obtain ⟨fuel, rfl⟩ : ∃ f, fuel = f + 1 := ⟨fuel - 1, by omega⟩
    have hb0 : b < 256 := hb b (by simp)
    rw [List.flatMap_cons, List.append_assoc, blockLoop_lit _ _ _ _ _ _ _ (decodeSym_lit b hb0 _) hb0]
    rw [ih (fun x hx => hb x (List.mem_cons_of_mem _ hx)) _ _ (by simp only [List.length_cons] at hf; omega)]
    simp

theorem blocks_fixed (total fuel : Nat) (bs : Bytes) (hb : ∀ x ∈ bs, x < 256) (tail : Bits) (out : Array Nat) :
    blocks total (fuel + 1) (true :: true :: false :: (bs.flatMap litCode ++ (bitsMsb 7 0 ++ tail))) out =
      some (tail, out ++ bs.toArray) := by
  rw [blocks]
  simp only [takeBits, Option.map_some, if_true, Bool.false_eq_true, if_false, Nat.mul_zero, Nat.add_zero]
  have h10 : ((1 : Nat) == 0) = false := by decide
  simp only [h10, Bool.false_eq_true, if_false, beq_self_eq_true, if_true]
  rw [blockLoop_lits _ bs hb tail out _ (by
    have := flatMap_litCode_length bs
    simp only [List.length_append]; omega)]

/-! ### the bits of packed bytes -/

/-- value of a bit list, least significant first -/
def valBits : Bits → Nat
  | [] => 0
  | b :: c => (if b then 1 else 0) + 2 * valBits c

theorem foldl_zipIdx_val (c : Bits) (k acc : Nat) :
    (c.zipIdx k).foldl (fun acc (p : Bool × Nat) => acc + (if p.1 then 2 ^ p.2 else 0)) acc =
      acc + 2 ^ k * valBits c := by
  induction c generalizing k acc with
  | nil => simp [valBits]
  | cons b c ih =>
    rw [List.zipIdx_cons, List.foldl_cons, ih]
    simp only [valBits, Nat.pow_succ, Nat.mul_add, Nat.mul_assoc]
    cases b <;> simp [Nat.add_assoc]

theorem valBits_lt (c : Bits) : valBits c < 2 ^ c.length := by
  induction c with
  | nil => simp [valBits]
  | cons b c ih =>
    simp only [valBits, List.length_cons, Nat.pow_succ]
    split <;> omega

theorem bits_of_val (n : Nat) (c : Bits) (h : c.length ≤ n) :
    (List.range n).map (fun i => valBits c / 2 ^ i % 2 == 1) = c ++ List.replicate (n - c.length) false := by
  induction n generalizing c with
  | zero =>
    have : c = [] := List.eq_nil_of_length_eq_zero (by omega)
    subst this; rfl
  | succ n ih =>
    rw [List.range_succ_eq_map]
    simp only [List.map_cons, List.map_map, Nat.pow_zero, Nat.div_one]
    have hf : ((fun i => valBits c / 2 ^ i % 2 == 1) ∘ Nat.succ) = (fun i => (valBits c / 2) / 2 ^ i % 2 == 1) := by
      funext i
      simp only [Function.comp, Nat.succ_eq_add_one, Nat.pow_succ']
      rw [Nat.div_div_eq_div_mul]
    rw [hf]
    cases c with
    | nil =>
      have := ih [] (by simp)
      simp only [valBits, List.length_nil, Nat.sub_zero, List.nil_append] at this ⊢
      rw [this]
      rfl
    | cons b c =>
      have h2 : valBits (b :: c) / 2 = valBits c := by
        simp only [valBits]; cases b <;> simp <;> omega
      have h1 : (valBits (b :: c) % 2 == 1) = b := by
        simp only [valBits]; cases b <;> simp <;> omega
      rw [h2, h1, ih c (by simp only [List.length_cons] at h; omega)]
      simp only [List.length_cons, List.cons_append, Nat.add_sub_add_right]

/-- the byte `fromBitsAux` packs from at most 8 bits -/
def packByte (c : Bits) : Nat := c.zipIdx.foldl (fun acc (p : Bool × Nat) => acc + (if p.1 then 2 ^ p.2 else 0)) 0

theorem packByte_eq (c : Bits) : packByte c = valBits c := by
  unfold packByte
  rw [foldl_zipIdx_val]
  simp

theorem fromBitsAux_nil (fuel : Nat) : fromBitsAux fuel [] = [] := by cases fuel <;> rfl

theorem fromBitsAux_cons (fuel : Nat) (b : Bool) (bs : Bits) :
    fromBitsAux (fuel + 1) (b :: bs) = packByte ((b :: bs).take 8) :: fromBitsAux fuel ((b :: bs).drop 8) := rfl

theorem bitsOfByte_packByte (c : Bits) (h : c.length ≤ 8) :
    bitsOfByte (packByte c) = c ++ List.replicate (8 - c.length) false := by
  rw [packByte_eq]
  exact bits_of_val 8 c h

theorem toBits_fromBitsAux (fuel : Nat) (bits : Bits) (h : bits.length < fuel) :
    ∃ k, k < 8 ∧ toBits (fromBitsAux fuel bits) = bits ++ List.replicate k false := by
  induction fuel generalizing bits with
  | zero => omega
  | succ fuel ih =>
    cases bits with
    | nil => exact ⟨0, by omega, by simp [fromBitsAux_nil, toBits_nil]⟩
    | cons b bs =>
      rw [fromBitsAux_cons, toBits_cons]
      generalize hx : b :: bs = x at *
      have hx1 : 1 ≤ x.length := by subst hx; simp
      by_cases h8 : 8 ≤ x.length
      · obtain ⟨k, hk, hk2⟩ := ih (x.drop 8) (by simp only [List.length_drop]; omega)
        refine ⟨k, hk, ?_⟩
        rw [bitsOfByte_packByte _ (by simp only [List.length_take]; omega), hk2]
        have : (x.take 8).length = 8 := by simp only [List.length_take]; omega
        rw [this]
        simp only [Nat.sub_self, List.replicate_zero, List.append_nil]
        rw [← List.append_assoc, List.take_append_drop]
      · have ht : x.take 8 = x := List.take_of_length_le (by omega)
        have hd : x.drop 8 = [] := List.drop_of_length_le (by omega)
        refine ⟨8 - x.length, by omega, ?_⟩
        rw [bitsOfByte_packByte _ (by simp only [List.length_take]; omega), ht, hd, fromBitsAux_nil, toBits_nil, List.append_nil]

theorem fromBitsAux_wf (fuel : Nat) (bits : Bits) : ∀ x ∈ fromBitsAux fuel bits, x < 256 := by
  induction fuel generalizing bits with
  | zero => intro x hx; simp [fromBitsAux] at hx
  | succ fuel ih =>
    cases bits with
    | nil => intro x hx; simp [fromBitsAux_nil] at hx
    | cons b bs =>
      intro x hx
      rw [fromBitsAux_cons, List.mem_cons] at hx
      rcases hx with hx | hx
      · subst hx
        rw [packByte_eq]
        have h1 := valBits_lt ((b :: bs).take 8)
        have h2 : (2 : Nat) ^ ((b :: bs).take 8).length ≤ 2 ^ 8 :=
          Nat.pow_le_pow_right (by omega) (by simp only [List.length_take]; omega)
        omega
      · exact ih _ x hx

theorem deflateFixed_wf (bs : Bytes) : ∀ x ∈ deflateFixed bs, x < 256 := by
  rw [deflateFixed_eq]
  exact fromBitsAux_wf _ _

/-! ### the round trip -/

theorem alignBits_pad (total k : Nat) (x : Bits) (ht : total % 8 = 0) (hk : k < 8) (hx : x.length % 8 = 0) :
    alignBits total (List.replicate k false ++ x) = x := by
  unfold alignBits
  have : ((List.replicate k false ++ x).length + 8 - total % 8) % 8 = k := by
    simp only [List.length_append, List.length_replicate]; omega
  rw [this]
  simp

theorem inflate_deflateFixed (bs rest : Bytes) (hb : ∀ x ∈ bs, x < 256) (hr : ∀ x ∈ rest, x < 256) :
    inflate (deflateFixed bs ++ rest) = some (bs, rest) := by
  have _ := hr
  have hlen : (toBits (deflateFixed bs ++ rest)).length % 8 = 0 := by rw [toBits_length]; omega
  obtain ⟨k, hk, hbits⟩ := toBits_fromBitsAux
    (([true, true, false] ++ bs.flatMap litCode ++ bitsMsb 7 0).length + 1)
    ([true, true, false] ++ bs.flatMap litCode ++ bitsMsb 7 0) (Nat.lt_succ_self _)
  have htot : toBits (deflateFixed bs ++ rest) =
      true :: true :: false :: (bs.flatMap litCode ++ (bitsMsb 7 0 ++ (List.replicate k false ++ toBits rest))) := by
    rw [toBits_append, deflateFixed_eq, fromBits, hbits]
    simp only [List.cons_append, List.nil_append, List.append_assoc]
  have hblk := blocks_fixed (toBits (deflateFixed bs ++ rest)).length (toBits (deflateFixed bs ++ rest)).length
    bs hb (List.replicate k false ++ toBits rest) #[]
  rw [← htot] at hblk
  unfold inflate
  simp only
  rw [hblk]
  simp only
  rw [alignBits_pad _ k (toBits rest) hlen hk (by rw [toBits_length]; omega)]
  rw [toBits_length]
  have : 8 * rest.length / 8 = rest.length := by omega
  rw [this]
  simp

end Zarrs.Inflate
