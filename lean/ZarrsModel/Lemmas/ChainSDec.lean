import ZarrsModel.Model.ChainSDec
import ZarrsModel.Lemmas.ShardPDExtra
import ZarrsModel.Lemmas.ConformShard
set_option Elab.async false
/- helper lemmas for C03 on (nested) sharded chains, part 1: the stages of `ChainS.decode` undo those of the encoder -/
namespace Zarrs.Partial
open Zarrs Zarrs.Codec Zarrs.Subset

/-! ### `validated` -/

theorem validated_some (es n : Nat) (xs : List Elem) (hl : xs.length = n) (he : ∀ x ∈ xs, x.length = es) :
    validated es n xs = some xs := by
  unfold validated
  rw [if_pos]
  simp only [Bool.and_eq_true, beq_iff_eq, List.all_eq_true]
  exact ⟨hl, he⟩

theorem validated_eq_some {es n : Nat} {xs ys : List Elem} (h : validated es n xs = some ys) :
    ys = xs ∧ xs.length = n ∧ ∀ x ∈ xs, x.length = es := by
  unfold validated at h
  split at h
  · rename_i hc
    simp only [Bool.and_eq_true, beq_iff_eq, List.all_eq_true] at hc
    simp only [Option.some.injEq] at h
    exact ⟨h.symm, hc.1, hc.2⟩
  · cases h

/-! ### bytes-to-bytes stages -/

/-- a stage whose decoder undoes its encoder -/
def BDec (st : BStage) : Prop := ∀ b : Bytes, st.dec (st.enc b) = some b

theorem decodeB2B_cons (st : BStage) (rest : List BStage) (b : Bytes) :
    decodeB2B (st :: rest) b = (decodeB2B rest b).bind st.dec := rfl

theorem decodeB2B_enc (b2b : List BStage) (h : ∀ st ∈ b2b, BDec st) : ∀ b : Bytes,
    decodeB2B b2b (b2b.foldl (fun b st => st.enc b) b) = some b := by
  induction b2b with
  | nil => intro b; rfl
  | cons st rest ih =>
    intro b
    rw [List.foldl_cons, decodeB2B_cons, ih (fun s hs => h s (by simp [hs])) (st.enc b)]
    exact h st (by simp) b

theorem bStage_dec_checksum (n : Nat) (sum : Bytes → Nat) : BDec (.stripSuffix n sum) := by
  intro b
  simp only [BStage.dec, BStage.enc, checksumDec_enc]
  rfl

theorem bStage_dec_cache : BDec .cache := fun _ => rfl

/-! ### array-to-array stages -/

theorem aStage_dec_enc (st : AStage) (sh : Shape) (es : Nat) (xs : List Elem) (ho : st.ok sh)
    (hl : xs.length = prod sh) (he : ∀ x ∈ xs, x.length = es) : st.dec sh es (st.enc sh xs) = some xs := by
  cases st with
  | transpose order =>
    have ho' : validOrder order sh.length = true := ho
    obtain ⟨h1, h2, h3, _⟩ := transpose_dec_enc' order sh xs ho' hl
    simp only [AStage.dec, AStage.enc, ho', Bool.not_true, Bool.false_eq_true, if_false]
    rw [validated_some es (prod sh) _ (by rw [h2, h3]) (fun y hy => he y (mem_transposeEnc order sh xs ho' hl y hy))]
    simp only [Option.map_some, h1]
  | squeeze => rfl
  | cache => rfl

theorem decodeA2A_enc (stages : List AStage) (es : Nat) : ∀ (sh : Shape) (xs : List Elem), aOk stages sh →
    xs.length = prod sh → (∀ x ∈ xs, x.length = es) → decodeA2A stages sh es (aEnc stages sh xs) = some xs := by
  induction stages with
  | nil => intro sh xs _ _ _; rfl
  | cons st rest ih =>
    intro sh xs ha hl he
    show (decodeA2A rest (st.encShape sh) es (aEnc rest (st.encShape sh) (st.enc sh xs))).bind (st.dec sh es) = _
    rw [ih (st.encShape sh) (st.enc sh xs) ha.2 (aStage_length st sh xs ha.1 hl)
      (fun y hy => he y (aStage_mem st sh xs ha.1 hl y hy))]
    exact aStage_dec_enc st sh es xs ha.1 hl he

/-! ### the `bytes` codec -/

theorem groups_flatten_elems (es : Nat) (hes : 0 < es) (ys : List Elem) (he : ∀ y ∈ ys, y.length = es) :
    groups es ys.flatten = ys :=
  chunksOf_of_flatten es hes ys _ he (Nat.lt_succ_self _)

theorem bytesDecode_enc (big : Bool) (es unit : Nat) (sh : Shape) (ys : List Elem) (hes : 0 < es)
    (hdiv : es % unit = 0) (hl : ys.length = prod sh) (he : ∀ y ∈ ys, y.length = es) :
    bytesDecode big es unit sh (bytesEnc big unit ys.flatten) = some ys := by
  have hfl : ys.flatten.length = prod sh * es := by rw [flatten_length_const es _ he, hl]
  have hmod : ys.flatten.length % unit = 0 := by rw [hfl]; exact mul_mod_of_mod _ _ _ hdiv
  obtain ⟨h1, h2⟩ := bytes_dec_enc' big unit ys.flatten (Or.inr hmod)
  unfold bytesDecode
  rw [if_neg (by simp only [bne_iff_ne, ne_eq, Decidable.not_not]; rw [h2, hfl]), h1, groups_flatten_elems es hes ys he]

/-- **a `bytes` chain decodes what it encoded** -/
theorem chain_dec_enc (c : Chain) (sh : Shape) (xs : List Elem) (hes : 0 < c.es) (hdiv : c.es % c.unit = 0)
    (hxl : xs.length = prod sh) (hxe : ∀ x ∈ xs, x.length = c.es) (ha : aOk c.a2a sh)
    (hb : ∀ st ∈ c.b2b, BDec st) : c.decode sh (c.encode sh xs) = some xs := by
  obtain ⟨hl, he⟩ := aEnc_chunk c.es c.a2a sh xs ha hxl hxe
  unfold Chain.decode
  rw [encode_eq, decodeB2B_enc c.b2b hb]
  simp only [Option.bind_some]
  rw [bytesDecode_enc c.big c.es c.unit _ _ hes hdiv hl he]
  simp only [Option.bind_some]
  rw [decodeA2A_enc c.a2a c.es sh xs ha hxl hxe]
  exact validated_some _ _ _ hxl hxe

end Zarrs.Partial
