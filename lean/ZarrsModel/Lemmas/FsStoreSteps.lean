import ZarrsModel.Lemmas.FsStoreOps
/- the write operations of the store (`setImpl`, `eraseKey`, `erasePrefix`) on a well-formed state -/
set_option Elab.async false
namespace Zarrs.Fs
open Zarrs

theorem keyPath_spec {k : Key} {path : List Name} (h : keyPath k = some path) :
    path = splitPath k ∧ path ≠ [] ∧ (∀ n ∈ path, plainName n = true) ∧ joinPath path = k := by
  unfold keyPath at h
  split at h
  · rename_i hall
    simp only [Option.some.injEq] at h
    subst h
    exact ⟨rfl, splitPath_ne_nil k, fun n hn => List.all_eq_true.1 hall n hn, join_split k⟩
  · cases h

theorem path_snoc (path : List Name) (hp : path ≠ []) :
    ∃ name, path.getLast? = some name ∧ path = path.dropLast ++ [name] := by
  refine ⟨path.getLast hp, List.getLast?_eq_some_getLast hp, (List.dropLast_concat_getLast hp).symm⟩

namespace Tree

theorem stat_ext_noent (t : Tree) (path p : List Name) (h : t.stat path = .noent) (hp : path.isPrefixOf p = true) :
    (t.stat p).kind = .noent := by
  rw [List.isPrefixOf_iff_prefix] at hp
  obtain ⟨q, rfl⟩ := hp
  rw [stat_append, h]; rfl

theorem stat_ext_file (t : Tree) (path q : List Name) (b : Bytes) (h : t.stat path = .file b) (hq : q ≠ []) :
    t.stat (path ++ q) = .notdir := by
  rw [stat_append, h]
  cases q with
  | nil => exact absurd rfl hq
  | cons x xs => rfl

/-- below a free path nothing is a file; above it everything is a directory or missing -/
theorem fileAt_of_free_prefix (t : Tree) (path p : List Name)
    (h : t.stat path = .noent ∨ ∃ b, t.stat path = .file b) (hne : p ≠ path)
    (hp : p.isPrefixOf path = true ∨ path.isPrefixOf p = true) : t.fileAt p = none := by
  rcases hp with hp | hp
  · rw [List.isPrefixOf_iff_prefix] at hp
    obtain ⟨q, rfl⟩ := hp
    have hq : q ≠ [] := by intro e; subst e; simp at hne
    rw [stat_append] at h
    unfold fileAt
    cases hs : t.stat p with
    | file b =>
      rw [hs] at h
      cases q with
      | nil => exact absurd rfl hq
      | cons x xs => rcases h with h | ⟨b', h⟩ <;> cases h
    | _ => rfl
  · rw [List.isPrefixOf_iff_prefix] at hp
    obtain ⟨q, rfl⟩ := hp
    have hq : q ≠ [] := by intro e; subst e; simp at hne
    unfold fileAt
    rcases h with h | ⟨b, h⟩
    · rw [stat_append, h]
    · rw [stat_ext_file t path q b h hq]

theorem fileOf_afterSet (t : Tree) (path : List Name) (v' : Bytes) (p : List Name)
    (h : t.stat path = .noent ∨ ∃ b, t.stat path = .file b) :
    (afterSet t path v' p).fileOf = if p = path then some v' else t.fileAt p := by
  unfold afterSet
  by_cases h1 : p = path
  · simp [h1, Kind.fileOf]
  · rw [if_neg h1, if_neg h1]
    by_cases h2 : p.isPrefixOf path = true
    · rw [if_pos h2, fileAt_of_free_prefix t path p h h1 (Or.inl h2)]; rfl
    · rw [if_neg h2]
      by_cases h3 : path.isPrefixOf p = true
      · rw [if_pos h3, fileAt_of_free_prefix t path p h h1 (Or.inr h3)]; rfl
      · rw [if_neg h3, fileAt_eq_kind]

theorem removeFile_none (t : Tree) (dirs : List Name) (name : Name) (d : Tree) (hs : t.stat dirs = .dir d)
    (hl : d.lookup1 name = none) : t.removeFile dirs name = .error .notFound :=
  (atDir_dir t dirs (unlinkFile name) d hs).1 .notFound (by simp only [unlinkFile, hl])

theorem removeFile_file (t : Tree) (hi : t.Inv) (dirs : List Name) (name : Name) (d : Tree) (b : Bytes)
    (hs : t.stat dirs = .dir d) (hl : d.lookup1 name = some (.file b)) :
    ∃ t', t.removeFile dirs name = .ok t' ∧ t'.Inv ∧
      ∀ p, (t'.stat p).kind = if (dirs ++ [name]).isPrefixOf p then .noent else (t.stat p).kind := by
  obtain ⟨t', ht'⟩ := (atDir_dir t dirs (unlinkFile name) d hs).2 (d.del1 name) (by simp only [unlinkFile, hl])
  refine ⟨t', ht', ?_⟩
  refine del_spec t hi dirs name _ ?_ t' ht'
  intro d0 d0' h0
  unfold unlinkFile at h0
  cases h0l : d0.lookup1 name with
  | none => rw [h0l] at h0; cases h0
  | some e0 =>
    rw [h0l] at h0
    cases e0 with
    | dir c0 => cases h0
    | file b0 => simp only [Except.ok.injEq] at h0; exact h0.symm

theorem removeDirAll_none (t : Tree) (dirs : List Name) (name : Name) (d : Tree) (hs : t.stat dirs = .dir d)
    (hl : d.lookup1 name = none) : t.removeDirAll dirs name = .error .notFound :=
  (atDir_dir t dirs (unlinkDirAll name) d hs).1 .notFound (by simp only [unlinkDirAll, hl])

theorem removeDirAll_dir (t : Tree) (hi : t.Inv) (dirs : List Name) (name : Name) (d c : Tree)
    (hs : t.stat dirs = .dir d) (hl : d.lookup1 name = some (.dir c)) :
    ∃ t', t.removeDirAll dirs name = .ok t' ∧ t'.Inv ∧
      ∀ p, (t'.stat p).kind = if (dirs ++ [name]).isPrefixOf p then .noent else (t.stat p).kind := by
  obtain ⟨t', ht'⟩ := (atDir_dir t dirs (unlinkDirAll name) d hs).2 (d.del1 name) (by simp only [unlinkDirAll, hl])
  refine ⟨t', ht', ?_⟩
  refine del_spec t hi dirs name _ ?_ t' ht'
  intro d0 d0' h0
  unfold unlinkDirAll at h0
  cases h0l : d0.lookup1 name with
  | none => rw [h0l] at h0; cases h0
  | some e0 =>
    rw [h0l] at h0
    cases e0 with
    | file b0 => cases h0
    | dir c0 => simp only [Except.ok.injEq] at h0; exact h0.symm

end Tree

theorem specSetPartial_nil_zero (v : Bytes) : specSetPartial [] 0 v = v := by
  simp [specSetPartial, overwrite, zeroExtend]

theorem statFree_iff (s : FsState) (path : List Name) (hp : path ≠ []) :
    statFree s path = true ↔
      ((FsState.content s).stat path = .noent ∨ ∃ b, (FsState.content s).stat path = .file b) := by
  unfold statFree
  rw [stat_content s path hp]
  cases (FsState.content s).stat path <;> simp

theorem dirFree_iff (s : FsState) (path : List Name) (hp : path ≠ []) :
    dirFree s path = true ↔
      ((FsState.content s).stat path = .noent ∨ ∃ c, (FsState.content s).stat path = .dir c) := by
  unfold dirFree
  rw [stat_content s path hp]
  cases (FsState.content s).stat path <;> simp

/-- `set_impl` on a free path succeeds -/
theorem setImpl_ok (s : FsState) (hi : FsInv s) (path : List Name) (hp : path ≠ [])
    (hpl : ∀ n ∈ path, plainName n = true) (hfree : statFree s path = true) (v : Bytes) (off : Nat) (tr : Bool) :
    ∃ t', s.setImpl path v off tr = .ok (some t') ∧ t'.Inv ∧
      ∀ p, (t'.stat p).kind = Tree.afterSet (FsState.content s) path
        (specSetPartial (if tr then [] else ((FsState.content s).fileAt path).getD []) off v) p := by
  obtain ⟨name, hlast, hsplit⟩ := path_snoc path hp
  rw [statFree_iff s path hp] at hfree
  have hfree' := hfree
  rw [hsplit] at hfree'
  have hd : ∀ n ∈ path.dropLast, plainName n = true := fun n hn => hpl n (List.dropLast_subset _ hn)
  have hn : plainName name = true := hpl name (by rw [hsplit]; simp)
  obtain ⟨t1, t', h1, h2, h3, h4⟩ := Tree.set_spec (FsState.content s) hi.content path.dropLast name hd hn
    (fun old => specSetPartial (if tr then [] else old.getD []) off v) hfree'
  rw [← hsplit] at h4
  refine ⟨t', ?_, h3, h4⟩
  have hprep : (if s.pathExists path.dropLast then .ok s else s.createDirAll path.dropLast : Except IoErr FsState)
      = .ok (some t1) := by
    by_cases hex : s.pathExists path.dropLast = true
    · rw [if_pos hex]
      unfold FsState.pathExists at hex
      cases s with
      | none => simp [FsState.stat] at hex
      | some t =>
        have hc : FsState.content (some t) = t := rfl
        rw [hc] at h1 hfree'
        simp only [FsState.stat] at hex
        cases hs : t.stat path.dropLast with
        | noent => rw [hs] at hex; cases hex
        | notdir => rw [hs] at hex; cases hex
        | file b =>
          rw [Tree.stat_ext_file t _ [name] b hs (by simp)] at hfree'
          rcases hfree' with h | ⟨b', h⟩ <;> cases h
        | dir d =>
          rw [Tree.mkdirAll_of_dir t hi _ d hs] at h1
          simp only [Except.ok.injEq] at h1
          rw [h1]
    · rw [if_neg hex]
      unfold FsState.createDirAll
      have : s.getD .nil = FsState.content s := rfl
      rw [this, h1]
  unfold FsState.setImpl
  simp only [hlast, hprep]
  rw [h2]

/-- `erase` of a free path succeeds; everything at and below the path is gone, nothing else changes -/
theorem eraseKey_ok (s : FsState) (hi : FsInv s) (path : List Name) (hp : path ≠ [])
    (hfree : statFree s path = true) :
    ∃ s', s.eraseKey path = .ok s' ∧ FsInv s' ∧
      ∀ p, p ≠ [] → ((FsState.content s').stat p).kind =
        if path.isPrefixOf p then .noent else ((FsState.content s).stat p).kind := by
  obtain ⟨name, hlast, hsplit⟩ := path_snoc path hp
  rw [statFree_iff s path hp] at hfree
  cases s with
  | none =>
    refine ⟨none, by simp [FsState.eraseKey, hlast], trivial, ?_⟩
    intro p hpne
    cases p with
    | nil => exact absurd rfl hpne
    | cons m ms => simp [FsState.content, Tree.stat_nil_cons, Stat.kind]
  | some t =>
    have hc : FsState.content (some t) = t := rfl
    rw [hc] at hfree
    -- when nothing is there the state stays, and below a missing path everything is missing
    have unchanged : t.stat path = .noent → t.removeFile path.dropLast name = .error .notFound →
        ∃ s', FsState.eraseKey (some t) path = Except.ok s' ∧ FsInv s' ∧
          ∀ p, p ≠ [] → ((FsState.content s').stat p).kind =
            if path.isPrefixOf p then .noent else ((FsState.content (some t)).stat p).kind := by
      intro hno hrm
      refine ⟨some t, by simp [FsState.eraseKey, hlast, hrm], hi, ?_⟩
      intro p _
      by_cases hpre : path.isPrefixOf p = true
      · rw [if_pos hpre]; exact Tree.stat_ext_noent t path p hno hpre
      · rw [if_neg hpre]
    rw [hsplit, Tree.stat_append] at hfree
    cases hs : t.stat path.dropLast with
    | noent =>
      apply unchanged
      · rw [hsplit, Tree.stat_append, hs]
      · exact Tree.atDir_noent t _ _ hs
    | notdir => rw [hs] at hfree; rcases hfree with h | ⟨b, h⟩ <;> cases h
    | file b => rw [hs] at hfree; rcases hfree with h | ⟨b', h⟩ <;> simp at h
    | dir d =>
      rw [hs] at hfree
      simp only at hfree
      rw [Tree.stat_cons] at hfree
      cases hl : d.lookup1 name with
      | none =>
        apply unchanged
        · rw [hsplit, Tree.stat_append, hs]
          simp only
          rw [Tree.stat_cons, hl]
        · exact Tree.removeFile_none t _ name d hs hl
      | some e =>
        rw [hl] at hfree
        cases e with
        | dir c => rcases hfree with h | ⟨b, h⟩ <;> cases h
        | file b =>
          obtain ⟨t', ht', hinv, hspec⟩ := Tree.removeFile_file t hi _ name d b hs hl
          rw [← hsplit] at hspec
          refine ⟨some t', ?_, hinv, fun p _ => hspec p⟩
          unfold FsState.eraseKey
          simp only [hlast]
          rw [ht']

/-- `erase_prefix` of a free directory path succeeds; everything at and below the path is gone -/
theorem erasePrefix_ok (s : FsState) (hi : FsInv s) (path : List Name) (hfree : dirFree s path = true) :
    ∃ s', s.erasePrefix path = .ok s' ∧ FsInv s' ∧
      ∀ p, p ≠ [] → ((FsState.content s').stat p).kind =
        if path.isPrefixOf p then .noent else ((FsState.content s).stat p).kind := by
  cases s with
  | none =>
    refine ⟨none, by simp [FsState.erasePrefix], trivial, ?_⟩
    intro p hpne
    cases p with
    | nil => exact absurd rfl hpne
    | cons m ms => simp [FsState.content, Tree.stat_nil_cons, Stat.kind]
  | some t =>
    by_cases hp : path = []
    · subst hp
      refine ⟨none, by simp [FsState.erasePrefix], trivial, ?_⟩
      intro p hpne
      cases p with
      | nil => exact absurd rfl hpne
      | cons m ms => simp [FsState.content, Tree.stat_nil_cons, Stat.kind]
    · obtain ⟨name, hlast, hsplit⟩ := path_snoc path hp
      rw [dirFree_iff _ path hp] at hfree
      have hc : FsState.content (some t) = t := rfl
      rw [hc] at hfree
      have unchanged : t.stat path = .noent → t.removeDirAll path.dropLast name = .error .notFound →
          ∃ s', FsState.erasePrefix (some t) path = Except.ok s' ∧ FsInv s' ∧
            ∀ p, p ≠ [] → ((FsState.content s').stat p).kind =
              if path.isPrefixOf p then .noent else ((FsState.content (some t)).stat p).kind := by
        intro hno hrm
        refine ⟨some t, by simp [FsState.erasePrefix, hlast, hrm], hi, ?_⟩
        intro p _
        by_cases hpre : path.isPrefixOf p = true
        · rw [if_pos hpre]; exact Tree.stat_ext_noent t path p hno hpre
        · rw [if_neg hpre]
      rw [hsplit, Tree.stat_append] at hfree
      cases hs : t.stat path.dropLast with
      | noent =>
        apply unchanged
        · rw [hsplit, Tree.stat_append, hs]
        · exact Tree.atDir_noent t _ _ hs
      | notdir => rw [hs] at hfree; rcases hfree with h | ⟨b, h⟩ <;> cases h
      | file b => rw [hs] at hfree; rcases hfree with h | ⟨b', h⟩ <;> simp at h
      | dir d =>
        rw [hs] at hfree
        simp only at hfree
        rw [Tree.stat_cons] at hfree
        cases hl : d.lookup1 name with
        | none =>
          apply unchanged
          · rw [hsplit, Tree.stat_append, hs]
            simp only
            rw [Tree.stat_cons, hl]
          · exact Tree.removeDirAll_none t _ name d hs hl
        | some e =>
          rw [hl] at hfree
          cases e with
          | file b => rcases hfree with h | ⟨c, h⟩ <;> simp at h
          | dir c =>
            obtain ⟨t', ht', hinv, hspec⟩ := Tree.removeDirAll_dir t hi _ name d c hs hl
            rw [← hsplit] at hspec
            refine ⟨some t', ?_, hinv, fun p _ => hspec p⟩
            unfold FsState.erasePrefix
            simp only [hlast]
            rw [ht']

/-- the repaired `erase_prefix`: a prefix that names a file or lies below one is not a directory - nothing is
erased and the outcome is `Ok` -/
theorem erasePrefix_blocked (s : FsState) (path : List Name) (hp : path ≠ [])
    (hblk : (∃ b, (FsState.content s).stat path = .file b) ∨ (FsState.content s).stat path = .notdir) :
    s.erasePrefix path = .ok s := by
  obtain ⟨name, hlast, hsplit⟩ := path_snoc path hp
  cases s with
  | none =>
    exfalso
    cases path with
    | nil => exact hp rfl
    | cons m ms => rcases hblk with ⟨b, h⟩ | h <;> cases h
  | some t =>
    have hc : FsState.content (some t) = t := rfl
    rw [hc] at hblk
    have hnd : ∀ c, t.stat path ≠ .dir c := by
      intro c h
      rcases hblk with ⟨b, h'⟩ | h' <;> rw [h] at h' <;> cases h'
    unfold FsState.erasePrefix
    simp only [hlast]
    cases hr : t.removeDirAll path.dropLast name with
    | ok t' =>
      exfalso
      unfold Tree.removeDirAll at hr
      obtain ⟨d, d', h1, h2, _, _⟩ := Tree.atDir_ok t _ _ t' hr
      unfold Tree.unlinkDirAll at h2
      cases hl : d.lookup1 name with
      | none => rw [hl] at h2; cases h2
      | some e =>
        rw [hl] at h2
        cases e with
        | file b => cases h2
        | dir c =>
          apply hnd c
          rw [hsplit, Tree.stat_append_dir t _ [name] d h1, Tree.stat_cons, hl]
          rfl
    | error e =>
      cases e with
      | notFound => rfl
      | other => rfl

end Zarrs.Fs
