import ZarrsModel.Lemmas.WriteMapShard3
set_option Elab.async false
/- helper lemmas for C17 (sharded routes), part 4: the model decoder `shardRegion` writes through the views of (b) -/
namespace Zarrs.Partial
open Zarrs Zarrs.Subset Zarrs.Codec

/-- the element the step of item `p` of the chunk iterator writes at index `j` of the region's buffer: the element of
the decoded piece at the position of `j` inside the view -/
def pdWritten (fixed : Option Nat) (fill : Elem) (inner cps : Shape) (entries : List (Nat × Nat))
    (innerPD : Shape → Elem → BHandle → AHandle) (h : BHandle) (r : Subset) (p : Idx × Subset) (j : Idx) : Option Elem :=
  match entries[ravel p.1 cps]? with
  | none => none
  | some e =>
    match shardPart fixed fill inner innerPD h e (r.overlap p.2) p.2 with
    | none => none
    | some part => part[ravel (zipSub j (pdView r p).start) (pdView r p).shape]?

/-- a fold of steps that each write one view, over items with pairwise disjoint views: every position holds what the
(only) item whose view contains it wrote, or the initial value -/
theorem foldOpt_frame {β} (sh : Shape) (f : List Elem → β → Option (List Elem)) (view : β → Subset)
    (val : β → Idx → Option Elem) (L : List β)
    (hstep : ∀ c ∈ L, ∀ out out', out.length = prod sh → f out c = some out' →
      out'.length = prod sh ∧ ∀ j, inB j sh = true → out'[ravel j sh]? =
        if (view c).contains j = true then val c j else out[ravel j sh]?)
    (hdisj : L.Pairwise (fun a b => ∀ j, (view a).contains j = true → (view b).contains j = true → False)) :
    ∀ out out', out.length = prod sh → ArrCfg.foldOpt f out L = some out' →
      out'.length = prod sh ∧ ∀ j, inB j sh = true → out'[ravel j sh]? =
        match L.find? (fun c => (view c).contains j) with
        | some c => val c j
        | none => out[ravel j sh]? := by
  induction L with
  | nil =>
    intro out out' hout h
    simp only [ArrCfg.foldOpt, Option.some.injEq] at h
    subst h
    exact ⟨hout, fun j _ => by simp⟩
  | cons c L ih =>
    intro out out' hout h
    simp only [ArrCfg.foldOpt] at h
    cases h1 : f out c with
    | none => simp [h1] at h
    | some o1 =>
      simp only [h1] at h
      obtain ⟨hl1, hp1⟩ := hstep c (by simp) out o1 hout h1
      rw [List.pairwise_cons] at hdisj
      obtain ⟨hl2, hp2⟩ := ih (fun c' hc' => hstep c' (by simp [hc'])) hdisj.2 o1 out' hl1 h
      refine ⟨hl2, ?_⟩
      intro j hj
      rw [hp2 j hj, List.find?_cons]
      by_cases hcj : (view c).contains j = true
      · have hnone : L.find? (fun c => (view c).contains j) = none := by
          rw [List.find?_eq_none]
          intro c' hc' hcj'
          exact hdisj.1 c' hc' j hcj hcj'
        simp only [hnone, hcj, hp1 j hj, if_true]
      · have hcj' : (view c).contains j = false := by simpa using hcj
        simp only [hcj', hp1 j hj, Bool.false_eq_true, if_false]

/-- **one step writes only its own view** (`copy_from_slice` on `overlap relative to the region`): the positions of
the view receive the decoded piece, every other position keeps its value -/
theorem shardStep_frame (fixed : Option Nat) (es : Nat) (fill : Elem) (inner cps : Shape) (entries : List (Nat × Nat))
    (innerPD : Shape → Elem → BHandle → AHandle) (h : BHandle) (r : Subset) (hr : r.wf = true)
    (hpos : ∀ k ∈ inner, 0 < k) (hcl : inner.length = r.rank)
    (hparts : ∀ e ov cs part, shardPart fixed fill inner innerPD h e ov cs = some part → part.length = ov.numElements)
    (p : Idx × Subset) (hp : p ∈ r.chunks inner) (out out' : List Elem) (hout : out.length = prod r.shape)
    (hs : shardStep fixed es fill inner cps entries innerPD h r out p = some out') :
    out'.length = prod r.shape ∧ ∀ j, inB j r.shape = true → out'[ravel j r.shape]? =
      if (pdView r p).contains j = true then pdWritten fixed fill inner cps entries innerPD h r p j
      else out[ravel j r.shape]? := by
  obtain ⟨_, _, hw, hin, hnum, _⟩ := pdView_facts inner r hr hpos hcl p hp
  simp only [shardStep] at hs
  cases he : entries[ravel p.1 cps]? with
  | none => simp [he] at hs
  | some e =>
    simp only [he] at hs
    cases hpt : shardPart fixed fill inner innerPD h e (r.overlap p.2) p.2 with
    | none => simp [hpt] at hs
    | some part =>
      simp only [hpt] at hs
      split at hs
      · cases hs
      · simp only [Option.some.injEq] at hs
        subst hs
        have hlen : part.length = (pdView r p).numElements := by
          rw [← hnum]; exact hparts e _ _ part hpt
        obtain ⟨h1, h2⟩ := updateRuns_spec r.shape (pdView r p) out part hw hin hout hlen
        refine ⟨h1, ?_⟩
        intro j hj
        have e1 : updateRuns r.shape ((r.overlap p.2).relativeTo r.start) out part =
            updateRuns r.shape (pdView r p) out part := rfl
        rw [e1, h2 j hj]
        simp only [pdWritten, he, hpt]

/-- **`shardRegion` changes the output exactly through the views of (b)**: the buffer it returns has the region's
length and every index of it lies in the view of exactly one item of the chunk iterator and holds the element that
item's step wrote there (no later step touched it, no position keeps the initial zero) -/
theorem shardRegion_frame (fixed : Option Nat) (es : Nat) (fill : Elem) (inner cps : Shape) (entries : List (Nat × Nat))
    (innerPD : Shape → Elem → BHandle → AHandle) (h : BHandle) (r : Subset) (hr : r.wf = true)
    (hpos : ∀ k ∈ inner, 0 < k) (hcl : inner.length = r.rank)
    (hparts : ∀ e ov cs part, shardPart fixed fill inner innerPD h e ov cs = some part → part.length = ov.numElements)
    (out : List Elem) (hs : shardRegion fixed es fill inner cps entries innerPD h r = some out) :
    out.length = r.numElements ∧ ∀ j, inB j r.shape = true →
      ∃ p ∈ r.chunks inner, (pdView r p).contains j = true ∧
        (∀ q ∈ r.chunks inner, (pdView r q).contains j = true → q = p) ∧
        out[ravel j r.shape]? = pdWritten fixed fill inner cps entries innerPD h r p j := by
  have hdisj := pdViews_disjoint inner r hr hpos hcl
  obtain ⟨hl, hp⟩ := foldOpt_frame r.shape (shardStep fixed es fill inner cps entries innerPD h r) (pdView r)
    (pdWritten fixed fill inner cps entries innerPD h r) (r.chunks inner)
    (fun p hp out out' hout hs' => shardStep_frame fixed es fill inner cps entries innerPD h r hr hpos hcl hparts p hp
      out out' hout hs')
    hdisj _ out (by simp [Subset.numElements]) hs
  refine ⟨hl, ?_⟩
  intro j hj
  obtain ⟨p, hpm, hpj⟩ := pdViews_cover inner r hr hpos hcl j hj
  -- the first item whose view contains the index is the only one
  have huniq : ∀ q ∈ r.chunks inner, (pdView r q).contains j = true → q = p := by
    intro q hq hqj
    by_cases hqp : q = p
    · exact hqp
    · exfalso
      rcases List.mem_iff_getElem.mp hq with ⟨a, ha, rfl⟩
      rcases List.mem_iff_getElem.mp hpm with ⟨b, hb, rfl⟩
      have hab : a ≠ b := fun e => hqp (by subst e; rfl)
      rcases Nat.lt_or_gt_of_ne hab with hlt | hgt
      · exact (List.pairwise_iff_getElem.mp hdisj) a b ha hb hlt j hqj hpj
      · exact (List.pairwise_iff_getElem.mp hdisj) b a hb ha hgt j hpj hqj
  refine ⟨p, hpm, hpj, huniq, ?_⟩
  rw [hp j hj]
  cases hf : (r.chunks inner).find? (fun c => (pdView r c).contains j) with
  | none =>
    rw [List.find?_eq_none] at hf
    exact absurd hpj (hf p hpm)
  | some q =>
    have hq := List.find?_some hf
    have hqm := List.mem_of_find?_eq_some hf
    rw [huniq q hqm hq]

end Zarrs.Partial
