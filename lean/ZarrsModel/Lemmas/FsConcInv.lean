import ZarrsModel.Model.FsConc
import ZarrsModel.Lemmas.MemConcAssemble
/- C17 helper lemmas: the per-key RwLock protocol of `FilesystemStore` (`.fixed`): every operation takes effect at
its response step, so the history in response order is itself a linearization. -/
namespace Zarrs.FsConc
open Zarrs.MemConc (Op Res Protocol Done specStep isLinearization legalSeq respectsRealTime readRes getD_set
  respectsRealTime_iff)

/-! ### pure list facts -/

theorem legalSeq_snoc (a : Option Bytes) (l : List Done) (d : Done) (A : Option Bytes)
    (h : legalSeq a l = some A) (hr : (specStep A d.op).2 = d.res) :
    legalSeq a (l ++ [d]) = some (specStep A d.op).1 := by
  induction l generalizing a with
  | nil =>
    simp only [legalSeq, Option.some.injEq] at h
    subst h
    simp [legalSeq, hr]
  | cons e es ih =>
    simp only [List.cons_append, legalSeq] at h ⊢
    split
    · rename_i he
      rw [if_pos he] at h
      exact ih _ h
    · rename_i he
      rw [if_neg he] at h
      cases h

/-! ### `curOp` -/

theorem curOp_congr (ps : Progs) (s s' : State) (h : s'.pc = s.pc) (t : Nat) : curOp ps s' t = curOp ps s t := by
  unfold curOp; rw [h]

theorem curOp_respond_ne (ps : Progs) (s : State) (t t' : Nat) (r : Res) (hne : t ≠ t') :
    curOp ps (respond s t r) t' = curOp ps s t' := by
  unfold curOp respond
  simp only [List.getElem?_set, if_neg hne]

theorem curOp_noPartial (ps : Progs) (hnp : noPartial ps = true) (s : State) (t : Nat) (o : Nat) (v : Bytes) :
    curOp ps s t ≠ some (.setPartial o v) := by
  intro h
  unfold curOp at h
  split at h
  · rename_i p k hp hk
    have hp' : p ∈ ps := List.mem_of_getElem? hp
    have ho : Op.setPartial o v ∈ p := List.mem_of_getElem? h
    unfold noPartial at hnp
    rw [List.all_eq_true] at hnp
    have := hnp p hp'
    rw [List.all_eq_true] at this
    have := this _ ho
    simp at this
  · cases h

theorem curOp_none_of_allFinished (ps : Progs) (s : State) (h : allFinished ps s = true) (t : Nat) :
    curOp ps s t = none := by
  by_cases ht : t < ps.length
  · unfold allFinished at h
    rw [List.all_eq_true] at h
    have := h t (List.mem_range.mpr ht)
    simpa using this
  · unfold curOp
    rw [List.getElem?_eq_none (by omega)]

/-! ### case characterisation of one enabled step of the `.fixed` protocol -/

theorem step_cases (ps : Progs) (hnp : noPartial ps = true) (s : State) (t : Nat)
    (hen : enabled .fixed ps s t = true)
    (hwr : ∀ t, s.ts.getD t .idle = .writing → s.writer = some t ∧ ∃ v, curOp ps s t = some (.set v)) :
    -- M: fetch the key's lock from the registry
    (s.ts.getD t .idle = .idle ∧ step .fixed ps s t = { s with ts := s.ts.set t TS.haveMutex }) ∨
    -- L1 of a set: take the write lock, truncate
    (s.ts.getD t .idle = .haveMutex ∧ s.writer = none ∧ (∃ v, curOp ps s t = some (.set v)) ∧
      step .fixed ps s t = { s with writer := some t, file := some [], ts := s.ts.set t TS.writing }) ∨
    -- the response step of any operation: it is the atomic register's step on the abstract value
    (∃ op, curOp ps s t = some op ∧ (∀ t', s.writer = some t' → t' = t) ∧
      ∀ A, (s.writer = none → A = s.file) →
        step .fixed ps s t = respond { s with file := (specStep A op).1, writer := none } t (specStep A op).2) := by
  unfold enabled at hen
  unfold step
  cases hop : curOp ps s t with
  | none => simp [hop] at hen
  | some op =>
    cases hts : s.ts.getD t TS.idle with
    | idle =>
      left
      refine ⟨rfl, ?_⟩
      cases op <;> rfl
    | haveMutex =>
      have hfree : s.writer = none := by
        rw [hop, hts] at hen
        simpa [lockFree] using hen
      cases op with
      | set v => right; left; exact ⟨rfl, hfree, ⟨v, rfl⟩, rfl⟩
      | setPartial o v => exact absurd hop (curOp_noPartial ps hnp s t o v)
      | get =>
        right; right
        refine ⟨_, rfl, fun t' h' => (by rw [hfree] at h'; cases h'), fun A hA => ?_⟩
        have := hA hfree; subst this
        obtain ⟨file, writer, pc, ts, out⟩ := s
        simp only at hfree; subst hfree
        cases file <;> rfl
      | getRange o n =>
        right; right
        refine ⟨_, rfl, fun t' h' => (by rw [hfree] at h'; cases h'), fun A hA => ?_⟩
        have := hA hfree; subst this
        obtain ⟨file, writer, pc, ts, out⟩ := s
        simp only at hfree; subst hfree
        cases file <;> rfl
      | size =>
        right; right
        refine ⟨_, rfl, fun t' h' => (by rw [hfree] at h'; cases h'), fun A hA => ?_⟩
        have := hA hfree; subst this
        obtain ⟨file, writer, pc, ts, out⟩ := s
        simp only at hfree; subst hfree
        rfl
      | erase =>
        right; right
        refine ⟨_, rfl, fun t' h' => (by rw [hfree] at h'; cases h'), fun A hA => ?_⟩
        obtain ⟨file, writer, pc, ts, out⟩ := s
        simp only at hfree; subst hfree
        rfl
    | writing =>
      obtain ⟨hw, v, hv⟩ := hwr t hts
      rw [hop] at hv
      cases hv
      right; right
      refine ⟨_, rfl, fun t' h' => (by rw [hw] at h'; cases h'; rfl), fun A _ => rfl⟩

end Zarrs.FsConc
