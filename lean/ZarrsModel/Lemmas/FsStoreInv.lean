import ZarrsModel.Lemmas.FsStoreHist
/- every operation keeps the directory tree well formed, whatever it is applied to (also when it fails) -/
set_option Elab.async false
namespace Zarrs.Fs
open Zarrs

theorem unlinkFile_inv (name : Name) (d d' : Tree) (hd : d.Inv) (h : Tree.unlinkFile name d = .ok d') : d'.Inv := by
  unfold Tree.unlinkFile at h
  cases hl : d.lookup1 name with
  | none => rw [hl] at h; cases h
  | some e =>
    rw [hl] at h
    cases e with
    | dir c => cases h
    | file b => simp only [Except.ok.injEq] at h; subst h; exact Tree.inv_del1 d hd name

theorem unlinkDirAll_inv (name : Name) (d d' : Tree) (hd : d.Inv) (h : Tree.unlinkDirAll name d = .ok d') : d'.Inv := by
  unfold Tree.unlinkDirAll at h
  cases hl : d.lookup1 name with
  | none => rw [hl] at h; cases h
  | some e =>
    rw [hl] at h
    cases e with
    | file b => cases h
    | dir c => simp only [Except.ok.injEq] at h; subst h; exact Tree.inv_del1 d hd name

theorem openWrite_inv (t : Tree) (hi : t.Inv) (dirs : List Name) (name : Name) (hn : plainName name = true)
    (f : Option Bytes → Bytes) (t' : Tree) (h : t.openWrite dirs name f = .ok t') : t'.Inv := by
  unfold Tree.openWrite at h
  refine Tree.atDir_inv t dirs _ t' hi ?_ h
  intro d d' hd hf
  cases hl : d.lookup1 name with
  | none =>
    rw [hl] at hf
    simp only [Except.ok.injEq] at hf
    subst hf
    exact Tree.inv_put1 d hd name _ hn trivial
  | some e =>
    rw [hl] at hf
    cases e with
    | dir c => cases hf
    | file b =>
      simp only [Except.ok.injEq] at hf
      subst hf
      exact Tree.inv_put1 d hd name _ hn trivial

theorem setImpl_inv (s : FsState) (hi : FsInv s) (path : List Name) (hpl : ∀ n ∈ path, plainName n = true)
    (v : Bytes) (off : Nat) (tr : Bool) (s' : FsState) (h : s.setImpl path v off tr = .ok s') : FsInv s' := by
  unfold FsState.setImpl at h
  cases hlast : path.getLast? with
  | none => rw [hlast] at h; cases h
  | some name =>
    rw [hlast] at h
    simp only at h
    have hn : plainName name = true := hpl name (List.mem_of_getLast? hlast)
    have hd : ∀ n ∈ path.dropLast, plainName n = true := fun n hn' => hpl n (List.dropLast_subset _ hn')
    have prep : ∀ x, (if s.pathExists path.dropLast then .ok s else s.createDirAll path.dropLast : Except IoErr FsState)
        = .ok x → FsInv x := by
      intro x hx
      split at hx
      · simp only [Except.ok.injEq] at hx; subst hx; exact hi
      · unfold FsState.createDirAll at hx
        cases hm : (s.getD .nil).mkdirAll path.dropLast with
        | error e => rw [hm] at hx; cases hx
        | ok t1 =>
          rw [hm] at hx
          simp only [Except.ok.injEq] at hx
          subst hx
          exact Tree.mkdirAll_inv _ _ t1 hi.content hd hm
    cases hx : (if s.pathExists path.dropLast then .ok s else s.createDirAll path.dropLast : Except IoErr FsState) with
    | error e => rw [hx] at h; cases h
    | ok x =>
      rw [hx] at h
      cases x with
      | none => cases h
      | some t =>
        simp only at h
        cases hw : t.openWrite path.dropLast name
            (fun old => specSetPartial (if tr = true then [] else old.getD []) off v) with
        | error e => rw [hw] at h; cases h
        | ok t' =>
          rw [hw] at h
          simp only [Except.ok.injEq] at h
          subst h
          exact openWrite_inv t (prep _ hx) _ name hn _ t' hw

theorem eraseKey_inv (s : FsState) (hi : FsInv s) (path : List Name) (s' : FsState) (h : s.eraseKey path = .ok s') :
    FsInv s' := by
  unfold FsState.eraseKey at h
  cases s with
  | none =>
    cases hl : path.getLast? with
    | none => rw [hl] at h; cases h
    | some name => rw [hl] at h; simp only [Except.ok.injEq] at h; subst h; exact trivial
  | some t =>
    cases hl : path.getLast? with
    | none => rw [hl] at h; cases h
    | some name =>
      rw [hl] at h
      simp only at h
      cases hr : t.removeFile path.dropLast name with
      | ok t' =>
        rw [hr] at h
        simp only [Except.ok.injEq] at h
        subst h
        exact Tree.atDir_inv t _ _ t' hi (unlinkFile_inv name) hr
      | error e =>
        rw [hr] at h
        cases e with
        | notFound => simp only [Except.ok.injEq] at h; subst h; exact hi
        | other => cases h

theorem erasePrefix_inv (s : FsState) (hi : FsInv s) (path : List Name) (s' : FsState)
    (h : s.erasePrefix path = .ok s') : FsInv s' := by
  unfold FsState.erasePrefix at h
  cases s with
  | none => simp only [Except.ok.injEq] at h; subst h; exact trivial
  | some t =>
    cases hl : path.getLast? with
    | none => rw [hl] at h; simp only [Except.ok.injEq] at h; subst h; exact trivial
    | some name =>
      rw [hl] at h
      simp only at h
      cases hr : t.removeDirAll path.dropLast name with
      | ok t' =>
        rw [hr] at h
        simp only [Except.ok.injEq] at h
        subst h
        exact Tree.atDir_inv t _ _ t' hi (unlinkDirAll_inv name) hr
      | error e =>
        rw [hr] at h
        cases e with
        | notFound => simp only [Except.ok.injEq] at h; subst h; exact hi
        | other =>
          simp only at h
          split at h
          · cases h
          · simp only [Except.ok.injEq] at h; subst h; exact hi

theorem eraseValues_inv (s : FsState) (hi : FsInv s) (ks : List Key) : FsInv (eraseValues s ks).1 := by
  induction ks generalizing s with
  | nil => exact hi
  | cons k rest ih =>
    unfold eraseValues
    cases hk : keyPath k with
    | none => exact hi
    | some path =>
      simp only
      cases he : s.eraseKey path with
      | error e => exact hi
      | ok s' => exact ih s' (eraseKey_inv s hi path s' he)

theorem setPartialGroups_inv (s : FsState) (hi : FsInv s) (gs : List (Key × List (Nat × Bytes))) :
    FsInv (setPartialGroups s gs).1 := by
  induction gs generalizing s with
  | nil => exact hi
  | cons x rest ih =>
    obtain ⟨k, g⟩ := x
    unfold setPartialGroups
    cases hk : keyPath k with
    | none => exact hi
    | some path =>
      simp only
      cases hg : getKey s path with
      | error e => exact hi
      | ok old =>
        simp only
        cases hs : s.setImpl path (rmwGroup (old.getD []) g) 0 true with
        | error e => exact hi
        | ok s' => exact ih s' (setImpl_inv s hi path (keyPath_spec hk).2.2.1 _ _ _ s' hs)

/-- `FsInv` is an invariant of the store, for every operation on every well-formed state -/
theorem fsStep_inv (s : FsState) (hi : FsInv s) (op : StoreOp) : FsInv (fsStep s op).1 := by
  cases op with
  | set k v =>
    simp only [fsStep]
    cases hk : keyPath k with
    | none => exact hi
    | some path =>
      simp only
      cases hs : s.setImpl path v 0 true with
      | error e => exact hi
      | ok s' => exact setImpl_inv s hi path (keyPath_spec hk).2.2.1 _ _ _ s' hs
  | setPartial kovs =>
    simp only [fsStep]
    split
    · exact setPartialGroups_inv s hi _
    · exact hi
  | erase k =>
    simp only [fsStep]
    cases hk : keyPath k with
    | none => exact hi
    | some path =>
      simp only
      cases hs : s.eraseKey path with
      | error e => exact hi
      | ok s' => exact eraseKey_inv s hi path s' hs
  | eraseValues ks =>
    simp only [fsStep]
    split
    · exact eraseValues_inv s hi _
    · exact hi
  | erasePrefix p =>
    simp only [fsStep]
    cases hk : prefixPath p with
    | none => exact hi
    | some path =>
      simp only
      cases hs : s.erasePrefix path with
      | error e => exact hi
      | ok s' => exact erasePrefix_inv s hi path s' hs
  | get k =>
    have : (fsStep s (.get k)).1 = s := by
      simp only [fsStep]; split <;> (try split) <;> rfl
    rw [this]; exact hi
  | getPartial k rs =>
    have : (fsStep s (.getPartial k rs)).1 = s := by
      simp only [fsStep]; split <;> rfl
    rw [this]; exact hi
  | sizeKey k =>
    have : (fsStep s (.sizeKey k)).1 = s := by
      simp only [fsStep]; split <;> (try split) <;> rfl
    rw [this]; exact hi
  | sizePrefix p =>
    have : (fsStep s (.sizePrefix p)).1 = s := by
      simp only [fsStep]; split <;> rfl
    rw [this]; exact hi
  | list => exact hi
  | listPrefix p =>
    have : (fsStep s (.listPrefix p)).1 = s := by
      simp only [fsStep]; split <;> rfl
    rw [this]; exact hi
  | listDir p =>
    have : (fsStep s (.listDir p)).1 = s := by
      simp only [fsStep]; split <;> rfl
    rw [this]; exact hi

theorem fsRun_inv (s : FsState) (hi : FsInv s) (ops : List StoreOp) : FsInv (fsRun s ops) := by
  induction ops generalizing s with
  | nil => exact hi
  | cons op rest ih => exact ih _ (fsStep_inv s hi op)

end Zarrs.Fs
