import ZarrsModel.Lemmas.MemConcWF
import ZarrsModel.Lemmas.MemConcAssemble
/- C18 helper lemmas, part 5: generic facts about view-level steps; the logical value of a cell -/
namespace Zarrs.MemConc

/-! ### generic facts about a step -/

section
variable {ps : Progs} {time : Nat} {v v' : VState} {lin lin' : List LinE} {t : Nat} {r : Option Res}

theorem VStep.ts_other (hst : VStep ps time v lin t v' lin' r) {t' : Nat} (h : t' ≠ t) : v'.ts t' = v.ts t' := by
  cases hst <;> (rename_i hv _ _; subst hv; simp [upd_apply, h])

theorem VStep.pc_other (hst : VStep ps time v lin t v' lin' r) {t' : Nat} (h : t' ≠ t) : v'.pc t' = v.pc t' := by
  cases hst <;> (rename_i hv _ _; subst hv; simp [upd_apply, h])

theorem VStep.pc_self (hst : VStep ps time v lin t v' lin' r) :
    (r = none → v'.pc t = v.pc t ∧ v.ts t = .idle ∧ v'.ts t ≠ .idle) ∧
    (r ≠ none → v'.pc t = v.pc t + 1 ∧ v'.ts t = .idle) := by
  cases hst <;> (rename_i hv _ hr; subst hv hr; simp [upd_apply, *])

theorem VStep.pc_le (hst : VStep ps time v lin t v' lin' r) (t' : Nat) : v.pc t' ≤ v'.pc t' := by
  by_cases h : t' = t
  · subst h
    cases hr : r with
    | none => rw [(hst.pc_self.1 hr).1]; exact Nat.le_refl _
    | some x => rw [(hst.pc_self.2 (by simp [hr])).1]; exact Nat.le_succ _
  · rw [hst.pc_other h]; exact Nat.le_refl _

theorem VStep.ncells_le (hst : VStep ps time v lin t v' lin' r) : v.ncells ≤ v'.ncells := by
  cases hst <;> (rename_i hv _ _; subst hv; simp)

theorem VStep.cur_orphan (hst : VStep ps time v lin t v' lin' r) {c : Nat} (h1 : v.cur ≠ some c)
    (h2 : c < v.ncells) : v'.cur ≠ some c := by
  cases hst <;> (rename_i hv _ _; subst hv; simp) <;> first | exact h1 | omega

theorem VStep.op_self (hst : VStep ps time v lin t v' lin' r) : ∃ op, opAt ps t (v.pc t) = some op := by
  cases hst <;> exact ⟨_, by assumption⟩

end

/-! ### logical values -/

theorem logical_free {ps v c} (h : v.wl c = none) : logical ps v c = v.cell c := by
  simp [logical, h]

theorem logical_locked {ps v c t op} (h : v.wl c = some t) (hop : opAt ps t (v.pc t) = some op) :
    logical ps v c = applyWrite (v.cell c) op := by
  simp [logical, h, hop]

theorem logical_congr {ps v v' c} (h1 : v'.wl c = v.wl c) (h2 : v'.cell c = v.cell c)
    (h3 : ∀ t, v.wl c = some t → v'.pc t = v.pc t) : logical ps v' c = logical ps v c := by
  unfold logical
  rw [h1, h2]
  cases h : v.wl c with
  | none => rfl
  | some t => simp only [h3 t h]

/-- the logical value of a cell only changes when a writer takes its lock (S1), and S1 only locks the current
cell of the key -/
theorem logical_frame {ps time v lin t v' lin' r} (hwf : VWF ps v) (hst : VStep ps time v lin t v' lin' r)
    (c' : Nat) (h : (∀ c0, v'.ts t ≠ .setHold c0) ∨ (v.cur ≠ some c' ∧ c' < v.ncells)) :
    logical ps v' c' = logical ps v c' := by
  have hresp : ∀ (K : Option Nat), (∀ c, v.ts t ≠ .setHold c) →
      logical ps { v with cur := K, pc := upd v.pc t (v.pc t + 1), ts := upd v.ts t .idle } c' = logical ps v c' := by
    intro K hnl
    refine logical_congr ?_ ?_ ?_
    · rfl
    · rfl
    intro t'' ht''
    have : t'' ≠ t := fun e => hnl c' (e ▸ (hwf.lock_iff t'' c').mp ht'')
    simp [upd_apply, this]
  cases hst with
  | s1e op c hop hw hts hcur hfree hv hl hr =>
    subst hv
    have hne : c' ≠ c := by
      rcases h with h | h
      · exact absurd (by simp [upd_apply]) (h c)
      · intro e; exact h.1 (e ▸ hcur)
    refine logical_congr ?_ ?_ ?_
    · simp [upd_apply, hne]
    · rfl
    · intro _ _; rfl
  | s1n op hop hw hts hcur hv hl hr =>
    subst hv
    have hne : c' ≠ v.ncells := by
      rcases h with h | h
      · exact absurd (by simp [upd_apply]) (h v.ncells)
      · exact Nat.ne_of_lt h.2
    refine logical_congr ?_ ?_ ?_
    · simp [upd_apply, hne]
    · rfl
    · intro _ _; rfl
  | s2 op c hop hts hv hl hr =>
    subst hv
    have hlock : v.wl c = some t := (hwf.lock_iff t c).mpr hts
    by_cases hc : c' = c
    · subst hc
      rw [logical_locked hlock hop, logical_free (by simp [upd_apply])]
      simp [upd_apply]
    · refine logical_congr ?_ ?_ ?_
      · simp [upd_apply, hc]
      · simp [upd_apply, hc]
      intro t'' ht''
      have : t'' ≠ t := by
        intro e; subst e
        have := (hwf.lock_iff _ _).mp ht''
        rw [hts] at this; cases this; exact hc rfl
      simp [upd_apply, this]
  | g1m op hop hrd hts hcur hv hl hr =>
    subst hv; exact hresp v.cur (fun c e => by rw [hts] at e; cases e)
  | g1h op c hop hrd hts hcur hv hl hr =>
    subst hv
    refine logical_congr ?_ ?_ ?_
    · rfl
    · rfl
    · intro _ _; rfl
  | g2 op c hop hts hfree hv hl hr =>
    subst hv; exact hresp v.cur (fun c e => by rw [hts] at e; cases e)
  | sz hop hts hfree hv hl hr =>
    subst hv; exact hresp v.cur (fun c e => by rw [hts] at e; cases e)
  | e1 hop hts hv hl hr =>
    subst hv; exact hresp none (fun c e => by rw [hts] at e; cases e)

/-! ### helped readers -/

theorem mem_helpers {ps v c time e} : e ∈ helpers ps v c time ↔
    ∃ t' op, t' < ps.length ∧ v.ts t' = .getHold c ∧ opAt ps t' (v.pc t') = some op ∧
      e = ⟨t', v.pc t', op, readRes op (logical ps v c), time⟩ := by
  simp only [helpers, List.mem_filterMap, List.mem_range]
  constructor
  · rintro ⟨t', ht', h⟩
    split at h
    · rename_i hts
      cases hop : opAt ps t' (v.pc t') with
      | none => simp [hop] at h
      | some op =>
        simp only [hop, Option.map_some, Option.some.injEq] at h
        exact ⟨t', op, ht', hts, hop, h.symm⟩
    · cases h
  · rintro ⟨t', op, ht', hts, hop, rfl⟩
    exact ⟨t', ht', by simp [hts, hop]⟩

theorem helpers_pairwise (ps : Progs) (v : VState) (c time : Nat) :
    (helpers ps v c time).Pairwise (fun a b => a.t ≠ b.t) := by
  unfold helpers
  refine List.Pairwise.filterMap _ ?_ (List.nodup_range (n := ps.length))
  intro a a' hne b hb b' hb'
  split at hb
  · split at hb'
    · cases ha : opAt ps a (v.pc a) with
      | none => simp [ha] at hb
      | some op =>
        cases ha' : opAt ps a' (v.pc a') with
        | none => simp [ha'] at hb'
        | some op' =>
          simp only [ha, ha', Option.map_some, Option.some.injEq] at hb hb'
          subst hb hb'
          exact hne
    · cases hb'
  · cases hb

theorem specStep_read (b : Bytes) (op : Op) (h : isRead op = true) :
    specStep (some b) op = (some b, readRes op b) := by
  cases op <;> simp [isRead] at h <;> simp [specStep, readRes]

theorem specStep_read_none (op : Op) (h : isRead op = true) :
    specStep none op = (none, .bytes none) := by
  cases op <;> simp [isRead] at h <;> simp [specStep]

theorem specStep_write (a : Option Bytes) (op : Op) (h : isWrite op = true) :
    specStep a op = (some (applyWrite (a.getD []) op), .unit) := by
  cases op <;> simp [isWrite] at h <;> simp [specStep, applyWrite, setImpl_full, setImpl_noTrunc]

theorem legalG_reads (b : Bytes) (l : List LinE)
    (h : ∀ e ∈ l, isRead e.op = true ∧ e.res = readRes e.op b) : legalG (some b) l = some (some b) := by
  induction l with
  | nil => rfl
  | cons e es ih =>
    have he := h e List.mem_cons_self
    simp only [legalG, specStep_read b e.op he.1, he.2, if_true]
    exact ih (fun e' he' => h e' (List.mem_cons_of_mem _ he'))

/-- an entry of the ghost list belonging to the operation its thread is still executing -/
def PendOK (ps : Progs) (v : VState) (e : LinE) : Prop :=
  (∃ c, v.ts e.t = .setHold c ∧ e.res = .unit) ∨
  (∃ c, v.ts e.t = .getHold c ∧ v.cur ≠ some c ∧ e.res = readRes e.op (logical ps v c))

end Zarrs.MemConc
